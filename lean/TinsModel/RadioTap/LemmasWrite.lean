import TinsModel.RadioTap.LemmasParser
/- Helper lemmas for C11, part 4: `write_option` on a well-aligned header `layL M F fs`. -/
namespace Tins.RT

theorem PAt_has {M : Meta} (hwf : M.wf) (F : Frame) {fs done rest : List (Nat × Bytes)} {b : Nat} {v : Bytes}
    (hfs : fs = done ++ (b, v) :: rest) (hsz : Sized M fs) : hasFields M (stAt M F fs done b) = true :=
  hasFields_stAt hwf F hfs hsz

/-- the search loop skips the lower fields `lo` and stops in front of the higher ones -/
theorem searchLoop_insert {M : Meta} (hwf : M.wf) {F : Frame} (hF : F.ok M) (hin : F.inert M)
    {fs : List (Nat × Bytes)} (hso : Sorted fs) (hsz : Sized M fs)
    (bit dl : Nat) (hi : List (Nat × Bytes)) (hhi : ∀ f ∈ hi, bit < f.1) :
    ∀ (lo done : List (Nat × Bytes)) (p : Parser) (cand fuel : Nat),
      fs = done ++ (lo ++ hi) → (∀ f ∈ lo, f.1 < bit) → PAt M F fs done (lo ++ hi) p →
      (lo = [] → cand + 4 = encEnd M done F.base) → fuel > lo.length →
      ∃ p', PAt M F fs (done ++ lo) hi p' ∧
        searchLoop M fuel p bit dl cand = .insertAt p' (encEnd M (done ++ lo) F.base - 4) := by
  intro lo
  induction lo with
  | nil =>
    intro done p cand fuel hfs _ hp hc hf
    cases fuel with
    | zero => omega
    | succ f =>
      simp only [List.nil_append, List.append_nil] at hfs hp ⊢
      refine ⟨p, hp, ?_⟩
      have hcand : encEnd M done F.base - 4 = cand := by have := hc rfl; omega
      cases hi with
      | nil =>
        have := hasFields_ended hp
        simp [searchLoop, this, hcand]
      | cons x hi' =>
        obtain ⟨b', v'⟩ := x
        simp only [PAt] at hp
        subst hp
        have hh := hasFields_stAt hwf F hfs hsz
        have hgt : bit < b' := by have := hhi (b', v') (List.mem_cons_self ..); simpa using this
        have hbit : (stAt M F fs done b').bit = b' := rfl
        have hns : (stAt M F fs done b').ns = 0 := rfl
        simp [searchLoop, hh, hbit, hns, hgt, hcand]
  | cons x lo' ih =>
    obtain ⟨b1, v1⟩ := x
    intro done p cand fuel hfs hlo hp hc hf
    cases fuel with
    | zero => simp at hf
    | succ f =>
      simp only [List.cons_append, PAt] at hfs hp
      subst hp
      have hh := hasFields_stAt hwf F hfs hsz
      have hlt : b1 < bit := by have := hlo (b1, v1) (List.mem_cons_self ..); simpa using this
      have hbit : (stAt M F fs done b1).bit = b1 := rfl
      have hngt : ¬ (b1 > bit) := by omega
      have hne : ¬ (b1 = bit) := by omega
      obtain ⟨_, hv1⟩ := sized_mem hsz hfs
      have h8 := le_encEnd M done F.base
      have hbase : 8 ≤ F.base := by simp [Frame.base]
      have hstep := advanceField_step hwf hF hfs hso hsz (fun _ => hin)
      have hfs2 : fs = (done ++ [(b1, v1)]) ++ (lo' ++ hi) := by rw [hfs]; simp
      obtain ⟨p', hp', hres⟩ := ih (done ++ [(b1, v1)]) (advanceField M (stAt M F fs done b1)).1
        ((stAt M F fs done b1).ptr + M.size b1) f hfs2
        (fun g hg => hlo g (List.mem_cons_of_mem _ hg)) hstep
        (fun _ => by simp only [stAt, encEnd_snoc, hv1]; omega) (by simp at hf; omega)
      refine ⟨p', by simpa using hp', ?_⟩
      have hns : ((stAt M F fs done b1).ns == 0) = true := rfl
      unfold searchLoop
      simp only [hh, hns, Bool.and_self, hbit, hngt, hne, if_true, if_false]
      rw [hres]
      simp

/-- the search loop finds a field of the first present word (whatever follows the first word's fields) -/
theorem searchLoop_found {M : Meta} (hwf : M.wf) {F : Frame} (hF : F.ok M)
    {fs : List (Nat × Bytes)} (hso : Sorted fs) (hsz : Sized M fs)
    (bit dl : Nat) (old : Bytes) (hi : List (Nat × Bytes)) (hdl : dl ≤ old.length) :
    ∀ (lo done : List (Nat × Bytes)) (p : Parser) (cand fuel : Nat),
      fs = done ++ (lo ++ (bit, old) :: hi) → (∀ f ∈ lo, f.1 < bit) → PAt M F fs done (lo ++ (bit, old) :: hi) p →
      fuel > lo.length →
      searchLoop M fuel p bit dl cand = .found (stAt M F fs (done ++ lo) bit) := by
  intro lo
  induction lo with
  | nil =>
    intro done p cand fuel hfs _ hp hf
    cases fuel with
    | zero => omega
    | succ f =>
      simp only [List.nil_append, List.append_nil, PAt] at hfs hp ⊢
      subst hp
      have hh := hasFields_stAt hwf F hfs hsz
      have hbit : (stAt M F fs done bit).bit = bit := rfl
      have hlen := layL_length' M F fs
      have hend : encEnd M fs F.base = encEnd M hi (encEnd M done F.base + padTo (M.align bit) (encEnd M done F.base) + old.length) := by
        rw [hfs, encEnd_append, encEnd_cons]
      have hle := le_encEnd M hi (encEnd M done F.base + padTo (M.align bit) (encEnd M done F.base) + old.length)
      have h8 := le_encEnd M done F.base
      have hbase : 8 ≤ F.base := by simp [Frame.base]
      have hav : ¬ (dl > (stAt M F fs done bit).buf.length - (stAt M F fs done bit).ptr) := by
        simp only [stAt]; omega
      have hns : (stAt M F fs done bit).ns = 0 := rfl
      unfold searchLoop
      simp [hh, hbit, hns, hav]
  | cons x lo' ih =>
    obtain ⟨b1, v1⟩ := x
    intro done p cand fuel hfs hlo hp hf
    cases fuel with
    | zero => simp at hf
    | succ f =>
      simp only [List.cons_append, PAt] at hfs hp
      subst hp
      have hh := hasFields_stAt hwf F hfs hsz
      have hlt : b1 < bit := by have := hlo (b1, v1) (List.mem_cons_self ..); simpa using this
      have hbit : (stAt M F fs done b1).bit = b1 := rfl
      have hngt : ¬ (b1 > bit) := by omega
      have hne : ¬ (b1 = bit) := by omega
      have hstep := advanceField_step hwf hF hfs hso hsz (fun h => by simp at h)
      have hfs2 : fs = (done ++ [(b1, v1)]) ++ (lo' ++ (bit, old) :: hi) := by rw [hfs]; simp
      have hres := ih (done ++ [(b1, v1)]) (advanceField M (stAt M F fs done b1)).1
        ((stAt M F fs done b1).ptr + M.size b1) f hfs2
        (fun g hg => hlo g (List.mem_cons_of_mem _ hg)) hstep (by simp at hf; omega)
      have hns : ((stAt M F fs done b1).ns == 0) = true := rfl
      unfold searchLoop
      simp only [hh, hns, Bool.and_self, hbit, hngt, hne, if_true, if_false]
      rw [hres]
      simp

/-- `build_padding_vector` describes exactly the remaining fields of the first present word -/
theorem buildPaddingVector_spec {M : Meta} (hwf : M.wf) {F : Frame} (hF : F.ok M) (hin : F.inert M)
    {fs : List (Nat × Bytes)} (hso : Sorted fs) (hsz : Sized M fs) :
    ∀ (rest done : List (Nat × Bytes)) (p : Parser) (last fuel : Nat),
      fs = done ++ rest → PAt M F fs done rest p → last + 4 = encEnd M done F.base → fuel > rest.length →
      buildPaddingVector M fuel p last = descL M rest (encEnd M done F.base) := by
  intro rest
  induction rest with
  | nil =>
    intro done p last fuel _ hp _ hf
    cases fuel with
    | zero => omega
    | succ f =>
      have := hasFields_ended hp
      simp [buildPaddingVector, this, descL]
  | cons x rest' ih =>
    obtain ⟨b, v⟩ := x
    intro done p last fuel hfs hp hl hf
    cases fuel with
    | zero => simp at hf
    | succ f =>
      simp only [PAt] at hp
      subst hp
      have hh := hasFields_stAt hwf F hfs hsz
      obtain ⟨_, hv⟩ := sized_mem hsz hfs
      have h8 := le_encEnd M done F.base
      have hbase : 8 ≤ F.base := by simp [Frame.base]
      have hstep := advanceField_step hwf hF hfs hso hsz (fun _ => hin)
      have hfs2 : fs = (done ++ [(b, v)]) ++ rest' := by rw [hfs]; simp
      have hres := ih (done ++ [(b, v)]) (advanceField M (stAt M F fs done b)).1
        ((stAt M F fs done b).ptr + M.size b) f hfs2 hstep
        (by simp only [stAt, encEnd_snoc, hv]; omega) (by simp at hf; omega)
      have hpad : (stAt M F fs done b).ptr - last = padTo (M.align b) (encEnd M done F.base) := by
        simp only [stAt]; omega
      have hbit : (stAt M F fs done b).bit = b := rfl
      unfold buildPaddingVector
      simp only [hh, if_true, descL]
      rw [hpad, hbit, hres, encEnd_snoc]

theorem sorted_length_le (n : Nat) : ∀ (fs : List (Nat × Bytes)) (a : Nat), a ≤ n → Sorted fs →
    (∀ f ∈ fs, a ≤ f.1 ∧ f.1 < n) → fs.length + a ≤ n := by
  intro fs
  induction fs with
  | nil => intro a ha _ _; simpa using ha
  | cons x r ih =>
    intro a ha hs hb
    have hx := hb x (List.mem_cons_self ..)
    unfold Sorted at hs
    rw [List.pairwise_cons] at hs
    have := ih (x.1 + 1) (by omega) hs.2 (fun f hf => ⟨by have := hs.1 f hf; omega, (hb f (List.mem_cons_of_mem _ hf)).2⟩)
    simp only [List.length_cons]
    omega

theorem length_lt_loopFuel {M : Meta} {fs : List (Nat × Bytes)} (hso : Sorted fs) (hsz : Sized M fs) (buf : Bytes) :
    fs.length < loopFuel M buf := by
  have h := sorted_length_le M.max fs 0 (Nat.zero_le _) hso (fun f hf => ⟨Nat.zero_le _, (hsz f hf).1⟩)
  unfold loopFuel
  have : (M.max + 1) * 1 ≤ (M.max + 1) * (buf.length / 4 + 2) := Nat.mul_le_mul_left _ (by omega)
  omega

theorem sorted_append_left {xs ys : List (Nat × Bytes)} (h : Sorted (xs ++ ys)) : Sorted xs := by
  unfold Sorted at h ⊢
  rw [List.pairwise_append] at h
  exact h.1

theorem sorted_append_right {xs ys : List (Nat × Bytes)} (h : Sorted (xs ++ ys)) : Sorted ys := by
  unfold Sorted at h ⊢
  rw [List.pairwise_append] at h
  exact h.2.1

theorem sized_append_left {M : Meta} {xs ys : List (Nat × Bytes)} (h : Sized M (xs ++ ys)) : Sized M xs :=
  fun f hf => h f (List.mem_append_left _ hf)

theorem sized_append_right {M : Meta} {xs ys : List (Nat × Bytes)} (h : Sized M (xs ++ ys)) : Sized M ys :=
  fun f hf => h f (List.mem_append_right _ hf)

theorem canonL_nonempty (M : Meta) (fs : List (Nat × Bytes)) : (canonL M fs).isEmpty = false := by
  simp [canonL, le32]

theorem or_right_comm' (a b c : Nat) : (a ||| b) ||| c = (a ||| c) ||| b := by
  rw [Nat.or_assoc, Nat.or_comm b c, ← Nat.or_assoc]

/-- with `M.lowAlign`, a field above bit 0 placed right after the present words needs no padding -/
theorem padTo_base {M : Meta} (hla : M.lowAlign) {F : Frame} (hF : F.ok M) (b : Nat) (hb0 : 0 < b) (hb : b < M.max) :
    padTo (M.align b) F.base = 0 := by
  have h4 := hla b hb hb0
  have hw := wsb_length hF
  unfold padTo Frame.base
  rw [hw]
  have h8 : (8 + 4 * F.k) % M.align b = 0 := by
    have : 8 + 4 * F.k = 4 * (2 + F.k) := by omega
    rw [this]
    exact Nat.mod_eq_zero_of_dvd (Nat.dvd_trans (Nat.dvd_of_mod_eq_zero h4) (Nat.dvd_mul_right 4 _))
  simp [h8]

/-- `write_option` of a field that is not yet present in the first present word, on the header of `lo ++ hi` -/
theorem writeOption_insert {M : Meta} (hwf : M.wf) (hla : M.lowAlign) {F : Frame} (hF : F.ok M) (hin : F.inert M)
    (lo hi : List (Nat × Bytes)) (bit : Nat) (data : Bytes)
    (hso : Sorted (lo ++ (bit, data) :: hi)) (hsz : Sized M (lo ++ (bit, data) :: hi)) :
    writeOption M (layL M F (lo ++ hi)) bit data = .ok (layL M F (lo ++ (bit, data) :: hi)) := by
  obtain ⟨hlo, hhi, hshi⟩ := sorted_split hso
  simp only at hlo hhi
  obtain ⟨hbit, hdata⟩ := sized_mem hsz rfl
  have hal := (hwf.2 bit hbit).2
  have hapos : 0 < M.align bit := by omega
  have hso' : Sorted (lo ++ hi) := by
    unfold Sorted at hso ⊢
    rw [List.pairwise_append] at hso ⊢
    obtain ⟨h1, h2, h3⟩ := hso
    rw [List.pairwise_cons] at h2
    exact ⟨h1, h2.2, fun a ha b hb => h3 a ha b (List.mem_cons_of_mem _ hb)⟩
  have hsz' : Sized M (lo ++ hi) := by
    intro f hf
    apply hsz f
    rw [List.mem_append] at hf ⊢
    rcases hf with hf | hf
    · exact Or.inl hf
    · exact Or.inr (List.mem_cons_of_mem _ hf)
  have hszhi : Sized M hi := sized_append_right hsz'
  have hne := layL_nonempty M F (lo ++ hi)
  have hbase : 8 ≤ F.base := by simp [Frame.base]
  -- the parser and the search loop
  obtain ⟨p0, hp0, hpat0, hptr0, _⟩ := mk_layL hwf hF hso' hsz'
  have hcand0 : lo = [] → p0.ptr + 4 = encEnd M [] F.base := by
    intro hlo0
    rw [encEnd_nil]
    cases hhi0 : hi with
    | nil => exact hptr0 (by rw [hlo0, hhi0]; rfl)
    | cons x hi' =>
      obtain ⟨b', v'⟩ := x
      have hp : p0 = stAt M F (lo ++ hi) [] b' := by
        have := hpat0
        rw [hlo0, hhi0] at this
        simpa [PAt, hlo0, hhi0] using this
      have hb'gt : bit < b' := by have := hhi (b', v') (by rw [hhi0]; exact List.mem_cons_self ..); simpa using this
      have hb'm : b' < M.max := (hszhi (b', v') (by rw [hhi0]; exact List.mem_cons_self ..)).1
      rw [hp]
      simp only [stAt, encEnd_nil, padTo_base hla hF b' (by omega) hb'm]
      omega
  have hfuel_lo : (loopFuel M (layL M F (lo ++ hi))) > lo.length :=
    length_lt_loopFuel (sorted_append_left hso') (sized_append_left hsz') _
  have hfuel_hi : (loopFuel M (layL M F (lo ++ hi))) > hi.length :=
    length_lt_loopFuel (sorted_append_right hso') hszhi _
  obtain ⟨p1, hpat1, hsearch⟩ := searchLoop_insert hwf hF hin hso' hsz' bit data.length hi hhi lo [] p0 p0.ptr
    (loopFuel M (layL M F (lo ++ hi))) (by simp) hlo hpat0 hcand0 hfuel_lo
  simp only [List.nil_append] at hpat1 hsearch
  have h8 := le_encEnd M lo F.base
  have hbuild := buildPaddingVector_spec hwf hF hin hso' hsz' hi lo p1 (encEnd M lo F.base - 4)
    (loopFuel M (layL M F (lo ++ hi))) rfl hpat1 (by omega) hfuel_hi
  -- the buffer, split at the insertion point
  have hW := W_lt hwf hF hsz'
  have hB : layL M F (lo ++ hi) = (le32 (presentWord (lo ++ hi) ||| F.hb) ++ F.wsb ++ enc M lo F.base) ++
      (enc M hi (encEnd M lo F.base) ++ F.tail) := by
    simp [layL, enc_append]
  have hPlen : (le32 (presentWord (lo ++ hi) ||| F.hb) ++ F.wsb ++ enc M lo F.base).length = encEnd M lo F.base - 4 := by
    simp [le32, encEnd, Frame.base]; omega
  have hpadding : calculatePadding (M.align bit) (encEnd M lo F.base - 4 + 4) = padTo (M.align bit) (encEnd M lo F.base) := by
    rw [calculatePadding_eq _ _ hapos]
    congr 1
    omega
  have hnot : ¬ (encEnd M lo F.base - 4 > (layL M F (lo ++ hi)).length) := by
    rw [hB, List.length_append, hPlen]; omega
  have htake : (layL M F (lo ++ hi)).take (encEnd M lo F.base - 4)
      = le32 (presentWord (lo ++ hi) ||| F.hb) ++ F.wsb ++ enc M lo F.base := by
    rw [hB]; exact List.take_left' hPlen
  have hdrop : (layL M F (lo ++ hi)).drop (encEnd M lo F.base - 4) = enc M hi (encEnd M lo F.base) ++ F.tail := by
    rw [hB]; exact List.drop_left' hPlen
  let pre := le32 (presentWord (lo ++ hi) ||| F.hb) ++ F.wsb ++ enc M lo F.base ++
    zeros (padTo (M.align bit) (encEnd M lo F.base)) ++ data
  have hprelen : pre.length + 4 = encEnd M lo F.base + padTo (M.align bit) (encEnd M lo F.base) + data.length := by
    simp only [pre, List.length_append, zeros_length]
    have := hPlen
    simp only [List.length_append] at this
    omega
  have hupd := updatePaddings_spec M hwf F.tail hi (encEnd M lo F.base) 0 0
    ((encEnd M lo F.base - 4 + padTo (M.align bit) (encEnd M lo F.base) + data.length : Nat) : Int) pre
    ((descL M hi (encEnd M lo F.base)).length + 1) hszhi (by omega)
    (by omega)
  simp only [List.replicate_zero, List.nil_append] at hupd
  -- run the code
  unfold writeOption
  have hbit' : ¬ (bit ≥ M.max) := by omega
  simp only [hbit', if_false, hp0, hsearch, hne, Bool.false_eq_true, hbuild, hpadding, hnot, htake, hdrop]
  have hbuf1 : le32 (presentWord (lo ++ hi) ||| F.hb) ++ F.wsb ++ enc M lo F.base ++
      zeros (padTo (M.align bit) (encEnd M lo F.base)) ++ data ++
      (enc M hi (encEnd M lo F.base) ++ F.tail) = pre ++ (enc M hi (encEnd M lo F.base) ++ F.tail) := rfl
  rw [hbuf1, hupd]
  simp only
  have hread : read32 (pre ++ (enc M hi (pre.length + 4) ++ F.tail)) 0 = presentWord (lo ++ hi) ||| F.hb := by
    simp only [pre, List.append_assoc]
    rw [read32_le32]; omega
  have hdrop4 : (pre ++ (enc M hi (pre.length + 4) ++ F.tail)).drop 4
      = F.wsb ++ (enc M lo F.base ++ (zeros (padTo (M.align bit) (encEnd M lo F.base)) ++
          (data ++ (enc M hi (pre.length + 4) ++ F.tail)))) := by
    simp only [pre, List.append_assoc]
    rw [drop4_le32]
  rw [hread, hdrop4, hprelen, or_right_comm']
  simp only [layL, presentWord_insert, enc_append, enc, List.append_assoc]

/-- where a field of the first present word sits in the header -/
theorem layL_split (M : Meta) (F : Frame) (lo hi : List (Nat × Bytes)) (bit : Nat) (v : Bytes) :
    layL M F (lo ++ (bit, v) :: hi)
      = (le32 (presentWord (lo ++ (bit, v) :: hi) ||| F.hb) ++ F.wsb ++ enc M lo F.base ++
          zeros (padTo (M.align bit) (encEnd M lo F.base))) ++
        (v ++ (enc M hi (encEnd M lo F.base + padTo (M.align bit) (encEnd M lo F.base) + v.length) ++ F.tail)) := by
  simp [layL, enc_append, enc]

theorem layL_split_len (M : Meta) (F : Frame) (lo : List (Nat × Bytes)) (bit W : Nat) :
    (le32 W ++ F.wsb ++ enc M lo F.base ++ zeros (padTo (M.align bit) (encEnd M lo F.base))).length
      = encEnd M lo F.base + padTo (M.align bit) (encEnd M lo F.base) - 4 := by
  simp [le32, encEnd, zeros_length, Frame.base]; omega

/-- `write_option` of a field that is already present in the first present word: overwritten in place, whatever
    follows the first word's fields -/
theorem writeOption_overwrite {M : Meta} (hwf : M.wf) {F : Frame} (hF : F.ok M) (lo hi : List (Nat × Bytes)) (bit : Nat)
    (old data : Bytes) (hso : Sorted (lo ++ (bit, old) :: hi)) (hsz : Sized M (lo ++ (bit, old) :: hi))
    (hlen : data.length = old.length) :
    writeOption M (layL M F (lo ++ (bit, old) :: hi)) bit data = .ok (layL M F (lo ++ (bit, data) :: hi)) := by
  obtain ⟨hlo, _, _⟩ := sorted_split hso
  simp only at hlo
  obtain ⟨hbit, hold⟩ := sized_mem hsz rfl
  obtain ⟨p0, hp0, hpat0, _, _⟩ := mk_layL hwf hF hso hsz
  have hfound := searchLoop_found hwf hF hso hsz bit data.length old hi (by omega) lo [] p0 p0.ptr
    (loopFuel M (layL M F (lo ++ (bit, old) :: hi))) (by simp) hlo hpat0
    (length_lt_loopFuel (sorted_append_left hso) (sized_append_left hsz) _)
  simp only [List.nil_append] at hfound
  have hsplit := layL_split M F lo hi bit old
  have hplen := layL_split_len M F lo bit (presentWord (lo ++ (bit, old) :: hi) ||| F.hb)
  have hptr : (stAt M F (lo ++ (bit, old) :: hi) lo bit).ptr
      = encEnd M lo F.base + padTo (M.align bit) (encEnd M lo F.base) - 4 := rfl
  have hnot : ¬ ((stAt M F (lo ++ (bit, old) :: hi) lo bit).ptr + data.length > (layL M F (lo ++ (bit, old) :: hi)).length) := by
    rw [hptr, hsplit, List.length_append, hplen]
    simp only [List.length_append]
    omega
  unfold writeOption
  have hbit' : ¬ (bit ≥ M.max) := by omega
  simp only [hbit', if_false, hp0, hfound, hptr]
  rw [hsplit, List.take_left' hplen]
  have hd : (le32 (presentWord (lo ++ (bit, old) :: hi) ||| F.hb) ++ F.wsb ++ enc M lo F.base ++
      zeros (padTo (M.align bit) (encEnd M lo F.base)) ++
      (old ++ (enc M hi (encEnd M lo F.base + padTo (M.align bit) (encEnd M lo F.base) + old.length) ++ F.tail))).drop
        (encEnd M lo F.base + padTo (M.align bit) (encEnd M lo F.base) - 4 + data.length)
      = enc M hi (encEnd M lo F.base + padTo (M.align bit) (encEnd M lo F.base) + old.length) ++ F.tail := by
    rw [← hplen, List.drop_length_add_append, hlen]
    exact List.drop_left
  rw [hd, layL_split M F lo hi bit data, presentWord_replace lo hi bit old data, hlen]
  simp only [List.append_assoc]
  rw [if_neg]
  have := hplen
  simp only [List.length_append, le32_length, zeros_length] at this ⊢
  omega

end Tins.RT
