import TinsModel.RadioTap.LemmasBasic
/- Helper lemmas for C11, part 2: the padding vector and `update_paddings`. -/
namespace Tins.RT

/-- the padding vector `build_padding_vector` produces for the fields `fs` laid out from offset `off` -/
def descL (M : Meta) : List (Nat × Bytes) → Nat → List Nat
  | [], _ => []
  | (b, v) :: r, off =>
    List.replicate (padTo (M.align b) off) 0 ++ [M.align b] ++ List.replicate (M.size b - 1) 1 ++
      descL M r (off + padTo (M.align b) off + v.length)

theorem skipEq_replicate_append (v : Nat) (n : Nat) (r : List Nat) (i : Nat) :
    skipEq v (List.replicate n v ++ r) i = skipEq v r (i + n) := by
  induction n generalizing i with
  | zero => simp
  | succ n ih =>
    simp only [List.replicate_succ, List.cons_append, skipEq, if_true, ih]
    congr 1
    omega

theorem skipEq_cons_ne (v x : Nat) (r : List Nat) (i : Nat) (h : x ≠ v) : skipEq v (x :: r) i = (x :: r, i) := by
  simp [skipEq, h]

theorem skipEq_one_zeros_cons (e a : Nat) (t : List Nat) (j : Nat) (ha : a ≠ 1) :
    skipEq 1 (List.replicate e 0 ++ a :: t) j = (List.replicate e 0 ++ a :: t, j) := by
  cases e with
  | zero => simp [skipEq, ha]
  | succ e => simp [List.replicate_succ, skipEq]

theorem take_pre (pre x : Bytes) : (pre ++ x).take pre.length = pre := by simp

theorem drop_pre_add (pre x : Bytes) (d : Nat) : (pre ++ x).drop (pre.length + d) = x.drop d := by
  simp

theorem drop_zeros (e d : Nat) (x : Bytes) (h : d ≤ e) : (zeros e ++ x).drop d = zeros (e - d) ++ x := by
  unfold zeros
  rw [List.drop_append_of_le_length (by simpa using h), List.drop_replicate]

theorem zeros_add (a b : Nat) : zeros (a + b) = zeros a ++ zeros b := by
  simp [zeros]

/-- `update_paddings` on a padding vector that describes the fields `rest` and then goes on with `X` (entries for
    what libtins reads as fields of the last present word): every field of `rest` ends up at its aligned offset, and
    whatever the run over `X` does to the bytes `T` behind them (`hX`) is done behind them -/
theorem updatePaddings_cont (M : Meta) (hwf : M.wf) (T : Bytes) (X : List Nat) (idx : Nat)
    (hX : ∀ (k i : Nat) (offset : Int) (pre : Bytes) (fuel : Nat), i + k = idx → (pre.length : Int) = offset + i + k →
      fuel > k + X.length →
      ∃ T', updatePaddings fuel (List.replicate k 1 ++ X) i offset (pre ++ T) = .ok (pre ++ T')) :
    ∀ (rest : List (Nat × Bytes)) (off k i : Nat) (offset : Int) (pre : Bytes) (fuel : Nat),
      Sized M rest → i + k + (descL M rest off).length = idx → (pre.length : Int) = offset + i + k →
      fuel > k + (descL M rest off).length + X.length →
      ∃ T', updatePaddings fuel (List.replicate k 1 ++ (descL M rest off ++ X)) i offset (pre ++ (enc M rest off ++ T))
        = .ok (pre ++ (enc M rest (pre.length + 4) ++ T')) := by
  intro rest
  induction rest with
  | nil =>
    intro off k i offset pre fuel _ hidx hpre hf
    simp only [descL, enc, List.nil_append]
    exact hX k i offset pre fuel (by simpa [descL] using hidx) hpre (by simpa [descL] using hf)
  | cons x r ih =>
    obtain ⟨b, v⟩ := x
    intro off k i offset pre fuel hs hidx hpre hf
    have hb := hs (b, v) (List.mem_cons_self ..)
    have hr : Sized M r := fun f hf' => hs f (List.mem_cons_of_mem _ hf')
    obtain ⟨hbmax, hvlen⟩ := hb
    simp only at hbmax hvlen
    obtain ⟨hsz, hal⟩ := hwf.2 b hbmax
    have hvpos : 0 < v.length := by omega
    by_cases ha1 : M.align b = 1
    · -- alignment 1: the whole field is a run of ones, consumed by the skip loop
      have hd : List.replicate k 1 ++ (descL M ((b, v) :: r) off ++ X)
          = List.replicate (k + v.length) 1 ++ (descL M r (off + v.length) ++ X) := by
        simp only [descL, ha1, padTo_one, List.replicate_zero, List.nil_append, Nat.add_zero]
        have : ([1] : List Nat) = List.replicate 1 1 := rfl
        rw [this, ← hvlen]
        simp only [← List.append_assoc, List.replicate_append_replicate]
        congr 3
        omega
      have he : pre ++ (enc M ((b, v) :: r) off ++ T) = (pre ++ v) ++ (enc M r (off + v.length) ++ T) := by
        simp [enc, ha1, padTo_one, zeros]
      rw [hd, he]
      have hlen : (descL M ((b, v) :: r) off).length = v.length + (descL M r (off + v.length)).length := by
        simp only [descL, ha1, padTo_one, List.length_append, List.length_replicate, List.length_cons,
          List.length_nil, Nat.add_zero]
        omega
      obtain ⟨T', hT'⟩ := ih (off + v.length) (k + v.length) i offset (pre ++ v) fuel hr (by omega)
        (by simp only [List.length_append]; omega) (by omega)
      refine ⟨T', ?_⟩
      rw [hT']
      simp [enc, ha1, padTo_one, zeros, Nat.add_assoc, Nat.add_comm, Nat.add_left_comm]
    · -- alignment 2/4/8: one iteration of the outer loop
      have ha0 : M.align b ≠ 0 := by omega
      have hapos : 0 < M.align b := by omega
      cases fuel with
      | zero => omega
      | succ f =>
        let e := padTo (M.align b) off
        let off' := off + padTo (M.align b) off + v.length
        have hdesc : descL M ((b, v) :: r) off ++ X
            = List.replicate e 0 ++ M.align b :: (List.replicate (M.size b - 1) 1 ++ (descL M r off' ++ X)) := by
          simp [descL, e, off']
        have s1 : skipEq 1 (List.replicate k 1 ++ (descL M ((b, v) :: r) off ++ X)) i
            = (List.replicate e 0 ++ M.align b :: (List.replicate (M.size b - 1) 1 ++ (descL M r off' ++ X)), i + k) := by
          rw [skipEq_replicate_append, hdesc, skipEq_one_zeros_cons _ _ _ _ ha1]
        have s2 : skipEq 0 (List.replicate e 0 ++ M.align b :: (List.replicate (M.size b - 1) 1 ++ (descL M r off' ++ X))) (i + k)
            = (M.align b :: (List.replicate (M.size b - 1) 1 ++ (descL M r off' ++ X)), i + k + e) := by
          rw [skipEq_replicate_append, skipEq_cons_ne _ _ _ _ ha0]
        have hpos : (offset + ((i + k : Nat) : Int)).toNat = pre.length := by omega
        have hnonneg : ¬ (offset + ((i + k : Nat) : Int) < 0) := by omega
        have hneeded : calculatePadding (M.align b) (pre.length + 4) % 256 = padTo (M.align b) (pre.length + 4) := by
          rw [calculatePadding_eq _ _ hapos]
          have := padTo_lt (M.align b) (pre.length + 4) hapos
          omega
        have hbuf : pre ++ (enc M ((b, v) :: r) off ++ T) = pre ++ (zeros e ++ (v ++ (enc M r off' ++ T))) := by
          simp [enc, e, off']
        have hflen : (descL M ((b, v) :: r) off).length = e + 1 + (M.size b - 1) + (descL M r off').length := by
          simp [descL, e, off']; omega
        have htarget : ∀ T', pre ++ (enc M ((b, v) :: r) (pre.length + 4) ++ T')
            = (pre ++ zeros (padTo (M.align b) (pre.length + 4)) ++ v) ++
              (enc M r ((pre ++ zeros (padTo (M.align b) (pre.length + 4)) ++ v).length + 4) ++ T') := by
          intro T'
          simp only [enc, List.append_assoc, List.length_append, zeros_length]
          congr 5
          omega
        unfold updatePaddings
        simp only [s1, s2, hpos, hneeded, hnonneg, false_or]
        have hex : i + k + e - (i + k) = e := by omega
        simp only [hex]
        generalize hn : padTo (M.align b) (pre.length + 4) = needed at htarget ⊢
        have hlenbuf : (pre ++ (enc M ((b, v) :: r) off ++ T)).length
            = pre.length + (e + (v.length + ((enc M r off').length + T.length))) := by
          rw [hbuf]; simp [zeros_length]
        by_cases hgt : e > needed
        · simp only [hgt, if_true]
          have hnf : ¬ (pre.length + (e - needed) > (pre ++ (enc M ((b, v) :: r) off ++ T)).length) := by
            rw [hlenbuf]; omega
          simp only [hnf, if_false]
          have hb' : (pre ++ (enc M ((b, v) :: r) off ++ T)).take pre.length ++
              (pre ++ (enc M ((b, v) :: r) off ++ T)).drop (pre.length + (e - needed))
              = (pre ++ zeros needed ++ v) ++ (enc M r off' ++ T) := by
            rw [hbuf, take_pre, drop_pre_add, drop_zeros _ _ _ (by omega)]
            have : e - (e - needed) = needed := by omega
            simp [this]
          rw [hb']
          obtain ⟨T', hT'⟩ := ih off' (M.size b - 1) (i + k + e + 1) (offset - ((e - needed : Nat) : Int))
            (pre ++ zeros needed ++ v) f hr (by omega)
            (by simp only [List.length_append, zeros_length]; omega) (by omega)
          exact ⟨T', by rw [hT', htarget]⟩
        · simp only [hgt, if_false]
          by_cases hlt : e < needed
          · simp only [hlt, if_true]
            have hnf : ¬ (pre.length > (pre ++ (enc M ((b, v) :: r) off ++ T)).length) := by
              rw [hlenbuf]; omega
            simp only [hnf, if_false]
            have hb' : (pre ++ (enc M ((b, v) :: r) off ++ T)).take pre.length ++ zeros (needed - e) ++
                (pre ++ (enc M ((b, v) :: r) off ++ T)).drop pre.length
                = (pre ++ zeros needed ++ v) ++ (enc M r off' ++ T) := by
              have h0 := drop_pre_add pre (zeros e ++ (v ++ (enc M r off' ++ T))) 0
              simp only [Nat.add_zero, List.drop_zero] at h0
              rw [hbuf, take_pre, h0]
              have : needed = (needed - e) + e := by omega
              rw [this, zeros_add]
              simp
            rw [hb']
            obtain ⟨T', hT'⟩ := ih off' (M.size b - 1) (i + k + e + 1) (offset + ((needed - e : Nat) : Int))
              (pre ++ zeros needed ++ v) f hr (by omega)
              (by simp only [List.length_append, zeros_length]; omega) (by omega)
            exact ⟨T', by rw [hT', htarget]⟩
          · simp only [hlt, if_false]
            have heq : e = needed := by omega
            have hb' : pre ++ (enc M ((b, v) :: r) off ++ T) = (pre ++ zeros needed ++ v) ++ (enc M r off' ++ T) := by
              rw [hbuf, heq]; simp
            rw [hb']
            obtain ⟨T', hT'⟩ := ih off' (M.size b - 1) (i + k + e + 1) offset
              (pre ++ zeros needed ++ v) f hr (by omega)
              (by simp only [List.length_append, zeros_length]; omega) (by omega)
            exact ⟨T', by rw [hT', htarget]⟩

/-- `update_paddings` on the fields `rest` (followed by foreign bytes `T`, which it never touches): every field ends
    up at its aligned offset -/
theorem updatePaddings_spec (M : Meta) (hwf : M.wf) (T : Bytes) :
    ∀ (rest : List (Nat × Bytes)) (off k i : Nat) (offset : Int) (pre : Bytes) (fuel : Nat),
      Sized M rest → (pre.length : Int) = offset + i + k → fuel > k + (descL M rest off).length →
      updatePaddings fuel (List.replicate k 1 ++ descL M rest off) i offset (pre ++ (enc M rest off ++ T))
        = .ok (pre ++ (enc M rest (pre.length + 4) ++ T)) := by
  intro rest
  induction rest with
  | nil =>
    intro off k i offset pre fuel _ _ hf
    cases fuel with
    | zero => omega
    | succ f =>
      have h1 : skipEq 1 (List.replicate k 1 ++ []) i = ([], i + k) := by
        rw [skipEq_replicate_append]; rfl
      simp only [descL, enc, updatePaddings, h1, skipEq]
  | cons x r ih =>
    obtain ⟨b, v⟩ := x
    intro off k i offset pre fuel hs hpre hf
    have hb := hs (b, v) (List.mem_cons_self ..)
    have hr : Sized M r := fun f hf' => hs f (List.mem_cons_of_mem _ hf')
    obtain ⟨hbmax, hvlen⟩ := hb
    simp only at hbmax hvlen
    obtain ⟨hsz, hal⟩ := hwf.2 b hbmax
    have hvpos : 0 < v.length := by omega
    by_cases ha1 : M.align b = 1
    · -- alignment 1: the whole field is a run of ones, consumed by the skip loop
      have hd : List.replicate k 1 ++ descL M ((b, v) :: r) off
          = List.replicate (k + v.length) 1 ++ descL M r (off + v.length) := by
        simp only [descL, ha1, padTo_one, List.replicate_zero, List.nil_append, Nat.add_zero]
        have : ([1] : List Nat) = List.replicate 1 1 := rfl
        rw [this, ← hvlen]
        simp only [← List.append_assoc, List.replicate_append_replicate]
        congr 2
        omega
      have he : pre ++ (enc M ((b, v) :: r) off ++ T) = (pre ++ v) ++ (enc M r (off + v.length) ++ T) := by
        simp [enc, ha1, padTo_one, zeros]
      rw [hd, he]
      have hlen : (descL M ((b, v) :: r) off).length = v.length + (descL M r (off + v.length)).length := by
        simp only [descL, ha1, padTo_one, List.length_append, List.length_replicate, List.length_cons,
          List.length_nil, Nat.add_zero]
        omega
      rw [ih (off + v.length) (k + v.length) i offset (pre ++ v) fuel hr
        (by simp only [List.length_append]; omega) (by omega)]
      simp [enc, ha1, padTo_one, zeros, Nat.add_assoc, Nat.add_comm, Nat.add_left_comm]
    · -- alignment 2/4/8: one iteration of the outer loop
      have ha0 : M.align b ≠ 0 := by omega
      have hapos : 0 < M.align b := by omega
      cases fuel with
      | zero => omega
      | succ f =>
        let e := padTo (M.align b) off
        let off' := off + padTo (M.align b) off + v.length
        have hdesc : descL M ((b, v) :: r) off
            = List.replicate e 0 ++ M.align b :: (List.replicate (M.size b - 1) 1 ++ descL M r off') := by
          simp [descL, e, off']
        have s1 : skipEq 1 (List.replicate k 1 ++ descL M ((b, v) :: r) off) i
            = (List.replicate e 0 ++ M.align b :: (List.replicate (M.size b - 1) 1 ++ descL M r off'), i + k) := by
          rw [skipEq_replicate_append, hdesc, skipEq_one_zeros_cons _ _ _ _ ha1]
        have s2 : skipEq 0 (List.replicate e 0 ++ M.align b :: (List.replicate (M.size b - 1) 1 ++ descL M r off')) (i + k)
            = (M.align b :: (List.replicate (M.size b - 1) 1 ++ descL M r off'), i + k + e) := by
          rw [skipEq_replicate_append, skipEq_cons_ne _ _ _ _ ha0]
        have hpos : (offset + ((i + k : Nat) : Int)).toNat = pre.length := by omega
        have hnonneg : ¬ (offset + ((i + k : Nat) : Int) < 0) := by omega
        have hneeded : calculatePadding (M.align b) (pre.length + 4) % 256 = padTo (M.align b) (pre.length + 4) := by
          rw [calculatePadding_eq _ _ hapos]
          have := padTo_lt (M.align b) (pre.length + 4) hapos
          omega
        have hbuf : pre ++ (enc M ((b, v) :: r) off ++ T) = pre ++ (zeros e ++ (v ++ (enc M r off' ++ T))) := by
          simp [enc, e, off']
        have hflen : (descL M ((b, v) :: r) off).length = e + 1 + (M.size b - 1) + (descL M r off').length := by
          rw [hdesc]; simp; omega
        have htarget : pre ++ (enc M ((b, v) :: r) (pre.length + 4) ++ T)
            = (pre ++ zeros (padTo (M.align b) (pre.length + 4)) ++ v) ++
              (enc M r ((pre ++ zeros (padTo (M.align b) (pre.length + 4)) ++ v).length + 4) ++ T) := by
          simp only [enc, List.append_assoc, List.length_append, zeros_length]
          congr 5
          omega
        unfold updatePaddings
        simp only [s1, s2, hpos, hneeded, hnonneg, false_or]
        have hex : i + k + e - (i + k) = e := by omega
        simp only [hex]
        generalize hn : padTo (M.align b) (pre.length + 4) = needed at htarget ⊢
        have hlenbuf : (pre ++ (enc M ((b, v) :: r) off ++ T)).length
            = pre.length + (e + (v.length + ((enc M r off').length + T.length))) := by
          rw [hbuf]; simp [zeros_length]
        by_cases hgt : e > needed
        · simp only [hgt, if_true]
          have hnf : ¬ (pre.length + (e - needed) > (pre ++ (enc M ((b, v) :: r) off ++ T)).length) := by
            rw [hlenbuf]; omega
          simp only [hnf, if_false]
          have hb' : (pre ++ (enc M ((b, v) :: r) off ++ T)).take pre.length ++
              (pre ++ (enc M ((b, v) :: r) off ++ T)).drop (pre.length + (e - needed))
              = (pre ++ zeros needed ++ v) ++ (enc M r off' ++ T) := by
            rw [hbuf, take_pre, drop_pre_add, drop_zeros _ _ _ (by omega)]
            have : e - (e - needed) = needed := by omega
            simp [this]
          rw [hb', htarget]
          apply ih off' (M.size b - 1) (i + k + e + 1) _ _ f hr
          · simp only [List.length_append, zeros_length]; omega
          · omega
        · simp only [hgt, if_false]
          by_cases hlt : e < needed
          · simp only [hlt, if_true]
            have hnf : ¬ (pre.length > (pre ++ (enc M ((b, v) :: r) off ++ T)).length) := by
              rw [hlenbuf]; omega
            simp only [hnf, if_false]
            have hb' : (pre ++ (enc M ((b, v) :: r) off ++ T)).take pre.length ++ zeros (needed - e) ++
                (pre ++ (enc M ((b, v) :: r) off ++ T)).drop pre.length
                = (pre ++ zeros needed ++ v) ++ (enc M r off' ++ T) := by
              have h0 := drop_pre_add pre (zeros e ++ (v ++ (enc M r off' ++ T))) 0
              simp only [Nat.add_zero, List.drop_zero] at h0
              rw [hbuf, take_pre, h0]
              have : needed = (needed - e) + e := by omega
              rw [this, zeros_add]
              simp
            rw [hb', htarget]
            apply ih off' (M.size b - 1) (i + k + e + 1) _ _ f hr
            · simp only [List.length_append, zeros_length]; omega
            · omega
          · simp only [hlt, if_false]
            have heq : e = needed := by omega
            have hb' : pre ++ (enc M ((b, v) :: r) off ++ T) = (pre ++ zeros needed ++ v) ++ (enc M r off' ++ T) := by
              rw [hbuf, heq]; simp
            rw [hb', htarget]
            apply ih off' (M.size b - 1) (i + k + e + 1) _ _ f hr
            · simp only [List.length_append, zeros_length]; omega
            · omega

end Tins.RT
