import TinsModel.RadioTap.LemmasSafe
import TinsModel.RadioTap.LemmasBasic
/- Helper lemmas for C11, safety part 4: what the parser reports is there — the current field of every reachable state
   is a table field whose bit is set in the present word of the current namespace, and the option pointer is aligned
   (counted from the start of the radiotap header). -/
namespace Tins.RT

/-- result of the skip loop on the present word `W` shifted by `bit`: still `W` shifted by the returned bit, which is
    set in `W` when it is a table bit -/
theorem skipUnset_res (W max : Nat) : ∀ (fuel bit : Nat), bit ≤ max →
    (skipUnset fuel max (W / 2 ^ bit) bit).1 = W / 2 ^ (skipUnset fuel max (W / 2 ^ bit) bit).2 ∧
    ((skipUnset fuel max (W / 2 ^ bit) bit).2 < max → max - bit < fuel → W.testBit (skipUnset fuel max (W / 2 ^ bit) bit).2 = true) := by
  intro fuel
  induction fuel with
  | zero => intro bit _; exact ⟨rfl, fun _ h => by omega⟩
  | succ f ih =>
    intro bit hb
    unfold skipUnset
    by_cases hc : W / 2 ^ bit % 2 = 0 ∧ bit < max
    · simp only [hc, and_self, if_true]
      have hs : W / 2 ^ bit / 2 = W / 2 ^ (bit + 1) := by rw [Nat.div_div_eq_div_mul, Nat.pow_succ]
      rw [hs]
      obtain ⟨h1, h2⟩ := ih (bit + 1) (by omega)
      exact ⟨h1, fun hlt hf => h2 hlt (by omega)⟩
    · rw [if_neg hc]
      refine ⟨rfl, fun hlt _ => ?_⟩
      have h0 : ¬ (W / 2 ^ bit % 2 = 0) := fun h => hc ⟨h, hlt⟩
      rw [shifted_mod_two] at h0
      simpa using h0

/-- the current field, if any, is a set table bit of the current namespace's present word, its flags are that word
    shifted, and the option pointer is aligned -/
def Pointed (M : Meta) (p : Parser) : Prop :=
  p.bit < M.max →
    p.flags = read32 p.buf (4 * p.ns) / 2 ^ p.bit ∧ (read32 p.buf (4 * p.ns)).testBit p.bit = true ∧
    (p.ptr + 4) % M.align p.bit = 0

theorem alignBuffer_aligned (ptr a : Nat) (h : a = 1 ∨ a = 2 ∨ a = 4 ∨ a = 8) : (alignBuffer ptr a + 4) % a = 0 := by
  rw [alignBuffer_eq ptr a h]
  unfold padTo
  rcases h with h | h | h | h <;> subst h <;> omega

/-- `advance_to_next_field` from a state whose flags are the namespace's present word shifted by its bit -/
theorem advanceToNextField_pointed {M : Meta} (hwf : M.wf) (p : Parser) (hb : p.bit ≤ M.max)
    (hfl : p.flags = read32 p.buf (4 * p.ns) / 2 ^ p.bit) : Pointed M (advanceToNextField M p).1 := by
  obtain ⟨h1, h2⟩ := skipUnset_res (read32 p.buf (4 * p.ns)) M.max (M.max + 1) p.bit hb
  unfold advanceToNextField
  rw [hfl]
  simp only
  split
  · rename_i hlt
    intro _
    exact ⟨h1, h2 hlt (by omega), alignBuffer_aligned _ _ (hwf.2 _ hlt).2⟩
  · rename_i hlt
    intro h
    exact absurd h hlt

theorem pointed_max {M : Meta} {p : Parser} (h : p.bit = M.max) : Pointed M p := fun hlt => by omega

/-- every operation keeps the current field pointed -/
theorem mkC_pointed {M : Meta} (hwf : M.wf) {buf : Bytes} {c : PC} (h : mkC M buf = .ok c) : Pointed M c.p := by
  unfold mkC at h
  split at h
  · injection h with h; subst h; exact pointed_max rfl
  · split at h
    · cases h
    · rename_i hl
      rw [rd32_inb _ _ _ (by omega)] at h
      simp only at h
      split at h
      · injection h with h; subst h
        exact advanceToNextField_pointed hwf _ (Nat.zero_le _) (by simp)
      · cases h
      · cases h

theorem advanceFieldC_pointed {M : Meta} (hwf : M.wf) {buf : Bytes} {k : Nat} (hc : Chain buf k) (c : PC)
    (hg : Good M buf k c.p) (hp : Pointed M c.p) {c' : PC} {r : Bool} (he : advanceFieldC M c = .ok (c', r)) :
    Pointed M c'.p := by
  unfold advanceFieldC at he
  split at he
  · injection he with he; injection he with e1 _; rw [← e1]; exact hp
  · rename_i h0
    have hbit : c.p.bit < M.max := by
      simp only [hg.has, Bool.false_or, beq_iff_eq] at h0
      have := hg.bit; omega
    split at he
    · omega
    · obtain ⟨hfl, _, _⟩ := hp hbit
      have hsk : Pointed M (skipCurrentField M c.p).1 := by
        unfold skipCurrentField
        apply advanceToNextField_pointed hwf _ (by simp only; omega)
        simp only
        rw [hfl, Nat.div_div_eq_div_mul, Nat.pow_succ]
      obtain ⟨hgp1, _, _, _, _, _⟩ := skipCurrentField_good hg hbit
      simp only at he
      split at he
      · injection he with he; injection he with e1 _; rw [← e1]; exact hsk
      · -- namespace switch
        have hlen := hc.inb
        unfold nextNamespaceFieldC advanceToNextNamespaceC at he
        obtain ⟨t', hw⟩ := nsWalkC_spec buf k hc ((skipCurrentField M c.p).1.buf.length / 4 + 2) (skipCurrentField M c.p).1.ns c.nst
          hgp1.ns (by rw [hgp1.buf]; omega)
        rw [← hgp1.buf] at hw
        simp only [hw] at he
        rw [rd32_inb _ _ _ (by rw [hgp1.buf]; omega)] at he
        simp only at he
        split at he
        · injection he with he; injection he with e1 _; rw [← e1]; exact pointed_max rfl
        · split at he
          · injection he with he; injection he with e1 _; rw [← e1]; exact pointed_max rfl
          · injection he with he; injection he with e1 _; rw [← e1]
            exact advanceToNextField_pointed hwf _ (Nat.zero_le _) (by simp)

/-- the invariant of reachable states, with the current field pointed -/
def ParserInv2 (M : Meta) (buf : Bytes) (c : PC) : Prop := ParserInv M buf c ∧ Pointed M c.p

theorem advanceFieldC_inv2 {M : Meta} (hwf : M.wf) {buf : Bytes} {c c' : PC} {r : Bool} (hi : ParserInv2 M buf c)
    (he : advanceFieldC M c = .ok (c', r)) : ParserInv2 M buf c' := by
  obtain ⟨c2, r2, he2, _, hi2⟩ := advanceFieldC_inv hi.1
  rw [he] at he2; injection he2 with he2; injection he2 with e1 _
  refine ⟨by rw [e1]; exact hi2, ?_⟩
  rcases hi.1 with ⟨_, hn, _, _⟩ | ⟨k, hc, hg⟩
  · simp [advanceFieldC, hn] at he
    rw [← he.1]; exact hi.2
  · exact advanceFieldC_pointed hwf hc c hg hi.2 he

/-- every field a full walk reports: a table field, set in the present word of the namespace it is reported for, at
    an aligned offset inside the buffer; the reported option is `current_option()` of that state -/
def ItemSound (M : Meta) (buf : Bytes) (it : WalkItem) : Prop :=
  it.bit < M.max ∧ (read32 buf (4 * it.ns)).testBit it.bit = true ∧ (it.ptr + 4) % M.align it.bit = 0 ∧
  it.ptr < buf.length ∧
  ((it.ptr + M.size it.bit ≤ buf.length ∧ it.opt = .ok ((buf.drop it.ptr).take (M.size it.bit))) ∨
   (buf.length < it.ptr + M.size it.bit ∧ it.opt = .throw .malformedPacket))

theorem Out.ok_inj {α} {a b : α} (h : (Out.ok a : Out α) = .ok b) : a = b := by injection h

theorem walkLoopC_sound {M : Meta} (hwf : M.wf) {buf : Bytes} : ∀ (fuel : Nat) (c : PC) (acc : List WalkItem),
    ParserInv2 M buf c → (∀ it ∈ acc, ItemSound M buf it) → ∀ items c', walkLoopC M fuel c acc = .ok (items, c') →
    ∀ it ∈ items, ItemSound M buf it := by
  intro fuel
  induction fuel with
  | zero => intro c acc _ _ items c' he; simp [walkLoopC] at he
  | succ f ih =>
    intro c acc hi hacc items c' he
    unfold walkLoopC at he
    split at he
    · rename_i hh
      split at he
      · rename_i r hadv
        have hi' := advanceFieldC_inv2 hwf hi (c' := r.1) (r := r.2) (by rw [hadv])
        refine ih r.1 _ hi' ?_ items c' he
        intro it hit
        rw [List.mem_cons] at hit
        rcases hit with hit | hit
        · subst hit
          have hbuf : c.p.buf = buf := by
            rcases hi.1 with ⟨_, _, hb, _⟩ | ⟨k, _, hg⟩
            · rw [hasFields_null hb] at hh; cases hh
            · exact hg.buf
          have hlt : c.p.bit < M.max ∧ c.p.ptr < buf.length := by
            rcases hi.1 with ⟨_, _, hb, _⟩ | ⟨k, _, hg⟩
            · rw [hasFields_null hb] at hh; cases hh
            · simp only [hasFields, Bool.and_eq_true, bne_iff_ne, ne_eq, decide_eq_true_eq] at hh
              have := hg.bit
              rw [hg.buf] at hh
              omega
          obtain ⟨_, hset, hal⟩ := hi.2 hlt.1
          rw [hbuf] at hset
          refine ⟨hlt.1, hset, hal, hlt.2, ?_⟩
          rcases currentOptionC_inv hi.1 hh with ⟨d, hd, hdv, hin⟩ | ⟨hd, hout⟩
          · left; exact ⟨hin, by simp only; rw [hd, hdv]⟩
          · right; exact ⟨hout, hd⟩
        · exact hacc it hit
      · cases he
      · cases he
    · have := Out.ok_inj he
      injection this with e1 _
      intro it hit
      rw [← e1] at hit
      exact hacc it (by simpa using hit)

end Tins.RT
