import TinsModel.RadioTap.LemmasGet
/- Helper lemmas for C11, part 7: serialization header and re-parse. -/
namespace Tins.RT

/-- FLAGS written with the FCS bit (0x10) -/
def fcsOn (m : FMap) : Bool :=
  match m 1 with
  | some v => byteAt v 0 / 16 % 2 == 1
  | none => false

/-- FLAGS written with the FAILED_FCS bit (0x40) -/
def badFcs (m : FMap) : Bool :=
  match m 1 with
  | some v => byteAt v 0 / 64 % 2 == 1
  | none => false

theorem byteAt_append_right (P x : Bytes) : byteAt (P ++ x) P.length = byteAt x 0 := by
  simp [byteAt, List.getD_eq_getElem?_getD, List.getElem?_append_right]

theorem byteAt_append_left0 (v T : Bytes) (h : 0 < v.length) : byteAt (v ++ T) 0 = byteAt v 0 := by
  cases v with
  | nil => simp at h
  | cons a r => simp [byteAt]

theorem trailerSize_eq {M : Meta} (hwf : M.wf) (hflags : M.size 1 = 1) {m : FMap} (hm : sized M m) :
    trailerSize M (canonical M m) = .ok (if fcsOn m then 4 else 0) := by
  rw [trailerSize_canonical hwf hflags hm]
  unfold fcsOn
  cases m 1 <;> simp

/-- the parsing constructor applied to what serialization produces gives back the same header state and hands the
    inner frame's bytes (without the FCS) to the 802.11 parser -/
theorem parseCtor_serialized {M : Meta} (hwf : M.wf) (hflags : M.size 1 = 1) {m : FMap} (hm : sized M m)
    (ver pad innerLen : Nat) (hver : ver < 256) (hpad : pad < 256)
    (hlen : 4 + (canonical M m).length < 65536)
    (hinner : 4 ≤ innerLen + (if fcsOn m then 4 else 0))
    (hok : ¬ (fcsOn m = true ∧ badFcs m = true)) :
    parseCtor M ([UInt8.ofNat ver, UInt8.ofNat pad, UInt8.ofNat ((4 + (canonical M m).length) % 256),
                  UInt8.ofNat ((4 + (canonical M m).length) / 256 % 256)] ++ canonical M m)
              (4 + (canonical M m).length + (if fcsOn m then 4 else 0) + innerLen)
      = .ok ({ version := ver, pad := pad, payload := canonical M m }, innerLen) := by
  have hso := fieldList_sorted M m
  have hsz := fieldList_sized hm
  obtain ⟨p0, hp0, hpat0, _, _⟩ := mk_canonL hwf hso hsz
  have hclen := canonL_length M (fieldList M m)
  have h8 := le_encEnd M (fieldList M m) 8
  have hcl : (canonical M m).length = (canonL M (fieldList M m)).length := rfl
  generalize htr : (if fcsOn m then 4 else 0) = tr at hinner ⊢
  have htr4 : tr = 0 ∨ tr = 4 := by
    rw [← htr]; cases fcsOn m <;> simp
  unfold parseCtor
  have hb2 : byteAt ([UInt8.ofNat ver, UInt8.ofNat pad, UInt8.ofNat ((4 + (canonical M m).length) % 256),
      UInt8.ofNat ((4 + (canonical M m).length) / 256 % 256)] ++ canonical M m) 2 = (4 + (canonical M m).length) % 256 := by
    simp [byteAt]
  have hb3 : byteAt ([UInt8.ofNat ver, UInt8.ofNat pad, UInt8.ofNat ((4 + (canonical M m).length) % 256),
      UInt8.ofNat ((4 + (canonical M m).length) / 256 % 256)] ++ canonical M m) 3 = (4 + (canonical M m).length) / 256 % 256 := by
    simp [byteAt]
  have hb0 : byteAt ([UInt8.ofNat ver, UInt8.ofNat pad, UInt8.ofNat ((4 + (canonical M m).length) % 256),
      UInt8.ofNat ((4 + (canonical M m).length) / 256 % 256)] ++ canonical M m) 0 = ver := by
    simp [byteAt]; omega
  have hb1 : byteAt ([UInt8.ofNat ver, UInt8.ofNat pad, UInt8.ofNat ((4 + (canonical M m).length) % 256),
      UInt8.ofNat ((4 + (canonical M m).length) / 256 % 256)] ++ canonical M m) 1 = pad := by
    simp [byteAt]; omega
  have hlenfield : (4 + (canonical M m).length) % 256 + 256 * ((4 + (canonical M m).length) / 256 % 256)
      = 4 + (canonical M m).length := by omega
  have hdrop : (([UInt8.ofNat ver, UInt8.ofNat pad, UInt8.ofNat ((4 + (canonical M m).length) % 256),
      UInt8.ofNat ((4 + (canonical M m).length) / 256 % 256)] ++ canonical M m).drop 4).take (4 + (canonical M m).length - 4)
      = canonical M m := by
    simp
  have c1 : ¬ (4 + (canonical M m).length + tr + innerLen < 4) := by omega
  have c2 : ¬ (4 + (canonical M m).length < 8) := by rw [hcl]; omega
  have c3 : ¬ (4 + (canonical M m).length - 4 + 4 > 4 + (canonical M m).length + tr + innerLen - 4) := by omega
  simp only [hb0, hb1, hb2, hb3, hlenfield, c1, c2, c3, if_false, hdrop]
  have hrest : 4 + (canonical M m).length + tr + innerLen - 4 - (4 + (canonical M m).length - 4) = tr + innerLen := by omega
  rw [hrest]
  unfold canonical
  simp only [hp0]
  cases hmb : m 1 with
  | some v =>
    obtain ⟨hb, hv⟩ := hm 1 v hmb
    have hsplit := fieldList_split M m 1 hb
    simp only [optL, hmb, List.singleton_append] at hsplit
    have hlo : ∀ f ∈ fieldsFrom m 1 0, f.1 < 1 := fun f hf => by
      have := fieldsFrom_mem hf; omega
    have hfound := skipToField_found hwf hso hsz 1 v (fieldsFrom m (M.max - 1 - 1) (1 + 1)) (fieldsFrom m 1 0) [] p0
      (loopFuel M (canonL M (fieldList M m))) (by simpa using hsplit) hlo (by rw [← hsplit]; exact hpat0)
      (by
        have hs1 : Sorted (fieldsFrom m 1 0) := fieldsFrom_sorted m _ _
        have hz1 : Sized M (fieldsFrom m 1 0) := by
          intro f hf; apply hsz f; rw [hsplit]; exact List.mem_append_left _ hf
        exact length_lt_loopFuel hs1 hz1 _)
    simp only [hfound, List.nil_append, if_true]
    have hbyte : byteAt (canonL M (fieldList M m)) (stAt M (fieldList M m) (fieldsFrom m 1 0) 1).ptr = byteAt v 0 := by
      have hs2 := canonL_split M (fieldsFrom m 1 0) (fieldsFrom m (M.max - 1 - 1) (1 + 1)) 1 v
      have hpl := canonL_split_len M (fieldsFrom m 1 0) 1
        (presentWord (fieldsFrom m 1 0 ++ (1, v) :: fieldsFrom m (M.max - 1 - 1) (1 + 1)))
      have hptr : (stAt M (fieldList M m) (fieldsFrom m 1 0) 1).ptr
          = encEnd M (fieldsFrom m 1 0) 8 + padTo (M.align 1) (encEnd M (fieldsFrom m 1 0) 8) - 4 := rfl
      rw [hptr, hsplit, hs2, ← hpl, byteAt_append_right, byteAt_append_left0 _ _ (by omega)]
    rw [hbyte]
    have hfcs : fcsOn m = (byteAt v 0 / 16 % 2 == 1) := by simp [fcsOn, hmb]
    have hbad : badFcs m = (byteAt v 0 / 64 % 2 == 1) := by simp [badFcs, hmb]
    rw [hfcs] at htr hok
    rw [hbad] at hok
    cases hF : (byteAt v 0 / 16 % 2 == 1) with
    | true =>
      rw [hF] at htr hok
      simp only [if_true] at htr
      have hnb : (byteAt v 0 / 64 % 2 == 1) = false := by
        cases hB : (byteAt v 0 / 64 % 2 == 1) with
        | true => exact absurd ⟨rfl, hB⟩ hok
        | false => rfl
      have c4 : ¬ (tr + innerLen < 4) := by omega
      simp only [hnb, c4, if_true, if_false, Bool.false_eq_true]
      have : tr + innerLen - 4 = innerLen := by omega
      rw [this]
    | false =>
      rw [hF] at htr
      simp only [Bool.false_eq_true, if_false] at htr
      subst htr
      simp
  | none =>
    have hne : ∀ f ∈ fieldList M m, f.1 ≠ 1 := by
      intro f hf hfb
      have := (fieldsFrom_mem hf).2.2
      rw [hfb, hmb] at this
      cases this
    have habs := skipToField_absent hwf hso hsz 1 (fieldList M m) [] p0 (loopFuel M (canonL M (fieldList M m)))
      (by simp) hne hpat0 (length_lt_loopFuel hso hsz _)
    have : fcsOn m = false := by simp [fcsOn, hmb]
    rw [this] at htr
    simp only [Bool.false_eq_true, if_false] at htr
    subst htr
    simp [habs]

end Tins.RT
