import TinsModel.RadioTap.LemmasGet
import TinsModel.RadioTap.LemmasSafeWrite
/- Helper lemmas for C11, part 7: serialization header and re-parse — for every options payload the parser's
   constructor accepts, and specialised to well-aligned headers of a map. -/
namespace Tins.RT

/-- FLAGS written with the FCS bit (0x10) -/
def fcsOn (m : FMap) : Bool :=
  match m 1 with
  | some v => byteAt v 0 / 16 % 2 == 1
  | none => false

/-- FLAGS written with the FAILED_FCS bit (0x40) -/
def badFcs (m : FMap) : Bool :=
  match m 1 with
  | some v => byteAt v 0 / 64 % 2 == 1
  | none => false

theorem byteAt_append_right (P x : Bytes) : byteAt (P ++ x) P.length = byteAt x 0 := by
  simp [byteAt, List.getD_eq_getElem?_getD, List.getElem?_append_right]

theorem byteAt_append_left0 (v T : Bytes) (h : 0 < v.length) : byteAt (v ++ T) 0 = byteAt v 0 := by
  cases v with
  | nil => simp at h
  | cons a r => simp [byteAt]

theorem trailerSize_eq {M : Meta} (hwf : M.wf) (hflags : M.size 1 = 1) {m : FMap} (hm : sized M m) :
    trailerSize M (canonical M m) = .ok (if fcsOn m then 4 else 0) := by
  rw [trailerSize_canonical hwf hflags hm]
  unfold fcsOn
  cases m 1 <;> simp

/-! ### any payload -/

/-- the byte of the FLAGS field the parser reaches in a payload (`none`: it reaches none) — what the parsing
    constructor dereferences through `current_option_ptr()` and `trailer_size()` reads through `current_option()` -/
def flagsByte (M : Meta) (payload : Bytes) : Option Nat :=
  match Parser.mk' M payload with
  | .ok p =>
    let r := skipToField M (loopFuel M payload) p 1
    if r.2 then some (byteAt payload r.1.ptr) else none
  | _ => none

def fcsOf (fb : Option Nat) : Bool :=
  match fb with
  | some f => f / 16 % 2 == 1
  | none => false

def badFcsOf (fb : Option Nat) : Bool :=
  match fb with
  | some f => f / 64 % 2 == 1
  | none => false

theorem byteAt_take_drop (buf : Bytes) (p n : Nat) (hn : 0 < n) : byteAt ((buf.drop p).take n) 0 = byteAt buf p := by
  simp [byteAt, List.getD_eq_getElem?_getD, hn, List.getElem?_drop]

/-- **`trailer_size()` on any accepted payload**: never throws, and is 4 exactly when the FLAGS byte the parser reaches
    has the FCS bit -/
theorem trailerSize_any {M : Meta} (hflags : M.size 1 = 1) (payload : Bytes) (p : Parser) (hmk : Parser.mk' M payload = .ok p)
    (h4 : 4 ≤ payload.length) :
    trailerSize M payload = .ok (if fcsOf (flagsByte M payload) then 4 else 0) := by
  rcases mkC_spec M payload with ⟨hnil, _⟩ | ⟨_, hthrow⟩ | ⟨_, c, k, _, hmk', hc, hg, _, _⟩
  · subst hnil; simp at h4
  · rw [hmk] at hthrow; cases hthrow
  · rw [hmk] at hmk'
    have hp : p = c.p := by injection hmk'
    obtain ⟨c', _, hg', hx, hall⟩ := skipToFieldC_spec hc 1 (loopFuel M payload) c hg (loopFuel_gt_mu M payload k c.p)
    have hskip := hall (loopFuel M payload) (loopFuel_gt_mu M payload k c.p)
    unfold trailerSize flagsByte
    simp only [hmk, hp, hskip]
    by_cases hh : hasFields M c'.p = true
    · obtain ⟨_, hptr⟩ := hasFields_lt hg' hh
      have hbit := hx hh
      simp only [hh, if_true, fcsOf]
      unfold currentOption
      rw [hbit, hflags, hg'.buf]
      have : ¬ (c'.p.ptr + 1 > payload.length) := by omega
      simp only [this, if_false]
      have hl : ((payload.drop c'.p.ptr).take 1).length = 1 := by
        simp only [List.length_take, List.length_drop]; omega
      simp only [hl, bne_self_eq_false, Bool.false_eq_true, if_false, byteAt_take_drop _ _ _ (Nat.lt_succ_self 0)]
    · simp [hh, fcsOf]

/-- **re-parsing what serialization produces, for any accepted payload**: the parsing constructor applied to the 4-byte
    fixed header (length field = 4 + |payload|) followed by the payload gives back version, pad and the same payload
    and hands the inner frame's bytes (without the FCS) to the 802.11 parser -/
theorem parseCtor_serialized_any {M : Meta} (payload : Bytes) (p : Parser) (hmk : Parser.mk' M payload = .ok p)
    (h4 : 4 ≤ payload.length) (ver pad innerLen : Nat) (hver : ver < 256) (hpad : pad < 256)
    (hlen : 4 + payload.length < 65536)
    (hinner : 4 ≤ innerLen + (if fcsOf (flagsByte M payload) then 4 else 0))
    (hok : ¬ (fcsOf (flagsByte M payload) = true ∧ badFcsOf (flagsByte M payload) = true)) :
    parseCtor M ([UInt8.ofNat ver, UInt8.ofNat pad, UInt8.ofNat ((4 + payload.length) % 256),
                  UInt8.ofNat ((4 + payload.length) / 256 % 256)] ++ payload)
              (4 + payload.length + (if fcsOf (flagsByte M payload) then 4 else 0) + innerLen)
      = .ok ({ version := ver, pad := pad, payload := payload }, innerLen) := by
  generalize htr : (if fcsOf (flagsByte M payload) then 4 else 0) = tr at hinner ⊢
  have htr4 : tr = 0 ∨ tr = 4 := by
    rw [← htr]; cases fcsOf (flagsByte M payload) <;> simp
  unfold parseCtor
  have hb2 : byteAt ([UInt8.ofNat ver, UInt8.ofNat pad, UInt8.ofNat ((4 + payload.length) % 256),
      UInt8.ofNat ((4 + payload.length) / 256 % 256)] ++ payload) 2 = (4 + payload.length) % 256 := by
    simp [byteAt]
  have hb3 : byteAt ([UInt8.ofNat ver, UInt8.ofNat pad, UInt8.ofNat ((4 + payload.length) % 256),
      UInt8.ofNat ((4 + payload.length) / 256 % 256)] ++ payload) 3 = (4 + payload.length) / 256 % 256 := by
    simp [byteAt]
  have hb0 : byteAt ([UInt8.ofNat ver, UInt8.ofNat pad, UInt8.ofNat ((4 + payload.length) % 256),
      UInt8.ofNat ((4 + payload.length) / 256 % 256)] ++ payload) 0 = ver := by
    simp [byteAt]; omega
  have hb1 : byteAt ([UInt8.ofNat ver, UInt8.ofNat pad, UInt8.ofNat ((4 + payload.length) % 256),
      UInt8.ofNat ((4 + payload.length) / 256 % 256)] ++ payload) 1 = pad := by
    simp [byteAt]; omega
  have hlenfield : (4 + payload.length) % 256 + 256 * ((4 + payload.length) / 256 % 256) = 4 + payload.length := by omega
  have hdrop : (([UInt8.ofNat ver, UInt8.ofNat pad, UInt8.ofNat ((4 + payload.length) % 256),
      UInt8.ofNat ((4 + payload.length) / 256 % 256)] ++ payload).drop 4).take (4 + payload.length - 4) = payload := by
    simp
  have c1 : ¬ (4 + payload.length + tr + innerLen < 4) := by omega
  have c2 : ¬ (4 + payload.length < 8) := by omega
  have c3 : ¬ (4 + payload.length - 4 + 4 > 4 + payload.length + tr + innerLen - 4) := by omega
  simp only [hb0, hb1, hb2, hb3, hlenfield, c1, c2, c3, if_false, hdrop]
  have hrest : 4 + payload.length + tr + innerLen - 4 - (4 + payload.length - 4) = tr + innerLen := by omega
  rw [hrest]
  simp only [hmk]
  unfold flagsByte at htr hok
  simp only [hmk] at htr hok
  cases hr : (skipToField M (loopFuel M payload) p 1).2 with
  | true =>
    simp only [hr, if_true, fcsOf, badFcsOf] at htr hok ⊢
    cases hF : (byteAt payload (skipToField M (loopFuel M payload) p 1).1.ptr / 16 % 2 == 1) with
    | true =>
      rw [hF] at htr hok
      simp only [if_true] at htr
      have hnb : (byteAt payload (skipToField M (loopFuel M payload) p 1).1.ptr / 64 % 2 == 1) = false := by
        cases hB : (byteAt payload (skipToField M (loopFuel M payload) p 1).1.ptr / 64 % 2 == 1) with
        | true => exact absurd ⟨rfl, hB⟩ hok
        | false => rfl
      have c4 : ¬ (tr + innerLen < 4) := by omega
      simp only [hnb, c4, if_true, if_false, Bool.false_eq_true]
      have : tr + innerLen - 4 = innerLen := by omega
      rw [this]
    | false =>
      rw [hF] at htr
      simp only [Bool.false_eq_true, if_false] at htr
      subst htr
      simp
  | false =>
    simp only [hr, Bool.false_eq_true, if_false, fcsOf] at htr ⊢
    subst htr
    simp

/-! ### well-aligned headers of a map -/

/-- on the well-aligned header of a map the parser reaches the FLAGS byte the map stores -/
theorem flagsByte_layout {M : Meta} (hwf : M.wf) {F : Frame} (hF : F.ok M) (hin : F.inert M) {m : FMap} (hm : sized M m) :
    flagsByte M (layL M F (fieldList M m)) = (m 1).map (fun v => byteAt v 0) := by
  obtain ⟨p0, hp0, hpat0, _, _⟩ := mk_layL hwf hF (fieldList_sorted M m) (fieldList_sized hm)
  unfold flagsByte
  simp only [hp0]
  cases hmb : m 1 with
  | some v =>
    obtain ⟨hsplit, hfound⟩ := skipToField_map_found hwf hF hm 1 v hmb hpat0
    obtain ⟨hb1, hv⟩ := hm 1 v hmb
    have hpos := (hwf.2 1 hb1).1
    simp only [hfound, if_true, Option.map_some]
    congr 1
    have hs2 := layL_split M F (fieldsFrom m 1 0) (fieldsFrom m (M.max - 1 - 1) (1 + 1)) 1 v
    have hpl := layL_split_len M F (fieldsFrom m 1 0) 1
      (presentWord (fieldsFrom m 1 0 ++ (1, v) :: fieldsFrom m (M.max - 1 - 1) (1 + 1)) ||| F.hb)
    have hptr : (stAt M F (fieldList M m) (fieldsFrom m 1 0) 1).ptr
        = encEnd M (fieldsFrom m 1 0) F.base + padTo (M.align 1) (encEnd M (fieldsFrom m 1 0) F.base) - 4 := rfl
    rw [hptr, hsplit, hs2, ← hpl, byteAt_append_right, byteAt_append_left0 _ _ (by omega)]
  | none =>
    have habs := skipToField_map_absent hwf hF hin hm 1 hmb hpat0
    simp [habs]

theorem fcsOf_layout {M : Meta} (hwf : M.wf) {F : Frame} (hF : F.ok M) (hin : F.inert M) {m : FMap} (hm : sized M m) :
    fcsOf (flagsByte M (layL M F (fieldList M m))) = fcsOn m ∧ badFcsOf (flagsByte M (layL M F (fieldList M m))) = badFcs m := by
  rw [flagsByte_layout hwf hF hin hm]
  unfold fcsOf badFcsOf fcsOn badFcs
  cases m 1 <;> simp

/-- the parsing constructor applied to what serialization produces from a well-aligned header gives back the same
    header state and hands the inner frame's bytes (without the FCS) to the 802.11 parser -/
theorem parseCtor_serialized_layout {M : Meta} (hwf : M.wf) {F : Frame} (hF : F.ok M) (hin : F.inert M)
    {m : FMap} (hm : sized M m)
    (ver pad innerLen : Nat) (hver : ver < 256) (hpad : pad < 256)
    (hlen : 4 + (layL M F (fieldList M m)).length < 65536)
    (hinner : 4 ≤ innerLen + (if fcsOn m then 4 else 0))
    (hok : ¬ (fcsOn m = true ∧ badFcs m = true)) :
    parseCtor M ([UInt8.ofNat ver, UInt8.ofNat pad, UInt8.ofNat ((4 + (layL M F (fieldList M m)).length) % 256),
                  UInt8.ofNat ((4 + (layL M F (fieldList M m)).length) / 256 % 256)] ++ layL M F (fieldList M m))
              (4 + (layL M F (fieldList M m)).length + (if fcsOn m then 4 else 0) + innerLen)
      = .ok ({ version := ver, pad := pad, payload := layL M F (fieldList M m) }, innerLen) := by
  obtain ⟨p0, hp0, _⟩ := mk_layL hwf hF (fieldList_sorted M m) (fieldList_sized hm)
  obtain ⟨h1, h2⟩ := fcsOf_layout hwf hF hin hm
  have h4 : 4 ≤ (layL M F (fieldList M m)).length := by rw [layL_length]; omega
  have := parseCtor_serialized_any (M := M) _ p0 hp0 h4 ver pad innerLen hver hpad hlen (by rw [h1]; exact hinner)
    (by rw [h1, h2]; exact hok)
  rw [h1] at this
  exact this

theorem parseCtor_serialized {M : Meta} (hwf : M.wf) (_hflags : M.size 1 = 1) {m : FMap} (hm : sized M m)
    (ver pad innerLen : Nat) (hver : ver < 256) (hpad : pad < 256)
    (hlen : 4 + (canonical M m).length < 65536)
    (hinner : 4 ≤ innerLen + (if fcsOn m then 4 else 0))
    (hok : ¬ (fcsOn m = true ∧ badFcs m = true)) :
    parseCtor M ([UInt8.ofNat ver, UInt8.ofNat pad, UInt8.ofNat ((4 + (canonical M m).length) % 256),
                  UInt8.ofNat ((4 + (canonical M m).length) / 256 % 256)] ++ canonical M m)
              (4 + (canonical M m).length + (if fcsOn m then 4 else 0) + innerLen)
      = .ok ({ version := ver, pad := pad, payload := canonical M m }, innerLen) := by
  have hc : canonical M m = layL M Frame.nil (fieldList M m) := by rw [layL_nil]; rfl
  rw [hc] at hlen ⊢
  exact parseCtor_serialized_layout hwf (Frame.nil_ok M) (Frame.nil_inert M) hm ver pad innerLen hver hpad hlen hinner hok

end Tins.RT
