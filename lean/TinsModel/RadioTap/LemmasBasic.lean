import TinsModel.RadioTap.Spec
/- Helper lemmas for C11, part 1: bytes, present word, alignment arithmetic, field lists. -/
namespace Tins.RT

/-! ### little-endian words -/

theorem byteAt_cons_zero (x : UInt8) (r : Bytes) : byteAt (x :: r) 0 = x.toNat := by
  simp [byteAt]

theorem read32_le32 (x : Nat) (r : Bytes) (h : x < 4294967296) : read32 (le32 x ++ r) 0 = x := by
  simp [read32, le32, byteAt]
  omega

theorem le32_length (x : Nat) : (le32 x).length = 4 := by simp [le32]

theorem drop4_le32 (x : Nat) (r : Bytes) : (le32 x ++ r).drop 4 = r := by simp [le32]

/-! ### present word -/

theorem testBit_foldl_or (fs : List (Nat × Bytes)) (w c : Nat) :
    (fs.foldl (fun w f => w ||| 2 ^ f.1) w).testBit c = (w.testBit c || fs.any (fun f => f.1 == c)) := by
  induction fs generalizing w with
  | nil => simp
  | cons f r ih =>
    simp only [List.foldl_cons, ih, Nat.testBit_or, Nat.testBit_two_pow, List.any_cons, Bool.or_assoc]
    congr 2

theorem testBit_presentWord (fs : List (Nat × Bytes)) (c : Nat) :
    (presentWord fs).testBit c = fs.any (fun f => f.1 == c) := by
  simp [presentWord, testBit_foldl_or]

theorem presentWord_lt (fs : List (Nat × Bytes)) (n : Nat) (h : ∀ f ∈ fs, f.1 < n) : presentWord fs < 2 ^ n := by
  apply Nat.lt_pow_two_of_testBit
  intro i hi
  rw [testBit_presentWord]
  rw [Bool.eq_false_iff]
  intro hany
  rw [List.any_eq_true] at hany
  obtain ⟨f, hf, hfc⟩ := hany
  have := h f hf
  simp at hfc
  omega

theorem presentWord_insert (lo hi : List (Nat × Bytes)) (x : Nat × Bytes) :
    presentWord (lo ++ x :: hi) = presentWord (lo ++ hi) ||| 2 ^ x.1 := by
  apply Nat.eq_of_testBit_eq
  intro i
  simp only [testBit_presentWord, Nat.testBit_or, Nat.testBit_two_pow, List.any_append, List.any_cons]
  generalize (lo.any fun f => f.fst == i) = p
  generalize (hi.any fun f => f.fst == i) = q
  by_cases h : x.1 = i
  · simp [h]
  · have : (x.1 == i) = false := by simp [h]
    simp [this, h]

theorem presentWord_replace (lo hi : List (Nat × Bytes)) (b : Nat) (v w : Bytes) :
    presentWord (lo ++ (b, v) :: hi) = presentWord (lo ++ (b, w) :: hi) := by
  apply Nat.eq_of_testBit_eq
  intro i
  simp only [testBit_presentWord, List.any_append, List.any_cons]

/-- bit `c` of `W`, the way the parser looks at it (`flags & 1` after `c` shifts) -/
theorem shifted_mod_two (W c : Nat) : (W / 2 ^ c % 2 = 0) ↔ W.testBit c = false := by
  rw [Nat.testBit_eq_decide_div_mod_eq]
  simp

/-! ### alignment -/

theorem padTo_lt (a off : Nat) (ha : 0 < a) : padTo a off < a := by
  unfold padTo
  exact Nat.mod_lt _ ha

theorem calculatePadding_eq (a off : Nat) (ha : 0 < a) : calculatePadding a off = padTo a off := by
  unfold calculatePadding padTo
  have := Nat.mod_lt off ha
  by_cases h : off % a = 0
  · simp [h]
  · simp only [h, if_false]
    exact (Nat.mod_eq_of_lt (by omega)).symm

theorem and_pred_eq_mod (x a : Nat) (h : a = 1 ∨ a = 2 ∨ a = 4 ∨ a = 8) : x &&& (a - 1) = x % a := by
  rcases h with h | h | h | h <;> subst h
  · have := Nat.and_two_pow_sub_one_eq_mod x 0
    simp only [Nat.pow_zero, Nat.sub_self] at this
    simp only [Nat.sub_self, this, Nat.mod_one]
  · exact Nat.and_two_pow_sub_one_eq_mod x 1
  · exact Nat.and_two_pow_sub_one_eq_mod x 2
  · exact Nat.and_two_pow_sub_one_eq_mod x 3

theorem alignBuffer_eq (ptr a : Nat) (h : a = 1 ∨ a = 2 ∨ a = 4 ∨ a = 8) :
    alignBuffer ptr a = ptr + padTo a (ptr + 4) := by
  unfold alignBuffer
  simp only [and_pred_eq_mod _ _ h]
  have ha : 0 < a := by omega
  have := Nat.mod_lt (ptr + 4) ha
  unfold padTo
  by_cases h0 : (ptr + 4) % a = 0
  · simp [h0]
  · simp only [ne_eq, h0, not_false_eq_true, if_true]
    rw [Nat.mod_eq_of_lt (show a - (ptr + 4) % a < a by omega)]

theorem padTo_eight (a : Nat) (h : a = 1 ∨ a = 2 ∨ a = 4 ∨ a = 8) : padTo a 8 = 0 := by
  rcases h with h | h | h | h <;> subst h <;> decide

theorem padTo_one (off : Nat) : padTo 1 off = 0 := by
  unfold padTo; omega

/-! ### encoded field lists -/


theorem zeros_length (n : Nat) : (zeros n).length = n := by simp [zeros]

theorem enc_append (M : Meta) (xs ys : List (Nat × Bytes)) (off : Nat) :
    enc M (xs ++ ys) off = enc M xs off ++ enc M ys (encEnd M xs off) := by
  induction xs generalizing off with
  | nil => simp [enc, encEnd]
  | cons x r ih =>
    obtain ⟨b, v⟩ := x
    simp only [List.cons_append, enc, ih, encEnd, List.append_assoc, List.length_append, zeros_length]
    congr 4
    omega

theorem encEnd_nil (M : Meta) (off : Nat) : encEnd M [] off = off := by simp [encEnd, enc]

theorem encEnd_cons (M : Meta) (b : Nat) (v : Bytes) (r : List (Nat × Bytes)) (off : Nat) :
    encEnd M ((b, v) :: r) off = encEnd M r (off + padTo (M.align b) off + v.length) := by
  simp only [encEnd, enc, List.length_append, zeros_length]
  omega

theorem encEnd_append (M : Meta) (xs ys : List (Nat × Bytes)) (off : Nat) :
    encEnd M (xs ++ ys) off = encEnd M ys (encEnd M xs off) := by
  simp only [encEnd, enc_append, List.length_append]
  omega

theorem encEnd_snoc (M : Meta) (xs : List (Nat × Bytes)) (b : Nat) (v : Bytes) (off : Nat) :
    encEnd M (xs ++ [(b, v)]) off = encEnd M xs off + padTo (M.align b) (encEnd M xs off) + v.length := by
  rw [encEnd_append, encEnd_cons, encEnd_nil]

theorem le_encEnd (M : Meta) (fs : List (Nat × Bytes)) (off : Nat) : off ≤ encEnd M fs off := by
  simp [encEnd]

/-- strictly ascending bits -/
def Sorted (fs : List (Nat × Bytes)) : Prop := fs.Pairwise (fun a b => a.1 < b.1)

/-- every field is known and its value has the field's size -/
def Sized (M : Meta) (fs : List (Nat × Bytes)) : Prop := ∀ f ∈ fs, f.1 < M.max ∧ f.2.length = M.size f.1

end Tins.RT
