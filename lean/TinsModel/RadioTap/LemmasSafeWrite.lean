import TinsModel.RadioTap.LemmasSafe
import TinsModel.RadioTap.LemmasWriter
/- Helper lemmas for C11, safety part 2: `RadioTapWriter::write_option` (search loop, `build_padding_vector`,
   `update_paddings`, the `memcpy` / `vector::insert` / `vector::erase` positions) never faults — on every options
   buffer, for every field bit and every value length. -/
namespace Tins.RT

/-- the total `advanceField` on a validated chain keeps the state good and moves past the current field -/
theorem advanceField_good {M : Meta} {buf : Bytes} {k : Nat} (hc : Chain buf k) {p : Parser} (hg : Good M buf k p) :
    Good M buf k (advanceField M p).1 ∧ (p.bit < M.max → p.ptr + M.size p.bit ≤ (advanceField M p).1.ptr) := by
  obtain ⟨c', r, _, heq, hg', hdec⟩ := advanceFieldC_spec hc { p := p } hg
  have h1 : (advanceField M p).1 = c'.p := by rw [← heq]
  rw [h1]
  exact ⟨hg', fun h => (hdec h).2⟩

theorem hasFields_lt {M : Meta} {buf : Bytes} {k : Nat} {p : Parser} (hg : Good M buf k p) (h : hasFields M p = true) :
    p.bit < M.max ∧ p.ptr < buf.length := by
  simp only [hasFields, Bool.and_eq_true, bne_iff_ne, ne_eq, decide_eq_true_eq] at h
  have := hg.bit
  rw [hg.buf] at h
  omega

/-- what the search loop of `write_option` hands on: a good parser, a field that ends inside the buffer (overwrite)
    or a candidate position not after the parser's (insert) -/
theorem searchLoop_spec {M : Meta} {buf : Bytes} {k : Nat} (hc : Chain buf k) (bit dl : Nat) :
    ∀ (fuel : Nat) (p : Parser) (cand : Nat), Good M buf k p → cand ≤ p.ptr →
    match searchLoop M fuel p bit dl cand with
    | .found p' => Good M buf k p' ∧ p'.ptr + dl ≤ buf.length
    | .insertAt p' cand' => Good M buf k p' ∧ cand' ≤ p'.ptr
    | .truncated => True := by
  intro fuel
  induction fuel with
  | zero => intro p cand hg hcand; exact ⟨hg, hcand⟩
  | succ fuel ih =>
    intro p cand hg hcand
    unfold searchLoop
    by_cases hh : (hasFields M p && p.ns == 0) = true
    · simp only [hh, if_true]
      have hh1 : hasFields M p = true := by
        simp only [Bool.and_eq_true] at hh; exact hh.1
      obtain ⟨hbit, hptr⟩ := hasFields_lt hg hh1
      by_cases h1 : p.bit > bit
      · simp only [h1, if_true]; exact ⟨hg, hcand⟩
      · simp only [h1, if_false]
        by_cases h2 : p.bit = bit
        · simp only [h2, if_true]
          by_cases h3 : dl > p.buf.length - p.ptr
          · simp only [h3, if_true]
          · simp only [h3, if_false]
            refine ⟨hg, ?_⟩
            rw [hg.buf] at h3
            omega
        · simp only [h2, if_false]
          obtain ⟨hg', hp'⟩ := advanceField_good hc hg
          exact ih _ _ hg' (hp' hbit)
    · simp only [hh, Bool.false_eq_true, if_false]
      exact ⟨hg, hcand⟩

/-- segments of a padding vector: `g` zeros (existing padding), the alignment `a` of a field, `n` ones (the rest of
    the field) -/
def pv : List (Nat × Nat × Nat) → List Nat
  | [] => []
  | (g, a, n) :: r => List.replicate g 0 ++ [a] ++ List.replicate n 1 ++ pv r

/-- every field of the padding vector starts at an index `≤ D` (`D` = bytes between the insertion point and the end
    of the buffer) and has a non-zero alignment; `idx` = index of the segment's first entry -/
def SegsOK : List (Nat × Nat × Nat) → Nat → Nat → Prop
  | [], _, _ => True
  | (g, a, n) :: r, idx, D => a ≠ 0 ∧ idx + g ≤ D ∧ SegsOK r (idx + g + 1 + n) D

theorem pv_cons_length (g a n : Nat) (r : List (Nat × Nat × Nat)) : (pv ((g, a, n) :: r)).length = g + 1 + n + (pv r).length := by
  simp [pv]; omega

theorem skipEq_one_stop (e a : Nat) (t : List Nat) (j : Nat) (h : 0 < e ∨ a ≠ 1) :
    skipEq 1 (List.replicate e 0 ++ a :: t) j = (List.replicate e 0 ++ a :: t, j) := by
  cases e with
  | zero =>
    rcases h with h | h
    · omega
    · simp [skipEq, h]
  | succ e => simp [List.replicate_succ, skipEq]

theorem take_take_append_le (buf X : Bytes) (pos n : Nat) (hn : n ≤ pos) (hp : pos ≤ buf.length) :
    (buf.take pos ++ X).take n = buf.take n := by
  rw [List.take_append_of_le_length (by simp only [List.length_take]; omega), List.take_take]
  congr 1
  omega

/-- `update_paddings` never erases or inserts outside the buffer and terminates within its fuel: `buf.length - offset`
    stays `D` and every field of the vector starts at an index `≤ D`; the bytes in front of the first entry it looks at
    are not touched -/
theorem updatePaddings_safe :
    ∀ (segs : List (Nat × Nat × Nat)) (k i : Nat) (o : Int) (buf : Bytes) (D fuel : Nat),
      SegsOK segs (i + k) D → (buf.length : Int) = o + D → 0 ≤ o + i + k → fuel > k + (pv segs).length →
      ∃ b, updatePaddings fuel (List.replicate k 1 ++ pv segs) i o buf = .ok b ∧
        ∀ n : Nat, (n : Int) ≤ o + i + k → b.take n = buf.take n := by
  intro segs
  induction segs with
  | nil =>
    intro k i o buf D fuel _ hL hnn hf
    cases fuel with
    | zero => omega
    | succ f =>
      have h1 : skipEq 1 (List.replicate k 1 ++ []) i = ([], i + k) := by
        rw [skipEq_replicate_append]; rfl
      refine ⟨buf, ?_, fun _ _ => rfl⟩
      simp only [pv, updatePaddings, h1, skipEq]
  | cons x r ih =>
    obtain ⟨g, a, n⟩ := x
    intro k i o buf D fuel hok hL hnn hf
    obtain ⟨ha0, hgD, hrest⟩ := hok
    rw [pv_cons_length] at hf
    by_cases habs : g = 0 ∧ a = 1
    · -- alignment 1 and no padding in front: the whole field is part of the run of ones
      obtain ⟨hg0, ha1⟩ := habs
      subst hg0 ha1
      have hd : List.replicate k 1 ++ pv ((0, 1, n) :: r) = List.replicate (k + 1 + n) 1 ++ pv r := by
        simp only [pv, List.replicate_zero, List.nil_append]
        have : ([1] : List Nat) = List.replicate 1 1 := rfl
        rw [this]
        simp only [← List.append_assoc, List.replicate_append_replicate, Nat.add_assoc]
      rw [hd]
      obtain ⟨b, hb, hpre⟩ := ih (k + 1 + n) i o buf D fuel (by simpa [Nat.add_assoc] using hrest) hL (by omega) (by omega)
      exact ⟨b, hb, fun m hm => hpre m (by omega)⟩
    · have hstop : 0 < g ∨ a ≠ 1 := by omega
      cases fuel with
      | zero => omega
      | succ f =>
        have hdesc : pv ((g, a, n) :: r) = List.replicate g 0 ++ a :: (List.replicate n 1 ++ pv r) := by
          simp [pv]
        have s1 : skipEq 1 (List.replicate k 1 ++ pv ((g, a, n) :: r)) i
            = (List.replicate g 0 ++ a :: (List.replicate n 1 ++ pv r), i + k) := by
          rw [skipEq_replicate_append, hdesc, skipEq_one_stop _ _ _ _ hstop]
        have s2 : skipEq 0 (List.replicate g 0 ++ a :: (List.replicate n 1 ++ pv r)) (i + k)
            = (a :: (List.replicate n 1 ++ pv r), i + k + g) := by
          rw [skipEq_replicate_append, skipEq_cons_ne _ _ _ _ ha0]
        have hnonneg : ¬ (o + ((i + k : Nat) : Int) < 0) := by omega
        have hex : i + k + g - (i + k) = g := by omega
        unfold updatePaddings
        simp only [s1, s2, hex, hnonneg, false_or]
        generalize hpos : (o + ((i + k : Nat) : Int)).toNat = position
        have hposI : (position : Int) = o + ((i + k : Nat) : Int) := by omega
        generalize calculatePadding a (position + 4) % 256 = nd
        have hposL : position + g ≤ buf.length := by omega
        by_cases hgt : g > nd
        · simp only [hgt, if_true]
          have hnf : ¬ (position + (g - nd) > buf.length) := by omega
          simp only [hnf, if_false]
          obtain ⟨b, hb, hpre⟩ := ih n (i + k + g + 1) (o - ((g - nd : Nat) : Int))
            (buf.take position ++ buf.drop (position + (g - nd))) D f
            (by simpa [Nat.add_assoc] using hrest)
            (by simp only [List.length_append, List.length_take, List.length_drop]; omega) (by omega) (by omega)
          refine ⟨b, hb, fun m hm => ?_⟩
          rw [hpre m (by omega)]
          exact take_take_append_le _ _ _ _ (by omega) (by omega)
        · simp only [hgt, if_false]
          by_cases hlt : g < nd
          · simp only [hlt, if_true]
            have hnf : ¬ (position > buf.length) := by omega
            simp only [hnf, if_false]
            obtain ⟨b, hb, hpre⟩ := ih n (i + k + g + 1) (o + ((nd - g : Nat) : Int))
              (buf.take position ++ zeros (nd - g) ++ buf.drop position) D f
              (by simpa [Nat.add_assoc] using hrest)
              (by simp only [List.length_append, List.length_take, List.length_drop, zeros_length]; omega) (by omega) (by omega)
            refine ⟨b, hb, fun m hm => ?_⟩
            rw [hpre m (by omega), List.append_assoc]
            exact take_take_append_le _ _ _ _ (by omega) (by omega)
          · simp only [hlt, if_false]
            obtain ⟨b, hb, hpre⟩ := ih n (i + k + g + 1) o buf D f (by simpa [Nat.add_assoc] using hrest) hL (by omega) (by omega)
            exact ⟨b, hb, fun m hm => hpre m (by omega)⟩

/-- `build_padding_vector` from a good parser: a list of segments whose fields all start inside the buffer; the
    pointer differences `current_ptr - last_ptr` it inserts are never negative -/
theorem buildPaddingVector_segs {M : Meta} (hwf : M.wf) {buf : Bytes} {k : Nat} (hc : Chain buf k) (cand : Nat) :
    ∀ (fuel : Nat) (p : Parser) (last : Nat), Good M buf k p → cand ≤ last → last ≤ p.ptr →
    ∃ segs, buildPaddingVector M fuel p last = pv segs ∧ SegsOK segs (last - cand) (buf.length - cand) := by
  intro fuel
  induction fuel with
  | zero => intro p last _ _ _; exact ⟨[], rfl, trivial⟩
  | succ fuel ih =>
    intro p last hg hcl hlp
    unfold buildPaddingVector
    by_cases hh : hasFields M p = true
    · simp only [hh, if_true]
      obtain ⟨hbit, hptr⟩ := hasFields_lt hg hh
      obtain ⟨hsz, hal⟩ := hwf.2 p.bit hbit
      obtain ⟨hg', hp'⟩ := advanceField_good hc hg
      obtain ⟨segs, hs, hok⟩ := ih (advanceField M p).1 (p.ptr + M.size p.bit) hg' (by omega) (hp' hbit)
      refine ⟨(p.ptr - last, M.align p.bit, M.size p.bit - 1) :: segs, by simp only [pv, hs], ?_, ?_, ?_⟩
      · omega
      · omega
      · have : last - cand + (p.ptr - last) + 1 + (M.size p.bit - 1) = p.ptr + M.size p.bit - cand := by omega
        rw [this]; exact hok
    · simp only [hh, Bool.false_eq_true, if_false]
      exact ⟨[], rfl, trivial⟩

def Out.isFault {α} : Out α → Bool
  | .fault _ => true
  | _ => false

/-- **`write_option` is memory-safe on every options buffer**: for every byte string `buf`, field bit and value
    `data` the result is a new buffer of at least 4 bytes, `malformed_option` (unknown field) or `malformed_packet`
    (broken present-word chain / truncated field) — never an access outside the vector. -/
theorem writeOption_safe {M : Meta} (hwf : M.wf) (buf : Bytes) (bit : Nat) (data : Bytes) :
    (∃ b, writeOption M buf bit data = .ok b ∧ 4 ≤ b.length) ∨ writeOption M buf bit data = .throw .malformedOption ∨
      writeOption M buf bit data = .throw .malformedPacket := by
  unfold writeOption
  by_cases hb : bit ≥ M.max
  · simp [hb]
  · simp only [hb, if_false]
    rcases mkC_spec M buf with ⟨hnil, c, _, hmk, hnull, hbm, hbuf⟩ | ⟨_, hmk⟩ | ⟨hlen, c, k, _, hmk, hc, hg, _, _⟩
    · -- empty vector: the null parser has no fields, the option is appended
      subst hnil
      simp only [hmk]
      have hnf : hasFields M c.p = false := by simp [hasFields, hbm]
      have hs : ∀ fuel, searchLoop M fuel c.p bit data.length c.p.ptr = .insertAt c.p c.p.ptr := by
        intro fuel; cases fuel <;> simp [searchLoop, hnf]
      have hbv : ∀ fuel last, buildPaddingVector M fuel c.p last = [] := by
        intro fuel last; cases fuel <;> simp [buildPaddingVector, hnf]
      simp only [hs, hbv]
      left
      simp [updatePaddings, skipEq, le32]
    · right; right; simp [hmk]
    · simp only [hmk]
      have hsl := searchLoop_spec (M := M) hc bit data.length (loopFuel M buf) c.p c.p.ptr hg (Nat.le_refl _)
      have hne : buf.isEmpty = false := by
        cases buf with
        | nil => simp at hlen
        | cons _ _ => rfl
      cases hres : searchLoop M (loopFuel M buf) c.p bit data.length c.p.ptr with
      | truncated => right; right; rfl
      | found p' =>
        rw [hres] at hsl
        have : ¬ (p'.ptr + data.length > buf.length) := by omega
        simp only [this, if_false]
        left
        refine ⟨_, rfl, ?_⟩
        simp only [List.length_append, List.length_take, List.length_drop]
        omega
      | insertAt p' cand =>
        rw [hres] at hsl
        obtain ⟨hg', hcp⟩ := hsl
        simp only [hne, Bool.false_eq_true, if_false]
        by_cases hoff : cand > buf.length
        · right; right; simp [hoff]
        · simp only [hoff, if_false]
          obtain ⟨segs, hs, hok⟩ := buildPaddingVector_segs hwf hc cand (loopFuel M buf) p' cand hg' (Nat.le_refl _) hcp
          rw [hs]
          obtain ⟨b, hb2, _⟩ := updatePaddings_safe segs 0 0
            ((cand + calculatePadding (M.align bit) (cand + 4) + data.length : Nat) : Int)
            (buf.take cand ++ zeros (calculatePadding (M.align bit) (cand + 4)) ++ data ++ buf.drop cand)
            (buf.length - cand) ((pv segs).length + 1)
            (by simpa using hok)
            (by simp only [List.length_append, List.length_take, List.length_drop, zeros_length]; omega)
            (by omega) (by omega)
          simp only [List.replicate_zero, List.nil_append] at hb2
          rw [hb2]
          left
          refine ⟨_, rfl, ?_⟩
          simp [le32]

end Tins.RT
