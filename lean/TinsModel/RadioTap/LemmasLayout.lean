import TinsModel.RadioTap.LemmasSafe
import TinsModel.RadioTap.LemmasBasic
/- Helper lemmas for C11: headers with a chain of present words (`Frame`, `layL`): bytes, first present word, the
   validated chain, and what the parser does when the fields of the first present word are exhausted. -/
namespace Tins.RT

theorem layL_nil (M : Meta) (fs : List (Nat × Bytes)) : layL M Frame.nil fs = canonL M fs := by
  simp [layL, canonL, Frame.nil, Frame.base]

theorem layL_length (M : Meta) (F : Frame) (fs : List (Nat × Bytes)) :
    (layL M F fs).length = 4 + F.wsb.length + (enc M fs F.base).length + F.tail.length := by
  simp [layL, le32]; omega

theorem layL_length' (M : Meta) (F : Frame) (fs : List (Nat × Bytes)) :
    (layL M F fs).length + 4 = encEnd M fs F.base + F.tail.length := by
  simp [layL_length, encEnd, Frame.base]; omega

theorem byteAt_append_lt (a b : Bytes) (i : Nat) (h : i < a.length) : byteAt (a ++ b) i = byteAt a i := by
  simp [byteAt, List.getD_eq_getElem?_getD, List.getElem?_append_left h]

theorem byteAt_append_ge (a b : Bytes) (i : Nat) : byteAt (a ++ b) (a.length + i) = byteAt b i := by
  simp [byteAt, List.getD_eq_getElem?_getD, List.getElem?_append_right]

theorem read32_append_left (a b : Bytes) (i : Nat) (h : i + 4 ≤ a.length) : read32 (a ++ b) i = read32 a i := by
  simp only [read32]
  rw [byteAt_append_lt _ _ _ (by omega), byteAt_append_lt _ _ _ (by omega), byteAt_append_lt _ _ _ (by omega),
    byteAt_append_lt _ _ _ (by omega)]

theorem read32_append_right (a b : Bytes) (i : Nat) : read32 (a ++ b) (a.length + i) = read32 b i := by
  simp only [read32, Nat.add_assoc, byteAt_append_ge]

theorem extSet_testBit (w : Nat) : extSet w = w.testBit 31 := by
  simp only [extSet, Nat.testBit_eq_decide_div_mod_eq]
  have : (2 : Nat) ^ 31 = 2147483648 := by decide
  rw [this]
  by_cases h : w / 2147483648 % 2 = 1 <;> simp [h]

theorem presentWord_lt29 {M : Meta} (hwf : M.wf) {fs : List (Nat × Bytes)} (hsz : Sized M fs) : presentWord fs < 536870912 := by
  have h1 : presentWord fs < 2 ^ M.max := presentWord_lt fs M.max (fun f hf => (hsz f hf).1)
  have h2 : 2 ^ M.max ≤ 2 ^ 29 := Nat.pow_le_pow_right (by omega) hwf.1
  have : (2 : Nat) ^ 29 = 536870912 := by decide
  omega

theorem W_lt {M : Meta} (hwf : M.wf) {F : Frame} (hF : F.ok M) {fs : List (Nat × Bytes)} (hsz : Sized M fs) :
    presentWord fs ||| F.hb < 4294967296 := by
  have h1 := presentWord_lt29 hwf hsz
  have h2 := hF.1
  have : (4294967296 : Nat) = 2 ^ 32 := by decide
  rw [this] at h2 ⊢
  exact Nat.or_lt_two_pow (by omega) h2

/-- below `M.max` the first present word is the present word of the fields -/
theorem W_testBit {M : Meta} {F : Frame} (hF : F.ok M) (fs : List (Nat × Bytes)) (c : Nat) (hc : c < M.max) :
    (presentWord fs ||| F.hb).testBit c = (presentWord fs).testBit c := by
  simp [Nat.testBit_or, hF.2.1 c hc]

theorem W_ext {M : Meta} (hwf : M.wf) {F : Frame} (hF : F.ok M) {fs : List (Nat × Bytes)} (hsz : Sized M fs) :
    extSet (presentWord fs ||| F.hb) = decide (0 < F.k) := by
  have h1 := presentWord_lt29 hwf hsz
  have h2 : (presentWord fs).testBit 31 = false := Nat.testBit_lt_two_pow (by omega)
  rw [extSet_testBit, Nat.testBit_or, h2, Bool.false_or, hF.2.2.2.1]

theorem read32_layL0 {M : Meta} (hwf : M.wf) {F : Frame} (hF : F.ok M) {fs : List (Nat × Bytes)} (hsz : Sized M fs) :
    read32 (layL M F fs) 0 = presentWord fs ||| F.hb := by
  have := W_lt hwf hF hsz
  unfold layL
  simp only [List.append_assoc]
  rw [read32_le32]
  omega

theorem wsb_length {M : Meta} {F : Frame} (hF : F.ok M) : F.wsb.length = 4 * F.k := by
  have := hF.2.2.1
  unfold Frame.k
  omega

/-- present word `j + 1` of the header is word `j` of the frame -/
theorem read32_layL_succ {M : Meta} {F : Frame} (hF : F.ok M) (fs : List (Nat × Bytes)) (j : Nat) (hj : j < F.k) :
    read32 (layL M F fs) (4 * (j + 1)) = read32 F.wsb (4 * j) := by
  have hw := wsb_length hF
  unfold layL
  simp only [List.append_assoc]
  have h4 : 4 * (j + 1) = (le32 (presentWord fs ||| F.hb)).length + 4 * j := by simp [le32]; omega
  rw [h4, read32_append_right, read32_append_left _ _ _ (by omega)]

/-- the chain of present words of `layL M F fs` is validated and ends at word `F.k` -/
theorem chain_layL {M : Meta} (hwf : M.wf) {F : Frame} (hF : F.ok M) {fs : List (Nat × Bytes)} (hsz : Sized M fs) :
    Chain (layL M F fs) F.k := by
  have hw := wsb_length hF
  refine ⟨by rw [layL_length]; omega, ?_, ?_⟩
  · intro j hj
    cases j with
    | zero => simp [read32_layL0 hwf hF hsz, W_ext hwf hF hsz, hj]
    | succ j =>
      rw [read32_layL_succ hF fs j (by omega)]
      exact hF.2.2.2.2.1 j (by omega)
  · cases hk : F.k with
    | zero => simp [read32_layL0 hwf hF hsz, W_ext hwf hF hsz, hk]
    | succ k' =>
      rw [read32_layL_succ hF fs k' (by omega)]
      have := hF.2.2.2.2.2 (by omega)
      simpa [Frame.lastWord, hk] using this

/-- present word `F.k` of the header, when there is more than one word, is the frame's last word -/
theorem read32_layL_last {M : Meta} {F : Frame} (hF : F.ok M) (fs : List (Nat × Bytes)) (hk : 0 < F.k) :
    read32 (layL M F fs) (4 * F.k) = F.lastWord := by
  have : F.k = (F.k - 1) + 1 := by omega
  rw [this, read32_layL_succ hF fs (F.k - 1) (by omega)]
  simp [Frame.lastWord]

end Tins.RT
