import TinsModel.RadioTap.Checked
import TinsModel.RadioTap.Spec
/- Helper lemmas for C11, safety part 1: the fault-explicit parser (`Checked.lean`) never faults, terminates within
   its fuel, and agrees with the total parser of `Model.lean` — on every byte string. -/
namespace Tins.RT

/-- the present-word chain of `buf` ends at word `k` inside the buffer -/
structure Chain (buf : Bytes) (k : Nat) : Prop where
  inb : 4 * k + 4 ≤ buf.length
  exts : ∀ j, j < k → extSet (read32 buf (4 * j)) = true
  last : extSet (read32 buf (4 * k)) = false

theorem rd32_inb (site : String) (buf : Bytes) (i : Nat) (h : i + 4 ≤ buf.length) : rd32 site buf i = .ok (read32 buf i) := by
  simp [rd32, h]

/-- `find_options_start`: stays inside the buffer, finds the end of the chain or throws, never runs out of fuel, and
    is the total `findOptionsStart` -/
theorem findOptionsStartC_spec (buf : Bytes) : ∀ (fuel total i : Nat), 4 * i + total = buf.length → 4 ≤ total →
    total / 4 ≤ fuel → (∀ j, j < i → extSet (read32 buf (4 * j)) = true) →
    findOptionsStartC (fuel + 1) buf total i = findOptionsStart (fuel + 1) buf total i ∧
    ((∃ k, findOptionsStartC (fuel + 1) buf total i = .ok (4 * k + 4) ∧ Chain buf k ∧ i ≤ k)
      ∨ findOptionsStartC (fuel + 1) buf total i = .throw .malformedPacket) := by
  intro fuel
  induction fuel with
  | zero =>
    intro total i hinv ht hf hpre
    have : total < 8 := by omega
    unfold findOptionsStartC findOptionsStart
    rw [rd32_inb _ _ _ (by omega)]
    by_cases hext : extSet (read32 buf (4 * i)) = true
    · have h4 : total - 4 < 4 := by omega
      simp [hext, h4]
    · simp only [hext, Bool.false_eq_true, if_false, true_and]
      left
      exact ⟨i, rfl, ⟨by omega, hpre, by simpa using hext⟩, Nat.le_refl _⟩
  | succ fuel ih =>
    intro total i hinv ht hf hpre
    unfold findOptionsStartC findOptionsStart
    rw [rd32_inb _ _ _ (by omega)]
    by_cases hext : extSet (read32 buf (4 * i)) = true
    · simp only [hext, if_true]
      by_cases h4 : total - 4 < 4
      · simp [h4]
      · simp only [h4, if_false]
        have hpre' : ∀ j, j < i + 1 → extSet (read32 buf (4 * j)) = true := by
          intro j hj
          by_cases hji : j < i
          · exact hpre j hji
          · have : j = i := by omega
            subst this; exact hext
        obtain ⟨he, hr⟩ := ih (total - 4) (i + 1) (by omega) (by omega) (by omega) hpre'
        refine ⟨he, ?_⟩
        rcases hr with ⟨k, hk, hc, hik⟩ | hk
        · left; exact ⟨k, hk, hc, by omega⟩
        · right; exact hk
    · simp only [hext, Bool.false_eq_true, if_false, true_and]
      left
      exact ⟨i, rfl, ⟨by omega, hpre, by simpa using hext⟩, Nat.le_refl _⟩

/-- the unchecked walk of `advance_to_next_namespace` from word `i ≤ k` of a validated chain ends at `k` without
    leaving the buffer -/
theorem nsWalkC_spec (buf : Bytes) (k : Nat) (hc : Chain buf k) : ∀ (fuel i : Nat) (t : NsType), i ≤ k → k - i + 1 ≤ fuel →
    ∃ t', nsWalkC fuel buf i t = .ok (k, t') := by
  intro fuel
  induction fuel with
  | zero => intro i t _ hf; omega
  | succ fuel ih =>
    intro i t hi hf
    unfold nsWalkC
    have := hc.inb
    rw [rd32_inb _ _ _ (by omega)]
    by_cases hik : i = k
    · subst hik
      simp [hc.last]
    · simp only [hc.exts i (by omega), if_true]
      exact ih (i + 1) _ (by omega) (by omega)

theorem nsWalk_spec (buf : Bytes) (k : Nat) (hc : Chain buf k) : ∀ (fuel i : Nat), i ≤ k → k - i + 1 ≤ fuel →
    nsWalk fuel buf i = k := by
  intro fuel
  induction fuel with
  | zero => intro i _ hf; omega
  | succ fuel ih =>
    intro i hi hf
    unfold nsWalk
    by_cases hik : i = k
    · subst hik
      simp [hc.last]
    · simp only [hc.exts i (by omega), if_true]
      exact ih (i + 1) (by omega) (by omega)

theorem skipUnset_bounds (max : Nat) : ∀ (fuel flags bit : Nat), bit ≤ max →
    bit ≤ (skipUnset fuel max flags bit).2 ∧ (skipUnset fuel max flags bit).2 ≤ max := by
  intro fuel
  induction fuel with
  | zero => intro flags bit hb; exact ⟨Nat.le_refl _, hb⟩
  | succ fuel ih =>
    intro flags bit hb
    unfold skipUnset
    split
    · rename_i hc
      have := ih (flags / 2) (bit + 1) (by omega)
      omega
    · exact ⟨Nat.le_refl _, hb⟩

/-- the state every parser loop maintains: built on `buf`, non-null, at or before the last word of its validated
    chain, bit within the table or `MAX` -/
structure Good (M : Meta) (buf : Bytes) (k : Nat) (p : Parser) : Prop where
  buf : p.buf = buf
  has : p.null = false
  ns : p.ns ≤ k
  bit : p.bit ≤ M.max

theorem alignBuffer_ge (ptr n : Nat) : ptr ≤ alignBuffer ptr n := by
  unfold alignBuffer
  simp only
  split <;> omega

theorem advanceToNextField_good {M : Meta} {buf : Bytes} {k : Nat} {p : Parser} (hg : Good M buf k p) :
    Good M buf k (advanceToNextField M p).1 ∧ p.bit ≤ (advanceToNextField M p).1.bit ∧
      (advanceToNextField M p).1.ns = p.ns ∧ p.ptr ≤ (advanceToNextField M p).1.ptr ∧
      ((advanceToNextField M p).2 = true → (advanceToNextField M p).1.bit < M.max) ∧
      ((advanceToNextField M p).2 = false → (advanceToNextField M p).1.bit = M.max) := by
  have hs := skipUnset_bounds M.max (M.max + 1) p.flags p.bit hg.bit
  unfold advanceToNextField
  simp only
  split
  · rename_i hlt
    refine ⟨⟨hg.buf, hg.has, hg.ns, by simp only; omega⟩, by simp only; omega, rfl, alignBuffer_ge _ _, fun _ => hlt, fun h => by simp at h⟩
  · rename_i hlt
    refine ⟨⟨hg.buf, hg.has, hg.ns, by simp only; omega⟩, by simp only; omega, rfl, Nat.le_refl _, fun h => by simp at h, fun _ => by simp only; omega⟩

/-- the progress measure of every loop over `advance_field()` -/
def mu (M : Meta) (k : Nat) (p : Parser) : Nat := (if p.ns < k then M.max + 1 else 0) + (M.max - p.bit)

theorem mu_le (M : Meta) (k : Nat) (p : Parser) : mu M k p ≤ 2 * M.max + 1 := by
  unfold mu; split <;> omega

/-- second half of the total `advanceField` -/
def nextNamespaceField (M : Meta) (p1 : Parser) : Parser × Bool :=
  let r2 := advanceToNextNamespace p1
  if !r2.2 then ({ r2.1 with bit := M.max }, false) else
  let r3 := advanceToNextField M { r2.1 with bit := 0 }
  if !r3.2 then ({ r3.1 with bit := M.max }, false) else (r3.1, true)

theorem advanceField_eq (M : Meta) (p : Parser) :
    advanceField M p = if p.null || p.bit == M.max then (p, false) else
      if (skipCurrentField M p).2 then ((skipCurrentField M p).1, true) else nextNamespaceField M (skipCurrentField M p).1 := by
  unfold advanceField nextNamespaceField
  rfl

theorem skipCurrentField_good {M : Meta} {buf : Bytes} {k : Nat} {p : Parser} (hg : Good M buf k p) (hb : p.bit < M.max) :
    Good M buf k (skipCurrentField M p).1 ∧ p.bit < (skipCurrentField M p).1.bit ∧
      (skipCurrentField M p).1.ns = p.ns ∧ p.ptr + M.size p.bit ≤ (skipCurrentField M p).1.ptr ∧
      ((skipCurrentField M p).2 = true → (skipCurrentField M p).1.bit < M.max) ∧
      ((skipCurrentField M p).2 = false → (skipCurrentField M p).1.bit = M.max) := by
  have hg1 : Good M buf k { p with ptr := p.ptr + M.size p.bit, flags := p.flags / 2, bit := p.bit + 1 } :=
    ⟨hg.buf, hg.has, hg.ns, by simp only; omega⟩
  obtain ⟨h1, h2, h3, h4, h5, h6⟩ := advanceToNextField_good hg1
  unfold skipCurrentField
  exact ⟨h1, by simp only at h2; omega, h3, h4, h5, h6⟩

/-- the namespace switch of `advance_field()` on a validated chain: the unchecked walk stays inside the buffer -/
theorem nextNamespaceFieldC_spec {M : Meta} {buf : Bytes} {k : Nat} (hc : Chain buf k) (c1 : PC) (hg : Good M buf k c1.p) :
    ∃ c' r, nextNamespaceFieldC M c1 = .ok (c', r) ∧ (c'.p, r) = nextNamespaceField M c1.p ∧ Good M buf k c'.p ∧
      c'.p.ns = k ∧ (c1.p.ns = k → c'.p.bit = M.max) ∧ c1.p.ptr ≤ c'.p.ptr := by
  have hlen := hc.inb
  obtain ⟨t', hwalkC⟩ := nsWalkC_spec buf k hc (c1.p.buf.length / 4 + 2) c1.p.ns c1.nst hg.ns (by rw [hg.buf]; omega)
  have hwalk : nsWalk (c1.p.buf.length / 4 + 1) c1.p.buf c1.p.ns = k := by
    rw [hg.buf]; exact nsWalk_spec buf k hc _ _ hg.ns (by omega)
  rw [← hg.buf] at hwalkC
  unfold nextNamespaceFieldC nextNamespaceField
  simp only [advanceToNextNamespaceC, advanceToNextNamespace, hwalkC, hwalk]
  rw [rd32_inb _ _ _ (by rw [hg.buf]; omega)]
  simp only
  by_cases hmoved : (k != c1.p.ns) = true
  · simp only [hmoved, Bool.not_true, Bool.false_eq_true, if_false]
    have hg2 : Good M buf k { c1.p with ns := k, flags := read32 c1.p.buf (4 * k), bit := 0 } :=
      ⟨hg.buf, hg.has, Nat.le_refl _, Nat.zero_le _⟩
    have ha2 := advanceToNextField_good hg2
    have hne : c1.p.ns ≠ k := by
      simp only [bne_iff_ne, ne_eq] at hmoved
      exact fun h => hmoved h.symm
    cases hres3 : advanceToNextField M { c1.p with ns := k, flags := read32 c1.p.buf (4 * k), bit := 0 } with
    | mk p3 ok3 =>
      rw [hres3] at ha2
      obtain ⟨hgp3, _, hns3, hptr3, _, _⟩ := ha2
      simp only at hgp3 hns3 hptr3
      cases ok3 with
      | true =>
        simp only [Bool.not_true, Bool.false_eq_true, if_false]
        exact ⟨_, true, rfl, rfl, hgp3, hns3, fun h => absurd h hne, hptr3⟩
      | false =>
        simp only [Bool.not_false, if_true]
        exact ⟨_, false, rfl, rfl, ⟨hgp3.buf, hgp3.has, hgp3.ns, Nat.le_refl _⟩, hns3, fun _ => rfl, hptr3⟩
  · simp only [hmoved, Bool.not_false, if_true]
    exact ⟨_, false, rfl, rfl, ⟨hg.buf, hg.has, Nat.le_refl _, Nat.le_refl _⟩, rfl, fun _ => rfl, Nat.le_refl _⟩

/-- one `advance_field()` on a validated chain: no fault, no exception, equal to the total `advanceField`, the state
    stays good, the option pointer moves past the current field, and the measure strictly decreases -/
theorem advanceFieldC_spec {M : Meta} {buf : Bytes} {k : Nat} (hc : Chain buf k) (c : PC) (hg : Good M buf k c.p) :
    ∃ c' r, advanceFieldC M c = .ok (c', r) ∧ (c'.p, r) = advanceField M c.p ∧ Good M buf k c'.p ∧
      (c.p.bit < M.max → mu M k c'.p < mu M k c.p ∧ c.p.ptr + M.size c.p.bit ≤ c'.p.ptr) := by
  rw [advanceField_eq]
  unfold advanceFieldC
  by_cases h0 : (c.p.null || c.p.bit == M.max) = true
  · simp only [h0, if_true]
    refine ⟨c, false, rfl, rfl, hg, fun hlt => ?_⟩
    simp only [hg.has, Bool.false_or, beq_iff_eq] at h0
    omega
  · simp only [h0, Bool.false_eq_true, if_false]
    have hbit : c.p.bit < M.max := by
      simp only [hg.has, Bool.false_or, beq_iff_eq] at h0
      have := hg.bit; omega
    have hng : ¬ (c.p.bit > M.max) := by omega
    simp only [hng, if_false]
    obtain ⟨hgp1, hb1, hns1, hptr1, hok1, hno1⟩ := skipCurrentField_good hg hbit
    by_cases hok : (skipCurrentField M c.p).2 = true
    · simp only [hok, if_true]
      refine ⟨_, true, rfl, rfl, hgp1, fun _ => ?_⟩
      have := hok1 hok
      simp only [mu, hns1]
      exact ⟨by omega, hptr1⟩
    · simp only [hok, Bool.false_eq_true, if_false]
      have hb1max := hno1 (by simpa using hok)
      obtain ⟨c', r, he, heq, hg', hns', hend, hptr'⟩ :=
        nextNamespaceFieldC_spec hc { c with p := (skipCurrentField M c.p).1 } hgp1
      refine ⟨c', r, he, heq, hg', fun _ => ⟨?_, by simp only at hptr'; omega⟩⟩
      simp only [mu, hns', Nat.lt_irrefl, if_false]
      by_cases hk : c.p.ns < k
      · simp only [hk, if_true]
        have := hg'.bit
        omega
      · have h1 : (skipCurrentField M c.p).1.ns = k := by have := hg.ns; omega
        have := hend h1
        simp only [hk, if_false]
        omega

theorem advanceField_buf (M : Meta) (p : Parser) : (advanceField M p).1.buf = p.buf := by
  unfold advanceField skipCurrentField advanceToNextNamespace advanceToNextField
  simp only
  repeat' split
  all_goals rfl

/-- `skip_to_field` is safe and terminates: with fuel above the measure it returns a good state that either has no
    current field or stands on the requested one; any two sufficient fuels of the total `skipToField` agree with it -/
theorem skipToFieldC_spec {M : Meta} {buf : Bytes} {k : Nat} (hc : Chain buf k) (bit : Nat) :
    ∀ (fuel : Nat) (c : PC), Good M buf k c.p → mu M k c.p < fuel →
    ∃ c', skipToFieldC M fuel c bit = .ok (c', hasFields M c'.p) ∧ Good M buf k c'.p ∧
      (hasFields M c'.p = true → c'.p.bit = bit) ∧
      ∀ fuel', mu M k c.p < fuel' → skipToField M fuel' c.p bit = (c'.p, hasFields M c'.p) := by
  intro fuel
  induction fuel with
  | zero => intro c _ hf; omega
  | succ fuel ih =>
    intro c hg hf
    unfold skipToFieldC
    by_cases hcond : (hasFields M c.p && c.p.bit != bit) = true
    · simp only [hcond, if_true]
      obtain ⟨c1, r, he, heq, hg1, hdec⟩ := advanceFieldC_spec hc c hg
      have hlt : c.p.bit < M.max := by
        have h1 : hasFields M c.p = true := by
          cases hh : hasFields M c.p <;> simp [hh] at hcond ⊢
        simp only [hasFields, Bool.and_eq_true, bne_iff_ne, ne_eq, decide_eq_true_eq] at h1
        have := hg.bit; omega
      have hd := (hdec hlt).1
      obtain ⟨c2, he2, hg2, hx, hall⟩ := ih c1 hg1 (by omega)
      refine ⟨c2, by simp only [he, he2], hg2, hx, fun fuel' hf' => ?_⟩
      cases fuel' with
      | zero => omega
      | succ f' =>
        unfold skipToField
        simp only [hcond, if_true]
        have : (advanceField M c.p).1 = c1.p := by rw [← heq]
        rw [this]
        exact hall f' (by omega)
    · simp only [hcond, Bool.false_eq_true, if_false]
      refine ⟨c, rfl, hg, fun hh => ?_, fun fuel' hf' => ?_⟩
      · simp only [hh, Bool.true_and, bne_iff_ne, ne_eq, Decidable.not_not] at hcond
        exact hcond
      · cases fuel' with
        | zero => omega
        | succ f' =>
          unfold skipToField
          simp only [hcond, Bool.false_eq_true, if_false]

theorem loopFuel_gt_mu (M : Meta) (buf : Bytes) (k : Nat) (p : Parser) : mu M k p < loopFuel M buf := by
  have := mu_le M k p
  unfold loopFuel
  have h : (M.max + 1) * 2 ≤ (M.max + 1) * (buf.length / 4 + 2) := Nat.mul_le_mul_left _ (by omega)
  omega

theorem walkFuel_gt_mu (M : Meta) (k : Nat) (p : Parser) : mu M k p < walkFuel M := by
  have := mu_le M k p
  unfold walkFuel
  omega

/-- the parser's constructor on any byte string: the null parser (empty vector), `malformed_packet`, or a good state
    on a validated chain — and exactly what the total `Parser.mk'` returns -/
theorem mkC_spec (M : Meta) (buf : Bytes) :
    (buf = [] ∧ ∃ c, mkC M buf = .ok c ∧ Parser.mk' M buf = .ok c.p ∧ c.p.null = true ∧ c.p.bit = M.max ∧ c.p.buf = buf) ∨
    (mkC M buf = .throw .malformedPacket ∧ Parser.mk' M buf = .throw .malformedPacket) ∨
    (4 ≤ buf.length ∧ ∃ c k, mkC M buf = .ok c ∧ Parser.mk' M buf = .ok c.p ∧ Chain buf k ∧ Good M buf k c.p ∧
      c.p.ns = 0 ∧ 4 * k + 4 ≤ c.p.ptr) := by
  unfold mkC Parser.mk'
  cases hb : buf with
  | nil =>
    left
    simp
  | cons x r =>
    right
    rw [← hb]
    have hne : buf.isEmpty = false := by rw [hb]; rfl
    simp only [hne, Bool.false_eq_true, if_false]
    by_cases hl : buf.length < 4
    · left; simp [hl]
    · simp only [hl, if_false]
      rw [rd32_inb _ _ _ (by omega)]
      simp only
      obtain ⟨heq, hr⟩ := findOptionsStartC_spec buf (buf.length / 4) buf.length 0 (by omega) (by omega) (by omega)
        (by intro j hj; omega)
      rcases hr with ⟨k, hk, hch, _⟩ | hk
      · right
        rw [← heq, hk]
        simp only
        have hg0 : Good M buf k { buf := buf, null := false, ptr := 4 * k + 4, bit := 0, flags := read32 buf 0, ns := 0 } :=
          ⟨rfl, rfl, Nat.zero_le _, Nat.zero_le _⟩
        obtain ⟨hg1, _, hns, hptr, _, _⟩ := advanceToNextField_good hg0
        exact ⟨by omega, _, k, rfl, rfl, hch, hg1, hns, hptr⟩
      · left
        rw [← heq, hk]
        simp

/-- `current_option()` on a parser that has a current field: the option's bytes or `malformed_packet`, the table
    index is inside the table; equal to the total `currentOption` -/
theorem currentOptionC_spec {M : Meta} (p : Parser) (hb : p.bit < M.max) :
    currentOptionC M p = currentOption M p ∧
    ((∃ d, currentOptionC M p = .ok d ∧ d.length = M.size p.bit ∧ p.ptr + M.size p.bit ≤ p.buf.length) ∨
      currentOptionC M p = .throw .malformedPacket) := by
  unfold currentOptionC currentOption
  have h1 : ¬ (p.bit ≥ M.max) := by omega
  simp only [h1, if_false]
  by_cases h2 : p.ptr + M.size p.bit > p.buf.length
  · simp [h2]
  · have h3 : p.ptr + M.size p.bit ≤ p.buf.length := by omega
    rw [if_neg h2, if_neg h2, if_pos h3]
    refine ⟨rfl, Or.inl ⟨_, rfl, ?_, h3⟩⟩
    simp only [List.length_take, List.length_drop]
    omega

/-- `has_field(flag)` on any byte string: never leaves the buffer, terminates -/
theorem hasFieldLoopC_spec (buf : Bytes) (mask : Nat) : ∀ (fuel off : Nat), (buf.length - off) / 4 < fuel →
    ∃ r, hasFieldLoopC fuel buf off mask = .ok r := by
  intro fuel
  induction fuel with
  | zero => intro off h; omega
  | succ fuel ih =>
    intro off h
    unfold hasFieldLoopC
    by_cases hin : off + 4 < buf.length
    · simp only [hin, if_true]
      rw [rd32_inb _ _ _ (by omega)]
      simp only
      split
      · exact ⟨true, rfl⟩
      · split
        · exact ⟨false, rfl⟩
        · exact ih (off + 4) (by omega)
    · simp only [hin, if_false]
      exact ⟨false, rfl⟩

theorem hasFieldC_spec (buf : Bytes) (mask : Nat) : ∃ r, hasFieldC buf mask = .ok r :=
  hasFieldLoopC_spec buf mask _ 0 (by omega)

/-- the full walk `while (has_fields()) advance_field()` from a good state: no fault, terminates within the fuel -/
theorem walkLoopC_spec {M : Meta} {buf : Bytes} {k : Nat} (hc : Chain buf k) :
    ∀ (fuel : Nat) (c : PC) (acc : List WalkItem), Good M buf k c.p → mu M k c.p < fuel →
    ∃ items c', walkLoopC M fuel c acc = .ok (items, c') ∧ Good M buf k c'.p ∧ hasFields M c'.p = false := by
  intro fuel
  induction fuel with
  | zero => intro c _ _ hf; omega
  | succ fuel ih =>
    intro c acc hg hf
    unfold walkLoopC
    by_cases hh : hasFields M c.p = true
    · simp only [hh, if_true]
      obtain ⟨c1, r, he, _, hg1, hdec⟩ := advanceFieldC_spec hc c hg
      have hlt : c.p.bit < M.max := by
        simp only [hasFields, Bool.and_eq_true, bne_iff_ne, ne_eq, decide_eq_true_eq] at hh
        have := hg.bit; omega
      have := (hdec hlt).1
      simp only [he]
      exact ih c1 _ hg1 (by omega)
    · simp only [hh, Bool.false_eq_true, if_false]
      exact ⟨_, c, rfl, hg, by simpa using hh⟩

/-! ### every state reachable through the parser's public operations -/

/-- what every parser state reachable from the constructor satisfies: the null parser of an empty vector, or a good
    state on a validated chain -/
def ParserInv (M : Meta) (buf : Bytes) (c : PC) : Prop :=
  (buf = [] ∧ c.p.null = true ∧ c.p.bit = M.max ∧ c.p.buf = buf) ∨ (∃ k, Chain buf k ∧ Good M buf k c.p)

theorem mkC_inv {M : Meta} {buf : Bytes} {c : PC} (h : mkC M buf = .ok c) : ParserInv M buf c := by
  rcases mkC_spec M buf with ⟨hnil, c0, h0, _, h1, h2, h3⟩ | ⟨ht, _⟩ | ⟨_, c0, k, h0, _, hc, hg, _, _⟩
  · rw [h] at h0; injection h0 with h0; subst h0
    exact Or.inl ⟨hnil, h1, h2, h3⟩
  · rw [h] at ht; cases ht
  · rw [h] at h0; injection h0 with h0; subst h0
    exact Or.inr ⟨k, hc, hg⟩

theorem hasFields_null {M : Meta} {p : Parser} (hb : p.bit = M.max) : hasFields M p = false := by
  simp [hasFields, hb]

theorem advanceFieldC_inv {M : Meta} {buf : Bytes} {c : PC} (hi : ParserInv M buf c) :
    ∃ c' r, advanceFieldC M c = .ok (c', r) ∧ (c'.p, r) = advanceField M c.p ∧ ParserInv M buf c' := by
  rcases hi with ⟨hnil, hn, hb, hbuf⟩ | ⟨k, hc, hg⟩
  · refine ⟨c, false, ?_, ?_, Or.inl ⟨hnil, hn, hb, hbuf⟩⟩
    · simp [advanceFieldC, hn]
    · simp [advanceField, hn]
  · obtain ⟨c', r, he, heq, hg', _⟩ := advanceFieldC_spec hc c hg
    exact ⟨c', r, he, heq, Or.inr ⟨k, hc, hg'⟩⟩

theorem skipToFieldC_inv {M : Meta} {buf : Bytes} {c : PC} (hi : ParserInv M buf c) (bit fuel : Nat) (hf : walkFuel M ≤ fuel) :
    ∃ c', skipToFieldC M fuel c bit = .ok (c', hasFields M c'.p) ∧ ParserInv M buf c' ∧
      (hasFields M c'.p = true → c'.p.bit = bit) := by
  rcases hi with ⟨hnil, hn, hb, hbuf⟩ | ⟨k, hc, hg⟩
  · have hnf := hasFields_null (M := M) hb
    cases fuel with
    | zero => simp [walkFuel] at hf
    | succ f =>
      refine ⟨c, ?_, Or.inl ⟨hnil, hn, hb, hbuf⟩, fun h => by rw [hnf] at h; cases h⟩
      simp [skipToFieldC, hnf]
  · obtain ⟨c', he, hg', hx, _⟩ := skipToFieldC_spec hc bit fuel c hg (by have := walkFuel_gt_mu M k c.p; omega)
    exact ⟨c', he, Or.inr ⟨k, hc, hg'⟩, hx⟩

theorem currentOptionC_inv {M : Meta} {buf : Bytes} {c : PC} (hi : ParserInv M buf c) (hh : hasFields M c.p = true) :
    (∃ d, currentOptionC M c.p = .ok d ∧ d = (buf.drop c.p.ptr).take (M.size c.p.bit) ∧ c.p.ptr + M.size c.p.bit ≤ buf.length) ∨
      (currentOptionC M c.p = .throw .malformedPacket ∧ buf.length < c.p.ptr + M.size c.p.bit) := by
  rcases hi with ⟨_, _, hb, _⟩ | ⟨k, _, hg⟩
  · rw [hasFields_null hb] at hh; cases hh
  · have hlt : c.p.bit < M.max := by
      simp only [hasFields, Bool.and_eq_true, bne_iff_ne, ne_eq, decide_eq_true_eq] at hh
      have := hg.bit; omega
    unfold currentOptionC
    have h1 : ¬ (c.p.bit ≥ M.max) := by omega
    simp only [h1, if_false]
    rw [hg.buf]
    by_cases h2 : c.p.ptr + M.size c.p.bit > buf.length
    · right; simp [h2]
    · have h3 : c.p.ptr + M.size c.p.bit ≤ buf.length := by omega
      left
      rw [if_neg h2, if_pos h3]
      exact ⟨_, rfl, rfl, h3⟩

theorem walkLoopC_inv {M : Meta} {buf : Bytes} {c : PC} (hi : ParserInv M buf c) (acc : List WalkItem) (fuel : Nat)
    (hf : walkFuel M ≤ fuel) :
    ∃ items c', walkLoopC M fuel c acc = .ok (items, c') ∧ ParserInv M buf c' ∧ hasFields M c'.p = false := by
  rcases hi with ⟨hnil, hn, hb, hbuf⟩ | ⟨k, hc, hg⟩
  · have hnf := hasFields_null (M := M) hb
    cases fuel with
    | zero => simp [walkFuel] at hf
    | succ f => exact ⟨acc.reverse, c, by simp [walkLoopC, hnf], Or.inl ⟨hnil, hn, hb, hbuf⟩, hnf⟩
  · obtain ⟨items, c', he, hg', hnf⟩ := walkLoopC_spec hc fuel c acc hg (by have := walkFuel_gt_mu M k c.p; omega)
    exact ⟨items, c', he, Or.inr ⟨k, hc, hg'⟩, hnf⟩

/-- `RadioTap::present()` on a buffer the constructor accepts: the unchecked `namespace_flags()` / `advance_namespace()`
    reads stay inside the buffer; equal to the total `present` -/
theorem presentC_spec (M : Meta) (buf : Bytes) (hl : 4 ≤ buf.length) :
    presentC M buf = present M buf ∧ ((∃ w, presentC M buf = .ok w) ∨ presentC M buf = .throw .malformedPacket) := by
  unfold presentC present
  rcases mkC_spec M buf with ⟨hnil, _⟩ | ⟨ht, ht'⟩ | ⟨_, c, k, h0, h0', hc, hg, hns, _⟩
  · subst hnil; simp at hl
  · simp [ht, ht']
  · simp only [h0, h0', hg.has, Bool.false_eq_true, if_false]
    have hinb := hc.inb
    have hw0C : ∃ t', nsWalkC (buf.length / 4 + 2) buf 0 c.nst = .ok (k, t') :=
      nsWalkC_spec buf k hc _ 0 _ (Nat.zero_le _) (by omega)
    have hw0 : nsWalk (buf.length / 4 + 1) buf 0 = k := nsWalk_spec buf k hc _ 0 (Nat.zero_le _) (by omega)
    have hwk : nsWalk (buf.length / 4 + 1) buf k = k := nsWalk_spec buf k hc _ k (Nat.le_refl _) (by omega)
    obtain ⟨t1, hw0C⟩ := hw0C
    have hl4 : ¬ (buf.length < 4) := by omega
    have hfuel : buf.length / 4 + 2 = (buf.length / 4) + 1 + 1 := rfl
    rw [hfuel]
    unfold presentLoopC presentLoop
    simp only [namespaceFlagsC, hg.has, Bool.false_eq_true, if_false, hg.buf, hns, Nat.mul_zero]
    rw [rd32_inb _ _ _ (by omega)]
    simp only [hl4, if_false, advanceToNextNamespaceC, advanceToNextNamespace, hg.buf, hns, hw0C, hw0]
    rw [rd32_inb _ _ _ (by omega)]
    simp only
    by_cases hk : k = 0
    · subst hk
      simp
    · have hne : (k != 0) = true := by simp [hk]
      simp only [hne, if_true]
      unfold presentLoopC presentLoop
      simp only [namespaceFlagsC, hg.has, Bool.false_eq_true, if_false, hg.buf]
      rw [rd32_inb _ _ _ (by omega)]
      obtain ⟨t2, hwkC⟩ := nsWalkC_spec buf k hc (buf.length / 4 + 2) k t1 (Nat.le_refl _) (by omega)
      simp only [hl4, if_false, advanceToNextNamespaceC, advanceToNextNamespace, hg.buf, hwkC, hwk]
      rw [rd32_inb _ _ _ (by omega)]
      simp

end Tins.RT
