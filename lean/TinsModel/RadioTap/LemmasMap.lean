import TinsModel.RadioTap.LemmasWrite
/- Helper lemmas for C11, part 5: last-write maps and their field lists; sequences of writes. -/
namespace Tins.RT

/-- the entry of bit `b` as a list -/
def optL (m : FMap) (b : Nat) : List (Nat × Bytes) :=
  match m b with
  | some v => [(b, v)]
  | none => []

theorem fieldsFrom_succ (m : FMap) (n b : Nat) : fieldsFrom m (n + 1) b = optL m b ++ fieldsFrom m n (b + 1) := by
  unfold optL
  cases h : m b <;> simp [fieldsFrom, h]

theorem fieldsFrom_mem {m : FMap} : ∀ {n b : Nat} {f : Nat × Bytes}, f ∈ fieldsFrom m n b →
    b ≤ f.1 ∧ f.1 < b + n ∧ m f.1 = some f.2 := by
  intro n
  induction n with
  | zero => intro b f hf; simp [fieldsFrom] at hf
  | succ n ih =>
    intro b f hf
    rw [fieldsFrom_succ, List.mem_append] at hf
    rcases hf with hf | hf
    · unfold optL at hf
      cases h : m b with
      | none => simp [h] at hf
      | some v =>
        simp only [h, List.mem_singleton] at hf
        subst hf
        exact ⟨Nat.le_refl _, by simp, h⟩
    · obtain ⟨h1, h2, h3⟩ := ih hf
      exact ⟨by omega, by omega, h3⟩

theorem fieldsFrom_sorted (m : FMap) : ∀ (n b : Nat), Sorted (fieldsFrom m n b) := by
  intro n
  induction n with
  | zero => intro b; simp [fieldsFrom, Sorted]
  | succ n ih =>
    intro b
    rw [fieldsFrom_succ]
    unfold optL
    cases h : m b with
    | none => simpa using ih (b + 1)
    | some v =>
      simp only [List.singleton_append]
      unfold Sorted
      rw [List.pairwise_cons]
      refine ⟨fun f hf => ?_, ih (b + 1)⟩
      have := fieldsFrom_mem hf
      simp only
      omega

theorem fieldsFrom_congr {m m' : FMap} : ∀ (n b : Nat), (∀ c, b ≤ c → c < b + n → m c = m' c) →
    fieldsFrom m n b = fieldsFrom m' n b := by
  intro n
  induction n with
  | zero => intro b _; simp [fieldsFrom]
  | succ n ih =>
    intro b h
    rw [fieldsFrom_succ, fieldsFrom_succ, ih (b + 1) (fun c h1 h2 => h c (by omega) (by omega))]
    unfold optL
    rw [h b (Nat.le_refl _) (by omega)]

theorem fieldsFrom_split (m : FMap) (f : Nat) : ∀ (n b : Nat), b ≤ f → f < b + n →
    fieldsFrom m n b = fieldsFrom m (f - b) b ++ (optL m f ++ fieldsFrom m (b + n - f - 1) (f + 1)) := by
  intro n
  induction n with
  | zero => intro b h1 h2; omega
  | succ n ih =>
    intro b h1 h2
    by_cases hb : b = f
    · subst hb
      rw [fieldsFrom_succ]
      have h0 : b - b = 0 := by omega
      have h3 : b + (n + 1) - b - 1 = n := by omega
      simp [h0, fieldsFrom]
    · have hlt : b < f := by omega
      rw [fieldsFrom_succ, ih (b + 1) (by omega) (by omega)]
      have h3 : f - b = (f - (b + 1)) + 1 := by omega
      rw [h3, fieldsFrom_succ]
      have h4 : b + 1 + n - f - 1 = b + (n + 1) - f - 1 := by omega
      rw [h4]
      simp

theorem upd_same (m : FMap) (f : Nat) (v : Bytes) : upd m f v f = some v := by simp [upd]

theorem upd_other (m : FMap) (f c : Nat) (v : Bytes) (h : c ≠ f) : upd m f v c = m c := by simp [upd, h]

/-- the field list of a map, split around bit `f` -/
theorem fieldList_split (M : Meta) (m : FMap) (f : Nat) (hf : f < M.max) :
    fieldList M m = fieldsFrom m f 0 ++ (optL m f ++ fieldsFrom m (M.max - f - 1) (f + 1)) := by
  unfold fieldList
  have := fieldsFrom_split m f M.max 0 (Nat.zero_le _) (by omega)
  simpa using this

theorem fieldList_upd (M : Meta) (m : FMap) (f : Nat) (v : Bytes) (hf : f < M.max) :
    fieldList M (upd m f v) = fieldsFrom m f 0 ++ ((f, v) :: fieldsFrom m (M.max - f - 1) (f + 1)) := by
  rw [fieldList_split M (upd m f v) f hf]
  rw [fieldsFrom_congr (m := upd m f v) (m' := m) f 0 (fun c _ h => upd_other m f c v (by omega))]
  rw [fieldsFrom_congr (m := upd m f v) (m' := m) (M.max - f - 1) (f + 1) (fun c h _ => upd_other m f c v (by omega))]
  simp [optL, upd_same]

theorem fieldList_sorted (M : Meta) (m : FMap) : Sorted (fieldList M m) := fieldsFrom_sorted m _ _

theorem fieldList_sized {M : Meta} {m : FMap} (h : sized M m) : Sized M (fieldList M m) := by
  intro f hf
  have := fieldsFrom_mem hf
  exact h f.1 f.2 this.2.2

theorem sized_upd {M : Meta} {m : FMap} (h : sized M m) {w : Nat × Bytes} (hw : validWrite M w) : sized M (upd m w.1 w.2) := by
  intro b v hb
  unfold upd at hb
  by_cases hbw : b = w.1
  · simp only [hbw, if_true, Option.some.injEq] at hb
    subst hb
    rw [hbw]
    exact hw
  · simp only [hbw, if_false] at hb
    exact h b v hb

theorem sized_empty (M : Meta) : sized M FMap.empty := by
  intro b v h; simp [FMap.empty] at h

theorem Frame.nil_ok (M : Meta) : Frame.nil.ok M := by
  refine ⟨by simp [Frame.nil], fun c _ => by simp [Frame.nil], by simp [Frame.nil], by simp [Frame.nil, Frame.k], ?_, ?_⟩
  · intro j hj; simp [Frame.nil, Frame.k] at hj
  · intro h; simp [Frame.nil, Frame.k] at h

theorem Frame.nil_inert (M : Meta) : Frame.nil.inert M := by
  intro h; simp [Frame.nil, Frame.k] at h

/-- one write of a field the first present word already has: overwritten in place, whatever follows -/
theorem writeOption_layout_present {M : Meta} (hwf : M.wf) {F : Frame} (hF : F.ok M) {m : FMap} (hm : sized M m)
    (f : Nat) (v old : Bytes) (hw : validWrite M (f, v)) (hmf : m f = some old) :
    writeOption M (layL M F (fieldList M m)) f v = .ok (layL M F (fieldList M (upd m f v))) := by
  obtain ⟨hf, hv⟩ := hw
  simp only at hf hv
  rw [fieldList_upd M m f v hf, fieldList_split M m f hf]
  simp only [optL, hmf, List.singleton_append]
  have hold := (hm f old hmf).2
  have hso' : Sorted (fieldsFrom m f 0 ++ (f, old) :: fieldsFrom m (M.max - f - 1) (f + 1)) := by
    have := fieldList_sorted M m
    rw [fieldList_split M m f hf] at this
    simpa [optL, hmf] using this
  have hsz' : Sized M (fieldsFrom m f 0 ++ (f, old) :: fieldsFrom m (M.max - f - 1) (f + 1)) := by
    have := fieldList_sized hm
    rw [fieldList_split M m f hf] at this
    simpa [optL, hmf] using this
  exact writeOption_overwrite hwf hF _ _ f old v hso' hsz' (by omega)

/-- one write on the well-aligned header of a map (frame `F`: present-word chain whose last word announces no table
    field, foreign bytes) gives the header of the updated map with the same frame -/
theorem writeOption_layout {M : Meta} (hwf : M.wf) (hla : M.lowAlign) {F : Frame} (hF : F.ok M) (hin : F.inert M)
    {m : FMap} (hm : sized M m) (f : Nat) (v : Bytes) (hw : validWrite M (f, v)) :
    writeOption M (layL M F (fieldList M m)) f v = .ok (layL M F (fieldList M (upd m f v))) := by
  cases hmf : m f with
  | some old => exact writeOption_layout_present hwf hF hm f v old hw hmf
  | none =>
    obtain ⟨hf, hv⟩ := hw
    simp only at hf hv
    have hso := fieldList_sorted M (upd m f v)
    have hsz := fieldList_sized (sized_upd hm (w := (f, v)) ⟨hf, hv⟩)
    simp only at hso hsz
    rw [fieldList_upd M m f v hf] at hso hsz ⊢
    rw [fieldList_split M m f hf]
    simp only [optL, hmf, List.nil_append]
    exact writeOption_insert hwf hla hF hin _ _ f v hso hsz

/-- one write on the canonical payload of a map gives the canonical payload of the updated map -/
theorem writeOption_canonical {M : Meta} (hwf : M.wf) (hla : M.lowAlign) {m : FMap} (hm : sized M m) (f : Nat) (v : Bytes)
    (hw : validWrite M (f, v)) :
    writeOption M (canonical M m) f v = .ok (canonical M (upd m f v)) := by
  have := writeOption_layout hwf hla (Frame.nil_ok M) (Frame.nil_inert M) hm f v hw
  simpa [layL_nil, canonical] using this

theorem sized_lastWrite {M : Meta} : ∀ (ws : List (Nat × Bytes)) {m : FMap}, sized M m → (∀ w ∈ ws, validWrite M w) →
    sized M (lastWrite m ws) := by
  intro ws
  induction ws with
  | nil => intro m h _; exact h
  | cons w r ih =>
    intro m h hw
    simp only [lastWrite, List.foldl_cons]
    exact ih (sized_upd h (hw w (List.mem_cons_self ..))) (fun x hx => hw x (List.mem_cons_of_mem _ hx))

/-- any finite sequence of valid writes on a well-aligned header -/
theorem applyWrites_layout {M : Meta} (hwf : M.wf) (hla : M.lowAlign) {F : Frame} (hF : F.ok M) (hin : F.inert M) :
    ∀ (ws : List (Nat × Bytes)) (m : FMap) (ver pad : Nat),
    sized M m → (∀ w ∈ ws, validWrite M w) →
    applyWrites M ws { version := ver, pad := pad, payload := layL M F (fieldList M m) }
      = .ok { version := ver, pad := pad, payload := layL M F (fieldList M (lastWrite m ws)) } := by
  intro ws
  induction ws with
  | nil => intro m ver pad _ _; simp [applyWrites, lastWrite]
  | cons w r ih =>
    intro m ver pad hm hw
    obtain ⟨b, d⟩ := w
    have hwv := hw (b, d) (List.mem_cons_self ..)
    simp only [applyWrites, addOption, writeOption_layout hwf hla hF hin hm b d hwv]
    rw [ih (upd m b d) ver pad (sized_upd hm hwv) (fun x hx => hw x (List.mem_cons_of_mem _ hx))]
    simp [lastWrite]

/-- any finite sequence of valid writes -/
theorem applyWrites_canonical {M : Meta} (hwf : M.wf) (hla : M.lowAlign) : ∀ (ws : List (Nat × Bytes)) (m : FMap) (ver pad : Nat),
    sized M m → (∀ w ∈ ws, validWrite M w) →
    applyWrites M ws { version := ver, pad := pad, payload := canonical M m }
      = .ok { version := ver, pad := pad, payload := canonical M (lastWrite m ws) } := by
  intro ws m ver pad hm hw
  have := applyWrites_layout hwf hla (Frame.nil_ok M) (Frame.nil_inert M) ws m ver pad hm hw
  simpa [layL_nil, canonical] using this

end Tins.RT
