import TinsModel.RadioTap.LemmasMap
/- Helper lemmas for C11, part 6: getters, present(), trailer_size() on a canonical payload. -/
namespace Tins.RT

theorem skipToField_found {M : Meta} (hwf : M.wf) {fs : List (Nat × Bytes)} (hso : Sorted fs) (hsz : Sized M fs)
    (bit : Nat) (v : Bytes) (hi : List (Nat × Bytes)) :
    ∀ (lo done : List (Nat × Bytes)) (p : Parser) (fuel : Nat),
      fs = done ++ (lo ++ (bit, v) :: hi) → (∀ f ∈ lo, f.1 < bit) → PAt M fs done (lo ++ (bit, v) :: hi) p →
      fuel > lo.length →
      skipToField M fuel p bit = (stAt M fs (done ++ lo) bit, true) := by
  intro lo
  induction lo with
  | nil =>
    intro done p fuel hfs _ hp hf
    cases fuel with
    | zero => omega
    | succ f =>
      simp only [List.nil_append, List.append_nil, PAt] at hfs hp ⊢
      subst hp
      have hh := hasFields_stAt hwf hfs hsz
      have hbit : (stAt M fs done bit).bit = bit := rfl
      simp [skipToField, hh, hbit]
  | cons x lo' ih =>
    obtain ⟨b1, v1⟩ := x
    intro done p fuel hfs hlo hp hf
    cases fuel with
    | zero => simp at hf
    | succ f =>
      simp only [List.cons_append, PAt] at hfs hp
      subst hp
      have hh := hasFields_stAt hwf hfs hsz
      have hlt : b1 < bit := by have := hlo (b1, v1) (List.mem_cons_self ..); simpa using this
      have hbit : (stAt M fs done b1).bit = b1 := rfl
      have hne : (b1 != bit) = true := by simp; omega
      have hstep := advanceField_step hwf hfs hso hsz
      have hfs2 : fs = (done ++ [(b1, v1)]) ++ (lo' ++ (bit, v) :: hi) := by rw [hfs]; simp
      have hres := ih (done ++ [(b1, v1)]) (advanceField M (stAt M fs done b1)).1 f hfs2
        (fun g hg => hlo g (List.mem_cons_of_mem _ hg)) hstep (by simp at hf; omega)
      unfold skipToField
      simp only [hh, hbit, hne, Bool.and_self, if_true]
      rw [hres]
      simp

theorem skipToField_absent {M : Meta} (hwf : M.wf) {fs : List (Nat × Bytes)} (hso : Sorted fs) (hsz : Sized M fs)
    (bit : Nat) :
    ∀ (rest done : List (Nat × Bytes)) (p : Parser) (fuel : Nat),
      fs = done ++ rest → (∀ f ∈ rest, f.1 ≠ bit) → PAt M fs done rest p → fuel > rest.length →
      (skipToField M fuel p bit).2 = false := by
  intro rest
  induction rest with
  | nil =>
    intro done p fuel _ _ hp hf
    have := hasFields_ended hp
    cases fuel with
    | zero => omega
    | succ f => simp [skipToField, this]
  | cons x rest' ih =>
    obtain ⟨b1, v1⟩ := x
    intro done p fuel hfs hne hp hf
    cases fuel with
    | zero => simp at hf
    | succ f =>
      simp only [PAt] at hp
      subst hp
      have hh := hasFields_stAt hwf hfs hsz
      have hbit : (stAt M fs done b1).bit = b1 := rfl
      have hne1 : (b1 != bit) = true := by
        have := hne (b1, v1) (List.mem_cons_self ..); simpa using this
      have hstep := advanceField_step hwf hfs hso hsz
      have hfs2 : fs = (done ++ [(b1, v1)]) ++ rest' := by rw [hfs]; simp
      have hres := ih (done ++ [(b1, v1)]) (advanceField M (stAt M fs done b1)).1 f hfs2
        (fun g hg => hne g (List.mem_cons_of_mem _ hg)) hstep (by simp at hf; omega)
      unfold skipToField
      simp only [hh, hbit, hne1, Bool.and_self, if_true]
      exact hres

/-- the option the parser is positioned on is the value stored for that field -/
theorem currentOption_stAt {M : Meta} (lo hi : List (Nat × Bytes)) (bit : Nat) (v : Bytes) (hv : v.length = M.size bit) :
    currentOption M (stAt M (lo ++ (bit, v) :: hi) lo bit) = .ok v := by
  have hsplit := canonL_split M lo hi bit v
  have hplen := canonL_split_len M lo bit (presentWord (lo ++ (bit, v) :: hi))
  unfold currentOption
  have hptr : (stAt M (lo ++ (bit, v) :: hi) lo bit).ptr = encEnd M lo 8 + padTo (M.align bit) (encEnd M lo 8) - 4 := rfl
  have hbuf : (stAt M (lo ++ (bit, v) :: hi) lo bit).buf = canonL M (lo ++ (bit, v) :: hi) := rfl
  have hbit : (stAt M (lo ++ (bit, v) :: hi) lo bit).bit = bit := rfl
  rw [hptr, hbuf, hbit, hsplit]
  have hnot : ¬ (encEnd M lo 8 + padTo (M.align bit) (encEnd M lo 8) - 4 + M.size bit >
      (le32 (presentWord (lo ++ (bit, v) :: hi)) ++ enc M lo 8 ++ zeros (padTo (M.align bit) (encEnd M lo 8)) ++
        (v ++ enc M hi (encEnd M lo 8 + padTo (M.align bit) (encEnd M lo 8) + v.length))).length) := by
    rw [List.length_append, hplen]
    simp only [List.length_append]
    omega
  simp only [hnot, if_false]
  rw [List.drop_left' hplen, ← hv, List.take_left]

/-- `do_find_option` on the canonical payload of a map: the stored value, or `field_not_present` -/
theorem doFindOption_canonical {M : Meta} (hwf : M.wf) {m : FMap} (hm : sized M m) (b : Nat) :
    doFindOption M (canonical M m) b =
      match m b with
      | some v => .ok v
      | none => .throw .fieldNotPresent := by
  have hso := fieldList_sorted M m
  have hsz := fieldList_sized hm
  obtain ⟨p0, hp0, hpat0, _, _⟩ := mk_canonL hwf hso hsz
  unfold doFindOption canonical
  simp only [hp0]
  cases hmb : m b with
  | some v =>
    obtain ⟨hb, hv⟩ := hm b v hmb
    have hsplit := fieldList_split M m b hb
    simp only [optL, hmb, List.singleton_append] at hsplit
    have hlo : ∀ f ∈ fieldsFrom m b 0, f.1 < b := fun f hf => by
      have := fieldsFrom_mem hf; omega
    have hfound := skipToField_found hwf hso hsz b v (fieldsFrom m (M.max - b - 1) (b + 1)) (fieldsFrom m b 0) [] p0
      (loopFuel M (canonL M (fieldList M m))) (by simpa using hsplit) hlo (by rw [← hsplit]; exact hpat0)
      (by
        have hs1 : Sorted (fieldsFrom m b 0) := fieldsFrom_sorted m _ _
        have hz1 : Sized M (fieldsFrom m b 0) := by
          intro f hf; apply hsz f; rw [hsplit]; exact List.mem_append_left _ hf
        exact length_lt_loopFuel hs1 hz1 _)
    simp only [hfound, List.nil_append, Bool.not_true, Bool.false_eq_true, if_false]
    rw [hsplit]
    exact currentOption_stAt _ _ b v hv
  | none =>
    have hne : ∀ f ∈ fieldList M m, f.1 ≠ b := by
      intro f hf hfb
      have := (fieldsFrom_mem hf).2.2
      rw [hfb, hmb] at this
      cases this
    have habs := skipToField_absent hwf hso hsz b (fieldList M m) [] p0 (loopFuel M (canonL M (fieldList M m)))
      (by simp) hne hpat0 (length_lt_loopFuel hso hsz _)
    simp [habs]

/-- bit `c` of the present word of a map's field list is set iff the map has the field -/
theorem testBit_present_map (M : Meta) (m : FMap) (c : Nat) (hc : c < M.max) :
    (presentWord (fieldList M m)).testBit c = (m c).isSome := by
  rw [testBit_presentWord, fieldList_split M m c hc]
  have h1 : (fieldsFrom m c 0).any (fun f => f.1 == c) = false := by
    rw [Bool.eq_false_iff]
    intro h
    rw [List.any_eq_true] at h
    obtain ⟨f, hf, hfc⟩ := h
    have := fieldsFrom_mem hf
    simp at hfc
    omega
  have h2 : (fieldsFrom m (M.max - c - 1) (c + 1)).any (fun f => f.1 == c) = false := by
    rw [Bool.eq_false_iff]
    intro h
    rw [List.any_eq_true] at h
    obtain ⟨f, hf, hfc⟩ := h
    have := fieldsFrom_mem hf
    simp at hfc
    omega
  simp only [List.any_append, h1, h2, Bool.false_or, Bool.or_false]
  unfold optL
  cases m c <;> simp

/-- `present()` on a canonical payload is the present word of the map -/
theorem present_canonical {M : Meta} (hwf : M.wf) {m : FMap} (hm : sized M m) :
    present M (canonical M m) = .ok (presentWord (fieldList M m)) := by
  have hso := fieldList_sorted M m
  have hsz := fieldList_sized hm
  obtain ⟨p0, hp0, _, _, hbuf, hnull, hns⟩ := mk_canonL hwf hso hsz
  have hlen := canonL_length M (fieldList M m)
  have h8 := le_encEnd M (fieldList M m) 8
  unfold present canonical
  simp only [hp0, hnull, Bool.false_eq_true, if_false]
  have hloop : ∀ fuel, presentLoop (fuel + 1) p0 0 = presentWord (fieldList M m) := by
    intro fuel
    unfold presentLoop
    have hw : nsWalk ((canonL M (fieldList M m)).length / 4 + 1) (canonL M (fieldList M m)) 0 = 0 := by
      unfold nsWalk
      simp [ext_canonL hwf hsz]
    have hl4 : ¬ ((canonL M (fieldList M m)).length < 4) := by omega
    simp [hbuf, hns, read32_canonL hwf hsz, advanceToNextNamespace, hw, hl4]
  rw [hloop]

/-- `trailer_size()`: 4 iff the FLAGS field is present with the FCS bit -/
theorem trailerSize_canonical {M : Meta} (hwf : M.wf) (hflags : M.size 1 = 1) {m : FMap} (hm : sized M m) :
    trailerSize M (canonical M m) =
      .ok (match m 1 with
           | some v => if byteAt v 0 / 16 % 2 == 1 then 4 else 0
           | none => 0) := by
  have hso := fieldList_sorted M m
  have hsz := fieldList_sized hm
  obtain ⟨p0, hp0, hpat0, _, _⟩ := mk_canonL hwf hso hsz
  unfold trailerSize canonical
  simp only [hp0]
  cases hmb : m 1 with
  | some v =>
    obtain ⟨hb, hv⟩ := hm 1 v hmb
    have hsplit := fieldList_split M m 1 hb
    simp only [optL, hmb, List.singleton_append] at hsplit
    have hlo : ∀ f ∈ fieldsFrom m 1 0, f.1 < 1 := fun f hf => by
      have := fieldsFrom_mem hf; omega
    have hfound := skipToField_found hwf hso hsz 1 v (fieldsFrom m (M.max - 1 - 1) (1 + 1)) (fieldsFrom m 1 0) [] p0
      (loopFuel M (canonL M (fieldList M m))) (by simpa using hsplit) hlo (by rw [← hsplit]; exact hpat0)
      (by
        have hs1 : Sorted (fieldsFrom m 1 0) := fieldsFrom_sorted m _ _
        have hz1 : Sized M (fieldsFrom m 1 0) := by
          intro f hf; apply hsz f; rw [hsplit]; exact List.mem_append_left _ hf
        exact length_lt_loopFuel hs1 hz1 _)
    simp only [hfound, List.nil_append, if_true]
    rw [hsplit, currentOption_stAt _ _ 1 v hv]
    have : (v.length != 1) = false := by simp; omega
    simp [this]
  | none =>
    have hne : ∀ f ∈ fieldList M m, f.1 ≠ 1 := by
      intro f hf hfb
      have := (fieldsFrom_mem hf).2.2
      rw [hfb, hmb] at this
      cases this
    have habs := skipToField_absent hwf hso hsz 1 (fieldList M m) [] p0 (loopFuel M (canonL M (fieldList M m)))
      (by simp) hne hpat0 (length_lt_loopFuel hso hsz _)
    simp [habs]

end Tins.RT
