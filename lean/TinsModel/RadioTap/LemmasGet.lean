import TinsModel.RadioTap.LemmasMap
/- Helper lemmas for C11, part 6: getters, present(), trailer_size() on a well-aligned header. -/
namespace Tins.RT

/-- a field of the first present word is found, whatever follows the first word's fields -/
theorem skipToField_found {M : Meta} (hwf : M.wf) {F : Frame} (hF : F.ok M)
    {fs : List (Nat × Bytes)} (hso : Sorted fs) (hsz : Sized M fs)
    (bit : Nat) (v : Bytes) (hi : List (Nat × Bytes)) :
    ∀ (lo done : List (Nat × Bytes)) (p : Parser) (fuel : Nat),
      fs = done ++ (lo ++ (bit, v) :: hi) → (∀ f ∈ lo, f.1 < bit) → PAt M F fs done (lo ++ (bit, v) :: hi) p →
      fuel > lo.length →
      skipToField M fuel p bit = (stAt M F fs (done ++ lo) bit, true) := by
  intro lo
  induction lo with
  | nil =>
    intro done p fuel hfs _ hp hf
    cases fuel with
    | zero => omega
    | succ f =>
      simp only [List.nil_append, List.append_nil, PAt] at hfs hp ⊢
      subst hp
      have hh := hasFields_stAt hwf F hfs hsz
      have hbit : (stAt M F fs done bit).bit = bit := rfl
      simp [skipToField, hh, hbit]
  | cons x lo' ih =>
    obtain ⟨b1, v1⟩ := x
    intro done p fuel hfs hlo hp hf
    cases fuel with
    | zero => simp at hf
    | succ f =>
      simp only [List.cons_append, PAt] at hfs hp
      subst hp
      have hh := hasFields_stAt hwf F hfs hsz
      have hlt : b1 < bit := by have := hlo (b1, v1) (List.mem_cons_self ..); simpa using this
      have hbit : (stAt M F fs done b1).bit = b1 := rfl
      have hne : (b1 != bit) = true := by simp; omega
      have hstep := advanceField_step hwf hF hfs hso hsz (fun h => by simp at h)
      have hfs2 : fs = (done ++ [(b1, v1)]) ++ (lo' ++ (bit, v) :: hi) := by rw [hfs]; simp
      have hres := ih (done ++ [(b1, v1)]) (advanceField M (stAt M F fs done b1)).1 f hfs2
        (fun g hg => hlo g (List.mem_cons_of_mem _ hg)) hstep (by simp at hf; omega)
      unfold skipToField
      simp only [hh, hbit, hne, Bool.and_self, if_true]
      rw [hres]
      simp

/-- a field the first present word does not have is not found when the last present word announces no table field -/
theorem skipToField_absent {M : Meta} (hwf : M.wf) {F : Frame} (hF : F.ok M) (hin : F.inert M)
    {fs : List (Nat × Bytes)} (hso : Sorted fs) (hsz : Sized M fs) (bit : Nat) :
    ∀ (rest done : List (Nat × Bytes)) (p : Parser) (fuel : Nat),
      fs = done ++ rest → (∀ f ∈ rest, f.1 ≠ bit) → PAt M F fs done rest p → fuel > rest.length →
      (skipToField M fuel p bit).2 = false := by
  intro rest
  induction rest with
  | nil =>
    intro done p fuel _ _ hp hf
    have := hasFields_ended hp
    cases fuel with
    | zero => omega
    | succ f => simp [skipToField, this]
  | cons x rest' ih =>
    obtain ⟨b1, v1⟩ := x
    intro done p fuel hfs hne hp hf
    cases fuel with
    | zero => simp at hf
    | succ f =>
      simp only [PAt] at hp
      subst hp
      have hh := hasFields_stAt hwf F hfs hsz
      have hbit : (stAt M F fs done b1).bit = b1 := rfl
      have hne1 : (b1 != bit) = true := by
        have := hne (b1, v1) (List.mem_cons_self ..); simpa using this
      have hstep := advanceField_step hwf hF hfs hso hsz (fun _ => hin)
      have hfs2 : fs = (done ++ [(b1, v1)]) ++ rest' := by rw [hfs]; simp
      have hres := ih (done ++ [(b1, v1)]) (advanceField M (stAt M F fs done b1)).1 f hfs2
        (fun g hg => hne g (List.mem_cons_of_mem _ hg)) hstep (by simp at hf; omega)
      unfold skipToField
      simp only [hh, hbit, hne1, Bool.and_self, if_true]
      exact hres

/-- the option the parser is positioned on is the value stored for that field -/
theorem currentOption_stAt {M : Meta} (F : Frame) (lo hi : List (Nat × Bytes)) (bit : Nat) (v : Bytes) (hv : v.length = M.size bit) :
    currentOption M (stAt M F (lo ++ (bit, v) :: hi) lo bit) = .ok v := by
  have hsplit := layL_split M F lo hi bit v
  have hplen := layL_split_len M F lo bit (presentWord (lo ++ (bit, v) :: hi) ||| F.hb)
  unfold currentOption
  have hptr : (stAt M F (lo ++ (bit, v) :: hi) lo bit).ptr
      = encEnd M lo F.base + padTo (M.align bit) (encEnd M lo F.base) - 4 := rfl
  have hbuf : (stAt M F (lo ++ (bit, v) :: hi) lo bit).buf = layL M F (lo ++ (bit, v) :: hi) := rfl
  have hbit : (stAt M F (lo ++ (bit, v) :: hi) lo bit).bit = bit := rfl
  rw [hptr, hbuf, hbit, hsplit]
  have hnot : ¬ (encEnd M lo F.base + padTo (M.align bit) (encEnd M lo F.base) - 4 + M.size bit >
      (le32 (presentWord (lo ++ (bit, v) :: hi) ||| F.hb) ++ F.wsb ++ enc M lo F.base ++
        zeros (padTo (M.align bit) (encEnd M lo F.base)) ++
        (v ++ (enc M hi (encEnd M lo F.base + padTo (M.align bit) (encEnd M lo F.base) + v.length) ++ F.tail))).length) := by
    rw [List.length_append, hplen]
    simp only [List.length_append]
    omega
  simp only [hnot, if_false]
  rw [List.drop_left' hplen, ← hv, List.take_left]

theorem fieldsFrom_lo_lt {m : FMap} {b : Nat} : ∀ f ∈ fieldsFrom m b 0, f.1 < b := fun f hf => by
  have := fieldsFrom_mem hf; omega

/-- a field the map has is found on the field list of the map -/
theorem skipToField_map_found {M : Meta} (hwf : M.wf) {F : Frame} (hF : F.ok M) {m : FMap} (hm : sized M m)
    (b : Nat) (v : Bytes) (hmb : m b = some v) {p0 : Parser} (hpat0 : PAt M F (fieldList M m) [] (fieldList M m) p0) :
    fieldList M m = fieldsFrom m b 0 ++ (b, v) :: fieldsFrom m (M.max - b - 1) (b + 1) ∧
    skipToField M (loopFuel M (layL M F (fieldList M m))) p0 b
      = (stAt M F (fieldList M m) (fieldsFrom m b 0) b, true) := by
  have hso := fieldList_sorted M m
  have hsz := fieldList_sized hm
  obtain ⟨hb, hv⟩ := hm b v hmb
  have hsplit := fieldList_split M m b hb
  simp only [optL, hmb, List.singleton_append] at hsplit
  refine ⟨hsplit, ?_⟩
  have hfound := skipToField_found hwf hF hso hsz b v (fieldsFrom m (M.max - b - 1) (b + 1)) (fieldsFrom m b 0) [] p0
    (loopFuel M (layL M F (fieldList M m))) (by simpa using hsplit) fieldsFrom_lo_lt (by rw [← hsplit]; exact hpat0)
    (by
      have hs1 : Sorted (fieldsFrom m b 0) := fieldsFrom_sorted m _ _
      have hz1 : Sized M (fieldsFrom m b 0) := by
        intro f hf; apply hsz f; rw [hsplit]; exact List.mem_append_left _ hf
      exact length_lt_loopFuel hs1 hz1 _)
  simpa using hfound

theorem skipToField_map_absent {M : Meta} (hwf : M.wf) {F : Frame} (hF : F.ok M) (hin : F.inert M) {m : FMap} (hm : sized M m)
    (b : Nat) (hmb : m b = none) {p0 : Parser} (hpat0 : PAt M F (fieldList M m) [] (fieldList M m) p0) :
    (skipToField M (loopFuel M (layL M F (fieldList M m))) p0 b).2 = false := by
  have hso := fieldList_sorted M m
  have hsz := fieldList_sized hm
  have hne : ∀ f ∈ fieldList M m, f.1 ≠ b := by
    intro f hf hfb
    have := (fieldsFrom_mem hf).2.2
    rw [hfb, hmb] at this
    cases this
  exact skipToField_absent hwf hF hin hso hsz b (fieldList M m) [] p0 _ (by simp) hne hpat0 (length_lt_loopFuel hso hsz _)

/-- `do_find_option` of a field the first present word has: the stored value, whatever follows the fields -/
theorem doFindOption_layout_present {M : Meta} (hwf : M.wf) {F : Frame} (hF : F.ok M) {m : FMap} (hm : sized M m)
    (b : Nat) (v : Bytes) (hmb : m b = some v) :
    doFindOption M (layL M F (fieldList M m)) b = .ok v := by
  obtain ⟨p0, hp0, hpat0, _, _⟩ := mk_layL hwf hF (fieldList_sorted M m) (fieldList_sized hm)
  obtain ⟨hsplit, hfound⟩ := skipToField_map_found hwf hF hm b v hmb hpat0
  unfold doFindOption
  simp only [hp0, hfound, Bool.not_true, Bool.false_eq_true, if_false]
  rw [hsplit]
  exact currentOption_stAt F _ _ b v (hm b v hmb).2

/-- `do_find_option` on the well-aligned header of a map: the stored value, or `field_not_present` -/
theorem doFindOption_layout {M : Meta} (hwf : M.wf) {F : Frame} (hF : F.ok M) (hin : F.inert M) {m : FMap} (hm : sized M m) (b : Nat) :
    doFindOption M (layL M F (fieldList M m)) b =
      match m b with
      | some v => .ok v
      | none => .throw .fieldNotPresent := by
  cases hmb : m b with
  | some v => exact doFindOption_layout_present hwf hF hm b v hmb
  | none =>
    obtain ⟨p0, hp0, hpat0, _, _⟩ := mk_layL hwf hF (fieldList_sorted M m) (fieldList_sized hm)
    have habs := skipToField_map_absent hwf hF hin hm b hmb hpat0
    unfold doFindOption
    simp [hp0, habs]

theorem doFindOption_canonical {M : Meta} (hwf : M.wf) {m : FMap} (hm : sized M m) (b : Nat) :
    doFindOption M (canonical M m) b =
      match m b with
      | some v => .ok v
      | none => .throw .fieldNotPresent := by
  have := doFindOption_layout hwf (Frame.nil_ok M) (Frame.nil_inert M) hm b
  simpa [layL_nil, canonical] using this

/-- bit `c` of the present word of a map's field list is set iff the map has the field -/
theorem testBit_present_map (M : Meta) (m : FMap) (c : Nat) (hc : c < M.max) :
    (presentWord (fieldList M m)).testBit c = (m c).isSome := by
  rw [testBit_presentWord, fieldList_split M m c hc]
  have h1 : (fieldsFrom m c 0).any (fun f => f.1 == c) = false := by
    rw [Bool.eq_false_iff]
    intro h
    rw [List.any_eq_true] at h
    obtain ⟨f, hf, hfc⟩ := h
    have := fieldsFrom_mem hf
    simp at hfc
    omega
  have h2 : (fieldsFrom m (M.max - c - 1) (c + 1)).any (fun f => f.1 == c) = false := by
    rw [Bool.eq_false_iff]
    intro h
    rw [List.any_eq_true] at h
    obtain ⟨f, hf, hfc⟩ := h
    have := fieldsFrom_mem hf
    simp at hfc
    omega
  simp only [List.any_append, h1, h2, Bool.false_or, Bool.or_false]
  unfold optL
  cases m c <;> simp

/-- `present()` on a well-aligned header: the first present word, ORed with the last one when there are several -/
theorem present_layout {M : Meta} (hwf : M.wf) {F : Frame} (hF : F.ok M) {fs : List (Nat × Bytes)} (hso : Sorted fs) (hsz : Sized M fs) :
    present M (layL M F fs) = .ok ((presentWord fs ||| F.hb) ||| (if 0 < F.k then F.lastWord else 0)) := by
  obtain ⟨p0, hp0, _, _, hbuf, hnull, hns⟩ := mk_layL hwf hF hso hsz
  have hc := chain_layL hwf hF hsz
  have hl4 : ¬ ((layL M F fs).length < 4) := by have := hc.inb; omega
  have hwalk0 : nsWalk ((layL M F fs).length / 4 + 1) (layL M F fs) 0 = F.k :=
    nsWalk_spec _ _ hc _ _ (Nat.zero_le _) (by have := hc.inb; omega)
  have hwalkk : nsWalk ((layL M F fs).length / 4 + 1) (layL M F fs) F.k = F.k :=
    nsWalk_spec _ _ hc _ _ (Nat.le_refl _) (by omega)
  unfold present
  simp only [hp0, hnull, Bool.false_eq_true, if_false]
  by_cases hk : F.k = 0
  · have hloop : ∀ fuel, presentLoop (fuel + 1) p0 0 = presentWord fs ||| F.hb := by
      intro fuel
      unfold presentLoop
      simp [hbuf, hns, read32_layL0 hwf hF hsz, advanceToNextNamespace, hwalk0, hl4, hk]
    rw [hloop]
    simp [hk]
  · have hkpos : 0 < F.k := by omega
    have hne : (F.k != 0) = true := by simp [hk]
    have hloop : ∀ fuel, presentLoop (fuel + 2) p0 0 = (presentWord fs ||| F.hb) ||| F.lastWord := by
      intro fuel
      unfold presentLoop
      simp only [hbuf, hns, Nat.mul_zero, read32_layL0 hwf hF hsz, Nat.zero_or, hl4, if_false, advanceToNextNamespace, hwalk0,
        hne, if_true]
      unfold presentLoop
      simp [read32_layL_last hF fs hkpos, hl4, advanceToNextNamespace, hwalkk]
    have : (layL M F fs).length / 4 + 2 = ((layL M F fs).length / 4) + 2 := rfl
    rw [hloop]
    simp [hkpos]

/-- `present()` on a canonical payload is the present word of the map -/
theorem present_canonical {M : Meta} (hwf : M.wf) {m : FMap} (hm : sized M m) :
    present M (canonical M m) = .ok (presentWord (fieldList M m)) := by
  have := present_layout hwf (Frame.nil_ok M) (fieldList_sorted M m) (fieldList_sized hm)
  rw [layL_nil] at this
  simpa [canonical, Frame.nil, Frame.k] using this

/-- `trailer_size()` of a header whose first present word has FLAGS: 4 iff the FCS bit is set (whatever follows) -/
theorem trailerSize_layout_present {M : Meta} (hwf : M.wf) (hflags : M.size 1 = 1) {F : Frame} (hF : F.ok M)
    {m : FMap} (hm : sized M m) (v : Bytes) (hmb : m 1 = some v) :
    trailerSize M (layL M F (fieldList M m)) = .ok (if byteAt v 0 / 16 % 2 == 1 then 4 else 0) := by
  obtain ⟨p0, hp0, hpat0, _, _⟩ := mk_layL hwf hF (fieldList_sorted M m) (fieldList_sized hm)
  obtain ⟨hsplit, hfound⟩ := skipToField_map_found hwf hF hm 1 v hmb hpat0
  obtain ⟨_, hv⟩ := hm 1 v hmb
  unfold trailerSize
  simp only [hp0, hfound, if_true]
  rw [hsplit, currentOption_stAt F _ _ 1 v hv]
  have : (v.length != 1) = false := by simp; omega
  simp [this]

/-- `trailer_size()`: 4 iff the FLAGS field is present with the FCS bit -/
theorem trailerSize_layout {M : Meta} (hwf : M.wf) (hflags : M.size 1 = 1) {F : Frame} (hF : F.ok M) (hin : F.inert M)
    {m : FMap} (hm : sized M m) :
    trailerSize M (layL M F (fieldList M m)) =
      .ok (match m 1 with
           | some v => if byteAt v 0 / 16 % 2 == 1 then 4 else 0
           | none => 0) := by
  cases hmb : m 1 with
  | some v => exact trailerSize_layout_present hwf hflags hF hm v hmb
  | none =>
    obtain ⟨p0, hp0, hpat0, _, _⟩ := mk_layL hwf hF (fieldList_sorted M m) (fieldList_sized hm)
    have habs := skipToField_map_absent hwf hF hin hm 1 hmb hpat0
    unfold trailerSize
    simp [hp0, habs]

theorem trailerSize_canonical {M : Meta} (hwf : M.wf) (hflags : M.size 1 = 1) {m : FMap} (hm : sized M m) :
    trailerSize M (canonical M m) =
      .ok (match m 1 with
           | some v => if byteAt v 0 / 16 % 2 == 1 then 4 else 0
           | none => 0) := by
  have := trailerSize_layout hwf hflags (Frame.nil_ok M) (Frame.nil_inert M) hm
  simpa [layL_nil, canonical] using this

end Tins.RT
