import TinsModel.RadioTap.LemmasSer
/- Helper lemmas for C11, part 8: the oracle's `decodeCanonical` only accepts canonical payloads of sized maps. -/
namespace Tins.RT

theorem decodeFields_sound (M : Meta) (buf : Bytes) (w : Nat) :
    ∀ (n b off : Nat) (fs : List (Nat × Bytes)), decodeFields M buf w n b off = some fs →
      Sorted fs ∧ ∀ f ∈ fs, b ≤ f.1 ∧ f.1 < b + n ∧ f.2.length = M.size f.1 := by
  intro n
  induction n with
  | zero =>
    intro b off fs h
    simp only [decodeFields, Option.some.injEq] at h
    subst h
    exact ⟨List.Pairwise.nil, fun f hf => by simp at hf⟩
  | succ n ih =>
    intro b off fs h
    unfold decodeFields at h
    by_cases hbit : w / 2 ^ b % 2 = 1
    · simp only [hbit, if_true] at h
      by_cases hfit : off + padTo (M.align b) off - 4 + M.size b ≤ buf.length
      · simp only [hfit, if_true, Option.map_eq_some_iff] at h
        obtain ⟨r, hr, hfs⟩ := h
        subst hfs
        obtain ⟨hs, hb⟩ := ih _ _ _ hr
        refine ⟨?_, ?_⟩
        · unfold Sorted
          rw [List.pairwise_cons]
          exact ⟨fun f hf => by have := hb f hf; simp only; omega, hs⟩
        · intro f hf
          rw [List.mem_cons] at hf
          rcases hf with hf | hf
          · subst hf
            simp only [List.length_take, List.length_drop]
            omega
          · have := hb f hf; omega
      · simp [hfit] at h
    · simp only [hbit, if_false] at h
      obtain ⟨hs, hb⟩ := ih _ _ _ h
      exact ⟨hs, fun f hf => by have := hb f hf; omega⟩

/-- the last-write map of a list with strictly ascending bits is the list read as a table -/
theorem lastWrite_sorted : ∀ (fs : List (Nat × Bytes)) (m0 : FMap) (c : Nat), Sorted fs →
    lastWrite m0 fs c = match fs.find? (fun f => f.1 == c) with
      | some f => some f.2
      | none => m0 c := by
  intro fs
  induction fs with
  | nil => intro m0 c _; simp [lastWrite]
  | cons x r ih =>
    intro m0 c hs
    unfold Sorted at hs
    rw [List.pairwise_cons] at hs
    have hih := ih (upd m0 x.1 x.2) c hs.2
    simp only [lastWrite, List.foldl_cons] at hih ⊢
    rw [hih]
    by_cases hx : x.1 = c
    · have hnone : r.find? (fun f => f.1 == c) = none := by
        rw [List.find?_eq_none]
        intro f hf
        have := hs.1 f hf
        simp; omega
      simp [hnone, hx, upd]
    · have : (x.1 == c) = false := by simp [hx]
      have hc : c ≠ x.1 := fun h => hx h.symm
      simp only [List.find?_cons, this]
      cases r.find? (fun f => f.1 == c) with
      | some f => rfl
      | none => simp [upd, hc]

theorem fieldsFrom_of_table (m : FMap) : ∀ (n b : Nat) (fs : List (Nat × Bytes)), Sorted fs →
    (∀ f ∈ fs, b ≤ f.1 ∧ f.1 < b + n) →
    (∀ c, b ≤ c → c < b + n → m c = match fs.find? (fun f => f.1 == c) with
      | some f => some f.2
      | none => none) →
    fieldsFrom m n b = fs := by
  intro n
  induction n with
  | zero =>
    intro b fs _ hb _
    cases fs with
    | nil => rfl
    | cons x r => have := hb x (List.mem_cons_self ..); omega
  | succ n ih =>
    intro b fs hs hb hm
    rw [fieldsFrom_succ]
    cases fs with
    | nil =>
      have h0 := hm b (Nat.le_refl _) (by omega)
      simp only [List.find?_nil] at h0
      rw [ih (b + 1) [] hs (fun f hf => by simp at hf) (fun c h1 h2 => by have := hm c (by omega) (by omega); simpa using this)]
      simp [optL, h0]
    | cons x r =>
      obtain ⟨b0, v0⟩ := x
      have hx := hb (b0, v0) (List.mem_cons_self ..)
      simp only at hx
      unfold Sorted at hs
      have hs' := hs
      rw [List.pairwise_cons] at hs'
      by_cases hb0 : b0 = b
      · subst hb0
        have h0 := hm b0 (Nat.le_refl _) (by omega)
        simp only [List.find?_cons, beq_self_eq_true] at h0
        have hr := ih (b0 + 1) r hs'.2
          (fun f hf => by have h1 := hs'.1 f hf; have h2 := hb f (List.mem_cons_of_mem _ hf); simp only at h1; omega)
          (fun c h1 h2 => by
            have := hm c (by omega) (by omega)
            have hne : ((b0, v0).1 == c) = false := by simp; omega
            simpa [List.find?_cons, hne] using this)
        rw [hr]
        simp [optL, h0]
      · have hlt : b < b0 := by omega
        have h0 := hm b (Nat.le_refl _) (by omega)
        have hnone : ((b0, v0) :: r).find? (fun f => f.1 == b) = none := by
          rw [List.find?_eq_none]
          intro f hf
          rw [List.mem_cons] at hf
          rcases hf with hf | hf
          · subst hf; simp; omega
          · have := hs'.1 f hf; simp only at this; simp; omega
        rw [hnone] at h0
        have hr := ih (b + 1) ((b0, v0) :: r) hs
          (fun f hf => by
            rw [List.mem_cons] at hf
            rcases hf with hf | hf
            · subst hf; simp only; omega
            · have h1 := hs'.1 f hf; have h2 := hb f (List.mem_cons_of_mem _ hf); simp only at h1; omega)
          (fun c h1 h2 => hm c (by omega) (by omega))
        rw [hr]
        simp [optL, h0]

/-- what the oracle accepts as a "canonical parsed header": the payload is the canonical layout of a sized map, and
    the decoded field list is that map's field list -/
theorem decodeCanonical_sound (M : Meta) (buf : Bytes) (fs : List (Nat × Bytes)) (h : decodeCanonical M buf = some fs) :
    sized M (mapOfList fs) ∧ buf = canonical M (mapOfList fs) ∧ fieldList M (mapOfList fs) = fs := by
  unfold decodeCanonical at h
  by_cases hl : buf.length < 4
  · simp [hl] at h
  · simp only [hl, if_false] at h
    cases hd : decodeFields M buf (read32 buf 0) M.max 0 8 with
    | none => simp [hd] at h
    | some fs' =>
      simp only [hd] at h
      by_cases hc : (canonL M fs' == buf) = true
      · simp only [hc, if_true, Option.some.injEq] at h
        subst h
        obtain ⟨hs, hb⟩ := decodeFields_sound M buf _ _ _ _ _ hd
        have htable : ∀ c, mapOfList fs' c = match fs'.find? (fun f => f.1 == c) with
            | some f => some f.2
            | none => none := fun c => by
          have := lastWrite_sorted fs' FMap.empty c hs
          simpa [mapOfList, FMap.empty] using this
        have hfl : fieldList M (mapOfList fs') = fs' :=
          fieldsFrom_of_table _ M.max 0 fs' hs (fun f hf => by have := hb f hf; omega) (fun c _ _ => htable c)
        refine ⟨?_, ?_, hfl⟩
        · intro b v hbv
          rw [htable b] at hbv
          cases hfind : fs'.find? (fun f => f.1 == b) with
          | none => simp [hfind] at hbv
          | some f =>
            simp only [hfind, Option.some.injEq] at hbv
            have hmem := List.mem_of_find?_eq_some hfind
            have hkey := List.find?_some hfind
            simp only [beq_iff_eq] at hkey
            have := hb f hmem
            subst hbv
            rw [← hkey]
            omega
        · unfold canonical
          rw [hfl]
          exact (eq_of_beq hc).symm
      · simp [hc] at h

/-- a decoded field list (ascending bits, table sizes) is the field list of its own map -/
theorem mapOfList_of_sorted (M : Meta) (fs : List (Nat × Bytes)) (hs : Sorted fs)
    (hb : ∀ f ∈ fs, f.1 < M.max ∧ f.2.length = M.size f.1) :
    sized M (mapOfList fs) ∧ fieldList M (mapOfList fs) = fs := by
  have htable : ∀ c, mapOfList fs c = match fs.find? (fun f => f.1 == c) with
      | some f => some f.2
      | none => none := fun c => by
    have := lastWrite_sorted fs FMap.empty c hs
    simpa [mapOfList, FMap.empty] using this
  have hfl : fieldList M (mapOfList fs) = fs :=
    fieldsFrom_of_table _ M.max 0 fs hs (fun f hf => by have := hb f hf; omega) (fun c _ _ => htable c)
  refine ⟨?_, hfl⟩
  intro b v hbv
  rw [htable b] at hbv
  cases hfind : fs.find? (fun f => f.1 == b) with
  | none => simp [hfind] at hbv
  | some f =>
    simp only [hfind, Option.some.injEq] at hbv
    have hmem := List.mem_of_find?_eq_some hfind
    have hkey := List.find?_some hfind
    simp only [beq_iff_eq] at hkey
    have := hb f hmem
    subst hbv
    rw [← hkey]
    omega

/-- what the oracle accepts as a *well-aligned parsed header*: the payload is `layL M F fs` for a well-formed frame
    `F` (present-word chain + foreign bytes) and the field list `fs` of a sized map -/
theorem decodeLayout_sound (M : Meta) (buf : Bytes) (F : Frame) (fs : List (Nat × Bytes))
    (h : decodeLayout M buf = some (F, fs)) :
    F.ok M ∧ sized M (mapOfList fs) ∧ buf = layL M F (fieldList M (mapOfList fs)) ∧ fieldList M (mapOfList fs) = fs := by
  unfold decodeLayout at h
  cases hk : chainLen (buf.length / 4 + 1) buf 0 with
  | none => simp [hk] at h
  | some k =>
    simp only [hk] at h
    cases hd : decodeFields M buf (read32 buf 0) M.max 0 (8 + 4 * k) with
    | none => simp [hd] at h
    | some fs' =>
      simp only [hd] at h
      split at h
      · rename_i hcond
        simp only [Option.some.injEq, Prod.mk.injEq] at h
        obtain ⟨hF, hfs⟩ := h
        subst hfs
        obtain ⟨hs, hb⟩ := decodeFields_sound M buf _ _ _ _ _ hd
        obtain ⟨hsz, hfl⟩ := mapOfList_of_sorted M fs' hs (fun f hf => by have := hb f hf; omega)
        rw [← hF]
        refine ⟨hcond.2, hsz, ?_, hfl⟩
        rw [hfl]
        exact (eq_of_beq hcond.1).symm
      · cases h

end Tins.RT
