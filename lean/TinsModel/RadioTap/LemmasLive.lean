import TinsModel.RadioTap.LemmasSer
/- Helper lemmas for C11, part 9: `write_option` on a well-aligned header whose last present word announces table
   fields ("live" foreign bytes): a new field is inserted among the fields of the first present word; what follows them
   is re-padded as libtins reads it, never anything in front. -/
namespace Tins.RT

theorem advanceToNextField_ns (M : Meta) (p : Parser) : (advanceToNextField M p).1.ns = p.ns := by
  unfold advanceToNextField
  simp only
  split <;> rfl

/-- parser past the fields of the first present word: exhausted, or in the last present word -/
def Past (M : Meta) (F : Frame) (fs : List (Nat × Bytes)) (p : Parser) : Prop :=
  Good M (layL M F fs) F.k p ∧ (p.bit = M.max ∨ p.ns ≠ 0) ∧ encEnd M fs F.base ≤ p.ptr + 4

def PAtL (M : Meta) (F : Frame) (fs done rest : List (Nat × Bytes)) (p : Parser) : Prop :=
  match rest with
  | [] => Past M F fs p
  | (b, _) :: _ => p = stAt M F fs done b

theorem good_stAt {M : Meta} (F : Frame) {fs done rest : List (Nat × Bytes)} {b : Nat} {v : Bytes}
    (hfs : fs = done ++ (b, v) :: rest) (hsz : Sized M fs) : Good M (layL M F fs) F.k (stAt M F fs done b) :=
  ⟨rfl, rfl, Nat.zero_le _, by have := (sized_mem hsz hfs).1; simp only [stAt]; omega⟩

theorem past_exit {M : Meta} {F : Frame} {fs : List (Nat × Bytes)} {p : Parser} (h : Past M F fs p) :
    (hasFields M p && p.ns == 0) = false := by
  rcases h.2.1 with hb | hn
  · simp [hasFields, hb]
  · have : (p.ns == 0) = false := by simp [hn]
    simp [this]

/-- the namespace switch after the last field of the first present word: the parser ends or stands in the last word -/
theorem nextNamespaceField_off {M : Meta} (hwf : M.wf) {F : Frame} (hF : F.ok M) {fs : List (Nat × Bytes)} (hsz : Sized M fs)
    (ptr flags : Nat) :
    (nextNamespaceField M { buf := layL M F fs, null := false, ptr := ptr, bit := M.max, flags := flags, ns := 0 }).1.bit = M.max ∨
    (nextNamespaceField M { buf := layL M F fs, null := false, ptr := ptr, bit := M.max, flags := flags, ns := 0 }).1.ns ≠ 0 := by
  have hc := chain_layL hwf hF hsz
  have hwalk : nsWalk ((layL M F fs).length / 4 + 1) (layL M F fs) 0 = F.k :=
    nsWalk_spec _ _ hc _ _ (Nat.zero_le _) (by have := hc.inb; omega)
  unfold nextNamespaceField advanceToNextNamespace
  simp only [hwalk]
  by_cases hk : F.k = 0
  · left
    simp [hk]
  · have hne : (F.k != 0) = true := by simp [hk]
    simp only [hne, Bool.not_true, Bool.false_eq_true, if_false]
    right
    split
    · simp only [advanceToNextField_ns]; exact hk
    · simp only [advanceToNextField_ns]; exact hk

/-- `advance_field` from the last field of the first present word -/
theorem advanceField_last {M : Meta} (hwf : M.wf) {F : Frame} (hF : F.ok M) {fs done : List (Nat × Bytes)} {b : Nat} {v : Bytes}
    (hfs : fs = done ++ [(b, v)]) (hso : Sorted fs) (hsz : Sized M fs) :
    Past M F fs (advanceField M (stAt M F fs done b)).1 := by
  obtain ⟨hb, hv⟩ := sized_mem hsz hfs
  have hc := chain_layL hwf hF hsz
  have hg := good_stAt F hfs hsz
  obtain ⟨hg', hp'⟩ := advanceField_good hc hg
  have hbit : (stAt M F fs done b).bit = b := rfl
  have hptr := hp' (by rw [hbit]; exact hb)
  refine ⟨hg', ?_, ?_⟩
  · have hso' : Sorted (done ++ (b, v) :: []) := by rw [← hfs]; exact hso
    have hnb : (b == M.max) = false := by simp; omega
    have hshift : (presentWord fs ||| F.hb) / 2 ^ b / 2 = (presentWord fs ||| F.hb) / 2 ^ (b + 1) := by
      rw [Nat.div_div_eq_div_mul, Nat.pow_succ]
    rw [advanceField_eq]
    have hn : (stAt M F fs done b).null = false := rfl
    have hbit' : ((stAt M F fs done b).bit == M.max) = false := hnb
    simp only [hn, hbit', Bool.false_or, Bool.false_eq_true, if_false]
    have hadv : skipCurrentField M (stAt M F fs done b)
        = ((⟨layL M F fs, false, (stAt M F fs done b).ptr + M.size b, M.max, (presentWord fs ||| F.hb) / 2 ^ M.max, 0⟩ : Parser),
           false) := by
      unfold skipCurrentField
      simp only [stAt, hshift]
      apply advanceToNextField_end M _ _ _ _ _ (by omega)
      intro c hc' hcm
      rw [hfs, W_testBit hF _ c hcm]
      exact clear_between hso' c (by omega) (fun f hf => by simp at hf)
    simp only [hadv, Bool.false_eq_true, if_false]
    exact nextNamespaceField_off hwf hF hsz _ _
  · have h8 := le_encEnd M done F.base
    have hbase : 8 ≤ F.base := by simp [Frame.base]
    have : encEnd M fs F.base = encEnd M done F.base + padTo (M.align b) (encEnd M done F.base) + v.length := by
      rw [hfs, encEnd_snoc]
    have e1 : (stAt M F fs done b).ptr = encEnd M done F.base + padTo (M.align b) (encEnd M done F.base) - 4 := rfl
    have e2 : M.size (stAt M F fs done b).bit = M.size b := rfl
    rw [e1, e2] at hptr
    omega

theorem advanceField_stepL {M : Meta} (hwf : M.wf) {F : Frame} (hF : F.ok M) {fs done rest : List (Nat × Bytes)} {b : Nat} {v : Bytes}
    (hfs : fs = done ++ (b, v) :: rest) (hso : Sorted fs) (hsz : Sized M fs) :
    PAtL M F fs (done ++ [(b, v)]) rest (advanceField M (stAt M F fs done b)).1 := by
  cases rest with
  | nil => exact advanceField_last hwf hF hfs hso hsz
  | cons x rest' =>
    have := advanceField_step hwf hF hfs hso hsz (fun h => by cases h)
    obtain ⟨b', v'⟩ := x
    exact this

/-- the search loop skips the lower fields `lo` of the first present word and stops in front of the higher ones, or
    when it leaves the first present word -/
theorem searchLoop_insertL {M : Meta} (hwf : M.wf) {F : Frame} (hF : F.ok M)
    {fs : List (Nat × Bytes)} (hso : Sorted fs) (hsz : Sized M fs)
    (bit dl : Nat) (hi : List (Nat × Bytes)) (hhi : ∀ f ∈ hi, bit < f.1) :
    ∀ (lo done : List (Nat × Bytes)) (p : Parser) (cand fuel : Nat),
      fs = done ++ (lo ++ hi) → (∀ f ∈ lo, f.1 < bit) → PAtL M F fs done (lo ++ hi) p →
      (lo = [] → cand + 4 = encEnd M done F.base) → fuel > lo.length →
      ∃ p', PAtL M F fs (done ++ lo) hi p' ∧
        searchLoop M fuel p bit dl cand = .insertAt p' (encEnd M (done ++ lo) F.base - 4) := by
  intro lo
  induction lo with
  | nil =>
    intro done p cand fuel hfs _ hp hc hf
    cases fuel with
    | zero => omega
    | succ f =>
      simp only [List.nil_append, List.append_nil] at hfs hp ⊢
      refine ⟨p, hp, ?_⟩
      have hcand : encEnd M done F.base - 4 = cand := by have := hc rfl; omega
      cases hi with
      | nil =>
        have := past_exit hp
        simp [searchLoop, this, hcand]
      | cons x hi' =>
        obtain ⟨b', v'⟩ := x
        simp only [PAtL] at hp
        subst hp
        have hh := hasFields_stAt hwf F hfs hsz
        have hgt : bit < b' := by have := hhi (b', v') (List.mem_cons_self ..); simpa using this
        have hbit : (stAt M F fs done b').bit = b' := rfl
        have hns : (stAt M F fs done b').ns = 0 := rfl
        simp [searchLoop, hh, hbit, hns, hgt, hcand]
  | cons x lo' ih =>
    obtain ⟨b1, v1⟩ := x
    intro done p cand fuel hfs hlo hp hc hf
    cases fuel with
    | zero => simp at hf
    | succ f =>
      simp only [List.cons_append, PAtL] at hfs hp
      subst hp
      have hh := hasFields_stAt hwf F hfs hsz
      have hlt : b1 < bit := by have := hlo (b1, v1) (List.mem_cons_self ..); simpa using this
      have hbit : (stAt M F fs done b1).bit = b1 := rfl
      have hngt : ¬ (b1 > bit) := by omega
      have hne : ¬ (b1 = bit) := by omega
      obtain ⟨_, hv1⟩ := sized_mem hsz hfs
      have h8 := le_encEnd M done F.base
      have hbase : 8 ≤ F.base := by simp [Frame.base]
      have hstep := advanceField_stepL hwf hF hfs hso hsz
      have hfs2 : fs = (done ++ [(b1, v1)]) ++ (lo' ++ hi) := by rw [hfs]; simp
      obtain ⟨p', hp', hres⟩ := ih (done ++ [(b1, v1)]) (advanceField M (stAt M F fs done b1)).1
        ((stAt M F fs done b1).ptr + M.size b1) f hfs2
        (fun g hg => hlo g (List.mem_cons_of_mem _ hg)) hstep
        (fun _ => by simp only [stAt, encEnd_snoc, hv1]; omega) (by simp at hf; omega)
      refine ⟨p', by simpa using hp', ?_⟩
      have hns : ((stAt M F fs done b1).ns == 0) = true := rfl
      unfold searchLoop
      simp only [hh, hns, Bool.and_self, hbit, hngt, hne, if_true, if_false]
      rw [hres]
      simp

theorem descL_length {M : Meta} (hwf : M.wf) : ∀ (rest : List (Nat × Bytes)) (off : Nat), Sized M rest →
    (descL M rest off).length = (enc M rest off).length := by
  intro rest
  induction rest with
  | nil => intro off _; rfl
  | cons x r ih =>
    obtain ⟨b, v⟩ := x
    intro off hs
    obtain ⟨hb, hv⟩ := hs (b, v) (List.mem_cons_self ..)
    simp only at hb hv
    have hpos := (hwf.2 b hb).1
    have hr : Sized M r := fun f hf => hs f (List.mem_cons_of_mem _ hf)
    simp only [descL, enc, List.length_append, List.length_replicate, List.length_cons, List.length_nil, zeros_length,
      ih _ hr]
    omega

/-- `build_padding_vector`: the remaining fields of the first present word, then segments for what libtins reads
    as fields of the last present word, each starting inside the buffer -/
theorem buildPaddingVector_live {M : Meta} (hwf : M.wf) {F : Frame} (hF : F.ok M)
    {fs : List (Nat × Bytes)} (hso : Sorted fs) (hsz : Sized M fs) (cand : Nat) :
    ∀ (rest done : List (Nat × Bytes)) (p : Parser) (last fuel : Nat),
      fs = done ++ rest → PAtL M F fs done rest p → last + 4 = encEnd M done F.base → cand ≤ last → fuel > rest.length →
      ∃ segs, buildPaddingVector M fuel p last = descL M rest (encEnd M done F.base) ++ pv segs ∧
        SegsOK segs (encEnd M fs F.base - 4 - cand) ((layL M F fs).length - cand) := by
  intro rest
  induction rest with
  | nil =>
    intro done p last fuel hfs hp hl hcl _
    simp only [List.append_nil] at hfs
    subst hfs
    obtain ⟨hg, _, hptr⟩ := hp
    have hc := chain_layL hwf hF hsz
    obtain ⟨segs, hs, hok⟩ := buildPaddingVector_segs hwf hc cand fuel p last hg hcl (by omega)
    refine ⟨segs, by simpa [descL] using hs, ?_⟩
    have : last = encEnd M fs F.base - 4 := by omega
    rw [← this]; exact hok
  | cons x rest' ih =>
    obtain ⟨b, v⟩ := x
    intro done p last fuel hfs hp hl hcl hf
    cases fuel with
    | zero => simp at hf
    | succ f =>
      simp only [PAtL] at hp
      subst hp
      have hh := hasFields_stAt hwf F hfs hsz
      obtain ⟨_, hv⟩ := sized_mem hsz hfs
      have h8 := le_encEnd M done F.base
      have hbase : 8 ≤ F.base := by simp [Frame.base]
      have hstep := advanceField_stepL hwf hF hfs hso hsz
      have hfs2 : fs = (done ++ [(b, v)]) ++ rest' := by rw [hfs]; simp
      obtain ⟨segs, hres, hok⟩ := ih (done ++ [(b, v)]) (advanceField M (stAt M F fs done b)).1
        ((stAt M F fs done b).ptr + M.size b) f hfs2 hstep
        (by simp only [stAt, encEnd_snoc, hv]; omega) (by simp only [stAt]; omega) (by simp at hf; omega)
      have hpad : (stAt M F fs done b).ptr - last = padTo (M.align b) (encEnd M done F.base) := by
        simp only [stAt]; omega
      have hbit : (stAt M F fs done b).bit = b := rfl
      refine ⟨segs, ?_, hok⟩
      unfold buildPaddingVector
      simp only [hh, if_true, descL]
      rw [hpad, hbit, hres, encEnd_snoc]
      simp only [List.append_assoc]

/-- `write_option` of a field the first present word does not have, on any well-aligned header: inserted among the
    fields of the first present word; the present-word chain is kept, the bytes behind the first word's fields may be
    re-padded (they are fields of the last present word to libtins) -/
theorem writeOption_insert_live {M : Meta} (hwf : M.wf) (hla : M.lowAlign) {F : Frame} (hF : F.ok M)
    (lo hi : List (Nat × Bytes)) (bit : Nat) (data : Bytes)
    (hso : Sorted (lo ++ (bit, data) :: hi)) (hsz : Sized M (lo ++ (bit, data) :: hi)) :
    ∃ T', writeOption M (layL M F (lo ++ hi)) bit data = .ok (layL M { F with tail := T' } (lo ++ (bit, data) :: hi)) := by
  obtain ⟨hlo, hhi, hshi⟩ := sorted_split hso
  simp only at hlo hhi
  obtain ⟨hbit, hdata⟩ := sized_mem hsz rfl
  have hal := (hwf.2 bit hbit).2
  have hapos : 0 < M.align bit := by omega
  have hso' : Sorted (lo ++ hi) := by
    unfold Sorted at hso ⊢
    rw [List.pairwise_append] at hso ⊢
    obtain ⟨h1, h2, h3⟩ := hso
    rw [List.pairwise_cons] at h2
    exact ⟨h1, h2.2, fun a ha b hb => h3 a ha b (List.mem_cons_of_mem _ hb)⟩
  have hsz' : Sized M (lo ++ hi) := by
    intro f hf
    apply hsz f
    rw [List.mem_append] at hf ⊢
    rcases hf with hf | hf
    · exact Or.inl hf
    · exact Or.inr (List.mem_cons_of_mem _ hf)
  have hszhi : Sized M hi := sized_append_right hsz'
  have hne := layL_nonempty M F (lo ++ hi)
  have hbase : 8 ≤ F.base := by simp [Frame.base]
  -- the parser and the search loop
  obtain ⟨p0, hp0, hpat0, hptr0, hbuf0, hnull0, hns0⟩ := mk_layL hwf hF hso' hsz'
  have hpatL0 : PAtL M F (lo ++ hi) [] (lo ++ hi) p0 := by
    cases hfs : lo ++ hi with
    | nil =>
      rw [hfs] at hpat0 hptr0 hbuf0
      obtain ⟨_, _, hb0⟩ := hpat0
      have hp4 := hptr0 rfl
      refine ⟨⟨hbuf0, hnull0, by omega, by omega⟩, Or.inl hb0, ?_⟩
      rw [encEnd_nil]; omega
    | cons x r =>
      obtain ⟨b0, v0⟩ := x
      rw [hfs] at hpat0
      exact hpat0
  have hcand0 : lo = [] → p0.ptr + 4 = encEnd M [] F.base := by
    intro hlo0
    rw [encEnd_nil]
    cases hhi0 : hi with
    | nil => exact hptr0 (by rw [hlo0, hhi0]; rfl)
    | cons x hi' =>
      obtain ⟨b', v'⟩ := x
      have hp : p0 = stAt M F (lo ++ hi) [] b' := by
        have := hpat0
        rw [hlo0, hhi0] at this
        simpa [PAt, hlo0, hhi0] using this
      have hb'gt : bit < b' := by have := hhi (b', v') (by rw [hhi0]; exact List.mem_cons_self ..); simpa using this
      have hb'm : b' < M.max := (hszhi (b', v') (by rw [hhi0]; exact List.mem_cons_self ..)).1
      rw [hp]
      simp only [stAt, encEnd_nil, padTo_base hla hF b' (by omega) hb'm]
      omega
  have hfuel_lo : (loopFuel M (layL M F (lo ++ hi))) > lo.length :=
    length_lt_loopFuel (sorted_append_left hso') (sized_append_left hsz') _
  have hfuel_hi : (loopFuel M (layL M F (lo ++ hi))) > hi.length :=
    length_lt_loopFuel (sorted_append_right hso') hszhi _
  obtain ⟨p1, hpat1, hsearch⟩ := searchLoop_insertL hwf hF hso' hsz' bit data.length hi hhi lo [] p0 p0.ptr
    (loopFuel M (layL M F (lo ++ hi))) (by simp) hlo hpatL0 hcand0 hfuel_lo
  simp only [List.nil_append] at hpat1 hsearch
  have h8 := le_encEnd M lo F.base
  obtain ⟨segs, hbuild, hsegs⟩ := buildPaddingVector_live hwf hF hso' hsz' (encEnd M lo F.base - 4) hi lo p1
    (encEnd M lo F.base - 4) (loopFuel M (layL M F (lo ++ hi))) rfl hpat1 (by omega) (Nat.le_refl _) hfuel_hi
  -- the buffer, split at the insertion point
  have hW := W_lt hwf hF hsz'
  have hB : layL M F (lo ++ hi) = (le32 (presentWord (lo ++ hi) ||| F.hb) ++ F.wsb ++ enc M lo F.base) ++
      (enc M hi (encEnd M lo F.base) ++ F.tail) := by
    simp [layL, enc_append]
  have hPlen : (le32 (presentWord (lo ++ hi) ||| F.hb) ++ F.wsb ++ enc M lo F.base).length = encEnd M lo F.base - 4 := by
    simp [le32, encEnd, Frame.base]; omega
  have hpadding : calculatePadding (M.align bit) (encEnd M lo F.base - 4 + 4) = padTo (M.align bit) (encEnd M lo F.base) := by
    rw [calculatePadding_eq _ _ hapos]
    congr 1
    omega
  have hnot : ¬ (encEnd M lo F.base - 4 > (layL M F (lo ++ hi)).length) := by
    rw [hB, List.length_append, hPlen]; omega
  have htake : (layL M F (lo ++ hi)).take (encEnd M lo F.base - 4)
      = le32 (presentWord (lo ++ hi) ||| F.hb) ++ F.wsb ++ enc M lo F.base := by
    rw [hB]; exact List.take_left' hPlen
  have hdrop : (layL M F (lo ++ hi)).drop (encEnd M lo F.base - 4) = enc M hi (encEnd M lo F.base) ++ F.tail := by
    rw [hB]; exact List.drop_left' hPlen
  let pre := le32 (presentWord (lo ++ hi) ||| F.hb) ++ F.wsb ++ enc M lo F.base ++
    zeros (padTo (M.align bit) (encEnd M lo F.base)) ++ data
  have hprelen : pre.length + 4 = encEnd M lo F.base + padTo (M.align bit) (encEnd M lo F.base) + data.length := by
    simp only [pre, List.length_append, zeros_length]
    have := hPlen
    simp only [List.length_append] at this
    omega
  -- the index / distance bookkeeping of the padding vector
  have hdl := descL_length hwf hi (encEnd M lo F.base) hszhi
  have hidx : encEnd M (lo ++ hi) F.base - 4 - (encEnd M lo F.base - 4) = (descL M hi (encEnd M lo F.base)).length := by
    rw [hdl, encEnd_append]
    simp only [encEnd]; omega
  have hD : (layL M F (lo ++ hi)).length - (encEnd M lo F.base - 4) = (descL M hi (encEnd M lo F.base)).length + F.tail.length := by
    rw [hB, List.length_append, hPlen, hdl]
    simp only [List.length_append]; omega
  rw [hidx, hD] at hsegs
  have hX : ∀ (k i : Nat) (offset : Int) (pre' : Bytes) (fuel : Nat), i + k = (descL M hi (encEnd M lo F.base)).length →
      (pre'.length : Int) = offset + i + k → fuel > k + (pv segs).length →
      ∃ T', updatePaddings fuel (List.replicate k 1 ++ pv segs) i offset (pre' ++ F.tail) = .ok (pre' ++ T') := by
    intro k i offset pre' fuel hik hpl hfu
    obtain ⟨b, hb, hpre⟩ := updatePaddings_safe segs k i offset (pre' ++ F.tail)
      ((descL M hi (encEnd M lo F.base)).length + F.tail.length) fuel (by rw [hik]; exact hsegs)
      (by simp only [List.length_append]; omega) (by omega) hfu
    refine ⟨b.drop pre'.length, ?_⟩
    have := hpre pre'.length (by omega)
    rw [List.take_left] at this
    have e : pre' ++ b.drop pre'.length = b := by
      have h := List.take_append_drop pre'.length b
      rw [this] at h
      exact h
    rw [hb, e]
  obtain ⟨T', hupd⟩ := updatePaddings_cont M hwf F.tail (pv segs) (descL M hi (encEnd M lo F.base)).length hX hi
    (encEnd M lo F.base) 0 0
    ((encEnd M lo F.base - 4 + padTo (M.align bit) (encEnd M lo F.base) + data.length : Nat) : Int) pre
    ((descL M hi (encEnd M lo F.base) ++ pv segs).length + 1) hszhi (by omega) (by omega)
    (by simp only [List.length_append]; omega)
  simp only [List.replicate_zero, List.nil_append] at hupd
  refine ⟨T', ?_⟩
  -- run the code
  unfold writeOption
  have hbit' : ¬ (bit ≥ M.max) := by omega
  simp only [hbit', if_false, hp0, hsearch, hne, Bool.false_eq_true, hbuild, hpadding, hnot, htake, hdrop]
  have hbuf1 : le32 (presentWord (lo ++ hi) ||| F.hb) ++ F.wsb ++ enc M lo F.base ++
      zeros (padTo (M.align bit) (encEnd M lo F.base)) ++ data ++
      (enc M hi (encEnd M lo F.base) ++ F.tail) = pre ++ (enc M hi (encEnd M lo F.base) ++ F.tail) := rfl
  rw [hbuf1, hupd]
  simp only
  have hread : read32 (pre ++ (enc M hi (pre.length + 4) ++ T')) 0 = presentWord (lo ++ hi) ||| F.hb := by
    simp only [pre, List.append_assoc]
    rw [read32_le32]; omega
  have hdrop4 : (pre ++ (enc M hi (pre.length + 4) ++ T')).drop 4
      = F.wsb ++ (enc M lo F.base ++ (zeros (padTo (M.align bit) (encEnd M lo F.base)) ++
          (data ++ (enc M hi (pre.length + 4) ++ T')))) := by
    simp only [pre, List.append_assoc]
    rw [drop4_le32]
  rw [hread, hdrop4, hprelen, or_right_comm']
  simp only [layL, Frame.base, presentWord_insert, enc_append, enc, List.append_assoc]

/-- one valid write on any well-aligned header of a map -/
theorem writeOption_layout_live {M : Meta} (hwf : M.wf) (hla : M.lowAlign) {F : Frame} (hF : F.ok M)
    {m : FMap} (hm : sized M m) (f : Nat) (v : Bytes) (hw : validWrite M (f, v)) :
    ∃ T', writeOption M (layL M F (fieldList M m)) f v = .ok (layL M { F with tail := T' } (fieldList M (upd m f v))) := by
  cases hmf : m f with
  | some old => exact ⟨F.tail, writeOption_layout_present hwf hF hm f v old hw hmf⟩
  | none =>
    obtain ⟨hf, hv⟩ := hw
    simp only at hf hv
    have hso := fieldList_sorted M (upd m f v)
    have hsz := fieldList_sized (sized_upd hm (w := (f, v)) ⟨hf, hv⟩)
    simp only at hso hsz
    rw [fieldList_upd M m f v hf] at hso hsz ⊢
    rw [fieldList_split M m f hf]
    simp only [optL, hmf, List.nil_append]
    exact writeOption_insert_live hwf hla hF _ _ f v hso hsz

theorem Frame.ok_tail {M : Meta} {F : Frame} (hF : F.ok M) (T : Bytes) : ({ F with tail := T } : Frame).ok M := hF

/-- any finite sequence of valid writes on any well-aligned header -/
theorem applyWrites_layout_live {M : Meta} (hwf : M.wf) (hla : M.lowAlign) :
    ∀ (ws : List (Nat × Bytes)) (F : Frame) (m : FMap) (ver pad : Nat), F.ok M →
    sized M m → (∀ w ∈ ws, validWrite M w) →
    ∃ T', applyWrites M ws { version := ver, pad := pad, payload := layL M F (fieldList M m) }
      = .ok { version := ver, pad := pad, payload := layL M { F with tail := T' } (fieldList M (lastWrite m ws)) } := by
  intro ws
  induction ws with
  | nil => intro F m ver pad _ _ _; exact ⟨F.tail, by simp [applyWrites, lastWrite]⟩
  | cons w r ih =>
    intro F m ver pad hF hm hw
    obtain ⟨b, d⟩ := w
    have hwv := hw (b, d) (List.mem_cons_self ..)
    obtain ⟨T1, h1⟩ := writeOption_layout_live hwf hla hF hm b d hwv
    obtain ⟨T2, h2⟩ := ih { F with tail := T1 } (upd m b d) ver pad (Frame.ok_tail hF T1) (sized_upd hm hwv)
      (fun x hx => hw x (List.mem_cons_of_mem _ hx))
    refine ⟨T2, ?_⟩
    simp only [applyWrites, addOption, h1]
    rw [h2]
    simp [lastWrite]

end Tins.RT
