import TinsModel.RadioTap.Model
/-
  Specification for property C11, written from the property text and the radiotap standard (radiotap.org,
  "defined fields"), not from libtins:

    * the state of a header is a last-write map  field bit ↦ value bytes  (`FMap`);
    * `canonical m` = the present word (OR of the flags of the set fields, little endian) followed by the set
      fields in bit order, each preceded by the zero padding that brings it to its natural alignment counted from
      the start of the radiotap header (the options start at offset 8: 4 bytes fixed header + one present word);
    * every getter returns the last value written for its field, unset fields report "not present", the present
      word is the domain of the map, header size = 4 + |canonical m|.
-/
namespace Tins.RT

/-- (size, alignment) of the radiotap fields 0‥21 as defined by the standard -/
def stdFields : List (Nat × Nat) := [
  (8, 8),   -- 0  TSFT                u64
  (1, 1),   -- 1  Flags               u8
  (1, 1),   -- 2  Rate                u8
  (4, 2),   -- 3  Channel             u16 frequency, u16 flags
  (2, 2),   -- 4  FHSS                u8 hop set, u8 hop pattern (alignment 2)
  (1, 1),   -- 5  Antenna signal      s8 dBm
  (1, 1),   -- 6  Antenna noise       s8 dBm
  (2, 2),   -- 7  Lock quality        u16
  (2, 2),   -- 8  TX attenuation      u16
  (2, 2),   -- 9  dB TX attenuation   u16
  (1, 1),   -- 10 dBm TX power        s8
  (1, 1),   -- 11 Antenna             u8
  (1, 1),   -- 12 dB antenna signal   u8
  (1, 1),   -- 13 dB antenna noise    u8
  (2, 2),   -- 14 RX flags            u16
  (2, 2),   -- 15 TX flags            u16
  (1, 1),   -- 16 RTS retries         u8
  (1, 1),   -- 17 data retries        u8
  (8, 4),   -- 18 XChannel            u32 flags, u16 freq, u8 channel, u8 max power
  (3, 1),   -- 19 MCS                 u8 known, u8 flags, u8 mcs
  (8, 4),   -- 20 A-MPDU status       u32 reference, u16 flags, u8 crc, u8 reserved
  (12, 2)]  -- 21 VHT                 u16 known, u8 flags, u8 bandwidth, u8 mcs_nss[4], u8 coding, u8 group, u16 partial aid

def stdMeta : Meta where
  size b := (stdFields.getD b (0, 0)).1
  align b := (stdFields.getD b (0, 0)).2
  max := 22

/-- field table is usable: sizes positive, alignments powers of two up to 8, bits fit the 32-bit present word
    below the three reserved top bits -/
def Meta.wf (M : Meta) : Prop :=
  M.max ≤ 29 ∧ ∀ b, b < M.max → 0 < M.size b ∧ (M.align b = 1 ∨ M.align b = 2 ∨ M.align b = 4 ∨ M.align b = 8)

instance (M : Meta) : Decidable M.wf := by unfold Meta.wf; exact inferInstance

/-- last-write map: field bit ↦ value -/
abbrev FMap := Nat → Option Bytes

def FMap.empty : FMap := fun _ => none

def upd (m : FMap) (b : Nat) (v : Bytes) : FMap := fun c => if c = b then some v else m c

/-- the map after a chronological list of writes -/
def lastWrite (m0 : FMap) (ws : List (Nat × Bytes)) : FMap := ws.foldl (fun m w => upd m w.1 w.2) m0

/-- the set fields among the `n` bits from `b` on, in bit order -/
def fieldsFrom (m : FMap) : Nat → Nat → List (Nat × Bytes)
  | 0, _ => []
  | n + 1, b =>
    match m b with
    | some v => (b, v) :: fieldsFrom m n (b + 1)
    | none => fieldsFrom m n (b + 1)

/-- the set fields in bit order -/
def fieldList (M : Meta) (m : FMap) : List (Nat × Bytes) := fieldsFrom m M.max 0

/-- zero bytes needed at offset `off` to reach a multiple of `a` -/
def padTo (a off : Nat) : Nat := (a - off % a) % a

/-- the fields, each at its naturally aligned offset; `off` = offset from the start of the radiotap header -/
def enc (M : Meta) : List (Nat × Bytes) → Nat → Bytes
  | [], _ => []
  | (b, v) :: r, off => zeros (padTo (M.align b) off) ++ v ++ enc M r (off + padTo (M.align b) off + v.length)

/-- offset (from the start of the radiotap header) right after the fields `fs` laid out from `off` -/
def encEnd (M : Meta) (fs : List (Nat × Bytes)) (off : Nat) : Nat := off + (enc M fs off).length

/-- OR of the present flags of the listed fields -/
def presentWord (fs : List (Nat × Bytes)) : Nat := fs.foldl (fun w f => w ||| 2 ^ f.1) 0

def canonL (M : Meta) (fs : List (Nat × Bytes)) : Bytes := le32 (presentWord fs) ++ enc M fs 8

/-- canonical options payload of a last-write map -/
def canonical (M : Meta) (m : FMap) : Bytes := canonL M (fieldList M m)

/-! ### headers with a chain of present words

  A parsed header may carry more than one present word (bit 31 = another word follows; bit 29 / 30 announce a
  radiotap / vendor namespace) and bytes the setters do not own: data of fields this table has no entry for, of
  later namespaces, of vendor namespaces.  `Frame` is that part of a header; `layL M F fs` is the header in which the
  fields `fs` of the *first* present word sit, in bit order, at their aligned offsets between the present words and
  the foreign bytes.  `canonL M fs` is the special case of the empty frame. -/

structure Frame where
  /-- the bits of the first present word that are not fields of the table: undefined fields, namespace bits, bit 31 -/
  hb : Nat
  /-- the present words after the first one -/
  wsb : Bytes
  /-- everything after the fields of the first present word -/
  tail : Bytes
deriving DecidableEq, Repr

def Frame.nil : Frame := { hb := 0, wsb := [], tail := [] }

/-- offset, counted from the start of the radiotap header, of the first field -/
def Frame.base (F : Frame) : Nat := 8 + F.wsb.length

/-- number of present words after the first one -/
def Frame.k (F : Frame) : Nat := F.wsb.length / 4

/-- the last present word (meaningful when `0 < F.k`) -/
def Frame.lastWord (F : Frame) : Nat := read32 F.wsb (4 * (F.k - 1))

def layL (M : Meta) (F : Frame) (fs : List (Nat × Bytes)) : Bytes :=
  le32 (presentWord fs ||| F.hb) ++ F.wsb ++ enc M fs F.base ++ F.tail

/-- the header in which the bytes behind the first present word's fields are the fields `fsK` of the *last* present
    word at their aligned offsets (what libtins' parser reads next), then `rest` (`F.tail` is not used) -/
def lay2 (M : Meta) (F : Frame) (fs0 fsK : List (Nat × Bytes)) (rest : Bytes) : Bytes :=
  layL M { F with tail := enc M fsK (encEnd M fs0 F.base) ++ rest } fs0

/-- the frame is a well-formed chain: `hb` owns no table bit and fits 32 bits, the later words are whole, bit 31 is
    set in every word but the last -/
def Frame.ok (M : Meta) (F : Frame) : Prop :=
  F.hb < 4294967296 ∧ (∀ c, c < M.max → F.hb.testBit c = false) ∧ F.wsb.length % 4 = 0 ∧
  F.hb.testBit 31 = decide (0 < F.k) ∧
  (∀ j, j < F.k - 1 → extSet (read32 F.wsb (4 * j)) = true) ∧
  (0 < F.k → extSet F.lastWord = false)

instance (M : Meta) (F : Frame) : Decidable (F.ok M) := by unfold Frame.ok; exact inferInstance

/-- the last present word announces no field of the table: libtins' parser, which reads the fields of the first and
    of the last present word, never walks into the foreign bytes -/
def Frame.inert (M : Meta) (F : Frame) : Prop := 0 < F.k → ∀ c, c < M.max → F.lastWord.testBit c = false

instance (M : Meta) (F : Frame) : Decidable (F.inert M) := by unfold Frame.inert; exact inferInstance

/-- alignment of the fields above bit 0 divides 4, so the first field after a chain of present words needs no
    padding unless it is field 0 -/
def Meta.lowAlign (M : Meta) : Prop := ∀ b, b < M.max → 0 < b → 4 % M.align b = 0

instance (M : Meta) : Decidable M.lowAlign := by unfold Meta.lowAlign; exact inferInstance

/-- every written value has the size the standard gives its field -/
def sized (M : Meta) (m : FMap) : Prop := ∀ b v, m b = some v → b < M.max ∧ v.length = M.size b

/-- a write the property talks about: a known field and a value of that field's size -/
def validWrite (M : Meta) (w : Nat × Bytes) : Prop := w.1 < M.max ∧ w.2.length = M.size w.1

instance (M : Meta) (w : Nat × Bytes) : Decidable (validWrite M w) := by unfold validWrite; exact inferInstance

/-- the default header of libtins (documented in radiotap.h: channel 1 / 0xa0, FCS flag, tsft 0, −50 dBm,
    rx_flags 0, antenna 0) as a last-write map -/
def defaultMap : FMap := lastWrite FMap.empty defaultWrites

/-! ### executable oracle helpers -/

/-- decode a single-namespace payload greedily (fields in bit order at aligned offsets); `none` when a field
    does not fit -/
def decodeFields (M : Meta) (buf : Bytes) (word : Nat) : Nat → Nat → Nat → Option (List (Nat × Bytes))
  | 0, _, _ => some []
  | n + 1, b, off =>
    if word / 2 ^ b % 2 = 1 then
      let p := padTo (M.align b) off
      let s := off + p - 4
      if s + M.size b ≤ buf.length then
        (decodeFields M buf word n (b + 1) (off + p + M.size b)).map (fun r => (b, (buf.drop s).take (M.size b)) :: r)
      else none
    else decodeFields M buf word n (b + 1) off

/-- the last-write map a parsed payload stands for, when the payload is exactly canonical -/
def decodeCanonical (M : Meta) (buf : Bytes) : Option (List (Nat × Bytes)) :=
  if buf.length < 4 then none else
  match decodeFields M buf (read32 buf 0) M.max 0 8 with
  | some fs => if canonL M fs == buf then some fs else none
  | none => none

def mapOfList (fs : List (Nat × Bytes)) : FMap := lastWrite FMap.empty fs

/-- index of the last present word of a chain that fits the buffer -/
def chainLen : Nat → Bytes → Nat → Option Nat
  | 0, _, _ => none
  | fuel + 1, buf, i =>
    if 4 * i + 4 ≤ buf.length then
      if extSet (read32 buf (4 * i)) then chainLen fuel buf (i + 1) else some i
    else none

/-- split a parsed options payload into frame and first-word fields, when it is *well aligned*: the chain of present
    words fits, every table field of the first word fits at its aligned offset, the padding bytes are zero — i.e.
    the payload is exactly `layL M F fs` for a well-formed frame `F` -/
def decodeLayout (M : Meta) (buf : Bytes) : Option (Frame × List (Nat × Bytes)) :=
  match chainLen (buf.length / 4 + 1) buf 0 with
  | none => none
  | some k =>
    let w0 := read32 buf 0
    match decodeFields M buf w0 M.max 0 (8 + 4 * k) with
    | none => none
    | some fs =>
      let F : Frame := { hb := w0 - w0 % 2 ^ M.max, wsb := (buf.drop 4).take (4 * k),
                         tail := buf.drop (4 + 4 * k + (enc M fs (8 + 4 * k)).length) }
      if layL M F fs == buf ∧ F.ok M then some (F, fs) else none

/-- a well-aligned payload in which, in addition, the bytes behind the first present word's fields are the well-aligned
    fields of the *last* present word (zero padding, every announced table field fits) followed by `rest`: first-word
    fields (not empty), last-word fields, rest -/
def decodeLayout2 (M : Meta) (buf : Bytes) : Option (Frame × List (Nat × Bytes) × List (Nat × Bytes) × Bytes) :=
  match decodeLayout M buf with
  | none => none
  | some (F, fs0) =>
    if F.k = 0 ∨ fs0 = [] then none else
    let off := encEnd M fs0 F.base
    match decodeFields M buf F.lastWord M.max 0 off with
    | none => none
    | some fsK =>
      let e := enc M fsK off
      if F.tail.take e.length = e ∧ (∀ c, c < M.max → F.lastWord.testBit c = (presentWord fsK).testBit c)
      then some (F, fs0, fsK, F.tail.drop e.length) else none

/-! ### what a parser of an options buffer may report (radiotap standard; used by the oracle of `walk` / `skipto`) -/

/-- the present words of an options buffer: word `i + 1` exists iff word `i` has bit 31; `none` when the chain
    does not fit the buffer -/
def stdChain : Nat → Bytes → Nat → Option (List Nat)
  | 0, _, _ => none
  | fuel + 1, buf, i =>
    if 4 * i + 4 ≤ buf.length then
      let w := read32 buf (4 * i)
      if w / 2147483648 % 2 = 1 then (stdChain fuel buf (i + 1)).map (w :: ·) else some [w]
    else none

/-- a field a parser reports: bit, offset in the options buffer, value (`none` = the field starts inside the
    buffer but does not end inside it) -/
structure StdItem where
  bit : Nat
  off : Nat
  val : Option Bytes
deriving DecidableEq, Repr

/-- the defined fields (`bit < M.max`) of the present word `w`, laid out from buffer offset `cur` on, each at the
    next offset that is aligned counted from the radiotap header (4 bytes before the buffer); stops at the first
    field that does not start inside the buffer.  Returns the fields, the offset after the last one, and whether
    all fields of the word were reached. -/
def stdFieldsOf (M : Meta) (buf : Bytes) (w : Nat) : Nat → Nat → Nat → List StdItem × Nat × Bool
  | 0, _, cur => ([], cur, true)
  | n + 1, b, cur =>
    if w / 2 ^ b % 2 = 1 then
      let off := cur + padTo (M.align b) (cur + 4)
      if off < buf.length then
        let v := if off + M.size b ≤ buf.length then some ((buf.drop off).take (M.size b)) else none
        let r := stdFieldsOf M buf w n (b + 1) (off + M.size b)
        ({ bit := b, off := off, val := v } :: r.1, r.2.1, r.2.2)
      else ([], cur, false)
    else stdFieldsOf M buf w n (b + 1) cur

/-- namespace of the word that follows `w`: 0 = radiotap (bit 29), 1 = vendor (bit 30), 2 = neither -/
def stdNsAfter (w : Nat) : Nat := if w / 536870912 % 2 = 1 then 0 else if w / 1073741824 % 2 = 1 then 1 else 2

end Tins.RT
