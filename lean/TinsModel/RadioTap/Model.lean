import TinsModel.Basic.Seq32
import TinsModel.Gen.RadioTapMeta
/-
  Code-shaped model of the RadioTap option machinery of libtins:

    * `Utils::RadioTapParser`   (src/utils/radiotap_parser.cpp)   — `Parser`, `Parser.mk`, `advanceField`, …
    * `Utils::RadioTapWriter`   (src/utils/radiotap_writer.cpp)   — `writeOption`, `buildPaddingVector`, `updatePaddings`
    * `RadioTap`                (src/radiotap.cpp)                — default / parsing constructor, setters, getters,
                                                                    `present`, `header_size`, `trailer_size`, serialization

  Pointers into the options buffer are indices (`start_` = 0, `end_` = `buf.length`).  Raw accesses that the C++
  performs without a bounds check (`memcpy` into the buffer, `vector::insert/erase` at a computed position) return
  `Out.fault` when they would leave the buffer.  The field table (`RADIOTAP_METADATA`, `MAX_RADIOTAP_FIELD`) is a
  parameter `M : Meta`; the driver instantiates it with the table generated from the source (`genMeta`).

  Deliberate abstractions (validated by the correspondence run, listed in the evidence):
    * `get_bit(value) = round(log2(value))` is the identity on the single-bit values `1 << bit` that all callers pass;
      the model's operations take the bit number.
    * `RadioTapParser::current_namespace_` (radiotap / vendor / unknown) is not observable through `RadioTap`; omitted.
    * `uint32_t offset` of `update_paddings` is an integer (no wrap): equal to the C++ as long as buffer positions
      are below 2^32.
    * little-endian host (the `TINS_IS_LITTLE_ENDIAN` branch).
-/
namespace Tins.RT

/-- libtins exception kinds that can leave the modelled code -/
inductive Exc | malformedPacket | malformedOption | fieldNotPresent
deriving DecidableEq, Repr

/-- outcome of a modelled operation: value, libtins exception, or memory fault (site) -/
inductive Out (α : Type) where
  | ok (a : α)
  | throw (e : Exc)
  | fault (site : String)
deriving Repr

def Out.bind {α β} (x : Out α) (f : α → Out β) : Out β :=
  match x with
  | .ok a => f a
  | .throw e => .throw e
  | .fault s => .fault s

instance : Monad Out where
  pure := Out.ok
  bind := Out.bind

/-- `RadioTapParser::FieldMetadata` table + `MAX_RADIOTAP_FIELD` -/
structure Meta where
  size : Nat → Nat
  align : Nat → Nat
  max : Nat

/-- the table generated from src/utils/radiotap_parser.cpp -/
def genMeta : Meta where
  size b := (Gen.radiotapMetadata.getD b (0, 0)).1
  align b := (Gen.radiotapMetadata.getD b (0, 0)).2
  max := Gen.maxRadiotapField

def zeros (n : Nat) : Bytes := List.replicate n 0

def byteAt (buf : Bytes) (i : Nat) : Nat := (buf.getD i 0).toNat

/-- `memcpy(&u32, p, 4)` + `Endian::le_to_host` -/
def read32 (buf : Bytes) (i : Nat) : Nat :=
  byteAt buf i + 256 * byteAt buf (i + 1) + 65536 * byteAt buf (i + 2) + 16777216 * byteAt buf (i + 3)

/-- the 4 bytes of a `uint32_t` in little-endian order -/
def le32 (x : Nat) : Bytes :=
  [UInt8.ofNat (x % 256), UInt8.ofNat (x / 256 % 256), UInt8.ofNat (x / 65536 % 256), UInt8.ofNat (x / 16777216 % 256)]

/-- `RadioTapFlags::ext` (bit 31 of the present word) -/
def extSet (w : Nat) : Bool := w / 2147483648 % 2 == 1

/-! ### RadioTapParser -/

structure Parser where
  buf : Bytes
  /-- `start_ == 0` (constructed over an empty buffer) -/
  null : Bool
  /-- `current_ptr_ - start_` -/
  ptr : Nat
  bit : Nat
  flags : Nat
  ns : Nat
deriving Repr

/-- `align_buffer(start_ - 4, current_ptr_, n)` -/
def alignBuffer (ptr n : Nat) : Nat :=
  let offset := (ptr + 4) &&& (n - 1)
  if offset ≠ 0 then ptr + (n - offset) else ptr

/-- the `while ((current_flags_ & 1) == 0 && current_bit_ < MAX)` loop of `advance_to_next_field` -/
def skipUnset : Nat → Nat → Nat → Nat → Nat × Nat
  | 0, _, flags, bit => (flags, bit)
  | fuel + 1, max, flags, bit =>
    if flags % 2 = 0 ∧ bit < max then skipUnset fuel max (flags / 2) (bit + 1) else (flags, bit)

/-- `RadioTapParser::advance_to_next_field` (= `advance_to_first_field`) -/
def advanceToNextField (M : Meta) (p : Parser) : Parser × Bool :=
  let r := skipUnset (M.max + 1) M.max p.flags p.bit
  if r.2 < M.max then
    ({ p with flags := r.1, bit := r.2, ptr := alignBuffer p.ptr (M.align r.2) }, true)
  else ({ p with flags := r.1, bit := r.2 }, false)

/-- `RadioTapParser::skip_current_field` -/
def skipCurrentField (M : Meta) (p : Parser) : Parser × Bool :=
  advanceToNextField M { p with ptr := p.ptr + M.size p.bit, flags := p.flags / 2, bit := p.bit + 1 }

/-- the `while (flags->ext == 1)` walk of `advance_to_next_namespace`: index of the last present word -/
def nsWalk : Nat → Bytes → Nat → Nat
  | 0, _, idx => idx
  | fuel + 1, buf, idx => if extSet (read32 buf (4 * idx)) then nsWalk fuel buf (idx + 1) else idx

/-- `RadioTapParser::advance_to_next_namespace` -/
def advanceToNextNamespace (p : Parser) : Parser × Bool :=
  let idx := nsWalk (p.buf.length / 4 + 1) p.buf p.ns
  ({ p with ns := idx, flags := read32 p.buf (4 * idx) }, idx != p.ns)

/-- `RadioTapParser::advance_field` -/
def advanceField (M : Meta) (p : Parser) : Parser × Bool :=
  if p.null || p.bit == M.max then (p, false) else
  let r1 := skipCurrentField M p
  if r1.2 then (r1.1, true) else
  let r2 := advanceToNextNamespace r1.1
  if !r2.2 then ({ r2.1 with bit := M.max }, false) else
  let r3 := advanceToNextField M { r2.1 with bit := 0 }
  if !r3.2 then ({ r3.1 with bit := M.max }, false) else (r3.1, true)

/-- `RadioTapParser::has_fields` -/
def hasFields (M : Meta) (p : Parser) : Bool := p.bit != M.max && decide (p.ptr < p.buf.length)

/-- `RadioTapParser::find_options_start`: `total` = bytes left, `idx` = present word looked at -/
def findOptionsStart : Nat → Bytes → Nat → Nat → Out Nat
  | 0, _, _, idx => .ok (4 * idx + 4)
  | fuel + 1, buf, total, idx =>
    if extSet (read32 buf (4 * idx)) then
      if total - 4 < 4 then .throw .malformedPacket else findOptionsStart fuel buf (total - 4) (idx + 1)
    else .ok (4 * idx + 4)

/-- `RadioTapParser::RadioTapParser(buffer)` -/
def Parser.mk' (M : Meta) (buf : Bytes) : Out Parser :=
  if buf.isEmpty then .ok { buf := buf, null := true, ptr := 0, bit := M.max, flags := 0, ns := 0 }
  else if buf.length < 4 then .throw .malformedPacket
  else
    match findOptionsStart (buf.length / 4 + 1) buf buf.length 0 with
    | .ok start =>
      .ok (advanceToNextField M { buf := buf, null := false, ptr := start, bit := 0, flags := read32 buf 0, ns := 0 }).1
    | .throw e => .throw e
    | .fault s => .fault s

/-- `RadioTapParser::skip_to_field(1 << bit)`; returns the parser and `has_fields()` -/
def skipToField (M : Meta) : Nat → Parser → Nat → Parser × Bool
  | 0, p, _ => (p, hasFields M p)
  | fuel + 1, p, bit =>
    if hasFields M p && p.bit != bit then skipToField M fuel (advanceField M p).1 bit else (p, hasFields M p)

/-- iterations any parser loop can make: every `advance_field` either moves to a higher bit of the same present
    word or (at most once per present word) to another word -/
def loopFuel (M : Meta) (buf : Bytes) : Nat := (M.max + 1) * (buf.length / 4 + 2)

/-- `RadioTapParser::current_option` (the bytes of the option) -/
def currentOption (M : Meta) (p : Parser) : Out Bytes :=
  if p.ptr + M.size p.bit > p.buf.length then .throw .malformedPacket
  else .ok ((p.buf.drop p.ptr).take (M.size p.bit))

/-! ### RadioTapWriter -/

/-- `calculate_padding(alignment, offset)` -/
def calculatePadding (alignment offset : Nat) : Nat :=
  let extra := offset % alignment
  if extra = 0 then 0 else alignment - extra

/-- outcome of the search loop of `write_option` -/
inductive Search where
  /-- the field is present: parser positioned on it -/
  | found (p : Parser)
  /-- not present: parser positioned on the first higher field (or exhausted), `candidate_ptr` -/
  | insertAt (p : Parser) (candidate : Nat)
  /-- the field is present but does not end inside the buffer: `throw malformed_packet()` -/
  | truncated

/-- the `while (parser.has_fields() && parser.current_namespace_index() == 0)` loop of `write_option`;
    `dataLen` = `option.data_size()` -/
def searchLoop (M : Meta) : Nat → Parser → Nat → Nat → Nat → Search
  | 0, p, _, _, cand => .insertAt p cand
  | fuel + 1, p, bit, dataLen, cand =>
    if hasFields M p && p.ns == 0 then
      if p.bit > bit then .insertAt p cand
      else if p.bit = bit then
        if dataLen > p.buf.length - p.ptr then .truncated else .found p
      else searchLoop M fuel (advanceField M p).1 bit dataLen (p.ptr + M.size p.bit)
    else .insertAt p cand

/-- `RadioTapWriter::build_padding_vector(last_ptr, parser)` -/
def buildPaddingVector (M : Meta) : Nat → Parser → Nat → List Nat
  | 0, _, _ => []
  | fuel + 1, p, last =>
    if hasFields M p then
      List.replicate (p.ptr - last) 0 ++ [M.align p.bit] ++ List.replicate (M.size p.bit - 1) 1 ++
        buildPaddingVector M fuel (advanceField M p).1 (p.ptr + M.size p.bit)
    else []

/-- `while (i != paddings.size() && paddings[i] == v) ++i;` on the not yet visited suffix of `paddings` -/
def skipEq (v : Nat) : List Nat → Nat → List Nat × Nat
  | [], i => ([], i)
  | x :: xs, i => if x = v then skipEq v xs (i + 1) else (x :: xs, i)

/-- `RadioTapWriter::update_paddings`; `rest` = `paddings` from index `i` on, `offset` = buffer index of
    `paddings[0]` shifted by what has been inserted / erased so far -/
def updatePaddings : Nat → List Nat → Nat → Int → Bytes → Out Bytes
  | 0, _, _, _, buf => .ok buf
  | fuel + 1, rest, i, offset, buf =>
    let r1 := skipEq 1 rest i
    let start := r1.2
    let r2 := skipEq 0 r1.1 start
    match r2.1 with
    | [] => .ok buf
    | a :: r3 =>
      let i := r2.2
      let position := (offset + (start : Int)).toNat
      let needed := calculatePadding a (position + 4) % 256
      let existing := i - start
      if existing > needed then
        if offset + (start : Int) < 0 ∨ position + (existing - needed) > buf.length then .fault "update_paddings:erase"
        else updatePaddings fuel r3 (i + 1) (offset - ((existing - needed : Nat) : Int))
               (buf.take position ++ buf.drop (position + (existing - needed)))
      else if existing < needed then
        if offset + (start : Int) < 0 ∨ position > buf.length then .fault "update_paddings:insert"
        else updatePaddings fuel r3 (i + 1) (offset + ((needed - existing : Nat) : Int))
               (buf.take position ++ zeros (needed - existing) ++ buf.drop position)
      else updatePaddings fuel r3 (i + 1) offset buf

/-- `RadioTapWriter::write_option(option(1 << bit, data))` on the buffer `buf` -/
def writeOption (M : Meta) (buf : Bytes) (bit : Nat) (data : Bytes) : Out Bytes :=
  if bit ≥ M.max then .throw .malformedOption else
  match Parser.mk' M buf with
  | .throw e => .throw e
  | .fault s => .fault s
  | .ok parser =>
    match searchLoop M (loopFuel M buf) parser bit data.length parser.ptr with
    | .truncated => .throw .malformedPacket
    | .found p =>
      if p.ptr + data.length > buf.length then .fault "write_option:memcpy"
      else .ok (buf.take p.ptr ++ data ++ buf.drop (p.ptr + data.length))
    | .insertAt p candidate =>
      let offset := if buf.isEmpty then 0 else candidate
      let paddings := buildPaddingVector M (loopFuel M buf) p candidate
      let padding := calculatePadding (M.align bit) (offset + 4)
      if offset > buf.length then .throw .malformedPacket else
      let buf1 := buf.take offset ++ zeros padding ++ data ++ buf.drop offset
      match updatePaddings (paddings.length + 1) paddings 0 ((offset + padding + data.length : Nat) : Int) buf1 with
      | .throw e => .throw e
      | .fault s => .fault s
      | .ok buf2 =>
        let buf3 := if buf.isEmpty then zeros 4 ++ buf2 else buf2
        .ok (le32 (read32 buf3 0 ||| 2 ^ bit) ++ buf3.drop 4)

/-! ### RadioTap -/

/-- `RadioTap::present()` -/
def presentLoop : Nat → Parser → Nat → Nat
  | 0, _, out => out
  | fuel + 1, p, out =>
    let out := out ||| read32 p.buf (4 * p.ns)
    if p.buf.length < 4 then out else
    let r := advanceToNextNamespace p
    if r.2 then presentLoop fuel r.1 out else out

def present (M : Meta) (buf : Bytes) : Out Nat :=
  match Parser.mk' M buf with
  | .ok p => if p.null then .fault "present:null-parser" else .ok (presentLoop (buf.length / 4 + 2) p 0)
  | .throw e => .throw e
  | .fault s => .fault s

/-- `RadioTap::do_find_option(1 << bit)` -/
def doFindOption (M : Meta) (buf : Bytes) (bit : Nat) : Out Bytes :=
  match Parser.mk' M buf with
  | .ok p =>
    let r := skipToField M (loopFuel M buf) p bit
    if !r.2 then .throw .fieldNotPresent else currentOption M r.1
  | .throw e => .throw e
  | .fault s => .fault s

/-- `do_find_option(1 << bit).to<T>()` with `sizeof(T) = width` (`convert_to_integral`: size mismatch throws);
    getters that `memcpy` out of `opt.data_ptr()` read `width` bytes of the option -/
def getField (M : Meta) (buf : Bytes) (bit width : Nat) (integral : Bool) : Out Bytes :=
  match doFindOption M buf bit with
  | .ok d =>
    if integral && d.length != width then .throw .malformedOption
    else if d.length < width then .fault "getter:memcpy" else .ok d
  | .throw e => .throw e
  | .fault s => .fault s

/-- `RadioTap::trailer_size()` -/
def trailerSize (M : Meta) (buf : Bytes) : Out Nat :=
  match Parser.mk' M buf with
  | .ok p =>
    let r := skipToField M (loopFuel M buf) p 1
    if r.2 then
      match currentOption M r.1 with
      | .ok d => if d.length != 1 then .throw .malformedOption else .ok (if byteAt d 0 / 16 % 2 == 1 then 4 else 0)
      | .throw e => .throw e
      | .fault s => .fault s
    else .ok 0
  | .throw e => .throw e
  | .fault s => .fault s

/-- state of a `RadioTap` object: `header_.it_version`, `header_.it_pad`, `options_payload_` -/
structure State where
  version : Nat := 0
  pad : Nat := 0
  payload : Bytes
deriving Repr

/-- `RadioTap::add_option` -/
def addOption (M : Meta) (s : State) (bit : Nat) (data : Bytes) : Out State :=
  match writeOption M s.payload bit data with
  | .ok b => .ok { s with payload := b }
  | .throw e => .throw e
  | .fault f => .fault f

/-- the six setter calls of `RadioTap::RadioTap()` (bit, little-endian value) -/
def defaultWrites : List (Nat × Bytes) :=
  [(3, [0x6c, 0x09, 0xa0, 0x00]), (1, [0x10]), (0, [0, 0, 0, 0, 0, 0, 0, 0]), (5, [0xce]), (14, [0, 0]), (11, [0])]

def applyWrites (M : Meta) : List (Nat × Bytes) → State → Out State
  | [], s => .ok s
  | (b, d) :: r, s =>
    match addOption M s b d with
    | .ok s' => applyWrites M r s'
    | .throw e => .throw e
    | .fault f => .fault f

/-- `RadioTap::RadioTap()` -/
def defaultCtor (M : Meta) : Out State := applyWrites M defaultWrites { payload := zeros 4 }

/-- `RadioTap::RadioTap(buffer, total_sz)` up to (not including) `Dot11::from_bytes`: `hdr` = the first
    `min(total_sz, it_len)` bytes, `total` = `total_sz`.  Returns the state and the number of bytes handed to
    `Dot11::from_bytes` (0 = no inner PDU). -/
def parseCtor (M : Meta) (hdr : Bytes) (total : Nat) : Out (State × Nat) :=
  if total < 4 then .throw .malformedPacket else
  let len := byteAt hdr 2 + 256 * byteAt hdr 3
  if len < 8 then .throw .malformedPacket else
  let rs := len - 4
  if rs + 4 > total - 4 then .throw .malformedPacket else
  let payload := (hdr.drop 4).take rs
  let rest := total - 4 - rs
  match Parser.mk' M payload with
  | .throw e => .throw e
  | .fault s => .fault s
  | .ok p =>
    let st : State := { version := byteAt hdr 0, pad := byteAt hdr 1, payload := payload }
    let r := skipToField M (loopFuel M payload) p 1
    if r.2 then
      let fl := byteAt payload r.1.ptr
      if fl / 16 % 2 == 1 then
        if rest < 4 then .throw .malformedPacket
        else if fl / 64 % 2 == 1 then .throw .malformedPacket
        else .ok (st, rest - 4)
      else .ok (st, rest)
    else .ok (st, rest)

/-- what `serialize()` of `RadioTap / inner` produces, as far as this layer decides it:
    total size, the RadioTap header bytes, size of the trailer -/
def serializeHdr (M : Meta) (s : State) (innerLen : Nat) : Out (Nat × Bytes × Nat) :=
  match trailerSize M s.payload with
  | .ok tr =>
    let hs := 4 + s.payload.length
    .ok (hs + tr + innerLen,
         [UInt8.ofNat s.version, UInt8.ofNat s.pad, UInt8.ofNat (hs % 256), UInt8.ofNat (hs / 256 % 256)] ++ s.payload, tr)
  | .throw e => .throw e
  | .fault f => .fault f

end Tins.RT
