import TinsModel.Reassembly.Model
/-
  Specification of IPv4 reassembly (property C08), written from the property text and RFC 791, not from libtins:
  a *reference reassembler that knows which datagram every fragment belongs to*.

  * A datagram `DG` is its unfragmented header, its payload, and the partition of the payload that the
    fragmenting router chose (`lens`, the piece lengths in order).
  * The reference state maps a datagram to the **set of distinct pieces received** since that datagram was last
    completed (plus the header of the first copy of piece 0, which is the header the result must carry).
  * A fragment completes its datagram exactly when, with it, every piece of the partition is in the set; the result is
    then the first fragment's header with offset and more-fragments cleared over the *original* payload, parsed as
    the upper-layer protocol.  Every other fragment is `fragmented` and is left untouched; everything that is not a
    fragment is `notFragmented` and is left untouched.
-/
namespace Tins.Reasm

structure DG where
  hdr : Hdr
  payload : Bytes
  lens : List Nat
deriving DecidableEq, Repr

/-- the pieces `(offset, length)` of a partition that starts at offset `o` -/
def piecesFrom (o : Nat) : List Nat → List (Nat × Nat)
  | [] => []
  | l :: ls => (o, l) :: piecesFrom (o + l) ls

def DG.pieces (d : DG) : List (Nat × Nat) := piecesFrom 0 d.lens

def slice (b : Bytes) (o l : Nat) : Bytes := (b.drop o).take l

/-- what the IP parser makes of the payload of a fragment (`if (stream) inner_pdu(new RawPDU(…))`) -/
def mkInner (b : Bytes) : Inner := if b.isEmpty then .none else .raw b

/-- the IP packet that carries bytes `[o, o+l)` of `d` with the given more-fragments bit, as parsed from the wire.
    Options travel in the first fragment only. -/
def mkFragPkt (d : DG) (o l : Nat) (mf : Bool) (ttl : Nat) : Pkt :=
  { hasIP := true,
    hdr := { d.hdr with off := o / 8, flags := d.hdr.flags + (if mf then 1 else 0), ttl := ttl,
                        nopt := if o = 0 then d.hdr.nopt else 0 },
    inner := mkInner (slice d.payload o l) }

/-- the fragment carrying piece `p` of the partition of `d` -/
def fragPkt (d : DG) (p : Nat × Nat) (ttl : Nat) : Pkt :=
  mkFragPkt d p.1 p.2 (decide (p.1 + p.2 < d.payload.length)) ttl

/-- what the property's quantifier ranges over: payload 1..65515 bytes (header + payload ≤ 65535, RFC 791) cut at
    multiples of 8 into at least two non-empty pieces; the header is the one of an unfragmented datagram -/
structure DG.wf (d : DG) : Prop where
  pos : ∀ l ∈ d.lens, 0 < l
  sum : d.lens.sum = d.payload.length
  two : 2 ≤ d.lens.length
  size : hdrSize d.hdr + d.payload.length ≤ 65535
  aligned : ∀ p ∈ d.pieces, p.1 % 8 = 0
  off0 : d.hdr.off = 0
  mf0 : d.hdr.flags % 2 = 0

instance (d : DG) : Decidable d.wf :=
  if h : (∀ l ∈ d.lens, 0 < l) ∧ d.lens.sum = d.payload.length ∧ 2 ≤ d.lens.length ∧
         hdrSize d.hdr + d.payload.length ≤ 65535 ∧
         (∀ p ∈ d.pieces, p.1 % 8 = 0) ∧ d.hdr.off = 0 ∧ d.hdr.flags % 2 = 0
  then isTrue ⟨h.1, h.2.1, h.2.2.1, h.2.2.2.1, h.2.2.2.2.1, h.2.2.2.2.2.1, h.2.2.2.2.2.2⟩
  else isFalse (fun w => h ⟨w.pos, w.sum, w.two, w.size, w.aligned, w.off0, w.mf0⟩)

/-- one reassembly episode of one datagram: the set of distinct pieces received, and the header of the first copy
    of piece 0 -/
structure Ep where
  got : List (Nat × Nat) := []
  first : Option Hdr := none
deriving DecidableEq, Repr

def Ep.add (e : Ep) (p : Nat × Nat) (h : Hdr) : Ep :=
  if p ∈ e.got then e else { got := p :: e.got, first := if p.1 = 0 then some h else e.first }

abbrev RefState := List (DG × Ep)

def DG.complete (d : DG) (e : Ep) : Bool := d.pieces.all (fun q => decide (q ∈ e.got))

/-- the header of the reassembled datagram: the first fragment's with offset and more-fragments cleared -/
def resultHdr (first : Hdr) : Hdr := { first with off := 0, flags := first.flags - first.flags % 2 }

/-- the reference reassembler on the arrival of a copy of piece `p` of datagram `d` (packet `pkt`) -/
def refFrag (parse : UpperParse) (σ : RefState) (d : DG) (p : Nat × Nat) (pkt : Pkt) : RefState × Pkt × Out :=
  let e := ((alLookup σ d).getD {}).add p pkt.hdr
  if d.complete e then
    match parse d.hdr.proto d.payload with
    | some inner => (alErase σ d, { pkt with hdr := resultHdr (e.first.getD {}), inner := inner }, .reassembled)
    | none => (alErase σ d, pkt, .throwMalformed)
  else (alPut σ d e, pkt, .fragmented)

/-- events of a capture -/
inductive Ev
  /-- a copy of piece `p` of datagram `d` (time-to-live `ttl`) -/
  | frag (d : DG) (p : Nat × Nat) (ttl : Nat)
  /-- anything that is not a fragment: no IP layer, no payload, or an unfragmented IP packet -/
  | other (pkt : Pkt)
  | clear
  | remove (id src dst : Nat)
deriving Repr

/-- what can be observed after each event: status and the packet as left behind (for packets), number of open
    reassemblies -/
structure Obs where
  res : Option (Out × Pkt)
  streams : Nat
deriving DecidableEq, Repr

def refStep (parse : UpperParse) (σ : RefState) : Ev → RefState × Obs
  | .frag d p ttl =>
    let (σ', pkt', out) := refFrag parse σ d p (fragPkt d p ttl)
    (σ', ⟨some (out, pkt'), σ'.length⟩)
  | .other pkt => (σ, ⟨some (.notFragmented, pkt), σ.length⟩)
  | .clear => ([], ⟨none, 0⟩)
  | .remove id src dst =>
    let σ' := σ.filter (fun e => !(e.1.hdr.id == id && e.1.hdr.src == src && e.1.hdr.dst == dst))
    (σ', ⟨none, σ'.length⟩)

def modelStep (parse : UpperParse) (r : Streams) : Ev → Streams × Obs
  | .frag d p ttl =>
    let (r', pkt', out) := process parse r (fragPkt d p ttl)
    (r', ⟨some (out, pkt'), r'.length⟩)
  | .other pkt =>
    let (r', pkt', out) := process parse r pkt
    (r', ⟨some (out, pkt'), r'.length⟩)
  | .clear => (clearStreams r, ⟨none, 0⟩)
  | .remove id src dst =>
    let r' := removeStream r id src dst
    (r', ⟨none, r'.length⟩)

def runWith {σ : Type} (step : σ → Ev → σ × Obs) : σ → List Ev → List Obs
  | _, [] => []
  | s, e :: es => let (s', o) := step s e; o :: runWith step s' es

def runRef (parse : UpperParse) (evs : List Ev) : List Obs := runWith (refStep parse) [] evs
def runModel (parse : UpperParse) (evs : List Ev) : List Obs := runWith (modelStep parse) [] evs

/-- a packet that is not a fragment -/
def notFrag (p : Pkt) : Bool := !(p.hasIP && !p.inner.isNone && isFragmented p.hdr)

/-- the hypothesis of the property on a capture: a family `F` of well-formed datagrams with pairwise different
    (identification, source, destination, protocol); every fragment is a piece of the partition of its datagram -/
def Ev.ok (F : List DG) : Ev → Prop
  | .frag d p _ => d ∈ F ∧ p ∈ d.pieces
  | .other pkt => notFrag pkt = true
  | .clear => True
  | .remove _ _ _ => True

instance (F : List DG) (e : Ev) : Decidable (e.ok F) := by
  cases e <;> simp only [Ev.ok] <;> infer_instance

/-! ### extension: a key that is re-used by a later datagram (known finding KF-C08-1)

  The property only speaks about datagrams with different keys.  Real traffic re-uses a 16-bit identification; the
  natural extension is: two datagrams may share a key if they do not overlap in time — the later one starts after the
  earlier one was completed, and the earlier one is not heard of again once the later one has started (late
  duplicates of the earlier one *before* that point are allowed).  `seqOK` checks this along the reference run. -/

structure SeqSt where
  σ : RefState := []
  /-- datagrams seen so far -/
  seen : List DG := []
  /-- datagrams completed at least once -/
  done : List DG := []
  /-- datagrams whose key has been taken over by a later datagram -/
  retired : List DG := []

def seqStep (parse : UpperParse) (s : SeqSt) : Ev → Option SeqSt
  | .frag d p ttl =>
    if d ∈ s.retired then none else
    let rivals := s.seen.filter (fun d' => d' != d && makeKey d'.hdr == makeKey d.hdr)
    if rivals.all (fun d' => s.done.contains d') then
      let (σ', o) := refStep parse s.σ (.frag d p ttl)
      let completed := match o.res with
        | some (.reassembled, _) => true
        | some (.throwMalformed, _) => true
        | _ => false
      some { σ := σ', seen := d :: s.seen, done := if completed then d :: s.done else s.done,
             retired := rivals ++ s.retired }
    else none
  | ev => some { s with σ := (refStep parse s.σ ev).1 }

def seqOK (parse : UpperParse) : SeqSt → List Ev → Bool
  | _, [] => true
  | s, e :: es => match seqStep parse s e with
    | some s' => seqOK parse s' es
    | none => false

/-- well-formedness of the events without any condition on keys -/
def Ev.wfOnly : Ev → Prop
  | .frag d p _ => d.wf ∧ p ∈ d.pieces
  | .other pkt => notFrag pkt = true
  | .clear => True
  | .remove _ _ _ => True

instance (e : Ev) : Decidable e.wfOnly := by
  cases e <;> simp only [Ev.wfOnly] <;> infer_instance

/-- the datagrams a history speaks about -/
def dgramsOf : List Ev → List DG
  | [] => []
  | .frag d _ _ :: es => d :: dgramsOf es
  | _ :: es => dgramsOf es

/-- the excluded region of the extension: two different datagrams of the history share a key -/
def keyReused (evs : List Ev) : Bool :=
  (dgramsOf evs).any (fun d => (dgramsOf evs).any (fun d' => d != d' && makeKey d.hdr == makeKey d'.hdr))

structure Family (F : List DG) : Prop where
  wf : ∀ d ∈ F, d.wf
  keys : ∀ d ∈ F, ∀ d' ∈ F, makeKey d.hdr = makeKey d'.hdr → d = d'

/-- stored fragments that tile `[e, …)` without hole or overlap -/
def contiguous : Nat → List Frag → Prop
  | _, [] => True
  | e, f :: r => f.off = e ∧ contiguous (f.off + f.payload.length) r

/-- the upper-layer parsers the run-time correspondence uses (the ones the harness generates payloads for):
    UDP (8-byte header), TCP without options, and protocols libtins has no class for (`RawPDU`).
    `none` = `malformed_packet`.  Protocols 1, 4, 41, 50, 51, 58 are not generated. -/
def upperParseConcrete (proto : Nat) (b : Bytes) : Option Inner :=
  if proto = 17 then (if b.length < 8 then none else some (.upper 17 b))
  else if proto = 6 then
    (if b.length < 20 then none
     else if (b.getD 12 0).toNat / 16 * 4 > b.length || (b.getD 12 0).toNat / 16 < 5 then none
     else some (.upper 6 b))
  else some (.raw b)

end Tins.Reasm
