import TinsModel.Basic.Seq32
/-
  Code-shaped model of `src/ip_reassembler.cpp` (IPv4Stream, IPv4Reassembler) and of the two `IP` helpers it
  depends on (`IP::is_fragmented`, the flag/offset accessors), statement for statement.

  * An `IP` object is its header record `Hdr` (the fields the reassembler reads or that can be observed afterwards;
    `nopt` stands for the option list, which is only ever copied as a whole) plus its inner PDU `Inner`.
  * `Internals::pdu_from_flag(protocol, buffer, size)` — the upper-layer parser that `allocate_pdu` calls on the
    concatenated payload — is a *parameter* (`UpperParse`): `none` means it throws `malformed_packet`.
    Every theorem holds for every such function.
  * `streams_` (`std::map<key_type, IPv4Stream>`) is an association list with unique keys; the class only uses
    `operator[]`, `erase(key)`, `erase(range of one (id, src, dst))`, `clear()`, so the order is not observable.
  * `PDU::operator=` makes the target's inner PDU a clone of the source's, or none when the source has none
    (src/pdu.cpp after the fix of KF-C12-1); this is why the "corrupt" path of `process` leaves the first
    fragment's header with no payload.
-/
namespace Tins.Reasm

/-- the part of `ip_header` + options the reassembler reads or that is observable after `process()` -/
structure Hdr where
  tos : Nat := 0
  id : Nat := 1
  /-- 3 bits: `IP::Flags` (`MORE_FRAGMENTS = 1`, `DONT_FRAGMENT = 2`, `FLAG_RESERVED = 4`) -/
  flags : Nat := 0
  /-- 13-bit fragment offset, in units of 8 bytes -/
  off : Nat := 0
  ttl : Nat := 128
  proto : Nat := 0
  src : Nat := 0
  dst : Nat := 0
  nopt : Nat := 0
deriving DecidableEq, Repr, Inhabited

/-- inner PDU of the IP layer: nothing, a `RawPDU`, or an upper-layer PDU of class `kind`; `b` = its serialisation -/
inductive Inner
  | none
  | raw (b : Bytes)
  | upper (kind : Nat) (b : Bytes)
deriving DecidableEq, Repr, Inhabited

/-- `inner_pdu()->serialize()` -/
def Inner.bytes : Inner → Bytes
  | .none => []
  | .raw b => b
  | .upper _ b => b

def Inner.isNone : Inner → Bool
  | .none => true
  | _ => false

/-- the PDU handed to `process()`: `hasIP` = `find_pdu<IP>()` finds an IP layer -/
structure Pkt where
  hasIP : Bool
  hdr : Hdr
  inner : Inner
deriving DecidableEq, Repr, Inhabited

/-- `Internals::pdu_from_flag(Constants::IP::e, buffer, size)`; `none` = throws `malformed_packet` -/
abbrev UpperParse := Nat → Bytes → Option Inner

inductive Out
  | notFragmented
  | fragmented
  | reassembled
  | throwMalformed
deriving DecidableEq, Repr, Inhabited

/-- `IP::is_fragmented`: `(flags() & IP::MORE_FRAGMENTS) != 0 || fragment_offset() != 0` -/
def isFragmented (h : Hdr) : Bool := h.flags % 2 != 0 || h.off != 0

/-- `IPv4Fragment` -/
structure Frag where
  off : Nat
  payload : Bytes
deriving DecidableEq, Repr

/-- `IPv4Stream` -/
structure Stream where
  frags : List Frag := []
  received : Nat := 0
  total : Nat := 0
  first : Hdr := {}
  receivedEnd : Bool := false
deriving DecidableEq, Repr

/-- `IPv4Stream::extract_offset`: `uint16_t(ip->fragment_offset() * 8)` -/
def extractOffset (h : Hdr) : Nat := (h.off * 8) % 65536

/-- the insertion loop of `add_fragment`:
    `while (it != end && offset > it->offset()) ++it; if (it != end && it->offset() == offset) return; insert(it, …)`.
    `none` = duplicate offset, nothing inserted. -/
def insFrag (f : Frag) : List Frag → Option (List Frag)
  | [] => some [f]
  | g :: rest =>
    if f.off > g.off then (insFrag f rest).map (g :: ·)
    else if g.off = f.off then none
    else some (f :: g :: rest)

/-- `IPv4Stream::add_fragment(ip)`; `payload` = `ip->inner_pdu()->serialize()` -/
def addFragment (s : Stream) (h : Hdr) (payload : Bytes) : Stream :=
  let offset := extractOffset h
  match insFrag ⟨offset, payload⟩ s.frags with
  | none => s
  | some frags =>
    let s1 := { s with frags := frags, received := s.received + payload.length }
    let s2 := if h.flags % 2 = 0 then { s1 with total := offset + payload.length, receivedEnd := true } else s1
    if offset = 0 then { s2 with first := h } else s2

/-- `IPv4Stream::is_complete` (`fragments_.begin()` of an empty vector is never reached: see `addFragment_frags_ne`) -/
def isComplete (s : Stream) : Bool :=
  if !s.receivedEnd || s.received != s.total then false
  else match s.frags with
    | [] => false
    | f :: _ => f.off == 0

/-- the loop of `IPv4Stream::allocate_pdu`: `none` = `return 0` (a hole or an overlap) -/
def allocLoop (expected : Nat) (buffer : Bytes) : List Frag → Option Bytes
  | [] => some buffer
  | f :: rest =>
    if expected != f.off then none
    else allocLoop (f.off + f.payload.length) (buffer ++ f.payload) rest

/-- `IP::header_size()` of a header with `nopt` words of (padded) options -/
def hdrSize (h : Hdr) : Nat := 20 + 4 * h.nopt

/-- `IPv4Stream::allocate_pdu` up to the call of `pdu_from_flag`: `none` = `return 0`.
    `if (first_fragment_.header_size() + total_size_ > 65535) return 0;` (RFC 791: a datagram holds at most 65535
    bytes, header included — fix KF-C08-6), then the concatenation loop -/
def allocBuf (s : Stream) : Option Bytes :=
  if hdrSize s.first + s.total > 65535 then none else allocLoop 0 [] s.frags

/-- `key_type`: identification, source, destination, protocol (RFC 791 buffer identifier) -/
structure Key where
  id : Nat
  src : Nat
  dst : Nat
  proto : Nat
deriving DecidableEq, Repr

/-- `IPv4Reassembler::make_key` -/
def makeKey (h : Hdr) : Key := ⟨h.id, h.src, h.dst, h.proto⟩

/-! association lists with unique keys (`std::map` used through `operator[]`, `erase`, `clear`) -/
section AL
variable {κ σ : Type} [DecidableEq κ]

def alLookup (m : List (κ × σ)) (k : κ) : Option σ :=
  match m with
  | [] => none
  | (k', v) :: r => if k' = k then some v else alLookup r k

def alErase (m : List (κ × σ)) (k : κ) : List (κ × σ) := m.filter (fun p => !decide (p.1 = k))

/-- replace-or-insert -/
def alPut (m : List (κ × σ)) (k : κ) (v : σ) : List (κ × σ) := (k, v) :: alErase m k

end AL

abbrev Streams := List (Key × Stream)

/-- the flag update of the reassembled packet: `ip->flags(ip->flags() & ~IP::MORE_FRAGMENTS)` -/
def clearMF (flags : Nat) : Nat := flags / 2 * 2

/-- `IPv4Reassembler::process(pdu)`: new stream table, the PDU as it is left, the status (or the exception) -/
def process (parse : UpperParse) (r : Streams) (p : Pkt) : Streams × Pkt × Out :=
  if p.hasIP && !p.inner.isNone then
    if isFragmented p.hdr then
      let key := makeKey p.hdr
      -- `streams_[key]`: create it or look it up
      let s := (alLookup r key).getD {}
      let s' := addFragment s p.hdr p.inner.bytes
      let r1 := alPut r key s'
      if isComplete s' then
        match allocBuf s' with
        | none =>
          -- "The packet is corrupt": `*ip = first_fragment()` — the stored first fragment has no inner PDU
          -- (it was released before the copy), and `PDU::operator=` now drops the target's inner PDU in that
          -- case (fix of KF-C12-1) — stream erased
          (alErase r1 key, { p with hdr := s'.first, inner := .none }, .fragmented)
        | some buf =>
          match parse s'.first.proto buf with
          | none => (alErase r1 key, p, .throwMalformed)
          | some inner =>
            (alErase r1 key,
             { p with hdr := { s'.first with off := 0, flags := clearMF s'.first.flags }, inner := inner },
             .reassembled)
      else (r1, p, .fragmented)
    else (r, p, .notFragmented)
  else (r, p, .notFragmented)

/-- `IPv4Reassembler::clear_streams` -/
def clearStreams (_ : Streams) : Streams := []

/-- `IPv4Reassembler::remove_stream(id, src, dst)`: every stream of that identification and address pair -/
def removeStream (r : Streams) (id src dst : Nat) : Streams :=
  r.filter (fun p => !(p.1.id == id && p.1.src == src && p.1.dst == dst))

end Tins.Reasm
