import TinsModel.Reassembly.Refine
/-
  Helper lemmas for C08, part 3: the stream table.  The model's table is the image of the reference state under
  `absState`; `process`, `remove_stream`, `clear_streams` commute with it as long as the datagrams in flight have
  pairwise different reassembly keys.
-/
namespace Tins.Reasm

def absState (σ : RefState) : Streams := σ.map (fun x => (makeKey x.1.hdr, absStream x.1 x.2))

@[simp] theorem absState_length (σ : RefState) : (absState σ).length = σ.length := by simp [absState]

/-- the header remembered for piece 0 belongs to the datagram (same protocol) -/
def EpInv (d : DG) (e : Ep) : Prop :=
  (∃ p ∈ e.got, p.1 = 0) → ∃ h, e.first = some h ∧ h.proto = d.hdr.proto ∧ h.nopt = d.hdr.nopt

/-- invariant of reference states reachable under the hypothesis of the property -/
def SInv (F : List DG) (σ : RefState) : Prop := ∀ x ∈ σ, x.1 ∈ F ∧ EpInv x.1 x.2

theorem SInv_nil (F : List DG) : SInv F [] := by intro x hx; simp at hx

theorem alLookup_mem {κ σ} [DecidableEq κ] {m : List (κ × σ)} {k : κ} {v : σ} (h : alLookup m k = some v) :
    (k, v) ∈ m := by
  induction m with
  | nil => simp [alLookup] at h
  | cons a m ih =>
    obtain ⟨k', v'⟩ := a
    simp only [alLookup] at h
    split at h
    · rename_i hk; subst hk; simp at h; subst h; simp
    · exact List.mem_cons_of_mem _ (ih h)

theorem alErase_subset {κ σ} [DecidableEq κ] (m : List (κ × σ)) (k : κ) : ∀ x ∈ alErase m k, x ∈ m := by
  intro x hx; exact (List.mem_filter.mp hx).1

theorem alLookup_abs (σ : RefState) (d : DG) (inj : ∀ x ∈ σ, makeKey x.1.hdr = makeKey d.hdr → x.1 = d) :
    alLookup (absState σ) (makeKey d.hdr) = (alLookup σ d).map (absStream d) := by
  induction σ with
  | nil => rfl
  | cons a σ ih =>
    obtain ⟨d', e'⟩ := a
    have ih' := ih (fun x hx => inj x (List.mem_cons_of_mem _ hx))
    simp only [absState, List.map_cons, alLookup] at ih' ⊢
    by_cases hd : d' = d
    · subst hd; simp
    · have hk : ¬ makeKey d'.hdr = makeKey d.hdr := fun h => hd (inj (d', e') (by simp) h)
      simp only [hk, hd, if_false]
      exact ih'

theorem alErase_abs (σ : RefState) (d : DG) (inj : ∀ x ∈ σ, makeKey x.1.hdr = makeKey d.hdr → x.1 = d) :
    alErase (absState σ) (makeKey d.hdr) = absState (alErase σ d) := by
  induction σ with
  | nil => rfl
  | cons a σ ih =>
    obtain ⟨d', e'⟩ := a
    have ih' := ih (fun x hx => inj x (List.mem_cons_of_mem _ hx))
    simp only [absState, alErase, List.map_cons, List.filter_cons] at ih' ⊢
    by_cases hd : d' = d
    · subst hd; simpa using ih'
    · have hk : ¬ makeKey d'.hdr = makeKey d.hdr := fun h => hd (inj (d', e') (by simp) h)
      simp only [hk, hd, decide_false, Bool.not_false, if_true, List.map_cons]
      rw [ih']

theorem alPut_abs (σ : RefState) (d : DG) (e : Ep) (inj : ∀ x ∈ σ, makeKey x.1.hdr = makeKey d.hdr → x.1 = d) :
    alPut (absState σ) (makeKey d.hdr) (absStream d e) = absState (alPut σ d e) := by
  simp only [alPut, alErase_abs σ d inj]
  simp [absState]

theorem getD_abs (d : DG) (o : Option Ep) : (o.map (absStream d)).getD {} = absStream d (o.getD {}) := by
  cases o with
  | none => simp [absStream_empty]
  | some e => rfl

theorem EpInv_empty (d : DG) : EpInv d {} := by
  intro h; obtain ⟨p, hp, _⟩ := h; simp at hp

theorem EpInv_add {d : DG} {e : Ep} (h : EpInv d e) (p : Nat × Nat) (hd : Hdr) (hproto : hd.proto = d.hdr.proto)
    (hnopt : p.1 = 0 → hd.nopt = d.hdr.nopt) : EpInv d (e.add p hd) := by
  unfold Ep.add
  split
  · exact h
  · intro hex
    obtain ⟨q, hq, hq0⟩ := hex
    simp only [List.mem_cons] at hq
    by_cases hp0 : p.1 = 0
    · exact ⟨hd, by simp [hp0], hproto, hnopt hp0⟩
    · simp only [hp0, if_false]
      rcases hq with rfl | hq
      · exact absurd hq0 hp0
      · exact h ⟨q, hq, hq0⟩

theorem complete_has_zero {d : DG} (w : d.wf) {e : Ep} (hc : d.complete e = true) : ∃ p ∈ e.got, p.1 = 0 := by
  have hne := w.lens_ne
  have hmem : ∀ x ∈ d.pieces, decide (x ∈ e.got) = true := by
    simpa [DG.complete, List.all_eq_true] using hc
  unfold DG.pieces at hmem
  match hl : d.lens with
  | [] => exact absurd hl hne
  | l :: ls =>
    rw [hl] at hmem
    have := hmem (0, l) (by simp [piecesFrom])
    exact ⟨(0, l), by simpa using this, rfl⟩

theorem clearMF_eq (f : Nat) : clearMF f = f - f % 2 := by unfold clearMF; omega

theorem frag_proto (d : DG) (p : Nat × Nat) (ttl : Nat) : (fragPkt d p ttl).hdr.proto = d.hdr.proto := by
  simp [fragPkt, mkFragPkt]

theorem frag_nopt (d : DG) (p : Nat × Nat) (ttl : Nat) (h : p.1 = 0) : (fragPkt d p ttl).hdr.nopt = d.hdr.nopt := by
  simp [fragPkt, mkFragPkt, h]

/-- **process refines the reference** on a fragment of a datagram of the family -/
theorem process_frag {F : List DG} (hF : Family F) (parse : UpperParse) (σ : RefState) (hσ : SInv F σ)
    {d : DG} (hd : d ∈ F) {p : Nat × Nat} (hp : p ∈ d.pieces) (ttl : Nat) :
    process parse (absState σ) (fragPkt d p ttl) =
      (absState (refFrag parse σ d p (fragPkt d p ttl)).1, (refFrag parse σ d p (fragPkt d p ttl)).2) ∧
    SInv F (refFrag parse σ d p (fragPkt d p ttl)).1 := by
  have w := hF.wf d hd
  have inj : ∀ x ∈ σ, makeKey x.1.hdr = makeKey d.hdr → x.1 = d :=
    fun x hx hk => hF.keys _ (hσ x hx).1 _ hd hk
  have hinner := w.frag_inner hp ttl
  have hfragd := w.frag_isFragmented hp ttl
  have hkey : makeKey (fragPkt d p ttl).hdr = makeKey d.hdr := frag_key d _ _ _ ttl
  have hip : (fragPkt d p ttl).hasIP = true := rfl
  -- the episode before and after
  have he0 : EpInv d ((alLookup σ d).getD {}) := by
    cases hl : alLookup σ d with
    | none => exact EpInv_empty d
    | some e1 => exact (hσ _ (alLookup_mem hl)).2
  have he : EpInv d (((alLookup σ d).getD {}).add p (fragPkt d p ttl).hdr) :=
    EpInv_add he0 p _ (frag_proto d p ttl) (frag_nopt d p ttl)
  have hs : addFragment ((alLookup (absState σ) (makeKey d.hdr)).getD {}) (fragPkt d p ttl).hdr
      (slice d.payload p.1 p.2) = absStream d (((alLookup σ d).getD {}).add p (fragPkt d p ttl).hdr) := by
    rw [alLookup_abs σ d inj, getD_abs]
    exact addFragment_abs w _ hp ttl
  unfold process refFrag
  simp only [hip, hinner, Inner.isNone, Bool.not_false, Bool.and_self, if_true, hfragd, hkey, Inner.bytes, hs,
    isComplete_abs w]
  generalize ((alLookup σ d).getD {}).add p (fragPkt d p ttl).hdr = e at he
  have hput := alPut_abs σ d e inj
  have herase : alErase (alPut (absState σ) (makeKey d.hdr) (absStream d e)) (makeKey d.hdr) =
      absState (alErase σ d) := by
    rw [hput, alErase_abs _ d]
    · congr 1
      simp only [alPut, alErase, List.filter_cons]
      simp only [decide_true, Bool.not_true, Bool.false_eq_true, if_false]
      simp [List.filter_filter]
    · intro x hx hk
      simp only [alPut, List.mem_cons] at hx
      rcases hx with rfl | hx
      · rfl
      · exact inj x (alErase_subset _ _ x hx) hk
  have hsinvErase : SInv F (alErase σ d) := fun x hx => hσ x (alErase_subset _ _ x hx)
  have hsinvPut : SInv F (alPut σ d e) := by
    intro x hx
    simp only [alPut, List.mem_cons] at hx
    rcases hx with rfl | hx
    · exact ⟨hd, he⟩
    · exact hσ x (alErase_subset _ _ x hx)
  by_cases hc : d.complete e = true
  · obtain ⟨h, hfirst, hproto, hnopt⟩ := he (complete_has_zero w hc)
    simp only [hc, if_true, allocBuf_abs w e hc (by simp [hfirst, hdrSize, hnopt])]
    have hfp : (absStream d e).first = h := by simp [absStream, hfirst]
    simp only [hfp, hproto, herase]
    cases parse d.hdr.proto d.payload with
    | none => exact ⟨rfl, hsinvErase⟩
    | some inner =>
      refine ⟨?_, hsinvErase⟩
      simp [hfirst, resultHdr, clearMF_eq, hproto]
  · simp only [hc, if_false, Bool.false_eq_true]
    exact ⟨by rw [hput], hsinvPut⟩

/-- a packet that is not a fragment leaves the table alone and is reported `NOT_FRAGMENTED`, untouched -/
theorem process_other (parse : UpperParse) (r : Streams) (pkt : Pkt) (h : notFrag pkt = true) :
    process parse r pkt = (r, pkt, .notFragmented) := by
  unfold process
  unfold notFrag at h
  by_cases h1 : (pkt.hasIP && !pkt.inner.isNone) = true
  · simp only [h1, if_true]
    have : isFragmented pkt.hdr = false := by
      cases hf : isFragmented pkt.hdr with
      | false => rfl
      | true => rw [hf] at h; simp only [Bool.and_true] at h; rw [h1] at h; simp at h
    simp [this]
  · simp [h1]

theorem removeStream_abs (σ : RefState) (id src dst : Nat) :
    removeStream (absState σ) id src dst =
      absState (σ.filter (fun e => !(e.1.hdr.id == id && e.1.hdr.src == src && e.1.hdr.dst == dst))) := by
  simp only [removeStream, absState, List.filter_map]
  congr 1

end Tins.Reasm
