import TinsModel.Wire.RegistryFacts
import TinsModel.Reassembly.Lifetime
import TinsModel.Reassembly.WireUpper
/-
  C08 composed with the wire families (C01/C03's proved model of the parsing constructors): the parser parameter of
  the reassembly theorems instantiated with what `Internals::pdu_from_flag(Constants::IP::e, buffer, size)` builds.

  * `pduFromFlag proto b` — the chain of layers `pdu_from_flag` constructs on the concatenated payload: the class of
    the generated table `Gen.Tags.ipProtoToClass` (regenerated from src/detail/pdu_helpers.cpp on every run) parsed by
    `Wire.parseChain`, or a `RawPDU` when the protocol has no class (`rawpdu_on_no_match = true`).
  * `wireUpper` — that, as the `UpperParse` of the reassembly model: `none` exactly when a constructor throws.  The
    reassembly model's `Inner.upper proto b` *denotes* the object `pdu_from_flag(proto, b)` (`layersOf`).
  * `unfragmented_chain` — the `IP` constructor of an unfragmented datagram dispatches on its payload with the very same
    function: the layers above IP of the original datagram ARE `pduFromFlag protocol payload`.
-/
namespace Tins.Reasm.E2E
open Tins Tins.Wire Tins.Reasm

/-! ### `parseChain` does not depend on the fuel once it exceeds the length -/

theorem parseChain_fuel (h : ClassesSafe) :
    ∀ (f₁ f₂ : Nat) (cls : String) (b : Bytes), b.length < f₁ → b.length < f₂ →
      parseChain f₁ cls b = parseChain f₂ cls b := by
  intro f₁
  induction f₁ with
  | zero => intro f₂ cls b h1; omega
  | succ n ih =>
    intro f₂ cls b h1 h2
    cases f₂ with
    | zero => omega
    | succ m =>
      unfold parseChain
      by_cases hm : modelled cls = true
      · simp only [hm, Bool.not_true, Bool.false_eq_true, if_false]
        cases hp : parseOne cls b with
        | throw e => rfl
        | fault s => rfl
        | ok x =>
          obtain ⟨o, inner⟩ := x
          cases inner with
          | none => rfl
          | raw pb => rfl
          | cls name pb fb =>
            have hlt := h.consumes cls b o name pb fb hp
            simp only
            rw [ih m name pb (by omega) (by omega)]
      · have hm' : modelled cls = false := by simpa using hm
        simp [hm']

/-! ### `pdu_from_flag` -/

/-- **the exception of `allocate_pdu` is `malformed_packet` and nothing else; it never faults** (C01's
    `parse_any_safe` at the call site of the reassembler) -/
theorem pduFromFlag_safe (proto : Nat) (b : Bytes) : (pduFromFlag proto b).Safe := by
  unfold pduFromFlag
  split
  · exact parse_any_safe _ b
  · trivial

theorem wireUpper_none_iff (proto : Nat) (b : Bytes) :
    wireUpper proto b = none ↔ pduFromFlag proto b = .throw .malformedPacket := by
  have hs := pduFromFlag_safe proto b
  unfold wireUpper
  cases h : pduFromFlag proto b with
  | ok ls => simp
  | unmodelled c => simp
  | fault s => rw [h] at hs; exact absurd hs (by simp [ChainResult.Safe])
  | throw e =>
    rw [h] at hs
    simp only [ChainResult.Safe] at hs
    simp [hs]

/-- when `pdu_from_flag` succeeds, the model's result denotes exactly the layers it built -/
theorem wireUpper_ok {proto : Nat} {b : Bytes} {ls : List AnyObj} (h : pduFromFlag proto b = .ok ls) :
    ∃ inner, wireUpper proto b = some inner ∧ layersOf inner = some ls := by
  unfold wireUpper
  rw [h]
  cases hc : Tags.classOfIpProto proto with
  | some cls => exact ⟨_, rfl, by simp [layersOf, h]⟩
  | none =>
    refine ⟨_, rfl, ?_⟩
    simp only [pduFromFlag, hc, ChainResult.ok.injEq] at h
    simp [layersOf, h]

/-! ### the IP constructor uses the same function -/

theorem parseOne_ip (D : Bytes) : (parseOne "IP" D : Tins.Out _) = (Ip.Ip4.parse D) >>= fun (o, i) => (pure (.ip (.ip o), i) : Tins.Out _) := by
  have h1 : ("IP" == "RawPDU") = false := by decide
  have h2 : L2.classes.contains "IP" = false := by decide
  have h3 : Ip.classes.contains "IP" = true := by decide
  have h4 : ("IP" == "IP") = true := by decide
  simp only [parseOne, h1, h2, h3, Ip.parse, h4, Bool.false_eq_true, if_false, if_true]
  cases Ip.Ip4.parse D with
  | ok x => rfl
  | throw e => rfl
  | fault s => rfl

theorem modelled_ip : modelled "IP" = true := by decide

/-- **the layers above IP of an unfragmented datagram are `pdu_from_flag(protocol, payload)`**: whatever the IP
    constructor builds on the payload `P` of an unfragmented datagram `D` is what `allocate_pdu` builds on the same
    bytes — same table, same constructors, same exceptions. -/
theorem unfragmented_chain (D P : Bytes) (ip0 : Ip.Ip4) (hparse : Ip.Ip4.parse D = .ok (ip0, ip0.dispatch P))
    (hunf : ip0.isFragmented = false) (hlen : P.length < D.length) :
    parseChain (D.length + 2) "IP" D =
      match pduFromFlag ip0.protocol P with
      | .ok ls => .ok (.ip (.ip ip0) :: ls)
      | .unmodelled c => .unmodelled c
      | .fault s => .fault s
      | .throw e => .throw e := by
  unfold parseChain
  simp only [modelled_ip, Bool.not_true, Bool.false_eq_true, if_false, parseOne_ip, hparse, bind, Tins.Out.bind, pure]
  unfold Ip.Ip4.dispatch pduFromFlag
  simp only [hunf, Bool.not_false, if_true]
  cases hc : Tags.classOfIpProto ip0.protocol with
  | none => rfl
  | some cls =>
    simp only
    rw [parseChain_fuel registry_classesSafe (D.length + 1) (P.length + 2) cls P (by omega) (by omega)]
    cases parseChain (P.length + 2) cls P with
    | ok ls => rfl
    | unmodelled c => rfl
    | fault s => rfl
    | throw e => simp

/-- a fragment on the wire: the IP constructor does not look into the payload ("It's fragmented, just use RawPDU") -/
theorem fragment_chain (W S : Bytes) (f : Ip.Ip4) (hparse : Ip.Ip4.parse W = .ok (f, f.dispatch S))
    (hfrag : f.isFragmented = true) : parseChain (W.length + 2) "IP" W = .ok [.ip (.ip f), .raw S] := by
  unfold parseChain
  simp only [modelled_ip, Bool.not_true, Bool.false_eq_true, if_false, parseOne_ip, hparse, bind, Tins.Out.bind, pure]
  unfold Ip.Ip4.dispatch
  simp [hfrag]

/-! ### wire objects and the reassembly model's packets -/

/-- the fields of a parsed `IP` object the reassembly model keeps; `nopt` = words of (padded) options,
    i.e. `header_size() = 20 + 4 * nopt` -/
def absHdr (o : Ip.Ip4) : Hdr :=
  { tos := o.tos, id := o.id, flags := o.flags, off := o.fragmentOffset, ttl := o.ttl, proto := o.protocol,
    src := Cursor.beNat o.src, dst := Cursor.beNat o.dst, nopt := (o.hdr - 20) / 4 }

theorem absHdr_isFragmented (o : Ip.Ip4) : Reasm.isFragmented (absHdr o) = o.isFragmented := rfl

/-- a datagram of the reassembly specification as it lies on the wire: `D` parses to the header object `ip0`, is not
    fragmented, carries `d.payload` and has `d`'s header fields -/
structure OnWire (d : DG) (D : Bytes) (ip0 : Ip.Ip4) : Prop where
  parses : Ip.Ip4.parse D = .ok (ip0, ip0.dispatch d.payload)
  unfrag : ip0.isFragmented = false
  shorter : d.payload.length < D.length
  fields : { absHdr ip0 with ttl := 0 } = { d.hdr with ttl := 0 }

/-- a fragment event of the specification as it lies on the wire: `W` parses to a fragmented header object with the
    fields of `fragPkt d p ttl` over the slice of the payload -/
structure FragOnWire (d : DG) (p : Nat × Nat) (ttl : Nat) (W : Bytes) (f : Ip.Ip4) : Prop where
  parses : Ip.Ip4.parse W = .ok (f, f.dispatch (slice d.payload p.1 p.2))
  fields : absHdr f = (fragPkt d p ttl).hdr

/-- the wire fragment parses to `IP / RawPDU(slice)`, i.e. to the packet `fragPkt d p ttl` of the specification -/
theorem fragOnWire_chain {d : DG} (w : d.wf) {p : Nat × Nat} (hp : p ∈ d.pieces) {ttl : Nat} {W : Bytes} {f : Ip.Ip4}
    (h : FragOnWire d p ttl W f) :
    parseChain (W.length + 2) "IP" W = .ok [.ip (.ip f), .raw (slice d.payload p.1 p.2)] ∧
    fragPkt d p ttl = { hasIP := true, hdr := absHdr f, inner := .raw (slice d.payload p.1 p.2) } := by
  have hfr : f.isFragmented = true := by
    rw [← absHdr_isFragmented, h.fields]; exact w.frag_isFragmented hp ttl
  refine ⟨fragment_chain W _ f h.parses hfr, ?_⟩
  have hin := w.frag_inner hp ttl
  rw [h.fields]
  cases hpk : fragPkt d p ttl with
  | mk hasIP hdr inner =>
    have h1 : hasIP = true := by have : (fragPkt d p ttl).hasIP = true := rfl; rw [hpk] at this; exact this
    rw [hpk] at hin
    simp only at hin
    simp [h1, hin]

end Tins.Reasm.E2E
