import TinsModel.Reassembly.Spec
/-
  Helper lemmas for C08, part 1: partitions, the insertion loop of `add_fragment`, byte counts, concatenation.
-/
namespace Tins.Reasm

/-! ### partitions -/

theorem piecesFrom_ge {o : Nat} {ls : List Nat} {q : Nat × Nat} (h : q ∈ piecesFrom o ls) : o ≤ q.1 := by
  induction ls generalizing o with
  | nil => simp [piecesFrom] at h
  | cons l ls ih =>
    simp only [piecesFrom, List.mem_cons] at h
    rcases h with h | h
    · subst h; exact Nat.le_refl _
    · have := ih h; omega

theorem piecesFrom_len_mem {o : Nat} {ls : List Nat} {q : Nat × Nat} (h : q ∈ piecesFrom o ls) : q.2 ∈ ls := by
  induction ls generalizing o with
  | nil => simp [piecesFrom] at h
  | cons l ls ih =>
    simp only [piecesFrom, List.mem_cons] at h
    rcases h with h | h
    · subst h; simp
    · exact List.mem_cons_of_mem _ (ih h)

theorem piecesFrom_end_le {o : Nat} {ls : List Nat} {q : Nat × Nat} (h : q ∈ piecesFrom o ls) :
    q.1 + q.2 ≤ o + ls.sum := by
  induction ls generalizing o with
  | nil => simp [piecesFrom] at h
  | cons l ls ih =>
    simp only [piecesFrom, List.mem_cons] at h
    rcases h with h | h
    · subst h; simp
    · have := ih h; simp only [List.sum_cons]; omega

theorem piecesFrom_pairwise (o : Nat) (ls : List Nat) (hpos : ∀ l ∈ ls, 0 < l) :
    (piecesFrom o ls).Pairwise (fun a b => a.1 < b.1) := by
  induction ls generalizing o with
  | nil => simp [piecesFrom]
  | cons l ls ih =>
    simp only [piecesFrom, List.pairwise_cons]
    refine ⟨?_, ih _ (fun x hx => hpos x (List.mem_cons_of_mem _ hx))⟩
    intro q hq
    have := piecesFrom_ge hq
    have := hpos l (by simp)
    show o < q.1
    omega

theorem piecesFrom_lens (o : Nat) (ls : List Nat) : (piecesFrom o ls).map (·.2) = ls := by
  induction ls generalizing o with
  | nil => rfl
  | cons l ls ih => simp [piecesFrom, ih]

/-- the piece that ends the partition is in it -/
theorem piecesFrom_any_last (o : Nat) (ls : List Nat) (hne : ls ≠ []) :
    (piecesFrom o ls).any (fun p => p.1 + p.2 == o + ls.sum) = true := by
  induction ls generalizing o with
  | nil => exact absurd rfl hne
  | cons l ls ih =>
    cases ls with
    | nil => simp [piecesFrom]
    | cons l' ls' =>
      have := ih (o + l) (by simp)
      simp only [piecesFrom, List.any_cons, List.sum_cons] at this ⊢
      rw [Bool.or_eq_true]; right
      simpa [Nat.add_assoc] using this

/-! ### sums over filtered lists -/

theorem sum_filter_le {α} (f : α → Nat) (q : α → Bool) (L : List α) :
    ((L.filter q).map f).sum ≤ (L.map f).sum := by
  induction L with
  | nil => simp
  | cons a L ih =>
    simp only [List.filter_cons]
    split <;> (try simp only [List.map_cons, List.sum_cons]) <;> omega

theorem all_of_sum_filter_eq {α} (f : α → Nat) (q : α → Bool) (L : List α) (hpos : ∀ x ∈ L, 0 < f x)
    (h : ((L.filter q).map f).sum = (L.map f).sum) : ∀ x ∈ L, q x = true := by
  induction L with
  | nil => simp
  | cons a L ih =>
    have hle := sum_filter_le f q L
    simp only [List.filter_cons] at h
    by_cases hq : q a = true
    · simp only [hq, if_true, List.map_cons, List.sum_cons] at h
      intro x hx
      rcases List.mem_cons.mp hx with rfl | hx
      · exact hq
      · exact ih (fun y hy => hpos y (List.mem_cons_of_mem _ hy)) (by omega) x hx
    · have := hpos a (by simp)
      simp only [hq, List.map_cons, List.sum_cons] at h
      simp at h
      omega

theorem filter_eq_self_of_all {α} (q : α → Bool) (L : List α) (h : ∀ x ∈ L, q x = true) : L.filter q = L :=
  List.filter_eq_self.mpr h

/-- adding one (new) element of a duplicate-free list to the filter adds its weight -/
theorem sum_filter_insert (f : Nat × Nat → Nat) (q : Nat × Nat → Bool) (L : List (Nat × Nat))
    (hL : L.Pairwise (fun a b => a.1 < b.1)) (x : Nat × Nat) (hx : x ∈ L) (hq : q x = false) :
    ((L.filter (fun y => q y || y == x)).map f).sum = ((L.filter q).map f).sum + f x := by
  induction L with
  | nil => simp at hx
  | cons a L ih =>
    rw [List.pairwise_cons] at hL
    rcases List.mem_cons.mp hx with rfl | hx'
    · -- x is the head: it does not occur in the tail
      have hnot : ∀ y ∈ L, (y == x) = false := by
        intro y hy
        have := hL.1 y hy
        simp only [beq_eq_false_iff_ne, ne_eq]
        intro h; subst h; omega
      have htail : L.filter (fun y => q y || y == x) = L.filter q := by
        apply List.filter_congr
        intro y hy; simp [hnot y hy]
      simp only [List.filter_cons, hq, htail]
      simp; omega
    · have hne : (a == x) = false := by
        have := hL.1 x hx'
        simp only [beq_eq_false_iff_ne, ne_eq]
        intro h; subst h; omega
      have := ih hL.2 hx'
      simp only [List.filter_cons, hne, Bool.or_false]
      split <;> (try simp only [List.map_cons, List.sum_cons]) <;> omega

/-! ### the insertion loop -/

theorem insFrag_lt_head (f g : Frag) (rest : List Frag) (h : f.off < g.off) :
    insFrag f (g :: rest) = some (f :: g :: rest) := by
  simp only [insFrag]
  have h1 : ¬ f.off > g.off := by omega
  have h2 : ¬ g.off = f.off := by omega
  simp [h1, h2]

/-- inserting a fragment below every stored offset puts it in front -/
theorem insFrag_all_gt (g : Nat × Nat → Frag) (hg : ∀ p, (g p).off = p.1) (x : Nat × Nat) (L : List (Nat × Nat))
    (h : ∀ y ∈ L, x.1 < y.1) : insFrag (g x) (L.map g) = some (g x :: L.map g) := by
  cases L with
  | nil => simp [insFrag]
  | cons a L =>
    simp only [List.map_cons]
    exact insFrag_lt_head _ _ _ (by rw [hg, hg]; exact h a (by simp))

/-- `add_fragment`'s loop on a stream that holds a sub-family `q` of an offset-sorted family `L`:
    a member already held is rejected, a new one lands at its place in the family order -/
theorem insFrag_filter (g : Nat × Nat → Frag) (hg : ∀ p, (g p).off = p.1) (L : List (Nat × Nat))
    (hL : L.Pairwise (fun a b => a.1 < b.1)) (q : Nat × Nat → Bool) (x : Nat × Nat) (hx : x ∈ L) :
    insFrag (g x) ((L.filter q).map g) =
      if q x = true then none else some ((L.filter (fun y => q y || y == x)).map g) := by
  induction L with
  | nil => simp at hx
  | cons a L ih =>
    rw [List.pairwise_cons] at hL
    rcases List.mem_cons.mp hx with rfl | hx'
    · -- x is the head of the family
      have hnot : ∀ y ∈ L, (y == x) = false := by
        intro y hy
        have := hL.1 y hy
        simp only [beq_eq_false_iff_ne, ne_eq]
        intro h; subst h; omega
      have htail : L.filter (fun y => q y || y == x) = L.filter q := by
        apply List.filter_congr
        intro y hy; simp [hnot y hy]
      by_cases hq : q x = true
      · simp only [List.filter_cons, hq, if_true, List.map_cons, insFrag]
        simp
      · have hq' : q x = false := by simpa using hq
        simp only [List.filter_cons, hq', htail]
        simp only [Bool.false_eq_true, if_false, Bool.false_or, beq_self_eq_true, if_true, List.map_cons]
        apply insFrag_all_gt g hg
        intro y hy
        exact hL.1 y (List.mem_filter.mp hy).1
    · have hlt := hL.1 x hx'
      have hne : (a == x) = false := by
        simp only [beq_eq_false_iff_ne, ne_eq]
        intro h; subst h; omega
      have ih' := ih hL.2 hx'
      simp only [List.filter_cons, hne, Bool.or_false]
      by_cases hqa : q a = true
      · simp only [hqa, if_true, List.map_cons, insFrag]
        have : (g x).off > (g a).off := by rw [hg, hg]; exact hlt
        simp only [this, if_true, ih']
        split <;> simp
      · simp only [hqa]
        exact ih'

/-! ### slices and the concatenation loop of `allocate_pdu` -/

theorem slice_length (b : Bytes) (o l : Nat) (h : o + l ≤ b.length) : (slice b o l).length = l := by
  simp only [slice, List.length_take, List.length_drop]; omega

theorem slice_append (b : Bytes) (o l m : Nat) : slice b o l ++ slice b (o + l) m = slice b o (l + m) := by
  simp only [slice]
  rw [List.take_add, List.drop_drop]

theorem slice_all (b : Bytes) : slice b 0 b.length = b := by simp [slice]

/-- on the sorted pieces of a partition the loop of `allocate_pdu` never fails and concatenates the covered slice -/
theorem allocLoop_pieces (P : Bytes) (o : Nat) (ls : List Nat) (acc : Bytes) (h : o + ls.sum ≤ P.length) :
    allocLoop o acc ((piecesFrom o ls).map (fun p => (⟨p.1, slice P p.1 p.2⟩ : Frag))) =
      some (acc ++ slice P o ls.sum) := by
  induction ls generalizing o acc with
  | nil => simp [piecesFrom, allocLoop, slice]
  | cons l ls ih =>
    simp only [List.sum_cons] at h
    simp only [piecesFrom, List.map_cons, allocLoop, bne_self_eq_false, Bool.false_eq_true, if_false]
    rw [slice_length P o l (by omega), ih (o + l) _ (by omega), List.append_assoc, slice_append]
    simp

/-- the loop of `allocate_pdu` succeeds exactly on hole-free, overlap-free fragment lists, and then yields their
    concatenation — for arbitrary (also hostile) stream contents -/
theorem allocLoop_some_iff (e : Nat) (acc : Bytes) (frags : List Frag) (buf : Bytes) :
    allocLoop e acc frags = some buf ↔ contiguous e frags ∧ buf = acc ++ (frags.map (·.payload)).flatten := by
  induction frags generalizing e acc with
  | nil => simp [allocLoop, contiguous, eq_comm]
  | cons f r ih =>
    simp only [allocLoop, contiguous, List.map_cons, List.flatten_cons]
    by_cases h : e = f.off
    · subst h
      simp only [bne_self_eq_false, Bool.false_eq_true, if_false, true_and]
      rw [ih]; simp [List.append_assoc]
    · have h' : (e != f.off) = true := by simpa using h
      simp only [h', if_true]
      constructor
      · intro hh; simp at hh
      · intro hh; exact absurd hh.1.1.symm h

/-- `allocate_pdu` reaches `pdu_from_flag` exactly when the datagram fits an IPv4 datagram and the loop succeeds -/
theorem allocBuf_some_iff (s : Stream) (buf : Bytes) :
    allocBuf s = some buf ↔ hdrSize s.first + s.total ≤ 65535 ∧ allocLoop 0 [] s.frags = some buf := by
  unfold allocBuf
  split
  · constructor
    · intro h; simp at h
    · intro h; omega
  · constructor
    · intro h; exact ⟨by omega, h⟩
    · intro h; exact h.2

end Tins.Reasm
