import TinsModel.Reassembly.History
/-
  Helper lemmas for C08, part 5: facts about the reference reassembler itself (what is in its state has arrived).
-/
namespace Tins.Reasm

/-- what the model / the reference report for event `ev` after history `pre` -/
def modelObs (parse : UpperParse) (pre : List Ev) (ev : Ev) : Obs :=
  (modelStep parse (finalWith (modelStep parse) [] pre) ev).2

def refObs (parse : UpperParse) (pre : List Ev) (ev : Ev) : Obs :=
  (refStep parse (finalWith (refStep parse) [] pre) ev).2

theorem runModel_append (parse : UpperParse) (pre : List Ev) (ev : Ev) :
    runModel parse (pre ++ [ev]) = runModel parse pre ++ [modelObs parse pre ev] :=
  runWith_append _ _ _ _

theorem runRef_append (parse : UpperParse) (pre : List Ev) (ev : Ev) :
    runRef parse (pre ++ [ev]) = runRef parse pre ++ [refObs parse pre ev] :=
  runWith_append _ _ _ _

/-- under the hypothesis of the property the model's report is the reference's report -/
theorem modelObs_eq_refObs {F : List DG} (hF : Family F) (parse : UpperParse) (pre : List Ev)
    (hpre : ∀ e ∈ pre, e.ok F) (ev : Ev) (hev : ev.ok F) : modelObs parse pre ev = refObs parse pre ev := by
  have h := run_refines hF parse pre hpre [] (SInv_nil F)
  have hfin : finalWith (modelStep parse) [] pre = absState (finalWith (refStep parse) [] pre) := h.2.1
  have hs := step_refines hF parse _ h.2.2 ev hev
  simp only [modelObs, refObs, hfin, hs.1]

/-- every piece recorded in the reference state has arrived, and the remembered header is the header of an arrived
    copy of piece 0 -/
def Arrived (pre : List Ev) (σ : RefState) : Prop :=
  ∀ x ∈ σ, (∀ q ∈ x.2.got, ∃ t, Ev.frag x.1 q t ∈ pre) ∧
    (∀ h, x.2.first = some h → ∃ q t, q.1 = 0 ∧ h = (fragPkt x.1 q t).hdr ∧ Ev.frag x.1 q t ∈ pre)

theorem Arrived.mono {pre : List Ev} {σ : RefState} (h : Arrived pre σ) (ev : Ev) : Arrived (pre ++ [ev]) σ := by
  intro x hx
  obtain ⟨h1, h2⟩ := h x hx
  refine ⟨fun q hq => ?_, fun hd hh => ?_⟩
  · obtain ⟨t, ht⟩ := h1 q hq
    exact ⟨t, List.mem_append_left _ ht⟩
  · obtain ⟨q, t, hq0, he, ht⟩ := h2 hd hh
    exact ⟨q, t, hq0, he, List.mem_append_left _ ht⟩

theorem Arrived.subset {pre : List Ev} {σ σ' : RefState} (h : Arrived pre σ) (hs : ∀ x ∈ σ', x ∈ σ) :
    Arrived pre σ' := fun x hx => h x (hs x hx)

/-- the episode of `d` as the reference sees it before the arrival -/
theorem Arrived.lookup {pre : List Ev} {σ : RefState} (h : Arrived pre σ) (d : DG) :
    (∀ q ∈ ((alLookup σ d).getD {}).got, ∃ t, Ev.frag d q t ∈ pre) ∧
    (∀ hd, ((alLookup σ d).getD {}).first = some hd →
      ∃ q t, q.1 = 0 ∧ hd = (fragPkt d q t).hdr ∧ Ev.frag d q t ∈ pre) := by
  cases hl : alLookup σ d with
  | none => simp
  | some e => exact h (d, e) (alLookup_mem hl)

/-- the episode after the arrival of a copy of `p` only holds pieces that have arrived (the new copy included) -/
theorem Arrived.add {pre : List Ev} {σ : RefState} (h : Arrived pre σ) (d : DG) (p : Nat × Nat) (ttl : Nat) :
    (∀ q ∈ (((alLookup σ d).getD {}).add p (fragPkt d p ttl).hdr).got, ∃ t, Ev.frag d q t ∈ pre ++ [.frag d p ttl]) ∧
    (∀ hd, (((alLookup σ d).getD {}).add p (fragPkt d p ttl).hdr).first = some hd →
      ∃ q t, q.1 = 0 ∧ hd = (fragPkt d q t).hdr ∧ Ev.frag d q t ∈ pre ++ [.frag d p ttl]) := by
  obtain ⟨h1, h2⟩ := h.lookup d
  unfold Ep.add
  split
  · refine ⟨fun q hq => ?_, fun hd hh => ?_⟩
    · obtain ⟨t, ht⟩ := h1 q hq
      exact ⟨t, List.mem_append_left _ ht⟩
    · obtain ⟨q, t, hq0, he, ht⟩ := h2 hd hh
      exact ⟨q, t, hq0, he, List.mem_append_left _ ht⟩
  · refine ⟨fun q hq => ?_, fun hd hh => ?_⟩
    · simp only [List.mem_cons] at hq
      rcases hq with rfl | hq
      · exact ⟨ttl, by simp⟩
      · obtain ⟨t, ht⟩ := h1 q hq
        exact ⟨t, List.mem_append_left _ ht⟩
    · simp only at hh
      split at hh
      · rename_i h0
        simp only [Option.some.injEq] at hh
        exact ⟨p, ttl, h0, hh.symm, by simp⟩
      · obtain ⟨q, t, hq0, he, ht⟩ := h2 hd hh
        exact ⟨q, t, hq0, he, List.mem_append_left _ ht⟩

theorem Arrived.step {pre : List Ev} {σ : RefState} (parse : UpperParse) (h : Arrived pre σ) (ev : Ev) :
    Arrived (pre ++ [ev]) (refStep parse σ ev).1 := by
  cases ev with
  | frag d p ttl =>
    have hadd := h.add d p ttl
    have hm := h.mono (.frag d p ttl)
    simp only [refStep, refFrag]
    split
    · -- completed (or the parser threw): the entry is erased
      split <;> exact hm.subset (alErase_subset _ _)
    · intro x hx
      simp only [alPut, List.mem_cons] at hx
      rcases hx with rfl | hx
      · exact hadd
      · exact hm x (alErase_subset _ _ x hx)
  | other pkt => exact h.mono _
  | clear => intro x hx; simp [refStep] at hx
  | remove id src dst =>
    exact (h.mono _).subset (fun x hx => (List.mem_filter.mp hx).1)

theorem Arrived.final (parse : UpperParse) (pre evs : List Ev) (σ : RefState) (h : Arrived pre σ) :
    Arrived (pre ++ evs) (finalWith (refStep parse) σ evs) := by
  induction evs generalizing pre σ with
  | nil => simpa [finalWith] using h
  | cons e es ih =>
    have := ih (pre ++ [e]) _ (h.step parse e)
    simpa [finalWith, List.append_assoc] using this

theorem arrived_final (parse : UpperParse) (evs : List Ev) : Arrived evs (finalWith (refStep parse) [] evs) := by
  have := Arrived.final parse [] evs [] (by intro x hx; simp at hx)
  simpa using this

/-- the three outcomes of the reference on a fragment -/
theorem refFrag_cases (parse : UpperParse) (σ : RefState) (d : DG) (p : Nat × Nat) (pkt : Pkt) :
    (d.complete (((alLookup σ d).getD {}).add p pkt.hdr) = true ∧ ∃ inner, parse d.hdr.proto d.payload = some inner ∧
      refFrag parse σ d p pkt = (alErase σ d,
        { pkt with hdr := resultHdr ((((alLookup σ d).getD {}).add p pkt.hdr).first.getD {}), inner := inner },
        .reassembled)) ∨
    (d.complete (((alLookup σ d).getD {}).add p pkt.hdr) = true ∧ parse d.hdr.proto d.payload = none ∧
      refFrag parse σ d p pkt = (alErase σ d, pkt, .throwMalformed)) ∨
    (d.complete (((alLookup σ d).getD {}).add p pkt.hdr) = false ∧
      refFrag parse σ d p pkt = (alPut σ d (((alLookup σ d).getD {}).add p pkt.hdr), pkt, .fragmented)) := by
  unfold refFrag
  by_cases hc : d.complete (((alLookup σ d).getD {}).add p pkt.hdr) = true
  · cases hp : parse d.hdr.proto d.payload with
    | none => right; left; simp [hc]
    | some inner => left; exact ⟨hc, inner, rfl, by simp [hc]⟩
  · right; right
    have hc' : d.complete (((alLookup σ d).getD {}).add p pkt.hdr) = false := by simpa using hc
    exact ⟨hc', by simp [hc']⟩

/-- the episode after an arrival remembers a header as soon as it holds a piece at offset 0 -/
theorem EpInv_lookup_add {F : List DG} {σ : RefState} (hσ : SInv F σ) (d : DG) (p : Nat × Nat) (ttl : Nat) :
    EpInv d (((alLookup σ d).getD {}).add p (fragPkt d p ttl).hdr) := by
  have he0 : EpInv d ((alLookup σ d).getD {}) := by
    cases hl : alLookup σ d with
    | none => exact EpInv_empty d
    | some e1 => exact (hσ _ (alLookup_mem hl)).2
  exact EpInv_add he0 p _ (frag_proto d p ttl) (frag_nopt d p ttl)

end Tins.Reasm
