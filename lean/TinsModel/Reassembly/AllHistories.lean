import TinsModel.Reassembly.Independence
import TinsModel.Reassembly.Policy
/-
  Helper lemmas for C08, part 7: ARBITRARY sessions with the reassembler — any packets whatsoever (overlapping
  fragments, different lengths at one offset, several "last" fragments, a last fragment that ends before data already
  held, offsets + lengths beyond 65535, lying headers), `clear_streams`, `remove_stream`, in any order.

  * `SWf` / `TWf`: the invariant of every reachable stream / stream table (fragments strictly sorted by offset, never
    empty, byte count exact, every stored fragment / the remembered first header / the total come from packets that did
    arrive with this key, no stream in the table is complete).
  * `Tiles a b frags`: the stored fragments cover `[a, b)` exactly — no gap, no overlap.
-/
namespace Tins.Reasm

/-! ### sessions -/

inductive Op
  | pkt (p : Pkt)
  | clear
  | remove (id src dst : Nat)
deriving Repr, DecidableEq

/-- one call on the reassembler: the new table and, for `process`, status and the packet as left behind -/
def opStep (parse : UpperParse) (r : Streams) : Op → Streams × Option (Out × Pkt)
  | .pkt p => ((process parse r p).1, some ((process parse r p).2.2, (process parse r p).2.1))
  | .clear => (clearStreams r, none)
  | .remove id src dst => (removeStream r id src dst, none)

/-- the stream table after a session that started with a fresh reassembler -/
def reach (parse : UpperParse) (ops : List Op) : Streams := ops.foldl (fun r o => (opStep parse r o).1) []

/-- what a session reports, call by call -/
def sessionOut (parse : UpperParse) : Streams → List Op → List (Option (Out × Pkt) × Nat)
  | _, [] => []
  | r, o :: ops => ((opStep parse r o).2, (opStep parse r o).1.length) :: sessionOut parse (opStep parse r o).1 ops

theorem reach_snoc (parse : UpperParse) (ops : List Op) (o : Op) :
    reach parse (ops ++ [o]) = (opStep parse (reach parse ops) o).1 := by
  simp [reach, List.foldl_append]

theorem isFragPkt_eq_not_notFrag (p : Pkt) : isFragPkt p = !notFrag p := by simp [isFragPkt, notFrag]

/-- what `add_fragment` stores of a packet -/
def fragOfPkt (p : Pkt) : Frag := ⟨extractOffset p.hdr, p.inner.bytes⟩

/-- the fragment packets that arrived during a session -/
def Arr (ops : List Op) (p : Pkt) : Prop := Op.pkt p ∈ ops ∧ isFragPkt p = true

theorem Arr.snoc {ops : List Op} {p : Pkt} (h : Arr ops p) (o : Op) : Arr (ops ++ [o]) p :=
  ⟨List.mem_append_left _ h.1, h.2⟩

/-- the `IPv4Stream` that `process` works on after `streams_[key]` and `add_fragment` -/
def streamAfter (r : Streams) (p : Pkt) : Stream :=
  addFragment ((alLookup r (makeKey p.hdr)).getD {}) p.hdr p.inner.bytes

section ProcessCases
variable (parse : UpperParse) (r : Streams) (p : Pkt)

/-- `process` on a fragment packet, case by case (the four ways through the fragment path) -/
theorem process_frag_open (hf : isFragPkt p = true) (hc : isComplete (streamAfter r p) = false) :
    process parse r p = (alPut r (makeKey p.hdr) (streamAfter r p), p, .fragmented) := by
  simp only [isFragPkt, Bool.and_eq_true] at hf
  have h1 : (p.hasIP && !p.inner.isNone) = true := by simp [hf.1.1, hf.1.2]
  simp only [streamAfter] at hc
  simp [process, streamAfter, h1, hf.2, hc]

theorem process_frag_corrupt (hf : isFragPkt p = true) (hc : isComplete (streamAfter r p) = true)
    (ha : allocBuf (streamAfter r p) = none) :
    process parse r p = (alErase (alPut r (makeKey p.hdr) (streamAfter r p)) (makeKey p.hdr),
                         { p with hdr := (streamAfter r p).first, inner := .none }, .fragmented) := by
  simp only [isFragPkt, Bool.and_eq_true] at hf
  have h1 : (p.hasIP && !p.inner.isNone) = true := by simp [hf.1.1, hf.1.2]
  simp only [streamAfter] at hc ha
  simp [process, streamAfter, h1, hf.2, hc, ha]

theorem process_frag_throw (hf : isFragPkt p = true) (hc : isComplete (streamAfter r p) = true) {buf : Bytes}
    (ha : allocBuf (streamAfter r p) = some buf) (hp : parse (streamAfter r p).first.proto buf = none) :
    process parse r p = (alErase (alPut r (makeKey p.hdr) (streamAfter r p)) (makeKey p.hdr), p, .throwMalformed) := by
  simp only [isFragPkt, Bool.and_eq_true] at hf
  have h1 : (p.hasIP && !p.inner.isNone) = true := by simp [hf.1.1, hf.1.2]
  simp only [streamAfter] at hc ha hp
  simp [process, streamAfter, h1, hf.2, hc, ha, hp]

theorem process_frag_done (hf : isFragPkt p = true) (hc : isComplete (streamAfter r p) = true) {buf : Bytes}
    (ha : allocBuf (streamAfter r p) = some buf) {inner : Inner}
    (hp : parse (streamAfter r p).first.proto buf = some inner) :
    process parse r p =
      (alErase (alPut r (makeKey p.hdr) (streamAfter r p)) (makeKey p.hdr),
       { p with hdr := { (streamAfter r p).first with off := 0, flags := clearMF (streamAfter r p).first.flags },
                inner := inner }, .reassembled) := by
  simp only [isFragPkt, Bool.and_eq_true] at hf
  have h1 : (p.hasIP && !p.inner.isNone) = true := by simp [hf.1.1, hf.1.2]
  simp only [streamAfter] at hc ha hp
  simp [process, streamAfter, h1, hf.2, hc, ha, hp]

end ProcessCases

theorem process_notFrag_eq (parse : UpperParse) (r : Streams) (p : Pkt) (hf : isFragPkt p = false) :
    process parse r p = (r, p, .notFragmented) :=
  process_other parse r p (by rw [isFragPkt_eq_not_notFrag] at hf; simpa using hf)

/-! ### exact covers -/

/-- the fragments cover `[a, b)` exactly, in order: no gap, no overlap -/
def Tiles (a b : Nat) : List Frag → Prop
  | [] => a = b
  | f :: r => f.off = a ∧ Tiles (f.off + f.payload.length) b r

def fragLens (L : List Frag) : Nat := (L.map (·.payload.length)).sum

theorem tiles_iff_contiguous (a b : Nat) (L : List Frag) : Tiles a b L ↔ contiguous a L ∧ b = a + fragLens L := by
  induction L generalizing a with
  | nil => simp [Tiles, contiguous, fragLens, eq_comm]
  | cons f r ih =>
    have hl : fragLens (f :: r) = f.payload.length + fragLens r := by simp [fragLens]
    simp only [Tiles, contiguous, ih, hl]
    constructor
    · rintro ⟨h1, h2, h3⟩; exact ⟨⟨h1, h2⟩, by omega⟩
    · rintro ⟨⟨h1, h2⟩, h3⟩; exact ⟨h1, h2, by omega⟩

theorem Tiles.bounds {a b : Nat} {L : List Frag} (h : Tiles a b L) : a ≤ b ∧ ∀ f ∈ L, a ≤ f.off ∧ f.off + f.payload.length ≤ b := by
  induction L generalizing a with
  | nil => have : a = b := h; subst this; simp
  | cons g r ih =>
    obtain ⟨h1, h2⟩ := h
    have := ih h2
    refine ⟨by omega, ?_⟩
    intro f hf
    rcases List.mem_cons.mp hf with rfl | hf
    · omega
    · have := this.2 f hf; omega

/-- no two stored fragments of an exact cover share a byte position -/
theorem Tiles.disjoint {a b : Nat} {L : List Frag} (h : Tiles a b L) :
    L.Pairwise (fun f g => f.off + f.payload.length ≤ g.off) := by
  induction L generalizing a with
  | nil => simp
  | cons g r ih =>
    obtain ⟨_, h2⟩ := h
    rw [List.pairwise_cons]
    exact ⟨fun f hf => (h2.bounds.2 f hf).1, ih h2⟩

theorem Tiles.length {a b : Nat} {L : List Frag} (h : Tiles a b L) : ((L.map (·.payload)).flatten).length = b - a := by
  have := (tiles_iff_contiguous a b L).mp h
  have hl : ((L.map (·.payload)).flatten).length = fragLens L := by
    simp only [fragLens, List.length_flatten, List.map_map]; rfl
  omega

/-- every byte of the concatenation is the byte of the one stored fragment that covers its position -/
theorem Tiles.bytes {a b : Nat} {L : List Frag} (h : Tiles a b L) :
    ∀ f ∈ L, ∀ j, j < f.payload.length → ((L.map (·.payload)).flatten)[f.off - a + j]? = f.payload[j]? := by
  induction L generalizing a with
  | nil => simp
  | cons g r ih =>
    obtain ⟨h1, h2⟩ := h
    intro f hf j hj
    simp only [List.map_cons, List.flatten_cons]
    rcases List.mem_cons.mp hf with rfl | hf
    · rw [h1, Nat.sub_self, Nat.zero_add, List.getElem?_append_left hj]
    · have hb := (h2.bounds.2 f hf).1
      have := ih h2 f hf j hj
      rw [List.getElem?_append_right (by omega)]
      rw [← this]
      congr 1
      omega

/-! ### the insertion loop of `add_fragment` on arbitrary contents -/

def sortedFrags (L : List Frag) : Prop := L.Pairwise (fun a b => a.off < b.off)

theorem insFrag_some_cons {f g : Frag} {rest L' : List Frag} (h : insFrag f (g :: rest) = some L') :
    (f.off > g.off ∧ ∃ R', insFrag f rest = some R' ∧ L' = g :: R') ∨ (f.off < g.off ∧ L' = f :: g :: rest) := by
  simp only [insFrag] at h
  by_cases h1 : f.off > g.off
  · simp only [h1, if_true, Option.map_eq_some_iff] at h
    obtain ⟨R', hR, hL⟩ := h
    exact .inl ⟨h1, R', hR, hL.symm⟩
  · simp only [h1, if_false] at h
    by_cases h2 : g.off = f.off
    · simp [h2] at h
    · simp only [h2, if_false, Option.some.injEq] at h
      exact .inr ⟨by omega, h.symm⟩

theorem insFrag_mem {f : Frag} {L L' : List Frag} (h : insFrag f L = some L') : ∀ g, g ∈ L' ↔ g = f ∨ g ∈ L := by
  induction L generalizing L' with
  | nil => simp only [insFrag, Option.some.injEq] at h; subst h; simp
  | cons a rest ih =>
    rcases insFrag_some_cons h with ⟨_, R', hR, rfl⟩ | ⟨_, rfl⟩
    · intro g
      simp only [List.mem_cons, ih hR g]
      constructor
      · rintro (h | h | h)
        · exact .inr (.inl h)
        · exact .inl h
        · exact .inr (.inr h)
      · rintro (h | h | h)
        · exact .inr (.inl h)
        · exact .inl h
        · exact .inr (.inr h)
    · intro g; exact List.mem_cons

theorem insFrag_sorted {f : Frag} {L L' : List Frag} (hs : sortedFrags L) (h : insFrag f L = some L') : sortedFrags L' := by
  induction L generalizing L' with
  | nil => simp only [insFrag, Option.some.injEq] at h; subst h; simp [sortedFrags]
  | cons a rest ih =>
    unfold sortedFrags at hs ⊢
    rw [List.pairwise_cons] at hs
    rcases insFrag_some_cons h with ⟨hgt, R', hR, rfl⟩ | ⟨hlt, rfl⟩
    · rw [List.pairwise_cons]
      refine ⟨?_, ih hs.2 hR⟩
      intro x hx
      rcases (insFrag_mem hR x).mp hx with rfl | hx
      · exact hgt
      · exact hs.1 x hx
    · rw [List.pairwise_cons]
      refine ⟨?_, List.pairwise_cons.mpr hs⟩
      intro x hx
      rcases List.mem_cons.mp hx with rfl | hx
      · exact hlt
      · have := hs.1 x hx; omega

theorem insFrag_lens {f : Frag} {L L' : List Frag} (h : insFrag f L = some L') :
    fragLens L' = fragLens L + f.payload.length := by
  induction L generalizing L' with
  | nil => simp only [insFrag, Option.some.injEq] at h; subst h; simp [fragLens]
  | cons a rest ih =>
    rcases insFrag_some_cons h with ⟨_, R', hR, rfl⟩ | ⟨_, rfl⟩
    · have := ih hR; simp only [fragLens, List.map_cons, List.sum_cons] at this ⊢; omega
    · simp only [fragLens, List.map_cons, List.sum_cons]; omega

/-- "No duplicates plx": the new fragment is ignored exactly when a fragment with the same offset is already held —
    whatever its length and content -/
theorem insFrag_none_iff {f : Frag} {L : List Frag} (hs : sortedFrags L) :
    insFrag f L = none ↔ ∃ g ∈ L, g.off = f.off := by
  induction L with
  | nil => simp [insFrag]
  | cons a rest ih =>
    unfold sortedFrags at hs
    rw [List.pairwise_cons] at hs
    simp only [insFrag]
    by_cases h1 : f.off > a.off
    · simp only [h1, if_true, Option.map_eq_none_iff, ih hs.2, List.mem_cons, exists_eq_or_imp]
      constructor
      · intro h; exact .inr h
      · rintro (h | h)
        · omega
        · exact h
    · simp only [h1, if_false]
      by_cases h2 : a.off = f.off
      · simp only [h2, if_true, true_iff]
        exact ⟨a, by simp, h2⟩
      · simp only [h2, if_false, reduceCtorEq, false_iff]
        rintro ⟨g, hg, hgo⟩
        rcases List.mem_cons.mp hg with rfl | hg
        · exact h2 hgo
        · have := hs.1 g hg; omega

/-! ### the stream invariant -/

/-- invariant of an `IPv4Stream` filled by `add_fragment` from packets of key `k` that satisfy `A` (= "arrived").
    The empty stream satisfies it. -/
structure SWf (A : Pkt → Prop) (k : Key) (s : Stream) : Prop where
  sorted : sortedFrags s.frags
  recv : s.received = fragLens s.frags
  /-- every stored fragment is the (offset, payload) of a packet that arrived with this key -/
  prov : ∀ f ∈ s.frags, ∃ q, A q ∧ makeKey q.hdr = k ∧ fragOfPkt q = f
  /-- `total_size_` is the end of a stored fragment that arrived without more-fragments -/
  tot : s.receivedEnd = true → ∃ q, A q ∧ makeKey q.hdr = k ∧ q.hdr.flags % 2 = 0 ∧ fragOfPkt q ∈ s.frags ∧
          s.total = extractOffset q.hdr + q.inner.bytes.length
  notot : s.receivedEnd = false → s.total = 0
  /-- `first_fragment_` is the header of the packet whose fragment is stored at offset 0 -/
  first : (∃ f ∈ s.frags, f.off = 0) → ∃ q, A q ∧ makeKey q.hdr = k ∧ extractOffset q.hdr = 0 ∧
          fragOfPkt q ∈ s.frags ∧ s.first = q.hdr

theorem SWf.empty (A : Pkt → Prop) (k : Key) : SWf A k {} :=
  ⟨by simp [sortedFrags], by simp [fragLens], by simp, by simp, by simp, by simp⟩

theorem SWf.mono {A B : Pkt → Prop} (hAB : ∀ q, A q → B q) {k : Key} {s : Stream} (h : SWf A k s) : SWf B k s where
  sorted := h.sorted
  recv := h.recv
  prov := fun f hf => let ⟨q, hq, r⟩ := h.prov f hf; ⟨q, hAB q hq, r⟩
  tot := fun he => let ⟨q, hq, r⟩ := h.tot he; ⟨q, hAB q hq, r⟩
  notot := h.notot
  first := fun he => let ⟨q, hq, r⟩ := h.first he; ⟨q, hAB q hq, r⟩

/-- `add_fragment` with its three conditional updates side by side -/
theorem addFragment_eq (s : Stream) (h : Hdr) (payload : Bytes) :
    addFragment s h payload =
      match insFrag ⟨extractOffset h, payload⟩ s.frags with
      | none => s
      | some L' => { frags := L', received := s.received + payload.length,
                     total := if h.flags % 2 = 0 then extractOffset h + payload.length else s.total,
                     first := if extractOffset h = 0 then h else s.first,
                     receivedEnd := if h.flags % 2 = 0 then true else s.receivedEnd } := by
  simp only [addFragment]
  cases insFrag ⟨extractOffset h, payload⟩ s.frags with
  | none => rfl
  | some L' => by_cases hmf : h.flags % 2 = 0 <;> by_cases h0 : extractOffset h = 0 <;> simp [hmf, h0]

theorem addFragment_frags (s : Stream) (h : Hdr) (payload : Bytes) :
    (addFragment s h payload).frags = (insFrag ⟨extractOffset h, payload⟩ s.frags).getD s.frags := by
  rw [addFragment_eq]
  cases insFrag ⟨extractOffset h, payload⟩ s.frags <;> rfl

/-- `add_fragment` never leaves the fragment vector empty: `fragments_.begin()` in `is_complete` is dereferenceable -/
theorem addFragment_frags_ne (s : Stream) (h : Hdr) (payload : Bytes) : (addFragment s h payload).frags ≠ [] := by
  rw [addFragment_frags]
  cases hi : insFrag ⟨extractOffset h, payload⟩ s.frags with
  | none =>
    intro he
    simp only [Option.getD_none] at he
    rw [he] at hi
    simp [insFrag] at hi
  | some L' =>
    have hm := (insFrag_mem hi ⟨extractOffset h, payload⟩).mpr (.inl rfl)
    intro he
    simp only [Option.getD_some] at he
    rw [he] at hm; simp at hm

/-- the stream after an accepted fragment -/
theorem SWf_build {A : Pkt → Prop} {s : Stream} {p : Pkt} (h : SWf A (makeKey p.hdr) s) (hA : A p) {L' : List Frag}
    (hi : insFrag (fragOfPkt p) s.frags = some L') :
    SWf A (makeKey p.hdr)
      { frags := L', received := s.received + p.inner.bytes.length,
        total := if p.hdr.flags % 2 = 0 then extractOffset p.hdr + p.inner.bytes.length else s.total,
        first := if extractOffset p.hdr = 0 then p.hdr else s.first,
        receivedEnd := if p.hdr.flags % 2 = 0 then true else s.receivedEnd } := by
  have hmem := insFrag_mem hi
  have hself : fragOfPkt p ∈ L' := (hmem _).mpr (.inl rfl)
  have hold : ∀ g, g ∈ s.frags → g ∈ L' := fun g hg => (hmem g).mpr (.inr hg)
  refine ⟨insFrag_sorted h.sorted hi, ?_, ?_, ?_, ?_, ?_⟩
  · have := insFrag_lens hi
    simp only [this, h.recv, fragOfPkt]
  · intro f hf
    rcases (hmem f).mp hf with rfl | hf
    · exact ⟨p, hA, rfl, rfl⟩
    · exact h.prov f hf
  · intro he
    by_cases hmf : p.hdr.flags % 2 = 0
    · exact ⟨p, hA, rfl, hmf, hself, by simp [hmf]⟩
    · simp only [hmf, if_false] at he ⊢
      obtain ⟨q, hq, hk, hmq, hin, ht⟩ := h.tot he
      exact ⟨q, hq, hk, hmq, hold _ hin, ht⟩
  · intro he
    by_cases hmf : p.hdr.flags % 2 = 0
    · simp [hmf] at he
    · simp only [hmf, if_false] at he ⊢
      exact h.notot he
  · rintro ⟨f, hf, hf0⟩
    by_cases h0 : extractOffset p.hdr = 0
    · exact ⟨p, hA, rfl, h0, hself, by simp [h0]⟩
    · simp only [h0, if_false]
      rcases (hmem f).mp hf with rfl | hf'
      · exact absurd hf0 h0
      · obtain ⟨q, hq, hk, ho, hin, hfi⟩ := h.first ⟨f, hf', hf0⟩
        exact ⟨q, hq, hk, ho, hold _ hin, hfi⟩

/-- `add_fragment` keeps the invariant (the packet being added counts as arrived) -/
theorem addFragment_SWf {A : Pkt → Prop} {s : Stream} {p : Pkt} (hA : A p) (h : SWf A (makeKey p.hdr) s) :
    SWf A (makeKey p.hdr) (addFragment s p.hdr p.inner.bytes) := by
  rw [addFragment_eq]
  cases hi : insFrag ⟨extractOffset p.hdr, p.inner.bytes⟩ s.frags with
  | none => exact h
  | some L' => exact SWf_build h hA hi

theorem isComplete_iff (s : Stream) :
    isComplete s = true ↔ s.receivedEnd = true ∧ s.received = s.total ∧ ∃ f rest, s.frags = f :: rest ∧ f.off = 0 := by
  unfold isComplete
  cases he : s.receivedEnd <;> simp only [Bool.not_false, Bool.not_true, Bool.true_or, Bool.false_or, if_true]
  · simp
  · by_cases hr : s.received = s.total
    · simp only [hr, bne_self_eq_false, Bool.false_eq_true, if_false, true_and]
      cases s.frags with
      | nil => simp
      | cons f rest => simp
    · have : (s.received != s.total) = true := by simpa using hr
      simp [this, hr]

/-! ### the table invariant -/

/-- invariant of every reachable stream table: one stream per key, every stream well-formed, non-empty and **not
    complete** (a complete stream is erased by the call that completes it, whatever the outcome) -/
structure TWf (A : Pkt → Prop) (r : Streams) : Prop where
  nodup : (r.map (·.1)).Nodup
  wf : ∀ x ∈ r, SWf A x.1 x.2 ∧ x.2.frags ≠ [] ∧ isComplete x.2 = false

theorem TWf.nil (A : Pkt → Prop) : TWf A [] := ⟨by simp, by simp⟩

theorem TWf.mono {A B : Pkt → Prop} (hAB : ∀ q, A q → B q) {r : Streams} (h : TWf A r) : TWf B r :=
  ⟨h.nodup, fun x hx => ⟨(h.wf x hx).1.mono hAB, (h.wf x hx).2⟩⟩

theorem TWf.filter {A : Pkt → Prop} {r : Streams} (h : TWf A r) (q : Key × Stream → Bool) : TWf A (r.filter q) :=
  ⟨List.Nodup.sublist (List.Sublist.map _ List.filter_sublist) h.nodup,
   fun x hx => h.wf x (List.mem_filter.mp hx).1⟩

theorem TWf.erase {A : Pkt → Prop} {r : Streams} (h : TWf A r) (k : Key) : TWf A (alErase r k) := h.filter _

theorem TWf.put {A : Pkt → Prop} {r : Streams} (h : TWf A r) {k : Key} {s : Stream} (hs : SWf A k s)
    (hne : s.frags ≠ []) (hc : isComplete s = false) : TWf A (alPut r k s) := by
  refine ⟨?_, ?_⟩
  · simp only [alPut, List.map_cons, List.nodup_cons]
    refine ⟨?_, (h.erase k).nodup⟩
    intro hm
    obtain ⟨x, hx, hk⟩ := List.mem_map.mp hm
    have := (List.mem_filter.mp hx).2
    simp [hk] at this
  · intro x hx
    simp only [alPut, List.mem_cons] at hx
    rcases hx with rfl | hx
    · exact ⟨hs, hne, hc⟩
    · exact (h.erase k).wf x hx

theorem TWf.lookup {A : Pkt → Prop} {r : Streams} (h : TWf A r) (k : Key) : SWf A k ((alLookup r k).getD {}) := by
  cases hl : alLookup r k with
  | none => exact SWf.empty A k
  | some s => exact (h.wf _ (alLookup_mem hl)).1

theorem alErase_put_self {κ σ : Type} [DecidableEq κ] (m : List (κ × σ)) (k : κ) (v : σ) :
    alErase (alPut m k v) k = alErase m k := by
  simp [alPut, alErase, List.filter_cons, List.filter_filter]

/-- the stream `process` works on is well-formed with respect to the packets that arrived, the current one included -/
theorem streamAfter_SWf {A B : Pkt → Prop} (hAB : ∀ q, A q → B q) {r : Streams} (h : TWf A r) {p : Pkt} (hB : B p) :
    SWf B (makeKey p.hdr) (streamAfter r p) :=
  addFragment_SWf hB ((h.lookup (makeKey p.hdr)).mono hAB)

/-- every call keeps the table invariant -/
theorem process_TWf {A B : Pkt → Prop} (hAB : ∀ q, A q → B q) (parse : UpperParse) {r : Streams} (h : TWf A r)
    (p : Pkt) (hB : isFragPkt p = true → B p) : TWf B (process parse r p).1 := by
  by_cases hf : isFragPkt p = true
  · have hs := streamAfter_SWf hAB h (hB hf)
    have hne := addFragment_frags_ne ((alLookup r (makeKey p.hdr)).getD {}) p.hdr p.inner.bytes
    have hB' := h.mono hAB
    cases hc : isComplete (streamAfter r p) with
    | false =>
      rw [process_frag_open parse r p hf hc]
      exact hB'.put hs hne hc
    | true =>
      cases ha : allocBuf (streamAfter r p) with
      | none => rw [process_frag_corrupt parse r p hf hc ha, alErase_put_self]; exact hB'.erase _
      | some buf =>
        cases hp : parse (streamAfter r p).first.proto buf with
        | none => rw [process_frag_throw parse r p hf hc ha hp, alErase_put_self]; exact hB'.erase _
        | some inner => rw [process_frag_done parse r p hf hc ha hp, alErase_put_self]; exact hB'.erase _
  · have hf' : isFragPkt p = false := by simpa using hf
    rw [process_notFrag_eq parse r p hf']
    exact h.mono hAB

theorem opStep_TWf (parse : UpperParse) {pre : List Op} {r : Streams} (h : TWf (Arr pre) r) (o : Op) :
    TWf (Arr (pre ++ [o])) (opStep parse r o).1 := by
  cases o with
  | pkt p =>
    exact process_TWf (fun q hq => hq.snoc _) parse h p (fun hf => ⟨by simp, hf⟩)
  | clear => exact TWf.nil _
  | remove id src dst => exact (h.mono (fun q hq => hq.snoc _)).filter _

theorem runFrom_TWf (parse : UpperParse) (ops pre : List Op) (r : Streams) (h : TWf (Arr pre) r) :
    TWf (Arr (pre ++ ops)) (ops.foldl (fun r o => (opStep parse r o).1) r) := by
  induction ops generalizing pre r with
  | nil => simpa using h
  | cons o ops ih =>
    have := ih (pre ++ [o]) _ (opStep_TWf parse h o)
    simpa [List.append_assoc] using this

/-- **the invariant holds after every session** -/
theorem reach_TWf (parse : UpperParse) (ops : List Op) : TWf (Arr ops) (reach parse ops) := by
  have := runFrom_TWf parse ops [] [] (TWf.nil _)
  simpa [reach] using this

end Tins.Reasm
