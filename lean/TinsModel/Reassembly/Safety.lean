import TinsModel.Reassembly.AllHistories
/-
  Helper lemmas for C08, part 8: what `process` does in ANY reachable state on ANY packet — the five ways through the
  function, with what each of them certifies.
-/
namespace Tins.Reasm

/-- what a completed reassembly certifies about the stream it was built from, in a session whose fragment packets
    satisfy `A`: the stored fragments cover `[0, total)` exactly (no gap, no overlap), every one of them is the
    (offset, payload) of a packet that arrived with this key, the one that ends at `total` arrived without
    more-fragments, the remembered header is the header of the packet stored at offset 0, and header + payload fit an
    IPv4 datagram -/
structure ExactCover (A : Pkt → Prop) (k : Key) (s : Stream) : Prop where
  tiles : Tiles 0 s.total s.frags
  arrived : ∀ f ∈ s.frags, ∃ q, A q ∧ makeKey q.hdr = k ∧ fragOfPkt q = f
  last : ∃ q, A q ∧ makeKey q.hdr = k ∧ q.hdr.flags % 2 = 0 ∧ fragOfPkt q ∈ s.frags ∧
         extractOffset q.hdr + q.inner.bytes.length = s.total
  first : ∃ q, A q ∧ makeKey q.hdr = k ∧ extractOffset q.hdr = 0 ∧ fragOfPkt q ∈ s.frags ∧ s.first = q.hdr
  fits : hdrSize s.first + s.total ≤ 65535

/-- the concatenation `allocate_pdu` hands to the upper-layer parser -/
def Stream.concat (s : Stream) : Bytes := (s.frags.map (·.payload)).flatten

theorem complete_has_first {A : Pkt → Prop} {k : Key} {s : Stream} (hs : SWf A k s) (hc : isComplete s = true) :
    ∃ q, A q ∧ makeKey q.hdr = k ∧ extractOffset q.hdr = 0 ∧ fragOfPkt q ∈ s.frags ∧ s.first = q.hdr := by
  obtain ⟨_, _, f, rest, hfr, hf0⟩ := (isComplete_iff s).mp hc
  exact hs.first ⟨f, by rw [hfr]; simp, hf0⟩

/-- `is_complete` + a successful `allocate_pdu` loop = exact cover; the buffer is the concatenation, `total` bytes long -/
theorem complete_alloc_exact {A : Pkt → Prop} {k : Key} {s : Stream} (hs : SWf A k s) (hc : isComplete s = true)
    {buf : Bytes} (ha : allocBuf s = some buf) : ExactCover A k s ∧ buf = s.concat ∧ buf.length = s.total := by
  obtain ⟨hend, hrecv, _⟩ := (isComplete_iff s).mp hc
  obtain ⟨hfit, hloop⟩ := (allocBuf_some_iff s buf).mp ha
  obtain ⟨hcont, hbuf⟩ := (allocLoop_some_iff 0 [] s.frags buf).mp hloop
  have htiles : Tiles 0 s.total s.frags :=
    (tiles_iff_contiguous 0 s.total s.frags).mpr ⟨hcont, by rw [← hrecv, hs.recv]; omega⟩
  obtain ⟨q, hq, hk, hmf, hin, ht⟩ := hs.tot hend
  refine ⟨⟨htiles, hs.prov, ⟨q, hq, hk, hmf, hin, ht.symm⟩, complete_has_first hs hc, hfit⟩, ?_, ?_⟩
  · simpa [Stream.concat] using hbuf
  · have := htiles.length
    simp only [List.nil_append] at hbuf
    rw [hbuf, this]; omega

/-- the `corrupt` branch (`allocate_pdu` returns 0) is taken exactly when the byte count matched although the stored
    fragments do not cover `[0, total)` exactly, or when the datagram would be longer than 65535 bytes -/
theorem alloc_none_iff (s : Stream) (hc : isComplete s = true) (hrecv : s.received = fragLens s.frags) :
    allocBuf s = none ↔ (¬ Tiles 0 s.total s.frags ∨ hdrSize s.first + s.total > 65535) := by
  obtain ⟨_, hrt, _⟩ := (isComplete_iff s).mp hc
  constructor
  · intro ha
    by_cases hfit : hdrSize s.first + s.total > 65535
    · exact .inr hfit
    · left
      intro ht
      have hcont := ((tiles_iff_contiguous 0 s.total s.frags).mp ht).1
      have := (allocLoop_some_iff 0 [] s.frags _).mpr ⟨hcont, rfl⟩
      have h2 := (allocBuf_some_iff s _).mpr ⟨by omega, this⟩
      rw [ha] at h2; simp at h2
  · intro h
    cases ha : allocBuf s with
    | none => rfl
    | some buf =>
      obtain ⟨hfit, hloop⟩ := (allocBuf_some_iff s buf).mp ha
      obtain ⟨hcont, _⟩ := (allocLoop_some_iff 0 [] s.frags buf).mp hloop
      rcases h with h | h
      · exact absurd ((tiles_iff_contiguous 0 s.total s.frags).mpr ⟨hcont, by omega⟩) h
      · omega

/-- the five ways through `process`, for the table `r` reached by any session `ops` and any packet `p` -/
inductive Way (parse : UpperParse) (ops : List Op) (p : Pkt) : Streams × Pkt × Out → Prop
  /-- no IP layer, no payload, or not fragmented: nothing happens -/
  | notFragment (hf : isFragPkt p = false) : Way parse ops p (reach parse ops, p, .notFragmented)
  /-- the fragment is stored (or ignored as a duplicate offset); the stream stays open, the packet is untouched -/
  | stored (hf : isFragPkt p = true) (hc : isComplete (streamAfter (reach parse ops) p) = false) :
      Way parse ops p (alPut (reach parse ops) (makeKey p.hdr) (streamAfter (reach parse ops) p), p, .fragmented)
  /-- "the packet is corrupt": byte counts matched but there is no exact cover (or the datagram would exceed 65535
      bytes).  The stream is erased, the status is FRAGMENTED, the packet is left with the stored first header and no
      payload. -/
  | corrupt (hf : isFragPkt p = true) (hc : isComplete (streamAfter (reach parse ops) p) = true)
      (hbad : ¬ Tiles 0 (streamAfter (reach parse ops) p).total (streamAfter (reach parse ops) p).frags ∨
              hdrSize (streamAfter (reach parse ops) p).first + (streamAfter (reach parse ops) p).total > 65535)
      (hfirst : ∃ q, Arr (ops ++ [.pkt p]) q ∧ makeKey q.hdr = makeKey p.hdr ∧ extractOffset q.hdr = 0 ∧
                (streamAfter (reach parse ops) p).first = q.hdr) :
      Way parse ops p (alErase (reach parse ops) (makeKey p.hdr),
                       { p with hdr := (streamAfter (reach parse ops) p).first, inner := .none }, .fragmented)
  /-- exact cover, the upper-layer parser rejects the concatenation: the stream is erased, `malformed_packet`
      propagates, the packet is untouched -/
  | parserThrows (hf : isFragPkt p = true)
      (hx : ExactCover (Arr (ops ++ [.pkt p])) (makeKey p.hdr) (streamAfter (reach parse ops) p))
      (hlen : (streamAfter (reach parse ops) p).concat.length = (streamAfter (reach parse ops) p).total)
      (hp : parse p.hdr.proto (streamAfter (reach parse ops) p).concat = none) :
      Way parse ops p (alErase (reach parse ops) (makeKey p.hdr), p, .throwMalformed)
  /-- exact cover, parsed: REASSEMBLED -/
  | done (hf : isFragPkt p = true)
      (hx : ExactCover (Arr (ops ++ [.pkt p])) (makeKey p.hdr) (streamAfter (reach parse ops) p))
      (hlen : (streamAfter (reach parse ops) p).concat.length = (streamAfter (reach parse ops) p).total)
      (inner : Inner) (hp : parse p.hdr.proto (streamAfter (reach parse ops) p).concat = some inner) :
      Way parse ops p (alErase (reach parse ops) (makeKey p.hdr),
                       { p with hdr := { (streamAfter (reach parse ops) p).first with
                                           off := 0, flags := clearMF (streamAfter (reach parse ops) p).first.flags },
                                inner := inner }, .reassembled)

/-- **every call of `process`, after every session, goes one of the five ways** -/
theorem process_way (parse : UpperParse) (ops : List Op) (p : Pkt) :
    Way parse ops p (process parse (reach parse ops) p) := by
  have hT := reach_TWf parse ops
  by_cases hf : isFragPkt p = true
  · have hB : Arr (ops ++ [.pkt p]) p := ⟨by simp, hf⟩
    have hs := streamAfter_SWf (fun q (hq : Arr ops q) => hq.snoc (.pkt p)) hT hB
    cases hc : isComplete (streamAfter (reach parse ops) p) with
    | false =>
      rw [process_frag_open parse _ p hf hc]
      exact .stored hf hc
    | true =>
      obtain ⟨q, hq, hk, ho, _, hfi⟩ := complete_has_first hs hc
      have hproto : (streamAfter (reach parse ops) p).first.proto = p.hdr.proto := by
        rw [hfi]; have := congrArg Key.proto hk; simpa [makeKey] using this
      cases ha : allocBuf (streamAfter (reach parse ops) p) with
      | none =>
        rw [process_frag_corrupt parse _ p hf hc ha, alErase_put_self]
        exact .corrupt hf hc ((alloc_none_iff _ hc hs.recv).mp ha) ⟨q, hq, hk, ho, hfi⟩
      | some buf =>
        obtain ⟨hx, hbuf, hlen⟩ := complete_alloc_exact hs hc ha
        cases hp : parse (streamAfter (reach parse ops) p).first.proto buf with
        | none =>
          rw [process_frag_throw parse _ p hf hc ha hp, alErase_put_self]
          exact .parserThrows hf hx (by rw [← hbuf]; exact hlen) (by rw [← hbuf, ← hproto]; exact hp)
        | some inner =>
          rw [process_frag_done parse _ p hf hc ha hp, alErase_put_self]
          exact .done hf hx (by rw [← hbuf]; exact hlen) inner (by rw [← hbuf, ← hproto]; exact hp)
  · have hf' : isFragPkt p = false := by simpa using hf
    rw [process_notFrag_eq parse _ p hf']
    exact .notFragment hf'

end Tins.Reasm
