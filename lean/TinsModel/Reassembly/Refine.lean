import TinsModel.Reassembly.Lemmas
/-
  Helper lemmas for C08, part 2: the abstraction function from reference episodes to `IPv4Stream` states and the
  per-stream refinement facts (add_fragment, is_complete, allocate_pdu).
-/
namespace Tins.Reasm

/-- the stored fragment of piece `p` of `d` -/
def fragOf (d : DG) (p : Nat × Nat) : Frag := ⟨p.1, slice d.payload p.1 p.2⟩

/-- `p` is the piece that ends the datagram -/
def isLast (d : DG) (p : Nat × Nat) : Bool := p.1 + p.2 == d.payload.length

/-- the pieces of `d` held in episode `e`, in offset order -/
def held (d : DG) (e : Ep) : List (Nat × Nat) := d.pieces.filter (fun q => decide (q ∈ e.got))

/-- the `IPv4Stream` that corresponds to episode `e` of datagram `d` -/
def absStream (d : DG) (e : Ep) : Stream :=
  { frags := (held d e).map (fragOf d),
    received := ((held d e).map (·.2)).sum,
    total := if (held d e).any (isLast d) then d.payload.length else 0,
    first := e.first.getD {},
    receivedEnd := (held d e).any (isLast d) }

theorem absStream_empty (d : DG) : absStream d {} = {} := by
  have : held d {} = [] := by simp [held, List.filter_eq_nil_iff]
  simp [absStream, this]

/-! ### facts about well-formed datagrams -/

theorem DG.wf.pairwise {d : DG} (w : d.wf) : d.pieces.Pairwise (fun a b => a.1 < b.1) :=
  piecesFrom_pairwise 0 d.lens w.pos

theorem DG.wf.end_le {d : DG} (w : d.wf) {p : Nat × Nat} (hp : p ∈ d.pieces) : p.1 + p.2 ≤ d.payload.length := by
  have := piecesFrom_end_le hp
  rw [w.sum] at this; omega

theorem DG.wf.len_pos {d : DG} (w : d.wf) {p : Nat × Nat} (hp : p ∈ d.pieces) : 0 < p.2 :=
  w.pos _ (piecesFrom_len_mem hp)

theorem DG.wf.lens_ne {d : DG} (w : d.wf) : d.lens ≠ [] := by
  intro h; have := w.two; rw [h] at this; simp at this

/-- a piece at offset 0 is followed by another piece, so it carries the more-fragments bit -/
theorem DG.wf.first_not_last {d : DG} (w : d.wf) {p : Nat × Nat} (hp : p ∈ d.pieces) (h0 : p.1 = 0) :
    p.1 + p.2 < d.payload.length := by
  have htwo := w.two
  have hpos := w.pos
  have hsum := w.sum
  unfold DG.pieces at hp
  match hl : d.lens with
  | [] => rw [hl] at htwo; simp at htwo
  | [_] => rw [hl] at htwo; simp at htwo
  | l0 :: l1 :: rest =>
    rw [hl] at hp hpos hsum
    simp only [piecesFrom, List.mem_cons] at hp
    have h1 : 0 < l1 := hpos l1 (by simp)
    have h0' : 0 < l0 := hpos l0 (by simp)
    simp only [List.sum_cons] at hsum
    rcases hp with hp | hp | hp
    · subst hp; simp only; omega
    · subst hp; simp only at h0; omega
    · have := piecesFrom_ge hp; omega

/-- every piece of a well-formed datagram travels in a packet that `is_fragmented()` -/
theorem DG.wf.frag_isFragmented {d : DG} (w : d.wf) {p : Nat × Nat} (hp : p ∈ d.pieces) (ttl : Nat) :
    isFragmented (fragPkt d p ttl).hdr = true := by
  have hal := w.aligned p hp
  have hmf := w.mf0
  simp only [fragPkt, mkFragPkt, isFragmented, Bool.or_eq_true, bne_iff_ne, ne_eq, decide_eq_true_eq]
  by_cases h : p.1 + p.2 < d.payload.length
  · left; simp only [h, if_true]; omega
  · right
    have : p.1 ≠ 0 := fun h0 => h (w.first_not_last hp h0)
    omega

theorem frag_key (d : DG) (o l : Nat) (mf : Bool) (ttl : Nat) : makeKey (mkFragPkt d o l mf ttl).hdr = makeKey d.hdr := by
  simp [makeKey, mkFragPkt]

theorem DG.wf.frag_inner {d : DG} (w : d.wf) {p : Nat × Nat} (hp : p ∈ d.pieces) (ttl : Nat) :
    (fragPkt d p ttl).inner = .raw (slice d.payload p.1 p.2) := by
  have hlen := slice_length d.payload p.1 p.2 (w.end_le hp)
  have hpos := w.len_pos hp
  simp only [fragPkt, mkFragPkt, mkInner]
  have : (slice d.payload p.1 p.2).isEmpty = false := by
    cases hs : slice d.payload p.1 p.2 with
    | nil => rw [hs] at hlen; simp at hlen; omega
    | cons _ _ => rfl
  simp [this]

theorem DG.wf.frag_offset {d : DG} (w : d.wf) {p : Nat × Nat} (hp : p ∈ d.pieces) (ttl : Nat) :
    extractOffset (fragPkt d p ttl).hdr = p.1 := by
  have hal := w.aligned p hp
  have := w.end_le hp
  have := w.size
  simp only [hdrSize] at this
  simp only [extractOffset, fragPkt, mkFragPkt]
  omega

theorem DG.wf.frag_mf {d : DG} (w : d.wf) (p : Nat × Nat) (ttl : Nat) :
    ((fragPkt d p ttl).hdr.flags % 2 = 0) ↔ ¬ (p.1 + p.2 < d.payload.length) := by
  have := w.mf0
  simp only [fragPkt, mkFragPkt, decide_eq_true_eq]
  split <;> simp_all <;> omega

/-! ### `add_fragment` refines "insert the piece into the set" -/

theorem held_add_new (d : DG) (e : Ep) (p : Nat × Nat) (h : Hdr) (hn : p ∉ e.got) :
    held d (e.add p h) = d.pieces.filter (fun y => decide (y ∈ e.got) || y == p) := by
  simp only [held, Ep.add, hn, if_false]
  apply List.filter_congr
  intro y _
  by_cases h1 : y = p <;> by_cases h2 : y ∈ e.got <;> simp [h1, h2]

theorem isLast_any_insert (d : DG) (L : List (Nat × Nat)) (hL : L.Pairwise (fun a b => a.1 < b.1))
    (q : Nat × Nat → Bool) (x : Nat × Nat) (hx : x ∈ L) :
    (L.filter (fun y => q y || y == x)).any (isLast d) = ((L.filter q).any (isLast d) || isLast d x) := by
  induction L with
  | nil => simp at hx
  | cons a L ih =>
    rw [List.pairwise_cons] at hL
    rcases List.mem_cons.mp hx with rfl | hx'
    · have hnot : ∀ y ∈ L, (y == x) = false := by
        intro y hy
        have := hL.1 y hy
        simp only [beq_eq_false_iff_ne, ne_eq]
        intro h; subst h; omega
      have htail : L.filter (fun y => q y || y == x) = L.filter q := by
        apply List.filter_congr
        intro y hy; simp [hnot y hy]
      simp only [List.filter_cons, beq_self_eq_true, Bool.or_true, if_true, List.any_cons, htail]
      split
      · simp only [List.any_cons]
        cases isLast d x <;> simp
      · rw [Bool.or_comm]
    · have hne : (a == x) = false := by
        have := hL.1 x hx'
        simp only [beq_eq_false_iff_ne, ne_eq]
        intro h; subst h; omega
      have := ih hL.2 hx'
      simp only [List.filter_cons, hne, Bool.or_false]
      split
      · simp only [List.any_cons, this, Bool.or_assoc]
      · exact this

/-- **add_fragment**: on the stream that corresponds to an episode, adding the packet that carries piece `p` gives the
    stream that corresponds to the episode with `p` inserted (duplicates change nothing) -/
theorem addFragment_abs {d : DG} (w : d.wf) (e : Ep) {p : Nat × Nat} (hp : p ∈ d.pieces) (ttl : Nat) :
    addFragment (absStream d e) (fragPkt d p ttl).hdr (slice d.payload p.1 p.2) =
      absStream d (e.add p (fragPkt d p ttl).hdr) := by
  have hoff := w.frag_offset hp ttl
  have hlen := slice_length d.payload p.1 p.2 (w.end_le hp)
  have hins : insFrag (fragOf d p) ((held d e).map (fragOf d)) =
      if decide (p ∈ e.got) = true then none
      else some ((d.pieces.filter (fun y => decide (y ∈ e.got) || y == p)).map (fragOf d)) :=
    insFrag_filter (fragOf d) (fun _ => rfl) d.pieces w.pairwise (fun q => decide (q ∈ e.got)) p hp
  have hfrag : (⟨p.1, slice d.payload p.1 p.2⟩ : Frag) = fragOf d p := rfl
  unfold addFragment
  simp only [hoff, hfrag]
  have hfr : (absStream d e).frags = (held d e).map (fragOf d) := rfl
  rw [hfr, hins]
  by_cases hin : p ∈ e.got
  · simp [hin, Ep.add]
  · simp only [hin, decide_false, Bool.false_eq_true, if_false]
    have hheld := held_add_new d e p (fragPkt d p ttl).hdr hin
    have hsum : ((d.pieces.filter (fun y => decide (y ∈ e.got) || y == p)).map (·.2)).sum =
        ((held d e).map (·.2)).sum + p.2 :=
      sum_filter_insert (·.2) (fun q => decide (q ∈ e.got)) d.pieces w.pairwise p hp (by simp [hin])
    have hany : (d.pieces.filter (fun y => decide (y ∈ e.got) || y == p)).any (isLast d) =
        ((held d e).any (isLast d) || isLast d p) :=
      isLast_any_insert d d.pieces w.pairwise (fun q => decide (q ∈ e.got)) p hp
    have hmf := w.frag_mf p ttl
    have hfirst : (e.add p (fragPkt d p ttl).hdr).first = if p.1 = 0 then some (fragPkt d p ttl).hdr else e.first := by
      simp [Ep.add, hin]
    have hend := w.end_le hp
    simp only [absStream, hheld, hfirst, hsum, hany, hlen]
    by_cases hlast : p.1 + p.2 < d.payload.length
    · have hl : isLast d p = false := by simp [isLast]; omega
      have hm : ¬ ((fragPkt d p ttl).hdr.flags % 2 = 0) := fun h => (hmf.mp h) hlast
      simp only [hm, if_false, hl, Bool.or_false]
      by_cases h0 : p.1 = 0 <;> simp [h0]
    · have hl : isLast d p = true := by simp [isLast]; omega
      have hm : (fragPkt d p ttl).hdr.flags % 2 = 0 := hmf.mpr hlast
      have hT : p.1 + p.2 = d.payload.length := by omega
      simp only [hm, if_true, hl, Bool.or_true, hT]
      by_cases h0 : p.1 = 0 <;> simp [h0]

/-! ### `is_complete` -/

/-- **complete_iff_all**: the byte-count test of `is_complete` holds exactly when every piece of the partition is held -/
theorem isComplete_abs {d : DG} (w : d.wf) (e : Ep) : isComplete (absStream d e) = d.complete e := by
  have hne := w.lens_ne
  have hlens : (d.pieces.map (·.2)).sum = d.payload.length := by
    unfold DG.pieces; rw [piecesFrom_lens, w.sum]
  by_cases hall : d.complete e = true
  · -- everything is held
    have hmem : ∀ x ∈ d.pieces, decide (x ∈ e.got) = true := by
      simpa [DG.complete, List.all_eq_true] using hall
    have hheld : held d e = d.pieces := filter_eq_self_of_all _ _ hmem
    have hany : d.pieces.any (isLast d) = true := by
      have := piecesFrom_any_last 0 d.lens hne
      rw [w.sum] at this
      simpa [DG.pieces, isLast] using this
    rw [hall]
    simp only [isComplete, absStream, hheld, hany, if_true, hlens]
    unfold DG.pieces
    match hl : d.lens with
    | [] => exact absurd hl hne
    | l :: ls => simp [piecesFrom, fragOf]
  · have hall' : d.complete e = false := by simpa using hall
    rw [hall']
    -- were the stream complete, the byte counts would force every piece to be held
    cases hc : isComplete (absStream d e) with
    | false => rfl
    | true =>
      exfalso
      apply hall
      simp only [isComplete, absStream] at hc
      by_cases hany : (held d e).any (isLast d) = true
      · simp only [hany, if_true, Bool.not_true, Bool.false_or] at hc
        by_cases hrec : ((held d e).map (·.2)).sum = d.payload.length
        · have := all_of_sum_filter_eq (·.2) (fun q => decide (q ∈ e.got)) d.pieces
            (fun x hx => w.len_pos hx) (by rw [hlens]; exact hrec)
          simpa [DG.complete, List.all_eq_true] using this
        · simp [hrec] at hc
      · simp [hany] at hc

/-! ### `allocate_pdu` -/

/-- **reassembled_payload**: when every piece is held the concatenation loop succeeds and yields the original payload -/
theorem allocBuf_abs {d : DG} (w : d.wf) (e : Ep) (hall : d.complete e = true)
    (hfirst : hdrSize (e.first.getD {}) = hdrSize d.hdr) :
    allocBuf (absStream d e) = some d.payload := by
  have hmem : ∀ x ∈ d.pieces, decide (x ∈ e.got) = true := by
    simpa [DG.complete, List.all_eq_true] using hall
  have hheld : held d e = d.pieces := filter_eq_self_of_all _ _ hmem
  have hany : d.pieces.any (isLast d) = true := by
    have := piecesFrom_any_last 0 d.lens w.lens_ne
    simpa [DG.pieces, isLast, w.sum] using this
  have hsz := w.size
  have h2 : (absStream d e).total = d.payload.length := by simp [absStream, hheld, hany]
  have h1 : (absStream d e).first = e.first.getD {} := rfl
  have := allocLoop_pieces d.payload 0 d.lens [] (by rw [w.sum]; omega)
  unfold allocBuf
  rw [h1, h2, hfirst, if_neg (by omega)]
  simp only [absStream, hheld]
  unfold DG.pieces fragOf
  rw [this, w.sum]
  simp [slice_all]

end Tins.Reasm
