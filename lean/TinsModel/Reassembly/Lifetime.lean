import TinsModel.Reassembly.Safety
/-
  Helper lemmas for C08, part 9: the stream table over time.
  * independence of keys for ARBITRARY sessions (`reach_lookup_proj`, `process_snd_of_lookup`);
  * how many streams can be alive (`live_le_distinct_keys`);
  * what is alive after a history inside the property's hypothesis (`RInv`: exactly the datagrams with a non-empty,
    incomplete episode) and the leak after a late duplicate (`leak_persists`).
-/
namespace Tins.Reasm

/-! ### the table after one call, without the parser -/

/-- the stream table after `process` does not depend on the upper-layer parser -/
theorem process_table (parse : UpperParse) (r : Streams) (p : Pkt) :
    (process parse r p).1 =
      if isFragPkt p then
        if isComplete (streamAfter r p) then alErase r (makeKey p.hdr) else alPut r (makeKey p.hdr) (streamAfter r p)
      else r := by
  by_cases hf : isFragPkt p = true
  · simp only [hf, if_true]
    cases hc : isComplete (streamAfter r p) with
    | false => rw [process_frag_open parse r p hf hc]; simp
    | true =>
      simp only [if_true]
      cases ha : allocBuf (streamAfter r p) with
      | none => rw [process_frag_corrupt parse r p hf hc ha, alErase_put_self]
      | some buf =>
        cases hp : parse (streamAfter r p).first.proto buf with
        | none => rw [process_frag_throw parse r p hf hc ha hp, alErase_put_self]
        | some inner => rw [process_frag_done parse r p hf hc ha hp, alErase_put_self]
  · have hf' : isFragPkt p = false := by simpa using hf
    rw [process_notFrag_eq parse r p hf']; simp [hf']

theorem streamAfter_of_lookup {r₁ r₂ : Streams} (p : Pkt)
    (hl : alLookup r₁ (makeKey p.hdr) = alLookup r₂ (makeKey p.hdr)) : streamAfter r₁ p = streamAfter r₂ p := by
  simp only [streamAfter, hl]

/-- status and packet left behind depend on the table only through the stream of the packet's own key -/
theorem process_snd_of_lookup (parse : UpperParse) {r₁ r₂ : Streams} (p : Pkt)
    (hl : alLookup r₁ (makeKey p.hdr) = alLookup r₂ (makeKey p.hdr)) :
    (process parse r₁ p).2 = (process parse r₂ p).2 := by
  have hs := streamAfter_of_lookup p hl
  by_cases hf : isFragPkt p = true
  · cases hc : isComplete (streamAfter r₁ p) with
    | false =>
      rw [process_frag_open parse r₁ p hf hc, process_frag_open parse r₂ p hf (hs ▸ hc)]
    | true =>
      cases ha : allocBuf (streamAfter r₁ p) with
      | none =>
        rw [process_frag_corrupt parse r₁ p hf hc ha, process_frag_corrupt parse r₂ p hf (hs ▸ hc) (hs ▸ ha), hs]
      | some buf =>
        cases hp : parse (streamAfter r₁ p).first.proto buf with
        | none =>
          rw [process_frag_throw parse r₁ p hf hc ha hp,
              process_frag_throw parse r₂ p hf (hs ▸ hc) (hs ▸ ha) (hs ▸ hp)]
        | some inner =>
          rw [process_frag_done parse r₁ p hf hc ha hp,
              process_frag_done parse r₂ p hf (hs ▸ hc) (hs ▸ ha) (hs ▸ hp), hs]
  · have hf' : isFragPkt p = false := by simpa using hf
    rw [process_notFrag_eq parse r₁ p hf', process_notFrag_eq parse r₂ p hf']

/-! ### independence of keys, arbitrary sessions -/

/-- the calls of a session that can touch the stream of key `k` -/
def touches (k : Key) : Op → Bool
  | .pkt q => isFragPkt q && decide (makeKey q.hdr = k)
  | .clear => true
  | .remove _ _ _ => true

def projKey (k : Key) (ops : List Op) : List Op := ops.filter (touches k)

theorem opStep_lookup_other (parse : UpperParse) (r : Streams) (k : Key) (o : Op) (h : touches k o = false) :
    alLookup (opStep parse r o).1 k = alLookup r k := by
  cases o with
  | pkt q =>
    simp only [opStep, process_table]
    by_cases hf : isFragPkt q = true
    · have hne : makeKey q.hdr ≠ k := by simpa [touches, hf] using h
      simp only [hf, if_true]
      split
      · exact alLookup_erase_ne r hne
      · exact alLookup_put_ne r _ hne
    · simp [hf]
  | clear => simp [touches] at h
  | remove id src dst => simp [touches] at h

theorem opStep_lookup_same (parse : UpperParse) (r₁ r₂ : Streams) (k : Key) (o : Op) (h : touches k o = true)
    (hl : alLookup r₁ k = alLookup r₂ k) : alLookup (opStep parse r₁ o).1 k = alLookup (opStep parse r₂ o).1 k := by
  cases o with
  | pkt q =>
    simp only [touches, Bool.and_eq_true, decide_eq_true_eq] at h
    obtain ⟨hf, hk⟩ := h
    subst hk
    have hs := streamAfter_of_lookup q hl
    simp only [opStep, process_table, hf, if_true, hs]
    split
    · rw [alLookup_erase_self, alLookup_erase_self]
    · rw [alLookup_put_self, alLookup_put_self]
  | clear => rfl
  | remove id src dst =>
    simp only [opStep, removeStream]
    rw [alLookup_filter_key r₁ (fun k => !(k.id == id && k.src == src && k.dst == dst)),
        alLookup_filter_key r₂ (fun k => !(k.id == id && k.src == src && k.dst == dst)), hl]

theorem fold_lookup_proj (parse : UpperParse) (k : Key) (ops : List Op) (r₁ r₂ : Streams)
    (hl : alLookup r₁ k = alLookup r₂ k) :
    alLookup (ops.foldl (fun r o => (opStep parse r o).1) r₁) k =
      alLookup ((projKey k ops).foldl (fun r o => (opStep parse r o).1) r₂) k := by
  induction ops generalizing r₁ r₂ with
  | nil => exact hl
  | cons o ops ih =>
    by_cases hc : touches k o = true
    · simp only [projKey, List.filter_cons, hc, if_true, List.foldl_cons]
      exact ih _ _ (opStep_lookup_same parse r₁ r₂ k o hc hl)
    · have hc' : touches k o = false := by simpa using hc
      simp only [projKey, List.filter_cons, hc', List.foldl_cons]
      exact ih _ _ (by rw [opStep_lookup_other parse r₁ k o hc', hl])

/-- the stream of key `k` after a session is the stream of key `k` after the calls that touch `k` -/
theorem reach_lookup_proj (parse : UpperParse) (k : Key) (ops : List Op) :
    alLookup (reach parse ops) k = alLookup (reach parse (projKey k ops)) k :=
  fold_lookup_proj parse k ops [] [] rfl

/-! ### how many streams can be alive -/

def fragKeys : List Op → List Key
  | [] => []
  | .pkt q :: ops => if isFragPkt q then makeKey q.hdr :: fragKeys ops else fragKeys ops
  | _ :: ops => fragKeys ops

theorem mem_fragKeys {ops : List Op} {k : Key} : k ∈ fragKeys ops ↔ ∃ q, Arr ops q ∧ makeKey q.hdr = k := by
  induction ops with
  | nil => simp [fragKeys, Arr]
  | cons o ops ih =>
    cases o with
    | pkt p =>
      simp only [fragKeys]
      by_cases hf : isFragPkt p = true
      · simp only [hf, if_true, List.mem_cons, ih]
        constructor
        · rintro (rfl | ⟨q, hq, hk⟩)
          · exact ⟨p, ⟨by simp, hf⟩, rfl⟩
          · exact ⟨q, ⟨List.mem_cons_of_mem _ hq.1, hq.2⟩, hk⟩
        · rintro ⟨q, ⟨hq, hqf⟩, hk⟩
          rcases List.mem_cons.mp hq with he | hq
          · simp only [Op.pkt.injEq] at he; subst he; exact .inl hk.symm
          · exact .inr ⟨q, ⟨hq, hqf⟩, hk⟩
      · have hf' : isFragPkt p = false := by simpa using hf
        simp only [hf', Bool.false_eq_true, if_false, ih]
        constructor
        · rintro ⟨q, hq, hk⟩; exact ⟨q, ⟨List.mem_cons_of_mem _ hq.1, hq.2⟩, hk⟩
        · rintro ⟨q, ⟨hq, hqf⟩, hk⟩
          rcases List.mem_cons.mp hq with he | hq
          · simp only [Op.pkt.injEq] at he; subst he; exact absurd hqf hf
          · exact ⟨q, ⟨hq, hqf⟩, hk⟩
    | clear =>
      simp only [fragKeys, ih, Arr, List.mem_cons, reduceCtorEq, false_or]
    | remove a b c =>
      simp only [fragKeys, ih, Arr, List.mem_cons, reduceCtorEq, false_or]

/-- the distinct elements of a list -/
def distinct {α : Type} [DecidableEq α] : List α → List α
  | [] => []
  | k :: ks => if k ∈ distinct ks then distinct ks else k :: distinct ks

theorem mem_distinct {α : Type} [DecidableEq α] {l : List α} {k : α} : k ∈ distinct l ↔ k ∈ l := by
  induction l with
  | nil => simp [distinct]
  | cons a l ih =>
    simp only [distinct]
    split
    · rename_i h; simp only [List.mem_cons, ih]
      constructor
      · exact .inr
      · rintro (rfl | h'); exact ih.mp h; exact h'
    · simp only [List.mem_cons, ih]

theorem nodup_subset_length_le {α : Type} [DecidableEq α] {l m : List α} (hn : l.Nodup) (hs : ∀ x ∈ l, x ∈ m) :
    l.length ≤ m.length := by
  induction l generalizing m with
  | nil => simp
  | cons x l ih =>
    rw [List.nodup_cons] at hn
    have hx : x ∈ m := hs x (by simp)
    have hsub : ∀ y ∈ l, y ∈ m.erase x := by
      intro y hy
      have hne : y ≠ x := fun h => hn.1 (h ▸ hy)
      exact (List.mem_erase_of_ne hne).mpr (hs y (List.mem_cons_of_mem _ hy))
    have := ih hn.2 hsub
    rw [List.length_erase_of_mem hx] at this
    have : 0 < m.length := List.length_pos_of_mem hx
    simp only [List.length_cons]
    omega

/-- after ANY session there is at most one stream per distinct key that a fragment packet of the session carried -/
theorem live_le_distinct_keys (parse : UpperParse) (ops : List Op) :
    (reach parse ops).length ≤ (distinct (fragKeys ops)).length := by
  have hT := reach_TWf parse ops
  have := nodup_subset_length_le hT.nodup (m := distinct (fragKeys ops)) (by
    intro k hk
    obtain ⟨x, hx, rfl⟩ := List.mem_map.mp hk
    obtain ⟨hs, hne, _⟩ := hT.wf x hx
    cases hfr : x.2.frags with
    | nil => exact absurd hfr hne
    | cons f rest =>
      obtain ⟨q, hq, hkq, _⟩ := hs.prov f (by rw [hfr]; simp)
      exact mem_distinct.mpr (mem_fragKeys.mpr ⟨q, hq, hkq⟩))
  simpa using this

/-! ### inside the property's hypothesis: what is alive, and the leak -/

/-- invariant of the reference state: one episode per datagram, each non-empty and incomplete -/
def RInv (σ : RefState) : Prop :=
  (σ.map (·.1)).Nodup ∧ ∀ x ∈ σ, x.2.got ≠ [] ∧ x.1.complete x.2 = false

theorem RInv_nil : RInv [] := ⟨by simp, by simp⟩

theorem RInv.filter {σ : RefState} (h : RInv σ) (q : DG × Ep → Bool) : RInv (σ.filter q) :=
  ⟨List.Nodup.sublist (List.Sublist.map _ List.filter_sublist) h.1, fun x hx => h.2 x (List.mem_filter.mp hx).1⟩

theorem Ep.add_got_ne (e : Ep) (p : Nat × Nat) (h : Hdr) : (e.add p h).got ≠ [] := by
  unfold Ep.add
  split
  · rename_i hin; intro he; rw [he] at hin; simp at hin
  · simp

theorem refStep_RInv (parse : UpperParse) {σ : RefState} (h : RInv σ) (ev : Ev) : RInv (refStep parse σ ev).1 := by
  cases ev with
  | frag d p ttl =>
    simp only [refStep, refFrag]
    split
    · split <;> exact h.filter _
    · rename_i hc
      refine ⟨?_, ?_⟩
      · simp only [alPut, List.map_cons, List.nodup_cons]
        refine ⟨?_, (h.filter _).1⟩
        intro hm
        obtain ⟨x, hx, hk⟩ := List.mem_map.mp hm
        have := (List.mem_filter.mp hx).2
        simp [hk] at this
      · intro x hx
        simp only [alPut, List.mem_cons] at hx
        rcases hx with rfl | hx
        · exact ⟨Ep.add_got_ne _ _ _, by simpa using hc⟩
        · exact (h.filter _).2 x hx
  | other pkt => exact h
  | clear => exact RInv_nil
  | remove id src dst => exact h.filter _

theorem final_RInv (parse : UpperParse) (evs : List Ev) (σ : RefState) (h : RInv σ) :
    RInv (finalWith (refStep parse) σ evs) := by
  induction evs generalizing σ with
  | nil => exact h
  | cons e es ih => exact ih _ (refStep_RInv parse h e)

/-- events that leave datagram `d` alone: no fragment of `d`, no `clear_streams`, no `remove_stream` of its
    identification and address pair -/
def leavesAlone (d : DG) : Ev → Bool
  | .frag d' _ _ => decide (d' ≠ d)
  | .other _ => true
  | .clear => false
  | .remove id src dst => !(d.hdr.id == id && d.hdr.src == src && d.hdr.dst == dst)

theorem refStep_lookup_alone (parse : UpperParse) (σ : RefState) (d : DG) (ev : Ev) (h : leavesAlone d ev = true) :
    alLookup (refStep parse σ ev).1 d = alLookup σ d := by
  cases ev with
  | frag d' p ttl =>
    exact refStep_lookup_other parse σ d _ (by simpa [concerns, leavesAlone] using h)
  | other pkt => rfl
  | clear => simp [leavesAlone] at h
  | remove id src dst =>
    simp only [refStep]
    rw [alLookup_filter_key σ (fun k => !(k.hdr.id == id && k.hdr.src == src && k.hdr.dst == dst))]
    simp only [leavesAlone] at h
    simp [h]

theorem final_lookup_alone (parse : UpperParse) (d : DG) (evs : List Ev) (σ : RefState)
    (h : ∀ e ∈ evs, leavesAlone d e = true) : alLookup (finalWith (refStep parse) σ evs) d = alLookup σ d := by
  induction evs generalizing σ with
  | nil => rfl
  | cons e es ih =>
    simp only [finalWith]
    rw [ih _ (fun x hx => h x (List.mem_cons_of_mem _ hx)), refStep_lookup_alone parse σ d e (h e (by simp))]

theorem finalWith_append {σ : Type} (step : σ → Ev → σ × Obs) (s : σ) (a b : List Ev) :
    finalWith step s (a ++ b) = finalWith step (finalWith step s a) b := by
  induction a generalizing s with
  | nil => rfl
  | cons x a ih => simp [finalWith, ih]

/-- one piece of a well-formed datagram is never the whole datagram -/
theorem DG.wf.single_incomplete {d : DG} (w : d.wf) (q : Nat × Nat) (h : Hdr) :
    d.complete (({} : Ep).add q h) = false := by
  have hpw := w.pairwise
  have htwo := w.two
  unfold DG.pieces at hpw
  cases hl : d.lens with
  | nil => rw [hl] at htwo; simp at htwo
  | cons a rest =>
    cases rest with
    | nil => rw [hl] at htwo; simp at htwo
    | cons b rest' =>
      rw [hl] at hpw
      simp only [piecesFrom, List.pairwise_cons] at hpw
      have hlt := hpw.1 (0 + a, b) (by simp)
      simp only [DG.complete, DG.pieces, hl, piecesFrom, Ep.add, List.not_mem_nil, if_false, List.all_cons,
        List.mem_singleton, Bool.and_eq_false_iff, decide_eq_false_iff_not]
      by_cases h1 : (0, a) = q
      · right; left; intro h2; rw [← h1] at h2; simp at h2; omega
      · left; exact h1

/-- **the leak.**  Inside the property's hypothesis: once datagram `d` has no open reassembly (for instance right after
    it was completed), one more copy of any of its pieces — a late duplicate — opens a stream that holds exactly that
    piece, and the stream is still there after ANY further traffic that does not concern `d` (no fragment of `d`, no
    `clear_streams`, no `remove_stream` of its identification and addresses): nothing in the interface ever releases it. -/
theorem leak_persists {F : List DG} (hF : Family F) (parse : UpperParse) (pre : List Ev) (hpre : ∀ e ∈ pre, e.ok F)
    (d : DG) (hd : d ∈ F) (q : Nat × Nat) (hq : q ∈ d.pieces) (ttl : Nat)
    (hclosed : alLookup (finalWith (refStep parse) [] pre) d = none)
    (post : List Ev) (hpost : ∀ e ∈ post, e.ok F ∧ leavesAlone d e = true) :
    alLookup (finalWith (modelStep parse) [] (pre ++ Ev.frag d q ttl :: post)) (makeKey d.hdr) =
      some (absStream d (({} : Ep).add q (fragPkt d q ttl).hdr)) := by
  have hall : ∀ e ∈ pre ++ Ev.frag d q ttl :: post, e.ok F := by
    intro e he
    rcases List.mem_append.mp he with he | he
    · exact hpre e he
    · rcases List.mem_cons.mp he with rfl | he
      · exact ⟨hd, hq⟩
      · exact (hpost e he).1
  obtain ⟨_, hfin, hinv⟩ := run_refines hF parse _ hall [] (SInv_nil F)
  have habs : absState ([] : RefState) = [] := rfl
  rw [habs] at hfin
  rw [hfin]
  have hinj : ∀ x ∈ finalWith (refStep parse) [] (pre ++ Ev.frag d q ttl :: post),
      makeKey x.1.hdr = makeKey d.hdr → x.1 = d := fun x hx hk => hF.keys _ (hinv x hx).1 _ hd hk
  rw [alLookup_abs _ d hinj, finalWith_append]
  simp only [finalWith]
  rw [final_lookup_alone parse d post _ (fun e he => (hpost e he).2)]
  simp only [refStep, refFrag, hclosed, Option.getD_none, (hF.wf d hd).single_incomplete, Bool.false_eq_true,
    if_false, alLookup_put_self, Option.map_some]

/-- the reference state right after an event that completed `d` (REASSEMBLED or the parser's exception) has no
    open reassembly of `d` -/
theorem closed_after_completion (parse : UpperParse) (σ : RefState) (d : DG) (p : Nat × Nat) (ttl : Nat)
    (h : d.complete (((alLookup σ d).getD {}).add p (fragPkt d p ttl).hdr) = true) :
    alLookup (refStep parse σ (.frag d p ttl)).1 d = none := by
  simp only [refStep, refFrag, h, if_true]
  split <;> exact alLookup_erase_self σ d

end Tins.Reasm
