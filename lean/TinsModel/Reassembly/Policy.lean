import TinsModel.Reassembly.Spec
/-
  Reference for ARBITRARY sessions (no hypothesis on the packets): what `IPv4Reassembler` is documented to do with
  whatever arrives, stated over *sets* of accepted fragments instead of the sorted vector and the running counters of
  the implementation.  Per reassembly key (RFC 791: identification, source, destination, protocol):

  * **acceptance** — a fragment is accepted unless a fragment with the same offset was accepted before (whatever its
    length or content): first come, first kept;
  * **total length** — RFC 791's TDL: the end (`offset + length`) of the most recently accepted fragment that has
    more-fragments clear;
  * **completion attempt** — as soon as the number of accepted bytes equals TDL and a fragment at offset 0 is held;
  * **outcome of the attempt** — the accepted fragments, sorted by offset, must cover `[0, TDL)` exactly (no gap, no
    overlap) and header + TDL must fit 65535 bytes: then REASSEMBLED with the first fragment's header (offset and
    more-fragments cleared) over the parse of the concatenation (or the parser's `malformed_packet`); otherwise the
    set is dropped as corrupt, FRAGMENTED, the packet left with the first header and no payload.  Either way the
    reassembly of that key starts afresh.
-/
namespace Tins.Reasm

/-- `process` takes the fragment path: there is an IP layer with a payload and `is_fragmented()` -/
def isFragPkt (p : Pkt) : Bool := p.hasIP && !p.inner.isNone && isFragmented p.hdr

/-- what is remembered of one key -/
structure PEp where
  /-- accepted fragments, newest first -/
  acc : List Frag := []
  /-- RFC 791 TDL: end of the most recently accepted fragment without more-fragments -/
  tdl : Option Nat := none
  /-- header of the accepted fragment at offset 0 -/
  first : Option Hdr := none
deriving DecidableEq, Repr

def PEp.add (e : PEp) (h : Hdr) (payload : Bytes) : PEp :=
  let off := extractOffset h
  if e.acc.any (fun g => g.off == off) then e
  else { acc := ⟨off, payload⟩ :: e.acc,
         tdl := if h.flags % 2 = 0 then some (off + payload.length) else e.tdl,
         first := if off = 0 then some h else e.first }

/-- accepted bytes -/
def PEp.count (e : PEp) : Nat := (e.acc.map (·.payload.length)).sum

def PEp.complete (e : PEp) : Bool :=
  match e.tdl with
  | none => false
  | some T => e.count == T && e.acc.any (fun g => g.off == 0)

/-- insertion by offset -/
def insSorted (f : Frag) : List Frag → List Frag
  | [] => [f]
  | g :: r => if f.off > g.off then g :: insSorted f r else f :: g :: r

def sortFrags (acc : List Frag) : List Frag := acc.foldr insSorted []

/-- the fragments cover `[a, b)` exactly, in this order -/
def tilesB (a b : Nat) : List Frag → Bool
  | [] => a == b
  | f :: r => f.off == a && tilesB (f.off + f.payload.length) b r

/-- the reassembled payload: the accepted fragments, sorted by offset, if they cover `[0, TDL)` exactly and the
    datagram fits 65535 bytes -/
def PEp.buffer (e : PEp) : Option Bytes :=
  match e.tdl with
  | none => none
  | some T =>
    if hdrSize (e.first.getD {}) + T > 65535 then none
    else if tilesB 0 T (sortFrags e.acc) then some ((sortFrags e.acc).map (·.payload)).flatten
    else none

abbrev PState := List (Key × PEp)

def polProcess (parse : UpperParse) (σ : PState) (p : Pkt) : PState × Pkt × Out :=
  if !isFragPkt p then (σ, p, .notFragmented) else
  let k := makeKey p.hdr
  let e := ((alLookup σ k).getD {}).add p.hdr p.inner.bytes
  if !e.complete then (alPut σ k e, p, .fragmented) else
  match e.buffer with
  | none => (alErase σ k, { p with hdr := e.first.getD {}, inner := .none }, .fragmented)
  | some buf =>
    match parse p.hdr.proto buf with
    | none => (alErase σ k, p, .throwMalformed)
    | some inner => (alErase σ k, { p with hdr := resultHdr (e.first.getD {}), inner := inner }, .reassembled)

/-- `clear_streams`, `remove_stream` -/
def polClear (_ : PState) : PState := []
def polRemove (σ : PState) (id src dst : Nat) : PState :=
  σ.filter (fun x => !(x.1.id == id && x.1.src == src && x.1.dst == dst))

end Tins.Reasm
