import TinsModel.Reassembly.Lifetime
/-
  Helper lemmas for C08, part 10: the code-shaped model (sorted vector, running counters) refines the policy reference
  of TinsModel/Reassembly/Policy.lean (sets of accepted fragments) for ARBITRARY sessions.
-/
namespace Tins.Reasm

/-! ### sorting -/

theorem insFrag_eq_insSorted {f : Frag} {L L' : List Frag} (h : insFrag f L = some L') : L' = insSorted f L := by
  induction L generalizing L' with
  | nil => simp only [insFrag, Option.some.injEq] at h; subst h; rfl
  | cons g r ih =>
    rcases insFrag_some_cons h with ⟨hgt, R', hR, rfl⟩ | ⟨hlt, rfl⟩
    · simp only [insSorted, hgt, if_true, ih hR]
    · have : ¬ f.off > g.off := by omega
      simp only [insSorted, this, if_false]

/-- offsets of the accepted fragments are pairwise different -/
def PInv (e : PEp) : Prop := (e.acc.map (·.off)).Nodup

theorem sortFrags_facts (acc : List Frag) (hn : (acc.map (·.off)).Nodup) :
    sortedFrags (sortFrags acc) ∧ (∀ g, g ∈ sortFrags acc ↔ g ∈ acc) ∧ fragLens (sortFrags acc) = fragLens acc := by
  induction acc with
  | nil => simp [sortFrags, sortedFrags, fragLens]
  | cons f acc ih =>
    simp only [List.map_cons, List.nodup_cons] at hn
    obtain ⟨hs, hm, hl⟩ := ih hn.2
    have hnone : insFrag f (sortFrags acc) ≠ none := by
      intro h
      obtain ⟨g, hg, hgo⟩ := (insFrag_none_iff hs).mp h
      exact hn.1 (List.mem_map.mpr ⟨g, (hm g).mp hg, hgo⟩)
    cases hi : insFrag f (sortFrags acc) with
    | none => exact absurd hi hnone
    | some L' =>
      have he : sortFrags (f :: acc) = L' := by
        rw [insFrag_eq_insSorted hi]; rfl
      rw [he]
      refine ⟨insFrag_sorted hs hi, ?_, ?_⟩
      · intro g; rw [insFrag_mem hi g, hm g]; simp
      · rw [insFrag_lens hi, hl]; simp [fragLens]; omega

/-! ### the abstraction -/

/-- the `IPv4Stream` that holds what the policy reference remembers -/
def absP (e : PEp) : Stream :=
  { frags := sortFrags e.acc, received := e.count, total := e.tdl.getD 0, first := e.first.getD {},
    receivedEnd := e.tdl.isSome }

theorem absP_empty : absP {} = {} := rfl

theorem PEp.add_inv {e : PEp} (h : PInv e) (hd : Hdr) (payload : Bytes) : PInv (e.add hd payload) := by
  unfold PEp.add
  simp only
  split
  · exact h
  · rename_i hany
    simp only [PInv, List.map_cons, List.nodup_cons]
    refine ⟨?_, h⟩
    intro hm
    obtain ⟨g, hg, hgo⟩ := List.mem_map.mp hm
    apply hany
    simp only [List.any_eq_true, beq_iff_eq]
    exact ⟨g, hg, hgo⟩

/-- `add_fragment` is "accept unless the offset is taken" -/
theorem addFragment_absP {e : PEp} (hi : PInv e) (h : Hdr) (payload : Bytes) :
    addFragment (absP e) h payload = absP (e.add h payload) := by
  obtain ⟨hs, hm, hl⟩ := sortFrags_facts e.acc hi
  rw [addFragment_eq]
  have hfr : (absP e).frags = sortFrags e.acc := rfl
  by_cases hany : (e.acc.any (fun g => g.off == extractOffset h)) = true
  · have hnone : insFrag ⟨extractOffset h, payload⟩ (absP e).frags = none := by
      rw [hfr, insFrag_none_iff hs]
      simp only [List.any_eq_true, beq_iff_eq] at hany
      obtain ⟨g, hg, hgo⟩ := hany
      exact ⟨g, (hm g).mpr hg, hgo⟩
    simp only [hnone, PEp.add, hany, if_true]
  · have hsome : ∃ L', insFrag ⟨extractOffset h, payload⟩ (absP e).frags = some L' := by
      cases hc : insFrag ⟨extractOffset h, payload⟩ (absP e).frags with
      | some L' => exact ⟨L', rfl⟩
      | none =>
        rw [hfr, insFrag_none_iff hs] at hc
        obtain ⟨g, hg, hgo⟩ := hc
        exfalso; apply hany
        simp only [List.any_eq_true, beq_iff_eq]
        exact ⟨g, (hm g).mp hg, hgo⟩
    obtain ⟨L', hL⟩ := hsome
    have hsort : L' = sortFrags (⟨extractOffset h, payload⟩ :: e.acc) := by
      rw [insFrag_eq_insSorted hL]; rfl
    rw [hL]
    have hany' : (e.acc.any (fun g => g.off == extractOffset h)) = false := by simpa using hany
    have hadd : e.add h payload = PEp.mk (⟨extractOffset h, payload⟩ :: e.acc)
         (if h.flags % 2 = 0 then some (extractOffset h + payload.length) else e.tdl)
         (if extractOffset h = 0 then some h else e.first) := by
      simp only [PEp.add, hany', Bool.false_eq_true, if_false]
    rw [hadd]
    simp only [absP, hsort, PEp.count, List.map_cons, List.sum_cons]
    by_cases hmf : h.flags % 2 = 0 <;> by_cases h0 : extractOffset h = 0 <;>
      simp [hmf, h0, Nat.add_comm]

theorem sorted_head_zero {f : Frag} {r : List Frag} (hs : sortedFrags (f :: r)) :
    (f.off == 0) = (f :: r).any (fun g => g.off == 0) := by
  unfold sortedFrags at hs
  rw [List.pairwise_cons] at hs
  simp only [List.any_cons]
  by_cases h0 : f.off = 0
  · simp [h0]
  · have : r.any (fun g => g.off == 0) = false := by
      rw [List.any_eq_false]
      intro g hg
      have := hs.1 g hg
      simp only [beq_iff_eq]; omega
    simp [h0, this]

/-- `is_complete` is "accepted bytes = TDL and offset 0 held" -/
theorem isComplete_absP {e : PEp} (hi : PInv e) : isComplete (absP e) = e.complete := by
  obtain ⟨hs, hm, _⟩ := sortFrags_facts e.acc hi
  have hany : (sortFrags e.acc).any (fun g => g.off == 0) = e.acc.any (fun g => g.off == 0) := by
    rw [Bool.eq_iff_iff]
    simp only [List.any_eq_true]
    constructor
    · rintro ⟨g, hg, h⟩; exact ⟨g, (hm g).mp hg, h⟩
    · rintro ⟨g, hg, h⟩; exact ⟨g, (hm g).mpr hg, h⟩
  unfold isComplete PEp.complete
  cases ht : e.tdl with
  | none => simp [absP, ht]
  | some T =>
    have h1 : (absP e).receivedEnd = true := by simp [absP, ht]
    have h2 : (absP e).total = T := by simp [absP, ht]
    have h3 : (absP e).received = e.count := rfl
    have h4 : (absP e).frags = sortFrags e.acc := rfl
    simp only [h1, h2, h3, h4, Bool.not_true, Bool.false_or]
    by_cases hc : e.count = T
    · simp only [hc, bne_self_eq_false, Bool.false_eq_true, if_false, beq_self_eq_true, Bool.true_and]
      rw [← hany]
      cases hL : sortFrags e.acc with
      | nil => rfl
      | cons f r => rw [hL] at hs; exact sorted_head_zero hs
    · have : (e.count != T) = true := by simpa using hc
      have h' : (e.count == T) = false := by simpa using hc
      simp [this, h']

theorem tilesB_iff (a b : Nat) (L : List Frag) : tilesB a b L = true ↔ Tiles a b L := by
  induction L generalizing a with
  | nil => simp [tilesB, Tiles]
  | cons f r ih => simp [tilesB, Tiles, ih]

/-- under `is_complete`, `allocate_pdu` reaches the parser exactly on an exact cover that fits, with the concatenation -/
theorem allocBuf_absP {e : PEp} (hi : PInv e) (hc : e.complete = true) : allocBuf (absP e) = e.buffer := by
  obtain ⟨_, _, hl⟩ := sortFrags_facts e.acc hi
  unfold PEp.complete at hc
  cases ht : e.tdl with
  | none => rw [ht] at hc; simp at hc
  | some T =>
    rw [ht] at hc
    simp only [Bool.and_eq_true, beq_iff_eq] at hc
    have hcount : fragLens (sortFrags e.acc) = T := by rw [hl]; exact hc.1
    unfold allocBuf PEp.buffer
    have h2 : (absP e).total = T := by simp [absP, ht]
    have h1 : (absP e).first = e.first.getD {} := rfl
    have h4 : (absP e).frags = sortFrags e.acc := rfl
    simp only [ht, h1, h2, h4]
    split
    · rfl
    · by_cases htile : tilesB 0 T (sortFrags e.acc) = true
      · simp only [htile, if_true]
        have hcont := ((tiles_iff_contiguous 0 T _).mp ((tilesB_iff _ _ _).mp htile)).1
        have := (allocLoop_some_iff 0 [] (sortFrags e.acc) _).mpr ⟨hcont, rfl⟩
        simpa using this
      · simp only [htile, Bool.false_eq_true, if_false]
        cases ha : allocLoop 0 [] (sortFrags e.acc) with
        | none => rfl
        | some buf =>
          exfalso; apply htile
          obtain ⟨hcont, _⟩ := (allocLoop_some_iff 0 [] _ buf).mp ha
          exact (tilesB_iff _ _ _).mpr ((tiles_iff_contiguous 0 T _).mpr ⟨hcont, by omega⟩)

/-! ### the table -/

def absPState (σ : PState) : Streams := σ.map (fun x => (x.1, absP x.2))

@[simp] theorem absPState_length (σ : PState) : (absPState σ).length = σ.length := by simp [absPState]

def PSInv (σ : PState) : Prop := ∀ x ∈ σ, PInv x.2

theorem alLookup_absP (σ : PState) (k : Key) : alLookup (absPState σ) k = (alLookup σ k).map absP := by
  induction σ with
  | nil => rfl
  | cons a σ ih =>
    obtain ⟨k', e⟩ := a
    simp only [absPState, List.map_cons, alLookup] at ih ⊢
    split
    · rfl
    · exact ih

theorem alErase_absP (σ : PState) (k : Key) : alErase (absPState σ) k = absPState (alErase σ k) := by
  simp only [alErase, absPState, List.filter_map]
  rfl

theorem alPut_absP (σ : PState) (k : Key) (e : PEp) : alPut (absPState σ) k (absP e) = absPState (alPut σ k e) := by
  simp only [alPut, alErase_absP]
  rfl

theorem streamAfter_absP {σ : PState} (hσ : PSInv σ) (p : Pkt) :
    streamAfter (absPState σ) p = absP (((alLookup σ (makeKey p.hdr)).getD {}).add p.hdr p.inner.bytes) ∧
    PInv (((alLookup σ (makeKey p.hdr)).getD {}).add p.hdr p.inner.bytes) := by
  have hinv : PInv ((alLookup σ (makeKey p.hdr)).getD {}) := by
    cases hl : alLookup σ (makeKey p.hdr) with
    | none => simp [PInv]
    | some e => exact hσ _ (alLookup_mem hl)
  refine ⟨?_, PEp.add_inv hinv _ _⟩
  unfold streamAfter
  rw [alLookup_absP]
  have : ((alLookup σ (makeKey p.hdr)).map absP).getD {} = absP ((alLookup σ (makeKey p.hdr)).getD {}) := by
    cases alLookup σ (makeKey p.hdr) <;> rfl
  rw [this, addFragment_absP hinv]

theorem PSInv.erase {σ : PState} (h : PSInv σ) (k : Key) : PSInv (alErase σ k) :=
  fun x hx => h x (alErase_subset _ _ x hx)

theorem PSInv.put {σ : PState} (h : PSInv σ) (k : Key) {e : PEp} (he : PInv e) : PSInv (alPut σ k e) := by
  intro x hx
  simp only [alPut, List.mem_cons] at hx
  rcases hx with rfl | hx
  · exact he
  · exact h.erase k x hx

section PolCases
variable (parse : UpperParse) (σ : PState) (p : Pkt)

theorem polProcess_open (hf : isFragPkt p = true)
    (hc : (((alLookup σ (makeKey p.hdr)).getD {}).add p.hdr p.inner.bytes).complete = false) :
    polProcess parse σ p =
      (alPut σ (makeKey p.hdr) (((alLookup σ (makeKey p.hdr)).getD {}).add p.hdr p.inner.bytes), p, .fragmented) := by
  simp [polProcess, hf, hc]

theorem polProcess_corrupt (hf : isFragPkt p = true)
    (hc : (((alLookup σ (makeKey p.hdr)).getD {}).add p.hdr p.inner.bytes).complete = true)
    (hb : (((alLookup σ (makeKey p.hdr)).getD {}).add p.hdr p.inner.bytes).buffer = none) :
    polProcess parse σ p =
      (alErase σ (makeKey p.hdr),
       { p with hdr := (((alLookup σ (makeKey p.hdr)).getD {}).add p.hdr p.inner.bytes).first.getD {}, inner := .none },
       .fragmented) := by
  simp [polProcess, hf, hc, hb]

theorem polProcess_throw (hf : isFragPkt p = true)
    (hc : (((alLookup σ (makeKey p.hdr)).getD {}).add p.hdr p.inner.bytes).complete = true) {buf : Bytes}
    (hb : (((alLookup σ (makeKey p.hdr)).getD {}).add p.hdr p.inner.bytes).buffer = some buf)
    (hp : parse p.hdr.proto buf = none) :
    polProcess parse σ p = (alErase σ (makeKey p.hdr), p, .throwMalformed) := by
  simp [polProcess, hf, hc, hb, hp]

theorem polProcess_done (hf : isFragPkt p = true)
    (hc : (((alLookup σ (makeKey p.hdr)).getD {}).add p.hdr p.inner.bytes).complete = true) {buf : Bytes}
    (hb : (((alLookup σ (makeKey p.hdr)).getD {}).add p.hdr p.inner.bytes).buffer = some buf) {inner : Inner}
    (hp : parse p.hdr.proto buf = some inner) :
    polProcess parse σ p =
      (alErase σ (makeKey p.hdr),
       { p with hdr := resultHdr ((((alLookup σ (makeKey p.hdr)).getD {}).add p.hdr p.inner.bytes).first.getD {}),
                inner := inner }, .reassembled) := by
  simp [polProcess, hf, hc, hb, hp]

end PolCases

/-- one call of `process` on the image of a policy state is the image of the policy's step, provided the remembered
    first header carries the packet's protocol when the set completes (true in every reachable state: `TWf`) -/
theorem process_absP (parse : UpperParse) {σ : PState} (hσ : PSInv σ) (p : Pkt)
    (hproto : isFragPkt p = true → isComplete (streamAfter (absPState σ) p) = true →
      (streamAfter (absPState σ) p).first.proto = p.hdr.proto) :
    process parse (absPState σ) p =
      (absPState (polProcess parse σ p).1, (polProcess parse σ p).2) ∧ PSInv (polProcess parse σ p).1 := by
  by_cases hf : isFragPkt p = true
  · obtain ⟨hs, hinv⟩ := streamAfter_absP hσ p
    have hproto' := hproto hf
    have hcomp := isComplete_absP hinv
    cases hc : (((alLookup σ (makeKey p.hdr)).getD {}).add p.hdr p.inner.bytes).complete with
    | false =>
      rw [process_frag_open parse _ p hf (by rw [hs, hcomp, hc]), hs, alPut_absP, polProcess_open parse σ p hf hc]
      exact ⟨rfl, hσ.put _ hinv⟩
    | true =>
      have hc' : isComplete (streamAfter (absPState σ) p) = true := by rw [hs, hcomp, hc]
      have hbuf := allocBuf_absP hinv hc
      have hpr := hproto' hc'
      cases hb : (((alLookup σ (makeKey p.hdr)).getD {}).add p.hdr p.inner.bytes).buffer with
      | none =>
        rw [process_frag_corrupt parse _ p hf hc' (by rw [hs, hbuf, hb]), alErase_put_self, alErase_absP, hs,
          polProcess_corrupt parse σ p hf hc hb]
        exact ⟨rfl, hσ.erase _⟩
      | some buf =>
        have ha : allocBuf (streamAfter (absPState σ) p) = some buf := by rw [hs, hbuf, hb]
        cases hp : parse p.hdr.proto buf with
        | none =>
          rw [process_frag_throw parse _ p hf hc' ha (by rw [hpr]; exact hp), alErase_put_self, alErase_absP,
            polProcess_throw parse σ p hf hc hb hp]
          exact ⟨rfl, hσ.erase _⟩
        | some inner =>
          rw [process_frag_done parse _ p hf hc' ha (by rw [hpr]; exact hp), alErase_put_self, alErase_absP, hs,
            polProcess_done parse σ p hf hc hb hp]
          refine ⟨?_, hσ.erase _⟩
          simp [absP, resultHdr, clearMF_eq]
  · have hf' : isFragPkt p = false := by simpa using hf
    rw [process_notFrag_eq parse _ p hf']
    simp only [polProcess, hf', Bool.not_false, if_true]
    exact ⟨trivial, hσ⟩

/-! ### whole sessions -/

def polStep (parse : UpperParse) (σ : PState) : Op → PState × Option (Out × Pkt)
  | .pkt p => ((polProcess parse σ p).1, some ((polProcess parse σ p).2.2, (polProcess parse σ p).2.1))
  | .clear => (polClear σ, none)
  | .remove id src dst => (polRemove σ id src dst, none)

def polReach (parse : UpperParse) (ops : List Op) : PState := ops.foldl (fun σ o => (polStep parse σ o).1) []

def polOut (parse : UpperParse) : PState → List Op → List (Option (Out × Pkt) × Nat)
  | _, [] => []
  | σ, o :: ops => ((polStep parse σ o).2, (polStep parse σ o).1.length) :: polOut parse (polStep parse σ o).1 ops

theorem removeStream_absP (σ : PState) (id src dst : Nat) :
    removeStream (absPState σ) id src dst = absPState (polRemove σ id src dst) := by
  simp only [removeStream, polRemove, absPState, List.filter_map]
  rfl

/-- one call, from a state that is reachable by some session `pre` -/
theorem opStep_absP (parse : UpperParse) (pre : List Op) {σ : PState} (hσ : PSInv σ)
    (hr : reach parse pre = absPState σ) (o : Op) :
    opStep parse (absPState σ) o = (absPState (polStep parse σ o).1, (polStep parse σ o).2) ∧
    PSInv (polStep parse σ o).1 := by
  cases o with
  | pkt p =>
    have hpr : isFragPkt p = true → isComplete (streamAfter (absPState σ) p) = true →
        (streamAfter (absPState σ) p).first.proto = p.hdr.proto := by
      intro hf hc
      rw [← hr] at hc ⊢
      have hs := streamAfter_SWf (fun q (hq : Arr pre q) => hq.snoc (.pkt p)) (reach_TWf parse pre)
        (show Arr (pre ++ [.pkt p]) p from ⟨by simp, hf⟩)
      obtain ⟨q, _, hk, _, _, hfi⟩ := complete_has_first hs hc
      rw [hfi]; have := congrArg Key.proto hk; simpa [makeKey] using this
    obtain ⟨h1, h2⟩ := process_absP parse hσ p hpr
    simp only [opStep, polStep, h1]
    exact ⟨trivial, h2⟩
  | clear => exact ⟨rfl, by intro x hx; simp [polStep, polClear] at hx⟩
  | remove id src dst =>
    simp only [opStep, polStep, removeStream_absP]
    exact ⟨trivial, fun x hx => hσ x (List.mem_filter.mp hx).1⟩

theorem session_absP (parse : UpperParse) (ops pre : List Op) (σ : PState) (hσ : PSInv σ)
    (hr : reach parse pre = absPState σ) :
    sessionOut parse (absPState σ) ops = polOut parse σ ops ∧
    ops.foldl (fun r o => (opStep parse r o).1) (absPState σ) =
      absPState (ops.foldl (fun s o => (polStep parse s o).1) σ) := by
  induction ops generalizing pre σ with
  | nil => exact ⟨rfl, rfl⟩
  | cons o ops ih =>
    obtain ⟨h1, h2⟩ := opStep_absP parse pre hσ hr o
    have hr' : reach parse (pre ++ [o]) = absPState (polStep parse σ o).1 := by
      rw [reach_snoc, hr, h1]
    obtain ⟨i1, i2⟩ := ih (pre ++ [o]) _ h2 hr'
    simp only [sessionOut, polOut, List.foldl_cons, h1, absPState_length]
    exact ⟨by rw [i1], i2⟩

end Tins.Reasm
