import TinsModel.Reassembly.RefFacts
/-
  Helper lemmas for C08, part 6: what the reference reports for a fragment of `d` depends only on the earlier
  fragments of `d` (and on clear / remove), not on the traffic of other datagrams it is interleaved with.
-/
namespace Tins.Reasm

section AL
variable {κ σ : Type} [DecidableEq κ]

theorem alLookup_erase_ne (m : List (κ × σ)) {k k' : κ} (h : k' ≠ k) : alLookup (alErase m k') k = alLookup m k := by
  induction m with
  | nil => rfl
  | cons a m ih =>
    obtain ⟨k1, v1⟩ := a
    simp only [alErase, List.filter_cons] at ih ⊢
    by_cases h1 : k1 = k'
    · subst h1; simp only [decide_true, Bool.not_true, Bool.false_eq_true, if_false, alLookup, h]; exact ih
    · simp only [h1, decide_false, Bool.not_false, if_true, alLookup]
      split
      · rfl
      · exact ih

theorem alLookup_erase_self (m : List (κ × σ)) (k : κ) : alLookup (alErase m k) k = none := by
  induction m with
  | nil => rfl
  | cons a m ih =>
    obtain ⟨k1, v1⟩ := a
    simp only [alErase, List.filter_cons] at ih ⊢
    by_cases h1 : k1 = k
    · subst h1; simpa using ih
    · simp only [h1, decide_false, Bool.not_false, if_true, alLookup, if_false]; exact ih

theorem alLookup_put_self (m : List (κ × σ)) (k : κ) (v : σ) : alLookup (alPut m k v) k = some v := by
  simp [alPut, alLookup]

theorem alLookup_put_ne (m : List (κ × σ)) {k k' : κ} (v : σ) (h : k' ≠ k) :
    alLookup (alPut m k' v) k = alLookup m k := by
  simp only [alPut, alLookup, h, if_false]
  exact alLookup_erase_ne m h

theorem alLookup_filter_key (m : List (κ × σ)) (P : κ → Bool) (k : κ) :
    alLookup (m.filter (fun x => P x.1)) k = if P k = true then alLookup m k else none := by
  induction m with
  | nil => simp [alLookup]
  | cons a m ih =>
    obtain ⟨k1, v1⟩ := a
    simp only [List.filter_cons]
    by_cases h1 : k1 = k
    · subst h1
      by_cases hp : P k1 = true
      · simp [hp, alLookup]
      · simp only [hp, if_false, Bool.false_eq_true]; rw [ih]; simp [hp]
    · by_cases hp : P k1 = true
      · simp only [hp, if_true, alLookup, h1, if_false]; exact ih
      · simp only [hp, if_false, Bool.false_eq_true, alLookup, h1]; exact ih

end AL

/-- the events of a history that concern datagram `d`: its own fragments, and `clear` / `remove` -/
def concerns (d : DG) : Ev → Bool
  | .frag d' _ _ => decide (d' = d)
  | .other _ => false
  | .clear => true
  | .remove _ _ _ => true

def proj (d : DG) (evs : List Ev) : List Ev := evs.filter (concerns d)

/-- a step that does not concern `d` leaves the episode of `d` alone -/
theorem refStep_lookup_other (parse : UpperParse) (σ : RefState) (d : DG) (ev : Ev) (h : concerns d ev = false) :
    alLookup (refStep parse σ ev).1 d = alLookup σ d := by
  cases ev with
  | frag d' p ttl =>
    have hne : d' ≠ d := by simpa [concerns] using h
    simp only [refStep, refFrag]
    split
    · split <;> exact alLookup_erase_ne σ hne
    · exact alLookup_put_ne σ _ hne
  | other pkt => rfl
  | clear => simp [concerns] at h
  | remove id src dst => simp [concerns] at h

/-- a step that concerns `d` acts on the episode of `d` only through the episode of `d` -/
theorem refStep_lookup_same (parse : UpperParse) (σ₁ σ₂ : RefState) (d : DG) (ev : Ev) (h : concerns d ev = true)
    (hl : alLookup σ₁ d = alLookup σ₂ d) :
    alLookup (refStep parse σ₁ ev).1 d = alLookup (refStep parse σ₂ ev).1 d := by
  cases ev with
  | frag d' p ttl =>
    have : d' = d := by simpa [concerns] using h
    subst this
    simp only [refStep, refFrag, hl]
    split
    · split <;> simp [alLookup_erase_self]
    · simp [alLookup_put_self]
  | other pkt => simp [concerns] at h
  | clear => rfl
  | remove id src dst =>
    simp only [refStep]
    rw [alLookup_filter_key σ₁ (fun k => !(k.hdr.id == id && k.hdr.src == src && k.hdr.dst == dst)),
        alLookup_filter_key σ₂ (fun k => !(k.hdr.id == id && k.hdr.src == src && k.hdr.dst == dst)), hl]

theorem final_lookup_proj (parse : UpperParse) (d : DG) (evs : List Ev) (σ₁ σ₂ : RefState)
    (hl : alLookup σ₁ d = alLookup σ₂ d) :
    alLookup (finalWith (refStep parse) σ₁ evs) d = alLookup (finalWith (refStep parse) σ₂ (proj d evs)) d := by
  induction evs generalizing σ₁ σ₂ with
  | nil => exact hl
  | cons e es ih =>
    by_cases hc : concerns d e = true
    · simp only [proj, List.filter_cons, hc, if_true, finalWith]
      exact ih _ _ (refStep_lookup_same parse σ₁ σ₂ d e hc hl)
    · have hc' : concerns d e = false := by simpa using hc
      simp only [proj, List.filter_cons, hc', finalWith]
      exact ih _ _ (by rw [refStep_lookup_other parse σ₁ d e hc', hl])

/-- status and resulting packet for a fragment of `d` are determined by the episode of `d` -/
theorem refFrag_res_of_lookup (parse : UpperParse) (σ₁ σ₂ : RefState) (d : DG) (p : Nat × Nat) (pkt : Pkt)
    (hl : alLookup σ₁ d = alLookup σ₂ d) : (refFrag parse σ₁ d p pkt).2 = (refFrag parse σ₂ d p pkt).2 := by
  simp only [refFrag, hl]
  split
  · split <;> rfl
  · rfl

theorem mem_dgramsOf {evs : List Ev} {d : DG} : d ∈ dgramsOf evs ↔ ∃ p t, Ev.frag d p t ∈ evs := by
  induction evs with
  | nil => simp [dgramsOf]
  | cons e es ih =>
    cases e with
    | frag d' p' t' =>
      simp only [dgramsOf, List.mem_cons, ih]
      constructor
      · rintro (rfl | ⟨p, t, h⟩)
        · exact ⟨p', t', Or.inl rfl⟩
        · exact ⟨p, t, Or.inr h⟩
      · rintro ⟨p, t, h | h⟩
        · simp only [Ev.frag.injEq] at h; exact Or.inl h.1
        · exact Or.inr ⟨p, t, h⟩
    | other pkt => simp [dgramsOf, ih]
    | clear => simp [dgramsOf, ih]
    | remove a b c => simp [dgramsOf, ih]

end Tins.Reasm
