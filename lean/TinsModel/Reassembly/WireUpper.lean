import TinsModel.Wire.Registry
import TinsModel.Reassembly.Spec
/-
  The upper-layer parser of the reassembly model instantiated with the wire families' parsing constructors
  (definitions only, core Lean: the driver imports this file; the theorems are in Reassembly/EndToEnd.lean).
-/
namespace Tins.Reasm.E2E
open Tins Tins.Wire Tins.Reasm

/-- `Internals::pdu_from_flag(Constants::IP::e flag, buffer, size, rawpdu_on_no_match = true)` and everything the
    constructor it calls builds below itself -/
def pduFromFlag (proto : Nat) (b : Bytes) : ChainResult :=
  match Tags.classOfIpProto proto with
  | some cls => parseChain (b.length + 2) cls b
  | none => .ok [.raw b]

/-- the upper-layer parser of the reassembly model, instantiated: `none` = a constructor throws -/
def wireUpper : UpperParse := fun proto b =>
  match pduFromFlag proto b with
  | .throw _ => none
  | _ => some (if (Tags.classOfIpProto proto).isSome then .upper proto b else .raw b)

/-- the layers a payload of the reassembly model denotes -/
def layersOf : Reasm.Inner → Option (List AnyObj)
  | .none => some []
  | .raw b => some [.raw b]
  | .upper proto b => match pduFromFlag proto b with
    | .ok ls => some ls
    | _ => none

end Tins.Reasm.E2E
