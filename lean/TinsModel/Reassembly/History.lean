import TinsModel.Reassembly.Simulation
/-
  Helper lemmas for C08, part 4: whole histories.
-/
namespace Tins.Reasm

/-- the state after a history -/
def finalWith {σ : Type} (step : σ → Ev → σ × Obs) : σ → List Ev → σ
  | s, [] => s
  | s, e :: es => finalWith step (step s e).1 es

theorem runWith_append {σ : Type} (step : σ → Ev → σ × Obs) (s : σ) (pre : List Ev) (e : Ev) :
    runWith step s (pre ++ [e]) = runWith step s pre ++ [(step (finalWith step s pre) e).2] := by
  induction pre generalizing s with
  | nil => simp [runWith, finalWith]
  | cons a pre ih => simp [runWith, finalWith, ih]

/-- one event: the model step on the image of a reference state is the image of the reference step -/
theorem step_refines {F : List DG} (hF : Family F) (parse : UpperParse) (σ : RefState) (hσ : SInv F σ)
    (ev : Ev) (hok : ev.ok F) :
    modelStep parse (absState σ) ev = (absState (refStep parse σ ev).1, (refStep parse σ ev).2) ∧
    SInv F (refStep parse σ ev).1 := by
  cases ev with
  | frag d p ttl =>
    obtain ⟨hd, hp⟩ := hok
    have := process_frag hF parse σ hσ hd hp ttl
    simp only [modelStep, refStep, this.1]
    exact ⟨by simp, this.2⟩
  | other pkt =>
    have hnf : notFrag pkt = true := hok
    simp only [modelStep, refStep, process_other parse _ pkt hnf]
    exact ⟨by simp, hσ⟩
  | clear =>
    simp only [modelStep, refStep, clearStreams]
    exact ⟨rfl, SInv_nil F⟩
  | remove id src dst =>
    simp only [modelStep, refStep, removeStream_abs]
    refine ⟨by simp, ?_⟩
    intro x hx
    exact hσ x (List.mem_filter.mp hx).1

theorem run_refines {F : List DG} (hF : Family F) (parse : UpperParse) (evs : List Ev) (hev : ∀ e ∈ evs, e.ok F)
    (σ : RefState) (hσ : SInv F σ) :
    runWith (modelStep parse) (absState σ) evs = runWith (refStep parse) σ evs ∧
    finalWith (modelStep parse) (absState σ) evs = absState (finalWith (refStep parse) σ evs) ∧
    SInv F (finalWith (refStep parse) σ evs) := by
  induction evs generalizing σ with
  | nil => exact ⟨rfl, rfl, hσ⟩
  | cons e es ih =>
    have hs := step_refines hF parse σ hσ e (hev e (by simp))
    have := ih (fun x hx => hev x (List.mem_cons_of_mem _ hx)) _ hs.2
    simp only [runWith, finalWith, hs.1]
    exact ⟨by rw [this.1], this.2.1, this.2.2⟩

end Tins.Reasm
