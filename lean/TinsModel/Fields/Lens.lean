/- Bit-field lens over a header image.

   A header image of `L` bytes is represented by ONE natural number `X < 2^(8L)`:
   * big-endian view  (`Order.be`): `X` is the big-endian number of the bytes, i.e. byte `B`, bit `j` (LSB = 0) of
     the serialisation is bit `8*(L-1-B) + j` of `X`.  The hex dump of the bytes *is* `X` written in base 16.
   * little-endian view (`Order.le`): `X` is the little-endian number of the bytes: byte `B`, bit `j` is bit `8*B + j`.
   A field is a contiguous run of `w` bits starting at bit `s` of `X` (LSB-first numbering of `X`):
   RFC diagrams number bits MSB-first from the start of the header, so a field at RFC bit offset `o` is the run
   starting at `s = 8L - o - w` of the big-endian view; IEEE 802.11 numbers bits LSB-first, `s = o` in the
   little-endian view.  Core Lean only (the driver links this file). -/
namespace Tins.Fields

/-- read the `w`-bit field whose least significant bit is bit `s` -/
def getN (s w X : Nat) : Nat := (X >>> s) % 2 ^ w

/-- overwrite the `w`-bit field at `s` with `v` (reduced mod `2^w`), every other bit kept -/
def putN (s w v X : Nat) : Nat :=
  ((X >>> (s + w)) <<< (s + w)) ||| ((v % 2 ^ w) <<< s) ||| (X % 2 ^ s)

/-- byte order / bit numbering of a protocol -/
inductive Order | be | le
deriving DecidableEq, Repr, Inhabited

/-- protocol-specified position of a field: `off` is the RFC bit offset from the start of the header
    (MSB-first) for `.be`, the IEEE bit offset (LSB-first) for `.le` -/
structure FieldSpec where
  order : Order
  off : Nat
  width : Nat
deriving DecidableEq, Repr, Inhabited

/-- position of the field's least significant bit in the number `X` of an `L`-byte image -/
def FieldSpec.shift (f : FieldSpec) (L : Nat) : Nat :=
  match f.order with
  | .be => 8 * L - f.off - f.width
  | .le => f.off

def FieldSpec.fits (f : FieldSpec) (L : Nat) : Bool := f.off + f.width ≤ 8 * L && 0 < f.width

def getField (f : FieldSpec) (L X : Nat) : Nat := getN (f.shift L) f.width X
def putField (f : FieldSpec) (L v X : Nat) : Nat := putN (f.shift L) f.width v X

/-- the bits of `X` a field occupies, as a mask -/
def maskN (s w : Nat) : Nat := (2 ^ w - 1) <<< s
def FieldSpec.mask (f : FieldSpec) (L : Nat) : Nat := maskN (f.shift L) f.width

/-- two bit runs do not intersect -/
def disjointN (s w s' w' : Nat) : Bool := s + w ≤ s' || s' + w' ≤ s
def FieldSpec.disjoint (f g : FieldSpec) (L : Nat) : Bool := disjointN (f.shift L) f.width (g.shift L) g.width

/-- byte swap of a `k`-byte integer (`__builtin_bswap16/32/64`, identity for `k = 1`) -/
def bswap : Nat → Nat → Nat
  | 0, _ => 0
  | k + 1, x => (x % 256) * 256 ^ k + bswap k (x / 256)

end Tins.Fields
