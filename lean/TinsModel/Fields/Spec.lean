import TinsModel.Fields.Lens
/- Protocol-specified positions of the scalar header fields, written by hand from the RFCs / IEEE standards
   (NOT from libtins).  One `r` line per (class, field); `translator/gen_layout.py` parses these lines (rigid
   format: one row per line) to generate the correspondence harness, so the harness and the oracle use the same table.

   `off` is the bit offset of the field from the start of the header: MSB-first (RFC diagram numbering) for
   `.be` classes, LSB-first (IEEE 802.11 numbering) for `.le` classes.  `scale`: the API value `v` is stored as
   `v * scale` in the protocol field (STP timers: API unit 1 s, wire unit 1/256 s).

   Sources: RFC 791 (IP), RFC 8200 (IPv6), RFC 9293 + RFC 3168 (TCP), RFC 768 (UDP), RFC 792/4884 (ICMP),
   RFC 826 (ARP), IEEE 802.3 (Ethernet II), IEEE 802.1Q (tag), RFC 3032 (MPLS), IEEE 802.2 SNAP / RFC 1042,
   RFC 7348 (VXLAN), IEEE 802.1D §9.3 (STP BPDU), IEEE 802.11-2016 §9.2 (frame control, duration, sequence control),
   RFC 2516 (PPPoE), RFC 8415 (DHCPv6), RFC 951 (BOOTP), RFC 1035 (DNS), RFC 3550 (RTP), RFC 4302/4303 (AH/ESP),
   IEEE 802.1X (EAPOL), Linux cooked capture (SLL), RFC 4443 (ICMPv6). -/
namespace Tins.Fields

inductive Kind | num | bytes
deriving DecidableEq, Repr, Inhabited

inductive Access | rw | ro
deriving DecidableEq, Repr, Inhabited

structure Row where
  cls : String
  fld : String
  spec : FieldSpec
  kind : Kind
  access : Access
  scale : Nat
deriving DecidableEq, Repr, Inhabited

def r (c f : String) (o : Order) (off w : Nat) (k : Kind) (a : Access) (scale : Nat := 1) : Row :=
  ⟨c, f, ⟨o, off, w⟩, k, a, scale⟩

/-- a class: bit numbering, header length in bytes, and the (off, width) runs that the protocol derives from
    other data when the packet is put on the wire (lengths, checksums, header-length nibbles) -/
structure Cls where
  name : String
  order : Order
  len : Nat
  derived : List (Nat × Nat)
deriving DecidableEq, Repr, Inhabited

def c (n : String) (o : Order) (len : Nat) (derived : List (Nat × Nat)) : Cls := ⟨n, o, len, derived⟩

def classes : List Cls := [
  c "IP" .be 20 [(4, 4), (16, 16), (80, 16)],
  c "IPv6" .be 40 [(32, 16)],
  c "TCP" .be 20 [(96, 4), (128, 16)],
  c "UDP" .be 8 [(32, 16), (48, 16)],
  c "ICMP" .be 8 [(16, 16), (40, 8)],
  c "ARP" .be 28 [],
  c "EthernetII" .be 14 [],
  c "Dot1Q" .be 4 [],
  c "MPLS" .be 4 [],
  c "SNAP" .be 8 [],
  c "VXLAN" .be 8 [],
  c "STP" .be 35 [],
  c "PPPoE" .be 6 [(32, 16)],
  c "SLL" .be 16 [],
  c "Dot3" .be 14 [(96, 16)],
  c "IPSecAH" .be 12 [(8, 8)],
  c "IPSecESP" .be 8 [],
  c "DNS" .be 12 [],
  c "BootP" .be 236 [],
  c "ICMPv6" .be 8 [(16, 16)],
  c "DHCPv6" .be 4 [],
  c "Dot11" .le 10 [],
  c "Dot11Data" .le 24 [],
  c "Dot11Beacon" .le 24 [],
  c "Dot11RTS" .le 16 [],
  c "Dot11BlockAckRequest" .le 20 []
]

def rows : List Row := [
  -- RFC 791 §3.1
  r "IP" "version" .be 0 4 .num .rw,
  r "IP" "head_len" .be 4 4 .num .ro,
  r "IP" "tos" .be 8 8 .num .rw,
  r "IP" "tot_len" .be 16 16 .num .ro,
  r "IP" "id" .be 32 16 .num .rw,
  r "IP" "flags" .be 48 3 .num .rw,
  r "IP" "fragment_offset" .be 51 13 .num .rw,
  r "IP" "ttl" .be 64 8 .num .rw,
  r "IP" "protocol" .be 72 8 .num .rw,
  r "IP" "checksum" .be 80 16 .num .ro,
  r "IP" "src_addr" .be 96 32 .bytes .rw,
  r "IP" "dst_addr" .be 128 32 .bytes .rw,
  -- RFC 8200 §3
  r "IPv6" "version" .be 0 4 .num .rw,
  r "IPv6" "traffic_class" .be 4 8 .num .rw,
  r "IPv6" "flow_label" .be 12 20 .num .rw,
  r "IPv6" "payload_length" .be 32 16 .num .rw,
  r "IPv6" "next_header" .be 48 8 .num .rw,
  r "IPv6" "hop_limit" .be 56 8 .num .rw,
  r "IPv6" "src_addr" .be 64 128 .bytes .rw,
  r "IPv6" "dst_addr" .be 192 128 .bytes .rw,
  -- RFC 9293 §3.1 (12-bit flags = 4 reserved bits + CWR ECE URG ACK PSH RST SYN FIN)
  r "TCP" "sport" .be 0 16 .num .rw,
  r "TCP" "dport" .be 16 16 .num .rw,
  r "TCP" "seq" .be 32 32 .num .rw,
  r "TCP" "ack_seq" .be 64 32 .num .rw,
  r "TCP" "data_offset" .be 96 4 .num .rw,
  r "TCP" "flags" .be 100 12 .num .rw,
  r "TCP" "flag_cwr" .be 104 1 .num .rw,
  r "TCP" "flag_ece" .be 105 1 .num .rw,
  r "TCP" "flag_urg" .be 106 1 .num .rw,
  r "TCP" "flag_ack" .be 107 1 .num .rw,
  r "TCP" "flag_psh" .be 108 1 .num .rw,
  r "TCP" "flag_rst" .be 109 1 .num .rw,
  r "TCP" "flag_syn" .be 110 1 .num .rw,
  r "TCP" "flag_fin" .be 111 1 .num .rw,
  r "TCP" "window" .be 112 16 .num .rw,
  r "TCP" "checksum" .be 128 16 .num .ro,
  r "TCP" "urg_ptr" .be 144 16 .num .rw,
  -- RFC 768
  r "UDP" "sport" .be 0 16 .num .rw,
  r "UDP" "dport" .be 16 16 .num .rw,
  r "UDP" "length" .be 32 16 .num .rw,
  r "UDP" "checksum" .be 48 16 .num .ro,
  -- RFC 792, RFC 1191 (mtu), RFC 4884 (length)
  r "ICMP" "type" .be 0 8 .num .rw,
  r "ICMP" "code" .be 8 8 .num .rw,
  r "ICMP" "checksum" .be 16 16 .num .ro,
  r "ICMP" "id" .be 32 16 .num .rw,
  r "ICMP" "sequence" .be 48 16 .num .rw,
  r "ICMP" "gateway" .be 32 32 .bytes .rw,
  r "ICMP" "pointer" .be 32 8 .num .rw,
  r "ICMP" "length" .be 40 8 .num .ro,
  r "ICMP" "mtu" .be 48 16 .num .rw,
  -- RFC 826
  r "ARP" "hw_addr_format" .be 0 16 .num .rw,
  r "ARP" "prot_addr_format" .be 16 16 .num .rw,
  r "ARP" "hw_addr_length" .be 32 8 .num .rw,
  r "ARP" "prot_addr_length" .be 40 8 .num .rw,
  r "ARP" "opcode" .be 48 16 .num .rw,
  r "ARP" "sender_hw_addr" .be 64 48 .bytes .rw,
  r "ARP" "sender_ip_addr" .be 112 32 .bytes .rw,
  r "ARP" "target_hw_addr" .be 144 48 .bytes .rw,
  r "ARP" "target_ip_addr" .be 192 32 .bytes .rw,
  -- IEEE 802.3 / DIX
  r "EthernetII" "dst_addr" .be 0 48 .bytes .rw,
  r "EthernetII" "src_addr" .be 48 48 .bytes .rw,
  r "EthernetII" "payload_type" .be 96 16 .num .rw,
  -- IEEE 802.1Q tag control information + EtherType
  r "Dot1Q" "priority" .be 0 3 .num .rw,
  r "Dot1Q" "cfi" .be 3 1 .num .rw,
  r "Dot1Q" "id" .be 4 12 .num .rw,
  r "Dot1Q" "payload_type" .be 16 16 .num .rw,
  -- RFC 3032 §2.1
  r "MPLS" "label" .be 0 20 .num .rw,
  r "MPLS" "experimental" .be 20 3 .num .rw,
  r "MPLS" "bottom_of_stack" .be 23 1 .num .rw,
  r "MPLS" "ttl" .be 24 8 .num .rw,
  -- IEEE 802.2 LLC (DSAP SSAP control) + SNAP (OUI, EtherType)
  r "SNAP" "dsap" .be 0 8 .num .ro,
  r "SNAP" "ssap" .be 8 8 .num .ro,
  r "SNAP" "control" .be 16 8 .num .rw,
  r "SNAP" "org_code" .be 24 24 .num .rw,
  r "SNAP" "eth_type" .be 48 16 .num .rw,
  -- RFC 7348 §5
  r "VXLAN" "flags" .be 0 8 .num .rw,
  r "VXLAN" "vni" .be 32 24 .num .rw,
  -- IEEE 802.1D §9.3.1 configuration BPDU (timers in units of 1/256 s; the API value is whole seconds)
  r "STP" "proto_id" .be 0 16 .num .rw,
  r "STP" "proto_version" .be 16 8 .num .rw,
  r "STP" "bpdu_type" .be 24 8 .num .rw,
  r "STP" "bpdu_flags" .be 32 8 .num .rw,
  r "STP" "root_id" .be 40 64 .num .rw,
  r "STP" "root_path_cost" .be 104 32 .num .rw,
  r "STP" "bridge_id" .be 136 64 .num .rw,
  r "STP" "port_id" .be 200 16 .num .rw,
  r "STP" "msg_age" .be 216 16 .num .rw 256,
  r "STP" "max_age" .be 232 16 .num .rw 256,
  r "STP" "hello_time" .be 248 16 .num .rw 256,
  r "STP" "fwd_delay" .be 264 16 .num .rw 256,
  -- RFC 2516 §4
  r "PPPoE" "version" .be 0 4 .num .rw,
  r "PPPoE" "type" .be 4 4 .num .rw,
  r "PPPoE" "code" .be 8 8 .num .rw,
  r "PPPoE" "session_id" .be 16 16 .num .rw,
  r "PPPoE" "payload_length" .be 32 16 .num .rw,
  -- Linux cooked capture v1 (LINKTYPE_LINUX_SLL)
  r "SLL" "packet_type" .be 0 16 .num .rw,
  r "SLL" "lladdr_type" .be 16 16 .num .rw,
  r "SLL" "lladdr_len" .be 32 16 .num .rw,
  r "SLL" "address" .be 48 64 .bytes .rw,
  r "SLL" "protocol" .be 112 16 .num .rw,
  -- IEEE 802.3 MAC frame with length field
  r "Dot3" "dst_addr" .be 0 48 .bytes .rw,
  r "Dot3" "src_addr" .be 48 48 .bytes .rw,
  r "Dot3" "length" .be 96 16 .num .rw,
  -- RFC 4302 §2 (next header, payload len, 16 reserved bits, SPI, sequence number)
  r "IPSecAH" "next_header" .be 0 8 .num .rw,
  r "IPSecAH" "length" .be 8 8 .num .rw,
  r "IPSecAH" "spi" .be 32 32 .num .rw,
  r "IPSecAH" "seq_number" .be 64 32 .num .rw,
  -- RFC 4303 §2
  r "IPSecESP" "spi" .be 0 32 .num .rw,
  r "IPSecESP" "seq_number" .be 32 32 .num .rw,
  -- RFC 1035 §4.1.1 + RFC 2535 (AD, CD)
  r "DNS" "id" .be 0 16 .num .rw,
  r "DNS" "type" .be 16 1 .num .rw,
  r "DNS" "opcode" .be 17 4 .num .rw,
  r "DNS" "authoritative_answer" .be 21 1 .num .rw,
  r "DNS" "truncated" .be 22 1 .num .rw,
  r "DNS" "recursion_desired" .be 23 1 .num .rw,
  r "DNS" "recursion_available" .be 24 1 .num .rw,
  r "DNS" "z" .be 25 1 .num .rw,
  r "DNS" "authenticated_data" .be 26 1 .num .rw,
  r "DNS" "checking_disabled" .be 27 1 .num .rw,
  r "DNS" "rcode" .be 28 4 .num .rw,
  r "DNS" "questions_count" .be 32 16 .num .ro,
  r "DNS" "answers_count" .be 48 16 .num .ro,
  r "DNS" "authority_count" .be 64 16 .num .ro,
  r "DNS" "additional_count" .be 80 16 .num .ro,
  -- RFC 951 §3
  r "BootP" "opcode" .be 0 8 .num .rw,
  r "BootP" "htype" .be 8 8 .num .rw,
  r "BootP" "hlen" .be 16 8 .num .rw,
  r "BootP" "hops" .be 24 8 .num .rw,
  r "BootP" "xid" .be 32 32 .num .rw,
  r "BootP" "secs" .be 64 16 .num .rw,
  r "BootP" "padding" .be 80 16 .num .rw,
  r "BootP" "ciaddr" .be 96 32 .bytes .rw,
  r "BootP" "yiaddr" .be 128 32 .bytes .rw,
  r "BootP" "siaddr" .be 160 32 .bytes .rw,
  r "BootP" "giaddr" .be 192 32 .bytes .rw,
  -- RFC 4443 §2.1 (type, code, checksum), §4 (echo id/seq); RFC 4861 §4.2 (RA: cur hop limit, M O, router lifetime),
  --   §4.4 (NA: R S O); RFC 3775 (H), RFC 4191 (Prf); RFC 2710 (MLD maximum response delay)
  r "ICMPv6" "type" .be 0 8 .num .rw,
  r "ICMPv6" "code" .be 8 8 .num .rw,
  r "ICMPv6" "checksum" .be 16 16 .num .rw,
  r "ICMPv6" "identifier" .be 32 16 .num .rw,
  r "ICMPv6" "sequence" .be 48 16 .num .rw,
  r "ICMPv6" "router" .be 32 1 .num .rw,
  r "ICMPv6" "solicited" .be 33 1 .num .rw,
  r "ICMPv6" "override" .be 34 1 .num .rw,
  r "ICMPv6" "hop_limit" .be 32 8 .num .rw,
  r "ICMPv6" "managed" .be 40 1 .num .rw,
  r "ICMPv6" "other" .be 41 1 .num .rw,
  r "ICMPv6" "home_agent" .be 42 1 .num .rw,
  r "ICMPv6" "router_pref" .be 43 2 .num .rw,
  r "ICMPv6" "router_lifetime" .be 48 16 .num .rw,
  r "ICMPv6" "maximum_response_code" .be 32 16 .num .rw,
  -- RFC 8415 §8 client/server message header (msg-type, transaction-id); §9 relay header starts msg-type, hop-count
  r "DHCPv6" "msg_type" .be 0 8 .num .rw,
  r "DHCPv6" "hop_count" .be 8 8 .num .rw,
  r "DHCPv6" "transaction_id" .be 8 24 .num .rw,
  -- IEEE 802.11-2016 §9.2.4.1 frame control (B0..B15), duration/ID, address 1
  r "Dot11" "protocol" .le 0 2 .num .rw,
  r "Dot11" "type" .le 2 2 .num .rw,
  r "Dot11" "subtype" .le 4 4 .num .rw,
  r "Dot11" "to_ds" .le 8 1 .num .rw,
  r "Dot11" "from_ds" .le 9 1 .num .rw,
  r "Dot11" "more_frag" .le 10 1 .num .rw,
  r "Dot11" "retry" .le 11 1 .num .rw,
  r "Dot11" "power_mgmt" .le 12 1 .num .rw,
  r "Dot11" "more_data" .le 13 1 .num .rw,
  r "Dot11" "wep" .le 14 1 .num .rw,
  r "Dot11" "order" .le 15 1 .num .rw,
  r "Dot11" "duration_id" .le 16 16 .num .rw,
  r "Dot11" "addr1" .le 32 48 .bytes .rw,
  -- IEEE 802.11-2016 §9.3.2 data frames / §9.3.3 management frames: address 2, address 3, sequence control
  --   (fragment number B0..B3, sequence number B4..B15)
  r "Dot11Data" "protocol" .le 0 2 .num .rw,
  r "Dot11Data" "type" .le 2 2 .num .rw,
  r "Dot11Data" "subtype" .le 4 4 .num .rw,
  r "Dot11Data" "to_ds" .le 8 1 .num .rw,
  r "Dot11Data" "from_ds" .le 9 1 .num .rw,
  r "Dot11Data" "more_frag" .le 10 1 .num .rw,
  r "Dot11Data" "retry" .le 11 1 .num .rw,
  r "Dot11Data" "power_mgmt" .le 12 1 .num .rw,
  r "Dot11Data" "more_data" .le 13 1 .num .rw,
  r "Dot11Data" "wep" .le 14 1 .num .rw,
  r "Dot11Data" "order" .le 15 1 .num .rw,
  r "Dot11Data" "duration_id" .le 16 16 .num .rw,
  r "Dot11Data" "addr1" .le 32 48 .bytes .rw,
  r "Dot11Data" "addr2" .le 80 48 .bytes .rw,
  r "Dot11Data" "addr3" .le 128 48 .bytes .rw,
  r "Dot11Data" "frag_num" .le 176 4 .num .rw,
  r "Dot11Data" "seq_num" .le 180 12 .num .rw,
  r "Dot11Beacon" "protocol" .le 0 2 .num .rw,
  r "Dot11Beacon" "type" .le 2 2 .num .rw,
  r "Dot11Beacon" "subtype" .le 4 4 .num .rw,
  r "Dot11Beacon" "to_ds" .le 8 1 .num .rw,
  r "Dot11Beacon" "from_ds" .le 9 1 .num .rw,
  r "Dot11Beacon" "more_frag" .le 10 1 .num .rw,
  r "Dot11Beacon" "retry" .le 11 1 .num .rw,
  r "Dot11Beacon" "power_mgmt" .le 12 1 .num .rw,
  r "Dot11Beacon" "more_data" .le 13 1 .num .rw,
  r "Dot11Beacon" "wep" .le 14 1 .num .rw,
  r "Dot11Beacon" "order" .le 15 1 .num .rw,
  r "Dot11Beacon" "duration_id" .le 16 16 .num .rw,
  r "Dot11Beacon" "addr1" .le 32 48 .bytes .rw,
  r "Dot11Beacon" "addr2" .le 80 48 .bytes .rw,
  r "Dot11Beacon" "addr3" .le 128 48 .bytes .rw,
  r "Dot11Beacon" "frag_num" .le 176 4 .num .rw,
  r "Dot11Beacon" "seq_num" .le 180 12 .num .rw,
  -- §9.3.1.2 RTS: RA, TA
  r "Dot11RTS" "protocol" .le 0 2 .num .rw,
  r "Dot11RTS" "type" .le 2 2 .num .rw,
  r "Dot11RTS" "subtype" .le 4 4 .num .rw,
  r "Dot11RTS" "to_ds" .le 8 1 .num .rw,
  r "Dot11RTS" "from_ds" .le 9 1 .num .rw,
  r "Dot11RTS" "more_frag" .le 10 1 .num .rw,
  r "Dot11RTS" "retry" .le 11 1 .num .rw,
  r "Dot11RTS" "power_mgmt" .le 12 1 .num .rw,
  r "Dot11RTS" "more_data" .le 13 1 .num .rw,
  r "Dot11RTS" "wep" .le 14 1 .num .rw,
  r "Dot11RTS" "order" .le 15 1 .num .rw,
  r "Dot11RTS" "duration_id" .le 16 16 .num .rw,
  r "Dot11RTS" "addr1" .le 32 48 .bytes .rw,
  r "Dot11RTS" "target_addr" .le 80 48 .bytes .rw,
  -- §9.3.1.8 BlockAckReq: RA, TA, BAR control (libtins exposes its low nibble B0..B3), starting sequence control
  --   (fragment number B0..B3, starting sequence number B4..B15)
  r "Dot11BlockAckRequest" "protocol" .le 0 2 .num .rw,
  r "Dot11BlockAckRequest" "type" .le 2 2 .num .rw,
  r "Dot11BlockAckRequest" "subtype" .le 4 4 .num .rw,
  r "Dot11BlockAckRequest" "to_ds" .le 8 1 .num .rw,
  r "Dot11BlockAckRequest" "from_ds" .le 9 1 .num .rw,
  r "Dot11BlockAckRequest" "more_frag" .le 10 1 .num .rw,
  r "Dot11BlockAckRequest" "retry" .le 11 1 .num .rw,
  r "Dot11BlockAckRequest" "power_mgmt" .le 12 1 .num .rw,
  r "Dot11BlockAckRequest" "more_data" .le 13 1 .num .rw,
  r "Dot11BlockAckRequest" "wep" .le 14 1 .num .rw,
  r "Dot11BlockAckRequest" "order" .le 15 1 .num .rw,
  r "Dot11BlockAckRequest" "duration_id" .le 16 16 .num .rw,
  r "Dot11BlockAckRequest" "addr1" .le 32 48 .bytes .rw,
  r "Dot11BlockAckRequest" "target_addr" .le 80 48 .bytes .rw,
  r "Dot11BlockAckRequest" "bar_control" .le 128 4 .num .rw,
  r "Dot11BlockAckRequest" "fragment_number" .le 144 4 .num .rw,
  r "Dot11BlockAckRequest" "start_sequence" .le 148 12 .num .rw
]

def classOf (n : String) : Option Cls := classes.find? (·.name == n)
def rowsOf (n : String) : List Row := rows.filter (·.cls == n)
def rowOf (n f : String) : Option Row := rows.find? (fun x => x.cls == n && x.fld == f)

/-- the value `v` can be represented in the field -/
def Row.representable (x : Row) (v : Nat) : Bool := v * x.scale < 2 ^ x.spec.width

/-- specified getter / setter of a row on an `L`-byte image -/
def Row.get (x : Row) (L X : Nat) : Nat := getField x.spec L X / x.scale
def Row.put (x : Row) (L v X : Nat) : Nat := putField x.spec L (v * x.scale) X

/-- mask of the derived runs of a class -/
def Cls.derivedMask (k : Cls) : Nat :=
  k.derived.foldl (fun m (o, w) => m ||| (FieldSpec.mask ⟨k.order, o, w⟩ k.len)) 0

end Tins.Fields
