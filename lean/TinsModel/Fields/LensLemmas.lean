import TinsModel.Fields.Lens
/- Lens laws of `getN` / `putN`, proved once for all positions, widths, values and images (core Lean only). -/
namespace Tins.Fields

theorem testBit_getN (s w X i : Nat) : (getN s w X).testBit i = (decide (i < w) && X.testBit (s + i)) := by
  simp [getN, Nat.testBit_mod_two_pow, Nat.testBit_shiftRight]

theorem testBit_putN (s w v X i : Nat) :
    (putN s w v X).testBit i =
      if i < s then X.testBit i else if i < s + w then v.testBit (i - s) else X.testBit i := by
  simp only [putN, Nat.testBit_or, Nat.testBit_shiftLeft, Nat.testBit_shiftRight, Nat.testBit_mod_two_pow]
  by_cases h1 : i < s
  · have : ¬ (i ≥ s + w) := by omega
    have : ¬ (i ≥ s) := by omega
    simp [*]
  · by_cases h2 : i < s + w
    · have : ¬ (i ≥ s + w) := by omega
      have : i ≥ s := by omega
      have : i - s < w := by omega
      simp [*]
    · have : i ≥ s + w := by omega
      have : i ≥ s := by omega
      have : ¬ (i - s < w) := by omega
      have e : s + w + (i - (s + w)) = i := by omega
      simp [*]

/-- GetPut: reading a field just written gives the written value (mod the field width) -/
theorem getN_putN (s w v X : Nat) : getN s w (putN s w v X) = v % 2 ^ w := by
  apply Nat.eq_of_testBit_eq; intro i
  rw [testBit_getN, testBit_putN, Nat.testBit_mod_two_pow]
  by_cases h : i < w
  · have : ¬ (s + i < s) := by omega
    have : s + i < s + w := by omega
    have e : s + i - s = i := by omega
    simp [*]
  · simp [h]

theorem getN_putN_of_lt (s w v X : Nat) (h : v < 2 ^ w) : getN s w (putN s w v X) = v := by
  rw [getN_putN, Nat.mod_eq_of_lt h]

/-- PutGet: writing back what was read changes nothing -/
theorem putN_getN (s w X : Nat) : putN s w (getN s w X) X = X := by
  apply Nat.eq_of_testBit_eq; intro i
  rw [testBit_putN, testBit_getN]
  by_cases h1 : i < s
  · simp [h1]
  · by_cases h2 : i < s + w
    · have : i - s < w := by omega
      have e : s + (i - s) = i := by omega
      simp [*]
    · simp [*]

/-- PutPut: the second write wins -/
theorem putN_putN (s w v v' X : Nat) : putN s w v' (putN s w v X) = putN s w v' X := by
  apply Nat.eq_of_testBit_eq; intro i
  simp only [testBit_putN]
  split <;> (try split) <;> rfl

/-- frame: every bit outside the field keeps its value -/
theorem putN_frame (s w v X i : Nat) (h : i < s ∨ s + w ≤ i) : (putN s w v X).testBit i = X.testBit i := by
  rw [testBit_putN]
  split
  · rfl
  · split
    · omega
    · rfl

/-- inside the field the bits are those of the value -/
theorem putN_inside (s w v X i : Nat) (h1 : s ≤ i) (h2 : i < s + w) : (putN s w v X).testBit i = v.testBit (i - s) := by
  rw [testBit_putN]
  have : ¬ i < s := by omega
  simp [*]

/-- a field that does not intersect the written one reads the same before and after -/
theorem getN_putN_disjoint (s w s' w' v X : Nat) (h : disjointN s w s' w' = true) :
    getN s' w' (putN s w v X) = getN s' w' X := by
  apply Nat.eq_of_testBit_eq; intro i
  rw [testBit_getN, testBit_getN]
  by_cases hi : i < w'
  · have : s' + i < s ∨ s + w ≤ s' + i := by
      simp [disjointN] at h
      omega
    rw [putN_frame _ _ _ _ _ this]
  · simp [hi]

/-- writes to non-intersecting fields commute -/
theorem putN_comm (s w s' w' v v' X : Nat) (h : disjointN s w s' w' = true) :
    putN s w v (putN s' w' v' X) = putN s' w' v' (putN s w v X) := by
  apply Nat.eq_of_testBit_eq; intro i
  simp only [testBit_putN]
  simp [disjointN] at h
  split <;> split <;> (try split) <;> (try split) <;> first | rfl | omega

theorem getN_lt (s w X : Nat) : getN s w X < 2 ^ w := Nat.mod_lt _ (Nat.two_pow_pos w)

/-- the image stays inside `n` bits when the field does -/
theorem putN_lt (s w v X n : Nat) (hX : X < 2 ^ n) (h : s + w ≤ n) : putN s w v X < 2 ^ n := by
  apply Nat.lt_pow_two_of_testBit
  intro i hi
  rw [putN_frame _ _ _ _ _ (by omega)]
  exact Nat.testBit_lt_two_pow (Nat.lt_of_lt_of_le hX (Nat.pow_le_pow_right (by decide) hi))

/-- the written image differs from the old one only inside the field's mask -/
theorem putN_xor_mask (s w v X : Nat) : (putN s w v X ^^^ X) &&& maskN s w = putN s w v X ^^^ X := by
  apply Nat.eq_of_testBit_eq; intro i
  simp only [Nat.testBit_and, Nat.testBit_xor, maskN, Nat.testBit_shiftLeft, Nat.testBit_two_pow_sub_one]
  by_cases h : i < s ∨ s + w ≤ i
  · rw [putN_frame _ _ _ _ _ h]; simp
  · have : i ≥ s := by omega
    have : i - s < w := by omega
    simp [*]


/-! ### composition: a field inside a word inside the image, adjacent fields -/

/-- reading a field of a word that was read from the image = reading the field from the image -/
theorem getN_sub (s w s' w' X : Nat) (h : s + w ≤ w') : getN s w (getN s' w' X) = getN (s' + s) w X := by
  apply Nat.eq_of_testBit_eq; intro i
  simp only [testBit_getN]
  by_cases hi : i < w
  · have : s + i < w' := by omega
    simp [hi, this, Nat.add_assoc]
  · simp [hi]

/-- read a word, overwrite a field of the word, write the word back = overwrite the field in the image -/
theorem putN_sub (s w s' w' v X : Nat) (h : s + w ≤ w') :
    putN s' w' (putN s w v (getN s' w' X)) X = putN (s' + s) w v X := by
  apply Nat.eq_of_testBit_eq; intro i
  simp only [testBit_putN, testBit_getN]
  by_cases h1 : i < s'
  · have : i < s' + s := by omega
    simp [h1, this]
  · by_cases h2 : i < s' + w'
    · simp only [h1, h2, ite_true, ite_false]
      by_cases h3 : i - s' < s
      · have : i < s' + s := by omega
        have e : s' + (i - s') = i := by omega
        have : i - s' < w' := by omega
        simp [*]
      · by_cases h4 : i - s' < s + w
        · have : ¬ i < s' + s := by omega
          have : i < s' + s + w := by omega
          have e : i - s' - s = i - (s' + s) := by omega
          simp [*]
        · have : ¬ i < s' + s := by omega
          have : ¬ i < s' + s + w := by omega
          have e : s' + (i - s') = i := by omega
          have : i - s' < w' := by omega
          simp [*]
    · have : ¬ i < s' + s := by omega
      have : ¬ i < s' + s + w := by omega
      simp [*]

/-- two adjacent fields written one after the other = one write of the concatenated value -/
theorem putN_adj (s w1 w2 a b X : Nat) :
    putN (s + w1) w2 b (putN s w1 a X) = putN s (w1 + w2) (a % 2 ^ w1 + (b % 2 ^ w2) * 2 ^ w1) X := by
  apply Nat.eq_of_testBit_eq; intro i
  have hc : (a % 2 ^ w1 + (b % 2 ^ w2) * 2 ^ w1) = ((b % 2 ^ w2) <<< w1) ||| (a % 2 ^ w1) := by
    rw [Nat.add_comm, ← Nat.shiftLeft_eq, Nat.shiftLeft_add_eq_or_of_lt (Nat.mod_lt _ (Nat.two_pow_pos w1))]
  simp only [testBit_putN, hc, Nat.testBit_or, Nat.testBit_shiftLeft, Nat.testBit_mod_two_pow]
  by_cases h1 : i < s
  · have : i < s + w1 := by omega
    simp [h1, this]
  · by_cases h2 : i < s + w1
    · have : i - s < w1 := by omega
      have : ¬ (i - s ≥ w1) := by omega
      have : i < s + (w1 + w2) := by omega
      simp [*]
    · by_cases h3 : i < s + w1 + w2
      · have : i < s + (w1 + w2) := by omega
        have : ¬ (i - s < w1) := by omega
        have : i - s ≥ w1 := by omega
        have : i - s - w1 < w2 := by omega
        have e : i - (s + w1) = i - s - w1 := by omega
        simp [*]
      · have : ¬ i < s + (w1 + w2) := by omega
        simp [*]

/-- a field is the concatenation of its low part and its high part -/
theorem getN_adj (s w1 w2 X : Nat) : getN s (w1 + w2) X = getN s w1 X + getN (s + w1) w2 X * 2 ^ w1 := by
  apply Nat.eq_of_testBit_eq; intro i
  have hc : getN s w1 X + getN (s + w1) w2 X * 2 ^ w1 = (getN (s + w1) w2 X <<< w1) ||| getN s w1 X := by
    rw [Nat.add_comm, ← Nat.shiftLeft_eq, Nat.shiftLeft_add_eq_or_of_lt (getN_lt s w1 X)]
  simp only [hc, Nat.testBit_or, Nat.testBit_shiftLeft, testBit_getN]
  by_cases h1 : i < w1
  · have : i < w1 + w2 := by omega
    have : ¬ (i ≥ w1) := by omega
    simp [*]
  · by_cases h2 : i < w1 + w2
    · have : i ≥ w1 := by omega
      have : i - w1 < w2 := by omega
      have e : s + w1 + (i - w1) = s + i := by omega
      simp [*]
    · have : i ≥ w1 := by omega
      have : ¬ (i - w1 < w2) := by omega
      simp [*]

/-- only the value modulo the field width matters -/
theorem putN_congr (s w v v' X : Nat) (h : v % 2 ^ w = v' % 2 ^ w) : putN s w v X = putN s w v' X := by
  unfold putN; rw [h]

/-- versions with the sums as side conditions (literal positions) -/
theorem putN_sub' (s w s' w' t v X : Nat) (h : s + w ≤ w') (ht : t = s' + s) :
    putN s' w' (putN s w v (getN s' w' X)) X = putN t w v X := by subst ht; exact putN_sub s w s' w' v X h
theorem putN_adj' (s w1 w2 t w a b X : Nat) (ht : t = s + w1) (hw : w = w1 + w2) :
    putN t w2 b (putN s w1 a X) = putN s w (a % 2 ^ w1 + (b % 2 ^ w2) * 2 ^ w1) X := by
  subst ht; subst hw; exact putN_adj s w1 w2 a b X
theorem getN_adj' (s w1 w2 t w X : Nat) (ht : t = s + w1) (hw : w = w1 + w2) :
    getN s w X = getN s w1 X + getN t w2 X * 2 ^ w1 := by subst ht; subst hw; exact getN_adj s w1 w2 X
theorem getN_sub' (s w s' w' t X : Nat) (h : s + w ≤ w') (ht : t = s' + s) : getN s w (getN s' w' X) = getN t w X := by
  subst ht; exact getN_sub s w s' w' X h

/-! ### arithmetic forms (for `omega`) -/

theorem getN_arith (s w X : Nat) : getN s w X = X / 2 ^ s % 2 ^ w := by
  simp [getN, Nat.shiftRight_eq_div_pow]

theorem or_eq_add (a b s : Nat) (ha : a % 2 ^ s = 0) (hb : b < 2 ^ s) : a ||| b = a + b := by
  have : a = (a / 2 ^ s) <<< s := by
    rw [Nat.shiftLeft_eq]; have := Nat.div_add_mod a (2 ^ s); rw [ha] at this; rw [Nat.mul_comm]; omega
  rw [this, Nat.shiftLeft_add_eq_or_of_lt hb]

theorem putN_arith (s w v X : Nat) :
    putN s w v X = X / 2 ^ (s + w) * 2 ^ (s + w) + (v % 2 ^ w) * 2 ^ s + X % 2 ^ s := by
  unfold putN
  rw [Nat.shiftRight_eq_div_pow, Nat.shiftLeft_eq, Nat.shiftLeft_eq]
  have h1 : X % 2 ^ s < 2 ^ s := Nat.mod_lt _ (Nat.two_pow_pos s)
  have h2 : (v % 2 ^ w) * 2 ^ s + X % 2 ^ s < 2 ^ (s + w) := by
    have : v % 2 ^ w < 2 ^ w := Nat.mod_lt _ (Nat.two_pow_pos w)
    rw [Nat.pow_add]
    calc _ < (v % 2 ^ w) * 2 ^ s + 2 ^ s := by omega
      _ = (v % 2 ^ w + 1) * 2 ^ s := by rw [Nat.add_mul]; simp
      _ ≤ 2 ^ w * 2 ^ s := Nat.mul_le_mul_right _ (by omega)
      _ = 2 ^ s * 2 ^ w := Nat.mul_comm _ _
  rw [Nat.or_assoc]
  have e1 : (v % 2 ^ w) * 2 ^ s ||| X % 2 ^ s = (v % 2 ^ w) * 2 ^ s + X % 2 ^ s := by
    rw [← Nat.shiftLeft_eq, ← Nat.shiftLeft_add_eq_or_of_lt h1]
  rw [e1, ← Nat.shiftLeft_eq, ← Nat.shiftLeft_add_eq_or_of_lt h2, Nat.shiftLeft_eq, Nat.add_assoc]

/-- `x & mask` for a contiguous mask `((2^w - 1) << s)` -/
theorem and_maskN (x s w : Nat) : x &&& maskN s w = x / 2 ^ s % 2 ^ w * 2 ^ s := by
  apply Nat.eq_of_testBit_eq; intro i
  simp only [maskN, Nat.testBit_and, Nat.testBit_shiftLeft, Nat.testBit_two_pow_sub_one, ← Nat.shiftLeft_eq,
    Nat.testBit_mod_two_pow, ← Nat.shiftRight_eq_div_pow, Nat.testBit_shiftRight]
  by_cases h : i ≥ s
  · have : s + (i - s) = i := by omega
    simp [h, this, Bool.and_comm]
  · simp [h]

/-! ### byte swaps (`__builtin_bswap16/32`): arithmetic form and involution -/

theorem bswap1_eq (y : Nat) : bswap 1 y = y % 256 := by
  simp only [bswap, Nat.mul_one, Nat.add_zero, Nat.pow_zero]

theorem bswap2_eq (y : Nat) : bswap 2 y = y % 256 * 256 + y / 256 % 256 := by
  simp only [bswap, Nat.reducePow, Nat.mul_one, Nat.add_zero, Nat.pow_zero]

theorem bswap2_mod (y : Nat) : bswap 2 y % 65536 = bswap 2 y := by rw [bswap2_eq]; omega
theorem bswap2_mod_arg (y : Nat) : bswap 2 (y % 65536) = bswap 2 y := by rw [bswap2_eq, bswap2_eq]; omega
theorem bswap2_invol (y : Nat) : bswap 2 (bswap 2 y) = y % 65536 := by
  rw [bswap2_eq (bswap 2 y), bswap2_eq]
  have h1 : y % 256 < 256 := by omega
  have h2 : y / 256 % 256 < 256 := by omega
  have e : y % 65536 = (y / 256 % 256) * 256 + y % 256 := by omega
  generalize y % 256 = lo at *
  generalize y / 256 % 256 = hi at *
  have a1 : (lo * 256 + hi) / 256 = lo := by omega
  have a2 : (lo * 256 + hi) % 256 = hi := by omega
  rw [a1, a2, e]; omega

theorem bswap4_eq (y : Nat) :
    bswap 4 y = y % 256 * 16777216 + (y / 256 % 256 * 65536 + (y / 256 / 256 % 256 * 256 + y / 256 / 256 / 256 % 256)) := by
  simp only [bswap, Nat.reducePow, Nat.mul_one, Nat.add_zero, Nat.pow_zero]

theorem bswap4_mod (y : Nat) : bswap 4 y % 4294967296 = bswap 4 y := by rw [bswap4_eq]; omega
theorem bswap4_mod_arg (y : Nat) : bswap 4 (y % 4294967296) = bswap 4 y := by rw [bswap4_eq, bswap4_eq]; omega
theorem bswap4_digits' (z b0 b1 b2 b3 : Nat) (h0 : b0 < 256) (h1 : b1 < 256) (h2 : b2 < 256) (h3 : b3 < 256)
    (hz : z = b0 * 16777216 + (b1 * 65536 + (b2 * 256 + b3))) :
    bswap 4 z = b3 * 16777216 + (b2 * 65536 + (b1 * 256 + b0)) := by
  rw [bswap4_eq]
  have a0 : z % 256 = b3 := by omega
  have a1 : z / 256 % 256 = b2 := by omega
  have a2 : z / 256 / 256 % 256 = b1 := by omega
  have a3 : z / 256 / 256 / 256 % 256 = b0 := by omega
  rw [a0, a1, a2, a3]

theorem bswap4_digits (b0 b1 b2 b3 : Nat) (h0 : b0 < 256) (h1 : b1 < 256) (h2 : b2 < 256) (h3 : b3 < 256) :
    bswap 4 (b0 * 16777216 + (b1 * 65536 + (b2 * 256 + b3))) = b3 * 16777216 + (b2 * 65536 + (b1 * 256 + b0)) :=
  bswap4_digits' _ b0 b1 b2 b3 h0 h1 h2 h3 rfl

theorem bswap4_invol (y : Nat) : bswap 4 (bswap 4 y) = y % 4294967296 := by
  rw [bswap4_eq y, bswap4_digits _ _ _ _ (by omega) (by omega) (by omega) (by omega)]
  omega


/-! ### base-256 digits of a 32-bit word (omega needs help with these) -/

theorem digit_hi (a r m : Nat) (hr : r < m) : (a * m + r) / m = a := by
  have hm : 0 < m := by omega
  rw [Nat.add_comm, Nat.add_mul_div_right _ _ hm, Nat.div_eq_of_lt hr, Nat.zero_add]
theorem digit_lo (a r m : Nat) (hr : r < m) : (a * m + r) % m = r := by
  rw [Nat.add_comm, Nat.add_mul_mod_self_right, Nat.mod_eq_of_lt hr]

/-- the four bytes of a big-endian-digit word `a b c d` -/
theorem word4_b0 (a b c d : Nat) (hb : b < 256) (hc : c < 256) (hd : d < 256) :
    (a * 16777216 + (b * 65536 + (c * 256 + d))) / 16777216 = a := digit_hi a _ _ (by omega)
theorem word4_b1 (a b c d : Nat) (hb : b < 256) (hc : c < 256) (hd : d < 256) :
    (a * 16777216 + (b * 65536 + (c * 256 + d))) / 65536 % 256 = b := by
  have e : a * 16777216 + (b * 65536 + (c * 256 + d)) = (a * 256 + b) * 65536 + (c * 256 + d) := by omega
  rw [e, digit_hi _ _ _ (by omega), digit_lo _ _ _ hb]
theorem word4_b2 (a b c d : Nat) (_hb : b < 256) (hc : c < 256) (hd : d < 256) :
    (a * 16777216 + (b * 65536 + (c * 256 + d))) / 256 % 256 = c := by
  have e : a * 16777216 + (b * 65536 + (c * 256 + d)) = ((a * 256 + b) * 256 + c) * 256 + d := by omega
  rw [e, digit_hi _ _ _ hd, digit_lo _ _ _ hc]
theorem word4_b3 (a b c d : Nat) (_hb : b < 256) (_hc : c < 256) (hd : d < 256) :
    (a * 16777216 + (b * 65536 + (c * 256 + d))) % 256 = d := by
  have e : a * 16777216 + (b * 65536 + (c * 256 + d)) = ((a * 256 + b) * 256 + c) * 256 + d := by omega
  rw [e, digit_lo _ _ _ hd]
theorem word4_hi24 (a b c d : Nat) (_hb : b < 256) (_hc : c < 256) (hd : d < 256) :
    (a * 16777216 + (b * 65536 + (c * 256 + d))) / 256 = a * 65536 + (b * 256 + c) := by
  have e : a * 16777216 + (b * 65536 + (c * 256 + d)) = (a * 65536 + (b * 256 + c)) * 256 + d := by omega
  rw [e, digit_hi _ _ _ hd]

/-- every number below 2^32 is a four-digit word -/
theorem word4_exists (y : Nat) : ∃ a b c d : Nat, a < 256 ∧ b < 256 ∧ c < 256 ∧ d < 256 ∧
    y % 4294967296 = a * 16777216 + (b * 65536 + (c * 256 + d)) ∧
    bswap 4 y = d * 16777216 + (c * 65536 + (b * 256 + a)) := by
  refine ⟨y / 256 / 256 / 256 % 256, y / 256 / 256 % 256, y / 256 % 256, y % 256, by omega, by omega, by omega, by omega, by omega, ?_⟩
  rw [bswap4_eq]


/-! ### 64-bit byte swap (`__builtin_bswap64`) -/

theorem bswap8_eq (y : Nat) : bswap 8 y =
    y % 256 * 72057594037927936 + (y / 256 % 256 * 281474976710656 + (y / 256 / 256 % 256 * 1099511627776 +
    (y / 256 / 256 / 256 % 256 * 4294967296 + (y / 256 / 256 / 256 / 256 % 256 * 16777216 +
    (y / 256 / 256 / 256 / 256 / 256 % 256 * 65536 + (y / 256 / 256 / 256 / 256 / 256 / 256 % 256 * 256 +
    y / 256 / 256 / 256 / 256 / 256 / 256 / 256 % 256)))))) := by
  simp only [bswap, Nat.reducePow, Nat.mul_one, Nat.add_zero, Nat.pow_zero]

theorem bswap8_mod (y : Nat) : bswap 8 y % 18446744073709551616 = bswap 8 y := by rw [bswap8_eq]; omega
theorem bswap8_mod_arg (y : Nat) : bswap 8 (y % 18446744073709551616) = bswap 8 y := by rw [bswap8_eq, bswap8_eq]; omega

theorem bswap8_digits (b0 b1 b2 b3 b4 b5 b6 b7 : Nat) (h0 : b0 < 256) (h1 : b1 < 256) (h2 : b2 < 256) (h3 : b3 < 256)
    (h4 : b4 < 256) (h5 : b5 < 256) (h6 : b6 < 256) (h7 : b7 < 256) (z : Nat)
    (hz : z = b0 * 72057594037927936 + (b1 * 281474976710656 + (b2 * 1099511627776 + (b3 * 4294967296 + (b4 * 16777216 +
      (b5 * 65536 + (b6 * 256 + b7))))))) :
    bswap 8 z = b7 * 72057594037927936 + (b6 * 281474976710656 + (b5 * 1099511627776 + (b4 * 4294967296 + (b3 * 16777216 +
      (b2 * 65536 + (b1 * 256 + b0)))))) := by
  rw [bswap8_eq]
  have a0 : z % 256 = b7 := by omega
  have a1 : z / 256 % 256 = b6 := by omega
  have a2 : z / 256 / 256 % 256 = b5 := by omega
  have a3 : z / 256 / 256 / 256 % 256 = b4 := by omega
  have a4 : z / 256 / 256 / 256 / 256 % 256 = b3 := by omega
  have a5 : z / 256 / 256 / 256 / 256 / 256 % 256 = b2 := by omega
  have a6 : z / 256 / 256 / 256 / 256 / 256 / 256 % 256 = b1 := by omega
  have a7 : z / 256 / 256 / 256 / 256 / 256 / 256 / 256 % 256 = b0 := by omega
  rw [a0, a1, a2, a3, a4, a5, a6, a7]

theorem bswap8_invol (y : Nat) : bswap 8 (bswap 8 y) = y % 18446744073709551616 := by
  rw [bswap8_digits _ _ _ _ _ _ _ _ (by omega) (by omega) (by omega) (by omega) (by omega) (by omega) (by omega) (by omega)
    (bswap 8 y) (bswap8_eq y)]
  omega

end Tins.Fields
