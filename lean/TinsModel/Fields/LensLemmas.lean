import TinsModel.Fields.Lens
/- Lens laws of `getN` / `putN`, proved once for all positions, widths, values and images (core Lean only). -/
namespace Tins.Fields

theorem testBit_getN (s w X i : Nat) : (getN s w X).testBit i = (decide (i < w) && X.testBit (s + i)) := by
  simp [getN, Nat.testBit_mod_two_pow, Nat.testBit_shiftRight]

theorem testBit_putN (s w v X i : Nat) :
    (putN s w v X).testBit i =
      if i < s then X.testBit i else if i < s + w then v.testBit (i - s) else X.testBit i := by
  simp only [putN, Nat.testBit_or, Nat.testBit_shiftLeft, Nat.testBit_shiftRight, Nat.testBit_mod_two_pow]
  by_cases h1 : i < s
  · have : ¬ (i ≥ s + w) := by omega
    have : ¬ (i ≥ s) := by omega
    simp [*]
  · by_cases h2 : i < s + w
    · have : ¬ (i ≥ s + w) := by omega
      have : i ≥ s := by omega
      have : i - s < w := by omega
      simp [*]
    · have : i ≥ s + w := by omega
      have : i ≥ s := by omega
      have : ¬ (i - s < w) := by omega
      have e : s + w + (i - (s + w)) = i := by omega
      simp [*]

/-- GetPut: reading a field just written gives the written value (mod the field width) -/
theorem getN_putN (s w v X : Nat) : getN s w (putN s w v X) = v % 2 ^ w := by
  apply Nat.eq_of_testBit_eq; intro i
  rw [testBit_getN, testBit_putN, Nat.testBit_mod_two_pow]
  by_cases h : i < w
  · have : ¬ (s + i < s) := by omega
    have : s + i < s + w := by omega
    have e : s + i - s = i := by omega
    simp [*]
  · simp [h]

theorem getN_putN_of_lt (s w v X : Nat) (h : v < 2 ^ w) : getN s w (putN s w v X) = v := by
  rw [getN_putN, Nat.mod_eq_of_lt h]

/-- PutGet: writing back what was read changes nothing -/
theorem putN_getN (s w X : Nat) : putN s w (getN s w X) X = X := by
  apply Nat.eq_of_testBit_eq; intro i
  rw [testBit_putN, testBit_getN]
  by_cases h1 : i < s
  · simp [h1]
  · by_cases h2 : i < s + w
    · have : i - s < w := by omega
      have e : s + (i - s) = i := by omega
      simp [*]
    · simp [*]

/-- PutPut: the second write wins -/
theorem putN_putN (s w v v' X : Nat) : putN s w v' (putN s w v X) = putN s w v' X := by
  apply Nat.eq_of_testBit_eq; intro i
  simp only [testBit_putN]
  split <;> (try split) <;> rfl

/-- frame: every bit outside the field keeps its value -/
theorem putN_frame (s w v X i : Nat) (h : i < s ∨ s + w ≤ i) : (putN s w v X).testBit i = X.testBit i := by
  rw [testBit_putN]
  split
  · rfl
  · split
    · omega
    · rfl

/-- inside the field the bits are those of the value -/
theorem putN_inside (s w v X i : Nat) (h1 : s ≤ i) (h2 : i < s + w) : (putN s w v X).testBit i = v.testBit (i - s) := by
  rw [testBit_putN]
  have : ¬ i < s := by omega
  simp [*]

/-- a field that does not intersect the written one reads the same before and after -/
theorem getN_putN_disjoint (s w s' w' v X : Nat) (h : disjointN s w s' w' = true) :
    getN s' w' (putN s w v X) = getN s' w' X := by
  apply Nat.eq_of_testBit_eq; intro i
  rw [testBit_getN, testBit_getN]
  by_cases hi : i < w'
  · have : s' + i < s ∨ s + w ≤ s' + i := by
      simp [disjointN] at h
      omega
    rw [putN_frame _ _ _ _ _ this]
  · simp [hi]

/-- writes to non-intersecting fields commute -/
theorem putN_comm (s w s' w' v v' X : Nat) (h : disjointN s w s' w' = true) :
    putN s w v (putN s' w' v' X) = putN s' w' v' (putN s w v X) := by
  apply Nat.eq_of_testBit_eq; intro i
  simp only [testBit_putN]
  simp [disjointN] at h
  split <;> split <;> (try split) <;> (try split) <;> first | rfl | omega

theorem getN_lt (s w X : Nat) : getN s w X < 2 ^ w := Nat.mod_lt _ (Nat.two_pow_pos w)

/-- the image stays inside `n` bits when the field does -/
theorem putN_lt (s w v X n : Nat) (hX : X < 2 ^ n) (h : s + w ≤ n) : putN s w v X < 2 ^ n := by
  apply Nat.lt_pow_two_of_testBit
  intro i hi
  rw [putN_frame _ _ _ _ _ (by omega)]
  exact Nat.testBit_lt_two_pow (Nat.lt_of_lt_of_le hX (Nat.pow_le_pow_right (by decide) hi))

/-- the written image differs from the old one only inside the field's mask -/
theorem putN_xor_mask (s w v X : Nat) : (putN s w v X ^^^ X) &&& maskN s w = putN s w v X ^^^ X := by
  apply Nat.eq_of_testBit_eq; intro i
  simp only [Nat.testBit_and, Nat.testBit_xor, maskN, Nat.testBit_shiftLeft, Nat.testBit_two_pow_sub_one]
  by_cases h : i < s ∨ s + w ≤ i
  · rw [putN_frame _ _ _ _ _ h]; simp
  · have : i ≥ s := by omega
    have : i - s < w := by omega
    simp [*]

end Tins.Fields
