import TinsModel.Fields.Layout
import TinsModel.Gen.Layout
/- Hand-written, code-shaped models of the accessors that pack fields with shifts and masks (little-endian host
   branch of the C++).  Each function mirrors the C++ statement by statement: `ld`/`st` are host loads/stores of the
   struct member the compiler laid out (positions from the layout probe, `Gen.M.*`), `&&& ||| <<< >>>` are the C
   operators, `% 2^k` is the truncation to the C type.  Core Lean only. -/
namespace Tins.Fields.Custom
open Tins.Fields Tins.Fields.Gen.M

/-- `Endian::host_to_be<uint16_t>` = `Endian::be_to_host<uint16_t>` on the little-endian host -/
def be16 (x : Nat) : Nat := bswap 2 (x % 65536)
/-- `Endian::host_to_be<uint32_t>` = `Endian::be_to_host<uint32_t>` -/
def be32 (x : Nat) : Nat := bswap 4 (x % 4294967296)

/-- a hand-written accessor model together with the position it is claimed (and proved) to implement:
    `set v X = putN shift width (v * scale) X`, `get X = getN shift width X / scale` in the class's view -/
structure CustomAcc where
  cls : String
  fld : String
  shift : Nat
  width : Nat
  scale : Nat
  get : Nat → Nat
  set : Nat → Nat → Nat

section IP   -- src/ip.cpp, include/tins/ip.h ; sizeof(ip_header) = 20
def ldIP := memGet .be 20
def stIP := memSet .be 20
/-- `return Endian::be_to_host(header_.frag_off) & 0x1fff;` -/
def IP_get_fragment_offset (X : Nat) : Nat := be16 (ldIP IP_frag_off X) &&& 0x1fff
/-- `uint16_t value = (Endian::be_to_host(header_.frag_off) & 0xe000) | new_frag_off;
     header_.frag_off = Endian::host_to_be(value);` -/
def IP_set_fragment_offset (v X : Nat) : Nat :=
  let value := ((be16 (ldIP IP_frag_off X) &&& 0xe000) ||| v) % 65536
  stIP IP_frag_off (be16 value) X
/-- `return static_cast<Flags>(Endian::be_to_host(header_.frag_off) >> 13);` -/
def IP_get_flags (X : Nat) : Nat := be16 (ldIP IP_frag_off X) >>> 13
/-- `uint16_t value = (Endian::be_to_host(header_.frag_off) & 0x1fff) | (new_flags << 13);` -/
def IP_set_flags (v X : Nat) : Nat :=
  let value := ((be16 (ldIP IP_frag_off X) &&& 0x1fff) ||| (v <<< 13)) % 65536
  stIP IP_frag_off (be16 value) X
end IP

section IPv6   -- src/ipv6.cpp:246-268, include/tins/ipv6.h ; sizeof(ipv6_header) = 40
def ld6 := memGet .be 40
def st6 := memSet .be 40
/-- `return ((header_.traffic_class << 4) & 0xf0) | ((header_.flow_label[0] >> 4) & 0x0f);` -/
def IPv6_get_traffic_class (X : Nat) : Nat :=
  (((ld6 IPv6_traffic_class X) <<< 4) &&& 0xf0) ||| (((ld6 IPv6_flow_label_0 X) >>> 4) &&& 0x0f)
/-- `header_.traffic_class = (new_traffic_class >> 4) & 0xf;
     header_.flow_label[0] = (header_.flow_label[0] & 0x0f) | ((new_traffic_class << 4) & 0xf0);` -/
def IPv6_set_traffic_class (v X : Nat) : Nat :=
  let X1 := st6 IPv6_traffic_class ((v >>> 4) &&& 0xf) X
  st6 IPv6_flow_label_0 (((ld6 IPv6_flow_label_0 X1) &&& 0x0f) ||| ((v <<< 4) &&& 0xf0)) X1
/-- `return ((header_.flow_label[0] & 0x0f) << 16) | (header_.flow_label[1] << 8) | (header_.flow_label[2]);` -/
def IPv6_get_flow_label (X : Nat) : Nat :=
  ((((ld6 IPv6_flow_label_0 X) &&& 0x0f) <<< 16) ||| ((ld6 IPv6_flow_label_1 X) <<< 8)) ||| (ld6 IPv6_flow_label_2 X)
/-- `uint32_t value = Endian::host_to_be<uint32_t>(new_flow_label);
     header_.flow_label[2] = (value >> 24) & 0xff;  header_.flow_label[1] = (value >> 16) & 0xff;
     header_.flow_label[0] = ((value >> 8) & 0x0f) | (header_.flow_label[0] & 0xf0);` -/
def IPv6_set_flow_label (v X : Nat) : Nat :=
  let value := be32 v
  let X1 := st6 IPv6_flow_label_2 ((value >>> 24) &&& 0xff) X
  let X2 := st6 IPv6_flow_label_1 ((value >>> 16) &&& 0xff) X1
  st6 IPv6_flow_label_0 (((value >>> 8) &&& 0x0f) ||| ((ld6 IPv6_flow_label_0 X2) &&& 0xf0)) X2
end IPv6

section MPLS   -- src/mpls.cpp:74-92, include/tins/mpls.h ; sizeof = 4
def ldM := memGet .be 4
def stM := memSet .be 4
/-- `return (Endian::be_to_host(header_.label_high) << 4) | ((header_.label_low_exp_and_bottom >> 4) & 0xf);` -/
def MPLS_get_label (X : Nat) : Nat :=
  ((be16 (ldM MPLS_label_high X)) <<< 4) ||| (((ldM MPLS_label_low_exp_and_bottom X) >>> 4) &&& 0xf)
/-- `const uint16_t label_high = Endian::host_to_be<uint16_t>(label_value >> 4);
     const uint8_t label_low = (label_value << 4) & 0xf0;
     header_.label_high = label_high & 0xffff;
     header_.label_low_exp_and_bottom = (header_.label_low_exp_and_bottom & 0x0f) | label_low;` -/
def MPLS_set_label (v X : Nat) : Nat :=
  let label_high := be16 (v >>> 4)
  let label_low := ((v <<< 4) &&& 0xf0) % 256
  let X1 := stM MPLS_label_high (label_high &&& 0xffff) X
  stM MPLS_label_low_exp_and_bottom (((ldM MPLS_label_low_exp_and_bottom X1) &&& 0x0f) ||| label_low) X1
/-- `return (header_.label_low_exp_and_bottom >> 1) & 0x7;` -/
def MPLS_get_experimental (X : Nat) : Nat := ((ldM MPLS_label_low_exp_and_bottom X) >>> 1) &&& 0x7
/-- `header_.label_low_exp_and_bottom = (header_.label_low_exp_and_bottom & 0xf1) | (value << 1);` -/
def MPLS_set_experimental (v X : Nat) : Nat :=
  stM MPLS_label_low_exp_and_bottom (((ldM MPLS_label_low_exp_and_bottom X) &&& 0xf1) ||| (v <<< 1)) X
/-- `return header_.label_low_exp_and_bottom & 0x1;` -/
def MPLS_get_bottom_of_stack (X : Nat) : Nat := (ldM MPLS_label_low_exp_and_bottom X) &&& 0x1
/-- `header_.label_low_exp_and_bottom = (header_.label_low_exp_and_bottom & 0xfe) | value;` -/
def MPLS_set_bottom_of_stack (v X : Nat) : Nat :=
  stM MPLS_label_low_exp_and_bottom (((ldM MPLS_label_low_exp_and_bottom X) &&& 0xfe) ||| v) X
end MPLS

section Dot1Q   -- src/dot1q.cpp:77-84 ; sizeof = 4
/-- `return header_.idL | (header_.idH << 8);` -/
def Dot1Q_get_id (X : Nat) : Nat := (memGet .be 4 Dot1Q_idL X) ||| ((memGet .be 4 Dot1Q_idH X) <<< 8)
/-- `header_.idL = new_id & 0xff;  header_.idH = new_id >> 8;` -/
def Dot1Q_set_id (v X : Nat) : Nat :=
  let X1 := memSet .be 4 Dot1Q_idL (v &&& 0xff) X
  memSet .be 4 Dot1Q_idH (v >>> 8) X1
end Dot1Q

section SNAP   -- src/snap.cpp:66-82, include/tins/snap.h ; sizeof = 8
def ldS := memGet .be 8
def stS := memSet .be 8
/-- `return (snap_.control_org) & 0xff;` -/
def SNAP_get_control (X : Nat) : Nat := (ldS SNAP_control_org X) &&& 0xff
/-- `snap_.control_org = (snap_.control_org & 0xffffff00) | (new_control);` -/
def SNAP_set_control (v X : Nat) : Nat := stS SNAP_control_org (((ldS SNAP_control_org X) &&& 0xffffff00) ||| v) X
/-- `return Endian::be_to_host<uint32_t>(snap_.control_org & 0xffffff00);` -/
def SNAP_get_org_code (X : Nat) : Nat := be32 ((ldS SNAP_control_org X) &&& 0xffffff00)
/-- `snap_.control_org = Endian::host_to_be<uint32_t>(new_org) | control();` -/
def SNAP_set_org_code (v X : Nat) : Nat := stS SNAP_control_org ((be32 v) ||| (SNAP_get_control X)) X
end SNAP

section VXLAN   -- include/tins/vxlan.h ; sizeof = 8
/-- `return Endian::be_to_host(header_.flags) >> 24;` -/
def VXLAN_get_flags (X : Nat) : Nat := (be32 (memGet .be 8 VXLAN_flags X)) >>> 24
/-- `header_.flags = (header_.flags & Endian::host_to_be<uint32_t>(0x00ffffff)) |
                     Endian::host_to_be<uint32_t>(static_cast<uint32_t>(new_flags) << 24);` -/
def VXLAN_set_flags (v X : Nat) : Nat :=
  memSet .be 8 VXLAN_flags (((memGet .be 8 VXLAN_flags X) &&& be32 0x00ffffff) ||| be32 (v <<< 24)) X
/-- `return Endian::be_to_host(header_.vni) >> 8;` -/
def VXLAN_get_vni (X : Nat) : Nat := (be32 (memGet .be 8 VXLAN_vni X)) >>> 8
/-- `header_.vni = (header_.vni & Endian::host_to_be<uint32_t>(0x000000ff)) |
                   Endian::host_to_be<uint32_t>(static_cast<uint32_t>(new_vni) << 8);` -/
def VXLAN_set_vni (v X : Nat) : Nat :=
  memSet .be 8 VXLAN_vni (((memGet .be 8 VXLAN_vni X) &&& be32 0x000000ff) ||| be32 (v <<< 8)) X
end VXLAN

section TCP   -- src/tcp.cpp:224-296 ; sizeof = 20
def ldT := memGet .be 20
def stT := memSet .be 20
/-- `return (header_.res1 << 8) | header_.flags_8;` -/
def TCP_get_flags (X : Nat) : Nat := ((ldT TCP_res1 X) <<< 8) ||| (ldT TCP_flags_8 X)
/-- `header_.res1 = (value >> 8) & 0x0f;  header_.flags_8 = value & 0xff;` -/
def TCP_set_flags (v X : Nat) : Nat :=
  let X1 := stT TCP_res1 ((v >>> 8) &&& 0x0f) X
  stT TCP_flags_8 (v &&& 0xff) X1
/-- `get_flag(F)`: `return header_.flags.f;`   `set_flag(F, value)`: `header_.flags.f = value;` -/
def TCP_get_flag (m : Mem) (X : Nat) : Nat := ldT m X
def TCP_set_flag (m : Mem) (v X : Nat) : Nat := stT m v X
end TCP

section STP   -- src/stp.cpp:60-135 ; sizeof = 35
def ldP := memGet .be 35
def stP := memSet .be 35
/-- `return Endian::be_to_host(header_.msg_age) / 256;` -/
def STP_get_timer (m : Mem) (X : Nat) : Nat := be16 (ldP m X) / 256
/-- `header_.msg_age = Endian::host_to_be<uint16_t>(new_msg_age * 256);` -/
def STP_set_timer (m : Mem) (v X : Nat) : Nat := stP m (be16 (v * 256)) X
/-- `bpdu_id_type convert(const pvt_bpdu_id&)`: `result(id.priority, 0, id.id); result.ext_id = (id.ext_id << 8) | id.ext_idL;`
    the harness encodes a `bpdu_id_type` as the 64-bit number `priority:4 | ext_id:12 | id:48` -/
def STP_get_id (prio ext extL mac : Mem) (X : Nat) : Nat :=
  let priority := ldP prio X
  let ext_id := ((ldP ext X) <<< 8) ||| (ldP extL X)
  let id := getN (8 * (35 - mac.byteOff) - 48) 48 X       -- address_type(id.id): the six bytes in memory order
  (priority <<< 60) ||| (ext_id <<< 48) ||| id
/-- `pvt_bpdu_id convert(const bpdu_id_type&)`: `result.priority = id.priority; id.id.copy(result.id);
     result.ext_id = (id.ext_id >> 8) & 0xf; result.ext_idL = id.ext_id & 0xff;` then `header_.root_id = result` -/
def STP_set_id (prio ext extL mac : Mem) (v X : Nat) : Nat :=
  let priority := v >>> 60
  let ext_id := (v >>> 48) &&& 0xfff
  let id := v % 2 ^ 48
  let X1 := stP prio priority X
  let X2 := putN (8 * (35 - mac.byteOff) - 48) 48 id X1
  let X3 := stP ext ((ext_id >>> 8) &&& 0xf) X2
  stP extL (ext_id &&& 0xff) X3
end STP

section DHCPv6   -- src/dhcpv6.cpp:174-179, include/tins/dhcpv6.h:464 ; uint8_t header_data_[4]
/-- `return (header_data_[1] << 16) | (header_data_[2] << 8) | header_data_[3];` -/
def DHCPv6_get_transaction_id (X : Nat) : Nat :=
  (((memGet .be 4 DHCPv6_header_data__1 X) <<< 16) ||| ((memGet .be 4 DHCPv6_header_data__2 X) <<< 8)) |||
    (memGet .be 4 DHCPv6_header_data__3 X)
/-- `uint32_t id_32 = id; header_data_[1] = id_32 >> 16; header_data_[2] = id_32 >> 8; header_data_[3] = id_32 & 0xff;` -/
def DHCPv6_set_transaction_id (v X : Nat) : Nat :=
  let id_32 := v % 4294967296
  let X1 := memSet .be 4 DHCPv6_header_data__1 (id_32 >>> 16) X
  let X2 := memSet .be 4 DHCPv6_header_data__2 (id_32 >>> 8) X1
  memSet .be 4 DHCPv6_header_data__3 (id_32 &&& 0xff) X2
end DHCPv6

section Dot11   -- little-endian view; src/dot11/dot11_mgmt.cpp:85-100, dot11_data.cpp:99-113, dot11_control.cpp:166-233
/-- `return w & 0xf;`  (frag_num, bar_control, fragment_number; `w` a host uint16_t member) -/
def LE16_get_low4 (m : Mem) (X : Nat) : Nat := (memGet .le 0 m X) &&& 0xf
/-- `w = v | (w & 0xfff0);` -/
def LE16_set_low4 (m : Mem) (v X : Nat) : Nat := memSet .le 0 m ((v ||| ((memGet .le 0 m X) &&& 0xfff0)) % 65536) X
/-- `return (w >> 4) & 0xfff;`  (seq_num, start_sequence) -/
def LE16_get_hi12 (m : Mem) (X : Nat) : Nat := ((memGet .le 0 m X) >>> 4) &&& 0xfff
/-- `w = (v << 4) | (w & 0xf);` -/
def LE16_set_hi12 (m : Mem) (v X : Nat) : Nat := memSet .le 0 m (((v <<< 4) ||| ((memGet .le 0 m X) &&& 0xf)) % 65536) X
end Dot11


section LLC   -- little-endian view; src/llc.cpp:88-172, include/tins/llc.h:206-309
/-- `return header_.dsap & 0x01;`  (group, response) -/
def LLC_get_lowbit (m : Mem) (X : Nat) : Nat := (memGet .le 0 m X) &&& 0x01
/-- `if (value) { header_.dsap |= 0x01; } else { header_.dsap &= 0xFE; }` -/
def LLC_set_lowbit (m : Mem) (v X : Nat) : Nat :=
  if v ≠ 0 then memSet .le 0 m ((memGet .le 0 m X) ||| 0x01) X else memSet .le 0 m ((memGet .le 0 m X) &&& 0xFE) X
/-- `ty` is the cached format member `type_` (INFORMATION = 0, SUPERVISORY = 1, UNNUMBERED = 3), fixed per variant.
    `return (type() == INFORMATION) ? control_field.info.send_seq_num : 0;` -/
def LLC_get_send_seq (ty : Nat) (m : Mem) (X : Nat) : Nat := if ty = 0 then memGet .le 0 m X else 0
/-- `if (type() != LLC::INFORMATION) return;  control_field.info.send_seq_num = seq_number;` -/
def LLC_set_send_seq (ty : Nat) (m : Mem) (v X : Nat) : Nat := if ty ≠ 0 then X else memSet .le 0 m v X
/-- `switch (type()) { case INFORMATION: return info.recv_seq_num; case SUPERVISORY: return super.recv_seq_num; default: return 0; }`
    (`m` is the member of the variant's own control format; both structs put it in the same place) -/
def LLC_get_recv_seq (ty : Nat) (m : Mem) (X : Nat) : Nat := if ty = 0 ∨ ty = 1 then memGet .le 0 m X else 0
/-- `switch (type()) { case UNNUMBERED: return; case INFORMATION: info.recv_seq_num = v; break; case SUPERVISORY: super.recv_seq_num = v; }` -/
def LLC_set_recv_seq (ty : Nat) (m : Mem) (v X : Nat) : Nat := if ty = 3 then X else memSet .le 0 m v X
/-- `poll_final()`: every format has the bit; `control_field.<fmt>.poll_final_bit = value;` -/
def LLC_get_poll_final (m : Mem) (X : Nat) : Nat := memGet .le 0 m X
def LLC_set_poll_final (m : Mem) (v X : Nat) : Nat := memSet .le 0 m v X
/-- `if (type() == SUPERVISORY) return control_field.super.supervisory_func; return 0;` -/
def LLC_get_super_func (ty : Nat) (m : Mem) (X : Nat) : Nat := if ty = 1 then memGet .le 0 m X else 0
/-- `if (type() != LLC::SUPERVISORY) return;  control_field.super.supervisory_func = new_func;` -/
def LLC_set_super_func (ty : Nat) (m : Mem) (v X : Nat) : Nat := if ty ≠ 1 then X else memSet .le 0 m v X
/-- `if (type() == UNNUMBERED) return (control_field.unnumbered.mod_func1 << 3) + control_field.unnumbered.mod_func2; return 0;` -/
def LLC_get_modifier (ty : Nat) (m1 m2 : Mem) (X : Nat) : Nat :=
  if ty = 3 then ((memGet .le 0 m1 X) <<< 3) + memGet .le 0 m2 X else 0
/-- `if (type() != LLC::UNNUMBERED) return;  mod_func1 = mod_func >> 3;  mod_func2 = mod_func & 0x07;` -/
def LLC_set_modifier (ty : Nat) (m1 m2 : Mem) (v X : Nat) : Nat :=
  if ty ≠ 3 then X else memSet .le 0 m2 (v &&& 0x07) (memSet .le 0 m1 (v >>> 3) X)
/-- the two bit groups seen through the one public pair (harness expressions):
    `_hi`: `modifier_function() >> 3`, `modifier_function((v << 3) | (modifier_function() & 7))` -/
def LLC_get_modifier_hi (ty : Nat) (m1 m2 : Mem) (X : Nat) : Nat := (LLC_get_modifier ty m1 m2 X) >>> 3
def LLC_set_modifier_hi (ty : Nat) (m1 m2 : Mem) (v X : Nat) : Nat :=
  LLC_set_modifier ty m1 m2 ((v <<< 3) ||| ((LLC_get_modifier ty m1 m2 X) &&& 7)) X
/-- `_lo`: `modifier_function() & 7`, `modifier_function((modifier_function() & 0x18) | v)` -/
def LLC_get_modifier_lo (ty : Nat) (m1 m2 : Mem) (X : Nat) : Nat := (LLC_get_modifier ty m1 m2 X) &&& 7
def LLC_set_modifier_lo (ty : Nat) (m1 m2 : Mem) (v X : Nat) : Nat :=
  LLC_set_modifier ty m1 m2 (((LLC_get_modifier ty m1 m2 X) &&& 0x18) ||| v) X
end LLC

section ICMPExtensionsStructure   -- src/icmp_extension.cpp:122-134, include/tins/icmp_extension.h:214-227 ; uint16_t version_and_reserved_
def ldE := memGet .be 2
def stE := memSet .be 2
/-- `uint16_t value = Endian::be_to_host(version_and_reserved_); return (value >> 12) & 0xf;` -/
def ICMPExt_get_version (X : Nat) : Nat := ((be16 (ldE ICMPExtensionsStructure_version_and_reserved_ X)) >>> 12) &&& 0xf
/-- `uint16_t current_value = Endian::be_to_host(version_and_reserved_); current_value &= 0xfff; current_value |= value << 12;
     version_and_reserved_ = Endian::host_to_be(current_value);` -/
def ICMPExt_set_version (v X : Nat) : Nat :=
  let current := (((be16 (ldE ICMPExtensionsStructure_version_and_reserved_ X)) &&& 0xfff) ||| (v <<< 12)) % 65536
  stE ICMPExtensionsStructure_version_and_reserved_ (be16 current) X
/-- `return value & 0xfff;` -/
def ICMPExt_get_reserved (X : Nat) : Nat := (be16 (ldE ICMPExtensionsStructure_version_and_reserved_ X)) &&& 0xfff
/-- `current_value &= 0xf000; current_value |= value;` -/
def ICMPExt_set_reserved (v X : Nat) : Nat :=
  let current := (((be16 (ldE ICMPExtensionsStructure_version_and_reserved_ X)) &&& 0xf000) ||| v) % 65536
  stE ICMPExtensionsStructure_version_and_reserved_ (be16 current) X
end ICMPExtensionsStructure

section BootP   -- include/tins/bootp.h:268-279 ; sizeof(bootp_header) = 236, chaddr = bytes 28..43
/-- `chaddr(const HWAddress<6>&)`: `for i < sizeof(chaddr): chaddr[i] = (i < min(6, sizeof chaddr)) ? new_chaddr[i] : 0;`
    i.e. the six address bytes, then ten zero bytes (big-endian view: the address is the high part of the field) -/
def BootP_set_chaddr_mac (v X : Nat) : Nat := putN 1616 48 v (putN 1536 80 0 X)
/-- harness getter `HWAddress<6>(chaddr().begin())`: the first six bytes of the field -/
def BootP_get_chaddr_mac (X : Nat) : Nat := getN 1616 48 X
end BootP

/-- the hand-written models, with the position each one is proved to implement (view of the class) -/
def table : List CustomAcc := [
  ⟨"IP", "flags", 109, 3, 1, IP_get_flags, IP_set_flags⟩,
  ⟨"IP", "fragment_offset", 96, 13, 1, IP_get_fragment_offset, IP_set_fragment_offset⟩,
  ⟨"IPv6", "traffic_class", 308, 8, 1, IPv6_get_traffic_class, IPv6_set_traffic_class⟩,
  ⟨"IPv6", "flow_label", 288, 20, 1, IPv6_get_flow_label, IPv6_set_flow_label⟩,
  ⟨"MPLS", "label", 12, 20, 1, MPLS_get_label, MPLS_set_label⟩,
  ⟨"MPLS", "experimental", 9, 3, 1, MPLS_get_experimental, MPLS_set_experimental⟩,
  ⟨"MPLS", "bottom_of_stack", 8, 1, 1, MPLS_get_bottom_of_stack, MPLS_set_bottom_of_stack⟩,
  ⟨"Dot1Q", "id", 16, 12, 1, Dot1Q_get_id, Dot1Q_set_id⟩,
  ⟨"SNAP", "control", 40, 8, 1, SNAP_get_control, SNAP_set_control⟩,
  ⟨"SNAP", "org_code", 16, 24, 1, SNAP_get_org_code, SNAP_set_org_code⟩,
  ⟨"TCP", "flags", 48, 12, 1, TCP_get_flags, TCP_set_flags⟩,
  ⟨"TCP", "flag_cwr", 55, 1, 1, TCP_get_flag TCP_flags_cwr, TCP_set_flag TCP_flags_cwr⟩,
  ⟨"TCP", "flag_ece", 54, 1, 1, TCP_get_flag TCP_flags_ece, TCP_set_flag TCP_flags_ece⟩,
  ⟨"TCP", "flag_urg", 53, 1, 1, TCP_get_flag TCP_flags_urg, TCP_set_flag TCP_flags_urg⟩,
  ⟨"TCP", "flag_ack", 52, 1, 1, TCP_get_flag TCP_flags_ack, TCP_set_flag TCP_flags_ack⟩,
  ⟨"TCP", "flag_psh", 51, 1, 1, TCP_get_flag TCP_flags_psh, TCP_set_flag TCP_flags_psh⟩,
  ⟨"TCP", "flag_rst", 50, 1, 1, TCP_get_flag TCP_flags_rst, TCP_set_flag TCP_flags_rst⟩,
  ⟨"TCP", "flag_syn", 49, 1, 1, TCP_get_flag TCP_flags_syn, TCP_set_flag TCP_flags_syn⟩,
  ⟨"TCP", "flag_fin", 48, 1, 1, TCP_get_flag TCP_flags_fin, TCP_set_flag TCP_flags_fin⟩,
  ⟨"STP", "root_id", 176, 64, 1, STP_get_id STP_root_id_priority STP_root_id_ext_id STP_root_id_ext_idL STP_root_id_id,
                                  STP_set_id STP_root_id_priority STP_root_id_ext_id STP_root_id_ext_idL STP_root_id_id⟩,
  ⟨"STP", "bridge_id", 80, 64, 1, STP_get_id STP_bridge_id_priority STP_bridge_id_ext_id STP_bridge_id_ext_idL STP_bridge_id_id,
                                   STP_set_id STP_bridge_id_priority STP_bridge_id_ext_id STP_bridge_id_ext_idL STP_bridge_id_id⟩,
  ⟨"STP", "msg_age", 48, 16, 256, STP_get_timer STP_msg_age, STP_set_timer STP_msg_age⟩,
  ⟨"STP", "max_age", 32, 16, 256, STP_get_timer STP_max_age, STP_set_timer STP_max_age⟩,
  ⟨"STP", "hello_time", 16, 16, 256, STP_get_timer STP_hello_time, STP_set_timer STP_hello_time⟩,
  ⟨"STP", "fwd_delay", 0, 16, 256, STP_get_timer STP_fwd_delay, STP_set_timer STP_fwd_delay⟩,
  ⟨"DHCPv6", "transaction_id", 0, 24, 1, DHCPv6_get_transaction_id, DHCPv6_set_transaction_id⟩,
  ⟨"Dot11Data", "frag_num", 176, 4, 1, LE16_get_low4 Dot11Data_frag_seq, LE16_set_low4 Dot11Data_frag_seq⟩,
  ⟨"Dot11Data", "seq_num", 180, 12, 1, LE16_get_hi12 Dot11Data_frag_seq, LE16_set_hi12 Dot11Data_frag_seq⟩,
  ⟨"Dot11Beacon", "frag_num", 176, 4, 1, LE16_get_low4 Dot11Beacon_frag_seq, LE16_set_low4 Dot11Beacon_frag_seq⟩,
  ⟨"Dot11Beacon", "seq_num", 180, 12, 1, LE16_get_hi12 Dot11Beacon_frag_seq, LE16_set_hi12 Dot11Beacon_frag_seq⟩,
  ⟨"Dot11BlockAckRequest", "bar_control", 128, 4, 1, LE16_get_low4 Dot11BlockAckRequest_bar_control_, LE16_set_low4 Dot11BlockAckRequest_bar_control_⟩,
  ⟨"Dot11BlockAckRequest", "fragment_number", 144, 4, 1, LE16_get_low4 Dot11BlockAckRequest_start_sequence_, LE16_set_low4 Dot11BlockAckRequest_start_sequence_⟩,
  ⟨"Dot11BlockAckRequest", "start_sequence", 148, 12, 1, LE16_get_hi12 Dot11BlockAckRequest_start_sequence_, LE16_set_hi12 Dot11BlockAckRequest_start_sequence_⟩,
  ⟨"Dot11AssocRequest", "frag_num", 176, 4, 1, LE16_get_low4 Dot11AssocRequest_frag_seq, LE16_set_low4 Dot11AssocRequest_frag_seq⟩,
  ⟨"Dot11AssocRequest", "seq_num", 180, 12, 1, LE16_get_hi12 Dot11AssocRequest_frag_seq, LE16_set_hi12 Dot11AssocRequest_frag_seq⟩,
  ⟨"Dot11AssocResponse", "frag_num", 176, 4, 1, LE16_get_low4 Dot11AssocResponse_frag_seq, LE16_set_low4 Dot11AssocResponse_frag_seq⟩,
  ⟨"Dot11AssocResponse", "seq_num", 180, 12, 1, LE16_get_hi12 Dot11AssocResponse_frag_seq, LE16_set_hi12 Dot11AssocResponse_frag_seq⟩,
  ⟨"Dot11Authentication", "frag_num", 176, 4, 1, LE16_get_low4 Dot11Authentication_frag_seq, LE16_set_low4 Dot11Authentication_frag_seq⟩,
  ⟨"Dot11Authentication", "seq_num", 180, 12, 1, LE16_get_hi12 Dot11Authentication_frag_seq, LE16_set_hi12 Dot11Authentication_frag_seq⟩,
  ⟨"Dot11DataWDS", "frag_num", 176, 4, 1, LE16_get_low4 Dot11DataWDS_frag_seq, LE16_set_low4 Dot11DataWDS_frag_seq⟩,
  ⟨"Dot11DataWDS", "seq_num", 180, 12, 1, LE16_get_hi12 Dot11DataWDS_frag_seq, LE16_set_hi12 Dot11DataWDS_frag_seq⟩,
  ⟨"Dot11Deauthentication", "frag_num", 176, 4, 1, LE16_get_low4 Dot11Deauthentication_frag_seq, LE16_set_low4 Dot11Deauthentication_frag_seq⟩,
  ⟨"Dot11Deauthentication", "seq_num", 180, 12, 1, LE16_get_hi12 Dot11Deauthentication_frag_seq, LE16_set_hi12 Dot11Deauthentication_frag_seq⟩,
  ⟨"Dot11Disassoc", "frag_num", 176, 4, 1, LE16_get_low4 Dot11Disassoc_frag_seq, LE16_set_low4 Dot11Disassoc_frag_seq⟩,
  ⟨"Dot11Disassoc", "seq_num", 180, 12, 1, LE16_get_hi12 Dot11Disassoc_frag_seq, LE16_set_hi12 Dot11Disassoc_frag_seq⟩,
  ⟨"Dot11ProbeRequest", "frag_num", 176, 4, 1, LE16_get_low4 Dot11ProbeRequest_frag_seq, LE16_set_low4 Dot11ProbeRequest_frag_seq⟩,
  ⟨"Dot11ProbeRequest", "seq_num", 180, 12, 1, LE16_get_hi12 Dot11ProbeRequest_frag_seq, LE16_set_hi12 Dot11ProbeRequest_frag_seq⟩,
  ⟨"Dot11ProbeRequestWDS", "frag_num", 176, 4, 1, LE16_get_low4 Dot11ProbeRequestWDS_frag_seq, LE16_set_low4 Dot11ProbeRequestWDS_frag_seq⟩,
  ⟨"Dot11ProbeRequestWDS", "seq_num", 180, 12, 1, LE16_get_hi12 Dot11ProbeRequestWDS_frag_seq, LE16_set_hi12 Dot11ProbeRequestWDS_frag_seq⟩,
  ⟨"Dot11ProbeResponse", "frag_num", 176, 4, 1, LE16_get_low4 Dot11ProbeResponse_frag_seq, LE16_set_low4 Dot11ProbeResponse_frag_seq⟩,
  ⟨"Dot11ProbeResponse", "seq_num", 180, 12, 1, LE16_get_hi12 Dot11ProbeResponse_frag_seq, LE16_set_hi12 Dot11ProbeResponse_frag_seq⟩,
  ⟨"Dot11QoSData", "frag_num", 176, 4, 1, LE16_get_low4 Dot11QoSData_frag_seq, LE16_set_low4 Dot11QoSData_frag_seq⟩,
  ⟨"Dot11QoSData", "seq_num", 180, 12, 1, LE16_get_hi12 Dot11QoSData_frag_seq, LE16_set_hi12 Dot11QoSData_frag_seq⟩,
  ⟨"Dot11QoSDataWDS", "frag_num", 176, 4, 1, LE16_get_low4 Dot11QoSDataWDS_frag_seq, LE16_set_low4 Dot11QoSDataWDS_frag_seq⟩,
  ⟨"Dot11QoSDataWDS", "seq_num", 180, 12, 1, LE16_get_hi12 Dot11QoSDataWDS_frag_seq, LE16_set_hi12 Dot11QoSDataWDS_frag_seq⟩,
  ⟨"Dot11ReAssocRequest", "frag_num", 176, 4, 1, LE16_get_low4 Dot11ReAssocRequest_frag_seq, LE16_set_low4 Dot11ReAssocRequest_frag_seq⟩,
  ⟨"Dot11ReAssocRequest", "seq_num", 180, 12, 1, LE16_get_hi12 Dot11ReAssocRequest_frag_seq, LE16_set_hi12 Dot11ReAssocRequest_frag_seq⟩,
  ⟨"Dot11ReAssocResponse", "frag_num", 176, 4, 1, LE16_get_low4 Dot11ReAssocResponse_frag_seq, LE16_set_low4 Dot11ReAssocResponse_frag_seq⟩,
  ⟨"Dot11ReAssocResponse", "seq_num", 180, 12, 1, LE16_get_hi12 Dot11ReAssocResponse_frag_seq, LE16_set_hi12 Dot11ReAssocResponse_frag_seq⟩,
  ⟨"Dot11BlockAck", "bar_control", 128, 4, 1, LE16_get_low4 Dot11BlockAck_bar_control_, LE16_set_low4 Dot11BlockAck_bar_control_⟩,
  ⟨"Dot11BlockAck", "fragment_number", 144, 4, 1, LE16_get_low4 Dot11BlockAck_start_sequence_, LE16_set_low4 Dot11BlockAck_start_sequence_⟩,
  ⟨"Dot11BlockAck", "start_sequence", 148, 12, 1, LE16_get_hi12 Dot11BlockAck_start_sequence_, LE16_set_hi12 Dot11BlockAck_start_sequence_⟩,
  ⟨"LLCInfo", "group", 0, 1, 1, LLC_get_lowbit LLCInfo_dsap, LLC_set_lowbit LLCInfo_dsap⟩,
  ⟨"LLCInfo", "response", 8, 1, 1, LLC_get_lowbit LLCInfo_ssap, LLC_set_lowbit LLCInfo_ssap⟩,
  ⟨"LLCSupervisory", "group", 0, 1, 1, LLC_get_lowbit LLCSupervisory_dsap, LLC_set_lowbit LLCSupervisory_dsap⟩,
  ⟨"LLCSupervisory", "response", 8, 1, 1, LLC_get_lowbit LLCSupervisory_ssap, LLC_set_lowbit LLCSupervisory_ssap⟩,
  ⟨"LLCUnnumbered", "group", 0, 1, 1, LLC_get_lowbit LLCUnnumbered_dsap, LLC_set_lowbit LLCUnnumbered_dsap⟩,
  ⟨"LLCUnnumbered", "response", 8, 1, 1, LLC_get_lowbit LLCUnnumbered_ssap, LLC_set_lowbit LLCUnnumbered_ssap⟩,
  ⟨"LLCInfo", "send_seq_number", 17, 7, 1, LLC_get_send_seq 0 LLCInfo_send_seq_num, LLC_set_send_seq 0 LLCInfo_send_seq_num⟩,
  ⟨"LLCInfo", "poll_final", 24, 1, 1, LLC_get_poll_final LLCInfo_poll_final_bit, LLC_set_poll_final LLCInfo_poll_final_bit⟩,
  ⟨"LLCInfo", "receive_seq_number", 25, 7, 1, LLC_get_recv_seq 0 LLCInfo_recv_seq_num, LLC_set_recv_seq 0 LLCInfo_recv_seq_num⟩,
  ⟨"LLCSupervisory", "supervisory_function", 18, 2, 1, LLC_get_super_func 1 LLCSupervisory_supervisory_func, LLC_set_super_func 1 LLCSupervisory_supervisory_func⟩,
  ⟨"LLCSupervisory", "poll_final", 24, 1, 1, LLC_get_poll_final LLCSupervisory_poll_final_bit, LLC_set_poll_final LLCSupervisory_poll_final_bit⟩,
  ⟨"LLCSupervisory", "receive_seq_number", 25, 7, 1, LLC_get_recv_seq 1 LLCSupervisory_recv_seq_num, LLC_set_recv_seq 1 LLCSupervisory_recv_seq_num⟩,
  ⟨"LLCUnnumbered", "poll_final", 20, 1, 1, LLC_get_poll_final LLCUnnumbered_poll_final_bit, LLC_set_poll_final LLCUnnumbered_poll_final_bit⟩,
  ⟨"LLCUnnumbered", "modifier_function_hi", 18, 2, 1, LLC_get_modifier_hi 3 LLCUnnumbered_mod_func1 LLCUnnumbered_mod_func2,
                                                       LLC_set_modifier_hi 3 LLCUnnumbered_mod_func1 LLCUnnumbered_mod_func2⟩,
  ⟨"LLCUnnumbered", "modifier_function_lo", 21, 3, 1, LLC_get_modifier_lo 3 LLCUnnumbered_mod_func1 LLCUnnumbered_mod_func2,
                                                       LLC_set_modifier_lo 3 LLCUnnumbered_mod_func1 LLCUnnumbered_mod_func2⟩,
  ⟨"ICMPExtensionsStructure", "version", 12, 4, 1, ICMPExt_get_version, ICMPExt_set_version⟩,
  ⟨"ICMPExtensionsStructure", "reserved", 0, 12, 1, ICMPExt_get_reserved, ICMPExt_set_reserved⟩,
  ⟨"BootP", "chaddr_mac", 1536, 128, 1208925819614629174706176, BootP_get_chaddr_mac, BootP_set_chaddr_mac⟩,
  ⟨"VXLAN", "flags", 56, 8, 1, VXLAN_get_flags, VXLAN_set_flags⟩,
  ⟨"VXLAN", "vni", 8, 24, 1, VXLAN_get_vni, VXLAN_set_vni⟩
]

def lookup (cls fld : String) : Option CustomAcc := table.find? (fun a => a.cls == cls && a.fld == fld)

end Tins.Fields.Custom
