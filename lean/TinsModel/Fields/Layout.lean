import TinsModel.Fields.Lens
/- Types of the generated layout / accessor tables (`TinsModel/Gen/Layout.lean`) and the memory-level semantics of a
   struct member access on the little-endian host the implementation is built for (core Lean only). -/
namespace Tins.Fields

/-- a struct member (or bit-field) as the compiler laid it out, measured by the layout probe:
    value bit `j` of the member is bit `8*byteOff + bit + j` of the image in LSB-first (memory) numbering. -/
structure Mem where
  byteOff : Nat
  bit : Nat
  width : Nat
deriving DecidableEq, Repr, Inhabited

/-- what a one-statement accessor does to the value on its way to / from the member -/
inductive Conv
  | none      -- `header_.m = v`                      / `return header_.m`
  | be        -- `header_.m = Endian::host_to_be(v)`  / `return Endian::be_to_host(header_.m)`
  | le        -- `header_.m = Endian::host_to_le(v)`  / `return Endian::le_to_host(header_.m)`
  | bool01    -- `header_.m = (v) ? 1 : 0`            / `return header_.m`
  | bytes     -- `v.copy(header_.m)` / address object assigned to / built from the member: the bytes in memory order
deriving DecidableEq, Repr, Inhabited

/-- a one-statement accessor pair recognised by the translator in the C++ source -/
structure SimpleAcc where
  cls : String
  fld : String
  mem : Mem
  conv : Conv
deriving DecidableEq, Repr, Inhabited

/-- what the setter's parameter type admits: `dom` = bits of the C++ parameter type,
    `small = some n` when the parameter is `small_uint<n>` (values `≥ 2^n` throw `value_too_large`) -/
structure ArgInfo where
  cls : String
  fld : String
  dom : Nat
  small : Option Nat
deriving DecidableEq, Repr, Inhabited

/-- everything the translator derives from the source for one class: `sizeof` of the header image, the one-statement
    accessors it recognised (in the order of the class's rows in `Spec.rows`) and the parameter domain of every setter -/
structure ClassGen where
  name : String
  imageLen : Nat
  simple : List SimpleAcc
  args : List ArgInfo
deriving Repr, Inhabited

/-- host load of a member from the image number `X` of an `L`-byte image in view `o`.
    Big-endian view: a member inside one byte is a run of `X`; a whole `k`-byte integer is loaded little-endian
    by the host, i.e. it is the byte swap of the run. -/
def memGet (o : Order) (L : Nat) (m : Mem) (X : Nat) : Nat :=
  match o with
  | .le => getN (8 * m.byteOff + m.bit) m.width X
  | .be =>
    if m.bit + m.width ≤ 8 then getN (8 * (L - 1 - m.byteOff) + m.bit) m.width X
    else bswap (m.width / 8) (getN (8 * (L - m.byteOff) - m.width) m.width X)

/-- host store (C truncation to the member's width included) -/
def memSet (o : Order) (L : Nat) (m : Mem) (val X : Nat) : Nat :=
  match o with
  | .le => putN (8 * m.byteOff + m.bit) m.width val X
  | .be =>
    if m.bit + m.width ≤ 8 then putN (8 * (L - 1 - m.byteOff) + m.bit) m.width val X
    else putN (8 * (L - m.byteOff) - m.width) m.width (bswap (m.width / 8) (val % 2 ^ m.width)) X

/-- a member the big-endian view can express: inside one byte, or a whole 2/4/8-byte integer -/
def Mem.okBE (m : Mem) : Bool :=
  (m.bit + m.width ≤ 8) || (m.bit == 0 && (m.width == 16 || m.width == 32 || m.width == 64))

def convSet (cv : Conv) (m : Mem) (v : Nat) : Nat :=
  match cv with
  | .none => v
  | .be => bswap (m.width / 8) (v % 2 ^ m.width)
  | .le => v
  | .bool01 => if v ≠ 0 then 1 else 0
  | .bytes => v

def convGet (cv : Conv) (m : Mem) (x : Nat) : Nat :=
  match cv with
  | .be => bswap (m.width / 8) x
  | _ => x

/-- model of a one-statement setter / getter -/
def SimpleAcc.set (a : SimpleAcc) (o : Order) (L v X : Nat) : Nat :=
  match a.conv, o with
  | .bytes, .be => putN (8 * (L - a.mem.byteOff) - a.mem.width) a.mem.width v X
  | .bytes, .le => putN (8 * a.mem.byteOff) a.mem.width v X
  | cv, _ => memSet o L a.mem (convSet cv a.mem v) X

def SimpleAcc.get (a : SimpleAcc) (o : Order) (L X : Nat) : Nat :=
  match a.conv, o with
  | .bytes, .be => getN (8 * (L - a.mem.byteOff) - a.mem.width) a.mem.width X
  | .bytes, .le => getN (8 * a.mem.byteOff) a.mem.width X
  | cv, _ => convGet cv a.mem (memGet o L a.mem X)

end Tins.Fields
