import TinsModel.Fields.Custom
import TinsModel.Fields.LensLemmas
/- Every hand-written shift/mask accessor model is the lens at the position it claims — for ALL values and ALL images.
   Method: unfold the member loads/stores, cancel the byte swaps, turn masks and shifts into `/ % *` and let `omega`
   decide the resulting linear arithmetic.  Core Lean only. -/
namespace Tins.Fields.Custom
open Tins.Fields Tins.Fields.Gen.M

/-- the model is exactly the lens at its declared position (for every representable value and every image) -/
def CustomAcc.IsLens (a : CustomAcc) : Prop :=
  ∀ v X : Nat, v * a.scale < 2 ^ a.width →
    a.set v X = putN a.shift a.width (v * a.scale) X ∧ a.get X = getN a.shift a.width X / a.scale

theorem and_low (x n K : Nat) (h : K = 2 ^ n - 1) : x &&& K = x % 2 ^ n := by
  subst h; exact Nat.and_two_pow_sub_one_eq_mod x n
theorem and_range (x s w K : Nat) (h : K = maskN s w) : x &&& K = x / 2 ^ s % 2 ^ w * 2 ^ s := by
  subst h; exact and_maskN x s w

theorem getN_mod_8 (s X : Nat) : getN s 8 X % 256 = getN s 8 X := Nat.mod_eq_of_lt (getN_lt s 8 X)
theorem getN_mod_16 (s X : Nat) : getN s 16 X % 65536 = getN s 16 X := Nat.mod_eq_of_lt (getN_lt s 16 X)
theorem getN_mod_32 (s X : Nat) : getN s 32 X % 4294967296 = getN s 32 X := Nat.mod_eq_of_lt (getN_lt s 32 X)

/-- unfold member loads / stores on the literal members and cancel byte swaps -/
macro "mem_simp" : tactic => `(tactic|
  simp (config := {decide := true}) only [ldIP, stIP, ld6, st6, ldM, stM, ldS, stS, ldT, stT, ldP, stP,
    memGet, memSet, be16, be32, bswap1_eq, bswap2_mod, bswap2_mod_arg, bswap2_invol, bswap4_mod, bswap4_mod_arg, bswap4_invol,
    getN_mod_8, getN_mod_16, getN_mod_32, Nat.mod_mod,
    Nat.reduceAdd, Nat.reduceMul, Nat.reduceSub, Nat.reduceDiv, Nat.reducePow, Nat.reduceLeDiff, ite_true, ite_false, reduceIte,
    Nat.mul_one, Nat.one_mul, Nat.div_one])

/-- lens and shifts to `/ % *` -/
macro "arith_simp" loc:(Lean.Parser.Tactic.location)? : tactic => `(tactic|
  simp only [getN_arith, putN_arith, Nat.shiftLeft_eq, Nat.shiftRight_eq_div_pow,
    Nat.reduceAdd, Nat.reduceMul, Nat.reducePow, Nat.mul_one, Nat.one_mul, Nat.div_one, Nat.pow_zero, Nat.mod_one, Nat.add_zero] $[$loc]?)

/-! ### IP -/
theorem IP_fragment_offset_lens : (⟨"IP", "fragment_offset", 96, 13, 1, IP_get_fragment_offset, IP_set_fragment_offset⟩ : CustomAcc).IsLens := by
  intro v X hv
  simp only [Nat.mul_one, Nat.div_one] at hv ⊢
  constructor
  · simp only [IP_set_fragment_offset, IP_frag_off]
    mem_simp
    rw [and_range _ 13 3 0xe000 (by decide)]
    have hW := getN_lt 96 16 X
    rw [or_eq_add _ _ 13 (by omega) (by omega)]
    arith_simp at hW ⊢
    omega
  · simp only [IP_get_fragment_offset, IP_frag_off]
    mem_simp
    rw [and_low _ 13 0x1fff (by decide)]
    arith_simp
    omega

theorem IP_flags_lens : (⟨"IP", "flags", 109, 3, 1, IP_get_flags, IP_set_flags⟩ : CustomAcc).IsLens := by
  intro v X hv
  simp only [Nat.mul_one, Nat.div_one] at hv ⊢
  constructor
  · simp only [IP_set_flags, IP_frag_off]
    mem_simp
    rw [and_low _ 13 0x1fff (by decide), Nat.or_comm]
    have hW := getN_lt 96 16 X
    rw [Nat.shiftLeft_eq, or_eq_add _ _ 13 (by omega) (by omega)]
    arith_simp at hW ⊢
    omega
  · simp only [IP_get_flags, IP_frag_off]
    mem_simp
    have hW := getN_lt 96 16 X
    arith_simp at hW ⊢
    omega


/-! ### MPLS -/
theorem or_eq_add' (a b s : Nat) (ha : a < 2 ^ s) (hb : b % 2 ^ s = 0) : a ||| b = a + b := by
  rw [Nat.or_comm, or_eq_add b a s hb ha, Nat.add_comm]

theorem and_two (x K A B : Nat) (h : K = A ||| B) : x &&& K = (x &&& A) ||| (x &&& B) := by
  subst h; exact Nat.and_or_distrib_left ..

theorem MPLS_experimental_lens : (⟨"MPLS", "experimental", 9, 3, 1, MPLS_get_experimental, MPLS_set_experimental⟩ : CustomAcc).IsLens := by
  intro v X hv
  simp only [Nat.mul_one, Nat.div_one] at hv ⊢
  constructor
  · simp only [MPLS_set_experimental, MPLS_label_low_exp_and_bottom]
    mem_simp
    have hW := getN_lt 8 8 X
    rw [and_two _ 0xf1 0xf0 0x01 (by decide), and_range _ 4 4 0xf0 (by decide), and_low _ 1 0x01 (by decide),
      Nat.or_assoc, Nat.or_comm (_ % 2 ^ 1), Nat.shiftLeft_eq, or_eq_add (v * 2 ^ 1) _ 1 (by omega) (by omega),
      or_eq_add _ _ 4 (by omega) (by omega)]
    arith_simp at hW ⊢
    omega
  · simp only [MPLS_get_experimental, MPLS_label_low_exp_and_bottom]
    mem_simp
    rw [and_low _ 3 0x7 (by decide)]
    arith_simp
    omega

theorem MPLS_bottom_of_stack_lens : (⟨"MPLS", "bottom_of_stack", 8, 1, 1, MPLS_get_bottom_of_stack, MPLS_set_bottom_of_stack⟩ : CustomAcc).IsLens := by
  intro v X hv
  simp only [Nat.mul_one, Nat.div_one] at hv ⊢
  constructor
  · simp only [MPLS_set_bottom_of_stack, MPLS_label_low_exp_and_bottom]
    mem_simp
    have hW := getN_lt 8 8 X
    rw [and_range _ 1 7 0xfe (by decide), or_eq_add _ _ 1 (by omega) (by omega)]
    arith_simp at hW ⊢
    omega
  · simp only [MPLS_get_bottom_of_stack, MPLS_label_low_exp_and_bottom]
    mem_simp
    rw [and_low _ 1 0x1 (by decide)]
    arith_simp
    omega

theorem MPLS_label_lens : (⟨"MPLS", "label", 12, 20, 1, MPLS_get_label, MPLS_set_label⟩ : CustomAcc).IsLens := by
  intro v X hv
  simp only [Nat.mul_one, Nat.div_one] at hv ⊢
  constructor
  · simp only [MPLS_set_label, MPLS_label_low_exp_and_bottom, MPLS_label_high]
    simp only [and_low _ 16 0xffff (by decide), Nat.reducePow]
    mem_simp
    rw [and_low _ 4 0x0f (by decide), and_range _ 4 4 0xf0 (by decide), Nat.or_comm,
      or_eq_add _ _ 4 (by omega) (by omega)]
    arith_simp
    omega
  · simp only [MPLS_get_label, MPLS_label_low_exp_and_bottom, MPLS_label_high]
    mem_simp
    rw [and_low _ 4 0xf (by decide), Nat.shiftLeft_eq, or_eq_add _ _ 4 (by omega) (by omega)]
    arith_simp
    omega

/-! ### Dot1Q -/
theorem Dot1Q_id_lens : (⟨"Dot1Q", "id", 16, 12, 1, Dot1Q_get_id, Dot1Q_set_id⟩ : CustomAcc).IsLens := by
  intro v X hv
  simp only [Nat.mul_one, Nat.div_one] at hv ⊢
  constructor
  · simp only [Dot1Q_set_id, Dot1Q_idL, Dot1Q_idH]
    mem_simp
    rw [and_low _ 8 0xff (by decide)]
    arith_simp
    omega
  · simp only [Dot1Q_get_id, Dot1Q_idL, Dot1Q_idH]
    mem_simp
    have h1 := getN_lt 16 8 X
    rw [Nat.or_comm, Nat.shiftLeft_eq, or_eq_add _ _ 8 (by omega) (by omega)]
    arith_simp at h1 ⊢
    omega

/-! ### TCP -/
theorem TCP_flags_lens : (⟨"TCP", "flags", 48, 12, 1, TCP_get_flags, TCP_set_flags⟩ : CustomAcc).IsLens := by
  intro v X hv
  simp only [Nat.mul_one, Nat.div_one] at hv ⊢
  constructor
  · simp only [TCP_set_flags, TCP_res1, TCP_flags_8]
    mem_simp
    rw [and_low _ 8 0xff (by decide), and_low _ 4 0x0f (by decide)]
    arith_simp
    omega
  · simp only [TCP_get_flags, TCP_res1, TCP_flags_8]
    mem_simp
    have h1 := getN_lt 48 8 X
    rw [Nat.shiftLeft_eq, or_eq_add _ _ 8 (by omega) (by omega)]
    arith_simp at h1 ⊢
    omega

theorem TCP_flag_lens (j : Nat) (hj : j < 8) (f : String) :
    (⟨"TCP", f, 48 + j, 1, 1, TCP_get_flag ⟨13, j, 1⟩, TCP_set_flag ⟨13, j, 1⟩⟩ : CustomAcc).IsLens := by
  intro v X hv
  simp only [Nat.mul_one, Nat.div_one] at hv ⊢
  have h : j + 1 ≤ 8 := by omega
  constructor
  · simp only [TCP_set_flag, stT, memSet, h, ite_true]
  · simp only [TCP_get_flag, ldT, memGet, h, ite_true]


/-! ### IPv6 -/
set_option exponentiation.threshold 512 in
theorem IPv6_traffic_class_lens : (⟨"IPv6", "traffic_class", 308, 8, 1, IPv6_get_traffic_class, IPv6_set_traffic_class⟩ : CustomAcc).IsLens := by
  intro v X hv
  simp only [Nat.mul_one, Nat.div_one] at hv ⊢
  constructor
  · simp only [IPv6_set_traffic_class, IPv6_traffic_class, IPv6_flow_label_0]
    mem_simp
    rw [and_low _ 4 0xf (by decide), and_low _ 4 0x0f (by decide), and_range _ 4 4 0xf0 (by decide), Nat.or_comm,
      or_eq_add _ _ 4 (by omega) (by omega)]
    arith_simp
    omega
  · simp only [IPv6_get_traffic_class, IPv6_traffic_class, IPv6_flow_label_0]
    mem_simp
    rw [and_low _ 4 0x0f (by decide), and_range _ 4 4 0xf0 (by decide), or_eq_add _ _ 4 (by omega) (by omega)]
    arith_simp
    omega


theorem be32_eq (v : Nat) : be32 v =
    v % 256 * 16777216 + (v / 256 % 256 * 65536 + (v / 256 / 256 % 256 * 256 + v / 256 / 256 / 256 % 256)) := by
  rw [be32, bswap4_mod_arg, bswap4_eq]

attribute [local irreducible] getN putN

theorem merge_low4 (a W : Nat) (hW : W < 256) : (a &&& 0x0f) ||| (W &&& 0xf0) = putN 0 4 a W := by
  rw [and_low _ 4 0x0f (by decide), and_range _ 4 4 0xf0 (by decide), or_eq_add' _ _ 4 (by omega) (by omega)]
  arith_simp
  omega

set_option exponentiation.threshold 512 in
theorem IPv6_flow_label_lens : (⟨"IPv6", "flow_label", 288, 20, 1, IPv6_get_flow_label, IPv6_set_flow_label⟩ : CustomAcc).IsLens := by
  intro v X hv
  simp only [Nat.mul_one, Nat.div_one] at hv ⊢
  constructor
  · simp only [IPv6_set_flow_label, IPv6_flow_label_0, IPv6_flow_label_1, IPv6_flow_label_2]
    simp (config := {decide := true}) only [ld6, st6, memGet, memSet, Nat.reduceAdd, Nat.reduceMul, Nat.reduceSub, ite_true]
    rw [merge_low4 _ _ (getN_lt 304 8 _)]
    generalize hc : be32 v >>> 24 &&& 255 = c
    generalize hb : be32 v >>> 16 &&& 255 = b
    generalize ha : be32 v >>> 8 = a
    rewrite [putN_sub' 0 4 304 8 304 _ _ (by decide) (by decide)]
    rewrite [putN_adj' 288 8 8 296 16 _ _ _ (by decide) (by decide), putN_adj' 288 16 4 304 20 _ _ _ (by decide) (by decide)]
    apply putN_congr
    subst ha hb hc
    obtain ⟨a3, a2, a1, a0, h3, h2, h1, h0, hv32, hbs⟩ := word4_exists v
    rw [be32, bswap4_mod_arg, hbs]
    simp only [and_low _ 8 0xff (by decide), Nat.shiftRight_eq_div_pow, Nat.reducePow, Nat.mod_mod]
    rw [word4_b0 _ _ _ _ h1 h2 h3, word4_b1 _ _ _ _ h1 h2 h3, word4_hi24 _ _ _ _ h1 h2 h3]
    clear hbs
    have hvv : v % 4294967296 = v := Nat.mod_eq_of_lt (by omega)
    rw [hvv] at hv32
    have ha3 : a3 = 0 := by omega
    subst ha3
    have ha2 : a2 < 16 := by omega
    have e1 : (a0 * 65536 + (a1 * 256 + a2)) % 16 = a2 := by
      have e : a0 * 65536 + (a1 * 256 + a2) = (a0 * 4096 + a1 * 16) * 16 + a2 := by omega
      rw [e, digit_lo _ _ _ ha2]
    rw [e1, Nat.mod_eq_of_lt h0, Nat.mod_eq_of_lt (show a0 + a1 * 256 < 65536 by omega), hv32]
    omega
  · simp only [IPv6_get_flow_label, IPv6_flow_label_0, IPv6_flow_label_1, IPv6_flow_label_2]
    mem_simp
    have g1 := getN_lt 296 8 X
    have g2 := getN_lt 288 8 X
    simp only [Nat.reducePow] at g1 g2
    rw [and_low _ 4 0x0f (by decide), Nat.shiftLeft_eq, Nat.shiftLeft_eq,
      or_eq_add (_ * 2 ^ 16) (_ * 2 ^ 8) 16 (by omega) (by omega), or_eq_add _ _ 8 (by omega) (by omega)]
    rw [getN_adj' 288 16 4 304 20 X (by decide) (by decide), getN_adj' 288 8 8 296 16 X (by decide) (by decide)]
    simp only [getN_arith, Nat.reducePow] at g1 g2 ⊢
    omega

/-! ### STP -/
theorem STP_timer_lens (B sh : Nat) (f : String) (hs : sh = 8 * (35 - B) - 16) :
    (⟨"STP", f, sh, 16, 256, STP_get_timer ⟨B, 0, 16⟩, STP_set_timer ⟨B, 0, 16⟩⟩ : CustomAcc).IsLens := by
  intro v X hv
  simp only [] at hv ⊢
  subst hs
  constructor
  · simp (config := {decide := true}) only [STP_set_timer, stP, memSet, ite_false, be16, bswap2_mod, bswap2_mod_arg, bswap2_invol,
      Nat.reduceDiv, Nat.mod_mod, Nat.reducePow, Nat.reduceAdd]
    apply putN_congr; simp only [Nat.reducePow, Nat.mod_mod]
  · simp (config := {decide := true}) only [STP_get_timer, ldP, memGet, ite_false, be16, bswap2_mod, bswap2_mod_arg, bswap2_invol,
      Nat.reduceDiv, Nat.mod_mod, getN_mod_16, Nat.reduceAdd]

end Tins.Fields.Custom
