import TinsModel.Fields.Custom
import TinsModel.Fields.LensLemmas
/- Every hand-written shift/mask accessor model is the lens at the position it claims — for ALL values and ALL images.
   Method: unfold the member loads/stores, cancel the byte swaps, turn masks and shifts into `/ % *` and let `omega`
   decide the resulting linear arithmetic.  Core Lean only. -/
namespace Tins.Fields.Custom
open Tins.Fields Tins.Fields.Gen.M

/-- the model is exactly the lens at its declared position (for every representable value and every image) -/
def CustomAcc.IsLens (a : CustomAcc) : Prop :=
  ∀ v X : Nat, v * a.scale < 2 ^ a.width →
    a.set v X = putN a.shift a.width (v * a.scale) X ∧ a.get X = getN a.shift a.width X / a.scale

theorem and_low (x n K : Nat) (h : K = 2 ^ n - 1) : x &&& K = x % 2 ^ n := by
  subst h; exact Nat.and_two_pow_sub_one_eq_mod x n
theorem and_range (x s w K : Nat) (h : K = maskN s w) : x &&& K = x / 2 ^ s % 2 ^ w * 2 ^ s := by
  subst h; exact and_maskN x s w

theorem getN_mod_8 (s X : Nat) : getN s 8 X % 256 = getN s 8 X := Nat.mod_eq_of_lt (getN_lt s 8 X)
theorem getN_mod_16 (s X : Nat) : getN s 16 X % 65536 = getN s 16 X := Nat.mod_eq_of_lt (getN_lt s 16 X)
theorem getN_mod_32 (s X : Nat) : getN s 32 X % 4294967296 = getN s 32 X := Nat.mod_eq_of_lt (getN_lt s 32 X)

-- LLC U format modifier bits: the arithmetic of the two groups, whole domain by evaluation
theorem llc_mod_hi_arith : ∀ v, v < 4 → ∀ h, h < 4 → ∀ l, l < 8 →
    (((v <<< 3) ||| (((h <<< 3) + l) &&& 7)) >>> 3) % 4 = v ∧ (((v <<< 3) ||| (((h <<< 3) + l) &&& 7)) &&& 7) % 8 = l ∧ ((h <<< 3) + l) >>> 3 = h := by decide
theorem llc_mod_lo_arith : ∀ v, v < 8 → ∀ h, h < 4 → ∀ l, l < 8 →
    ((((((h <<< 3) + l) &&& 0x18) ||| v)) >>> 3) % 4 = h ∧ ((((((h <<< 3) + l) &&& 0x18) ||| v)) &&& 7) % 8 = v ∧ ((h <<< 3) + l) &&& 7 = l := by decide
-- byte-local bit set / clear (LLC I/G and C/R bits): the whole byte domain by evaluation
set_option maxRecDepth 100000 in
theorem or_one_word : ∀ W, W < 256 → W ||| 0x01 = putN 0 1 1 W := by decide
set_option maxRecDepth 100000 in
theorem and_fe_word : ∀ W, W < 256 → W &&& 0xFE = putN 0 1 0 W := by decide

/-- unfold member loads / stores on the literal members and cancel byte swaps -/
macro "mem_simp" : tactic => `(tactic|
  simp (config := {decide := true}) only [ldIP, stIP, ld6, st6, ldM, stM, ldS, stS, ldT, stT, ldP, stP, ldE, stE,
    memGet, memSet, be16, be32, bswap1_eq, bswap2_mod, bswap2_mod_arg, bswap2_invol, bswap4_mod, bswap4_mod_arg, bswap4_invol,
    getN_mod_8, getN_mod_16, getN_mod_32, Nat.mod_mod,
    Nat.reduceAdd, Nat.reduceMul, Nat.reduceSub, Nat.reduceDiv, Nat.reducePow, Nat.reduceLeDiff, ite_true, ite_false, reduceIte,
    Nat.mul_one, Nat.one_mul, Nat.div_one])

/-- lens and shifts to `/ % *` -/
macro "arith_simp" loc:(Lean.Parser.Tactic.location)? : tactic => `(tactic|
  simp only [getN_arith, putN_arith, Nat.shiftLeft_eq, Nat.shiftRight_eq_div_pow,
    Nat.reduceAdd, Nat.reduceMul, Nat.reducePow, Nat.mul_one, Nat.one_mul, Nat.div_one, Nat.pow_zero, Nat.mod_one, Nat.add_zero] $[$loc]?)

/-! ### IP -/
theorem IP_fragment_offset_lens : (⟨"IP", "fragment_offset", 96, 13, 1, IP_get_fragment_offset, IP_set_fragment_offset⟩ : CustomAcc).IsLens := by
  intro v X hv
  simp only [Nat.mul_one, Nat.div_one] at hv ⊢
  constructor
  · simp only [IP_set_fragment_offset, IP_frag_off]
    mem_simp
    rw [and_range _ 13 3 0xe000 (by decide)]
    have hW := getN_lt 96 16 X
    rw [or_eq_add _ _ 13 (by omega) (by omega)]
    arith_simp at hW ⊢
    omega
  · simp only [IP_get_fragment_offset, IP_frag_off]
    mem_simp
    rw [and_low _ 13 0x1fff (by decide)]
    arith_simp
    omega

theorem IP_flags_lens : (⟨"IP", "flags", 109, 3, 1, IP_get_flags, IP_set_flags⟩ : CustomAcc).IsLens := by
  intro v X hv
  simp only [Nat.mul_one, Nat.div_one] at hv ⊢
  constructor
  · simp only [IP_set_flags, IP_frag_off]
    mem_simp
    rw [and_low _ 13 0x1fff (by decide), Nat.or_comm]
    have hW := getN_lt 96 16 X
    rw [Nat.shiftLeft_eq, or_eq_add _ _ 13 (by omega) (by omega)]
    arith_simp at hW ⊢
    omega
  · simp only [IP_get_flags, IP_frag_off]
    mem_simp
    have hW := getN_lt 96 16 X
    arith_simp at hW ⊢
    omega


/-! ### MPLS -/
theorem or_eq_add' (a b s : Nat) (ha : a < 2 ^ s) (hb : b % 2 ^ s = 0) : a ||| b = a + b := by
  rw [Nat.or_comm, or_eq_add b a s hb ha, Nat.add_comm]

theorem and_two (x K A B : Nat) (h : K = A ||| B) : x &&& K = (x &&& A) ||| (x &&& B) := by
  subst h; exact Nat.and_or_distrib_left ..

theorem MPLS_experimental_lens : (⟨"MPLS", "experimental", 9, 3, 1, MPLS_get_experimental, MPLS_set_experimental⟩ : CustomAcc).IsLens := by
  intro v X hv
  simp only [Nat.mul_one, Nat.div_one] at hv ⊢
  constructor
  · simp only [MPLS_set_experimental, MPLS_label_low_exp_and_bottom]
    mem_simp
    have hW := getN_lt 8 8 X
    rw [and_two _ 0xf1 0xf0 0x01 (by decide), and_range _ 4 4 0xf0 (by decide), and_low _ 1 0x01 (by decide),
      Nat.or_assoc, Nat.or_comm (_ % 2 ^ 1), Nat.shiftLeft_eq, or_eq_add (v * 2 ^ 1) _ 1 (by omega) (by omega),
      or_eq_add _ _ 4 (by omega) (by omega)]
    arith_simp at hW ⊢
    omega
  · simp only [MPLS_get_experimental, MPLS_label_low_exp_and_bottom]
    mem_simp
    rw [and_low _ 3 0x7 (by decide)]
    arith_simp
    omega

theorem MPLS_bottom_of_stack_lens : (⟨"MPLS", "bottom_of_stack", 8, 1, 1, MPLS_get_bottom_of_stack, MPLS_set_bottom_of_stack⟩ : CustomAcc).IsLens := by
  intro v X hv
  simp only [Nat.mul_one, Nat.div_one] at hv ⊢
  constructor
  · simp only [MPLS_set_bottom_of_stack, MPLS_label_low_exp_and_bottom]
    mem_simp
    have hW := getN_lt 8 8 X
    rw [and_range _ 1 7 0xfe (by decide), or_eq_add _ _ 1 (by omega) (by omega)]
    arith_simp at hW ⊢
    omega
  · simp only [MPLS_get_bottom_of_stack, MPLS_label_low_exp_and_bottom]
    mem_simp
    rw [and_low _ 1 0x1 (by decide)]
    arith_simp
    omega

theorem MPLS_label_lens : (⟨"MPLS", "label", 12, 20, 1, MPLS_get_label, MPLS_set_label⟩ : CustomAcc).IsLens := by
  intro v X hv
  simp only [Nat.mul_one, Nat.div_one] at hv ⊢
  constructor
  · simp only [MPLS_set_label, MPLS_label_low_exp_and_bottom, MPLS_label_high]
    simp only [and_low _ 16 0xffff (by decide), Nat.reducePow]
    mem_simp
    rw [and_low _ 4 0x0f (by decide), and_range _ 4 4 0xf0 (by decide), Nat.or_comm,
      or_eq_add _ _ 4 (by omega) (by omega)]
    arith_simp
    omega
  · simp only [MPLS_get_label, MPLS_label_low_exp_and_bottom, MPLS_label_high]
    mem_simp
    rw [and_low _ 4 0xf (by decide), Nat.shiftLeft_eq, or_eq_add _ _ 4 (by omega) (by omega)]
    arith_simp
    omega

/-! ### Dot1Q -/
theorem Dot1Q_id_lens : (⟨"Dot1Q", "id", 16, 12, 1, Dot1Q_get_id, Dot1Q_set_id⟩ : CustomAcc).IsLens := by
  intro v X hv
  simp only [Nat.mul_one, Nat.div_one] at hv ⊢
  constructor
  · simp only [Dot1Q_set_id, Dot1Q_idL, Dot1Q_idH]
    mem_simp
    rw [and_low _ 8 0xff (by decide)]
    arith_simp
    omega
  · simp only [Dot1Q_get_id, Dot1Q_idL, Dot1Q_idH]
    mem_simp
    have h1 := getN_lt 16 8 X
    rw [Nat.or_comm, Nat.shiftLeft_eq, or_eq_add _ _ 8 (by omega) (by omega)]
    arith_simp at h1 ⊢
    omega

/-! ### TCP -/
theorem TCP_flags_lens : (⟨"TCP", "flags", 48, 12, 1, TCP_get_flags, TCP_set_flags⟩ : CustomAcc).IsLens := by
  intro v X hv
  simp only [Nat.mul_one, Nat.div_one] at hv ⊢
  constructor
  · simp only [TCP_set_flags, TCP_res1, TCP_flags_8]
    mem_simp
    rw [and_low _ 8 0xff (by decide), and_low _ 4 0x0f (by decide)]
    arith_simp
    omega
  · simp only [TCP_get_flags, TCP_res1, TCP_flags_8]
    mem_simp
    have h1 := getN_lt 48 8 X
    rw [Nat.shiftLeft_eq, or_eq_add _ _ 8 (by omega) (by omega)]
    arith_simp at h1 ⊢
    omega

theorem TCP_flag_lens (j : Nat) (hj : j < 8) (f : String) :
    (⟨"TCP", f, 48 + j, 1, 1, TCP_get_flag ⟨13, j, 1⟩, TCP_set_flag ⟨13, j, 1⟩⟩ : CustomAcc).IsLens := by
  intro v X hv
  simp only [Nat.mul_one, Nat.div_one] at hv ⊢
  have h : j + 1 ≤ 8 := by omega
  constructor
  · simp only [TCP_set_flag, stT, memSet, h, ite_true]
  · simp only [TCP_get_flag, ldT, memGet, h, ite_true]


/-! ### IPv6 -/
set_option exponentiation.threshold 512 in
theorem IPv6_traffic_class_lens : (⟨"IPv6", "traffic_class", 308, 8, 1, IPv6_get_traffic_class, IPv6_set_traffic_class⟩ : CustomAcc).IsLens := by
  intro v X hv
  simp only [Nat.mul_one, Nat.div_one] at hv ⊢
  constructor
  · simp only [IPv6_set_traffic_class, IPv6_traffic_class, IPv6_flow_label_0]
    mem_simp
    rw [and_low _ 4 0xf (by decide), and_low _ 4 0x0f (by decide), and_range _ 4 4 0xf0 (by decide), Nat.or_comm,
      or_eq_add _ _ 4 (by omega) (by omega)]
    arith_simp
    omega
  · simp only [IPv6_get_traffic_class, IPv6_traffic_class, IPv6_flow_label_0]
    mem_simp
    rw [and_low _ 4 0x0f (by decide), and_range _ 4 4 0xf0 (by decide), or_eq_add _ _ 4 (by omega) (by omega)]
    arith_simp
    omega


theorem be32_eq (v : Nat) : be32 v =
    v % 256 * 16777216 + (v / 256 % 256 * 65536 + (v / 256 / 256 % 256 * 256 + v / 256 / 256 / 256 % 256)) := by
  rw [be32, bswap4_mod_arg, bswap4_eq]

attribute [local irreducible] getN putN

theorem merge_low4 (a W : Nat) (hW : W < 256) : (a &&& 0x0f) ||| (W &&& 0xf0) = putN 0 4 a W := by
  rw [and_low _ 4 0x0f (by decide), and_range _ 4 4 0xf0 (by decide), or_eq_add' _ _ 4 (by omega) (by omega)]
  arith_simp
  omega

set_option exponentiation.threshold 512 in
theorem IPv6_flow_label_lens : (⟨"IPv6", "flow_label", 288, 20, 1, IPv6_get_flow_label, IPv6_set_flow_label⟩ : CustomAcc).IsLens := by
  intro v X hv
  simp only [Nat.mul_one, Nat.div_one] at hv ⊢
  constructor
  · simp only [IPv6_set_flow_label, IPv6_flow_label_0, IPv6_flow_label_1, IPv6_flow_label_2]
    simp (config := {decide := true}) only [ld6, st6, memGet, memSet, Nat.reduceAdd, Nat.reduceMul, Nat.reduceSub, ite_true]
    rw [merge_low4 _ _ (getN_lt 304 8 _)]
    generalize hc : be32 v >>> 24 &&& 255 = c
    generalize hb : be32 v >>> 16 &&& 255 = b
    generalize ha : be32 v >>> 8 = a
    rewrite [putN_sub' 0 4 304 8 304 _ _ (by decide) (by decide)]
    rewrite [putN_adj' 288 8 8 296 16 _ _ _ (by decide) (by decide), putN_adj' 288 16 4 304 20 _ _ _ (by decide) (by decide)]
    apply putN_congr
    subst ha hb hc
    obtain ⟨a3, a2, a1, a0, h3, h2, h1, h0, hv32, hbs⟩ := word4_exists v
    rw [be32, bswap4_mod_arg, hbs]
    simp only [and_low _ 8 0xff (by decide), Nat.shiftRight_eq_div_pow, Nat.reducePow, Nat.mod_mod]
    rw [word4_b0 _ _ _ _ h1 h2 h3, word4_b1 _ _ _ _ h1 h2 h3, word4_hi24 _ _ _ _ h1 h2 h3]
    clear hbs
    have hvv : v % 4294967296 = v := Nat.mod_eq_of_lt (by omega)
    rw [hvv] at hv32
    have ha3 : a3 = 0 := by omega
    subst ha3
    have ha2 : a2 < 16 := by omega
    have e1 : (a0 * 65536 + (a1 * 256 + a2)) % 16 = a2 := by
      have e : a0 * 65536 + (a1 * 256 + a2) = (a0 * 4096 + a1 * 16) * 16 + a2 := by omega
      rw [e, digit_lo _ _ _ ha2]
    rw [e1, Nat.mod_eq_of_lt h0, Nat.mod_eq_of_lt (show a0 + a1 * 256 < 65536 by omega), hv32]
    omega
  · simp only [IPv6_get_flow_label, IPv6_flow_label_0, IPv6_flow_label_1, IPv6_flow_label_2]
    mem_simp
    have g1 := getN_lt 296 8 X
    have g2 := getN_lt 288 8 X
    simp only [Nat.reducePow] at g1 g2
    rw [and_low _ 4 0x0f (by decide), Nat.shiftLeft_eq, Nat.shiftLeft_eq,
      or_eq_add (_ * 2 ^ 16) (_ * 2 ^ 8) 16 (by omega) (by omega), or_eq_add _ _ 8 (by omega) (by omega)]
    rw [getN_adj' 288 16 4 304 20 X (by decide) (by decide), getN_adj' 288 8 8 296 16 X (by decide) (by decide)]
    simp only [getN_arith, Nat.reducePow] at g1 g2 ⊢
    omega

/-! ### STP -/
theorem STP_timer_lens (B sh : Nat) (f : String) (hs : sh = 8 * (35 - B) - 16) :
    (⟨"STP", f, sh, 16, 256, STP_get_timer ⟨B, 0, 16⟩, STP_set_timer ⟨B, 0, 16⟩⟩ : CustomAcc).IsLens := by
  intro v X hv
  simp only [] at hv ⊢
  subst hs
  constructor
  · simp (config := {decide := true}) only [STP_set_timer, stP, memSet, ite_false, be16, bswap2_mod, bswap2_mod_arg, bswap2_invol,
      Nat.reduceDiv, Nat.mod_mod, Nat.reducePow, Nat.reduceAdd]
    apply putN_congr; simp only [Nat.reducePow, Nat.mod_mod]
  · simp (config := {decide := true}) only [STP_get_timer, ldP, memGet, ite_false, be16, bswap2_mod, bswap2_mod_arg, bswap2_invol,
      Nat.reduceDiv, Nat.mod_mod, getN_mod_16, Nat.reduceAdd]

/-! ### 32-bit members accessed through host-order masks (SNAP, VXLAN) -/

/-- digits of a word below 2^32 -/
theorem word4_of_lt (G : Nat) (hG : G < 4294967296) : ∃ a b c d : Nat, a < 256 ∧ b < 256 ∧ c < 256 ∧ d < 256 ∧
    G = a * 16777216 + (b * 65536 + (c * 256 + d)) ∧ bswap 4 G = d * 16777216 + (c * 65536 + (b * 256 + a)) := by
  obtain ⟨a, b, c, d, ha, hb, hc, hd, h1, h2⟩ := word4_exists G
  rw [Nat.mod_eq_of_lt hG] at h1
  exact ⟨a, b, c, d, ha, hb, hc, hd, h1, h2⟩

theorem putN_word4_top (a b c d v : Nat) (ha : a < 256) (hb : b < 256) (hc : c < 256) (hd : d < 256) :
    putN 24 8 v (a * 16777216 + (b * 65536 + (c * 256 + d))) = (v % 256) * 16777216 + (b * 65536 + (c * 256 + d)) := by
  rw [putN_arith]
  simp only [Nat.reduceAdd, Nat.reducePow]
  rw [Nat.div_eq_of_lt (by omega), digit_lo _ _ _ (by omega)]
  omega

/-- W1: replace the first (big-endian) byte of a 32-bit member through host-order mask operations -/
theorem word_set_top (G v : Nat) (hG : G < 4294967296) (hv : v < 256) :
    bswap 4 (((bswap 4 G &&& 0xffffff00) ||| v) % 4294967296) = putN 24 8 v G := by
  obtain ⟨a, b, c, d, ha, hb, hc, hd, h1, h2⟩ := word4_of_lt G hG
  rw [h2, and_range _ 8 24 0xffffff00 (by decide)]
  simp only [Nat.reducePow]
  rw [word4_hi24 _ _ _ _ hc hb ha, Nat.mod_eq_of_lt (show d * 65536 + (c * 256 + b) < 16777216 by omega),
    or_eq_add _ _ 8 (by omega) (by omega), Nat.mod_eq_of_lt (by omega)]
  rw [bswap4_digits' _ d c b v hd hc hb hv (by omega), h1, putN_word4_top _ _ _ _ _ ha hb hc hd, Nat.mod_eq_of_lt hv]


theorem getN_word4_top (a b c d : Nat) (ha : a < 256) (hb : b < 256) (hc : c < 256) (hd : d < 256) :
    getN 24 8 (a * 16777216 + (b * 65536 + (c * 256 + d))) = a := by
  rw [getN_arith]; simp only [Nat.reducePow]
  rw [digit_hi _ _ _ (by omega), Nat.mod_eq_of_lt ha]

theorem getN_word4_low24 (a b c d : Nat) (ha : a < 256) (hb : b < 256) (hc : c < 256) (hd : d < 256) :
    getN 0 24 (a * 16777216 + (b * 65536 + (c * 256 + d))) = b * 65536 + (c * 256 + d) := by
  rw [getN_arith]; simp only [Nat.reducePow, Nat.pow_zero, Nat.div_one]
  rw [digit_lo _ _ _ (by omega)]

theorem putN_word4_low24 (a b c d v : Nat) (ha : a < 256) (hb : b < 256) (hc : c < 256) (hd : d < 256) :
    putN 0 24 v (a * 16777216 + (b * 65536 + (c * 256 + d))) = a * 16777216 + v % 16777216 := by
  rw [putN_arith]
  simp only [Nat.reduceAdd, Nat.reducePow, Nat.pow_zero, Nat.mul_one, Nat.mod_one, Nat.add_zero]
  rw [digit_hi _ _ _ (by omega)]

/-- `snap_.control_org & 0xff` (host order) is the first byte in memory -/
theorem word_get_top (G : Nat) (hG : G < 4294967296) : bswap 4 G &&& 0xff = getN 24 8 G := by
  obtain ⟨a, b, c, d, ha, hb, hc, hd, h1, h2⟩ := word4_of_lt G hG
  rw [h2, and_low _ 8 0xff (by decide)]
  simp only [Nat.reducePow]
  rw [word4_b3 _ _ _ _ hc hb ha, h1, getN_word4_top _ _ _ _ ha hb hc hd]

/-- `be_to_host<uint32_t>(w & 0xffffff00)`: the last three bytes in memory as a big-endian number -/
theorem word_get_low24 (G : Nat) (hG : G < 4294967296) :
    bswap 4 ((bswap 4 G &&& 0xffffff00) % 4294967296) = getN 0 24 G := by
  obtain ⟨a, b, c, d, ha, hb, hc, hd, h1, h2⟩ := word4_of_lt G hG
  rw [h2, and_range _ 8 24 0xffffff00 (by decide)]
  simp only [Nat.reducePow]
  rw [word4_hi24 _ _ _ _ hc hb ha, Nat.mod_eq_of_lt (show d * 65536 + (c * 256 + b) < 16777216 by omega),
    Nat.mod_eq_of_lt (by omega)]
  rw [bswap4_digits' _ d c b 0 hd hc hb (by omega) (by omega), h1, getN_word4_low24 _ _ _ _ ha hb hc hd]
  omega

/-- `w = host_to_be<uint32_t>(v) | (w & 0xff)`: overwrite the last three bytes in memory, keep the first -/
theorem word_set_low24 (G v : Nat) (hG : G < 4294967296) (hv : v < 16777216) :
    bswap 4 ((bswap 4 (v % 4294967296) ||| (bswap 4 G &&& 0xff)) % 4294967296) = putN 0 24 v G := by
  rw [word_get_top G hG]
  obtain ⟨a, b, c, d, ha, hb, hc, hd, h1, h2⟩ := word4_of_lt G hG
  obtain ⟨a', b', c', d', ha', hb', hc', hd', h1', h2'⟩ := word4_of_lt v (by omega)
  have ha0 : a' = 0 := by omega
  subst ha0
  rw [Nat.mod_eq_of_lt (show v < 4294967296 by omega), h2', h1, getN_word4_top _ _ _ _ ha hb hc hd,
    or_eq_add _ _ 8 (by omega) (by omega), Nat.mod_eq_of_lt (by omega)]
  rw [bswap4_digits' _ d' c' b' a hd' hc' hb' ha (by omega), putN_word4_low24 _ _ _ _ _ ha hb hc hd, Nat.mod_eq_of_lt hv, h1']
  omega

theorem be32_shl24 (v : Nat) (hv : v < 256) : bswap 4 ((v <<< 24) % 4294967296) = v := by
  rw [Nat.shiftLeft_eq, Nat.mod_eq_of_lt (by simp only [Nat.reducePow]; omega)]
  simp only [Nat.reducePow]
  rw [bswap4_digits' _ v 0 0 0 hv (by omega) (by omega) (by omega) (by omega)]
  omega


/-- `w = (w & host_to_be(0xff)) | host_to_be(v << 8)`: overwrite the first three bytes in memory, keep the last -/
theorem word_set_hi24 (G v : Nat) (hG : G < 4294967296) (hv : v < 16777216) :
    bswap 4 (((bswap 4 G &&& 0xff000000) ||| bswap 4 ((v <<< 8) % 4294967296)) % 4294967296) = putN 8 24 v G := by
  obtain ⟨a, b, c, d, ha, hb, hc, hd, h1, h2⟩ := word4_of_lt G hG
  obtain ⟨a', b', c', d', ha', hb', hc', hd', h1', h2'⟩ := word4_of_lt v (by omega)
  have ha0 : a' = 0 := by omega
  subst ha0
  have e8 : (v <<< 8) % 4294967296 = b' * 16777216 + (c' * 65536 + (d' * 256 + 0)) := by
    rw [Nat.shiftLeft_eq]; simp only [Nat.reducePow]; omega
  rw [e8, bswap4_digits' _ b' c' d' 0 hb' hc' hd' (by omega) rfl, h2, and_range _ 24 8 0xff000000 (by decide)]
  simp only [Nat.reducePow]
  rw [word4_b0 _ _ _ _ hc hb ha, Nat.mod_eq_of_lt hd, or_eq_add _ _ 24 (by omega) (by omega), Nat.mod_eq_of_lt (by omega)]
  rw [bswap4_digits' _ d d' c' b' hd hd' hc' hb' (by omega), putN_arith]
  simp only [Nat.reduceAdd, Nat.reducePow]
  rw [Nat.div_eq_of_lt hG, Nat.mod_eq_of_lt hv, h1]
  have : (a * 16777216 + (b * 65536 + (c * 256 + d))) % 256 = d := word4_b3 _ _ _ _ hb hc hd
  rw [this, h1']
  omega

theorem be32_const_a : be32 0x00ffffff = 0xffffff00 := by decide
theorem be32_const_b : be32 0x000000ff = 0xff000000 := by decide


theorem getN32_lt (s X : Nat) : getN s 32 X < 4294967296 := getN_lt s 32 X

macro "unfold_mem" : tactic => `(tactic|
  simp (config := {decide := true}) only [ldS, stS, memGet, memSet, Nat.reduceAdd, Nat.reduceMul, Nat.reduceSub, Nat.reduceDiv,
    Nat.reducePow, ite_false, ite_true])

theorem SNAP_control_lens : (⟨"SNAP", "control", 40, 8, 1, SNAP_get_control, SNAP_set_control⟩ : CustomAcc).IsLens := by
  intro v X hv
  simp only [Nat.mul_one, Nat.div_one, Nat.reducePow] at hv ⊢
  constructor
  · simp only [SNAP_set_control, SNAP_control_org]
    unfold_mem
    rw [word_set_top _ _ (getN32_lt 16 X) hv, putN_sub' 24 8 16 32 40 _ _ (by decide) (by decide)]
  · simp only [SNAP_get_control, SNAP_control_org]
    unfold_mem
    rw [word_get_top _ (getN32_lt 16 X), getN_sub' 24 8 16 32 40 _ (by decide) (by decide)]

theorem SNAP_org_code_lens : (⟨"SNAP", "org_code", 16, 24, 1, SNAP_get_org_code, SNAP_set_org_code⟩ : CustomAcc).IsLens := by
  intro v X hv
  simp only [Nat.mul_one, Nat.div_one, Nat.reducePow] at hv ⊢
  constructor
  · simp only [SNAP_set_org_code, SNAP_get_control, SNAP_control_org, be32]
    unfold_mem
    rw [word_set_low24 _ _ (getN32_lt 16 X) hv, putN_sub' 0 24 16 32 16 _ _ (by decide) (by decide)]
  · simp only [SNAP_get_org_code, SNAP_control_org, be32]
    unfold_mem
    rw [word_get_low24 _ (getN32_lt 16 X), getN_sub' 0 24 16 32 16 _ (by decide) (by decide)]

theorem VXLAN_flags_lens : (⟨"VXLAN", "flags", 56, 8, 1, VXLAN_get_flags, VXLAN_set_flags⟩ : CustomAcc).IsLens := by
  intro v X hv
  simp only [Nat.mul_one, Nat.div_one, Nat.reducePow] at hv ⊢
  constructor
  · simp only [VXLAN_set_flags, VXLAN_flags, be32_const_a]
    simp only [be32, be32_shl24 v hv]
    unfold_mem
    rw [word_set_top _ _ (getN32_lt 32 X) hv, putN_sub' 24 8 32 32 56 _ _ (by decide) (by decide)]
  · simp only [VXLAN_get_flags, VXLAN_flags, be32]
    unfold_mem
    rw [Nat.mod_eq_of_lt (by have := bswap4_mod (getN 32 32 X); omega), bswap4_invol, Nat.mod_eq_of_lt (getN32_lt 32 X)]
    rw [Nat.shiftRight_eq_div_pow, ← getN_sub' 24 8 32 32 56 _ (by decide) (by decide), getN_arith 24 8]
    have := getN32_lt 32 X
    simp only [Nat.reducePow]; omega

theorem VXLAN_vni_lens : (⟨"VXLAN", "vni", 8, 24, 1, VXLAN_get_vni, VXLAN_set_vni⟩ : CustomAcc).IsLens := by
  intro v X hv
  simp only [Nat.mul_one, Nat.div_one, Nat.reducePow] at hv ⊢
  constructor
  · simp only [VXLAN_set_vni, VXLAN_vni, be32_const_b]
    simp only [be32]
    unfold_mem
    rw [word_set_hi24 _ _ (getN32_lt 0 X) hv, putN_sub' 8 24 0 32 8 _ _ (by decide) (by decide)]
  · simp only [VXLAN_get_vni, VXLAN_vni, be32]
    unfold_mem
    rw [Nat.mod_eq_of_lt (by have := bswap4_mod (getN 0 32 X); omega), bswap4_invol, Nat.mod_eq_of_lt (getN32_lt 0 X)]
    rw [Nat.shiftRight_eq_div_pow, ← getN_sub' 8 24 0 32 8 _ (by decide) (by decide), getN_arith 8 24]
    have := getN32_lt 0 X
    simp only [Nat.reducePow]; omega

/-! ### STP bridge identifiers -/
set_option exponentiation.threshold 512 in
theorem STP_root_id_lens : (⟨"STP", "root_id", 176, 64, 1, STP_get_id STP_root_id_priority STP_root_id_ext_id STP_root_id_ext_idL STP_root_id_id,
    STP_set_id STP_root_id_priority STP_root_id_ext_id STP_root_id_ext_idL STP_root_id_id⟩ : CustomAcc).IsLens := by
  intro v X hv
  simp only [Nat.mul_one, Nat.div_one] at hv ⊢
  constructor
  · simp only [STP_set_id, STP_root_id_priority, STP_root_id_ext_id, STP_root_id_ext_idL, STP_root_id_id]
    simp (config := {decide := true}) only [ldP, stP, memGet, memSet, Nat.reduceAdd, Nat.reduceMul, Nat.reduceSub, ite_true]
    generalize ha : v >>> 60 = a
    generalize hb : v % 2 ^ 48 = b
    generalize hc : (v >>> 48 &&& 4095) >>> 8 &&& 15 = c
    generalize hd : v >>> 48 &&& 4095 &&& 255 = d
    rewrite [putN_comm 176 48 236 4 b a X (by decide)]
    rewrite [putN_comm 232 4 236 4 c a _ (by decide)]
    rewrite [putN_comm 224 8 236 4 d a _ (by decide)]
    rewrite [putN_comm 224 8 232 4 d c _ (by decide)]
    rewrite [putN_adj' 176 48 8 224 56 _ _ _ (by decide) (by decide), putN_adj' 176 56 4 232 60 _ _ _ (by decide) (by decide),
      putN_adj' 176 60 4 236 64 _ _ _ (by decide) (by decide)]
    apply putN_congr
    subst ha hb hc hd
    simp only [and_low _ 12 4095 (by decide), and_low _ 4 15 (by decide), and_low _ 8 255 (by decide), Nat.shiftRight_eq_div_pow, Nat.reducePow, Nat.mod_mod]
    omega
  · simp only [STP_get_id, STP_root_id_priority, STP_root_id_ext_id, STP_root_id_ext_idL, STP_root_id_id]
    simp (config := {decide := true}) only [ldP, stP, memGet, memSet, Nat.reduceAdd, Nat.reduceMul, Nat.reduceSub, ite_true]
    rw [getN_adj' 176 60 4 236 64 X (by decide) (by decide), getN_adj' 176 56 4 232 60 X (by decide) (by decide),
      getN_adj' 176 48 8 224 56 X (by decide) (by decide)]
    have g1 := getN_lt 236 4 X
    have g2 := getN_lt 232 4 X
    have g3 := getN_lt 224 8 X
    have g4 := getN_lt 176 48 X
    generalize getN 236 4 X = p at *
    generalize getN 232 4 X = e1 at *
    generalize getN 224 8 X = e0 at *
    generalize getN 176 48 X = m at *
    simp only [Nat.reducePow] at g1 g2 g3 g4 ⊢
    rw [Nat.shiftLeft_eq, Nat.shiftLeft_eq, Nat.shiftLeft_eq, or_eq_add (e1 * 2 ^ 8) e0 8 (by omega) (by omega)]
    simp only [Nat.reducePow]
    rw [or_eq_add (p * 1152921504606846976) _ 60 (by omega) (by simp only [Nat.reducePow]; omega),
      or_eq_add _ m 48 (by omega) (by simp only [Nat.reducePow]; omega)]
    omega

set_option exponentiation.threshold 512 in
theorem STP_bridge_id_lens : (⟨"STP", "bridge_id", 80, 64, 1, STP_get_id STP_bridge_id_priority STP_bridge_id_ext_id STP_bridge_id_ext_idL STP_bridge_id_id,
    STP_set_id STP_bridge_id_priority STP_bridge_id_ext_id STP_bridge_id_ext_idL STP_bridge_id_id⟩ : CustomAcc).IsLens := by
  intro v X hv
  simp only [Nat.mul_one, Nat.div_one] at hv ⊢
  constructor
  · simp only [STP_set_id, STP_bridge_id_priority, STP_bridge_id_ext_id, STP_bridge_id_ext_idL, STP_bridge_id_id]
    simp (config := {decide := true}) only [ldP, stP, memGet, memSet, Nat.reduceAdd, Nat.reduceMul, Nat.reduceSub, ite_true]
    generalize ha : v >>> 60 = a
    generalize hb : v % 2 ^ 48 = b
    generalize hc : (v >>> 48 &&& 4095) >>> 8 &&& 15 = c
    generalize hd : v >>> 48 &&& 4095 &&& 255 = d
    rewrite [putN_comm 80 48 140 4 b a X (by decide)]
    rewrite [putN_comm 136 4 140 4 c a _ (by decide)]
    rewrite [putN_comm 128 8 140 4 d a _ (by decide)]
    rewrite [putN_comm 128 8 136 4 d c _ (by decide)]
    rewrite [putN_adj' 80 48 8 128 56 _ _ _ (by decide) (by decide), putN_adj' 80 56 4 136 60 _ _ _ (by decide) (by decide),
      putN_adj' 80 60 4 140 64 _ _ _ (by decide) (by decide)]
    apply putN_congr
    subst ha hb hc hd
    simp only [and_low _ 12 4095 (by decide), and_low _ 4 15 (by decide), and_low _ 8 255 (by decide), Nat.shiftRight_eq_div_pow, Nat.reducePow, Nat.mod_mod]
    omega
  · simp only [STP_get_id, STP_bridge_id_priority, STP_bridge_id_ext_id, STP_bridge_id_ext_idL, STP_bridge_id_id]
    simp (config := {decide := true}) only [ldP, stP, memGet, memSet, Nat.reduceAdd, Nat.reduceMul, Nat.reduceSub, ite_true]
    rw [getN_adj' 80 60 4 140 64 X (by decide) (by decide), getN_adj' 80 56 4 136 60 X (by decide) (by decide),
      getN_adj' 80 48 8 128 56 X (by decide) (by decide)]
    have g1 := getN_lt 140 4 X
    have g2 := getN_lt 136 4 X
    have g3 := getN_lt 128 8 X
    have g4 := getN_lt 80 48 X
    generalize getN 140 4 X = p at *
    generalize getN 136 4 X = e1 at *
    generalize getN 128 8 X = e0 at *
    generalize getN 80 48 X = m at *
    simp only [Nat.reducePow] at g1 g2 g3 g4 ⊢
    rw [Nat.shiftLeft_eq, Nat.shiftLeft_eq, Nat.shiftLeft_eq, or_eq_add (e1 * 2 ^ 8) e0 8 (by omega) (by omega)]
    simp only [Nat.reducePow]
    rw [or_eq_add (p * 1152921504606846976) _ 60 (by omega) (by simp only [Nat.reducePow]; omega),
      or_eq_add _ m 48 (by omega) (by simp only [Nat.reducePow]; omega)]
    omega


/-! ### 802.11 sequence control / BAR control: nibble and 12-bit fields of a little-endian uint16 member -/

theorem le16_set_low4_word (W v : Nat) (hW : W < 65536) (hv : v < 16) : (v ||| (W &&& 0xfff0)) % 65536 = putN 0 4 v W := by
  rw [and_range _ 4 12 0xfff0 (by decide), or_eq_add' _ _ 4 (by omega) (by omega)]
  arith_simp
  omega
theorem le16_set_hi12_word (W v : Nat) (hW : W < 65536) (hv : v < 4096) : ((v <<< 4) ||| (W &&& 0xf)) % 65536 = putN 4 12 v W := by
  rw [and_low _ 4 0xf (by decide), Nat.shiftLeft_eq, or_eq_add _ _ 4 (by omega) (by omega)]
  arith_simp
  omega
theorem getN16_lt (s X : Nat) : getN s 16 X < 65536 := getN_lt s 16 X

theorem LE16_low4_lens (B s : Nat) (c f : String) (hs : s = 8 * B + 0) :
    (⟨c, f, s, 4, 1, LE16_get_low4 ⟨B, 0, 16⟩, LE16_set_low4 ⟨B, 0, 16⟩⟩ : CustomAcc).IsLens := by
  intro v X hv
  simp only [Nat.mul_one, Nat.div_one, Nat.reducePow] at hv ⊢
  subst hs
  constructor
  · simp only [LE16_set_low4, memSet, memGet]
    rw [le16_set_low4_word _ _ (getN16_lt _ X) hv, putN_sub 0 4 _ 16 _ _ (by decide)]
  · simp only [LE16_get_low4, memGet]
    rw [and_low _ 4 0xf (by decide), ← getN_sub 0 4 (8 * B + 0) 16 X (by decide)]
    simp only [getN_arith 0 4, Nat.pow_zero, Nat.div_one]

theorem LE16_hi12_lens (B s : Nat) (c f : String) (hs : s = 8 * B + 0 + 4) :
    (⟨c, f, s, 12, 1, LE16_get_hi12 ⟨B, 0, 16⟩, LE16_set_hi12 ⟨B, 0, 16⟩⟩ : CustomAcc).IsLens := by
  intro v X hv
  simp only [Nat.mul_one, Nat.div_one, Nat.reducePow] at hv ⊢
  subst hs
  constructor
  · simp only [LE16_set_hi12, memSet, memGet]
    rw [le16_set_hi12_word _ _ (getN16_lt _ X) hv, putN_sub 4 12 _ 16 _ _ (by decide)]
  · simp only [LE16_get_hi12, memGet]
    rw [and_low _ 12 0xfff (by decide), ← getN_sub 4 12 (8 * B + 0) 16 X (by decide)]
    simp only [getN_arith 4 12, Nat.shiftRight_eq_div_pow]

/-! ### DHCPv6 -/
theorem DHCPv6_transaction_id_lens : (⟨"DHCPv6", "transaction_id", 0, 24, 1, DHCPv6_get_transaction_id, DHCPv6_set_transaction_id⟩ : CustomAcc).IsLens := by
  intro v X hv
  simp only [Nat.mul_one, Nat.div_one, Nat.reducePow] at hv ⊢
  constructor
  · simp only [DHCPv6_set_transaction_id, DHCPv6_header_data__1, DHCPv6_header_data__2, DHCPv6_header_data__3]
    simp (config := {decide := true}) only [memSet, Nat.reduceAdd, Nat.reduceMul, Nat.reduceSub, ite_true]
    generalize ha : (v % 4294967296) >>> 16 = a
    generalize hb : (v % 4294967296) >>> 8 = b
    generalize hc : (v % 4294967296) &&& 255 = c
    rewrite [putN_comm 0 8 8 8 c b _ (by decide), putN_comm 0 8 16 8 c a _ (by decide), putN_comm 8 8 16 8 b a _ (by decide)]
    rewrite [putN_adj' 0 8 8 8 16 _ _ _ (by decide) (by decide), putN_adj' 0 16 8 16 24 _ _ _ (by decide) (by decide)]
    apply putN_congr
    subst ha hb hc
    simp only [and_low _ 8 255 (by decide), Nat.shiftRight_eq_div_pow, Nat.reducePow, Nat.mod_mod]
    omega
  · simp only [DHCPv6_get_transaction_id, DHCPv6_header_data__1, DHCPv6_header_data__2, DHCPv6_header_data__3]
    simp (config := {decide := true}) only [memGet, Nat.reduceAdd, Nat.reduceMul, Nat.reduceSub, ite_true]
    rw [getN_adj' 0 16 8 16 24 X (by decide) (by decide), getN_adj' 0 8 8 8 16 X (by decide) (by decide)]
    have g1 := getN_lt 16 8 X
    have g2 := getN_lt 8 8 X
    have g3 := getN_lt 0 8 X
    generalize getN 16 8 X = p at *
    generalize getN 8 8 X = q at *
    generalize getN 0 8 X = r at *
    simp only [Nat.reducePow] at g1 g2 g3 ⊢
    rw [Nat.shiftLeft_eq, Nat.shiftLeft_eq, or_eq_add (p * 2 ^ 16) (q * 2 ^ 8) 16 (by omega) (by omega)]
    simp only [Nat.reducePow]
    rw [or_eq_add _ r 8 (by omega) (by omega)]
    omega


/-! ### LLC: address low bits (I/G, C/R) and the bit-fields of the three control formats -/

theorem getN8_lt (s X : Nat) : getN s 8 X < 256 := getN_lt s 8 X

theorem LLC_lowbit_lens (B s : Nat) (c f : String) (hs : s = 8 * B + 0) :
    (⟨c, f, s, 1, 1, LLC_get_lowbit ⟨B, 0, 8⟩, LLC_set_lowbit ⟨B, 0, 8⟩⟩ : CustomAcc).IsLens := by
  intro v X hv
  simp only [Nat.mul_one, Nat.div_one, Nat.reducePow] at hv ⊢
  subst hs
  constructor
  · simp only [LLC_set_lowbit, memSet, memGet]
    have h01 : v = 0 ∨ v = 1 := by omega
    rcases h01 with rfl | rfl
    · simp only [ne_eq, not_true_eq_false, ite_false]
      rw [and_fe_word _ (getN8_lt _ X), putN_sub 0 1 _ 8 _ _ (by decide)]
    · simp only [ne_eq, Nat.succ_ne_zero, not_false_eq_true, ite_true, Nat.one_ne_zero]
      rw [or_one_word _ (getN8_lt _ X), putN_sub 0 1 _ 8 _ _ (by decide)]
  · simp only [LLC_get_lowbit, memGet]
    rw [and_low _ 1 0x01 (by decide), ← getN_sub 0 1 (8 * B + 0) 8 X (by decide)]
    simp only [getN_arith 0 1, Nat.pow_zero, Nat.div_one]

/-- a bit-field member accessed directly in the little-endian view is the lens at its memory position -/
theorem LE_member_lens (B bit w s : Nat) (c f : String) (get : Nat → Nat) (set : Nat → Nat → Nat) (hs : s = 8 * B + bit)
    (hg : ∀ X, get X = memGet .le 0 ⟨B, bit, w⟩ X) (hset : ∀ v X, set v X = memSet .le 0 ⟨B, bit, w⟩ v X) :
    (⟨c, f, s, w, 1, get, set⟩ : CustomAcc).IsLens := by
  intro v X _
  subst hs
  simp only [Nat.mul_one, Nat.div_one, hg, hset, memGet, memSet, and_self]

/-! ### ICMP extension structure header: version (4) | reserved (12) in one big-endian uint16 -/
theorem ICMPExt_version_lens : (⟨"ICMPExtensionsStructure", "version", 12, 4, 1, ICMPExt_get_version, ICMPExt_set_version⟩ : CustomAcc).IsLens := by
  intro v X hv
  simp only [Nat.mul_one, Nat.div_one] at hv ⊢
  constructor
  · simp only [ICMPExt_set_version, ICMPExtensionsStructure_version_and_reserved_]
    mem_simp
    rw [and_low _ 12 0xfff (by decide), Nat.or_comm]
    have hW := getN_lt 0 16 X
    rw [Nat.shiftLeft_eq, or_eq_add _ _ 12 (by omega) (by omega)]
    arith_simp at hW ⊢
    omega
  · simp only [ICMPExt_get_version, ICMPExtensionsStructure_version_and_reserved_]
    mem_simp
    have hW := getN_lt 0 16 X
    rw [and_low _ 4 0xf (by decide)]
    arith_simp at hW ⊢
    omega

theorem ICMPExt_reserved_lens : (⟨"ICMPExtensionsStructure", "reserved", 0, 12, 1, ICMPExt_get_reserved, ICMPExt_set_reserved⟩ : CustomAcc).IsLens := by
  intro v X hv
  simp only [Nat.mul_one, Nat.div_one] at hv ⊢
  constructor
  · simp only [ICMPExt_set_reserved, ICMPExtensionsStructure_version_and_reserved_]
    mem_simp
    rw [and_range _ 12 4 0xf000 (by decide)]
    have hW := getN_lt 0 16 X
    rw [or_eq_add _ _ 12 (by omega) (by omega)]
    arith_simp at hW ⊢
    omega
  · simp only [ICMPExt_get_reserved, ICMPExtensionsStructure_version_and_reserved_]
    mem_simp
    rw [and_low _ 12 0xfff (by decide)]
    arith_simp
    omega

/-! ### BootP::chaddr for a 6-byte address: left-aligned in the 16-byte field, zero-filled -/
theorem BootP_chaddr_mac_lens : (⟨"BootP", "chaddr_mac", 1536, 128, 1208925819614629174706176, BootP_get_chaddr_mac, BootP_set_chaddr_mac⟩ : CustomAcc).IsLens := by
  intro v X hv
  simp only [Nat.reducePow] at hv
  have hv48 : v < 281474976710656 := by omega
  constructor
  · simp only [BootP_set_chaddr_mac]
    rw [putN_adj' 1536 80 48 1616 128 0 v X (by decide) (by decide)]
    apply putN_congr
    simp only [Nat.reducePow]
    omega
  · simp only [BootP_get_chaddr_mac]
    rw [getN_adj' 1536 80 48 1616 128 X (by decide) (by decide)]
    have := getN_lt 1536 80 X
    simp only [Nat.reducePow] at this ⊢
    omega


/-! ### LLC U format: the two modifier bit groups (bits 2-3 and 5-7 of the control octet) through the one public pair -/
theorem LLC_modifier_hi_lens : (⟨"LLCUnnumbered", "modifier_function_hi", 18, 2, 1, LLC_get_modifier_hi 3 LLCUnnumbered_mod_func1 LLCUnnumbered_mod_func2,
    LLC_set_modifier_hi 3 LLCUnnumbered_mod_func1 LLCUnnumbered_mod_func2⟩ : CustomAcc).IsLens := by
  intro v X hv
  simp only [Nat.mul_one, Nat.div_one, Nat.reducePow] at hv ⊢
  have hh := getN_lt 18 2 X
  have hl := getN_lt 21 3 X
  simp only [Nat.reducePow] at hh hl
  obtain ⟨a1, a2, a3⟩ := llc_mod_hi_arith v hv _ hh _ hl
  constructor
  · simp (config := {decide := true}) only [LLC_set_modifier_hi, LLC_set_modifier, LLC_get_modifier, LLCUnnumbered_mod_func1, LLCUnnumbered_mod_func2,
      memGet, memSet, ite_true, ite_false, Nat.reduceMul, Nat.reduceAdd]
    rw [putN_congr 18 2 _ v X (by simp only [Nat.reducePow]; rw [a1]; exact (Nat.mod_eq_of_lt hv).symm),
      putN_congr 21 3 _ (getN 21 3 X) _ (by simp only [Nat.reducePow]; rw [a2]; exact (Nat.mod_eq_of_lt hl).symm),
      ← getN_putN_disjoint 18 2 21 3 v X (by decide), putN_getN]
  · simp (config := {decide := true}) only [LLC_get_modifier_hi, LLC_get_modifier, LLCUnnumbered_mod_func1, LLCUnnumbered_mod_func2,
      memGet, ite_true, Nat.reduceMul, Nat.reduceAdd]
    exact a3

theorem LLC_modifier_lo_lens : (⟨"LLCUnnumbered", "modifier_function_lo", 21, 3, 1, LLC_get_modifier_lo 3 LLCUnnumbered_mod_func1 LLCUnnumbered_mod_func2,
    LLC_set_modifier_lo 3 LLCUnnumbered_mod_func1 LLCUnnumbered_mod_func2⟩ : CustomAcc).IsLens := by
  intro v X hv
  simp only [Nat.mul_one, Nat.div_one, Nat.reducePow] at hv ⊢
  have hh := getN_lt 18 2 X
  have hl := getN_lt 21 3 X
  simp only [Nat.reducePow] at hh hl
  obtain ⟨a1, a2, a3⟩ := llc_mod_lo_arith v hv _ hh _ hl
  constructor
  · simp (config := {decide := true}) only [LLC_set_modifier_lo, LLC_set_modifier, LLC_get_modifier, LLCUnnumbered_mod_func1, LLCUnnumbered_mod_func2,
      memGet, memSet, ite_true, ite_false, Nat.reduceMul, Nat.reduceAdd]
    rw [putN_congr 18 2 _ (getN 18 2 X) X (by simp only [Nat.reducePow]; rw [a1]; exact (Nat.mod_eq_of_lt hh).symm),
      putN_congr 21 3 _ v _ (by simp only [Nat.reducePow]; rw [a2]; exact (Nat.mod_eq_of_lt hv).symm), putN_getN]
  · simp (config := {decide := true}) only [LLC_get_modifier_lo, LLC_get_modifier, LLCUnnumbered_mod_func1, LLCUnnumbered_mod_func2,
      memGet, ite_true, Nat.reduceMul, Nat.reduceAdd]
    exact a3

/-- every hand-written model in `Custom.table` is the lens at its declared position -/
theorem table_sound : ∀ a ∈ table, a.IsLens := by
  intro a ha
  simp only [table, List.mem_cons, List.not_mem_nil, or_false] at ha
  rcases ha with rfl | rfl | rfl | rfl | rfl | rfl | rfl | rfl | rfl | rfl | rfl | rfl | rfl | rfl | rfl | rfl | rfl | rfl | rfl | rfl | rfl | rfl | rfl | rfl | rfl | rfl | rfl | rfl | rfl | rfl | rfl | rfl | rfl | rfl | rfl | rfl | rfl | rfl | rfl | rfl | rfl | rfl | rfl | rfl | rfl | rfl | rfl | rfl | rfl | rfl | rfl | rfl | rfl | rfl | rfl | rfl | rfl | rfl | rfl | rfl | rfl | rfl | rfl | rfl | rfl | rfl | rfl | rfl | rfl | rfl | rfl | rfl | rfl | rfl | rfl | rfl | rfl | rfl | rfl | rfl | rfl | rfl
  · exact IP_flags_lens
  · exact IP_fragment_offset_lens
  · exact IPv6_traffic_class_lens
  · exact IPv6_flow_label_lens
  · exact MPLS_label_lens
  · exact MPLS_experimental_lens
  · exact MPLS_bottom_of_stack_lens
  · exact Dot1Q_id_lens
  · exact SNAP_control_lens
  · exact SNAP_org_code_lens
  · exact TCP_flags_lens
  · exact TCP_flag_lens 7 (by decide) "flag_cwr"
  · exact TCP_flag_lens 6 (by decide) "flag_ece"
  · exact TCP_flag_lens 5 (by decide) "flag_urg"
  · exact TCP_flag_lens 4 (by decide) "flag_ack"
  · exact TCP_flag_lens 3 (by decide) "flag_psh"
  · exact TCP_flag_lens 2 (by decide) "flag_rst"
  · exact TCP_flag_lens 1 (by decide) "flag_syn"
  · exact TCP_flag_lens 0 (by decide) "flag_fin"
  · exact STP_root_id_lens
  · exact STP_bridge_id_lens
  · exact STP_timer_lens 27 48 "msg_age" (by decide)
  · exact STP_timer_lens 29 32 "max_age" (by decide)
  · exact STP_timer_lens 31 16 "hello_time" (by decide)
  · exact STP_timer_lens 33 0 "fwd_delay" (by decide)
  · exact DHCPv6_transaction_id_lens
  · exact LE16_low4_lens 22 176 _ _ (by decide)
  · exact LE16_hi12_lens 22 180 _ _ (by decide)
  · exact LE16_low4_lens 22 176 _ _ (by decide)
  · exact LE16_hi12_lens 22 180 _ _ (by decide)
  · exact LE16_low4_lens 16 128 _ _ (by decide)
  · exact LE16_low4_lens 18 144 _ _ (by decide)
  · exact LE16_hi12_lens 18 148 _ _ (by decide)
  · exact LE16_low4_lens 22 176 _ _ (by decide)
  · exact LE16_hi12_lens 22 180 _ _ (by decide)
  · exact LE16_low4_lens 22 176 _ _ (by decide)
  · exact LE16_hi12_lens 22 180 _ _ (by decide)
  · exact LE16_low4_lens 22 176 _ _ (by decide)
  · exact LE16_hi12_lens 22 180 _ _ (by decide)
  · exact LE16_low4_lens 22 176 _ _ (by decide)
  · exact LE16_hi12_lens 22 180 _ _ (by decide)
  · exact LE16_low4_lens 22 176 _ _ (by decide)
  · exact LE16_hi12_lens 22 180 _ _ (by decide)
  · exact LE16_low4_lens 22 176 _ _ (by decide)
  · exact LE16_hi12_lens 22 180 _ _ (by decide)
  · exact LE16_low4_lens 22 176 _ _ (by decide)
  · exact LE16_hi12_lens 22 180 _ _ (by decide)
  · exact LE16_low4_lens 22 176 _ _ (by decide)
  · exact LE16_hi12_lens 22 180 _ _ (by decide)
  · exact LE16_low4_lens 22 176 _ _ (by decide)
  · exact LE16_hi12_lens 22 180 _ _ (by decide)
  · exact LE16_low4_lens 22 176 _ _ (by decide)
  · exact LE16_hi12_lens 22 180 _ _ (by decide)
  · exact LE16_low4_lens 22 176 _ _ (by decide)
  · exact LE16_hi12_lens 22 180 _ _ (by decide)
  · exact LE16_low4_lens 22 176 _ _ (by decide)
  · exact LE16_hi12_lens 22 180 _ _ (by decide)
  · exact LE16_low4_lens 22 176 _ _ (by decide)
  · exact LE16_hi12_lens 22 180 _ _ (by decide)
  · exact LE16_low4_lens 16 128 _ _ (by decide)
  · exact LE16_low4_lens 18 144 _ _ (by decide)
  · exact LE16_hi12_lens 18 148 _ _ (by decide)
  · exact LLC_lowbit_lens 0 0 _ _ (by decide)
  · exact LLC_lowbit_lens 1 8 _ _ (by decide)
  · exact LLC_lowbit_lens 0 0 _ _ (by decide)
  · exact LLC_lowbit_lens 1 8 _ _ (by decide)
  · exact LLC_lowbit_lens 0 0 _ _ (by decide)
  · exact LLC_lowbit_lens 1 8 _ _ (by decide)
  · exact LE_member_lens 2 1 7 17 _ _ _ _ (by decide) (by intro X; simp (config := {decide := true}) only [LLC_get_send_seq, LLC_set_send_seq, LLCInfo_send_seq_num, ite_true, ite_false, or_true, true_or]) (by intro v X; simp (config := {decide := true}) only [LLC_get_send_seq, LLC_set_send_seq, LLCInfo_send_seq_num, ite_true, ite_false])
  · exact LE_member_lens 3 0 1 24 _ _ _ _ (by decide) (by intro X; simp (config := {decide := true}) only [LLC_get_poll_final, LLC_set_poll_final, LLCInfo_poll_final_bit, ite_true, ite_false, or_true, true_or]) (by intro v X; simp (config := {decide := true}) only [LLC_get_poll_final, LLC_set_poll_final, LLCInfo_poll_final_bit, ite_true, ite_false])
  · exact LE_member_lens 3 1 7 25 _ _ _ _ (by decide) (by intro X; simp (config := {decide := true}) only [LLC_get_recv_seq, LLC_set_recv_seq, LLCInfo_recv_seq_num, ite_true, ite_false, or_true, true_or]) (by intro v X; simp (config := {decide := true}) only [LLC_get_recv_seq, LLC_set_recv_seq, LLCInfo_recv_seq_num, ite_true, ite_false])
  · exact LE_member_lens 2 2 2 18 _ _ _ _ (by decide) (by intro X; simp (config := {decide := true}) only [LLC_get_super_func, LLC_set_super_func, LLCSupervisory_supervisory_func, ite_true, ite_false, or_true, true_or]) (by intro v X; simp (config := {decide := true}) only [LLC_get_super_func, LLC_set_super_func, LLCSupervisory_supervisory_func, ite_true, ite_false])
  · exact LE_member_lens 3 0 1 24 _ _ _ _ (by decide) (by intro X; simp (config := {decide := true}) only [LLC_get_poll_final, LLC_set_poll_final, LLCSupervisory_poll_final_bit, ite_true, ite_false, or_true, true_or]) (by intro v X; simp (config := {decide := true}) only [LLC_get_poll_final, LLC_set_poll_final, LLCSupervisory_poll_final_bit, ite_true, ite_false])
  · exact LE_member_lens 3 1 7 25 _ _ _ _ (by decide) (by intro X; simp (config := {decide := true}) only [LLC_get_recv_seq, LLC_set_recv_seq, LLCSupervisory_recv_seq_num, ite_true, ite_false, or_true, true_or]) (by intro v X; simp (config := {decide := true}) only [LLC_get_recv_seq, LLC_set_recv_seq, LLCSupervisory_recv_seq_num, ite_true, ite_false])
  · exact LE_member_lens 2 4 1 20 _ _ _ _ (by decide) (by intro X; simp (config := {decide := true}) only [LLC_get_poll_final, LLC_set_poll_final, LLCUnnumbered_poll_final_bit, ite_true, ite_false, or_true, true_or]) (by intro v X; simp (config := {decide := true}) only [LLC_get_poll_final, LLC_set_poll_final, LLCUnnumbered_poll_final_bit, ite_true, ite_false])
  · exact LLC_modifier_hi_lens
  · exact LLC_modifier_lo_lens
  · exact ICMPExt_version_lens
  · exact ICMPExt_reserved_lens
  · exact BootP_chaddr_mac_lens
  · exact VXLAN_flags_lens
  · exact VXLAN_vni_lens

end Tins.Fields.Custom
