import TinsModel.Fields.Spec
import TinsModel.Fields.Custom
/- The executable model of "one setter call on a header object" (code-shaped accessors: generated one-statement
   accessors + hand-written shift/mask accessors) and the executable spec oracle (lens at the protocol-specified
   position, from Spec.lean only).  Core Lean only. -/
namespace Tins.Fields

/-- a modelled accessor pair on the image number -/
structure Acc where
  get : Nat → Nat
  set : Nat → Nat → Nat

/-- what the translator generated for a class -/
def genOf (cls : String) : Option ClassGen := Gen.byClass.find? (·.name == cls)

/-- the model of the accessor pair of a row: the one-statement accessor the translator recognised in the current
    source, else the hand-written model -/
def accOfIn (g : ClassGen) (k : Cls) (fld : String) : Option Acc :=
  match g.simple.find? (·.fld == fld) with
  | some a => some ⟨a.get k.order k.len, a.set k.order k.len⟩
  | none =>
    match Custom.lookup k.name fld with
    | some c => some ⟨c.get, c.set⟩
    | none => none

def accOf (k : Cls) (fld : String) : Option Acc :=
  match genOf k.name with
  | some g => accOfIn g k fld
  | none => none

def argOfIn (g : ClassGen) (fld : String) : Option ArgInfo := g.args.find? (·.fld == fld)

def argOf (cls fld : String) : Option ArgInfo :=
  match genOf cls with
  | some g => argOfIn g fld
  | none => none

/-- `small_uint<n>::small_uint(repr_type val)`: `if (val > max_value) throw value_too_large();` with
    `max_value = 2^n - 1` -/
def smallAccepts (n v : Nat) : Bool := !(v > 2 ^ n - 1)

inductive SetResult | ok (X : Nat) | valueTooLarge | domain | unmodelled

def SetResult.rejected : SetResult → Bool
  | .valueTooLarge => true
  | _ => false

/-- one public setter call: parameter conversion (domain of the C++ parameter type, `small_uint` range check),
    then the accessor body -/
def setStep (k : Cls) (fld : String) (v X : Nat) : SetResult :=
  match argOf k.name fld, accOf k fld with
  | some a, some acc =>
    if v ≥ 2 ^ a.dom then .domain
    else match a.small with
      | some n => if smallAccepts n v then .ok (acc.set v X) else .valueTooLarge
      | none => .ok (acc.set v X)
  | _, _ => .unmodelled

/-- what `serialize()` shows of the header: the image, except the runs the class derives at serialisation time -/
def serOf (X mask : Nat) : Nat := X ^^^ (X &&& mask)

/-- all getters of a class, in table order (`none`: no model for that row) -/
def gettersOf (k : Cls) (X : Nat) : List (Option Nat) :=
  (rowsOf k.name).map (fun r => (accOf k r.fld).map (fun a => a.get X))

/-- every row of the class has a model -/
def modelled (k : Cls) : Bool := (rowsOf k.name).all (fun r => (accOf k r.fld).isSome)

/-! ### spec oracle (uses Spec.lean only) -/

/-- the abstract state "tuple of field values" turned back into an image: every row's value at its specified place -/
def reconstruct (k : Cls) (vals : List (Row × Nat)) : Nat :=
  vals.foldl (fun X (r, v) => r.put k.len v X) 0

def lowestBit (n : Nat) : Nat := (List.range (n.log2 + 1)).find? (fun i => n.testBit i) |>.getD 0

/-- consistency of the wire image with the getters: every field outside the derived runs holds its getter's value -/
def wireGetterCheck (k : Cls) (mask ser : Nat) (vals : List (Row × Nat)) : Option String :=
  (vals.find? (fun (r, v) => (r.spec.mask k.len) &&& mask == 0 && r.get k.len ser != v)).map
    (fun (r, v) => s!"violates wire-getter {r.fld} getter={v} wire={r.get k.len ser}")

/-- verdict of the oracle on one `set f v` step, given the observed getters and serialisation before and after -/
def oracleSet (k : Cls) (f : Row) (v : Nat) (res : String) (mask : Nat)
    (before after : List (Row × Nat)) (serB serA : Nat) : String :=
  if !(f.representable v) then
    if res == "ok" then s!"violates unrepresentable-accepted {f.fld} v={v} getter={(after.find? (·.1.fld == f.fld)).map (·.2)}"
    else if after.map (·.2) != before.map (·.2) || serA != serB then s!"violates rejected-but-changed {f.fld}"
    else "ok"
  else if res != "ok" then s!"violates representable-rejected {f.fld} v={v} res={res}"
  else
    match after.find? (·.1.fld == f.fld) with
    | none => "violates no-such-getter"
    | some (_, got) =>
      if got != v then s!"violates get-after-set {f.fld} set={v} got={got}" else
      let Xb := reconstruct k before
      let Xa := f.put k.len v Xb
      match after.find? (fun (g, gv) => g.get k.len Xa != gv) with
      | some (g, gv) =>
        let kind := if f.spec.disjoint g.spec k.len then "other-getter-changed" else "overlapping-getter"
        s!"violates {kind} {f.fld} {g.fld} expected={g.get k.len Xa} got={gv}"
      | none =>
        let fm := f.spec.mask k.len
        let diff := serA ^^^ serB
        let outside := diff ^^^ (diff &&& fm)
        if outside != 0 then s!"violates serialization-outside-field {f.fld} bit={lowestBit outside}" else
        let vis := fm ^^^ (fm &&& mask)
        if serA &&& vis != (f.put k.len v 0) &&& vis then s!"violates wire-value {f.fld} v={v}" else
        match wireGetterCheck k mask serA after with
        | some s => s
        | none => "ok"

end Tins.Fields
