import TinsModel.Fields.Layout
import TinsModel.Fields.LensLemmas
/- One-statement accessors: a decidable certificate `simpleOK` (member position + conversion vs. specified position)
   and its soundness — a certified accessor IS the lens at the specified position, for all values and images. -/
namespace Tins.Fields

/-- certificate: accessor `a` (member laid out by the compiler + conversion found in the source) implements the
    protocol field `f` of an `L`-byte header in view `o` -/
def simpleOK (o : Order) (L : Nat) (a : SimpleAcc) (f : FieldSpec) : Bool :=
  f.order == o && a.mem.width == f.width &&
  match a.conv, o with
  | .bytes, .be => a.mem.bit == 0 && 8 * (L - a.mem.byteOff) - a.mem.width == f.shift L
  | .bytes, .le => a.mem.bit == 0 && 8 * a.mem.byteOff == f.shift L
  | .be, .be => a.mem.bit == 0 && (a.mem.width == 16 || a.mem.width == 32 || a.mem.width == 64) && 8 * (L - a.mem.byteOff) - a.mem.width == f.shift L
  | .be, .le => false
  | .bool01, .be => a.mem.width == 1 && a.mem.bit + a.mem.width ≤ 8 && 8 * (L - 1 - a.mem.byteOff) + a.mem.bit == f.shift L
  | .bool01, .le => a.mem.width == 1 && 8 * a.mem.byteOff + a.mem.bit == f.shift L
  | _, .be => a.mem.bit + a.mem.width ≤ 8 && 8 * (L - 1 - a.mem.byteOff) + a.mem.bit == f.shift L
  | _, .le => 8 * a.mem.byteOff + a.mem.bit == f.shift L

attribute [local irreducible] getN putN

theorem simple_sound (o : Order) (L : Nat) (a : SimpleAcc) (f : FieldSpec) (h : simpleOK o L a f = true)
    (v X : Nat) (hv : v < 2 ^ f.width) :
    a.set o L v X = putField f L v X ∧ a.get o L X = getField f L X := by
  obtain ⟨cls, fld, ⟨B, bit, w⟩, cv⟩ := a
  obtain ⟨ord, off, fw⟩ := f
  simp only [simpleOK, Bool.and_eq_true, beq_iff_eq] at h
  obtain ⟨⟨ho, hw⟩, h⟩ := h
  subst hw
  simp only [putField, getField] at hv ⊢
  generalize hS : FieldSpec.shift ⟨ord, off, w⟩ L = S at h ⊢
  cases cv <;> cases o <;> simp only [Bool.and_eq_true, Bool.or_eq_true, beq_iff_eq, decide_eq_true_eq, Bool.false_eq_true] at h
  case none.be =>
    obtain ⟨h1, h2⟩ := h
    simp only [SimpleAcc.set, SimpleAcc.get, memSet, memGet, convSet, convGet, h1, h2, ite_true, and_self]
  case none.le =>
    simp only [SimpleAcc.set, SimpleAcc.get, memSet, memGet, convSet, convGet, h, and_self]
  case be.be =>
    obtain ⟨⟨h0, hw⟩, h2⟩ := h
    subst h0
    rcases hw with (hw | hw) | hw
    · subst hw
      simp (config := {decide := true}) only [SimpleAcc.set, SimpleAcc.get, memSet, memGet, convSet, convGet, ite_false, h2, Nat.reduceDiv, Nat.reducePow,
        bswap2_mod, bswap2_mod_arg, bswap2_invol, Nat.mod_mod, Nat.reduceAdd]
      constructor
      · apply putN_congr; simp only [Nat.reducePow, Nat.mod_mod]
      · exact Nat.mod_eq_of_lt (getN_lt S 16 X)
    · subst hw
      simp (config := {decide := true}) only [SimpleAcc.set, SimpleAcc.get, memSet, memGet, convSet, convGet, ite_false, h2, Nat.reduceDiv, Nat.reducePow,
        bswap4_mod, bswap4_mod_arg, bswap4_invol, Nat.mod_mod, Nat.reduceAdd]
      constructor
      · apply putN_congr; simp only [Nat.reducePow, Nat.mod_mod]
      · exact Nat.mod_eq_of_lt (getN_lt S 32 X)
    · subst hw
      simp (config := {decide := true}) only [SimpleAcc.set, SimpleAcc.get, memSet, memGet, convSet, convGet, ite_false, h2, Nat.reduceDiv, Nat.reducePow,
        bswap8_mod, bswap8_mod_arg, bswap8_invol, Nat.mod_mod, Nat.reduceAdd]
      constructor
      · apply putN_congr; simp only [Nat.reducePow, Nat.mod_mod]
      · exact Nat.mod_eq_of_lt (getN_lt S 64 X)
  case le.be =>
    obtain ⟨h1, h2⟩ := h
    simp only [SimpleAcc.set, SimpleAcc.get, memSet, memGet, convSet, convGet, h1, h2, ite_true, and_self]
  case le.le =>
    simp only [SimpleAcc.set, SimpleAcc.get, memSet, memGet, convSet, convGet, h, and_self]
  case bool01.be =>
    obtain ⟨⟨hw, h1⟩, h2⟩ := h
    subst hw
    have hv' : v < 2 := by simpa using hv
    have e : (if v ≠ 0 then 1 else 0) = v := by split <;> omega
    simp only [SimpleAcc.set, SimpleAcc.get, memSet, memGet, convSet, convGet, h1, h2, e, ite_true, and_self]
  case bool01.le =>
    obtain ⟨hw, h2⟩ := h
    subst hw
    have hv' : v < 2 := by simpa using hv
    have e : (if v ≠ 0 then 1 else 0) = v := by split <;> omega
    simp only [SimpleAcc.set, SimpleAcc.get, memSet, memGet, convSet, convGet, h2, e, and_self]
  case bytes.be =>
    obtain ⟨_, h2⟩ := h
    simp only [SimpleAcc.set, SimpleAcc.get, h2, and_self]
  case bytes.le =>
    obtain ⟨_, h2⟩ := h
    simp only [SimpleAcc.set, SimpleAcc.get, h2, and_self]

end Tins.Fields
