import TinsModel.Fields.Model
import TinsModel.Fields.SimpleLemmas
/- Decidable certificate tying the three tables together (Spec.rows hand-written, Gen.* generated from the source,
   Custom.table hand-written models): core Lean only.

   `Spec.rows` is walked block by block (`Gen.segments`: the contiguous class blocks of the table), so that the class
   record and the generated per-class tables are looked up once per class and a field is looked up among the accessors
   of its own class only (kernel evaluation of string comparisons is what the certificate costs). -/
namespace Tins.Fields

/-- the accessor model of row `r` is certified to be the lens at the specified position -/
def rowCertIn (g : ClassGen) (k : Cls) (r : Row) : Bool :=
  r.spec.fits k.len &&
  match g.simple.find? (·.fld == r.fld) with
  | some a => r.scale == 1 && simpleOK k.order k.len a r.spec
  | none =>
    match Custom.lookup k.name r.fld with
    | some c => c.shift == r.spec.shift k.len && c.width == r.spec.width && c.scale == r.scale && 0 < r.scale
    | none => false

/-- a `small_uint<n>` parameter has exactly the specified width of its field (so: unrepresentable ⇒ rejected);
    every row with a public setter has a parameter record -/
def smallOKIn (g : ClassGen) (_k : Cls) (r : Row) : Bool :=
  match argOfIn g r.fld with
  | some a => (match a.small with | some n => n == r.spec.width && r.scale == 1 | none => true)
  | none => r.access == .ro

/-- one class block: the class exists, the compiler's `sizeof` of the header image is the specified header length,
    every row of the block belongs to the class and satisfies `p` -/
def blockCert (p : ClassGen → Cls → Row → Bool) (name : String) (rs : List Row) : Bool :=
  match classOf name, genOf name with
  | some k, some g => k.name == name && g.imageLen == k.len && rs.all (fun r => r.cls == name && p g k r)
  | _, _ => false

/-- walk the table block by block; nothing may be left over -/
def certSegs (p : ClassGen → Cls → Row → Bool) : List (String × Nat) → List Row → Bool
  | [], rest => rest.isEmpty
  | (n, c) :: segs, l => blockCert p n (l.take c) && certSegs p segs (l.drop c)

/-- every row of the specification table: its class exists, the header image has the specified length, the field fits,
    and its accessor model is certified -/
def allCert : Bool := certSegs rowCertIn Gen.segments rows

/-- every `small_uint<n>` parameter has exactly the specified width of its field -/
def smallCert : Bool := certSegs smallOKIn Gen.segments rows

/-- the setter's parameter type admits a value the field cannot hold, and no `small_uint` range check guards it -/
def truncatesRow (r : Row) (a : ArgInfo) : Bool := a.small.isNone && !(r.representable (2 ^ a.dom - 1))

def truncSegs : List (String × Nat) → List Row → List (String × String)
  | [], _ => []
  | (n, c) :: segs, l =>
    (match genOf n with
     | some g => (l.take c).filterMap (fun r => match argOfIn g r.fld with
        | some a => if truncatesRow r a then some (r.cls, r.fld) else none
        | none => none)
     | none => []) ++ truncSegs segs (l.drop c)

/-- the (class, field) pairs whose setter silently truncates -/
def truncating : List (String × String) := truncSegs Gen.segments rows

end Tins.Fields
