import TinsModel.Fields.Model
import TinsModel.Fields.SimpleLemmas
/- Decidable certificate tying the three tables together (Spec.rows hand-written, Gen.* generated from the source,
   Custom.table hand-written models): core Lean only. -/
namespace Tins.Fields

/-- the accessor model of row `r` is certified to be the lens at the specified position -/
def rowCert (k : Cls) (r : Row) : Bool :=
  match Gen.simple.find? (fun a => a.cls == k.name && a.fld == r.fld) with
  | some a => r.scale == 1 && simpleOK k.order k.len a r.spec
  | none =>
    match Custom.lookup k.name r.fld with
    | some c => c.shift == r.spec.shift k.len && c.width == r.spec.width && c.scale == r.scale && 0 < r.scale
    | none => false

/-- every row of the specification table: its class exists, the compiler's `sizeof` of the header image is the
    specified header length, the field fits, and its accessor model is certified -/
def allCert : Bool :=
  rows.all (fun r => match classOf r.cls with
    | some k => (Gen.imageLen.find? (·.1 == k.name)).map (·.2) == some k.len && r.spec.fits k.len && rowCert k r
    | none => false)

/-- every `small_uint<n>` parameter has exactly the specified width of its field (so: unrepresentable ⇒ rejected) -/
def smallCert : Bool :=
  Gen.args.all (fun a => match a.small, rowOf a.cls a.fld with
    | some n, some r => n == r.spec.width && r.scale == 1
    | none, some _ => true
    | _, none => false)

/-- the setter's parameter type admits a value the field cannot hold, and no `small_uint` range check guards it -/
def truncates (a : ArgInfo) : Bool :=
  match a.small, rowOf a.cls a.fld with
  | none, some r => !(r.representable (2 ^ a.dom - 1))
  | _, _ => false

def truncating : List (String × String) := (Gen.args.filter truncates).map (fun a => (a.cls, a.fld))

end Tins.Fields
