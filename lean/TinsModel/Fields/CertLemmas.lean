import TinsModel.Fields.Cert
import TinsModel.Fields.CustomLemmas
/- Soundness of the certificate: a certified row's accessor model is the specified lens (all values, all images). -/
namespace Tins.Fields

theorem lookup_mem (c f : String) (a : Custom.CustomAcc) (h : Custom.lookup c f = some a) : a ∈ Custom.table :=
  List.mem_of_find?_eq_some h

/-- what it means for the accessor model of a row to be exactly the specified lens -/
def RowIsLens (k : Cls) (r : Row) : Prop :=
  ∃ acc, accOf k r.fld = some acc ∧
    ∀ v X : Nat, r.representable v = true → acc.set v X = r.put k.len v X ∧ acc.get X = r.get k.len X

/-- the block walk reaches every row of the table: a certified table certifies each of its rows, with the class record
    and the generated per-class tables that the name lookups (`classOf`, `genOf`) return -/
theorem certSegs_mem (p : ClassGen → Cls → Row → Bool) : ∀ (segs : List (String × Nat)) (l : List Row),
    certSegs p segs l = true → ∀ r ∈ l, ∃ k g, classOf r.cls = some k ∧ genOf r.cls = some g ∧ k.name = r.cls ∧ p g k r = true := by
  intro segs
  induction segs with
  | nil =>
    intro l h r hr
    simp only [certSegs, List.isEmpty_iff] at h
    subst h
    cases hr
  | cons sc segs ih =>
    obtain ⟨n, c⟩ := sc
    intro l h r hr
    simp only [certSegs, Bool.and_eq_true] at h
    obtain ⟨hb, hrest⟩ := h
    rw [← List.take_append_drop c l, List.mem_append] at hr
    rcases hr with hr | hr
    · unfold blockCert at hb
      split at hb
      · rename_i k g hk hg
        simp only [Bool.and_eq_true, beq_iff_eq, List.all_eq_true] at hb
        obtain ⟨⟨hkn, _⟩, hall⟩ := hb
        obtain ⟨hc, hp⟩ := hall r hr
        refine ⟨k, g, ?_, ?_, ?_, hp⟩
        · rw [hc]; exact hk
        · rw [hc]; exact hg
        · rw [hc]; exact hkn
      · exact absurd hb (by simp)
    · exact ih _ hrest r hr

theorem rowCertIn_sound (g : ClassGen) (k : Cls) (r : Row) (hg : genOf k.name = some g) (h : rowCertIn g k r = true) :
    r.spec.fits k.len = true ∧ RowIsLens k r := by
  unfold rowCertIn at h
  simp only [Bool.and_eq_true] at h
  obtain ⟨hfit, h⟩ := h
  refine ⟨hfit, ?_⟩
  unfold RowIsLens accOf
  rw [hg]
  simp only
  unfold accOfIn
  split at h
  · rename_i a ha
    simp only [Bool.and_eq_true, beq_iff_eq] at h
    obtain ⟨hs, hok⟩ := h
    rw [ha]
    refine ⟨_, rfl, ?_⟩
    intro v X hv
    simp only [Row.representable, hs, Nat.mul_one, decide_eq_true_eq] at hv
    have := simple_sound k.order k.len a r.spec hok v X hv
    simp only [Row.put, Row.get, hs, Nat.mul_one, Nat.div_one]
    exact this
  · rename_i hnone
    rw [hnone]
    split at h
    · rename_i c hc
      simp only [Bool.and_eq_true, beq_iff_eq, decide_eq_true_eq] at h
      obtain ⟨⟨⟨h1, h2⟩, h3⟩, _⟩ := h
      rw [hc]
      refine ⟨_, rfl, ?_⟩
      intro v X hv
      simp only [Row.representable, decide_eq_true_eq] at hv
      have hl := Custom.table_sound c (lookup_mem _ _ _ hc) v X (by rw [h2, h3]; exact hv)
      simp only [Row.put, Row.get, putField, getField]
      rw [← h1, ← h2, ← h3]
      exact hl
    · exact absurd h (by simp)

end Tins.Fields
