import TinsModel.Fields.Cert
import TinsModel.Fields.CustomLemmas
/- Soundness of the certificate: a certified row's accessor model is the specified lens (all values, all images). -/
namespace Tins.Fields

theorem lookup_mem (c f : String) (a : Custom.CustomAcc) (h : Custom.lookup c f = some a) : a ∈ Custom.table :=
  List.mem_of_find?_eq_some h

/-- what it means for the accessor model of a row to be exactly the specified lens -/
def RowIsLens (k : Cls) (r : Row) : Prop :=
  ∃ acc, accOf k r.fld = some acc ∧
    ∀ v X : Nat, r.representable v = true → acc.set v X = r.put k.len v X ∧ acc.get X = r.get k.len X

theorem rowCert_sound (k : Cls) (r : Row) (h : rowCert k r = true) : RowIsLens k r := by
  unfold rowCert at h
  unfold RowIsLens accOf
  split at h
  · rename_i a ha
    simp only [Bool.and_eq_true, beq_iff_eq] at h
    obtain ⟨hs, hok⟩ := h
    rw [ha]
    refine ⟨_, rfl, ?_⟩
    intro v X hv
    simp only [Row.representable, hs, Nat.mul_one, decide_eq_true_eq] at hv
    have := simple_sound k.order k.len a r.spec hok v X hv
    simp only [Row.put, Row.get, hs, Nat.mul_one, Nat.div_one]
    exact this
  · rename_i hnone
    rw [hnone]
    split at h
    · rename_i c hc
      simp only [Bool.and_eq_true, beq_iff_eq, decide_eq_true_eq] at h
      obtain ⟨⟨⟨h1, h2⟩, h3⟩, _⟩ := h
      rw [hc]
      refine ⟨_, rfl, ?_⟩
      intro v X hv
      simp only [Row.representable, decide_eq_true_eq] at hv
      have hl := Custom.table_sound c (lookup_mem _ _ _ hc) v X (by rw [h2, h3]; exact hv)
      simp only [Row.put, Row.get, putField, getField]
      rw [← h1, ← h2, ← h3]
      exact hl
    · exact absurd h (by simp)

end Tins.Fields
