import TinsModel.Wire.Ip.Family
import TinsModel.Basic.CursorLemmas
import TinsModel.Basic.CodecLemmas
import TinsModel.Wire.ChainLemmas
import TinsModel.Wire.IfaceLemmas
/-
  Helper lemmas of the Ip family: the outcome predicate `ParseSafe`, closed forms of the stream operations, list slicing
  facts, byte / integer codec facts.
-/
namespace Tins.Wire.Ip
open Tins Tins.Wire

/-- outcome classes of a parsing constructor: a packet, or `malformed_packet` — never a fault, never another exception -/
def ParseSafe {α} (r : Out α) : Prop := (∃ a, r = .ok a) ∨ r = .throw .malformedPacket

theorem ParseSafe.ok {α} (a : α) : ParseSafe (Out.ok a) := .inl ⟨a, rfl⟩
theorem ParseSafe.malformed {α} : ParseSafe (Out.throw .malformedPacket : Out α) := .inr rfl

theorem ParseSafe.bind {α β} {x : Out α} {f : α → Out β} (hx : ParseSafe x)
    (hf : ∀ a, x = .ok a → ParseSafe (f a)) : ParseSafe (x >>= f) := by
  rcases hx with ⟨a, rfl⟩ | rfl
  · exact hf a rfl
  · exact .inr rfl

theorem ParseSafe.not_fault {α} {r : Out α} (h : ParseSafe r) : r.isFault = false := by
  rcases h with ⟨a, rfl⟩ | rfl <;> rfl

theorem map_ok {α β} {x : Out α} {f : α → β} {r : β} (h : (x >>= fun a => pure (f a)) = .ok r) :
    ∃ a, x = .ok a ∧ f a = r := by
  cases x with
  | ok a => exact ⟨a, rfl, by simpa [bind, Out.bind, pure] using h⟩
  | throw e => cases h
  | fault s => cases h

/-- closed form of `read(n)` on a fresh stream over `b` -/
theorem read_ofBytes (b : Bytes) (n : Nat) :
    (Cursor.ofBytes b).read n =
      if b.length < n then .throw .malformedPacket else .ok (b.take n, ⟨b.drop n, b.length - n⟩) := by
  unfold Cursor.read Cursor.canRead Cursor.ofBytes
  by_cases h : b.length < n
  · have : ¬ n ≤ b.length := by omega
    simp [h, this]
  · have : n ≤ b.length := by omega
    simp [h, this]

/-- outcome of `read(n)` on a stream satisfying the invariant, with the closed form of the new state -/
theorem read_closed (c : Cursor) (n : Nat) (h : c.Inv) :
    (c.read n = .ok (c.mem.take n, ⟨c.mem.drop n, c.size - n⟩) ∧ n ≤ c.size) ∨
    (c.read n = .throw .malformedPacket ∧ c.size < n) := by
  unfold Cursor.read Cursor.canRead
  by_cases hn : n ≤ c.size
  · left
    have hm : ¬ c.mem.length < n := by simp only [Cursor.Inv] at h; omega
    simp [hn, hm]
  · right; simp [hn]; omega

theorem beNat_singleton (x : UInt8) : Cursor.beNat [x] = x.toNat := by simp [Cursor.beNat]

/-- `stream.read<uint8_t>()` -/
theorem readU8_spec (c : Cursor) (h : c.Inv) :
    (∃ x, c.mem = x :: c.mem.drop 1 ∧ c.readU8 = .ok (x.toNat, ⟨c.mem.drop 1, c.size - 1⟩) ∧ 1 ≤ c.size) ∨
    (c.readU8 = .throw .malformedPacket ∧ c.size = 0) := by
  rcases read_closed c 1 h with ⟨he, hs⟩ | ⟨he, hs⟩
  · left
    have hm : 1 ≤ c.mem.length := by simp only [Cursor.Inv] at h; omega
    cases hmem : c.mem with
    | nil => simp [hmem] at hm
    | cons x xs =>
      refine ⟨x, by simp, ?_, hs⟩
      simp only [Cursor.readU8, Cursor.readBE, he, hmem, bind, Out.bind, pure, List.take_succ_cons, List.take_zero,
        beNat_singleton, List.drop_succ_cons, List.drop_zero]
  · right
    exact ⟨by simp [Cursor.readU8, Cursor.readBE, he, bind, Out.bind], by omega⟩

theorem skip_closed (c : Cursor) (n : Nat) (hn : n ≤ c.size) : c.skip n = .ok ⟨c.mem.drop n, c.size - n⟩ := by
  unfold Cursor.skip
  have : ¬ n > c.size := by omega
  simp [this]

theorem rest_mk (site : String) (m : Bytes) (k : Nat) (h : k ≤ m.length) : Cursor.rest site ⟨m, k⟩ = .ok (m.take k) := by
  simp [Cursor.rest, rdN, h]

theorem rdN_zero (site : String) (m : Bytes) (k : Nat) (h : k ≤ m.length) : rdN site m 0 k = .ok (m.take k) := by
  simp [rdN, h]

theorem take_all_drop (b : Bytes) (n : Nat) : (b.drop n).take (b.length - n) = b.drop n := by
  apply List.take_of_length_le
  simp

theorem toBool_mk (m : Bytes) (k : Nat) : (⟨m, k⟩ : Cursor).toBool = decide (k > 0) := rfl

theorem byteAt_lt (bs : Bytes) (i : Nat) : byteAt bs i < 256 := by
  unfold byteAt; exact UInt8.toNat_lt _

theorem byteAt_cons_zero (x : UInt8) (xs : Bytes) : byteAt (x :: xs) 0 = x.toNat := rfl
theorem byteAt_cons_succ (x : UInt8) (xs : Bytes) (i : Nat) : byteAt (x :: xs) (i + 1) = byteAt xs i := rfl

theorem ofNat_toNat_lt (v : Nat) (h : v < 256) : (UInt8.ofNat v).toNat = v := by
  simp [UInt8.toNat_ofNat', Nat.mod_eq_of_lt h]

theorem ofNat_toNat_mod (v : Nat) : (UInt8.ofNat v).toNat = v % 256 := by
  simp [UInt8.toNat_ofNat']

theorem beNat_foldl_lt (bs : Bytes) (acc k : Nat) (h : acc < 256 ^ k) :
    bs.foldl (fun a b => a * 256 + b.toNat) acc < 256 ^ (k + bs.length) := by
  induction bs generalizing acc k with
  | nil => simpa using h
  | cons b bs ih =>
    simp only [List.foldl_cons, List.length_cons]
    have hb := UInt8.toNat_lt b
    have := ih (acc * 256 + b.toNat) (k + 1) (by rw [Nat.pow_succ]; omega)
    rw [show k + (bs.length + 1) = k + 1 + bs.length by omega]
    exact this

theorem beNat_lt (bs : Bytes) : Cursor.beNat bs < 256 ^ bs.length := by
  have := beNat_foldl_lt bs 0 0 (by simp)
  simpa [Cursor.beNat] using this

theorem beNat_lt_of_length (bs : Bytes) (n : Nat) (h : bs.length ≤ n) : Cursor.beNat bs < 256 ^ n :=
  Nat.lt_of_lt_of_le (beNat_lt bs) (Nat.pow_le_pow_right (by decide) h)

/-- slices of a concatenation with known lengths -/
theorem take_append_len {α} (a r : List α) (n : Nat) (h : a.length = n) : (a ++ r).take n = a := by
  subst h; exact List.take_left' rfl
theorem drop_append_len {α} (a r : List α) (n : Nat) (h : a.length = n) : (a ++ r).drop n = r := by
  subst h; exact List.drop_left' rfl

/-- a stream write that fits: the closed form of the new stream state -/
theorem owrite_ok (o : OutCursor) (bs : Bytes) (hi : o.Inv) (hs : bs.length ≤ o.size) :
    o.write bs = .ok ⟨o.done ++ bs, o.rest.drop bs.length, o.size - bs.length⟩ ∧
      (⟨o.done ++ bs, o.rest.drop bs.length, o.size - bs.length⟩ : OutCursor).Inv := by
  have h1 : ¬ o.size < bs.length := by omega
  have h2 : ¬ o.rest.length < bs.length := by simp only [OutCursor.Inv] at hi; omega
  refine ⟨by simp [OutCursor.write, h1, h2], ?_⟩
  simp only [OutCursor.Inv, List.length_drop] at *; omega

theorem ofill_ok (o : OutCursor) (n : Nat) (v : UInt8) (hi : o.Inv) (hs : n ≤ o.size) :
    o.fill n v = .ok ⟨o.done ++ List.replicate n v, o.rest.drop n, o.size - n⟩ ∧
      (⟨o.done ++ List.replicate n v, o.rest.drop n, o.size - n⟩ : OutCursor).Inv := by
  have h1 : ¬ o.size < n := by omega
  have h2 : ¬ o.rest.length < n := by simp only [OutCursor.Inv] at hi; omega
  refine ⟨by simp [OutCursor.fill, h1, h2], ?_⟩
  simp only [OutCursor.Inv, List.length_drop] at *; omega

theorem beBytes_two (v : Nat) : OutCursor.beBytes 2 v = [UInt8.ofNat (v / 256 % 256), UInt8.ofNat (v % 256)] := by
  simp [OutCursor.beBytes]

theorem beNat_pair (a b : UInt8) : Cursor.beNat [a, b] = a.toNat * 256 + b.toNat := by
  simp [Cursor.beNat]

/-- every entry of the generated `pdu_flag_to_ip_type` table (and its default) is one octet -/
theorem ipProtoOfPduType_lt (t : String) : Tags.ipProtoOfPduType t < 256 := by
  unfold Tags.ipProtoOfPduType Tags.assocStr
  cases hf : List.find? (fun x => x.1 == t) Gen.Tags.pduTypeToIpProto with
  | none => simp only [Option.map_none, Option.getD_none]; decide
  | some p =>
    have hm := List.mem_of_find?_eq_some hf
    simp only [Option.map_some, Option.getD_some]
    have hall : ∀ q ∈ Gen.Tags.pduTypeToIpProto, q.2 < 256 := by decide
    exact hall p hm

/-- the per-layer obligation of C02 on header-only layers, from a closed form of the output -/
theorem writesOnly_of_closed (l : LayerSem) (ht : l.trl = 0)
    (h : ∀ region : Bytes, l.hdr ≤ region.length →
      ∃ hb : Bytes, hb.length = l.hdr ∧ l.write region = .ok (hb ++ region.drop l.hdr)) :
    WritesOnly l := by
  apply writesOnly_of_header_only l ht
  intro region hr
  rcases h region hr with ⟨hb, hl, hw⟩
  refine ⟨_, hw, ?_, drop_append_len _ _ _ hl⟩
  simp only [List.length_append, List.length_drop]; omega

end Tins.Wire.Ip
