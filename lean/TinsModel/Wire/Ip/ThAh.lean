import TinsModel.Wire.Ip.Lemmas
/-
  IPSecAH and IPSecESP: C01 (parse safety, termination), C02 (header-only writers), C03 (re-parse of what was written),
  C04 (setters keep the invariant; the ICV is representable on the wire iff its size is a multiple of 4 bytes that the
  8-bit length field can express — known finding KF-C04-Ip-3 for the rest).
-/
namespace Tins.Wire.Ip
open Tins Tins.Wire

/-! ## IPSecAH -/

structure Ah.Inv (a : Ah) : Prop where
  nextHeader : a.nextHeader < 256
  length : a.length < 256
  reserved : a.reserved.length = 2
  spi : a.spi < 4294967296
  seq : a.seq < 4294967296

/-- the ICV sizes the wire format expresses: whole 32-bit words, at most what the length octet can announce -/
def Ah.Repr (a : Ah) : Prop := a.icv.length % 4 = 0 ∧ a.icv.length ≤ 1016

theorem ah_dispatch_cls (a : Ah) (pl : Bytes) (name : String) (pb : Bytes) (fb : Bool)
    (h : a.dispatch pl = .cls name pb fb) : pb = pl ∧ fb = false := by
  unfold Ah.dispatch at h
  split at h
  · injection h with _ h1 h2; exact ⟨h1.symm, h2.symm⟩
  · cases h

/-- shape of the AH parsing constructor -/
theorem ah_parse_cases (b : Bytes) :
    Ah.parse b = .throw .malformedPacket ∨
    (12 ≤ b.length ∧ 1 ≤ (Ah.ofHeader (b.take 12)).length ∧ 4 * ((Ah.ofHeader (b.take 12)).length + 2) ≤ b.length ∧
      Ah.parse b =
        (if b.length - 4 * ((Ah.ofHeader (b.take 12)).length + 2) > 0 then
          .ok ({ Ah.ofHeader (b.take 12) with icv := (b.drop 12).take (4 * ((Ah.ofHeader (b.take 12)).length + 2) - 12) },
               Ah.dispatch { Ah.ofHeader (b.take 12) with icv := (b.drop 12).take (4 * ((Ah.ofHeader (b.take 12)).length + 2) - 12) }
                 (b.drop (4 * ((Ah.ofHeader (b.take 12)).length + 2))))
         else .ok ({ Ah.ofHeader (b.take 12) with icv := (b.drop 12).take (4 * ((Ah.ofHeader (b.take 12)).length + 2) - 12) },
                   .none))) := by
  simp only [Ah.parse, read_ofBytes]
  by_cases h12 : b.length < 12
  · left; simp [h12, bind, Out.bind]
  · simp only [h12, if_false, bind, Out.bind]
    generalize hhd : Ah.ofHeader (b.take 12) = hd
    by_cases hsmall : 4 * (hd.length + 2) < 12
    · left; simp [hsmall]
    · simp only [hsmall, if_false]
      by_cases hcr : (⟨b.drop 12, b.length - 12⟩ : Cursor).canRead (4 * (hd.length + 2) - 12) = true
      · have hle : 4 * (hd.length + 2) - 12 ≤ b.length - 12 := by simpa [Cursor.canRead] using hcr
        simp only [hcr, Bool.not_true, Bool.false_eq_true, if_false]
        have hci : (⟨b.drop 12, b.length - 12⟩ : Cursor).Inv := by simp [Cursor.Inv]
        rcases read_closed ⟨b.drop 12, b.length - 12⟩ (4 * (hd.length + 2) - 12) hci with ⟨e, _⟩ | ⟨_, hlt⟩
        · right
          simp only [e, toBool_mk, List.drop_drop]
          refine ⟨by omega, by omega, by omega, ?_⟩
          have e1 : b.length - 12 - (4 * (hd.length + 2) - 12) = b.length - 4 * (hd.length + 2) := by omega
          have e2 : 12 + (4 * (hd.length + 2) - 12) = 4 * (hd.length + 2) := by omega
          rw [e1, e2]
          by_cases hpos : b.length - 4 * (hd.length + 2) > 0
          · simp only [hpos, decide_true, if_true]
            rw [rest_mk _ _ _ (by simp only [List.length_drop]; omega)]
            have : (b.drop (4 * (hd.length + 2))).take (b.length - 4 * (hd.length + 2)) = b.drop (4 * (hd.length + 2)) :=
              take_all_drop b _
            rw [this]
            rfl
          · simp only [hpos, decide_false, Bool.false_eq_true, if_false]
            rfl
        · simp only at hlt; omega
      · left; simp [hcr]

/-- **C01 / IPSecAH** -/
theorem ah_parse_safe (b : Bytes) : ParseSafe (Ah.parse b) := by
  rcases ah_parse_cases b with h | ⟨_, _, _, h⟩
  · rw [h]; exact .malformed
  · rw [h]; split <;> exact .ok _

theorem ah_parse_consumes (b : Bytes) (a : Ah) (name : String) (pb : Bytes) (fb : Bool)
    (h : Ah.parse b = .ok (a, .cls name pb fb)) : pb.length < b.length := by
  rcases ah_parse_cases b with h' | ⟨h12, _, _, h'⟩
  · rw [h'] at h; cases h
  · rw [h'] at h
    split at h
    · injection h with h; injection h with _ hi
      rcases ah_dispatch_cls _ _ _ _ _ hi with ⟨rfl, _⟩
      simp only [List.length_drop]; omega
    · injection h with h; injection h with _ hi; cases hi

theorem ah_ofHeader_inv (h : Bytes) (hl : h.length = 12) (icv : Bytes) : ({ Ah.ofHeader h with icv := icv } : Ah).Inv := by
  refine ⟨byteAt_lt _ _, byteAt_lt _ _, ?_, ?_, ?_⟩
  · simp only [Ah.ofHeader, List.length_take, List.length_drop]; omega
  · exact beNat_lt_of_length _ 4 (by simp only [List.length_take, List.length_drop]; omega)
  · exact beNat_lt_of_length _ 4 (by simp only [List.length_take, List.length_drop]; omega)

/-- parsing establishes the invariant and an ICV of whole words that the length octet announces -/
theorem ah_parse_inv (b : Bytes) (a : Ah) (i : Inner) (h : Ah.parse b = .ok (a, i)) : a.Inv ∧ a.Repr := by
  rcases ah_parse_cases b with h' | ⟨h12, h1, hle, h'⟩
  · rw [h'] at h; cases h
  · rw [h'] at h
    have hlen : (Ah.ofHeader (b.take 12)).length < 256 := byteAt_lt _ _
    have key : ({ Ah.ofHeader (b.take 12) with icv := (b.drop 12).take (4 * ((Ah.ofHeader (b.take 12)).length + 2) - 12) } : Ah).Inv ∧
        ({ Ah.ofHeader (b.take 12) with icv := (b.drop 12).take (4 * ((Ah.ofHeader (b.take 12)).length + 2) - 12) } : Ah).Repr := by
      refine ⟨ah_ofHeader_inv _ (by simp only [List.length_take]; omega) _, ?_⟩
      simp only [Ah.Repr, List.length_take, List.length_drop]
      omega
    split at h <;> (injection h with h; injection h with ha _; subst ha; exact key)

theorem ah_headerBytes_length (a : Ah) (h : a.reserved.length = 2) : a.headerBytes.length = 12 := by
  simp [Ah.headerBytes, h]

theorem ah_nextHeaderFor_lt (cx : Ctx) (a : Ah) (h : a.nextHeader < 256) : Ah.nextHeaderFor cx a < 256 := by
  unfold Ah.nextHeaderFor
  split
  · simp only; split
    · exact Nat.mod_lt _ (by decide)
    · exact h
  · exact h

/-- closed form of `IPSecAH::write_serialization` -/
theorem ah_write_eq (cx : Ctx) (a : Ah) (h : a.Inv) (region : Bytes) (hr : a.hdr ≤ region.length) :
    a.write cx region = .ok ((Ah.written cx a).headerBytes ++ a.icv ++ region.drop a.hdr) := by
  have hb := ah_headerBytes_length (Ah.written cx a) h.reserved
  have o0 : (OutCursor.ofRegion region).Inv := by simp [OutCursor.ofRegion, OutCursor.Inv]
  simp only [Ah.hdr] at hr
  rcases owrite_ok (OutCursor.ofRegion region) (Ah.written cx a).headerBytes o0 (by simp only [OutCursor.ofRegion, hb]; omega) with
    ⟨w1, i1⟩
  rcases owrite_ok _ a.icv i1 (by simp only [OutCursor.ofRegion, hb]; omega) with ⟨w2, _⟩
  unfold Ah.write
  rw [w1, Out.bind_ok, w2, Out.bind_ok]
  simp only [Out.pure_eq, OutCursor.buffer, OutCursor.ofRegion, List.nil_append, List.drop_drop, hb, Ah.hdr]

def ahSem (cx : Ctx) (a : Ah) : LayerSem := { name := "IPSecAH", hdr := a.hdr, trl := 0, write := a.write cx }

/-- **C02 / IPSecAH**: header and ICV, nothing else, for every ICV size -/
theorem ah_writesOnly (cx : Ctx) (a : Ah) (h : a.Inv) : WritesOnly (ahSem cx a) := by
  apply writesOnly_of_closed _ rfl
  intro region hr
  simp only [ahSem] at hr ⊢
  refine ⟨(Ah.written cx a).headerBytes ++ a.icv, ?_, ah_write_eq cx a h region hr⟩
  have hb := ah_headerBytes_length (Ah.written cx a) h.reserved
  simp only [List.length_append, Ah.hdr, hb]

theorem list_len2 (l : Bytes) (h : l.length = 2) : ∃ a b, l = [a, b] := by
  match l, h with
  | [a, b], _ => exact ⟨a, b, rfl⟩

theorem beBytes_four (v : Nat) : OutCursor.beBytes 4 v =
    [UInt8.ofNat (v / 16777216 % 256), UInt8.ofNat (v / 65536 % 256), UInt8.ofNat (v / 256 % 256), UInt8.ofNat (v % 256)] := by
  simp [OutCursor.beBytes, Nat.div_div_eq_div_mul]

theorem beNat_quad (a b c d : UInt8) :
    Cursor.beNat [a, b, c, d] = a.toNat * 16777216 + b.toNat * 65536 + c.toNat * 256 + d.toNat := by
  simp [Cursor.beNat]; omega

theorem ah_ofHeader_headerBytes (a : Ah) (h : a.Inv) : Ah.ofHeader a.headerBytes = { a with icv := [] } := by
  rcases list_len2 a.reserved h.reserved with ⟨r0, r1, hr⟩
  have h1 := h.nextHeader; have h2 := h.length; have h3 := h.spi; have h4 := h.seq
  cases a with
  | mk nextHeader length reserved spi seq icv =>
    simp only at hr h1 h2 h3 h4
    subst hr
    simp only [Ah.ofHeader, Ah.headerBytes, beBytes_four, List.cons_append, List.nil_append, byteAt, List.getD_cons_zero,
      List.getD_cons_succ, List.drop_succ_cons, List.drop_zero, List.take_succ_cons, List.take_zero, beNat_quad,
      ofNat_toNat_mod, Ah.mk.injEq, and_true, true_and]
    refine ⟨?_, ?_, ?_, ?_⟩ <;> omega

/-- **C03 / IPSecAH**: for every object with the invariant and a representable ICV, parsing what `write_serialization`
    wrote gives back the written header (next header as derived, length as derived), the same ICV and the dispatch on
    the bytes behind it -/
theorem ah_reparse (cx : Ctx) (a : Ah) (h : a.Inv) (hrp : a.Repr) (region : Bytes) (hr : a.hdr ≤ region.length) :
    ∃ out, a.write cx region = .ok out ∧
      Ah.parse out = .ok (Ah.written cx a,
        if region.length - a.hdr > 0 then (Ah.written cx a).dispatch (region.drop a.hdr) else .none) := by
  refine ⟨_, ah_write_eq cx a h region hr, ?_⟩
  have hwi : (Ah.written cx a).Inv := ⟨ah_nextHeaderFor_lt cx a h.nextHeader, Nat.mod_lt _ (by decide), h.reserved, h.spi, h.seq⟩
  have hb := ah_headerBytes_length (Ah.written cx a) h.reserved
  have hlen : (Ah.written cx a).length = a.hdr / 4 - 2 := by
    simp only [Ah.written, Ah.lengthFor, Ah.hdr]
    simp only [Ah.Repr] at hrp
    exact Nat.mod_eq_of_lt (by omega)
  have hhdr : a.hdr = 12 + a.icv.length := rfl
  have h4 : 4 * ((Ah.written cx a).length + 2) = a.hdr := by
    rw [hlen]; simp only [Ah.Repr] at hrp; omega
  generalize htail : region.drop a.hdr = tail
  have htl : tail.length = region.length - a.hdr := by rw [← htail]; simp
  generalize hbuf : (Ah.written cx a).headerBytes ++ a.icv ++ tail = buf
  have hbl : buf.length = region.length := by
    rw [← hbuf]; simp only [List.length_append, hb, htl]; omega
  have htake : buf.take 12 = (Ah.written cx a).headerBytes := by
    rw [← hbuf, List.append_assoc]; exact take_append_len _ _ _ hb
  have hdrop : buf.drop 12 = a.icv ++ tail := by
    rw [← hbuf, List.append_assoc]; exact drop_append_len _ _ _ hb
  simp only [Ah.parse, read_ofBytes]
  have h12 : ¬ buf.length < 12 := by omega
  simp only [h12, if_false, bind, Out.bind, htake, hdrop, ah_ofHeader_headerBytes _ hwi]
  simp only [h4]
  have hsm : ¬ a.hdr < 12 := by omega
  have hcr : (⟨a.icv ++ tail, buf.length - 12⟩ : Cursor).canRead (a.hdr - 12) = true := by
    simp [Cursor.canRead]; omega
  simp only [hsm, if_false, hcr, Bool.not_true, Bool.false_eq_true]
  have e12 : a.hdr - 12 = a.icv.length := by omega
  rw [e12]
  have hrd : (⟨a.icv ++ tail, buf.length - 12⟩ : Cursor).read a.icv.length = .ok (a.icv, ⟨tail, buf.length - 12 - a.icv.length⟩) := by
    have : ¬ (a.icv ++ tail).length < a.icv.length := by simp
    have hc : a.icv.length ≤ buf.length - 12 := by omega
    simp [Cursor.read, Cursor.canRead, hc]
  simp only [hrd, toBool_mk]
  have esz : buf.length - 12 - a.icv.length = region.length - a.hdr := by omega
  rw [esz]
  have hobj : ({ ({ Ah.written cx a with icv := [] } : Ah) with icv := a.icv } : Ah) = Ah.written cx a := rfl
  by_cases hpos : region.length - a.hdr > 0
  · simp only [hpos, decide_true, if_true, hobj]
    rw [rest_mk _ _ _ (by omega)]
    have : tail.take (region.length - a.hdr) = tail := List.take_of_length_le (by omega)
    rw [this]
    rfl
  · simp only [hpos, decide_false, Bool.false_eq_true, if_false, hobj]
    rfl

theorem ah_written_view (cx : Ctx) (a : Ah) :
    (Ah.written cx a).spi = a.spi ∧ (Ah.written cx a).seq = a.seq ∧ (Ah.written cx a).icv = a.icv ∧
    (Ah.written cx a).reserved = a.reserved := ⟨rfl, rfl, rfl, rfl⟩

/-- the next-header tag survives in front of a payload libtins has no protocol number for (fix KF-C03-Ip-3) -/
theorem ah_nextHeader_kept (cx : Ctx) (a : Ah) (i : LayerInfo) (hi : cx.inners.head? = some i)
    (hu : Tags.ipProtoOfPduType (Tags.pduTypeOf i.cls) = 255) : (Ah.written cx a).nextHeader = a.nextHeader := by
  simp only [Ah.written, Ah.nextHeaderFor, hi, hu]
  simp

/-! ### known finding KF-C04-Ip-3: an ICV that is not a whole number of words -/

/-- full statement: the ICV set through the API comes back from the wire -/
def ah_icv_roundtrip_all : Prop :=
  ∀ (cx : Ctx) (a : Ah), a.Inv → ∀ region : Bytes, a.hdr ≤ region.length →
    ∃ out a' i, a.write cx region = .ok out ∧ Ah.parse out = .ok (a', i) ∧ a'.icv = a.icv

/-- witness: `IPSecAH().icv({aa, bb, cc})` in front of the payload 01 02 comes back with an empty ICV (replayed on the real
    code: `new / push IPSecAH / set 0 icv aabbcc / push RawPDU 0102 / show`) -/
theorem ah_icv_roundtrip_fails : ¬ ah_icv_roundtrip_all := by
  intro h
  rcases h ⟨[], []⟩ { Ah.create with icv := [0xaa, 0xbb, 0xcc] } ⟨by decide, by decide, rfl, by decide, by decide⟩
    (List.replicate 15 0 ++ [1, 2]) (by decide) with ⟨out, a', i, hw, hp, hicv⟩
  have e : ({ Ah.create with icv := [0xaa, 0xbb, 0xcc] } : Ah).write ⟨[], []⟩ (List.replicate 15 0 ++ [1, 2]) =
      .ok [0, 1, 0, 0, 0, 0, 0, 0, 0, 0, 0, 0, 0xaa, 0xbb, 0xcc, 1, 2] := by rfl
  rw [e] at hw
  injection hw with hw
  subst hw
  have e2 : Ah.parse [0, 1, 0, 0, 0, 0, 0, 0, 0, 0, 0, 0, 0xaa, 0xbb, 0xcc, 1, 2] =
      .ok (⟨0, 1, [0, 0], 0, 0, []⟩, .raw [0xaa, 0xbb, 0xcc, 1, 2]) := by rfl
  rw [e2] at hp
  injection hp with hp
  injection hp with ha _
  subst ha
  cases hicv

theorem ah_create_inv : Ah.create.Inv := ⟨by decide, by decide, rfl, by decide, by decide⟩

/-- **C04 / IPSecAH**: every setter keeps the invariant -/
theorem ah_apply_inv (a a' : Ah) (op : List String) (h : a.Inv) (ha : a.apply op = .ok a') : a'.Inv := by
  unfold Ah.apply at ha
  split at ha
  · split at ha
    · injection ha with ha; subst ha; exact { h with nextHeader := Nat.mod_lt _ (by decide) }
    · cases ha
  · split at ha
    · injection ha with ha; subst ha; exact { h with length := Nat.mod_lt _ (by decide) }
    · cases ha
  · split at ha
    · injection ha with ha; subst ha; exact { h with spi := Nat.mod_lt _ (by decide) }
    · cases ha
  · split at ha
    · injection ha with ha; subst ha; exact { h with seq := Nat.mod_lt _ (by decide) }
    · cases ha
  · split at ha
    · injection ha with ha; subst ha; exact ⟨h.nextHeader, h.length, h.reserved, h.spi, h.seq⟩
    · cases ha
  · cases ha

/-! ## IPSecESP -/

structure Esp.Inv (e : Esp) : Prop where
  spi : e.spi < 4294967296
  seq : e.seq < 4294967296

theorem esp_parse_eq (b : Bytes) :
    Esp.parse b =
      if b.length < 8 then .throw .malformedPacket
      else if b.length - 8 > 0 then .ok (⟨Cursor.beNat ((b.take 8).take 4), Cursor.beNat ((b.take 8).drop 4)⟩, .raw (b.drop 8))
      else .ok (⟨Cursor.beNat ((b.take 8).take 4), Cursor.beNat ((b.take 8).drop 4)⟩, .none) := by
  simp only [Esp.parse, read_ofBytes]
  by_cases h8 : b.length < 8
  · simp [h8, bind, Out.bind]
  · simp only [h8, if_false, bind, Out.bind, toBool_mk]
    by_cases hpos : b.length - 8 > 0
    · simp only [hpos, decide_true, if_true]
      rw [rest_mk _ _ _ (by simp), take_all_drop]
      rfl
    · simp only [hpos, decide_false, Bool.false_eq_true, if_false]
      rfl

/-- **C01 / IPSecESP** -/
theorem esp_parse_safe (b : Bytes) : ParseSafe (Esp.parse b) := by
  rw [esp_parse_eq]
  split
  · exact .malformed
  · split <;> exact .ok _

/-- ESP never hands bytes to another parsing constructor -/
theorem esp_parse_no_cls (b : Bytes) (e : Esp) (name : String) (pb : Bytes) (fb : Bool) :
    Esp.parse b ≠ .ok (e, .cls name pb fb) := by
  rw [esp_parse_eq]
  intro h
  split at h
  · cases h
  · split at h <;> (injection h with h; injection h with _ hi; cases hi)

theorem esp_parse_inv (b : Bytes) (e : Esp) (i : Inner) (h : Esp.parse b = .ok (e, i)) : e.Inv := by
  rw [esp_parse_eq] at h
  split at h
  · cases h
  · rename_i h8
    have key : (⟨Cursor.beNat ((b.take 8).take 4), Cursor.beNat ((b.take 8).drop 4)⟩ : Esp).Inv :=
      ⟨beNat_lt_of_length _ 4 (by simp only [List.length_take]; omega),
       beNat_lt_of_length _ 4 (by simp only [List.length_drop, List.length_take]; omega)⟩
    split at h <;> (injection h with h; injection h with he _; subst he; exact key)

theorem esp_headerBytes_length (e : Esp) : e.headerBytes.length = 8 := by simp [Esp.headerBytes]

def espSem (cx : Ctx) (e : Esp) : LayerSem := { name := "IPSecESP", hdr := 8, trl := 0, write := e.write cx }

/-- **C02 / IPSecESP** -/
theorem esp_writesOnly (cx : Ctx) (e : Esp) : WritesOnly (espSem cx e) := by
  apply writesOnly_of_closed _ rfl
  intro region hr
  simp only [espSem] at hr ⊢
  refine ⟨e.headerBytes, esp_headerBytes_length e, ?_⟩
  have := writeAtStart_eq region e.headerBytes (by rw [esp_headerBytes_length]; exact hr)
  rw [esp_headerBytes_length] at this
  exact this

/-- **C03 / IPSecESP**: both fields and the opaque payload come back -/
theorem esp_reparse (cx : Ctx) (e : Esp) (h : e.Inv) (region : Bytes) (hr : 8 ≤ region.length) :
    ∃ out, e.write cx region = .ok out ∧
      Esp.parse out = .ok (e, if region.length - 8 > 0 then .raw (region.drop 8) else .none) := by
  have hw := writeAtStart_eq region e.headerBytes (by rw [esp_headerBytes_length]; exact hr)
  rw [esp_headerBytes_length] at hw
  refine ⟨_, hw, ?_⟩
  rw [esp_parse_eq]
  have hl : (e.headerBytes ++ region.drop 8).length = region.length := by
    simp only [List.length_append, esp_headerBytes_length, List.length_drop]; omega
  have ht : (e.headerBytes ++ region.drop 8).take 8 = e.headerBytes := take_append_len _ _ _ (esp_headerBytes_length e)
  have hd : (e.headerBytes ++ region.drop 8).drop 8 = region.drop 8 := drop_append_len _ _ _ (esp_headerBytes_length e)
  have h8 : ¬ region.length < 8 := by omega
  rw [hl, ht, hd]
  simp only [h8, if_false]
  have e1 : Cursor.beNat (e.headerBytes.take 4) = e.spi := by
    simp only [Esp.headerBytes]
    rw [take_append_len _ _ 4 (by simp), beNat_beBytes]
    exact Nat.mod_eq_of_lt h.spi
  have e2 : Cursor.beNat (e.headerBytes.drop 4) = e.seq := by
    simp only [Esp.headerBytes]
    rw [drop_append_len _ _ 4 (by simp), beNat_beBytes]
    exact Nat.mod_eq_of_lt h.seq
  rw [e1, e2]
  split <;> rfl

theorem esp_create_inv : Esp.create.Inv := ⟨by decide, by decide⟩

theorem esp_apply_inv (e e' : Esp) (op : List String) (h : e.Inv) (ha : e.apply op = .ok e') : e'.Inv := by
  unfold Esp.apply at ha
  split at ha
  · split at ha
    · injection ha with ha; subst ha; exact { h with spi := Nat.mod_lt _ (by decide) }
    · cases ha
  · split at ha
    · injection ha with ha; subst ha; exact { h with seq := Nat.mod_lt _ (by decide) }
    · cases ha
  · cases ha

end Tins.Wire.Ip
