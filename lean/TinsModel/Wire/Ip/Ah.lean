import TinsModel.Wire.Ip.Util
/-
  `Tins::IPSecAH` and `Tins::IPSecESP` (src/ipsec.cpp, include/tins/ipsec.h).
  AH header (12 bytes): next_header, length, reserved (2 bytes, kept as read), spi (be32), seq_number (be32); then the
  ICV.  ESP header (8 bytes): spi (be32), seq_number (be32); everything behind it is opaque (RawPDU).
-/
namespace Tins.Wire.Ip

structure Ah where
  nextHeader : Nat
  length : Nat
  reserved : Bytes     -- header_.reserved as it lies in memory
  spi : Nat
  seq : Nat
  icv : Bytes
deriving Repr, DecidableEq

namespace Ah

def ofHeader (h : Bytes) : Ah :=
  ⟨byteAt h 0, byteAt h 1, (h.drop 2).take 2, Cursor.beNat ((h.drop 4).take 4), Cursor.beNat ((h.drop 8).take 4), []⟩

/-- `Internals::pdu_from_flag((Constants::IP::e)next_header(), ptr, size, true)`: no try block; RawPDU on no match -/
def dispatch (a : Ah) (pl : Bytes) : Inner :=
  match Tags.classOfIpProto a.nextHeader with
  | some cls => .cls cls pl false
  | none => .raw pl

/-- `IPSecAH::IPSecAH(const uint8_t* buffer, uint32_t total_sz)` -/
def parse (b : Bytes) : Out (Ah × Inner) := do
  let c := Cursor.ofBytes b
  let (h, c) ← c.read 12                                     -- stream.read(header_)
  let a := ofHeader h
  let ahLen := 4 * (a.length + 2)                            -- 4 * (static_cast<uint16_t>(length()) + 2)
  if ahLen < 12 then .throw .malformedPacket else
  let icvLength := ahLen - 12
  if !c.canRead icvLength then .throw .malformedPacket else
  let (icv, c) ← c.read icvLength                            -- stream.read(icv_, icv_length)
  let a := { a with icv := icv }
  if c.toBool then
    let pl ← Cursor.rest "IPSecAH::IPSecAH inner(stream.pointer(), stream.size())" c
    pure (a, a.dispatch pl)
  else pure (a, .none)

def fields (a : Ah) : Fields :=
  [("^next_header", toString a.nextHeader), ("~length", toString a.length), ("spi", toString a.spi),
   ("seq_number", toString a.seq), ("icv", hexStr a.icv)]

/-- `IPSecAH::header_size()` -/
def hdr (a : Ah) : Nat := 12 + a.icv.length

def headerBytes (a : Ah) : Bytes :=
  [UInt8.ofNat a.nextHeader, UInt8.ofNat a.length] ++ a.reserved ++ OutCursor.beBytes 4 a.spi ++ OutCursor.beBytes 4 a.seq

/-- the next header `write_serialization` stores (after fix KF-C03-Ip-3: only when the inner PDU maps to a protocol) -/
def nextHeaderFor (cx : Ctx) (a : Ah) : Nat :=
  match cx.inners.head? with
  | some i =>
    let newFlag := Tags.ipProtoOfPduType (Tags.pduTypeOf i.cls)
    if newFlag != 255 then newFlag % 256 else a.nextHeader
  | none => a.nextHeader

/-- `length(header_size() / sizeof(uint32_t) - 2)`: `uint8_t` parameter -/
def lengthFor (a : Ah) : Nat := (a.hdr / 4 - 2) % 256

def written (cx : Ctx) (a : Ah) : Ah := { a with nextHeader := nextHeaderFor cx a, length := lengthFor a }

/-- `IPSecAH::write_serialization` -/
def write (cx : Ctx) (a : Ah) (region : Bytes) : Out Bytes := do
  let oc ← (OutCursor.ofRegion region).write (written cx a).headerBytes   -- output.write(header_)
  let oc ← oc.write a.icv                                                    -- output.write(icv_.begin(), icv_.end())
  pure oc.buffer

/-- `IPSecAH::IPSecAH()`: `header_()`, `icv_(4)`, `length(2)` -/
def create : Ah := ⟨0, 2, [0, 0], 0, 0, [0, 0, 0, 0]⟩

def apply (a : Ah) : List String → Out Ah
  | ["next_header", v] => match v.toNat? with | some n => .ok { a with nextHeader := n % 256 } | none => .throw .stdOther
  | ["length", v] => match v.toNat? with | some n => .ok { a with length := n % 256 } | none => .throw .stdOther
  | ["spi", v] => match v.toNat? with | some n => .ok { a with spi := n % 4294967296 } | none => .throw .stdOther
  | ["seq_number", v] => match v.toNat? with | some n => .ok { a with seq := n % 4294967296 } | none => .throw .stdOther
  | ["icv", v] => match parseHexStr v with | some d => .ok { a with icv := d } | none => .throw .stdOther
  | _ => .throw .stdOther

end Ah

structure Esp where
  spi : Nat
  seq : Nat
deriving Repr, DecidableEq

namespace Esp

/-- `IPSecESP::IPSecESP(const uint8_t* buffer, uint32_t total_sz)` -/
def parse (b : Bytes) : Out (Esp × Inner) := do
  let c := Cursor.ofBytes b
  let (h, c) ← c.read 8                                      -- stream.read(header_)
  let e : Esp := ⟨Cursor.beNat (h.take 4), Cursor.beNat (h.drop 4)⟩
  if c.toBool then
    let pl ← Cursor.rest "IPSecESP::IPSecESP RawPDU(stream.pointer(), stream.size())" c
    pure (e, .raw pl)
  else pure (e, .none)

def fields (e : Esp) : Fields := [("spi", toString e.spi), ("seq_number", toString e.seq)]

def headerBytes (e : Esp) : Bytes := OutCursor.beBytes 4 e.spi ++ OutCursor.beBytes 4 e.seq

/-- `IPSecESP::write_serialization` -/
def write (_cx : Ctx) (e : Esp) (region : Bytes) : Out Bytes := writeAtStart region e.headerBytes

/-- `IPSecESP::IPSecESP()` -/
def create : Esp := ⟨0, 0⟩

def apply (e : Esp) : List String → Out Esp
  | ["spi", v] => match v.toNat? with | some n => .ok { e with spi := n % 4294967296 } | none => .throw .stdOther
  | ["seq_number", v] => match v.toNat? with | some n => .ok { e with seq := n % 4294967296 } | none => .throw .stdOther
  | _ => .throw .stdOther

end Esp
end Tins.Wire.Ip
