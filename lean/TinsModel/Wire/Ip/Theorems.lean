import TinsModel.Wire.Ip.ThFamily
/-
  Per-layer and family-level theorems of the Ip family for the four wire properties (C01 parse_safe, C02 writesOnly,
  C03 reparse, C04 invariants / container laws / codec inverses): see `ThFamily.lean` for the index.
-/
