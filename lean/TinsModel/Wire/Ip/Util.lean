import TinsModel.Wire.Iface
import TinsModel.Wire.Tags
/- helpers shared by the models of the Ip family -/
namespace Tins.Wire.Ip

/-- `buf[i]` of a header that has been read completely (0 outside, never reached) -/
def byteAt (bs : Bytes) (i : Nat) : Nat := (bs.getD i 0).toNat

end Tins.Wire.Ip
