import TinsModel.Wire.Ip.ThIp4Write
/-
  IP (IPv4), C03: parsing what `write_serialization` wrote gives back every non-derived field, the option list (order,
  types, bytes) and the payload bytes, for every object whose options are in wire-normal form (what the parser produces,
  `ip4_parse_inv`) — the option loop re-reads the concatenated option encodings followed by any amount of zero padding
  (`parseOpts_written`, induction over the option list; this is the lemma DESIGN §7 #12 / #13 made false).
-/
namespace Tins.Wire.Ip
open Tins Tins.Wire

theorem readU8_cons (x : UInt8) (m : Bytes) (s : Nat) (h : 1 ≤ s) :
    Cursor.readU8 ⟨x :: m, s⟩ = .ok (x.toNat, ⟨m, s - 1⟩) := by
  have : ¬ (x :: m).length < 1 := by simp
  simp [Cursor.readU8, Cursor.readBE, Cursor.read, Cursor.canRead, h, Cursor.beNat, bind, Out.bind]

theorem optsBytes_cons (p : IpOpt) (ps : List IpOpt) : Ip4.optsBytes (p :: ps) = Ip4.optBytes p ++ Ip4.optsBytes ps := by
  simp [Ip4.optsBytes]

theorem lengthOctet_normal (p : IpOpt) (h : OptNormal p) (h1 : 1 < p.type) : Ip4.lengthOctet p = p.data.length + 2 := by
  have := h.multi h1
  unfold Ip4.lengthOctet
  simp only [this.1, beq_self_eq_true, if_true]
  omega

/-- **the option loop re-reads what the option writer emitted**: on the concatenated encodings of wire-normal options,
    followed by `k` zero bytes of padding and anything after the header, the loop returns exactly those options and leaves
    the stream at the end of the header — for every option list (induction), every amount of padding -/
theorem parseOpts_written (os : List IpOpt) (hn : ∀ p ∈ os, OptNormal p) (k : Nat) (tail : Bytes) (pos fuel size : Nat)
    (hf : (Ip4.optsBytes os).length + k < fuel) (hsz : (Ip4.optsBytes os).length + k ≤ size) :
    Ip4.parseOpts fuel ⟨Ip4.optsBytes os ++ (List.replicate k 0 ++ tail), size⟩ pos (pos + ((Ip4.optsBytes os).length + k)) =
      .ok (os, ⟨tail, size - ((Ip4.optsBytes os).length + k)⟩) := by
  induction os generalizing pos fuel size with
  | nil =>
    cases fuel with
    | zero => omega
    | succ fuel =>
      simp only [Ip4.optsBytes, List.flatMap_nil, List.nil_append, List.length_nil, Nat.zero_add] at *
      unfold Ip4.parseOpts
      cases k with
      | zero => simp
      | succ k =>
        have hlt : pos < pos + (k + 1) := by omega
        simp only [hlt, decide_true, Bool.not_true, Bool.false_eq_true, if_false, List.replicate_succ, List.cons_append]
        rw [readU8_cons _ _ _ (by omega)]
        have hz0 : (0 : UInt8).toNat = 0 := rfl
        have hs0 : singleByte 0 = true := by decide
        have hsk := skip_closed ⟨List.replicate k 0 ++ tail, size - 1⟩ (pos + (k + 1) - (pos + 1)) (by simp only; omega)
        simp only [hz0, hs0, Bool.not_true, Bool.false_eq_true, if_false, bind, Out.bind]
        simp only [beq_self_eq_true, if_true, hsk, pure]
        have e1 : pos + (k + 1) - (pos + 1) = k := by omega
        rw [e1, List.drop_left' List.length_replicate]
        have e2 : size - 1 - k = size - (k + 1) := by omega
        rw [e2]
  | cons p ps ih =>
    have hp := hn p List.mem_cons_self
    have hps := fun q hq => hn q (List.mem_cons_of_mem _ hq)
    cases fuel with
    | zero => omega
    | succ fuel =>
      rw [optsBytes_cons] at *
      simp only [List.length_append] at hf hsz ⊢
      unfold Ip4.parseOpts
      by_cases h1 : p.type ≤ 1
      · -- NOOP
        have ht1 : p.type = 1 := by have := hp.notEnd; omega
        have hpe : p = ⟨1, 0, []⟩ := by
          rcases hp.single h1 with ⟨hd, hl⟩
          cases p; simp only at ht1 hd hl; subst ht1 hd hl; rfl
        subst hpe
        have hob : Ip4.optBytes ⟨1, 0, []⟩ = [1] := by decide
        rw [hob] at hf hsz ⊢
        simp only [List.length_cons, List.length_nil, Nat.zero_add] at hf hsz ⊢
        have hlt : pos < pos + (1 + (Ip4.optsBytes ps).length + k) := by omega
        simp only [hlt, decide_true, Bool.not_true, Bool.false_eq_true, if_false, List.cons_append, List.nil_append]
        rw [readU8_cons _ _ _ (by omega)]
        have hz1 : (1 : UInt8).toNat = 1 := rfl
        have hs1 : singleByte 1 = true := by decide
        have e0 : ((1 : Nat) == 0) = false := by decide
        simp only [hz1, hs1, Bool.not_true, Bool.false_eq_true, if_false, e0, bind, Out.bind]
        have hrec := ih hps (pos + 1) fuel (size - 1) (by omega) (by omega)
        have e1 : pos + 1 + ((Ip4.optsBytes ps).length + k) = pos + (1 + (Ip4.optsBytes ps).length + k) := by omega
        rw [e1] at hrec
        rw [hrec]
        simp only [pure]
        have e2 : size - 1 - ((Ip4.optsBytes ps).length + k) = size - (1 + (Ip4.optsBytes ps).length + k) := by omega
        rw [e2]
      · -- a multi-byte option
        have hgt : 1 < p.type := by omega
        have ht := hp.type
        have hm := hp.multi hgt
        have hlo := lengthOctet_normal p hp hgt
        have hob : Ip4.optBytes p = UInt8.ofNat p.type :: UInt8.ofNat (p.data.length + 2) :: p.data := by
          unfold Ip4.optBytes
          have : p.type % 256 > 1 := by rw [Nat.mod_eq_of_lt ht]; exact hgt
          simp only [this, if_true, hlo]
        rw [hob] at hf hsz ⊢
        simp only [List.length_cons] at hf hsz ⊢
        have hlt : pos < pos + (p.data.length + 1 + 1 + (Ip4.optsBytes ps).length + k) := by omega
        simp only [hlt, decide_true, Bool.not_true, Bool.false_eq_true, if_false, List.cons_append, List.append_assoc]
        rw [readU8_cons _ _ _ (by omega)]
        have htn : (UInt8.ofNat p.type).toNat = p.type := ofNat_toNat_lt _ ht
        have hln : (UInt8.ofNat (p.data.length + 2)).toNat = p.data.length + 2 := ofNat_toNat_lt _ (by omega)
        have hsb : singleByte p.type = false := singleByte_of_gt hgt ht
        simp only [htn, hsb, Bool.not_false, if_true, bind, Out.bind]
        have hge : ¬ pos + 1 ≥ pos + (p.data.length + 1 + 1 + (Ip4.optsBytes ps).length + k) := by omega
        simp only [hge, if_false]
        rw [readU8_cons _ _ _ (by omega)]
        have hsm : ¬ p.data.length + 2 < 2 := by omega
        simp only [hln, hsm, if_false, Nat.add_sub_cancel]
        by_cases hd0 : p.data.length > 0
        · simp only [hd0, if_true]
          have hov : ¬ pos + 1 + 1 + p.data.length > pos + (p.data.length + 1 + 1 + (Ip4.optsBytes ps).length + k) := by omega
          simp only [hov, if_false]
          have hpk : Cursor.peek "IP::IP option(opt_type, stream.pointer(), stream.pointer() + data_size)"
              ⟨p.data ++ (Ip4.optsBytes ps ++ (List.replicate k 0 ++ tail)), size - 1 - 1⟩ 0 p.data.length = .ok p.data := by
            unfold Cursor.peek
            rw [rdN_zero _ _ _ (by simp)]
            simp
          have hsk := skip_closed ⟨p.data ++ (Ip4.optsBytes ps ++ (List.replicate k 0 ++ tail)), size - 1 - 1⟩ p.data.length
            (by simp only; omega)
          simp only [hpk, hsk, List.drop_left']
          have hrec := ih hps (pos + 1 + 1 + p.data.length) fuel (size - 1 - 1 - p.data.length) (by omega) (by omega)
          have e1 : pos + 1 + 1 + p.data.length + ((Ip4.optsBytes ps).length + k) =
              pos + (p.data.length + 1 + 1 + (Ip4.optsBytes ps).length + k) := by omega
          rw [e1] at hrec
          rw [hrec]
          simp only [pure]
          have hpe : (⟨p.type, p.data.length, p.data⟩ : IpOpt) = p := by
            cases p; simp only at hm ⊢; rw [hm.1]
          rw [hpe]
          have e2 : size - 1 - 1 - p.data.length - ((Ip4.optsBytes ps).length + k) =
              size - (p.data.length + 1 + 1 + (Ip4.optsBytes ps).length + k) := by omega
          rw [e2]
        · have hnil : p.data = [] := List.length_eq_zero_iff.mp (by omega)
          simp only [hd0, if_false]
          have hrec := ih hps (pos + 1 + 1) fuel (size - 1 - 1) (by omega) (by omega)
          have e1 : pos + 1 + 1 + ((Ip4.optsBytes ps).length + k) =
              pos + (p.data.length + 1 + 1 + (Ip4.optsBytes ps).length + k) := by rw [hnil]; simp; omega
          rw [e1] at hrec
          simp only [hnil, List.nil_append] at hrec ⊢
          rw [hrec]
          simp only [pure]
          have hpe : (⟨p.type, 0, []⟩ : IpOpt) = p := by
            cases p; simp only at hm hnil ⊢; subst hnil; rw [hm.1]; rfl
          rw [hpe]
          have e2 : size - 1 - 1 - ((Ip4.optsBytes ps).length + k) =
              size - (p.data.length + 1 + 1 + (Ip4.optsBytes ps).length + k) := by rw [hnil]; simp; omega
          rw [e2, hnil]


theorem list_len4 (l : Bytes) (h : l.length = 4) : ∃ a b c d, l = [a, b, c, d] := by
  match l, h with
  | [a, b, c, d], _ => exact ⟨a, b, c, d, rfl⟩

/-- the fixed header decodes to the object it encodes (every field, every value within its width) -/
theorem ofHeader_headerBytes (o : Ip4) (h : o.Inv) : Ip4.ofHeader o.headerBytes = Ip4.setOpts o [] := by
  rcases list_len4 o.src h.src with ⟨s0, s1, s2, s3, hs⟩
  rcases list_len4 o.dst h.dst with ⟨d0, d1, d2, d3, hd⟩
  have hv := h.version; have hi := h.ihl; have ht := h.tos; have hl := h.totLen; have hid := h.id
  have hfo := h.fragOff; have htt := h.ttl; have hpr := h.protocol; have hc := h.check
  cases o with
  | mk version ihl tos totLen id fragOff ttl protocol check src dst opts =>
    simp only at hs hd hv hi ht hl hid hfo htt hpr hc
    subst hs hd
    simp only [Ip4.ofHeader, Ip4.headerBytes, Ip4.setOpts, beBytes_two, List.cons_append, List.nil_append, byteAt,
      List.getD_cons_zero, List.getD_cons_succ, List.drop_succ_cons, List.drop_zero, List.take_succ_cons, List.take_zero,
      beNat_pair, ofNat_toNat_mod, Ip4.mk.injEq, and_true]
    refine ⟨?_, ?_, ?_, ?_, ?_, ?_, ?_, ?_, ?_⟩ <;> omega

/-- storing the checksum through the raw header pointer = writing the header with that checksum -/
theorem poke_check (site : String) (o : Ip4) (rest : Bytes) (f : Nat) :
    poke site (o.headerBytes ++ rest) 10 (le16 f) = .ok (({ o with check := Ck.bswap16 f } : Ip4).headerBytes ++ rest) := by
  have key : ∀ x y : Nat, x < 256 → y < 256 → (x * 256 + y) / 256 % 256 = x ∧ (x * 256 + y) % 256 = y := by
    intro x y hx hy; constructor <;> omega
  have hk := key (f % 256) (f / 256 % 256) (Nat.mod_lt _ (by decide)) (Nat.mod_lt _ (by decide))
  have e1 : UInt8.ofNat (Ck.bswap16 f / 256 % 256) = UInt8.ofNat (f % 256) := by
    congr 1; unfold Ck.bswap16; exact hk.1
  have e2 : UInt8.ofNat (Ck.bswap16 f % 256) = UInt8.ofNat (f / 256 % 256) := by
    congr 1; unfold Ck.bswap16; exact hk.2
  unfold poke
  simp only [Ip4.headerBytes, beBytes_two, le16, List.cons_append, List.nil_append, List.length_cons, List.length_append,
    List.length_nil, e1, e2]
  have hle : 10 + (0 + 1 + 1) ≤ 0 + 1 + 1 + 1 + 1 + 1 + 1 + 1 + 1 + 1 + 1 + (0 + 1 + 1 + (o.src.length + (o.dst.length + rest.length))) := by
    omega
  simp [List.take, List.drop]


/-- the object the written header encodes: the header `write_serialization` stores, with the checksum it computes -/
def Ip4.final (cx : Ctx) (o : Ip4) (region : Bytes) : Ip4 :=
  { Ip4.written cx o region.length with
    check := Ck.bswap16 (Ip4.checksumField (Ip4.headerImage cx o region.length ++ region.drop o.hdr) o.hdr) }

/-- what must survive the round trip: everything except the derived fields (header length, total length, checksum)
    and the next-protocol tag (`final_protocol`, `protocolFor_kept`) -/
def Ip4.view (o : Ip4) : Nat × Nat × Nat × Nat × Nat × Bytes × Bytes × List IpOpt :=
  (o.version, o.tos, o.id, o.fragOff, o.ttl, o.src, o.dst, o.opts)

theorem final_view (cx : Ctx) (o : Ip4) (region : Bytes) : (Ip4.final cx o region).view = o.view := rfl
theorem final_protocol (cx : Ctx) (o : Ip4) (region : Bytes) : (Ip4.final cx o region).protocol = Ip4.protocolFor cx o := rfl
theorem final_totLen (cx : Ctx) (o : Ip4) (region : Bytes) : (Ip4.final cx o region).totLen = region.length % 65536 := rfl
theorem final_ihl (cx : Ctx) (o : Ip4) (region : Bytes) : (Ip4.final cx o region).ihl = o.hdr / 4 := rfl

/-- the next-protocol tag survives in front of a payload libtins has no protocol number for (RawPDU), and a stored
    protocol number is never replaced by the "unknown" marker 0xff -/
theorem protocolFor_kept (cx : Ctx) (o : Ip4) (i : LayerInfo) (hi : cx.inners.head? = some i)
    (hu : Tags.ipProtoOfPduType (Tags.pduTypeOf i.cls) = 255) : Ip4.protocolFor cx o = o.protocol := by
  unfold Ip4.protocolFor
  rw [hi]; simp [hu]

theorem protocolFor_lt (cx : Ctx) (o : Ip4) (h : o.protocol < 256) : Ip4.protocolFor cx o < 256 := by
  unfold Ip4.protocolFor
  split
  · simp only; split
    · exact Nat.mod_lt _ (by decide)
    · exact h
  · decide

theorem hdr_mod4 (o : Ip4) : o.hdr % 4 = 0 ∧ 20 ≤ o.hdr := by
  have := padOptionsSize_le (Ip4.calcOptionsSize o.opts)
  simp only [Ip4.hdr]; omega

theorem final_inv (cx : Ctx) (o : Ip4) (region : Bytes) (h : o.Inv) (hf : o.Fits) : (Ip4.final cx o region).Inv := by
  refine ⟨h.version, ?_, h.tos, ?_, h.id, h.fragOff, h.ttl, protocolFor_lt cx o h.protocol, ?_, h.src, h.dst, h.opts⟩
  · simp only [Ip4.final, Ip4.written]; simp only [Ip4.Fits] at hf; omega
  · simp only [Ip4.final, Ip4.written]; exact Nat.mod_lt _ (by decide)
  · simp only [Ip4.final, Ck.bswap16]
    have := Nat.mod_lt (Ip4.checksumField (Ip4.headerImage cx o region.length ++ region.drop o.hdr) o.hdr) (by decide : 256 > 0)
    have := Nat.mod_lt (Ip4.checksumField (Ip4.headerImage cx o region.length ++ region.drop o.hdr) o.hdr / 256) (by decide : 256 > 0)
    omega

/-- closed form of the bytes `IP::write_serialization` leaves in its region -/
theorem ip4_write_final (cx : Ctx) (o : Ip4) (h : o.Inv) (hf : o.Fits) (region : Bytes) (hr : o.hdr ≤ region.length) :
    o.write cx region =
      .ok ((Ip4.final cx o region).headerBytes ++ (Ip4.optsBytes o.opts ++
        (List.replicate (Ip4.padOptionsSize (Ip4.calcOptionsSize o.opts) - Ip4.calcOptionsSize o.opts) 0 ++ region.drop o.hdr))) := by
  rw [ip4_write_eq cx o h hf region hr]
  have e : Ip4.headerImage cx o region.length ++ region.drop o.hdr =
      (Ip4.written cx o region.length).headerBytes ++ (Ip4.optsBytes o.opts ++
        (List.replicate (Ip4.padOptionsSize (Ip4.calcOptionsSize o.opts) - Ip4.calcOptionsSize o.opts) 0 ++ region.drop o.hdr)) := by
    simp only [Ip4.headerImage, List.append_assoc]
  rw [e, poke_check]
  rw [← e]
  rfl

/-- **C03 / IP**: for every object that satisfies the invariant, has wire-normal options and a header that fits — in
    particular every parsed packet (`ip4_parse_inv`) — parsing what `write_serialization` left in a region of less than
    64 KiB succeeds and gives back the object with its derived fields filled in: same version, tos, id, flags and
    fragment offset, ttl, addresses, **the same options in the same order with the same bytes** (`final_view`), and the
    dispatch on exactly the bytes behind the header -/
theorem ip4_reparse (cx : Ctx) (o : Ip4) (h : o.Inv) (hn : o.Normal) (hf : o.Fits) (region : Bytes)
    (hr : o.hdr ≤ region.length) (h16 : region.length < 65536) :
    ∃ out, o.write cx region = .ok out ∧
      Ip4.parse out = .ok (Ip4.final cx o region,
        if region.length - o.hdr > 0 then (Ip4.final cx o region).dispatch (region.drop o.hdr) else .none) := by
  refine ⟨_, ip4_write_final cx o h hf region hr, ?_⟩
  have hfi := final_inv cx o region h hf
  have hbl := ip4_headerBytes_length (Ip4.final cx o region) hfi.src hfi.dst
  have hob := optsBytes_length o.opts (fun p hp => (h.opts p hp).type)
  have hpad := padOptionsSize_le (Ip4.calcOptionsSize o.opts)
  have hm4 := hdr_mod4 o
  have hhdr : o.hdr = 20 + Ip4.padOptionsSize (Ip4.calcOptionsSize o.opts) := rfl
  generalize hk : Ip4.padOptionsSize (Ip4.calcOptionsSize o.opts) - Ip4.calcOptionsSize o.opts = k at *
  generalize htail : region.drop o.hdr = tail
  have htl : tail.length = region.length - o.hdr := by rw [← htail]; simp
  generalize hbuf : (Ip4.final cx o region).headerBytes ++ (Ip4.optsBytes o.opts ++ (List.replicate k 0 ++ tail)) = buf
  have hlen : buf.length = region.length := by
    rw [← hbuf]; simp only [List.length_append, List.length_replicate, hbl, hob, htl]; omega
  have htake : buf.take 20 = (Ip4.final cx o region).headerBytes := by rw [← hbuf]; exact take_append_len _ _ _ hbl
  have hdrop : buf.drop 20 = Ip4.optsBytes o.opts ++ (List.replicate k 0 ++ tail) := by
    rw [← hbuf]; exact drop_append_len _ _ _ hbl
  have hihl : (Ip4.final cx o region).ihl * 4 = o.hdr := by rw [final_ihl]; omega
  simp only [Ip4.parse, read_ofBytes]
  have h20 : ¬ buf.length < 20 := by omega
  simp only [h20, if_false, bind, Out.bind, htake, hdrop, ofHeader_headerBytes _ hfi]
  have hih2 : (Ip4.setOpts (Ip4.final cx o region) []).ihl * 4 = o.hdr := hihl
  have hbad : (decide (o.hdr > buf.length) || decide (o.hdr < 20)) = false := by
    simp; omega
  simp only [hih2, hbad, Bool.false_eq_true, if_false]
  have hpo := parseOpts_written o.opts hn k tail 20 (o.hdr + 1) (buf.length - 20) (by omega) (by omega)
  have e20 : 20 + ((Ip4.optsBytes o.opts).length + k) = o.hdr := by omega
  rw [e20] at hpo
  rw [hpo]
  simp only [toBool_mk]
  have esz : buf.length - 20 - ((Ip4.optsBytes o.opts).length + k) = region.length - o.hdr := by omega
  rw [esz]
  have hobj : ({ Ip4.setOpts (Ip4.final cx o region) [] with opts := o.opts } : Ip4) = Ip4.final cx o region := rfl
  by_cases hpos : region.length - o.hdr > 0
  · simp only [hpos, decide_true, if_true, hobj]
    have hin : (Ip4.final cx o region).innerSize (region.length - o.hdr) = region.length - o.hdr := by
      unfold Ip4.innerSize
      rw [final_totLen, final_ihl, Nat.mod_eq_of_lt h16]
      have hne : (region.length != 0) = true := bne_iff_ne.mpr (by omega)
      simp only [hne, if_true]
      have : (region.length + 4294967296 - o.hdr / 4 * 4) % 4294967296 = region.length - o.hdr := by omega
      rw [this]; simp
    rw [hin, rdN_zero _ _ _ (by omega)]
    have : tail.take (region.length - o.hdr) = tail := List.take_of_length_le (by omega)
    rw [this]
    rfl
  · simp only [hpos, decide_false, Bool.false_eq_true, if_false, hobj]
    rfl

/-! ### known finding KF-C04-Ip-1: `add_option` accepts options the wire format cannot express -/

/-- full statement: the option loop re-reads whatever the option writer emits for options that fit `PDUOption` -/
def ip_opts_reparse_all : Prop :=
  ∀ os : List IpOpt, (∀ p ∈ os, OptWF p) → ∀ tail : Bytes,
    Ip4.parseOpts ((Ip4.optsBytes os).length + 1) ⟨Ip4.optsBytes os ++ tail, (Ip4.optsBytes os ++ tail).length⟩ 20
      (20 + (Ip4.optsBytes os).length) = .ok (os, ⟨tail, tail.length⟩)

/-- witness: `add_option(IP::option(IP::NOOP, a, a + 2))` — NOOP with two bytes of data is written as the single byte 01,
    the data is gone (replayed on the real code: `set 0 add_option 1 aabb`) -/
theorem ip_opts_reparse_fails : ¬ ip_opts_reparse_all := by
  intro h
  have := h [⟨1, 2, [0xaa, 0xbb]⟩] (by intro p hp; simp at hp; subst hp; exact ⟨by decide, by decide, by decide⟩) []
  have e : Ip4.parseOpts ((Ip4.optsBytes [⟨1, 2, [0xaa, 0xbb]⟩]).length + 1)
      ⟨Ip4.optsBytes [⟨1, 2, [0xaa, 0xbb]⟩] ++ [], (Ip4.optsBytes [⟨1, 2, [0xaa, 0xbb]⟩] ++ []).length⟩ 20
      (20 + (Ip4.optsBytes [⟨1, 2, [0xaa, 0xbb]⟩]).length) = .ok ([⟨1, 0, []⟩], ⟨[], 0⟩) := by rfl
  rw [e] at this
  injection this with this
  injection this with this _
  injection this with this _
  injection this with _ this _
  cases this

/-- proved part (the excluded region is the explicit predicate `OptNormal`): for wire-normal options the statement holds,
    with any amount of padding (`parseOpts_written`) -/
theorem ip_opts_reparse (os : List IpOpt) (hn : ∀ p ∈ os, OptNormal p) (tail : Bytes) :
    Ip4.parseOpts ((Ip4.optsBytes os).length + 1) ⟨Ip4.optsBytes os ++ tail, (Ip4.optsBytes os ++ tail).length⟩ 20
      (20 + (Ip4.optsBytes os).length) = .ok (os, ⟨tail, tail.length⟩) := by
  have := parseOpts_written os hn 0 tail 20 ((Ip4.optsBytes os).length + 1) (Ip4.optsBytes os ++ tail).length (by omega)
    (by simp)
  simp only [List.replicate_zero, List.nil_append, Nat.add_zero] at this
  rw [this]
  simp

/-! ### known finding KF-C04-Ip-4: `eol()` on an aligned option list -/

/-- full statement: the re-parse of what an object wrote has a header of the same size, so that serializing it again gives
    a packet of the same length (the byte-for-byte clause of C03/C04) — for every object that fits `PDUOption` -/
def ip_reparse_same_size_all : Prop :=
  ∀ (cx : Ctx) (o : Ip4), o.Inv → o.Fits → ∀ region : Bytes, o.hdr ≤ region.length → region.length < 65536 →
    ∃ out o' i, o.write cx region = .ok out ∧ Ip4.parse out = .ok (o', i) ∧ o'.hdr = o.hdr

/-- witness: `IP(dst, src).eol()` in front of two payload bytes: a 24-byte header (END + 3 bytes of padding) that re-parses
    to an IP without options, 20 bytes (replayed on the real code: `new / push IP … / set 0 eol / push RawPDU 0102 / show`) -/
theorem ip_reparse_same_size_fails : ¬ ip_reparse_same_size_all := by
  intro h
  have hinv : ({ Ip4.create [10, 9, 8, 7] [10, 1, 2, 3] with opts := [⟨0, 0, []⟩] } : Ip4).Inv := by
    refine ⟨by simp [Ip4.create], by simp [Ip4.create], by simp [Ip4.create], by simp [Ip4.create], by simp [Ip4.create],
      by simp [Ip4.create], by simp [Ip4.create], by simp [Ip4.create], by simp [Ip4.create], rfl, rfl, ?_⟩
    intro p hp
    simp only [List.mem_cons, List.mem_nil_iff, or_false] at hp
    subst hp
    exact ⟨by decide, by decide, by decide⟩
  rcases h ⟨[], []⟩ _ hinv (by show Ip4.hdr _ ≤ 60; decide) (List.replicate 24 0 ++ [1, 2]) (by decide) (by decide) with
    ⟨out, o', i, hw, hp, hh⟩
  have e : ({ Ip4.create [10, 9, 8, 7] [10, 1, 2, 3] with opts := [⟨0, 0, []⟩] } : Ip4).write ⟨[], []⟩ (List.replicate 24 0 ++ [1, 2]) =
      .ok [0x46, 0, 0, 26, 0, 1, 0, 0, 128, 0, 0x1b, 0xd0, 10, 1, 2, 3, 10, 9, 8, 7, 0, 0, 0, 0, 1, 2] := by rfl
  rw [e] at hw
  injection hw with hw
  subst hw
  have e2 : Ip4.parse [0x46, 0, 0, 26, 0, 1, 0, 0, 128, 0, 0x1b, 0xd0, 10, 1, 2, 3, 10, 9, 8, 7, 0, 0, 0, 0, 1, 2] =
      .ok (⟨4, 6, 0, 26, 1, 0, 128, 0, 0x1bd0, [10, 1, 2, 3], [10, 9, 8, 7], []⟩, .raw [1, 2]) := by rfl
  rw [e2] at hp
  injection hp with hp
  injection hp with ho _
  subst ho
  revert hh
  decide

/-- proved part: for wire-normal options (no END among them — what parsing produces) the re-parsed object has the same
    options, hence the same header size -/
theorem ip_reparse_same_size_partial (cx : Ctx) (o : Ip4) (h : o.Inv) (hn : o.Normal) (hf : o.Fits) (region : Bytes)
    (hr : o.hdr ≤ region.length) (h16 : region.length < 65536) :
    ∃ out o' i, o.write cx region = .ok out ∧ Ip4.parse out = .ok (o', i) ∧ o'.hdr = o.hdr := by
  rcases ip4_reparse cx o h hn hf region hr h16 with ⟨out, hw, hp⟩
  exact ⟨out, _, _, hw, hp, rfl⟩

end Tins.Wire.Ip
