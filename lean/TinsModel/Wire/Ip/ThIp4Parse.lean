import TinsModel.Wire.Ip.Lemmas
/-
  IP (IPv4), C01: the parsing constructor is safe for every byte string — the option loop by induction over the fuel
  with the stream invariant and the position invariant `pos ≤ optEnd ≤ pos + size` (the raw pointer comparisons with
  `options_end` are what protects the raw copy of the option payload), the fuel handed out by the constructor is never
  exhausted; it hands strictly fewer bytes to the next constructor; and it establishes the object invariant, options in
  wire-normal form, and a header that fits the 4-bit length field.
-/
namespace Tins.Wire.Ip
open Tins Tins.Wire

/-- `is_single_byte_option` looks at the whole type octet: exactly the types 0 (END) and 1 (NOOP) -/
theorem singleByte_iff (t : Nat) (h : t < 256) : singleByte t = decide (t ≤ 1) := by
  unfold singleByte optCopied optClass optNumber
  rw [Bool.eq_iff_iff]
  simp only [Bool.and_eq_true, beq_iff_eq, decide_eq_true_eq]
  omega

theorem singleByte_of_le {t : Nat} (h : t ≤ 1) : singleByte t = true := by
  rw [singleByte_iff t (by omega)]; simpa using h

theorem singleByte_of_gt {t : Nat} (h1 : 1 < t) (h : t < 256) : singleByte t = false := by
  rw [singleByte_iff t h]; simp; omega

/-- what `PDUOption` can hold -/
structure OptWF (p : IpOpt) : Prop where
  type : p.type < 256
  len : p.lenField < 65536
  size : p.data.length < 65536

/-- an option in the form the wire format expresses (what the parser produces): not END, no data on NOOP, advertised
    length = data length ≤ 253 on the others -/
structure OptNormal (p : IpOpt) : Prop where
  type : p.type < 256
  notEnd : p.type ≠ 0
  single : p.type ≤ 1 → p.data = [] ∧ p.lenField = 0
  multi : 1 < p.type → p.lenField = p.data.length ∧ p.data.length ≤ 253

theorem OptNormal.wf {p : IpOpt} (h : OptNormal p) : OptWF p := by
  refine ⟨h.type, ?_, ?_⟩
  · by_cases h1 : p.type ≤ 1
    · rw [(h.single h1).2]; decide
    · have := h.multi (by omega); omega
  · by_cases h1 : p.type ≤ 1
    · rw [(h.single h1).1]; decide
    · have := h.multi (by omega); omega

theorem calcOptionsSize_cons (p : IpOpt) (ps : List IpOpt) :
    Ip4.calcOptionsSize (p :: ps) = Ip4.optSize p + Ip4.calcOptionsSize ps := by
  simp [Ip4.calcOptionsSize]

/-- **the option loop is safe for every stream state**: with the stream invariant, the position inside the header and more
    fuel than header bytes left, the loop returns wire-normal options that account for at most the bytes it consumed and
    leaves the stream exactly at the end of the header, or throws `malformed_packet`; it never faults (the raw copy out of
    `stream.pointer()` is covered by the comparison with `options_end`) and never runs out of fuel -/
theorem parseOpts_spec (fuel : Nat) (c : Cursor) (pos optEnd : Nat)
    (hc : c.Inv) (hp : pos ≤ optEnd) (hs : optEnd - pos ≤ c.size) (hf : optEnd - pos < fuel) :
    (∃ opts c', Ip4.parseOpts fuel c pos optEnd = .ok (opts, c') ∧
        c'.mem = c.mem.drop (optEnd - pos) ∧ c'.size = c.size - (optEnd - pos) ∧
        (∀ p ∈ opts, OptNormal p) ∧ Ip4.calcOptionsSize opts ≤ optEnd - pos)
    ∨ Ip4.parseOpts fuel c pos optEnd = .throw .malformedPacket := by
  induction fuel generalizing c pos with
  | zero => omega
  | succ fuel ih =>
    unfold Ip4.parseOpts
    by_cases hlt : pos < optEnd
    · simp only [hlt, decide_true, Bool.not_true, Bool.false_eq_true, if_false]
      have hmem : c.size ≤ c.mem.length := hc
      rcases readU8_spec c hc with ⟨x, hx, e1, _⟩ | ⟨_, h0⟩
      · have ht : x.toNat < 256 := UInt8.toNat_lt x
        have i1 : (⟨c.mem.drop 1, c.size - 1⟩ : Cursor).Inv := by
          simp only [Cursor.Inv, List.length_drop]; omega
        simp only [e1, bind, Out.bind]
        by_cases hsb : singleByte x.toNat = true
        · -- END or NOOP
          have hle : x.toNat ≤ 1 := by
            rw [singleByte_iff _ ht] at hsb; simpa using hsb
          simp only [hsb, Bool.not_true, Bool.false_eq_true, if_false]
          by_cases hz : x.toNat = 0
          · -- END: skip to the end of the header
            left
            have hsk := skip_closed ⟨c.mem.drop 1, c.size - 1⟩ (optEnd - (pos + 1)) (by simp only; omega)
            refine ⟨[], ⟨(c.mem.drop 1).drop (optEnd - (pos + 1)), c.size - 1 - (optEnd - (pos + 1))⟩, ?_, ?_, ?_, by simp,
              by simp [Ip4.calcOptionsSize]⟩
            · simp only [hz, beq_self_eq_true, if_true, hsk, pure]
            · simp only [List.drop_drop]; congr 1; omega
            · simp only; omega
          · have h1 : x.toNat = 1 := by omega
            have hne : (x.toNat == 0) = false := by simp [hz]
            simp only [hne, Bool.false_eq_true, if_false]
            rcases ih ⟨c.mem.drop 1, c.size - 1⟩ (pos + 1) i1 (by omega) (by simp only; omega) (by omega) with
              ⟨opts, c', e, hm, hsize, hn, hsz⟩ | e
            · left
              refine ⟨⟨x.toNat, 0, []⟩ :: opts, c', ?_, ?_, ?_, ?_, ?_⟩
              · simp only [e, pure]
              · rw [hm]; simp only [List.drop_drop]; congr 1; omega
              · rw [hsize]; simp only; omega
              · intro p hp'
                rcases List.mem_cons.mp hp' with rfl | hp'
                · exact ⟨ht, hz, fun _ => ⟨rfl, rfl⟩, fun h => by have h' : 1 < x.toNat := h; omega⟩
                · exact hn p hp'
              · rw [calcOptionsSize_cons]
                simp only [Ip4.optSize, hsb, Bool.not_true, Bool.false_eq_true, if_false]
                omega
            · right; simp only [e]
        · -- multi-byte option
          have hsb' : singleByte x.toNat = false := by simpa using hsb
          have hgt : 1 < x.toNat := by
            rw [singleByte_iff _ ht] at hsb'; simpa using hsb'
          simp only [hsb', Bool.not_false, if_true]
          by_cases hge : pos + 1 ≥ optEnd
          · right; simp [hge]
          · simp only [hge, if_false]
            rcases readU8_spec ⟨c.mem.drop 1, c.size - 1⟩ i1 with ⟨y, hy, e2, _⟩ | ⟨_, h0⟩
            · simp only [List.drop_drop] at e2
              have i2 : (⟨c.mem.drop (1 + 1), c.size - 1 - 1⟩ : Cursor).Inv := by
                simp only [Cursor.Inv, List.length_drop]; omega
              simp only [e2]
              by_cases hsmall : y.toNat < 2
              · right; simp [hsmall]
              · simp only [hsmall, if_false]
                by_cases hds : y.toNat - 2 > 0
                · simp only [hds, if_true]
                  by_cases hover : pos + 1 + 1 + (y.toNat - 2) > optEnd
                  · right; simp [hover]
                  · simp only [hover, if_false]
                    have hpk : Cursor.peek "IP::IP option(opt_type, stream.pointer(), stream.pointer() + data_size)"
                        ⟨c.mem.drop (1 + 1), c.size - 1 - 1⟩ 0 (y.toNat - 2) = .ok ((c.mem.drop (1 + 1)).take (y.toNat - 2)) := by
                      unfold Cursor.peek
                      exact rdN_zero _ _ _ (by simp only [List.length_drop]; omega)
                    have hsk := skip_closed ⟨c.mem.drop (1 + 1), c.size - 1 - 1⟩ (y.toNat - 2) (by simp only; omega)
                    simp only [hpk, hsk, List.drop_drop]
                    have i3 : (⟨c.mem.drop (1 + 1 + (y.toNat - 2)), c.size - 1 - 1 - (y.toNat - 2)⟩ : Cursor).Inv := by
                      simp only [Cursor.Inv, List.length_drop]; omega
                    rcases ih ⟨c.mem.drop (1 + 1 + (y.toNat - 2)), c.size - 1 - 1 - (y.toNat - 2)⟩ (pos + 1 + 1 + (y.toNat - 2)) i3
                        (by omega) (by simp only; omega) (by omega) with ⟨opts, c', e, hm, hsize, hn, hsz⟩ | e
                    · left
                      have hdl : ((c.mem.drop (1 + 1)).take (y.toNat - 2)).length = y.toNat - 2 := by
                        simp only [List.length_take, List.length_drop]; omega
                      refine ⟨⟨x.toNat, y.toNat - 2, (c.mem.drop (1 + 1)).take (y.toNat - 2)⟩ :: opts, c', ?_, ?_, ?_, ?_, ?_⟩
                      · simp only [e, pure]
                      · rw [hm]; simp only [List.drop_drop]; congr 1; omega
                      · rw [hsize]; simp only; omega
                      · intro p hp'
                        rcases List.mem_cons.mp hp' with rfl | hp'
                        · have hy8 := UInt8.toNat_lt y
                          exact ⟨ht, (by show x.toNat ≠ 0; omega), fun h => by have h' : x.toNat ≤ 1 := h; omega, fun _ => ⟨by simp only [hdl], by simp only [hdl]; omega⟩⟩
                        · exact hn p hp'
                      · rw [calcOptionsSize_cons]
                        simp only [Ip4.optSize, hsb', Bool.not_false, if_true, hdl]
                        omega
                    · right; simp only [e]
                · simp only [hds, if_false]
                  rcases ih ⟨c.mem.drop (1 + 1), c.size - 1 - 1⟩ (pos + 1 + 1) i2 (by omega) (by simp only; omega) (by omega) with
                    ⟨opts, c', e, hm, hsize, hn, hsz⟩ | e
                  · left
                    refine ⟨⟨x.toNat, 0, []⟩ :: opts, c', ?_, ?_, ?_, ?_, ?_⟩
                    · simp only [e, pure]
                    · rw [hm]; simp only [List.drop_drop]; congr 1; omega
                    · rw [hsize]; simp only; omega
                    · intro p hp'
                      rcases List.mem_cons.mp hp' with rfl | hp'
                      · exact ⟨ht, (by show x.toNat ≠ 0; omega), fun h => by have h' : x.toNat ≤ 1 := h; omega, fun _ => ⟨rfl, by simp⟩⟩
                      · exact hn p hp'
                    · rw [calcOptionsSize_cons]
                      simp only [Ip4.optSize, hsb', Bool.not_false, if_true, List.length_nil]
                      omega
                  · right; simp only [e]
            · simp only at h0; omega
      · omega
    · left
      have he : optEnd - pos = 0 := by omega
      refine ⟨[], c, ?_, by simp [he], by simp [he], by simp, by simp [Ip4.calcOptionsSize]⟩
      simp [hlt]


/-- the header struct with the parsed option list -/
def Ip4.setOpts (o : Ip4) (os : List IpOpt) : Ip4 := { o with opts := os }

theorem innerSize_le (o : Ip4) (n : Nat) : o.innerSize n ≤ n := by
  unfold Ip4.innerSize
  split
  · simp only; split <;> omega
  · omega

/-- **shape of the parsing constructor**: `malformed_packet`, or a header of `ihl * 4 ∈ [20, |b|]` bytes whose option area
    parsed into wire-normal options of at most `ihl * 4 - 20` bytes, followed by the dispatch on at most the bytes behind
    the header -/
theorem ip4_parse_cases (b : Bytes) :
    Ip4.parse b = .throw .malformedPacket ∨
    ∃ opts : List IpOpt, 20 ≤ b.length ∧ (Ip4.ofHeader (b.take 20)).ihl * 4 ≤ b.length ∧ 20 ≤ (Ip4.ofHeader (b.take 20)).ihl * 4 ∧
      (∀ p ∈ opts, OptNormal p) ∧ Ip4.calcOptionsSize opts ≤ (Ip4.ofHeader (b.take 20)).ihl * 4 - 20 ∧
      Ip4.parseOpts ((Ip4.ofHeader (b.take 20)).ihl * 4 + 1) ⟨b.drop 20, b.length - 20⟩ 20 ((Ip4.ofHeader (b.take 20)).ihl * 4) =
        .ok (opts, ⟨b.drop ((Ip4.ofHeader (b.take 20)).ihl * 4), b.length - (Ip4.ofHeader (b.take 20)).ihl * 4⟩) ∧
      Ip4.parse b =
        (if b.length - (Ip4.ofHeader (b.take 20)).ihl * 4 > 0 then
          .ok ((Ip4.setOpts (Ip4.ofHeader (b.take 20)) opts),
               Ip4.dispatch (Ip4.setOpts (Ip4.ofHeader (b.take 20)) opts)
                 ((b.drop ((Ip4.ofHeader (b.take 20)).ihl * 4)).take
                   (Ip4.innerSize (Ip4.setOpts (Ip4.ofHeader (b.take 20)) opts) (b.length - (Ip4.ofHeader (b.take 20)).ihl * 4))))
         else .ok (Ip4.setOpts (Ip4.ofHeader (b.take 20)) opts, .none)) := by
  simp only [Ip4.parse, read_ofBytes]
  by_cases h20 : b.length < 20
  · left; simp [h20, bind, Out.bind]
  · simp only [h20, if_false, bind, Out.bind]
    generalize hhd : Ip4.ofHeader (b.take 20) = hd
    by_cases hbad : (decide (hd.ihl * 4 > b.length) || decide (hd.ihl * 4 < 20)) = true
    · left; simp only [hbad, if_true]
    · simp only [hbad, Bool.false_eq_true, if_false]
      have hb1 : hd.ihl * 4 ≤ b.length ∧ 20 ≤ hd.ihl * 4 := by
        simp only [Bool.or_eq_true, decide_eq_true_eq, not_or, Nat.not_lt, gt_iff_lt] at hbad
        omega
      have hci : (⟨b.drop 20, b.length - 20⟩ : Cursor).Inv := by simp [Cursor.Inv]
      rcases parseOpts_spec (hd.ihl * 4 + 1) ⟨b.drop 20, b.length - 20⟩ 20 (hd.ihl * 4) hci (by omega) (by simp only; omega)
          (by omega) with ⟨opts, c', e, hm, hsz, hn, hcs⟩ | e
      · right
        simp only [List.drop_drop] at hm
        have hm' : c'.mem = b.drop (hd.ihl * 4) := by rw [hm]; congr 1; omega
        have hsz' : c'.size = b.length - hd.ihl * 4 := by rw [hsz]; simp only; omega
        have hc' : c' = ⟨b.drop (hd.ihl * 4), b.length - hd.ihl * 4⟩ := by
          cases c'; simp only at hm' hsz'; subst hm' hsz'; rfl
        subst hc'
        refine ⟨opts, by omega, hb1.1, hb1.2, hn, hcs, e, ?_⟩
        simp only [e, toBool_mk]
        by_cases hpos : b.length - hd.ihl * 4 > 0
        · simp only [hpos, decide_true, if_true]
          have hle := innerSize_le (Ip4.setOpts hd opts) (b.length - hd.ihl * 4)
          rw [rdN_zero _ _ _ (by simp only [List.length_drop]; exact hle)]
          rfl
        · simp only [hpos, decide_false, Bool.false_eq_true, if_false]
          rfl
      · left; simp only [e]

/-- **C01 / IP**: for every byte string the parsing constructor returns a packet or throws `malformed_packet`; it never
    reads outside the buffer -/
theorem ip4_parse_safe (b : Bytes) : ParseSafe (Ip4.parse b) := by
  rcases ip4_parse_cases b with h | ⟨opts, _, _, _, _, _, _, h⟩
  · rw [h]; exact .malformed
  · rw [h]; split <;> exact .ok _

theorem dispatch_cls_eq (o : Ip4) (pl : Bytes) (name : String) (pb : Bytes) (fb : Bool)
    (h : o.dispatch pl = .cls name pb fb) : pb = pl ∧ fb = false := by
  unfold Ip4.dispatch at h
  split at h
  · split at h
    · injection h with _ h1 h2; exact ⟨h1.symm, h2.symm⟩
    · cases h
  · cases h

/-- **C01 / IP, termination of the nested constructors**: the inner constructor gets strictly fewer bytes -/
theorem ip4_parse_consumes (b : Bytes) (o : Ip4) (name : String) (pb : Bytes) (fb : Bool)
    (h : Ip4.parse b = .ok (o, .cls name pb fb)) : pb.length < b.length := by
  rcases ip4_parse_cases b with h' | ⟨opts, h20, hle, hge, _, _, _, h'⟩
  · rw [h'] at h; cases h
  · rw [h'] at h
    split at h
    · injection h with h; injection h with _ hi
      rcases dispatch_cls_eq _ _ _ _ _ hi with ⟨rfl, _⟩
      simp only [List.length_take, List.length_drop]
      omega
    · injection h with h; injection h with _ hi; cases hi

/-- IP never catches the exception of the inner constructor -/
theorem ip4_parse_no_fallback (b : Bytes) (o : Ip4) (name : String) (pb : Bytes) (fb : Bool)
    (h : Ip4.parse b = .ok (o, .cls name pb fb)) : fb = false := by
  rcases ip4_parse_cases b with h' | ⟨opts, _, _, _, _, _, _, h'⟩
  · rw [h'] at h; cases h
  · rw [h'] at h
    split at h
    · injection h with h; injection h with _ hi
      exact (dispatch_cls_eq _ _ _ _ _ hi).2
    · injection h with h; injection h with _ hi; cases hi

/-- the object invariant: every field fits its width, the addresses have 4 bytes, every option fits `PDUOption` -/
structure Ip4.Inv (o : Ip4) : Prop where
  version : o.version < 16
  ihl : o.ihl < 16
  tos : o.tos < 256
  totLen : o.totLen < 65536
  id : o.id < 65536
  fragOff : o.fragOff < 65536
  ttl : o.ttl < 256
  protocol : o.protocol < 256
  check : o.check < 65536
  src : o.src.length = 4
  dst : o.dst.length = 4
  opts : ∀ p ∈ o.opts, OptWF p

/-- every option is in the form the wire format expresses -/
def Ip4.Normal (o : Ip4) : Prop := ∀ p ∈ o.opts, OptNormal p

/-- the header fits the 4-bit length field: at most 40 bytes of padded options -/
def Ip4.Fits (o : Ip4) : Prop := o.hdr ≤ 60

theorem ofHeader_inv (h : Bytes) (hl : h.length = 20) (opts : List IpOpt) (ho : ∀ p ∈ opts, OptWF p) :
    (Ip4.setOpts (Ip4.ofHeader h) opts).Inv := by
  have h0 := byteAt_lt h 0
  refine ⟨?_, ?_, byteAt_lt _ _, ?_, ?_, ?_, byteAt_lt _ _, byteAt_lt _ _, ?_, ?_, ?_, ho⟩
  · simp only [Ip4.ofHeader, Ip4.setOpts]; omega
  · simp only [Ip4.ofHeader, Ip4.setOpts]; omega
  · exact beNat_lt_of_length _ 2 (by simp only [List.length_take, List.length_drop]; omega)
  · exact beNat_lt_of_length _ 2 (by simp only [List.length_take, List.length_drop]; omega)
  · exact beNat_lt_of_length _ 2 (by simp only [List.length_take, List.length_drop]; omega)
  · exact beNat_lt_of_length _ 2 (by simp only [List.length_take, List.length_drop]; omega)
  · simp only [Ip4.ofHeader, Ip4.setOpts, List.length_take, List.length_drop]; omega
  · simp only [Ip4.ofHeader, Ip4.setOpts, List.length_take, List.length_drop]; omega

theorem padOptionsSize_le (n : Nat) : n ≤ Ip4.padOptionsSize n ∧ Ip4.padOptionsSize n < n + 4 ∧ Ip4.padOptionsSize n % 4 = 0 := by
  unfold Ip4.padOptionsSize
  simp only [bne_iff_ne, ne_eq]
  split <;> omega

theorem padOptionsSize_mono_40 (n : Nat) (h : n ≤ 40) : Ip4.padOptionsSize n ≤ 40 := by
  have := padOptionsSize_le n
  omega

/-- what parsing establishes: the invariant, wire-normal options, and a header of at most 60 bytes (so that every
    accepted packet can be serialized: the 4-bit header length can express it) -/
theorem ip4_parse_inv (b : Bytes) (o : Ip4) (i : Inner) (h : Ip4.parse b = .ok (o, i)) : o.Inv ∧ o.Normal ∧ o.Fits := by
  rcases ip4_parse_cases b with h' | ⟨opts, h20, hle, hge, hn, hcs, _, h'⟩
  · rw [h'] at h; cases h
  · rw [h'] at h
    have hihl : (Ip4.ofHeader (b.take 20)).ihl < 16 := by
      have := byteAt_lt (b.take 20) 0
      simp only [Ip4.ofHeader]; omega
    have key : (Ip4.setOpts (Ip4.ofHeader (b.take 20)) opts).Inv ∧
        (Ip4.setOpts (Ip4.ofHeader (b.take 20)) opts).Normal ∧ (Ip4.setOpts (Ip4.ofHeader (b.take 20)) opts).Fits := by
      refine ⟨ofHeader_inv _ (by simp only [List.length_take]; omega) _ (fun p hp => (hn p hp).wf), hn, ?_⟩
      simp only [Ip4.Fits, Ip4.hdr, Ip4.setOpts]
      have := padOptionsSize_mono_40 (Ip4.calcOptionsSize opts) (by omega)
      omega
    split at h <;> (injection h with h; injection h with ho _; subst ho; exact key)

end Tins.Wire.Ip
