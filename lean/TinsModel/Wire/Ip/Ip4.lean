import TinsModel.Wire.Ip.Util
import TinsModel.Wire.Checksum
import TinsModel.Checksum.Model
/-
  `Tins::IP` (src/ip.cpp, include/tins/ip.h), little-endian host.

  Header (20 bytes): byte0 = version(4)<<4 | ihl(4), tos, tot_len (be16), id (be16), frag_off (be16: flags(3) |
  fragment offset(13)), ttl, protocol, check (be16), saddr, daddr; then the options, padded with zeros to a multiple
  of four bytes.  An option is `PDUOption<option_identifier, IP>`: the type octet (copied(1) | class(2) | number(5)),
  the advertised length `size_` and the stored bytes (`real_size_` of them).

  The model follows the code *after* the fixes of this family (KF-C02-Ip-1, KF-C03-Ip-1, KF-C03-Ip-2, KF-C02-Ip-2,
  KF-C02-Ip-4): parser, size function and writer agree that only the type octets 0 (END) and 1 (NOOP) are single bytes,
  END stops the option loop and the rest of the header is padding, an option's length octet must lie inside the header,
  and a header of more than 60 bytes is refused.
-/
namespace Tins.Wire.Ip

/-- `IP::option` = `PDUOption<option_identifier, IP>` -/
structure IpOpt where
  type : Nat          -- the option_identifier octet: copied << 7 | op_class << 5 | number
  lenField : Nat      -- `length_field()` (`size_`, uint16_t)
  data : Bytes        -- `data_ptr()[0 .. data_size())`
deriving Repr, DecidableEq

structure Ip4 where
  version : Nat
  ihl : Nat           -- head_len()
  tos : Nat
  totLen : Nat
  id : Nat
  fragOff : Nat       -- frag_off in host order: flags() << 13 | fragment_offset()
  ttl : Nat
  protocol : Nat
  check : Nat
  src : Bytes         -- saddr as it lies in memory (network order)
  dst : Bytes
  opts : List IpOpt   -- options_
deriving Repr, DecidableEq

/-- `option_identifier` fields of a type octet (little-endian bit-field layout: number:5, op_class:2, copied:1) -/
def optNumber (t : Nat) : Nat := t % 32
def optClass (t : Nat) : Nat := t / 32 % 4
def optCopied (t : Nat) : Nat := t / 128 % 2

/-- `is_single_byte_option(id)`: `id.copied == 0 && id.op_class == IP::CONTROL && id.number <= IP::NOOP` -/
def singleByte (t : Nat) : Bool := optCopied t == 0 && optClass t == 0 && optNumber t ≤ 1

namespace Ip4

/-- the header struct as `stream.read(header_)` fills it -/
def ofHeader (h : Bytes) : Ip4 :=
  { version := byteAt h 0 / 16, ihl := byteAt h 0 % 16, tos := byteAt h 1,
    totLen := Cursor.beNat ((h.drop 2).take 2), id := Cursor.beNat ((h.drop 4).take 2),
    fragOff := Cursor.beNat ((h.drop 6).take 2), ttl := byteAt h 8, protocol := byteAt h 9,
    check := Cursor.beNat ((h.drop 10).take 2), src := (h.drop 12).take 4, dst := (h.drop 16).take 4, opts := [] }

/-- `flags()`: `be_to_host(frag_off) >> 13` -/
def flags (o : Ip4) : Nat := o.fragOff / 8192
/-- `fragment_offset()`: `be_to_host(frag_off) & 0x1fff` -/
def fragmentOffset (o : Ip4) : Nat := o.fragOff % 8192

/-- `is_fragmented()`: `(flags() & MORE_FRAGMENTS) != 0 || fragment_offset() != 0` -/
def isFragmented (o : Ip4) : Bool := o.flags % 2 != 0 || o.fragmentOffset != 0

/-- the `while (stream.pointer() < options_end)` loop.  `pos` = `stream.pointer() - buffer`, `optEnd` =
    `options_end - buffer`.  The comparisons with `options_end` are raw pointer comparisons and the option payload is
    copied through the raw pointer (`option(opt_type, stream.pointer(), stream.pointer() + data_size)`): only the
    pointer test protects it, so the copy is a `peek` that faults when the bytes do not exist.
    Every round consumes at least one byte; `fuel` bounds the number of rounds (`parseOpts_spec`). -/
def parseOpts : Nat → Cursor → Nat → Nat → Out (List IpOpt × Cursor)
  | 0, _, _, _ => .fault "IP::IP option loop: out of fuel"
  | fuel + 1, c, pos, optEnd =>
    if !(pos < optEnd) then .ok ([], c) else do
      let (t, c) ← c.readU8                                  -- (option_identifier)stream.read<uint8_t>()
      let pos := pos + 1
      if !singleByte t then
        -- Multibyte options with length as second byte, which has to be inside the header as well
        if pos ≥ optEnd then .throw .malformedPacket else    -- stream.pointer() >= options_end
        let (optionSize, c) ← c.readU8                       -- stream.read<uint8_t>()
        let pos := pos + 1
        if optionSize < 2 then .throw .malformedPacket else
        let dataSize := optionSize - 2
        if dataSize > 0 then
          if pos + dataSize > optEnd then .throw .malformedPacket else   -- stream.pointer() + data_size > options_end
          let d ← c.peek "IP::IP option(opt_type, stream.pointer(), stream.pointer() + data_size)" 0 dataSize
          let c ← c.skip dataSize
          let (rest, c) ← parseOpts fuel c (pos + dataSize) optEnd
          pure (⟨t, dataSize, d⟩ :: rest, c)
        else
          let (rest, c) ← parseOpts fuel c pos optEnd
          pure (⟨t, 0, []⟩ :: rest, c)
      else if t == 0 then
        -- END: the rest of the header is padding
        let c ← c.skip (optEnd - pos)                         -- stream.skip(options_end - stream.pointer())
        pure ([], c)
      else
        let (rest, c) ← parseOpts fuel c pos optEnd
        pure (⟨t, 0, []⟩ :: rest, c)

/-- `uint32_t advertised_length = (uint32_t)tot_len() - head_len() * sizeof(uint32_t)` and the `min` with the stream -/
def innerSize (o : Ip4) (streamSize : Nat) : Nat :=
  if o.totLen != 0 then
    let advertised := (o.totLen + 4294967296 - o.ihl * 4) % 4294967296
    if streamSize < advertised then streamSize else advertised
  else streamSize

/-- `Internals::pdu_from_flag((Constants::IP::e)protocol, ptr, size, false)`, then `Internals::allocate<IP>` (nothing
    is registered), then `RawPDU`; none of them is wrapped in a try block -/
def dispatch (o : Ip4) (pl : Bytes) : Inner :=
  if !o.isFragmented then
    match Tags.classOfIpProto o.protocol with
    | some cls => .cls cls pl false
    | none => .raw pl
  else .raw pl                                               -- It's fragmented, just use RawPDU

/-- `IP::IP(const uint8_t* buffer, uint32_t total_sz)` -/
def parse (b : Bytes) : Out (Ip4 × Inner) := do
  let c := Cursor.ofBytes b
  let (h, c) ← c.read 20                                     -- stream.read(header_)
  let hd := ofHeader h
  -- Make sure we have enough size for options and not less than we should
  if hd.ihl * 4 > b.length || hd.ihl * 4 < 20 then .throw .malformedPacket else
  let optEnd := hd.ihl * 4
  let (opts, c) ← parseOpts (optEnd + 1) c 20 optEnd
  let o := { hd with opts := opts }
  if c.toBool then
    let totalSz := o.innerSize c.size
    let pl ← rdN "IP::IP inner(stream.pointer(), total_sz)" c.mem 0 totalSz
    pure (o, o.dispatch pl)
  else pure (o, .none)

/-! ### options: size function, writer, container -/

/-- one term of `calculate_options_size()` -/
def optSize (p : IpOpt) : Nat := 1 + (if !singleByte p.type then 1 + p.data.length else 0)

/-- `IP::calculate_options_size()` -/
def calcOptionsSize (os : List IpOpt) : Nat := (os.map optSize).sum

/-- `IP::pad_options_size(size)`: `uint8_t padding = size % 4; return padding ? (size - padding + 4) : size` -/
def padOptionsSize (size : Nat) : Nat :=
  let padding := size % 4
  if padding != 0 then size - padding + 4 else size

/-- `IP::header_size()` -/
def hdr (o : Ip4) : Nat := 20 + padOptionsSize (calcOptionsSize o.opts)

/-- the length octet `write_option` emits: `uint8_t length = opt.length_field(); if (opt.data_size() ==
    opt.length_field()) length += 2;` -/
def lengthOctet (p : IpOpt) : Nat :=
  let length := p.lenField % 256
  if p.data.length == p.lenField then (length + 2) % 256 else length

/-- `IP::write_option`: the type octet, then — `if (*(stream.pointer() - 1) > NOOP)` — length octet and data -/
def writeOption (oc : OutCursor) (p : IpOpt) : Out OutCursor := do
  let oc ← oc.write [UInt8.ofNat p.type]                     -- stream.write(opt.option())
  if p.type % 256 > 1 then
    let oc ← oc.write [UInt8.ofNat (lengthOctet p)]          -- stream.write(length)
    oc.write p.data                                          -- stream.write(opt.data_ptr(), opt.data_size())
  else pure oc

def writeOptions (oc : OutCursor) : List IpOpt → Out OutCursor
  | [] => .ok oc
  | p :: ps => do
    let oc ← writeOption oc p
    writeOptions oc ps

/-- `Internals::find_option`: first option whose identifier equals `t` -/
def searchOption (o : Ip4) (t : Nat) : Option IpOpt := o.opts.find? (·.type == t)

/-- `IP::remove_option`: erase the first match -/
def removeOption (o : Ip4) (t : Nat) : Ip4 := { o with opts := o.opts.eraseP (·.type == t) }

/-- `IP::add_option` -/
def addOption (o : Ip4) (p : IpOpt) : Ip4 := { o with opts := o.opts ++ [p] }

/-! ### typed options -/

/-- `IP::security(const security_type&)`: 9 bytes -/
def encodeSecurity (sec comp hand tcc : Nat) : IpOpt :=
  let d := OutCursor.beBytes 2 sec ++ OutCursor.beBytes 2 comp ++ OutCursor.beBytes 2 hand ++
    [UInt8.ofNat (tcc / 65536 % 256), UInt8.ofNat (tcc / 256 % 256), UInt8.ofNat (tcc % 256)]
  ⟨130, 9, d⟩

/-- `IP::security_type::from_option` -/
def decodeSecurity (p : IpOpt) : Out (Nat × Nat × Nat × Nat) :=
  if p.data.length != 9 then .throw .malformedOption
  else .ok (Cursor.beNat (p.data.take 2), Cursor.beNat ((p.data.drop 2).take 2), Cursor.beNat ((p.data.drop 4).take 2),
            Cursor.beNat ((p.data.drop 6).take 3))

/-- `IP::stream_identifier(uint16_t)` -/
def encodeStreamId (v : Nat) : IpOpt := ⟨136, 2, OutCursor.beBytes 2 v⟩

/-- `opt->to<uint16_t>()` (`Converters::convert`, big-endian PDU) -/
def decodeStreamId (p : IpOpt) : Out Nat :=
  if p.data.length != 2 then .throw .malformedOption else .ok (Cursor.beNat p.data)

/-- the option data `IP::add_route_option(id, data)` builds: pointer octet, then the addresses (4 bytes each, network
    order) -/
def routeData (ptr : Nat) (routes : List Bytes) : Bytes := UInt8.ofNat ptr :: routes.flatten

/-- cut a byte string into 4-byte addresses (`while (route < end) { memcpy(&buf, route, 4); … route += 4; }`);
    the raw `memcpy` is covered by the `(data_size - 1) % 4 == 0` test of the caller -/
def chunks4 : Nat → Bytes → List Bytes
  | 0, _ => []
  | n + 1, bs => if bs.isEmpty then [] else bs.take 4 :: chunks4 n (bs.drop 4)

/-- `IP::generic_route_option_type::from_option` (after fix KF-C04-Ip-5: a route option without addresses is legal) -/
def decodeRoute (p : IpOpt) : Out (Nat × List Bytes) :=
  if p.data.length < 1 || (p.data.length - 1) % 4 != 0 then .throw .malformedOption
  else .ok (byteAt p.data 0, chunks4 p.data.length (p.data.drop 1))

def securityStr (o : Ip4) : String :=
  match o.searchOption 130 with
  | none => "nf"
  | some p => match decodeSecurity p with
    | .ok (a, b, c, d) => s!"{a}.{b}.{c}.{d}"
    | _ => "malformed_option"

def streamIdStr (o : Ip4) : String :=
  match o.searchOption 136 with
  | none => "nf"
  | some p => match decodeStreamId p with
    | .ok v => toString v
    | _ => "malformed_option"

def routeStr (o : Ip4) (t : Nat) : String :=
  match o.searchOption t with
  | none => "nf"
  | some p => match decodeRoute p with
    | .ok (ptr, rs) => s!"{ptr}:" ++ ".".intercalate (rs.map hexStr)
    | _ => "malformed_option"

def optStr (p : IpOpt) : String := s!"{p.type}:{p.lenField}:{hexStr p.data}"

/-- END options are list terminators / padding (RFC 791): they are counted in the derived field `~eol`, the option list
    of the view holds the others -/
def realOpts (os : List IpOpt) : List IpOpt := os.filter (fun p => p.type != 0)

def optsStr (os : List IpOpt) : String := if os.isEmpty then "-" else ",".intercalate (os.map optStr)

def fields (o : Ip4) : Fields :=
  [("version", toString o.version), ("~head_len", toString o.ihl), ("tos", toString o.tos),
   ("~tot_len", toString o.totLen), ("id", toString o.id), ("flags", toString o.flags),
   ("fragment_offset", toString o.fragmentOffset), ("ttl", toString o.ttl), ("^protocol", toString o.protocol),
   ("~checksum", toString o.check), ("src_addr", hexStr o.src), ("dst_addr", hexStr o.dst),
   ("opts", optsStr (realOpts o.opts)), ("~eol", toString (o.opts.length - (realOpts o.opts).length)),
   ("security", o.securityStr), ("stream_identifier", o.streamIdStr), ("lsrr", o.routeStr 131),
   ("ssrr", o.routeStr 137), ("record_route", o.routeStr 7)]

/-! ### serialization -/

def headerBytes (o : Ip4) : Bytes :=
  [UInt8.ofNat (o.ihl + o.version * 16), UInt8.ofNat o.tos] ++ OutCursor.beBytes 2 o.totLen ++ OutCursor.beBytes 2 o.id ++
  OutCursor.beBytes 2 o.fragOff ++ [UInt8.ofNat o.ttl, UInt8.ofNat o.protocol] ++ OutCursor.beBytes 2 o.check ++ o.src ++ o.dst

/-- the protocol `write_serialization` stores: the inner PDU's when it maps to one (`pdu_flag_to_ip_type`; no PDU type
    is registered for IP by the user), the stored one when it does not, 0 without an inner PDU -/
def protocolFor (cx : Ctx) (o : Ip4) : Nat :=
  match cx.inners.head? with
  | some i =>
    let newFlag := Tags.ipProtoOfPduType (Tags.pduTypeOf i.cls)
    if newFlag != 255 then newFlag % 256 else o.protocol
  | none => 0

/-- the object whose header `write_serialization` stores -/
def written (cx : Ctx) (o : Ip4) (total : Nat) : Ip4 :=
  { o with check := 0, protocol := protocolFor cx o, totLen := total % 65536, ihl := o.hdr / 4 }

/-- the checksum tail: `do_checksum(buffer, stream.pointer())`, fold, `checksum(~check)`, and the raw store
    `((ip_header*)buffer)->check = header_.check` -/
def checksumField (buf : Bytes) (hlen : Nat) : Nat :=
  let check := Ck.doChecksum (buf.take hlen)
  let check := Ck.fold32 check
  Ck.bswap16 (Ck.wrap16 (Ck.not32 check))

/-- `IP::write_serialization(buffer, total_sz)` -/
def write (cx : Ctx) (o : Ip4) (region : Bytes) : Out Bytes := do
  let oc := OutCursor.ofRegion region
  -- a header of more than 15 words does not fit the 4 bit field
  if o.hdr / 4 > 15 then .throw .serializationError else
  let oc ← oc.write (written cx o region.length).headerBytes    -- stream.write(header_)
  let oc ← writeOptions oc o.opts
  let optionsSize := calcOptionsSize o.opts
  let padded := padOptionsSize optionsSize
  let oc ← oc.fill (padded - optionsSize) 0                        -- Add option padding
  let buf := oc.buffer
  let field := checksumField buf oc.done.length
  poke "IP::write_serialization ((ip_header*)buffer)->check" buf 10 (le16 field)

/-! ### public constructors and setters -/

/-- `IP::IP(address_type ip_dst, address_type ip_src)`: `init_ip_fields()` (version 4, ttl 128, id 1) -/
def create (dst src : Bytes) : Ip4 :=
  { version := 4, ihl := 0, tos := 0, totLen := 0, id := 1, fragOff := 0, ttl := 128, protocol := 0, check := 0,
    src := src, dst := dst, opts := [] }

/-- `PDUOption(opt, start, end)`: advertised length = number of bytes; more than 65535: `option_payload_too_large` -/
def mkOpt (t : Nat) (d : Bytes) : Out IpOpt :=
  if d.length > 65535 then .throw .optionPayloadTooLarge else .ok ⟨t, d.length, d⟩

/-- `PDUOption(opt, length, start, end)`: explicit advertised length -/
def mkOptLen (t len : Nat) (d : Bytes) : Out IpOpt :=
  if d.length > 65535 then .throw .optionPayloadTooLarge else .ok ⟨t, len % 65536, d⟩

def parseAddr (s : String) : Option Bytes :=
  match parseHexStr s with
  | some b => if b.length == 4 then some b else none
  | none => none

/-- a route list argument: concatenated 4-byte addresses in hex, "-" = none -/
def parseRoutes (s : String) : Option (List Bytes) :=
  match parseHexStr s with
  | some b => if b.length % 4 == 0 then some (chunks4 b.length b) else none
  | none => none

def apply (o : Ip4) : List String → Out Ip4
  | ["tos", v] => match v.toNat? with | some n => .ok { o with tos := n % 256 } | none => .throw .stdOther
  | ["id", v] => match v.toNat? with | some n => .ok { o with id := n % 65536 } | none => .throw .stdOther
  | ["fragment_offset", v] => match v.toNat? with
    | some n => .ok { o with fragOff := o.fragOff / 8192 * 8192 + n % 8192 }   -- (frag_off & 0xe000) | value
    | none => .throw .stdOther
  | ["flags", v] => match v.toNat? with
    | some n => .ok { o with fragOff := o.fragOff % 8192 + n % 8 * 8192 }       -- (frag_off & 0x1fff) | (flags << 13)
    | none => .throw .stdOther
  | ["ttl", v] => match v.toNat? with | some n => .ok { o with ttl := n % 256 } | none => .throw .stdOther
  | ["protocol", v] => match v.toNat? with | some n => .ok { o with protocol := n % 256 } | none => .throw .stdOther
  | ["version", v] => match v.toNat? with | some n => .ok { o with version := n % 16 } | none => .throw .stdOther
  | ["src_addr", v] => match parseAddr v with | some a => .ok { o with src := a } | none => .throw .stdOther
  | ["dst_addr", v] => match parseAddr v with | some a => .ok { o with dst := a } | none => .throw .stdOther
  | ["add_option", t, v] => match t.toNat?, parseHexStr v with
    | some t, some d => do let p ← mkOpt (t % 256) d; pure (o.addOption p)
    | _, _ => .throw .stdOther
  | ["add_option_len", t, l, v] => match t.toNat?, l.toNat?, parseHexStr v with
    | some t, some l, some d => do let p ← mkOptLen (t % 256) l d; pure (o.addOption p)
    | _, _, _ => .throw .stdOther
  | ["remove_option", t] => match t.toNat? with | some t => .ok (o.removeOption (t % 256)) | none => .throw .stdOther
  | ["eol"] => .ok (o.addOption ⟨0, 0, []⟩)
  | ["noop"] => .ok (o.addOption ⟨1, 0, []⟩)
  | ["security", a, b, c, d] => match a.toNat?, b.toNat?, c.toNat?, d.toNat? with
    | some a, some b, some c, some d => .ok (o.addOption (encodeSecurity a b c d))
    | _, _, _, _ => .throw .stdOther
  | ["stream_identifier", v] => match v.toNat? with | some n => .ok (o.addOption (encodeStreamId n)) | none => .throw .stdOther
  | ["lsrr", p, r] => match p.toNat?, parseRoutes r with
    | some p, some rs => do let q ← mkOpt 131 (routeData (p % 256) rs); pure (o.addOption q)   -- option(id, opt_data.size(), &opt_data[0])
    | _, _ => .throw .stdOther
  | ["ssrr", p, r] => match p.toNat?, parseRoutes r with
    | some p, some rs => do let q ← mkOpt 137 (routeData (p % 256) rs); pure (o.addOption q)   -- option(id, opt_data.size(), &opt_data[0])
    | _, _ => .throw .stdOther
  | ["record_route", p, r] => match p.toNat?, parseRoutes r with
    | some p, some rs => do let q ← mkOpt 7 (routeData (p % 256) rs); pure (o.addOption q)   -- option(id, opt_data.size(), &opt_data[0])
    | _, _ => .throw .stdOther
  | _ => .throw .stdOther

end Ip4
end Tins.Wire.Ip
