import TinsModel.Wire.Ip.ThIp4Reparse
/-
  IP (IPv4), C04: every constructor and API call keeps the object invariant (so C02 applies to every object reachable by
  parsing or by any finite API history); the option container refines a list with first-match search / first-match
  removal / append; the typed option encoders and decoders are mutual inverses.
-/
namespace Tins.Wire.Ip
open Tins Tins.Wire

theorem parseAddr_length (v : String) (a : Bytes) (h : Ip4.parseAddr v = some a) : a.length = 4 := by
  simp only [Ip4.parseAddr] at h
  split at h
  · split at h
    · rename_i hb; injection h with h; subst h; simpa using hb
    · cases h
  · cases h

theorem ip4_create_inv (d s : Bytes) (hd : d.length = 4) (hs : s.length = 4) : (Ip4.create d s).Inv := by
  refine ⟨?_, ?_, ?_, ?_, ?_, ?_, ?_, ?_, ?_, hs, hd, ?_⟩ <;> simp [Ip4.create]

theorem addOption_inv (o : Ip4) (p : IpOpt) (h : o.Inv) (hp : OptWF p) : (o.addOption p).Inv := by
  refine ⟨h.version, h.ihl, h.tos, h.totLen, h.id, h.fragOff, h.ttl, h.protocol, h.check, h.src, h.dst, ?_⟩
  intro q hq
  simp only [Ip4.addOption, List.mem_append, List.mem_singleton] at hq
  rcases hq with hq | hq
  · exact h.opts q hq
  · subst hq; exact hp

theorem removeOption_inv (o : Ip4) (t : Nat) (h : o.Inv) : (o.removeOption t).Inv := by
  refine ⟨h.version, h.ihl, h.tos, h.totLen, h.id, h.fragOff, h.ttl, h.protocol, h.check, h.src, h.dst, ?_⟩
  intro q hq
  exact h.opts q (List.mem_of_mem_eraseP hq)

theorem mkOpt_wf (t : Nat) (d : Bytes) (p : IpOpt) (ht : t < 256) (h : Ip4.mkOpt t d = .ok p) : OptWF p := by
  unfold Ip4.mkOpt at h
  split at h
  · cases h
  · injection h with h; subst h; exact ⟨ht, by simp only; omega, by simp only; omega⟩

theorem mkOptLen_wf (t l : Nat) (d : Bytes) (p : IpOpt) (ht : t < 256) (h : Ip4.mkOptLen t l d = .ok p) : OptWF p := by
  unfold Ip4.mkOptLen at h
  split at h
  · cases h
  · injection h with h; subst h; exact ⟨ht, Nat.mod_lt _ (by decide), by simp only; omega⟩

theorem encodeSecurity_wf (a b c d : Nat) : OptWF (Ip4.encodeSecurity a b c d) := by
  refine ⟨?_, ?_, ?_⟩ <;> simp [Ip4.encodeSecurity]

theorem encodeStreamId_wf (v : Nat) : OptWF (Ip4.encodeStreamId v) := by
  refine ⟨?_, ?_, ?_⟩ <;> simp [Ip4.encodeStreamId]

private theorem bind_mk_ok {p : Out IpOpt} {o o' : Ip4} (h : (p >>= fun q => pure (o.addOption q)) = .ok o') :
    ∃ q, p = .ok q ∧ o' = o.addOption q := by
  cases p with
  | ok q => exact ⟨q, rfl, by simpa [bind, Out.bind, pure] using h.symm⟩
  | throw e => cases h
  | fault s => cases h

/-- **C04 / IP**: every API call keeps the invariant -/
theorem ip4_apply_inv (o o' : Ip4) (op : List String) (h : o.Inv) (ha : o.apply op = .ok o') : o'.Inv := by
  unfold Ip4.apply at ha
  have m256 : ∀ n : Nat, n % 256 < 256 := fun n => Nat.mod_lt _ (by decide)
  have m65536 : ∀ n : Nat, n % 65536 < 65536 := fun n => Nat.mod_lt _ (by decide)
  split at ha
  · split at ha
    · injection ha with ha; subst ha; exact { h with tos := m256 _ }
    · cases ha
  · split at ha
    · injection ha with ha; subst ha; exact { h with id := m65536 _ }
    · cases ha
  · split at ha
    · injection ha with ha; subst ha
      refine { h with fragOff := ?_ }
      have := h.fragOff; simp only; omega
    · cases ha
  · split at ha
    · injection ha with ha; subst ha
      refine { h with fragOff := ?_ }
      simp only; omega
    · cases ha
  · split at ha
    · injection ha with ha; subst ha; exact { h with ttl := m256 _ }
    · cases ha
  · split at ha
    · injection ha with ha; subst ha; exact { h with protocol := m256 _ }
    · cases ha
  · split at ha
    · injection ha with ha; subst ha; exact { h with version := Nat.mod_lt _ (by decide) }
    · cases ha
  · split at ha
    · rename_i a hp; injection ha with ha; subst ha; exact { h with src := parseAddr_length _ _ hp }
    · cases ha
  · split at ha
    · rename_i a hp; injection ha with ha; subst ha; exact { h with dst := parseAddr_length _ _ hp }
    · cases ha
  · split at ha
    · rcases bind_mk_ok ha with ⟨q, hq, rfl⟩
      exact addOption_inv o q h (mkOpt_wf _ _ q (m256 _) hq)
    · cases ha
  · split at ha
    · rcases bind_mk_ok ha with ⟨q, hq, rfl⟩
      exact addOption_inv o q h (mkOptLen_wf _ _ _ q (m256 _) hq)
    · cases ha
  · split at ha
    · injection ha with ha; subst ha; exact removeOption_inv o _ h
    · cases ha
  · injection ha with ha; subst ha; exact addOption_inv o _ h ⟨by decide, by decide, by decide⟩
  · injection ha with ha; subst ha; exact addOption_inv o _ h ⟨by decide, by decide, by decide⟩
  · split at ha
    · injection ha with ha; subst ha; exact addOption_inv o _ h (encodeSecurity_wf _ _ _ _)
    · cases ha
  · split at ha
    · injection ha with ha; subst ha; exact addOption_inv o _ h (encodeStreamId_wf _)
    · cases ha
  · split at ha
    · rcases bind_mk_ok ha with ⟨q, hq, rfl⟩
      exact addOption_inv o q h (mkOpt_wf _ _ q (by decide) hq)
    · cases ha
  · split at ha
    · rcases bind_mk_ok ha with ⟨q, hq, rfl⟩
      exact addOption_inv o q h (mkOpt_wf _ _ q (by decide) hq)
    · cases ha
  · split at ha
    · rcases bind_mk_ok ha with ⟨q, hq, rfl⟩
      exact addOption_inv o q h (mkOpt_wf _ _ q (by decide) hq)
    · cases ha
  · cases ha

/-! ### the option container (`add_option` / `search_option` / `remove_option`) refines a list -/

/-- `search_option` after `add_option`: an earlier option with that type still wins, otherwise the new one is found -/
theorem search_add (o : Ip4) (p : IpOpt) (t : Nat) :
    (o.addOption p).searchOption t = (o.searchOption t).or (if p.type == t then some p else none) := by
  simp only [Ip4.searchOption, Ip4.addOption, List.find?_append, List.find?_cons, List.find?_nil]
  cases List.find? (fun x => x.type == t) o.opts <;> cases (p.type == t) <;> rfl

/-- `remove_option` of a type that is not present changes nothing -/
theorem remove_absent (o : Ip4) (t : Nat) (h : o.searchOption t = none) : o.removeOption t = o := by
  simp only [Ip4.searchOption, List.find?_eq_none] at h
  simp only [Ip4.removeOption]
  rw [List.eraseP_of_forall_not (fun a ha => by simpa using h a ha)]

theorem find_eraseP_other (l : List IpOpt) (t t' : Nat) (hne : t ≠ t') :
    (l.eraseP (fun x => x.type == t')).find? (fun x => x.type == t) = l.find? (fun x => x.type == t) := by
  induction l with
  | nil => rfl
  | cons p ps ih =>
    by_cases h1 : (p.type == t') = true
    · have h2 : (p.type == t) = false := by
        have := beq_iff_eq.mp h1
        simp only [beq_eq_false_iff_ne, ne_eq]; omega
      simp [h1, h2]
    · have h1' : (p.type == t') = false := by simpa using h1
      simp only [List.eraseP_cons, h1', cond_false, List.find?_cons, ih]

/-- `remove_option` leaves the options of every other type alone (searches for them give the same answer) -/
theorem search_remove_other (o : Ip4) (t t' : Nat) (hne : t ≠ t') :
    (o.removeOption t').searchOption t = o.searchOption t :=
  find_eraseP_other o.opts t t' hne

theorem eraseP_size (l : List IpOpt) (t : Nat) (p : IpOpt) (h : l.find? (fun x => x.type == t) = some p) :
    Ip4.calcOptionsSize (l.eraseP (fun x => x.type == t)) + Ip4.optSize p = Ip4.calcOptionsSize l := by
  induction l with
  | nil => cases h
  | cons q qs ih =>
    by_cases h1 : (q.type == t) = true
    · simp only [List.find?_cons, h1] at h
      injection h with h; subst h
      simp only [List.eraseP_cons, h1, cond_true, calcOptionsSize_cons]; omega
    · have h1' : (q.type == t) = false := by simpa using h1
      simp only [List.find?_cons, h1'] at h
      simp only [List.eraseP_cons, h1', cond_false, calcOptionsSize_cons]
      have := ih h; omega

/-- `remove_option` removes exactly one option: the size function drops by that option's size -/
theorem remove_present_size (o : Ip4) (t : Nat) (p : IpOpt) (h : o.searchOption t = some p) :
    Ip4.calcOptionsSize (o.removeOption t).opts + Ip4.optSize p = Ip4.calcOptionsSize o.opts :=
  eraseP_size o.opts t p h

/-- `add_option` appends: the size function grows by the option's size -/
theorem add_size (o : Ip4) (p : IpOpt) :
    Ip4.calcOptionsSize (o.addOption p).opts = Ip4.calcOptionsSize o.opts + Ip4.optSize p := by
  simp [Ip4.addOption, Ip4.calcOptionsSize, List.map_append, List.sum_append]

/-! ### typed option codecs -/

theorem beNat_beBytes2 (v : Nat) : Cursor.beNat (OutCursor.beBytes 2 v) = v % 65536 := by
  rw [beNat_beBytes]

/-- `security()` ∘ `security(v)`: every field comes back (within its width) -/
theorem codec_security (a b c d : Nat) :
    Ip4.decodeSecurity (Ip4.encodeSecurity a b c d) = .ok (a % 65536, b % 65536, c % 65536, d % 16777216) := by
  simp only [Ip4.decodeSecurity, Ip4.encodeSecurity, beBytes_two, List.cons_append, List.nil_append, List.length_cons,
    List.length_nil, bne_self_eq_false, Bool.false_eq_true, if_false, List.take_succ_cons, List.take_zero, List.drop_succ_cons,
    List.drop_zero, beNat_pair, ofNat_toNat_mod]
  have e3 : ∀ x y z : UInt8, Cursor.beNat [x, y, z] = x.toNat * 65536 + y.toNat * 256 + z.toNat := by
    intro x y z; simp [Cursor.beNat]; omega
  simp only [e3, ofNat_toNat_mod]
  congr 2
  · omega
  · congr 1
    · omega
    · congr 1 <;> omega

/-- `stream_identifier()` ∘ `stream_identifier(v)` -/
theorem codec_streamId (v : Nat) : Ip4.decodeStreamId (Ip4.encodeStreamId v) = .ok (v % 65536) := by
  simp [Ip4.decodeStreamId, Ip4.encodeStreamId, beNat_beBytes2]

theorem chunks4_flatten (rs : List Bytes) (h : ∀ r ∈ rs, r.length = 4) (n : Nat) (hn : rs.length ≤ n) :
    Ip4.chunks4 n rs.flatten = rs := by
  induction rs generalizing n with
  | nil => cases n <;> simp [Ip4.chunks4]
  | cons r rs ih =>
    cases n with
    | zero => simp at hn
    | succ n =>
      have hr := h r List.mem_cons_self
      have hne : (r ++ rs.flatten).isEmpty = false := by
        cases r with
        | nil => simp at hr
        | cons x xs => rfl
      simp only [Ip4.chunks4, List.flatten_cons, hne, Bool.false_eq_true, if_false]
      rw [take_append_len _ _ 4 hr, drop_append_len _ _ 4 hr,
        ih (fun q hq => h q (List.mem_cons_of_mem _ hq)) n (by simpa using hn)]

theorem flatten_length4 (rs : List Bytes) (h : ∀ r ∈ rs, r.length = 4) : rs.flatten.length = 4 * rs.length := by
  induction rs with
  | nil => rfl
  | cons r rs ih =>
    simp only [List.flatten_cons, List.length_append, List.length_cons, h r List.mem_cons_self,
      ih (fun q hq => h q (List.mem_cons_of_mem _ hq))]
    omega

/-- `lsrr()` / `ssrr()` / `record_route()` ∘ the setter: pointer and every address come back, for every route list
    (including the empty one — fix KF-C04-Ip-5) that fits an option -/
theorem codec_route (t ptr : Nat) (rs : List Bytes) (h : ∀ r ∈ rs, r.length = 4) (p : IpOpt)
    (hm : Ip4.mkOpt t (Ip4.routeData ptr rs) = .ok p) : Ip4.decodeRoute p = .ok (ptr % 256, rs) := by
  unfold Ip4.mkOpt at hm
  split at hm
  · cases hm
  · injection hm with hm; subst hm
    have hl := flatten_length4 rs h
    simp only [Ip4.decodeRoute, Ip4.routeData, List.length_cons, hl]
    have h1 : ¬ (4 * rs.length + 1 < 1) := by omega
    have h2 : ((4 * rs.length + 1 - 1) % 4 != 0) = false := by simp
    simp only [h1, decide_false, h2, Bool.or_self, Bool.false_eq_true, if_false, byteAt, List.getD_cons_zero, ofNat_toNat_mod,
      List.drop_succ_cons, List.drop_zero]
    rw [chunks4_flatten rs h _ (by omega)]

end Tins.Wire.Ip
