import TinsModel.Wire.Ip.ThIp4Api
import TinsModel.Wire.Ip.ThAh
/-
  Family-level theorems of Ip for the four wire properties, over the interface the registry uses
  (`Ip.parse`, `Ip.hdr`, `Ip.trl`, `Ip.write`, `Ip.mk`, `Ip.apply`).  The per-class theorems are in
  `ThIp4{Parse,Write,Reparse,Api}.lean` (class IP; prefix `ip4_`) and `ThAh.lean` (IPSecAH, IPSecESP):
    C01  <cls>_parse_safe, <cls>_parse_consumes, <cls>_parse_inv
    C02  <cls>_writesOnly                     (IP: for every option list; `optsBytes_length` = size function vs writer)
    C03  <cls>_reparse                        (IP: `parseOpts_written` = the option loop re-reads the written options)
    C04  <cls>_apply_inv, container laws, typed codec inverses
-/
namespace Tins.Wire.Ip
open Tins Tins.Wire

/-- the invariant of a family object: what parsing establishes and every API call preserves -/
def ObjInv : Obj → Prop
  | .ip o => o.Inv
  | .ah a => a.Inv
  | .esp e => e.Inv

/-- what `serialize()` can express: an IP header of at most 60 bytes (the header length is a 4-bit word count).  Every
    parsed packet satisfies it (`ip_parse_serializable`); through the API it can be violated (known finding KF-C02-Ip-3,
    `ip_serialize_total_fails`). -/
def Serializable : Obj → Prop
  | .ip o => o.Fits
  | _ => True

/-- the `LayerSem` the registry builds for a family object in context `cx` -/
def ipSem (cx : Ctx) (o : Obj) : LayerSem :=
  { name := (info o).1, hdr := hdr o, trl := trl o cx.innerSize, write := write cx o }

/-- **C01 / Ip**: every parsing constructor of the family, on every byte string, returns a packet or throws
    `malformed_packet`; it never touches a byte outside the buffer -/
theorem ip_parse_safe (cls : String) (b : Bytes) (h : cls ∈ classes) : ParseSafe (parse cls b) := by
  simp only [classes, List.mem_cons, List.mem_nil_iff, or_false] at h
  rcases h with h | h | h <;> subst h <;> simp only [parse] <;>
    first
    | exact ParseSafe.bind (ip4_parse_safe b) (fun a _ => .ok _)
    | exact ParseSafe.bind (ah_parse_safe b) (fun a _ => .ok _)
    | exact ParseSafe.bind (esp_parse_safe b) (fun a _ => .ok _)

/-- **C01 / Ip, termination of the nested constructors**: a parsing constructor of the family hands strictly fewer bytes
    to the next constructor -/
theorem ip_parse_consumes (cls : String) (b : Bytes) (o : Obj) (name : String) (pb : Bytes) (fb : Bool)
    (hc : cls ∈ classes) (h : parse cls b = .ok (o, .cls name pb fb)) : pb.length < b.length := by
  simp only [classes, List.mem_cons, List.mem_nil_iff, or_false] at hc
  rcases hc with hc | hc | hc <;> subst hc <;> simp only [parse] at h <;>
    rcases map_ok h with ⟨⟨x, i⟩, hx, hr⟩ <;> injection hr with _ hi <;> subst hi
  · exact ip4_parse_consumes b x name pb fb hx
  · exact ah_parse_consumes b x name pb fb hx
  · exact absurd hx (esp_parse_no_cls b x name pb fb)

/-- parsing establishes the invariant -/
theorem ip_parse_inv (cls : String) (b : Bytes) (o : Obj) (i : Inner) (hc : cls ∈ classes)
    (h : parse cls b = .ok (o, i)) : ObjInv o := by
  simp only [classes, List.mem_cons, List.mem_nil_iff, or_false] at hc
  rcases hc with hc | hc | hc <;> subst hc <;> simp only [parse] at h <;>
    rcases map_ok h with ⟨⟨x, j⟩, hx, hr⟩ <;> injection hr with ho _ <;> subst ho
  · exact (ip4_parse_inv b x j hx).1
  · exact (ah_parse_inv b x j hx).1
  · exact esp_parse_inv b x j hx

/-- **every accepted packet can be serialized**: parsing establishes `Serializable` (for IP: the options the parser
    accepted fit the 40 bytes the 4-bit header length leaves — fix KF-C02-Ip-4 made this true) -/
theorem ip_parse_serializable (cls : String) (b : Bytes) (o : Obj) (i : Inner) (hc : cls ∈ classes)
    (h : parse cls b = .ok (o, i)) : Serializable o := by
  simp only [classes, List.mem_cons, List.mem_nil_iff, or_false] at hc
  rcases hc with hc | hc | hc <;> subst hc <;> simp only [parse] at h <;>
    rcases map_ok h with ⟨⟨x, j⟩, hx, hr⟩ <;> injection hr with ho _ <;> subst ho
  · exact (ip4_parse_inv b x j hx).2.2
  · trivial
  · trivial

/-- **C02 / Ip**: for every serializable family object satisfying the invariant, in every context,
    `write_serialization` succeeds on the region `PDU::serialize` hands out (indeed on every region that is large enough),
    keeps its length and leaves the inner layers' bytes untouched -/
theorem ip_writesOnly (cx : Ctx) (o : Obj) (hi : ObjInv o) (hs : Serializable o) : WritesOnly (ipSem cx o) := by
  cases o with
  | ip x => exact ip4_writesOnly cx x hi hs
  | ah a => exact ah_writesOnly cx a hi
  | esp e => exact esp_writesOnly cx e

theorem ip_writesOnlyAt (cx : Ctx) (o : Obj) (hi : ObjInv o) (hs : Serializable o) :
    WritesOnlyAt (ipSem cx o) cx.innerSize :=
  writesOnlyAt_of_writesOnly (ip_writesOnly cx o hi hs) _

/-- the public constructors establish the invariant -/
theorem ip_mk_inv (cls : String) (args : List String) (o : Obj) (h : mk cls args = .ok o) : ObjInv o := by
  unfold mk at h
  split at h
  · injection h with h; subst h; exact ip4_create_inv _ _ rfl rfl
  · split at h
    · rename_i d s hd hs; injection h with h; subst h
      exact ip4_create_inv _ _ (parseAddr_length _ _ hd) (parseAddr_length _ _ hs)
    · cases h
  · injection h with h; subst h; exact ah_create_inv
  · injection h with h; subst h; exact esp_create_inv
  · cases h

/-- **C04 / Ip**: every API call keeps the invariant — with `ip_mk_inv` and `ip_parse_inv`: every object reachable by
    parsing or by any finite sequence of constructor / setter / add-option / remove-option / typed-option calls satisfies
    it -/
theorem ip_apply_inv (o o' : Obj) (op : List String) (hi : ObjInv o) (h : apply o op = .ok o') : ObjInv o' := by
  cases o with
  | ip x =>
    simp only [apply] at h
    rcases map_ok h with ⟨y, hy, hr⟩; subst hr; exact ip4_apply_inv x y op hi hy
  | ah a =>
    simp only [apply] at h
    rcases map_ok h with ⟨y, hy, hr⟩; subst hr; exact ah_apply_inv a y op hi hy
  | esp e =>
    simp only [apply] at h
    rcases map_ok h with ⟨y, hy, hr⟩; subst hr; exact esp_apply_inv e y op hi hy

/-! ### known finding KF-C02-Ip-3: `add_option` lets the header outgrow the 4-bit length field -/

/-- full statement of C02 for the family: every object that satisfies the invariant can be written -/
def ip_serialize_total_all : Prop := ∀ (cx : Ctx) (o : Obj), ObjInv o → WritesOnlyAt (ipSem cx o) cx.innerSize

/-- witness: `IP(dst, src)` with 41 `noop()` calls — a 64-byte header; `write_serialization` throws `serialization_error`
    (replayed on the real code: `new / push IP … / set 0 add_option 130 <38 bytes> / set 0 noop / show`) -/
theorem ip_serialize_total_fails : ¬ ip_serialize_total_all := by
  intro h
  have hinv : ObjInv (.ip { Ip4.create [10, 9, 8, 7] [10, 1, 2, 3] with opts := List.replicate 41 ⟨1, 0, []⟩ }) := by
    refine ⟨by simp [Ip4.create], by simp [Ip4.create], by simp [Ip4.create], by simp [Ip4.create], by simp [Ip4.create],
      by simp [Ip4.create], by simp [Ip4.create], by simp [Ip4.create], by simp [Ip4.create], rfl, rfl, ?_⟩
    intro p hp
    rcases List.mem_replicate.mp hp with ⟨_, rfl⟩
    exact ⟨by decide, by decide, by decide⟩
  rcases h ⟨[], []⟩ _ hinv (List.replicate 64 0) (by rfl) with ⟨out, hw, _, _⟩
  have e : (ipSem ⟨[], []⟩ (.ip { Ip4.create [10, 9, 8, 7] [10, 1, 2, 3] with opts := List.replicate 41 ⟨1, 0, []⟩ })).write
      (List.replicate 64 0) = .throw .serializationError := by rfl
  rw [e] at hw
  cases hw

/-- proved part: the excluded region is the explicit decidable predicate `Serializable` (header ≤ 60 bytes) -/
theorem ip_serialize_total_partial (cx : Ctx) (o : Obj) (hi : ObjInv o) (hs : Serializable o) :
    WritesOnlyAt (ipSem cx o) cx.innerSize := ip_writesOnlyAt cx o hi hs

instance (o : Obj) : Decidable (Serializable o) := by
  cases o <;> simp only [Serializable, Ip4.Fits] <;> infer_instance

/-! ### next-protocol tags survive the round trip (C03 lift through the dispatch; decided over the generated tables) -/

/-- every protocol number libtins derives from a payload class is one the parsers dispatch on: a derived tag is never
    re-parsed as an opaque RawPDU -/
theorem derived_ip_tag_dispatches :
    ∀ p ∈ Gen.Tags.pduTypeToIpProto, (Tags.classOfIpProto p.2).isSome = true := by decide

/-- for the family's own classes the dispatch of IP / IPSecAH leads back to the class the tag was derived from -/
theorem ip_proto_tag_roundtrip (cls : String) (h : cls ∈ classes) :
    Tags.classOfIpProto (Tags.ipProtoOfPduType (Tags.pduTypeOf cls)) = some cls := by
  simp only [classes, List.mem_cons, List.mem_nil_iff, or_false] at h
  rcases h with h | h | h <;> subst h <;> decide

/-- and a payload without a protocol number (RawPDU) leaves the stored tag alone: 0xff is the "unknown" marker -/
theorem raw_has_no_ip_proto : Tags.ipProtoOfPduType (Tags.pduTypeOf "RawPDU") = 255 := by decide

/-! ### non-vacuity -/

/-- a parsed IP packet with options (NOOP, stream identifier, END + padding) and payload … -/
def exampleIpBytes : Bytes :=
  [0x47, 0, 0, 30, 0, 1, 0, 0, 64, 253, 0, 0, 10, 1, 2, 3, 10, 9, 8, 7, 1, 0x88, 4, 0x91, 0xfa, 0, 0xee, 0xee, 0x99, 0xaa]

example : (parse "IP" exampleIpBytes).isOk = true := by rfl

/-- … satisfies all hypotheses of the C02 / C03 theorems -/
example : ∀ o i, parse "IP" exampleIpBytes = .ok (o, i) → ObjInv o ∧ Serializable o := fun o i h =>
  ⟨ip_parse_inv "IP" exampleIpBytes o i (by decide) h, ip_parse_serializable "IP" exampleIpBytes o i (by decide) h⟩

/-- an API history: whatever the calls are, the result satisfies the invariant … -/
example (o0 o1 o2 : Obj) (args op1 op2 : List String) (h0 : mk "IP" args = .ok o0) (h1 : apply o0 op1 = .ok o1)
    (h2 : apply o1 op2 = .ok o2) : ObjInv o2 :=
  ip_apply_inv _ _ _ (ip_apply_inv _ _ _ (ip_mk_inv "IP" args _ h0) h1) h2

/-- … and such histories exist: `IP(dst, src)`, `security(1, 2, 3, 4)`, `lsrr(4, {192.168.0.1})` -/
example : (((Ip4.create [10, 9, 8, 7] [10, 1, 2, 3]).addOption (Ip4.encodeSecurity 1 2 3 4)).addOption
    ⟨131, 5, Ip4.routeData 4 [[192, 168, 0, 1]]⟩).Inv :=
  addOption_inv _ _ (addOption_inv _ _ (ip4_create_inv _ _ rfl rfl) (encodeSecurity_wf _ _ _ _))
    ⟨by decide, by decide, by decide⟩

/-- the hypotheses of `ip4_reparse` / `ip4_writesOnly` are satisfiable by an object with several options of every shape
    (NOOP, an option with a class bit and no data, an 8-byte and a 9-byte payload across the small-buffer threshold) -/
example : ∃ o : Ip4, o.Inv ∧ o.Normal ∧ o.Fits ∧ o.opts.length = 4 := by
  refine ⟨{ Ip4.create [10, 9, 8, 7] [10, 1, 2, 3] with
            opts := [⟨1, 0, []⟩, ⟨0x21, 0, []⟩, ⟨130, 8, [1, 2, 3, 4, 5, 6, 7, 8]⟩, ⟨0x80, 9, [1, 2, 3, 4, 5, 6, 7, 8, 9]⟩] }, ?_, ?_, ?_, rfl⟩
  · refine ⟨by simp [Ip4.create], by simp [Ip4.create], by simp [Ip4.create], by simp [Ip4.create], by simp [Ip4.create],
      by simp [Ip4.create], by simp [Ip4.create], by simp [Ip4.create], by simp [Ip4.create], rfl, rfl, ?_⟩
    intro p hp
    simp only [List.mem_cons, List.mem_nil_iff, or_false] at hp
    rcases hp with rfl | rfl | rfl | rfl <;> exact ⟨by decide, by decide, by decide⟩
  · intro p hp
    simp only [List.mem_cons, List.mem_nil_iff, or_false] at hp
    rcases hp with rfl | rfl | rfl | rfl <;>
      exact ⟨by decide, by decide, fun h => by first | exact ⟨rfl, rfl⟩ | exact absurd h (by decide),
             fun h => by first | exact ⟨rfl, by decide⟩ | exact absurd h (by decide)⟩
  · show Ip4.hdr _ ≤ 60
    decide

/-- the default AH object satisfies the hypotheses of `ah_reparse` -/
example : Ah.create.Inv ∧ Ah.create.Repr := ⟨ah_create_inv, by unfold Ah.Repr; decide⟩

end Tins.Wire.Ip
