import TinsModel.Wire.Ip.ThIp4Parse
/-
  IP (IPv4), C02: the size function equals the bytes the writer emits, for every option list (`optBytes_length`: the
  defect of DESIGN §7 #11 was exactly the failure of this lemma for the type octets 0x80 / 0x81), hence
  `write_serialization` rewrites exactly the `header_size()` bytes at the start of its region — for every object that
  satisfies the invariant and whose header fits the 4-bit length field.
-/
namespace Tins.Wire.Ip
open Tins Tins.Wire

/-- the bytes `write_option` emits for one option -/
def Ip4.optBytes (p : IpOpt) : Bytes :=
  UInt8.ofNat p.type :: (if p.type % 256 > 1 then UInt8.ofNat (Ip4.lengthOctet p) :: p.data else [])

/-- the bytes the option loop of `write_serialization` emits -/
def Ip4.optsBytes (os : List IpOpt) : Bytes := os.flatMap Ip4.optBytes

/-- **size function = writer, one option**: `calculate_options_size` counts exactly what `write_option` writes -/
theorem optBytes_length (p : IpOpt) (h : p.type < 256) : (Ip4.optBytes p).length = Ip4.optSize p := by
  unfold Ip4.optBytes Ip4.optSize
  rw [singleByte_iff p.type h, Nat.mod_eq_of_lt h]
  by_cases h1 : p.type ≤ 1
  · have : ¬ p.type > 1 := by omega
    simp [h1, this]
  · have : p.type > 1 := by omega
    simp [h1, this]; omega

/-- **size function = writer, any option list** (induction over the list) -/
theorem optsBytes_length (os : List IpOpt) (h : ∀ p ∈ os, p.type < 256) :
    (Ip4.optsBytes os).length = Ip4.calcOptionsSize os := by
  induction os with
  | nil => rfl
  | cons p ps ih =>
    have hp := optBytes_length p (h p List.mem_cons_self)
    have := ih (fun q hq => h q (List.mem_cons_of_mem _ hq))
    simp only [Ip4.optsBytes, List.flatMap_cons, List.length_append] at this ⊢
    rw [calcOptionsSize_cons, hp, this]

theorem writeOption_ok (oc : OutCursor) (p : IpOpt) (hi : oc.Inv) (hs : (Ip4.optBytes p).length ≤ oc.size) :
    Ip4.writeOption oc p =
      .ok ⟨oc.done ++ Ip4.optBytes p, oc.rest.drop (Ip4.optBytes p).length, oc.size - (Ip4.optBytes p).length⟩ ∧
    (⟨oc.done ++ Ip4.optBytes p, oc.rest.drop (Ip4.optBytes p).length, oc.size - (Ip4.optBytes p).length⟩ : OutCursor).Inv := by
  unfold Ip4.writeOption Ip4.optBytes at *
  by_cases hm : p.type % 256 > 1
  · simp only [hm, if_true, List.length_cons] at hs ⊢
    rcases owrite_ok oc [UInt8.ofNat p.type] hi (by simp; omega) with ⟨w1, i1⟩
    rcases owrite_ok _ [UInt8.ofNat (Ip4.lengthOctet p)] i1 (by simp; omega) with ⟨w2, i2⟩
    rcases owrite_ok _ p.data i2 (by simp; omega) with ⟨w3, i3⟩
    simp only [List.length_cons, List.length_nil] at w1 w2 w3 i3
    rw [w1, Out.bind_ok, w2, Out.bind_ok, w3]
    simp only [List.append_assoc, List.cons_append, List.nil_append, List.drop_drop] at i3 ⊢
    have e1 : 0 + 1 + (0 + 1) + p.data.length = p.data.length + 1 + 1 := by omega
    have e2 : oc.size - (0 + 1) - (0 + 1) - p.data.length = oc.size - (p.data.length + 1 + 1) := by omega
    rw [e1, e2] at i3
    refine ⟨?_, i3⟩
    rw [e1, e2]
  · simp only [hm, if_false, List.length_cons, List.length_nil] at hs ⊢
    rcases owrite_ok oc [UInt8.ofNat p.type] hi (by simp; omega) with ⟨w1, i1⟩
    simp only [List.length_cons, List.length_nil] at w1 i1
    rw [w1, Out.bind_ok]
    exact ⟨rfl, i1⟩

/-- the `for` loop over the options writes their concatenated encodings (any number of options, induction) -/
theorem writeOptions_ok (os : List IpOpt) (oc : OutCursor) (hi : oc.Inv) (hs : (Ip4.optsBytes os).length ≤ oc.size) :
    Ip4.writeOptions oc os =
      .ok ⟨oc.done ++ Ip4.optsBytes os, oc.rest.drop (Ip4.optsBytes os).length, oc.size - (Ip4.optsBytes os).length⟩ ∧
    (⟨oc.done ++ Ip4.optsBytes os, oc.rest.drop (Ip4.optsBytes os).length, oc.size - (Ip4.optsBytes os).length⟩ : OutCursor).Inv := by
  induction os generalizing oc with
  | nil =>
    refine ⟨by simp [Ip4.writeOptions, Ip4.optsBytes], ?_⟩
    simpa [Ip4.optsBytes] using hi
  | cons p ps ih =>
    have hl : (Ip4.optsBytes (p :: ps)).length = (Ip4.optBytes p).length + (Ip4.optsBytes ps).length := by
      simp [Ip4.optsBytes]
    rw [hl] at hs
    rcases writeOption_ok oc p hi (by omega) with ⟨w1, i1⟩
    rcases ih _ i1 (by simp only; omega) with ⟨w2, i2⟩
    simp only [Ip4.writeOptions, w1, Out.bind_ok, w2]
    have e : Ip4.optsBytes (p :: ps) = Ip4.optBytes p ++ Ip4.optsBytes ps := by simp [Ip4.optsBytes]
    rw [e]
    simp only [List.append_assoc, List.drop_drop, List.length_append, Nat.sub_sub] at i2 ⊢
    exact ⟨trivial, i2⟩

theorem ip4_headerBytes_length (o : Ip4) (hs : o.src.length = 4) (hd : o.dst.length = 4) : o.headerBytes.length = 20 := by
  simp [Ip4.headerBytes, hs, hd]

theorem written_src (cx : Ctx) (o : Ip4) (n : Nat) : (Ip4.written cx o n).src = o.src := rfl
theorem written_dst (cx : Ctx) (o : Ip4) (n : Nat) : (Ip4.written cx o n).dst = o.dst := rfl

/-- the whole header `write_serialization` emits before the checksum is patched in: fixed part, options, zero padding -/
def Ip4.headerImage (cx : Ctx) (o : Ip4) (total : Nat) : Bytes :=
  (Ip4.written cx o total).headerBytes ++ Ip4.optsBytes o.opts ++
    List.replicate (Ip4.padOptionsSize (Ip4.calcOptionsSize o.opts) - Ip4.calcOptionsSize o.opts) 0

theorem headerImage_length (cx : Ctx) (o : Ip4) (total : Nat) (h : o.Inv) : (Ip4.headerImage cx o total).length = o.hdr := by
  have h1 := ip4_headerBytes_length (Ip4.written cx o total) h.src h.dst
  have h2 := optsBytes_length o.opts (fun p hp => (h.opts p hp).type)
  have h3 := padOptionsSize_le (Ip4.calcOptionsSize o.opts)
  simp only [Ip4.headerImage, List.length_append, List.length_replicate, h1, h2, Ip4.hdr]
  omega

/-- closed form of `IP::write_serialization`: the header image with the checksum stored at offset 10, then the rest of
    the region untouched -/
theorem ip4_write_eq (cx : Ctx) (o : Ip4) (h : o.Inv) (hf : o.Fits) (region : Bytes) (hr : o.hdr ≤ region.length) :
    o.write cx region =
      poke "IP::write_serialization ((ip_header*)buffer)->check"
        (Ip4.headerImage cx o region.length ++ region.drop o.hdr) 10
        (le16 (Ip4.checksumField (Ip4.headerImage cx o region.length ++ region.drop o.hdr) o.hdr)) := by
  have hfit : ¬ o.hdr / 4 > 15 := by simp only [Ip4.Fits] at hf; omega
  have h1 := ip4_headerBytes_length (Ip4.written cx o region.length) h.src h.dst
  have h2 := optsBytes_length o.opts (fun p hp => (h.opts p hp).type)
  have h3 := padOptionsSize_le (Ip4.calcOptionsSize o.opts)
  have hhdr : o.hdr = 20 + Ip4.padOptionsSize (Ip4.calcOptionsSize o.opts) := rfl
  have o0 : (OutCursor.ofRegion region).Inv := by simp [OutCursor.ofRegion, OutCursor.Inv]
  rcases owrite_ok (OutCursor.ofRegion region) (Ip4.written cx o region.length).headerBytes o0
      (by simp only [OutCursor.ofRegion, h1]; omega) with ⟨w1, i1⟩
  rcases writeOptions_ok o.opts _ i1 (by simp only [OutCursor.ofRegion, h1, h2]; omega) with ⟨w2, i2⟩
  rcases ofill_ok _ (Ip4.padOptionsSize (Ip4.calcOptionsSize o.opts) - Ip4.calcOptionsSize o.opts) 0 i2
      (by simp only [OutCursor.ofRegion, h1, h2]; omega) with ⟨w3, _⟩
  unfold Ip4.write
  simp only [hfit, if_false, w1, Out.bind_ok, w2, w3]
  have hdone : ([] ++ (Ip4.written cx o region.length).headerBytes ++ Ip4.optsBytes o.opts ++
      List.replicate (Ip4.padOptionsSize (Ip4.calcOptionsSize o.opts) - Ip4.calcOptionsSize o.opts) 0) =
      Ip4.headerImage cx o region.length := by simp [Ip4.headerImage]
  have hlen := headerImage_length cx o region.length h
  simp only [OutCursor.buffer, OutCursor.ofRegion, hdone, List.drop_drop, h1, h2, hlen]
  have hd : 20 + Ip4.calcOptionsSize o.opts + (Ip4.padOptionsSize (Ip4.calcOptionsSize o.opts) - Ip4.calcOptionsSize o.opts) = o.hdr := by
    omega
  rw [hd]

def ip4Sem (cx : Ctx) (o : Ip4) : LayerSem := { name := "IP", hdr := o.hdr, trl := 0, write := o.write cx }

/-- **C02 / IP**: for every object satisfying the invariant (any option list reachable by parsing or through the API) whose
    header fits the 4-bit length field, in every context, `write_serialization` succeeds on every region of at least
    `header_size()` bytes, keeps its length and rewrites exactly those bytes -/
theorem ip4_writesOnly (cx : Ctx) (o : Ip4) (h : o.Inv) (hf : o.Fits) : WritesOnly (ip4Sem cx o) := by
  apply writesOnly_of_header_only _ rfl
  intro region hr
  simp only [ip4Sem] at hr
  have hlen := headerImage_length cx o region.length h
  have hge : 20 ≤ o.hdr := by simp [Ip4.hdr]
  generalize hbuf : Ip4.headerImage cx o region.length ++ region.drop o.hdr = buf
  have hbl : buf.length = region.length := by
    rw [← hbuf]; simp only [List.length_append, List.length_drop, hlen]; omega
  have hbd : buf.drop o.hdr = region.drop o.hdr := by rw [← hbuf]; exact drop_append_len _ _ _ hlen
  have hw := ip4_write_eq cx o h hf region hr
  rw [hbuf] at hw
  have hpk := poke_eq "IP::write_serialization ((ip_header*)buffer)->check" buf (le16 (Ip4.checksumField buf o.hdr)) 10
    (by simp [le16]; omega)
  refine ⟨_, by simp only [ip4Sem]; rw [hw]; exact hpk, ?_, ?_⟩
  · rw [length_patched _ _ _ (by simp [le16]; omega)]; exact hbl
  · simp only [ip4Sem]
    rw [drop_patched _ _ 10 o.hdr (by simp [le16]; omega) (by simp [le16]; omega)]; exact hbd

end Tins.Wire.Ip
