import TinsModel.Wire.Ip.Ip4
import TinsModel.Wire.Ip.Ah
/-
  Family interface of `Ip`: IP (IPv4 with its options), IPSecAH, IPSecESP.
  A family module exports, in namespace `Tins.Wire.Ip`:
    Obj, classes, parse, info, hdr, trl, write, mk, apply   (see TinsModel/Wire/Iface.lean)
-/
namespace Tins.Wire.Ip

inductive Obj
  | ip (o : Ip4)
  | ah (a : Ah)
  | esp (e : Esp)
deriving Repr

/-- C++ class names whose parsing constructor this family models -/
def classes : List String := ["IP", "IPSecAH", "IPSecESP"]

/-- the parsing constructor `cls(buffer, total_sz)` -/
def parse (cls : String) (b : Bytes) : Out (Obj × Inner) :=
  if cls == "IP" then (Ip4.parse b) >>= fun (o, i) => pure (.ip o, i)
  else if cls == "IPSecAH" then (Ah.parse b) >>= fun (o, i) => pure (.ah o, i)
  else if cls == "IPSecESP" then (Esp.parse b) >>= fun (o, i) => pure (.esp o, i)
  else .throw .stdOther

/-- (actual class name, getter dump) -/
def info : Obj → String × Fields
  | .ip o => ("IP", o.fields)
  | .ah a => ("IPSecAH", a.fields)
  | .esp e => ("IPSecESP", e.fields)

def hdr : Obj → Nat
  | .ip o => o.hdr
  | .ah a => a.hdr
  | .esp _ => 8

def trl (_o : Obj) (_innerSize : Nat) : Nat := 0

/-- `write_serialization(buffer, total_sz)` on the layer's region -/
def write (cx : Ctx) : Obj → Bytes → Out Bytes
  | .ip o, region => o.write cx region
  | .ah a, region => a.write cx region
  | .esp e, region => e.write cx region

/-- public (non-parsing) constructors: `push IP [dst src]` (addresses as 4 bytes of hex), `push IPSecAH`, `push IPSecESP` -/
def mk (cls : String) (args : List String) : Out Obj :=
  match cls, args with
  | "IP", [] => .ok (.ip (Ip4.create [0, 0, 0, 0] [0, 0, 0, 0]))
  | "IP", [d, s] => match Ip4.parseAddr d, Ip4.parseAddr s with
    | some d, some s => .ok (.ip (Ip4.create d s))
    | _, _ => .throw .stdOther
  | "IPSecAH", [] => .ok (.ah Ah.create)
  | "IPSecESP", [] => .ok (.esp Esp.create)
  | _, _ => .throw .stdOther

/-- one API call on the object: setters, add/remove option, typed option setters -/
def apply : Obj → List String → Out Obj
  | .ip o, op => (o.apply op) >>= fun x => pure (.ip x)
  | .ah a, op => (a.apply op) >>= fun x => pure (.ah x)
  | .esp e, op => (e.apply op) >>= fun x => pure (.esp x)

/-- `IP::prepare_for_serialize()`: a top-level IP whose source address is 0.0.0.0 gets the address of the interface
    that routes to the destination (`NetworkInterface(dst_addr())`, read from the host's routing table) when it is
    serialized.  That is a call into the environment the wire model has no parameter for: the driver answers
    `unmodelled` for such packets (known finding KF-C03-Ip-4 / KF-C04-Ip-2 covers what the implementation does). -/
def envDependentTop : Obj → Bool
  | .ip o => o.src == [0, 0, 0, 0]
  | _ => false

end Tins.Wire.Ip
