import TinsModel.Basic.Out
/-
  Property C01 — the raw-pointer layer of the typed decoders.

  The family models of the typed option decoders (`T::from_option`, `Internals::Converters::convert`, `extract_metadata`, …) are TOTAL
  functions over the option's byte list (`byteAt`, `take`, `drop`, structural recursion): they say what the decoder returns, and the
  correspondence compares that with the real getters on every run — but a total function cannot express an out-of-bounds read.  The
  C++ of these decoders walks a raw pointer (`*(ptr++)`, `memcpy(&v, ptr + i, n)`, `v.assign(ptr, end)`, `(hdr*)buffer`).  The files
  below mirror that code statement for statement over `d : Bytes` = the memory that exists from `opt.data_ptr()` / `buffer` on
  (exactly `data_size()` / `total_sz` bytes: an over-read of even one byte is a `fault`), with a pointer modelled as an index and every
  dereference an `rd` / `rdN`; the theorems show `raw decoder = total decoder` for ALL byte strings, which gives at once
    * memory safety: the raw walk never faults (the total decoder has no `fault` outcome), and
    * the tie: the total decoder is what harness/wire_*.h compares with the real getter.
-/
namespace Tins.Wire.Raw
open Tins

/-- `*(ptr++)`: the byte at `p` and the advanced pointer -/
def rdInc (site : String) (d : Bytes) (p : Nat) : Out (Nat × Nat) := do
  let v ← rd site d p
  pure (v.toNat, p + 1)

/-- a copy of the pointer range `[a, b)` (`v.assign(a, b)`, `vector(a, b)`, `string(a, b)`, `std::copy(a, b, out)`);
    a range that runs backwards is undefined behaviour -/
def rdRange (site : String) (d : Bytes) (a b : Nat) : Out Bytes :=
  if b < a then .fault site else rdN site d a (b - a)

theorem rd_lt (s : String) (d : Bytes) (i : Nat) (h : i < d.length) : rd s d i = .ok (d.getD i 0) := by
  unfold rd
  rw [List.getElem?_eq_getElem h]
  simp [List.getD, List.getElem?_eq_getElem h]

theorem rd_drop (s : String) (d : Bytes) (p i : Nat) : rd s (d.drop p) i = rd s d (p + i) := by
  unfold rd
  rw [List.getElem?_drop]

theorem rdN_le (s : String) (d : Bytes) (i n : Nat) (h : i + n ≤ d.length) : rdN s d i n = .ok ((d.drop i).take n) := by
  unfold rdN
  simp [h]

theorem rdInc_lt (s : String) (d : Bytes) (p : Nat) (h : p < d.length) :
    rdInc s d p = .ok ((d.getD p 0).toNat, p + 1) := by
  unfold rdInc
  rw [rd_lt s d p h]
  rfl

theorem rdRange_le (s : String) (d : Bytes) (a b : Nat) (h1 : a ≤ b) (h2 : b ≤ d.length) :
    rdRange s d a b = .ok ((d.drop a).take (b - a)) := by
  unfold rdRange
  have : ¬ b < a := by omega
  simp only [this, if_false]
  exact rdN_le s d a (b - a) (by omega)

/-- the rest of the memory from `a` on -/
theorem rdRange_end (s : String) (d : Bytes) (a : Nat) (h : a ≤ d.length) : rdRange s d a d.length = .ok (d.drop a) := by
  rw [rdRange_le s d a d.length h (Nat.le_refl _)]
  congr 1
  apply List.take_of_length_le
  simp

theorem drop_cons (d : Bytes) (p : Nat) (h : p < d.length) : d.drop p = d.getD p 0 :: d.drop (p + 1) := by
  rw [List.drop_eq_getElem_cons h]
  simp [List.getD, List.getElem?_eq_getElem h]

theorem drop_nil (d : Bytes) (p : Nat) (h : d.length ≤ p) : d.drop p = [] := List.drop_eq_nil_of_le h

end Tins.Wire.Raw
