import TinsModel.Wire.Raw.Basic
import TinsModel.Wire.Ip.Ip4
import TinsModel.Wire.App.Dhcpv6
import TinsModel.Wire.Icmp.Icmp6
import TinsModel.Wire.Checksum
import TinsModel.Gen.Layout
import TinsModel.Wire.Wifi.RadioTap
/-
  Raw-pointer mirrors of the remaining decoders on the parse path that touch a caller's pointer by hand:
  `IP::generic_route_option_type::from_option`, `Internals::option2class_option_data` (DHCPv6 user / vendor class),
  `Converters::convert<vector<IPv6Address>>`, the four `extract_metadata` that cast the buffer to a header struct,
  `Internals::hw_address_to_string`, `Utils::sum_range`, `Utils::crc32`.
-/
namespace Tins.Wire.Raw.Misc
open Tins Tins.Wire

/-! ### `IP::generic_route_option_type::from_option` -/

/-- `while (route < end) { memcpy(&buf, route, 4); routes.push_back(buf); route += 4; }` -/
def routeLoop (d : Bytes) (endp : Nat) : Nat → Nat → Out (List Bytes)
  | 0, _ => .fault "generic_route_option_type::from_option: out of fuel"
  | fuel + 1, route =>
    if !(route < endp) then .ok [] else do
      let a ← rdN "generic_route_option_type::from_option memcpy(&uint32_t_buffer, route, sizeof(uint32_t))" d route 4
      let rest ← routeLoop d endp fuel (route + 4)
      pure (a :: rest)

def route (d : Bytes) : Out (Nat × List Bytes) :=
  if d.length < 1 || (d.length - 1) % 4 != 0 then .throw .malformedOption else do
    let p ← rd "generic_route_option_type::from_option *opt.data_ptr()" d 0
    let route := 0 + 1                                                   -- opt.data_ptr() + 1
    let endp := route + d.length - 1                                     -- route + opt.data_size() - 1
    let rs ← routeLoop d endp (d.length + 1) route
    pure (p.toNat, rs)

theorem routeLoop_eq (d : Bytes) : ∀ (fuel n r : Nat), r ≤ d.length → (d.length - r) % 4 = 0 → d.length - r < fuel → d.length - r ≤ n →
    routeLoop d d.length fuel r = .ok (Ip.Ip4.chunks4 n (d.drop r)) := by
  intro fuel
  induction fuel with
  | zero => intro n r _ _ h; omega
  | succ f ih =>
    intro n r hr hm hf hn
    unfold routeLoop
    by_cases h0 : r < d.length
    · have hc : (!decide (r < d.length)) = false := by simp [h0]
      have h4 : r + 4 ≤ d.length := by omega
      simp only [hc, Bool.false_eq_true, if_false, bind, Out.bind, rdN_le _ d r 4 h4]
      obtain ⟨m, rfl⟩ : ∃ m, n = m + 1 := ⟨n - 1, by omega⟩
      rw [ih m (r + 4) h4 (by omega) (by omega) (by omega)]
      have hne : (d.drop r).isEmpty = false := by
        rw [drop_cons d r h0]; rfl
      simp only [Ip.Ip4.chunks4, hne, Bool.false_eq_true, if_false, List.drop_drop, pure]
    · have hc : (!decide (r < d.length)) = true := by simp [h0]
      simp only [hc, if_true]
      rw [drop_nil d r (by omega)]
      cases n <;> simp [Ip.Ip4.chunks4]

theorem route_eq (t l : Nat) (d : Bytes) : route d = Ip.Ip4.decodeRoute ⟨t, l, d⟩ := by
  unfold route Ip.Ip4.decodeRoute Ip.byteAt
  by_cases h : (d.length < 1 || (d.length - 1) % 4 != 0) = true
  · simp only [h, if_true]
  · have h' : (d.length < 1 || (d.length - 1) % 4 != 0) = false := Bool.eq_false_iff.2 h
    rw [Bool.or_eq_false_iff] at h'
    have h1 : 1 ≤ d.length := by have := h'.1; rw [decide_eq_false_iff_not] at this; omega
    have h4 : (d.length - 1) % 4 = 0 := by have := h'.2; simp only [bne_eq_false_iff_eq] at this; omega
    simp only [h', Bool.false_eq_true, if_false, bind, Out.bind, rd_lt _ d 0 (by omega), Nat.zero_add]
    have e : 1 + d.length - 1 = d.length := by omega
    rw [e, routeLoop_eq d (d.length + 1) d.length 1 h1 h4 (by omega) (by omega)]
    rfl

/-! ### `Internals::option2class_option_data` -/

/-- `while (index + 2 <= total_sz) { memcpy(&size, ptr + index, 2); … value_type(ptr + index, ptr + index + size) … }` -/
def classLoop (d : Bytes) (total : Nat) : Nat → Nat → Out (App.Dhcpv6.Dec (List Bytes))
  | 0, _ => .fault "option2class_option_data: out of fuel"
  | fuel + 1, index =>
    if !(index + 2 ≤ total) then
      (if index != total then pure .malformed else pure (.val []))       -- if (index != total_sz) throw malformed_option();
    else do
      let sz ← rdN "option2class_option_data memcpy(&size, ptr + index, sizeof(uint16_t))" d (0 + index) 2
      let size := Cursor.beNat sz                                        -- Endian::be_to_host(size)
      let index := index + 2
      if index + size > total then pure .notFound else do                -- throw option_not_found();
      let v ← rdRange "option2class_option_data value_type(ptr + index, ptr + index + size)" d (0 + index) (0 + index + size)
      let r ← classLoop d total fuel (index + size)
      match r with
      | .val rest => pure (.val (v :: rest))
      | e => pure e

def classDataRaw (d : Bytes) : Out (App.Dhcpv6.Dec (List Bytes)) := classLoop d d.length (d.length + 1) 0

theorem classData_nil (f : Nat) : App.Dhcpv6.classData f [] = .val [] := by
  cases f <;> simp [App.Dhcpv6.classData]

theorem classLoop_eq (d : Bytes) : ∀ (fR fT i : Nat), i ≤ d.length → d.length - i < fR → d.length - i ≤ fT →
    classLoop d d.length fR i = .ok (App.Dhcpv6.classData fT (d.drop i)) := by
  intro fR
  induction fR with
  | zero => intro fT i _ h; omega
  | succ f ih =>
    intro fT i hi hR hT
    unfold classLoop
    by_cases h2 : i + 2 ≤ d.length
    · have hc : (!decide (i + 2 ≤ d.length)) = false := by simp [h2]
      obtain ⟨g, rfl⟩ : ∃ g, fT = g + 1 := ⟨fT - 1, by omega⟩
      have hl : ¬ d.length - i < 2 := by omega
      simp only [hc, Bool.false_eq_true, if_false, bind, Out.bind, Nat.zero_add, rdN_le _ d i 2 h2, App.Dhcpv6.classData,
        List.length_drop, List.drop_drop, hl]
      by_cases hs : i + 2 + Cursor.beNat ((d.drop i).take 2) > d.length
      · have : Cursor.beNat ((d.drop i).take 2) > d.length - (i + 2) := by omega
        simp only [hs, if_true, this, pure]
      · have : ¬ Cursor.beNat ((d.drop i).take 2) > d.length - (i + 2) := by omega
        simp only [hs, if_false, this]
        rw [rdRange_le _ d (i + 2) (i + 2 + Cursor.beNat ((d.drop i).take 2)) (by omega) (by omega)]
        simp only []
        rw [ih g (i + 2 + Cursor.beNat ((d.drop i).take 2)) (by omega) (by omega) (by omega)]
        have e : i + 2 + Cursor.beNat ((d.drop i).take 2) - (i + 2) = Cursor.beNat ((d.drop i).take 2) := by omega
        rw [e]
        cases App.Dhcpv6.classData g (List.drop (i + 2 + Cursor.beNat (List.take 2 (List.drop i d))) d) <;> rfl
    · have hc : (!decide (i + 2 ≤ d.length)) = true := by simp [h2]
      simp only [hc, if_true]
      by_cases he : i = d.length
      · subst he
        simp [drop_nil, classData_nil, pure]
      · have hne : (i != d.length) = true := by simp [he]
        have h1 : d.drop i = [d.getD i 0] := by
          rw [drop_cons d i (by omega), drop_nil d (i + 1) (by omega)]
        simp only [hne, if_true, pure, h1]
        cases fT <;> simp [App.Dhcpv6.classData]

theorem classDataRaw_eq (d : Bytes) (fT : Nat) (h : d.length ≤ fT) : classDataRaw d = .ok (App.Dhcpv6.classData fT d) := by
  unfold classDataRaw
  rw [classLoop_eq d (d.length + 1) fT 0 (by omega) (by omega) (by omega), List.drop_zero]

/-! ### `Converters::convert<vector<IPv6Address>>` -/

/-- `while (ptr < end) { output.push_back(IPv6Address(ptr)); ptr += 16; }` -/
def addr6Loop (d : Bytes) (endp : Nat) : Nat → Nat → Out (List Bytes)
  | 0, _ => .fault "convert<vector<IPv6Address>>: out of fuel"
  | fuel + 1, ptr =>
    if !(ptr < endp) then .ok [] else do
      let a ← rdN "Converters::convert<vector<IPv6Address>> IPv6Address(ptr)" d ptr 16
      let rest ← addr6Loop d endp fuel (ptr + 16)
      pure (a :: rest)

/-- `none` = `throw malformed_option()` -/
def addr6List (d : Bytes) : Out (Option (List Bytes)) :=
  if d.length % 16 != 0 then pure none else do
    let l ← addr6Loop d (0 + d.length) (d.length + 1) 0
    pure (some l)

theorem addr6Loop_eq (d : Bytes) : ∀ (fuel p : Nat), p ≤ d.length → (d.length - p) % 16 = 0 → d.length - p < fuel →
    addr6Loop d d.length fuel p = .ok (Icmp.Icmp6.chunks 16 ((d.length - p) / 16) (d.drop p)) := by
  intro fuel
  induction fuel with
  | zero => intro p _ _ h; omega
  | succ f ih =>
    intro p hp hm hf
    unfold addr6Loop
    by_cases h0 : p < d.length
    · have hc : (!decide (p < d.length)) = false := by simp [h0]
      have h16 : p + 16 ≤ d.length := by omega
      simp only [hc, Bool.false_eq_true, if_false, bind, Out.bind, rdN_le _ d p 16 h16]
      rw [ih (p + 16) h16 (by omega) (by omega)]
      have e : (d.length - p) / 16 = (d.length - (p + 16)) / 16 + 1 := by omega
      rw [e]
      simp only [Icmp.Icmp6.chunks, List.drop_drop, pure]
    · have hc : (!decide (p < d.length)) = true := by simp [h0]
      simp only [hc, if_true]
      have : (d.length - p) / 16 = 0 := by omega
      rw [this]
      rfl

/-- what every total decoder of a list of IPv6 addresses computes (`chunks 16 (n / 16) b`) -/
theorem addr6List_eq (d : Bytes) (h : d.length % 16 = 0) :
    addr6List d = .ok (some (Icmp.Icmp6.chunks 16 (d.length / 16) d)) := by
  unfold addr6List
  have : (d.length % 16 != 0) = false := by simp [h]
  simp only [this, Bool.false_eq_true, if_false, bind, Out.bind, Nat.zero_add]
  rw [addr6Loop_eq d (d.length + 1) 0 (by omega) (by omega) (by omega)]
  simp [pure]

theorem addr6List_noFault (d : Bytes) : (addr6List d).isFault = false := by
  by_cases h : d.length % 16 = 0
  · rw [addr6List_eq d h]; rfl
  · unfold addr6List
    have : (d.length % 16 != 0) = true := by simp [h]
    simp [this, pure, Out.isFault]

/-! ### `extract_metadata`: `(const X_header*)buffer` after a size test -/

/-- `IP::extract_metadata`: header size `header->ihl * 4` and `header->protocol` -/
def ipMetadata (b : Bytes) : Out (Nat × Nat) :=
  if b.length < 20 then .throw .malformedPacket else do                  -- total_sz < sizeof(ip_header)
    let v ← rd "IP::extract_metadata header->ihl" b 0
    let p ← rd "IP::extract_metadata header->protocol" b 9
    pure (v.toNat % 16 * 4, p.toNat)

/-- `TCP::extract_metadata`: `header->doff * 4` (the high nibble of octet 12 on a little-endian host) -/
def tcpMetadata (b : Bytes) : Out Nat :=
  if b.length < 20 then .throw .malformedPacket else do                  -- total_sz < sizeof(tcp_header)
    let v ← rd "TCP::extract_metadata header->doff" b 12
    pure (v.toNat / 16 * 4)

/-- `EthernetII::extract_metadata`: header size 14 and `be_to_host(header->payload_type)` -/
def ethMetadata (b : Bytes) : Out (Nat × Nat) :=
  if b.length < 14 then .throw .malformedPacket else do                  -- total_sz < sizeof(ethernet_header)
    let t ← rdN "EthernetII::extract_metadata header->payload_type" b 12 2
    pure (14, Cursor.beNat t)

/-- `EAPOL::extract_metadata`: `min(total_sz, be_to_host(header->length) + 4)`; `eapol_header` is packed: 1 + 1 + 2 + 1 -/
def eapolMetadata (b : Bytes) : Out Nat :=
  if b.length < 5 then .throw .malformedPacket else do                   -- total_sz < sizeof(eapol_header)
    let l ← rdN "EAPOL::extract_metadata header->length" b 2 2
    let advertised := Cursor.beNat l + 4
    pure (if b.length < advertised then b.length else advertised)

/-- the sizes and offsets above are those of the current headers (the layout probe of translator/gen_layout.py) -/
theorem metadata_layout :
    Fields.Gen.imageLen.lookup "IP" = some 20 ∧ Fields.Gen.M.IP_ihl = ⟨0, 0, 4⟩ ∧ Fields.Gen.M.IP_protocol = ⟨9, 0, 8⟩ ∧
    Fields.Gen.imageLen.lookup "TCP" = some 20 ∧ Fields.Gen.M.TCP_doff = ⟨12, 4, 4⟩ ∧
    Fields.Gen.imageLen.lookup "EthernetII" = some 14 ∧ Fields.Gen.M.EthernetII_payload_type = ⟨12, 0, 16⟩ := by decide

/-- a metadata reader never leaves the buffer and raises nothing but `malformed_packet` -/
def MetaSafe {α} (x : Out α) : Prop := x.isFault = false ∧ ∀ e, x = .throw e → e = .malformedPacket

theorem ipMetadata_safe (b : Bytes) : MetaSafe (ipMetadata b) := by
  unfold ipMetadata MetaSafe
  by_cases h : b.length < 20
  · simp [h, Out.isFault]
  · simp [h, bind, Out.bind, rd_lt _ b 0 (by omega), rd_lt _ b 9 (by omega), pure, Out.isFault]

theorem tcpMetadata_safe (b : Bytes) : MetaSafe (tcpMetadata b) := by
  unfold tcpMetadata MetaSafe
  by_cases h : b.length < 20
  · simp [h, Out.isFault]
  · simp [h, bind, Out.bind, rd_lt _ b 12 (by omega), pure, Out.isFault]

theorem ethMetadata_safe (b : Bytes) : MetaSafe (ethMetadata b) := by
  unfold ethMetadata MetaSafe
  by_cases h : b.length < 14
  · simp [h, Out.isFault]
  · simp [h, bind, Out.bind, rdN_le _ b 12 2 (by omega), pure, Out.isFault]

theorem eapolMetadata_safe (b : Bytes) : MetaSafe (eapolMetadata b) := by
  unfold eapolMetadata MetaSafe
  by_cases h : b.length < 5
  · simp [h, Out.isFault]
  · simp [h, bind, Out.bind, rdN_le _ b 2 2 (by omega), pure, Out.isFault]

/-! ### `Internals::hw_address_to_string(ptr, count)` -/

def hexDigit (n : Nat) : Char := if n > 9 then Char.ofNat (n + 87) else Char.ofNat (n + 48)

/-- `for (i = 0; i < count; ++i) { if (i) out += ':'; char j = ptr[i]; … }` over the memory `mem` that exists from `ptr` on -/
def hwToStringLoop (mem : Bytes) (count : Nat) : Nat → Nat → List Char → Out (List Char)
  | 0, _, _ => .fault "hw_address_to_string: out of fuel"
  | fuel + 1, i, acc =>
    if !(i < count) then .ok acc else do
      let acc := if i != 0 then acc ++ [':'] else acc
      let j ← rd "hw_address_to_string ptr[i]" mem i
      hwToStringLoop mem count fuel (i + 1) (acc ++ [hexDigit (j.toNat / 16 % 16), hexDigit (j.toNat % 16)])

def hwToString (mem : Bytes) (count : Nat) : Out String := do
  let cs ← hwToStringLoop mem count (count + 1) 0 []
  pure (String.ofList cs)

theorem hwToStringLoop_noFault (mem : Bytes) (count : Nat) (h : count ≤ mem.length) :
    ∀ (fuel i : Nat) (acc : List Char), count - i < fuel → (hwToStringLoop mem count fuel i acc).isFault = false := by
  intro fuel
  induction fuel with
  | zero => intro i acc hf; omega
  | succ f ih =>
    intro i acc hf
    unfold hwToStringLoop
    by_cases h0 : i < count
    · have hc : (!decide (i < count)) = false := by simp [h0]
      simp only [hc, Bool.false_eq_true, if_false, bind, Out.bind, rd_lt _ mem i (by omega)]
      exact ih (i + 1) _ (by omega)
    · have hc : (!decide (i < count)) = true := by simp [h0]
      simp [hc, Out.isFault]

/-- `hw_address_to_string` reads exactly `ptr[0 .. count)`: no fault whenever the caller's `count` bytes exist -/
theorem hwToString_noFault (mem : Bytes) (count : Nat) (h : count ≤ mem.length) : (hwToString mem count).isFault = false := by
  unfold hwToString
  have := hwToStringLoop_noFault mem count h (count + 1) 0 [] (by omega)
  cases hx : hwToStringLoop mem count (count + 1) 0 [] with
  | ok a => rfl
  | throw e => rfl
  | fault s => rw [hx] at this; simp [Out.isFault] at this

/-! ### `Utils::sum_range(start, end)` -/

/-- `while (ptr < last) { memcpy(&buffer, ptr, 2); checksum += buffer; ptr += 2; }` (little-endian host, `uint32_t` sum) -/
def sumLoop (mem : Bytes) (last : Nat) : Nat → Nat → Nat → Out Nat
  | 0, _, _ => .fault "sum_range: out of fuel"
  | fuel + 1, ptr, checksum =>
    if !(ptr < last) then .ok checksum else do
      let w ← rdN "sum_range memcpy(&buffer, ptr, sizeof(uint16_t))" mem ptr 2
      sumLoop mem last fuel (ptr + 2) ((checksum + Cursor.leNat w) % 4294967296)

/-- `sum_range(start, end)` with `start = mem`, `end = mem + n`: the folded 16-bit sum -/
def sumRangeRaw (mem : Bytes) (n : Nat) : Out Nat := do
  let start := 0
  let endp := start + n
  -- if (((end - start) & 1) == 1) { last = end - 1; padding = *(end - 1); }
  let (last, padding) ← (if (endp - start) % 2 == 1 then do
      let v ← rd "sum_range *(end - 1)" mem (endp - 1)
      pure (endp - 1, v.toNat)
    else pure (endp, 0) : Out (Nat × Nat))
  let s ← sumLoop mem last (n + 1) start 0
  pure (fold16 ((s + padding) % 4294967296))

theorem leNat_two (a b : UInt8) : Cursor.leNat [a, b] = a.toNat + 256 * b.toNat := by
  simp [Cursor.leNat]; omega

theorem sumLoop_eq (mem : Bytes) : ∀ (fuel p last acc : Nat), last ≤ mem.length → p ≤ last → (last - p) % 2 = 0 → last - p < fuel →
    acc < 4294967296 →
    sumLoop mem last fuel p acc = .ok ((acc + rawSum ((mem.drop p).take (last - p))) % 4294967296) := by
  intro fuel
  induction fuel with
  | zero => intro p last acc _ _ _ h; omega
  | succ f ih =>
    intro p last acc hl hp hm hf ha
    unfold sumLoop
    by_cases h0 : p < last
    · have hc : (!decide (p < last)) = false := by simp [h0]
      have h2 : p + 2 ≤ last := by omega
      simp only [hc, Bool.false_eq_true, if_false, bind, Out.bind, rdN_le _ mem p 2 (by omega)]
      rw [ih (p + 2) last _ hl h2 (by omega) (by omega) (Nat.mod_lt _ (by decide))]
      rw [drop_cons mem p (by omega), drop_cons mem (p + 1) (by omega)]
      have e : last - p = (last - (p + 2)) + 2 := by omega
      rw [e]
      simp only [List.take_succ_cons, List.take_zero, leNat_two, rawSum]
      have e2 : p + 1 + 1 = p + 2 := by omega
      rw [e2]
      congr 1
      omega
    · have hc : (!decide (p < last)) = true := by simp [h0]
      have : last - p = 0 := by omega
      simp only [hc, if_true, this, List.take_zero, rawSum, Nat.add_zero]
      rw [Nat.mod_eq_of_lt ha]

theorem rawSum_lt (bs : Bytes) : rawSum bs < 4294967296 := by
  match bs with
  | [] => simp [rawSum]
  | [a] => simp [rawSum]; have := a.toNat_lt; omega
  | a :: b :: r => simp only [rawSum]; exact Nat.mod_lt _ (by decide)

theorem rawSum_append_odd : ∀ (n : Nat) (bs : Bytes) (x : UInt8), bs.length = 2 * n →
    rawSum (bs ++ [x]) = (rawSum bs + x.toNat) % 4294967296 := by
  intro n
  induction n with
  | zero =>
    intro bs x h
    have : bs = [] := List.length_eq_zero_iff.1 (by omega)
    subst this
    have := x.toNat_lt
    simp only [List.nil_append, rawSum, Nat.zero_add]
    omega
  | succ n ih =>
    intro bs x h
    match bs, h with
    | a :: b :: r, h =>
      have hr : r.length = 2 * n := by simp at h; omega
      have := ih r x hr
      have hlt := rawSum_lt r
      simp only [List.cons_append, rawSum, this]
      omega

/-- **sum_range**: reads exactly `[start, end)` and returns what the total model `Wire.sumRange` computes over those bytes -/
theorem sumRangeRaw_eq (mem : Bytes) (n : Nat) (h : n ≤ mem.length) : sumRangeRaw mem n = .ok (sumRange (mem.take n)) := by
  unfold sumRangeRaw sumRange
  simp only [Nat.zero_add, Nat.sub_zero, bind, Out.bind]
  by_cases hodd : n % 2 = 1
  · have hc : (n % 2 == 1) = true := by simp [hodd]
    have hn : n - 1 < mem.length := by omega
    simp only [hc, if_true, rd_lt _ mem (n - 1) hn, pure]
    rw [sumLoop_eq mem (n + 1) 0 (n - 1) 0 (by omega) (by omega) (by omega) (by omega) (by decide)]
    simp only [Nat.sub_zero, List.drop_zero, Nat.zero_add]
    have hsplit : mem.take n = mem.take (n - 1) ++ [mem.getD (n - 1) 0] := by
      have : n = (n - 1) + 1 := by omega
      conv => lhs; rw [this]
      rw [List.take_add_one]
      simp [List.getD, List.getElem?_eq_getElem hn]
    have hlen : (mem.take (n - 1)).length = 2 * ((n - 1) / 2) := by simp; omega
    rw [hsplit, rawSum_append_odd ((n - 1) / 2) _ _ hlen, Nat.mod_eq_of_lt (rawSum_lt _)]
  · have hc : (n % 2 == 1) = false := by simp [hodd]
    simp only [hc, Bool.false_eq_true, if_false, pure]
    rw [sumLoop_eq mem (n + 1) 0 n 0 h (by omega) (by omega) (by omega) (by decide)]
    simp only [Nat.sub_zero, List.drop_zero, Nat.zero_add, Nat.add_zero]
    rw [Nat.mod_eq_of_lt (rawSum_lt _), Nat.mod_eq_of_lt (rawSum_lt _)]

/-! ### `Utils::crc32(data, data_size)` -/

/-- `for (i = 0; i < data_size; ++i) { crc = … crc_table[(crc ^ data[i]) & 0x0F]; crc = … crc_table[(crc ^ (data[i] >> 4)) & 0x0F]; }`;
    the table index is masked with `0x0F` (16 entries), the data index is the raw access -/
def crcLoop (mem : Bytes) (size : Nat) : Nat → Nat → Nat → Out Nat
  | 0, _, _ => .fault "crc32: out of fuel"
  | fuel + 1, i, crc =>
    if !(i < size) then .ok crc else do
      let b ← rd "crc32 data[i]" mem i
      crcLoop mem size fuel (i + 1) (Wifi.crcStep crc b)

def crc32Raw (mem : Bytes) (size : Nat) : Out Nat := crcLoop mem size (size + 1) 0 0

theorem crcLoop_eq (mem : Bytes) (size : Nat) (h : size ≤ mem.length) : ∀ (fuel i crc : Nat), i ≤ size → size - i < fuel →
    crcLoop mem size fuel i crc = .ok (((mem.drop i).take (size - i)).foldl Wifi.crcStep crc) := by
  intro fuel
  induction fuel with
  | zero => intro i crc _ hf; omega
  | succ f ih =>
    intro i crc hi hf
    unfold crcLoop
    by_cases h0 : i < size
    · have hc : (!decide (i < size)) = false := by simp [h0]
      simp only [hc, Bool.false_eq_true, if_false, bind, Out.bind, rd_lt _ mem i (by omega)]
      rw [ih (i + 1) _ (by omega) (by omega), drop_cons mem i (by omega)]
      have e : size - i = (size - (i + 1)) + 1 := by omega
      rw [e]
      simp only [List.take_succ_cons, List.foldl_cons]
    · have hc : (!decide (i < size)) = true := by simp [h0]
      have : size - i = 0 := by omega
      simp only [hc, if_true, this, List.take_zero, List.foldl_nil]

/-- **crc32**: reads exactly `data[0 .. data_size)` and returns what the total model `Wifi.crc32` computes over those bytes -/
theorem crc32Raw_eq (mem : Bytes) (size : Nat) (h : size ≤ mem.length) : crc32Raw mem size = .ok (Wifi.crc32 (mem.take size)) := by
  unfold crc32Raw Wifi.crc32
  rw [crcLoop_eq mem size h (size + 1) 0 0 (by omega) (by omega)]
  simp

end Tins.Wire.Raw.Misc
