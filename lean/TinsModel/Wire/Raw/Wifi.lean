import TinsModel.Wire.Raw.Basic
import TinsModel.Wire.Wifi.Tagged
/-
  Raw-pointer mirrors of the typed tagged-option decoders of `Dot11ManagementFrame` (src/dot11/dot11_mgmt.cpp) that walk
  `opt.data_ptr()` by hand.  `d` = the option's memory (`data_size()` bytes from `data_ptr()`), `end` = `d.length`.
-/
namespace Tins.Wire.Raw.Wifi
open Tins Tins.Wire.Wifi.Tagged

/-- `channel_switch_type::from_option` -/
def channelSwitch (d : Bytes) : Out (Nat × Nat × Nat) :=
  if d.length != 3 then .throw .malformedOption else do                 -- opt.data_size() != sizeof(uint8_t) * 3
    let ptr := 0                                                         -- const uint8_t* ptr = opt.data_ptr();
    let (mode, ptr) ← rdInc "channel_switch_type::from_option *(ptr++)" d ptr
    let (chan, ptr) ← rdInc "channel_switch_type::from_option *(ptr++)" d ptr
    let (cnt, _) ← rdInc "channel_switch_type::from_option *(ptr++)" d ptr
    pure (mode, chan, cnt)

/-- `fh_pattern_type::from_option` -/
def fhPattern (d : Bytes) : Out (Nat × Nat × Nat × Nat × Bytes) :=
  if d.length < 4 then .throw .malformedOption else do                   -- opt.data_size() < fh_pattern_type::minimum_size
    let ptr := 0
    let endp := ptr + d.length                                           -- *end = ptr + opt.data_size()
    let (flag, ptr) ← rdInc "fh_pattern_type::from_option *(ptr++)" d ptr
    let (sets, ptr) ← rdInc "fh_pattern_type::from_option *(ptr++)" d ptr
    let (modulus, ptr) ← rdInc "fh_pattern_type::from_option *(ptr++)" d ptr
    let (offset, ptr) ← rdInc "fh_pattern_type::from_option *(ptr++)" d ptr
    let table ← rdRange "fh_pattern_type::from_option random_table.assign(ptr, end)" d ptr endp
    pure (flag, sets, modulus, offset, table)

/-- `tim_type::from_option` -/
def tim (d : Bytes) : Out (Nat × Nat × Nat × Bytes) :=
  if d.length < 4 then .throw .malformedOption else do                   -- opt.data_size() < 4 * sizeof(uint8_t)
    let ptr := 0
    let endp := ptr + d.length
    let (count, ptr) ← rdInc "tim_type::from_option *(ptr++)" d ptr
    let (period, ptr) ← rdInc "tim_type::from_option *(ptr++)" d ptr
    let (control, ptr) ← rdInc "tim_type::from_option *(ptr++)" d ptr
    let bitmap ← rdRange "tim_type::from_option partial_virtual_bitmap.assign(ptr, end)" d ptr endp
    pure (count, period, control, bitmap)

/-- the `while (ptr != end)` loop of `ibss_dfs_params::from_option`; every round that continues advances `ptr` by 2 -/
def dfsLoop (d : Bytes) (endp : Nat) : Nat → Nat → Out (List (Nat × Nat))
  | 0, _ => .fault "ibss_dfs_params::from_option: out of fuel"
  | fuel + 1, ptr =>
    if ptr == endp then .ok [] else do                                   -- while (ptr != end)
      let (first, ptr) ← rdInc "ibss_dfs_params::from_option *(ptr++)" d ptr
      if ptr == endp then .throw .malformedOption else do                -- if (ptr == end) throw malformed_option();
      let (second, ptr) ← rdInc "ibss_dfs_params::from_option *(ptr++)" d ptr
      let rest ← dfsLoop d endp fuel ptr
      pure ((first, second) :: rest)

/-- `ibss_dfs_params::from_option` (minimum_size = 6 + 1 + 2) -/
def ibssDfs (d : Bytes) : Out (Bytes × Nat × List (Nat × Nat)) :=
  if d.length < 9 then .throw .malformedOption else do
    let ptr := 0
    let endp := ptr + d.length
    let owner ← rdN "ibss_dfs_params::from_option dfs_owner = ptr" d ptr 6  -- HWAddress<6>(ptr): memcpy of 6 bytes
    let ptr := ptr + 6                                                   -- ptr += output.dfs_owner.size();
    let (interval, ptr) ← rdInc "ibss_dfs_params::from_option *(ptr++)" d ptr
    let pairs ← dfsLoop d endp (d.length + 1) ptr
    pure (owner, interval, pairs)

/-- the `while (end - ptr >= 3)` loop of `country_params::from_option`: the triplets and where `ptr` stops -/
def countryLoop (d : Bytes) (endp : Nat) : Nat → Nat → Out (List (Nat × Nat × Nat) × Nat)
  | 0, _ => .fault "country_params::from_option: out of fuel"
  | fuel + 1, ptr =>
    if !(endp - ptr ≥ 3) then .ok ([], ptr) else do                      -- while (end - ptr >= 3)  (ptr ≤ end: `countryLoop_eq`)
      let (first, ptr) ← rdInc "country_params::from_option *(ptr++)" d ptr
      let (number, ptr) ← rdInc "country_params::from_option *(ptr++)" d ptr
      let (power, ptr) ← rdInc "country_params::from_option *(ptr++)" d ptr
      let (rest, stop) ← countryLoop d endp fuel ptr
      pure ((first, number, power) :: rest, stop)

/-- `country_params::from_option` (minimum_size = 3 + 3) -/
def country (d : Bytes) : Out (Bytes × List (Nat × Nat × Nat)) :=
  if d.length < 6 then .throw .malformedOption else do
    let ptr := 0
    let endp := ptr + d.length
    let name ← rdRange "country_params::from_option copy(ptr, ptr + 3, back_inserter(output.country))" d ptr (ptr + 3)
    let ptr := ptr + name.length                                         -- ptr += output.country.size();
    let (ts, ptr) ← countryLoop d endp (d.length + 1) ptr
    let onlyPaddingLeft := (endp - ptr == 1) && (d.length % 2 == 0)
    if ptr != endp && !onlyPaddingLeft then .throw .malformedOption
    else pure (name, ts)

/-- `vendor_specific_type::from_bytes(buffer, sz)`: `HWAddress<3>(buffer)` and `byte_array(buffer + 3, buffer + sz)` -/
def vendorFromBytes (d : Bytes) : Out (Bytes × Bytes) :=
  if d.length < 3 then .throw .malformedOption else do                   -- if (sz < 3) throw malformed_option();
    let oui ← rdN "vendor_specific_type::from_bytes oui_type(buffer)" d 0 3
    let data ← rdRange "vendor_specific_type::from_bytes byte_array(buffer + 3, buffer + sz)" d 3 d.length
    pure (oui, data)

/-- `Dot11ManagementFrame::vendor_specific()`: shorter than the OUI counts as "not there" -/
def vendorSpecific (d : Bytes) : Out (Bytes × Bytes) :=
  if d.length < 3 then .throw .optionNotFound else vendorFromBytes d

/-- `Converters::convert<vector<float>>`: `while (ptr != end) output.push_back(float(*(ptr++) & 0x7f) / 2)`, in units of 0.5 -/
def ratesLoop (d : Bytes) (endp : Nat) : Nat → Nat → Out (List Nat)
  | 0, _ => .fault "convert<vector<float>>: out of fuel"
  | fuel + 1, ptr =>
    if ptr == endp then .ok [] else do
      let (v, ptr) ← rdInc "Converters::convert<vector<float>> *(ptr++)" d ptr
      let rest ← ratesLoop d endp fuel ptr
      pure (v % 128 :: rest)

def rates (d : Bytes) : Out (List Nat) := ratesLoop d (0 + d.length) (d.length + 1) 0

/-! ### raw = total -/

theorem channelSwitch_eq (d : Bytes) : channelSwitch d = decodeChannelSwitch d := by
  unfold channelSwitch decodeChannelSwitch
  match d with
  | [] | [_] | [_, _] | _ :: _ :: _ :: _ :: _ => simp
  | [x, y, z] => rfl

theorem b_eq (d : Bytes) (i : Nat) : Tins.Wire.Wifi.Tagged.b d i = (d.getD i 0).toNat := rfl

theorem fhPattern_eq (d : Bytes) : fhPattern d = decodeFhPattern d := by
  unfold fhPattern decodeFhPattern
  by_cases h : d.length < 4
  · simp [h]
  · have h0 : (0 : Nat) < d.length := by omega
    have h1 : 0 + 1 < d.length := by omega
    have h2 : 0 + 1 + 1 < d.length := by omega
    have h3 : 0 + 1 + 1 + 1 < d.length := by omega
    have h4 : 0 + 1 + 1 + 1 + 1 ≤ d.length := by omega
    simp only [h, if_false, Nat.zero_add, bind, Out.bind, rdInc_lt _ d _ h0, rdInc_lt _ d _ h1, rdInc_lt _ d _ h2,
      rdInc_lt _ d _ h3, rdRange_end _ d _ h4, b_eq, pure]

theorem tim_eq (d : Bytes) : tim d = decodeTim d := by
  unfold tim decodeTim
  by_cases h : d.length < 4
  · simp [h]
  · have h0 : (0 : Nat) < d.length := by omega
    have h1 : 0 + 1 < d.length := by omega
    have h2 : 0 + 1 + 1 < d.length := by omega
    have h4 : 0 + 1 + 1 + 1 ≤ d.length := by omega
    simp only [h, if_false, Nat.zero_add, bind, Out.bind, rdInc_lt _ d _ h0, rdInc_lt _ d _ h1, rdInc_lt _ d _ h2,
      rdRange_end _ d _ h4, b_eq, pure]

theorem dfsLoop_eq (d : Bytes) : ∀ (fuel p : Nat), p ≤ d.length → d.length - p < fuel →
    dfsLoop d d.length fuel p = dfsPairs (d.drop p) := by
  intro fuel
  induction fuel with
  | zero => intro p _ h; omega
  | succ f ih =>
    intro p hp hf
    unfold dfsLoop
    by_cases h0 : p = d.length
    · subst h0; simp [dfsPairs]
    · have hlt : p < d.length := by omega
      have hne : (p == d.length) = false := by simp [h0]
      rw [drop_cons d p hlt]
      simp only [hne, Bool.false_eq_true, if_false, bind, Out.bind, rdInc_lt _ d p hlt]
      by_cases h1 : p + 1 = d.length
      · have : (p + 1 == d.length) = true := by simp [h1]
        simp only [this, if_true]
        rw [drop_nil d (p + 1) (by omega)]
        rfl
      · have hlt1 : p + 1 < d.length := by omega
        have hne1 : (p + 1 == d.length) = false := by simp [h1]
        rw [drop_cons d (p + 1) hlt1]
        simp only [hne1, Bool.false_eq_true, if_false, rdInc_lt _ d (p + 1) hlt1]
        rw [ih (p + 1 + 1) (by omega) (by omega)]
        simp only [dfsPairs]
        cases dfsPairs (List.drop (p + 1 + 1) d) <;> rfl

theorem ibssDfs_eq (d : Bytes) : ibssDfs d = decodeIbssDfs d := by
  unfold ibssDfs decodeIbssDfs
  by_cases h : d.length < 9
  · simp [h]
  · have h6 : 0 + 6 < d.length := by omega
    simp only [h, if_false, Nat.zero_add, bind, Out.bind, rdN_le _ d 0 6 (by omega), rdInc_lt _ d _ h6, b_eq, pure]
    rw [dfsLoop_eq d (d.length + 1) (0 + 6 + 1) (by omega) (by omega)]
    simp only [Nat.zero_add, List.drop_zero]

theorem countryLoop_eq (d : Bytes) : ∀ (fuel p : Nat), p ≤ d.length → d.length - p < fuel →
    countryLoop d d.length fuel p = .ok ((triplesOf (d.drop p)).1, d.length - (triplesOf (d.drop p)).2.length) := by
  intro fuel
  induction fuel with
  | zero => intro p _ h; omega
  | succ f ih =>
    intro p hp hf
    unfold countryLoop
    by_cases h3 : d.length - p ≥ 3
    · have l0 : p < d.length := by omega
      have l1 : p + 1 < d.length := by omega
      have l2 : p + 1 + 1 < d.length := by omega
      have hc : (!decide (d.length - p ≥ 3)) = false := by simp [h3]
      simp only [hc, Bool.false_eq_true, if_false, bind, Out.bind, rdInc_lt _ d _ l0, rdInc_lt _ d _ l1, rdInc_lt _ d _ l2]
      rw [ih (p + 1 + 1 + 1) (by omega) (by omega)]
      rw [drop_cons d p l0, drop_cons d (p + 1) l1, drop_cons d (p + 1 + 1) l2]
      simp [triplesOf, pure]
    · have hc : (!decide (d.length - p ≥ 3)) = true := by simp [h3]
      simp only [hc, if_true]
      have hl : (d.drop p).length < 3 := by simp; omega
      have : triplesOf (d.drop p) = ([], d.drop p) := by
        match hd : d.drop p with
        | [] => rfl
        | [_] => rfl
        | [_, _] => rfl
        | _ :: _ :: _ :: _ => rw [hd] at hl; simp at hl; omega
      rw [this]
      simp
      omega

theorem triplesOf_rest_le : ∀ (n : Nat) (l : Bytes), l.length ≤ n → (triplesOf l).2.length ≤ l.length := by
  intro n
  induction n with
  | zero => intro l h; match l with
    | [] => simp [triplesOf]
  | succ n ih =>
    intro l h
    match l with
    | [] | [_] | [_, _] => simp [triplesOf]
    | x :: y :: z :: r =>
      simp only [triplesOf, List.length_cons]
      have := ih r (by simp at h; omega)
      omega

theorem country_eq (d : Bytes) : country d = decodeCountry d := by
  unfold country decodeCountry
  by_cases h : d.length < 6
  · simp [h]
  · simp only [h, if_false, Nat.zero_add, bind, Out.bind, rdRange_le _ d 0 3 (by omega) (by omega)]
    have hl : (List.take (3 - 0) (List.drop 0 d)).length = 3 := by simp; omega
    simp only [hl]
    rw [countryLoop_eq d (d.length + 1) 3 (by omega) (by omega)]
    have hr := triplesOf_rest_le (d.drop 3).length (d.drop 3) (Nat.le_refl _)
    have hd : (d.drop 3).length = d.length - 3 := by simp
    generalize triplesOf (d.drop 3) = tr at hr ⊢
    obtain ⟨ts, rest⟩ := tr
    simp only at hr ⊢
    have e1 : (d.length - (d.length - rest.length) == 1) = (rest.length == 1) := by
      congr 1; omega
    have e2 : (d.length - rest.length != d.length) = !rest.isEmpty := by
      cases rest with
      | nil => simp
      | cons a t => simp; omega
    simp only [e1, e2, pure, Nat.sub_zero, List.drop_zero]

theorem vendorSpecific_eq (d : Bytes) : vendorSpecific d = decodeVendor d := by
  unfold vendorSpecific vendorFromBytes decodeVendor
  by_cases h : d.length < 3
  · simp [h]
  · simp only [h, if_false, bind, Out.bind, rdN_le _ d 0 3 (by omega), rdRange_end _ d 3 (by omega), pure, List.drop_zero]

theorem vendorFromBytes_noFault (d : Bytes) : (vendorFromBytes d).isFault = false := by
  unfold vendorFromBytes
  by_cases h : d.length < 3
  · simp [h, Out.isFault]
  · simp only [h, if_false, bind, Out.bind, rdN_le _ d 0 3 (by omega), rdRange_end _ d 3 (by omega), pure, Out.isFault]

theorem ratesLoop_eq (d : Bytes) : ∀ (fuel p : Nat), p ≤ d.length → d.length - p < fuel →
    ratesLoop d d.length fuel p = .ok (decodeRates (d.drop p)) := by
  intro fuel
  induction fuel with
  | zero => intro p _ h; omega
  | succ f ih =>
    intro p hp hf
    unfold ratesLoop
    by_cases h0 : p = d.length
    · subst h0; simp [decodeRates]
    · have hlt : p < d.length := by omega
      have hne : (p == d.length) = false := by simp [h0]
      simp only [hne, Bool.false_eq_true, if_false, bind, Out.bind, rdInc_lt _ d p hlt]
      rw [ih (p + 1) (by omega) (by omega), drop_cons d p hlt]
      simp [decodeRates, pure]

theorem rates_eq (d : Bytes) : rates d = .ok (decodeRates d) := by
  unfold rates
  rw [Nat.zero_add, ratesLoop_eq d (d.length + 1) 0 (by omega) (by omega), List.drop_zero]

end Tins.Wire.Raw.Wifi
