import TinsModel.Wire.Raw.Basic
import TinsModel.Wire.Icmp.Icmp6
/-
  Raw-pointer mirrors of the typed option decoders of `ICMPv6` (src/icmpv6.cpp) that touch `opt.data_ptr()` by hand.
  `d` = the option's memory (`data_size()` bytes from `data_ptr()`), `end` = `d.length`.  Like the total decoders of
  Wire/Icmp/Icmp6.lean they return a `Dec` (`.malformed` = `throw malformed_option()`, `.notFound` = `throw option_not_found()`);
  the `Out` around it only says whether the walk stayed inside the option.
-/
namespace Tins.Wire.Raw.Icmp6
open Tins Tins.Wire Tins.Wire.Icmp Tins.Wire.Icmp.Icmp6

/-- `naack_type::from_option`: `naack_type(*opt.data_ptr(), opt.data_ptr()[1])` -/
def naack (d : Bytes) : Out Dec :=
  if d.length != 6 then pure .malformed else do                          -- opt.data_size() != 6
    let code ← rd "naack_type::from_option *opt.data_ptr()" d 0
    let status ← rd "naack_type::from_option opt.data_ptr()[1]" d 1
    pure (.val s!"{code.toNat}.{status.toNat}")

/-- `lladdr_type::from_option` -/
def lladdr (d : Bytes) : Out Dec :=
  if d.length < 2 then pure .malformed else do                           -- opt.data_size() < 2
    let ptr := 0
    let (code, ptr) ← rdInc "lladdr_type::from_option *ptr++" d ptr
    let addr ← rdRange "lladdr_type::from_option address.assign(ptr, opt.data_ptr() + opt.data_size())" d ptr (0 + d.length)
    pure (.val s!"{code}.{hexStr addr}")

/-- `handover_assist_info_type::from_option` and `mobile_node_id_type::from_option` (the same code) -/
def codeLen (d : Bytes) : Out Dec :=
  if d.length < 2 then pure .malformed else do                           -- opt.data_size() < 2
    let ptr := 0
    let endp := ptr + d.length
    let (code, ptr) ← rdInc "handover_assist_info_type::from_option *ptr++" d ptr
    let len ← rd "handover_assist_info_type::from_option *ptr" d ptr
    if endp - ptr - 1 < len.toNat then pure .malformed else do           -- if ((end - ptr - 1) < *ptr)   (end - ptr ≥ 1 here)
    let data ← rdRange "handover_assist_info_type::from_option hai.assign(ptr + 1, ptr + 1 + *ptr)" d (ptr + 1) (ptr + 1 + len.toNat)
    pure (.val s!"{code}.{hexStr data}")

/-- `handover_key_req_type::from_option`; the stream over the option data as a `Cursor` -/
def handoverReq (d : Bytes) : Out Dec :=
  if d.length < 2 + 4 then pure .notFound else do                        -- throw option_not_found()
    let c := Cursor.ofBytes d
    match c.skip 1 with                                                  -- stream.skip(1)
    | .ok c =>
      match c.readU8 with                                                -- stream.read<uint8_t>()
      | .ok (at_, c) => do
        let pad ← rd "handover_key_req_type::from_option *opt.data_ptr()" d 0
        if !c.canRead pad.toNat then pure .malformed else do             -- !stream.can_read(*opt.data_ptr())
        -- key.assign(stream.pointer(), stream.pointer() + stream.size() - *opt.data_ptr())
        let key ← rdRange "handover_key_req_type::from_option key.assign" c.mem 0 (0 + c.size - pad.toNat)
        pure (.val s!"{at_ / 16 % 16}.{hexStr key}")
      | .throw _ => pure .malformedPkt
      | .fault s => .fault s
    | .throw _ => pure .malformedPkt
    | .fault s => .fault s

/-- `handover_key_reply_type::from_option` -/
def handoverReply (d : Bytes) : Out Dec :=
  if d.length < 2 + 4 then pure .malformed else do
    let c := Cursor.ofBytes d
    match c.skip 1 with
    | .ok c =>
      match c.readU8 with
      | .ok (at_, c) =>
        match c.readBE 2 with                                            -- stream.read_be<uint16_t>()
        | .ok (lifetime, c) => do
          let pad ← rd "handover_key_reply_type::from_option *opt.data_ptr()" d 0
          if !c.canRead pad.toNat then pure .malformed else do
          let key ← rdRange "handover_key_reply_type::from_option key.assign" c.mem 0 (0 + c.size - pad.toNat)
          pure (.val s!"{lifetime}.{at_ / 16 % 16}.{hexStr key}")
        | .throw _ => pure .malformedPkt
        | .fault s => .fault s
      | .throw _ => pure .malformedPkt
      | .fault s => .fault s
    | .throw _ => pure .malformedPkt
    | .fault s => .fault s

/-- the inner `while (ptr < end && *ptr && *ptr < (end - ptr))` loop of `dns_search_list_type::from_option`: the labels of one domain
    joined by '.', and where `ptr` stops.  The C++ evaluates `*ptr` up to five times per round, always at the same address. -/
def labelsLoop (d : Bytes) (endp : Nat) : Nat → Bytes → Nat → Out (Bytes × Nat)
  | 0, _, _ => .fault "dns_search_list_type::from_option: label loop out of fuel"
  | fuel + 1, acc, ptr =>
    if !(ptr < endp) then .ok (acc, ptr) else do
      let l ← rd "dns_search_list_type::from_option *ptr" d ptr
      if !(l.toNat != 0 && l.toNat < endp - ptr) then .ok (acc, ptr) else do
        let acc := if acc.isEmpty then acc else acc ++ [46]            -- if (!domain.empty()) domain.push_back('.')
        -- domain.insert(domain.end(), ptr + 1, ptr + *ptr + 1)
        let lab ← rdRange "dns_search_list_type::from_option domain.insert(domain.end(), ptr + 1, ptr + *ptr + 1)" d (ptr + 1) (ptr + l.toNat + 1)
        labelsLoop d endp fuel (acc ++ lab) (ptr + (l.toNat + 1))        -- ptr += *ptr + 1

/-- the outer `while (ptr < end && *ptr)` loop; `none` = `throw option_not_found()` -/
def domainsLoop (d : Bytes) (endp : Nat) : Nat → Nat → Out (Option (List Bytes))
  | 0, _ => .fault "dns_search_list_type::from_option: domain loop out of fuel"
  | fuel + 1, ptr =>
    if !(ptr < endp) then .ok (some []) else do
      let l ← rd "dns_search_list_type::from_option *ptr" d ptr
      if l.toNat == 0 then .ok (some []) else do
        let (dom, ptr) ← labelsLoop d endp (endp - ptr + 1) [] ptr
        if ptr < endp then do
          let x ← rd "dns_search_list_type::from_option *ptr" d ptr    -- if (ptr < end && *ptr != 0) throw option_not_found();
          if x.toNat != 0 then .ok none else do
            let rest ← domainsLoop d endp fuel (ptr + 1)                 -- output.domains.push_back(domain); ptr++;
            pure (rest.map (fun ds => dom :: ds))
        else .ok (some [dom])                                            -- ptr == end: pushed, `ptr++`, and `ptr < end` ends the loop

/-- `dns_search_list_type::from_option` -/
def dnsSearch (d : Bytes) : Out Dec :=
  if d.length < 2 + 4 then pure .malformed else do                       -- opt.data_size() < 2 + sizeof(uint32_t)
    let ptr := 0
    let endp := ptr + d.length
    let lt ← rdN "dns_search_list_type::from_option memcpy(&output.lifetime, ptr + 2, sizeof(uint32_t))" d (ptr + 2) 4
    let ptr := ptr + (2 + 4)                                             -- ptr += 2 + sizeof(uint32_t)
    let r ← domainsLoop d endp (d.length + 1) ptr
    match r with
    | none => pure .notFound
    | some ds => pure (.val s!"{Cursor.beNat lt}.{joinWithSep "," (ds.map hexStr)}")

/-! ### raw = total -/

theorem byteAt_eq (d : Bytes) (i : Nat) : byteAt d i = (d.getD i 0).toNat := rfl

theorem naack_eq (d : Bytes) : naack d = .ok (decNaack d) := by
  unfold naack decNaack
  by_cases h : d.length = 6
  · simp only [h, bne_self_eq_false, Bool.false_eq_true, if_false, bind, Out.bind,
      Raw.rd_lt _ d 0 (by omega), Raw.rd_lt _ d 1 (by omega), byteAt_eq, pure]
  · simp [h, pure]

theorem lladdr_eq (d : Bytes) : lladdr d = .ok (decLladdr d) := by
  unfold lladdr decLladdr
  by_cases h : d.length < 2
  · simp [h, pure]
  · simp only [h, if_false, bind, Out.bind, Nat.zero_add, Raw.rdInc_lt _ d 0 (by omega), Raw.rdRange_end _ d (0 + 1) (by omega),
      byteAt_eq, pure]

theorem codeLen_eq (d : Bytes) : codeLen d = .ok (decCodeLen d) := by
  unfold codeLen decCodeLen byteAt
  by_cases h : d.length < 2
  · simp [h, pure]
  · simp only [h, if_false, bind, Out.bind, Nat.zero_add, Raw.rdInc_lt _ d 0 (by omega), Raw.rd_lt _ d (0 + 1) (by omega)]
    have e : d.length - (0 + 1) - 1 = d.length - 2 := by omega
    rw [e]
    by_cases h2 : d.length - 2 < (d.getD 1 0).toNat
    · rw [if_pos h2, if_pos h2]; rfl
    · rw [if_neg h2, if_neg h2]
      rw [Raw.rdRange_le _ d (1 + 1) (1 + 1 + (d.getD 1 0).toNat) (by omega) (by omega)]
      simp only [pure]
      have e2 : 1 + 1 + (d.getD 1 0).toNat - (1 + 1) = (d.getD 1 0).toNat := by omega
      rw [e2]

/-- the stream of a decoder after `skip(1)` and one `read<uint8_t>()` on an option of at least two bytes -/
theorem skip1_readU8 (d : Bytes) (h : 2 ≤ d.length) :
    (Cursor.ofBytes d).skip 1 = .ok ⟨d.drop 1, d.length - 1⟩ ∧
    (⟨d.drop 1, d.length - 1⟩ : Cursor).readU8 = .ok ((d.getD 1 0).toNat, ⟨d.drop 2, d.length - 2⟩) := by
  constructor
  · unfold Cursor.skip Cursor.ofBytes
    have : ¬ 1 > d.length := by omega
    simp [this]
  · unfold Cursor.readU8 Cursor.readBE Cursor.read Cursor.canRead
    have h1 : 1 ≤ d.length - 1 := by omega
    have h2 : ¬ (d.drop 1).length < 1 := by simp; omega
    simp only [h1, decide_true, Bool.not_true, Bool.false_eq_true, if_false, h2, bind, Out.bind, pure]
    rw [Raw.drop_cons d 1 (by omega)]
    simp [Cursor.beNat]
    omega

theorem handoverReq_eq (d : Bytes) : handoverReq d = .ok (decHandoverReq d) := by
  unfold handoverReq decHandoverReq byteAt
  by_cases h : d.length < 2 + 4
  · simp [h, pure]
  · obtain ⟨e1, e2⟩ := skip1_readU8 d (by omega)
    simp only [h, if_false, e1, e2, bind, Out.bind, Raw.rd_lt _ d 0 (by omega), Cursor.canRead]
    by_cases h2 : d.length - 2 < (d.getD 0 0).toNat
    · have : ¬ (d.getD 0 0).toNat ≤ d.length - 2 := by omega
      simp only [this, decide_false, Bool.not_false, if_true, if_pos h2, pure]
    · have : (d.getD 0 0).toNat ≤ d.length - 2 := by omega
      simp only [this, decide_true, Bool.not_true, Bool.false_eq_true, if_false, if_neg h2, Nat.zero_add]
      rw [Raw.rdRange_le _ (d.drop 2) 0 (d.length - 2 - (d.getD 0 0).toNat) (by omega) (by simp)]
      simp [pure]

theorem readBE_at (d : Bytes) (k n : Nat) (h : k + n ≤ d.length) :
    (⟨d.drop k, d.length - k⟩ : Cursor).readBE n = .ok (Cursor.beNat ((d.drop k).take n), ⟨d.drop (k + n), d.length - (k + n)⟩) := by
  unfold Cursor.readBE Cursor.read Cursor.canRead
  have h1 : n ≤ d.length - k := by omega
  have h2 : ¬ (d.drop k).length < n := by simp; omega
  simp only [h1, decide_true, Bool.not_true, Bool.false_eq_true, if_false, h2, bind, Out.bind, pure, List.drop_drop]
  congr 3
  omega

theorem handoverReply_eq (d : Bytes) : handoverReply d = .ok (decHandoverReply d) := by
  unfold handoverReply decHandoverReply byteAt be16At slice
  by_cases h : d.length < 2 + 4
  · simp [h, pure]
  · obtain ⟨e1, e2⟩ := skip1_readU8 d (by omega)
    have e3 := readBE_at d 2 2 (by omega)
    simp only [h, if_false, e1, e2, e3, bind, Out.bind, Raw.rd_lt _ d 0 (by omega), Cursor.canRead]
    by_cases h2 : d.length - 4 < (d.getD 0 0).toNat
    · have : ¬ (d.getD 0 0).toNat ≤ d.length - (2 + 2) := by omega
      simp only [this, decide_false, Bool.not_false, if_true, if_pos h2, pure]
    · have : (d.getD 0 0).toNat ≤ d.length - (2 + 2) := by omega
      simp only [this, decide_true, Bool.not_true, Bool.false_eq_true, if_false, if_neg h2, Nat.zero_add]
      rw [Raw.rdRange_le _ (d.drop (2 + 2)) 0 (d.length - (2 + 2) - (d.getD 0 0).toNat) (by omega) (by simp)]
      simp [pure]

theorem suffix_drop (d r : Bytes) (j : Nat) (h : r = d.drop j) : d.drop (d.length - r.length) = r := by
  subst h
  by_cases hj : j ≤ d.length
  · have : d.length - (d.drop j).length = j := by simp; omega
    rw [this]
  · rw [List.drop_eq_nil_of_le (by omega : d.length ≤ j)]
    simp

theorem dnsLabels_suffix : ∀ (f : Nat) (acc b : Bytes), ∃ k, (dnsLabels f acc b).2 = b.drop k := by
  intro f
  induction f with
  | zero => intro acc b; exact ⟨0, by simp [dnsLabels]⟩
  | succ f ih =>
    intro acc b
    match b with
    | [] => exact ⟨0, by simp [dnsLabels]⟩
    | l :: r =>
      simp only [dnsLabels]
      split
      · obtain ⟨k, hk⟩ := ih ((if acc.isEmpty then acc else acc ++ [46]) ++ r.take l.toNat) (r.drop l.toNat)
        exact ⟨l.toNat + k + 1, by rw [hk, List.drop_succ_cons, List.drop_drop]⟩
      · exact ⟨0, by simp⟩

theorem dnsLabels_nil (f : Nat) (acc : Bytes) : dnsLabels f acc [] = (acc, []) := by
  cases f <;> rfl

theorem labelsLoop_eq (d : Bytes) : ∀ (fR fT : Nat) (acc : Bytes) (p : Nat), p ≤ d.length → d.length - p < fR → d.length - p ≤ fT →
    labelsLoop d d.length fR acc p =
      .ok ((dnsLabels fT acc (d.drop p)).1, d.length - (dnsLabels fT acc (d.drop p)).2.length) := by
  intro fR
  induction fR with
  | zero => intro fT acc p _ h; omega
  | succ f ih =>
    intro fT acc p hp hR hT
    unfold labelsLoop
    by_cases h0 : p < d.length
    · have hc : (!decide (p < d.length)) = false := by simp [h0]
      simp only [hc, Bool.false_eq_true, if_false, bind, Out.bind, Raw.rd_lt _ d p h0]
      rw [Raw.drop_cons d p h0]
      obtain ⟨g, rfl⟩ : ∃ g, fT = g + 1 := ⟨fT - 1, by omega⟩
      simp only [dnsLabels, List.length_cons, List.length_drop]
      have elen : d.length - (p + 1) + 1 = d.length - p := by omega
      rw [elen]
      by_cases hl : ((d.getD p 0).toNat != 0 && decide ((d.getD p 0).toNat < d.length - p)) = true
      · simp only [hl, Bool.not_true, Bool.false_eq_true, if_false, if_true]
        have hlt : (d.getD p 0).toNat < d.length - p := by simp at hl; exact hl.2
        rw [Raw.rdRange_le _ d (p + 1) (p + (d.getD p 0).toNat + 1) (by omega) (by omega)]
        have e1 : p + (d.getD p 0).toNat + 1 - (p + 1) = (d.getD p 0).toNat := by omega
        dsimp only
        rw [e1, ih g _ (p + ((d.getD p 0).toNat + 1)) (by omega) (by omega) (by omega), List.drop_drop]
        have e2 : p + 1 + (d.getD p 0).toNat = p + ((d.getD p 0).toNat + 1) := by omega
        rw [e2]
      · have hl' : ((d.getD p 0).toNat != 0 && decide ((d.getD p 0).toNat < d.length - p)) = false :=
          Bool.eq_false_iff.2 hl
        simp only [hl', Bool.not_false, if_true, Bool.false_eq_true, if_false, List.length_cons, List.length_drop]
        congr 2
        omega
    · have hc : (!decide (p < d.length)) = true := by simp [h0]
      simp only [hc, if_true]
      rw [Raw.drop_nil d p (by omega), dnsLabels_nil]
      simp
      omega

theorem dnsDomains_nil (f : Nat) : dnsDomains f [] = some [] := by
  cases f <;> rfl

theorem getD_of_drop (d : Bytes) (p : Nat) (x : UInt8) (t : Bytes) (h : d.drop p = x :: t) :
    p < d.length ∧ d.getD p 0 = x ∧ d.drop (p + 1) = t := by
  have hp : p < d.length := by
    by_cases hp : p < d.length
    · exact hp
    · rw [Raw.drop_nil d p (by omega)] at h; cases h
  rw [Raw.drop_cons d p hp] at h
  injection h with h1 h2
  exact ⟨hp, h1, h2⟩

theorem domainsLoop_eq (d : Bytes) : ∀ (fR fT p : Nat), p ≤ d.length → d.length - p < fR → d.length - p ≤ fT →
    domainsLoop d d.length fR p = .ok (dnsDomains fT (d.drop p)) := by
  intro fR
  induction fR with
  | zero => intro fT p _ h; omega
  | succ f ih =>
    intro fT p hp hR hT
    unfold domainsLoop
    by_cases h0 : p < d.length
    · have hc : (!decide (p < d.length)) = false := by simp [h0]
      simp only [hc, Bool.false_eq_true, if_false, bind, Out.bind, Raw.rd_lt _ d p h0]
      obtain ⟨g, rfl⟩ : ∃ g, fT = g + 1 := ⟨fT - 1, by omega⟩
      have hb : (d.drop p).length = d.length - p := by simp
      -- the labels of this domain: raw loop = total loop
      have hlab := labelsLoop_eq d (d.length - p + 1) (d.length - p) [] p hp (by omega) (by omega)
      obtain ⟨k, hk⟩ := dnsLabels_suffix (d.length - p) [] (d.drop p)
      have hsuf := suffix_drop d (dnsLabels (d.length - p) [] (d.drop p)).2 (p + k) (by rw [hk, List.drop_drop])
      have hle : (dnsLabels (d.length - p) [] (d.drop p)).2.length ≤ d.length - p := by
        rw [hk]; simp; omega
      rw [hlab]
      generalize hdl : dnsLabels (d.length - p) [] (d.drop p) = dl at hsuf hle
      obtain ⟨dom, rest⟩ := dl
      simp only at hsuf hle ⊢
      -- the total decoder on `l :: r`
      conv => rhs; rw [Raw.drop_cons d p h0]; simp only [dnsDomains, List.length_cons, List.length_drop]
      have elen : d.length - (p + 1) + 1 = d.length - p := by omega
      rw [elen, ← Raw.drop_cons d p h0, hdl]
      by_cases hz : ((d.getD p 0).toNat == 0) = true
      · simp only [hz, if_true]
      · have hz' : ((d.getD p 0).toNat == 0) = false := Bool.eq_false_iff.2 hz
        simp only [hz', Bool.false_eq_true, if_false]
        match rest, hsuf, hle with
        | [], _, _ =>
          have : ¬ d.length - 0 < d.length := by omega
          simp
        | x :: rest', hsuf, hle =>
          simp only [List.length_cons] at hsuf hle ⊢
          obtain ⟨hq, hx, hrest⟩ := getD_of_drop d _ x rest' hsuf
          simp only [hq, if_true, Raw.rd_lt _ d _ hq, hx]
          by_cases hx0 : (x.toNat != 0) = true
          · simp only [hx0, if_true]
          · have hx0' : (x.toNat != 0) = false := Bool.eq_false_iff.2 hx0
            simp only [hx0', Bool.false_eq_true, if_false]
            rw [ih g (d.length - (rest'.length + 1) + 1) (by omega) (by omega) (by omega), hrest]
            cases dnsDomains g rest' <;> rfl
    · have hc : (!decide (p < d.length)) = true := by simp [h0]
      simp only [hc, if_true]
      rw [Raw.drop_nil d p (by omega), dnsDomains_nil]

theorem dnsSearch_eq (d : Bytes) : dnsSearch d = .ok (decDnsSearch d) := by
  unfold dnsSearch decDnsSearch be32At slice
  by_cases h : d.length < 2 + 4
  · simp [h, pure]
  · simp only [h, if_false, bind, Out.bind, Nat.zero_add, Raw.rdN_le _ d 2 4 (by omega)]
    rw [domainsLoop_eq d (d.length + 1) d.length (2 + 4) (by omega) (by omega) (by omega)]
    cases dnsDomains d.length (List.drop (2 + 4) d) <;> rfl

/-! ### decoders that read through a stream and peek once through `stream.pointer()` -/

/-- `prefix_info_type::from_option`: stream reads, and one raw peek `*stream.pointer()` at the octet the next read consumes -/
def prefixInfo (d : Bytes) : Out Dec :=
  if d.length != 30 then pure .malformed else
    let c := Cursor.ofBytes d
    match (do
      let (plen, c) ← c.readU8                                           -- output.prefix_len = stream.read<uint8_t>()
      let p ← c.peek "prefix_info_type::from_option *stream.pointer()" 0 1   -- output.L = (*stream.pointer() >> 7) & 0x1
      let (ab, c) ← c.readU8                                             -- output.A = (stream.read<uint8_t>() >> 6) & 0x1
      let (valid, c) ← c.readBE 4
      let (pref, c) ← c.readBE 4
      let (res2, c) ← c.readBE 4
      let (pfx, _) ← c.read 16                                           -- stream.read<ipaddress_type>()
      pure s!"{plen}.{ab / 64 % 2}.{byteAt p 0 / 128 % 2}.{valid}.{pref}.{res2}.{hexStr pfx}" : Out String) with
    | .ok s => pure (.val s)
    | .throw _ => pure .malformedPkt
    | .fault s => .fault s

/-- `map_type::from_option` -/
def mapOpt (d : Bytes) : Out Dec :=
  if d.length != 2 + 4 + 16 then pure .malformed else
    let c := Cursor.ofBytes d
    match (do
      let p ← c.peek "map_type::from_option *stream.pointer()" 0 1       -- output.dist = (*stream.pointer() >> 4) & 0x0f
      let (b0, c) ← c.readU8                                             -- output.pref = stream.read<uint8_t>() & 0x0f
      let (b1, c) ← c.readU8                                             -- output.r = (stream.read<uint8_t>() >> 7) & 0x01
      let (valid, c) ← c.readBE 4
      let (addr, _) ← c.read 16
      pure s!"{byteAt p 0 / 16 % 16}.{b0 % 16}.{b1 / 128 % 2}.{valid}.{hexStr addr}" : Out String) with
    | .ok s => pure (.val s)
    | .throw _ => pure .malformedPkt
    | .fault s => .fault s

theorem read_at (d : Bytes) (k n : Nat) (h : k + n ≤ d.length) :
    (⟨d.drop k, d.length - k⟩ : Cursor).read n = .ok ((d.drop k).take n, ⟨d.drop (k + n), d.length - (k + n)⟩) := by
  unfold Cursor.read Cursor.canRead
  have h1 : n ≤ d.length - k := by omega
  have h2 : ¬ (d.drop k).length < n := by simp; omega
  simp only [h1, decide_true, Bool.not_true, Bool.false_eq_true, if_false, h2, List.drop_drop]
  congr 3
  omega

theorem readU8_at (d : Bytes) (k : Nat) (h : k + 1 ≤ d.length) :
    (⟨d.drop k, d.length - k⟩ : Cursor).readU8 = .ok (byteAt d k, ⟨d.drop (k + 1), d.length - (k + 1)⟩) := by
  unfold Cursor.readU8
  rw [readBE_at d k 1 h, Raw.drop_cons d k (by omega)]
  simp [Cursor.beNat, byteAt]

theorem peek1_at (s : String) (d : Bytes) (k : Nat) (h : k + 1 ≤ d.length) :
    (⟨d.drop k, d.length - k⟩ : Cursor).peek s 0 1 = .ok [d.getD k 0] := by
  unfold Cursor.peek
  rw [Raw.rdN_le _ _ 0 1 (by simp; omega), List.drop_zero, Raw.drop_cons d k (by omega)]
  rfl

theorem ofBytes_at (d : Bytes) : Cursor.ofBytes d = ⟨d.drop 0, d.length - 0⟩ := by simp [Cursor.ofBytes]

theorem prefixInfo_eq (d : Bytes) : prefixInfo d = .ok (decPrefixInfo d) := by
  unfold prefixInfo decPrefixInfo be32At slice
  by_cases h : d.length = 30
  · have hne : (d.length != 30) = false := by simp [h]
    simp only [hne, Bool.false_eq_true, if_false, ofBytes_at, bind, Out.bind,
      readU8_at d 0 (by omega), peek1_at _ d (0 + 1) (by omega), readU8_at d (0 + 1) (by omega),
      readBE_at d (0 + 1 + 1) 4 (by omega), readBE_at d (0 + 1 + 1 + 4) 4 (by omega), readBE_at d (0 + 1 + 1 + 4 + 4) 4 (by omega),
      read_at d (0 + 1 + 1 + 4 + 4 + 4) 16 (by omega), pure]
    have e : List.take 16 (List.drop (0 + 1 + 1 + 4 + 4 + 4) d) = List.drop 14 d := by
      apply List.take_of_length_le; simp; omega
    simp [e, byteAt]
  · have hne : (d.length != 30) = true := by simp [h]
    simp [hne, pure]

theorem mapOpt_eq (d : Bytes) : mapOpt d = .ok (decMap d) := by
  unfold mapOpt decMap be32At slice
  by_cases h : d.length = 2 + 4 + 16
  · have hne : (d.length != 2 + 4 + 16) = false := by simp [h]
    simp only [hne, Bool.false_eq_true, if_false, ofBytes_at, bind, Out.bind,
      peek1_at _ d 0 (by omega), readU8_at d 0 (by omega), readU8_at d (0 + 1) (by omega),
      readBE_at d (0 + 1 + 1) 4 (by omega), read_at d (0 + 1 + 1 + 4) 16 (by omega), pure]
    have e : List.take 16 (List.drop (0 + 1 + 1 + 4) d) = List.drop 6 d := by
      apply List.take_of_length_le; simp; omega
    simp [e, byteAt]
  · have hne : (d.length != 2 + 4 + 16) = true := by simp [h]
    simp [hne, pure]

end Tins.Wire.Raw.Icmp6
