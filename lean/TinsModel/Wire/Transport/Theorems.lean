import TinsModel.Wire.Transport.ThUdp
import TinsModel.Wire.Transport.ThTcpParse
import TinsModel.Wire.Transport.ThTcpWrite
import TinsModel.Wire.Transport.ThTcpReparse
import TinsModel.Wire.Transport.ThTcpApi
import TinsModel.Wire.Transport.ThFamily
/-
  Theorems of the Transport family (UDP, TCP with options) for the four wire properties; see the file headers:
    Lemmas        helper lemmas (stream closed forms, slices, codec bounds)
    ThUdp         UDP: parse_safe / consumes / inv, writesOnly, reparse, setters
    ThTcpParse    TCP C01: option loop safety (induction over fuel), parse_ok (invariant, canonical options, ≤ 40 bytes)
    ThTcpWrite    TCP C02: size function = writer (induction over the option list), closed form of write_serialization,
                  WritesOnly; KF-C02-WTcp-1 (statement, refutation, partial)
    ThTcpReparse  TCP C03: header decode, option-list round trip, padding read back as END, tcp_reparse
    ThTcpApi      TCP C04: apply_inv, look-up laws, typed codecs, last-write map, flag accessors
    ThFamily      family-level theorems in the shape of L2/ThFamily.lean
-/
