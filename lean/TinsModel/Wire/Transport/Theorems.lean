import TinsModel.Wire.Transport.Family
import TinsModel.Basic.CursorLemmas
import TinsModel.Wire.ChainLemmas
import TinsModel.Wire.IfaceLemmas
/-
  Per-layer theorems of the Transport family, for the four wire properties:
    C01  parse_safe      — the parsing constructor never faults and throws only malformed_packet
    C02  writesOnly      — write_serialization succeeds on a region ≥ header+trailer, keeps its length and
                           leaves the inner region untouched (`Wire.WritesOnly`)
    C03  reparse         — parsing what was written gives back the non-derived fields
-/
namespace Tins.Wire.Transport
open Tins Tins.Wire

/-- outcome classes of a parsing constructor -/
def ParseSafe {α} (r : Out α) : Prop := (∃ a, r = .ok a) ∨ r = .throw .malformedPacket

theorem readBE_safe (c : Cursor) (n : Nat) (h : c.Inv) :
    (∃ v c', c.readBE n = .ok (v, c') ∧ c'.Inv ∧ c'.size = c.size - n ∧ n ≤ c.size ∧ c'.mem = c.mem.drop n
        ∧ v = Cursor.beNat (c.mem.take n))
    ∨ (c.readBE n = .throw .malformedPacket ∧ c.size < n) := by
  rcases Cursor.read_spec c n h with ⟨bs, c', he, hi, _, hs, hn, hb, hm⟩ | ⟨he, hlt⟩
  · left; exact ⟨Cursor.beNat bs, c', by simp [Cursor.readBE, he, bind, Out.bind], hi, hs, hn, hm, by rw [hb]⟩
  · right; exact ⟨by simp [Cursor.readBE, he, bind, Out.bind], hlt⟩

theorem rest_safe (site : String) (c : Cursor) (h : c.Inv) : ∃ bs, Cursor.rest site c = .ok bs ∧ bs = c.mem.take c.size := by
  unfold Cursor.rest rdN
  have h' : c.size ≤ c.mem.length := h
  simp [h']

/-- **C01 / UDP**: for every byte string the parsing constructor returns a packet or throws `malformed_packet`;
    it never reads outside the buffer. -/
theorem udp_parse_safe (b : Bytes) : ParseSafe (Udp.parse b) := by
  unfold Udp.parse
  have h0 := Cursor.ofBytes_inv b
  rcases readBE_safe _ 2 h0 with ⟨v1, c1, e1, i1, _⟩ | ⟨e1, _⟩
  · rcases readBE_safe c1 2 i1 with ⟨v2, c2, e2, i2, _⟩ | ⟨e2, _⟩
    · rcases readBE_safe c2 2 i2 with ⟨v3, c3, e3, i3, _⟩ | ⟨e3, _⟩
      · rcases readBE_safe c3 2 i3 with ⟨v4, c4, e4, i4, _⟩ | ⟨e4, _⟩
        · rcases rest_safe "UDP::UDP RawPDU" c4 i4 with ⟨bs, er, _⟩
          left
          simp only [e1, e2, e3, e4, bind, Out.bind]
          split
          · simp only [er]; exact ⟨_, rfl⟩
          · exact ⟨_, rfl⟩
        · right; simp only [e1, e2, e3, e4, bind, Out.bind]
      · right; simp only [e1, e2, e3, bind, Out.bind]
    · right; simp only [e1, e2, bind, Out.bind]
  · right; simp only [e1, bind, Out.bind]


/-- the `LayerSem` of a UDP object in context `cx` (what `Registry.sems` builds) -/
def udpSem (cx : Ctx) (u : Udp) : LayerSem := { name := "UDP", hdr := 8, trl := 0, write := u.write cx }

theorem udp_headerBytes_length (u : Udp) : u.headerBytes.length = 8 := by
  simp [Udp.headerBytes]

/-- **C02 / UDP**: in every context and on every region of at least 8 bytes `write_serialization` succeeds,
    keeps the region's length and touches only the 8 header bytes. -/
theorem udp_writesOnly (cx : Ctx) (u : Udp) : WritesOnly (udpSem cx u) := by
  apply writesOnly_of_header_only _ rfl
  intro region hr
  simp only [udpSem] at hr
  have hlen : ({ u with check := 0, len := (8 + cx.innerSize) % 65536 } : Udp).headerBytes.length = 8 :=
    udp_headerBytes_length _
  have hw := writeAtStart_eq region _ (by rw [hlen]; exact hr)
  simp only [udpSem, Udp.write, hw, bind, Out.bind]
  generalize hr1 : ({ u with check := 0, len := (8 + cx.innerSize) % 65536 } : Udp).headerBytes ++
      List.drop ({ u with check := 0, len := (8 + cx.innerSize) % 65536 } : Udp).headerBytes.length region = r1
  have hr1len : r1.length = region.length := by rw [← hr1]; exact length_prefix_replaced _ _ (by rw [hlen]; exact hr)
  have hr1drop : r1.drop 8 = region.drop 8 := by
    rw [← hr1]; exact drop_prefix_replaced _ _ 8 (by rw [hlen]; exact Nat.le_refl 8)
  split
  · exact ⟨r1, rfl, hr1len, hr1drop⟩
  · rename_i ps _
    have hp := poke_eq "UDP::write_serialization check" r1 (le16 (if not16 (fold16 ((ps + sumRange r1) % 4294967296)) = 0 then 65535
        else not16 (fold16 ((ps + sumRange r1) % 4294967296)))) 6 (by simp [le16]; omega)
    refine ⟨_, hp, ?_, ?_⟩
    · rw [length_patched _ _ _ (by simp [le16]; omega)]; exact hr1len
    · rw [drop_patched _ _ 6 8 (by simp [le16]) (by simp [le16]; omega)]; exact hr1drop

end Tins.Wire.Transport
