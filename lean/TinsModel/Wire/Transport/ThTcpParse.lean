import TinsModel.Wire.Transport.Lemmas
/-
  TCP, property C01: the parsing constructor with its option loop is memory-safe for every byte string (induction over
  the loop's fuel with the stream invariant and the pointer/offset relation `pos + stream.size() = total_sz`,
  `header_end ≤ total_sz`), never runs out of fuel, throws only `malformed_packet`, never builds a nested class, and
  establishes the object invariant: every parsed option is canonical and the option list fits the 40-byte option area.
-/
namespace Tins.Wire.Transport
open Tins Tins.Wire

namespace Tcp

/-- what `PDUOption`'s constructors guarantee for one option: 8-bit kind, 16-bit advertised and stored lengths -/
structure OptOK (o : TcpOpt) : Prop where
  code : o.code < 256
  len : o.lenField < 65536
  size : o.data.length < 65536

/-- an option the wire can express (the representability predicate of C03/C04): a kind other than END, the advertised
    length is the real one, NOP carries nothing, at most 253 data bytes -/
structure Canon (o : TcpOpt) : Prop where
  code : 1 ≤ o.code ∧ o.code < 256
  len : o.lenField = o.data.length
  nop : o.code = 1 → o.data = []
  size : o.data.length ≤ 253

theorem Canon.ok {o : TcpOpt} (h : Canon o) : OptOK o :=
  ⟨h.code.2, by rw [h.len]; have := h.size; omega, by have := h.size; omega⟩

/-- invariant of every TCP object reachable by parsing or through the API -/
structure Inv (t : Tcp) : Prop where
  sport : t.sport < 65536
  dport : t.dport < 65536
  seq : t.seq < 4294967296
  ackSeq : t.ackSeq < 4294967296
  doff : t.doff < 16
  res1 : t.res1 < 16
  flags8 : t.flags8 < 256
  window : t.window < 65536
  check : t.check < 65536
  urgPtr : t.urgPtr < 65536
  opts : ∀ o ∈ t.opts, OptOK o

theorem optsSum_append (a b : List TcpOpt) : optsSum (a ++ b) = optsSum a + optsSum b := by
  induction a with
  | nil => simp [optsSum]
  | cons x xs ih => simp only [List.cons_append, optsSum, ih]; omega

end Tcp

theorem skip_safe (c : Cursor) (n : Nat) (h : c.Inv) :
    (∃ c', c.skip n = .ok c' ∧ c'.Inv ∧ c'.size = c.size - n ∧ n ≤ c.size ∧ c'.mem = c.mem.drop n)
    ∨ (c.skip n = .throw .malformedPacket ∧ c.size < n) := by
  unfold Cursor.skip
  by_cases hn : n > c.size
  · right; simp [hn]
  · left
    refine ⟨⟨c.mem.drop n, c.size - n⟩, by simp [hn], ?_, rfl, by omega, rfl⟩
    simp only [Cursor.Inv, List.length_drop] at *; omega

theorem peek_safe (site : String) (c : Cursor) (n : Nat) (h : c.Inv) (hg : n ≤ c.size) :
    ∃ bs, c.peek site 0 n = .ok bs ∧ bs = c.mem.take n ∧ bs.length = n := by
  unfold Cursor.peek rdN
  have : n ≤ c.mem.length := by simp only [Cursor.Inv] at h; omega
  refine ⟨c.mem.take n, by simp [this], rfl, ?_⟩
  simp only [List.length_take]; omega

/-- **the option loop is safe for every stream state**: with the stream invariant, the stream positioned `pos` bytes
    into a buffer of `total` bytes, `header_end ≤ total` (the constructor's data-offset check) and more fuel than header
    bytes left, the loop returns with the stream exactly at `header_end` and only canonical options, or throws
    `malformed_packet`.  It never faults: the raw copy out of `data_start` is covered by `data_start + len ≤ header_end`. -/
theorem tcp_parseOpts_spec (fuel : Nat) (c : Cursor) (pos hend total : Nat) (acc : List TcpOpt)
    (hc : c.Inv) (hp : pos + c.size = total) (hh : hend ≤ total) (hle : pos ≤ hend) (hf : hend - pos < fuel)
    (hacc : ∀ o ∈ acc, Tcp.Canon o) :
    (∃ c' acc', Tcp.parseOpts fuel c pos hend acc = .ok (c', acc') ∧ c'.Inv ∧ c'.size = total - hend ∧
        c'.mem = c.mem.drop (hend - pos) ∧ (∀ o ∈ acc', Tcp.Canon o) ∧
        Tcp.optsSum acc' ≤ Tcp.optsSum acc + (hend - pos))
    ∨ Tcp.parseOpts fuel c pos hend acc = .throw .malformedPacket := by
  induction fuel generalizing c pos acc with
  | zero => omega
  | succ fuel ih =>
    unfold Tcp.parseOpts
    by_cases hlt : pos < hend
    · simp only [hlt, decide_true, Bool.not_true, Bool.false_eq_true, if_false]
      rcases readU8_safe c hc with ⟨t, c1, e1, i1, s1, n1, m1, v1⟩ | ⟨e1, _⟩
      · simp only [e1, bind, Out.bind]
        have ht256 : t < 256 := by rw [v1]; exact beNat_take_lt _ 1
        by_cases h0 : (t == Tcp.EOL) = true
        · -- END: skip to header_end
          have hng : ¬ pos + 1 > hend := by omega
          simp only [h0, if_true, hng, if_false]
          rcases skip_safe c1 (hend - (pos + 1)) i1 with ⟨c2, e2, i2, s2, _, m2⟩ | ⟨e2, _⟩
          · left
            refine ⟨c2, acc, by simp only [e2, pure], i2, by omega, ?_, hacc, by omega⟩
            rw [m2, m1, List.drop_drop]; congr 1; omega
          · right; simp only [e2]
        · simp only [h0, Bool.false_eq_true, if_false]
          by_cases h1 : (t == Tcp.NOP) = true
          · -- NOP
            simp only [h1, if_true]
            have ht1 : t = 1 := by simpa [Tcp.NOP] using h1
            have hcan : ∀ o ∈ acc ++ [(⟨t, 0, []⟩ : TcpOpt)], Tcp.Canon o := by
              intro o ho
              simp only [List.mem_append, List.mem_singleton] at ho
              rcases ho with ho | ho
              · exact hacc o ho
              · subst ho; exact ⟨by simp only; omega, rfl, fun _ => rfl, by simp⟩
            rcases ih c1 (pos + 1) (acc ++ [⟨t, 0, []⟩]) i1 (by omega) (by omega) (by omega) hcan with
              ⟨c', acc', e, i', s', m', hc', hs'⟩ | e
            · left
              refine ⟨c', acc', e, i', s', ?_, hc', ?_⟩
              · rw [m', m1, List.drop_drop]; congr 1; omega
              · rw [Tcp.optsSum_append] at hs'
                have : Tcp.optsSum [(⟨t, 0, []⟩ : TcpOpt)] = 1 := by simp [Tcp.optsSum, Tcp.optSize, ht1]
                omega
            · right; exact e
          · -- an option with a length octet
            simp only [h1, Bool.false_eq_true, if_false]
            have ht0 : t ≠ 0 := by simpa [Tcp.EOL] using h0
            have ht1 : t ≠ 1 := by simpa [Tcp.NOP] using h1
            rcases readU8_safe c1 i1 with ⟨len, c2, e2, i2, s2, n2, m2, v2⟩ | ⟨e2, _⟩
            · simp only [e2]
              have hl256 : len < 256 := by rw [v2]; exact beNat_take_lt _ 1
              by_cases hl2 : len < 2
              · right; simp only [hl2, if_true]
              · simp only [hl2, if_false]
                by_cases hov : pos + 1 + 1 + (len - 2) > hend
                · right; simp only [hov, if_true]
                · simp only [hov, if_false]
                  have hfit : len - 2 ≤ c2.size := by omega
                  rcases peek_safe "TCP::TCP add_option(option_type, data_start, data_start + len)" c2 (len - 2) i2 hfit with
                    ⟨d, ed, hd, hdl⟩
                  rcases skip_safe c2 (len - 2) i2 with ⟨c3, e3, i3, s3, _, m3⟩ | ⟨e3, hbad⟩
                  · simp only [ed, e3]
                    have hcan : ∀ o ∈ acc ++ [(⟨t, len - 2, d⟩ : TcpOpt)], Tcp.Canon o := by
                      intro o ho
                      simp only [List.mem_append, List.mem_singleton] at ho
                      rcases ho with ho | ho
                      · exact hacc o ho
                      · subst ho
                        exact ⟨by simp only; omega, by simp only [hdl], fun h => absurd h ht1, by simp only [hdl]; omega⟩
                    rcases ih c3 (pos + 1 + 1 + (len - 2)) (acc ++ [⟨t, len - 2, d⟩]) i3 (by omega) (by omega) (by omega) hcan with
                      ⟨c', acc', e, i', s', m', hc', hs'⟩ | e
                    · left
                      refine ⟨c', acc', e, i', s', ?_, hc', ?_⟩
                      · rw [m', m3, m2, m1]; simp only [List.drop_drop]; congr 1; omega
                      · rw [Tcp.optsSum_append] at hs'
                        have : Tcp.optsSum [(⟨t, len - 2, d⟩ : TcpOpt)] = 2 + (len - 2) := by
                          have hgt : t > 1 := by omega
                          simp [Tcp.optsSum, Tcp.optSize, hgt, hdl]; omega
                        omega
                    · right; exact e
                  · omega
            · right; simp only [e2]
      · right; simp only [e1, bind, Out.bind]
    · left
      simp only [hlt, decide_false, Bool.not_false, if_true]
      have : hend - pos = 0 := by omega
      exact ⟨c, acc, rfl, hc, by omega, by simp [this], hacc, by omega⟩

theorem tcp_ofHeader_inv (h : Bytes) : (Tcp.ofHeader h).Inv := by
  have h12 := byteAt_lt h 12
  refine ⟨beNat_take_lt _ 2, beNat_take_lt _ 2, beNat_take_lt _ 4, beNat_take_lt _ 4, ?_, ?_, byteAt_lt _ _,
    beNat_take_lt _ 2, beNat_take_lt _ 2, beNat_take_lt _ 2, ?_⟩
  · simp only [Tcp.ofHeader]; omega
  · simp only [Tcp.ofHeader]; omega
  · intro o ho; simp [Tcp.ofHeader] at ho

/-- what the constructor does once the option loop has returned -/
def Tcp.finish (t : Tcp) (r : Cursor × List TcpOpt) : Out (Tcp × Inner) :=
  if r.1.toBool then (Cursor.rest "TCP::TCP RawPDU" r.1 >>= fun rest => pure ({ t with opts := r.2 }, Inner.raw rest))
  else pure ({ t with opts := r.2 }, Inner.none)

/-- shape of the parsing constructor after the fixed header has been read -/
theorem tcp_parse_unfold (b : Bytes) :
    Tcp.parse b =
      if b.length < 20 then .throw .malformedPacket
      else
        let t := Tcp.ofHeader (b.take 20)
        if t.doff * 4 > b.length || t.doff * 4 < 20 then .throw .malformedPacket
        else Tcp.parseOpts (t.doff * 4 + 1) ⟨b.drop 20, b.length - 20⟩ 20 (t.doff * 4) [] >>= Tcp.finish t := by
  simp only [Tcp.parse, read_ofBytes]
  by_cases h : b.length < 20
  · simp [h, bind, Out.bind]
  · simp only [h, if_false, bind, Out.bind]
    split
    · rfl
    · rfl

/-- **C01 / TCP**: for every byte string the parsing constructor returns a packet or throws `malformed_packet`; it never
    reads outside the buffer and the option loop terminates within the fuel it is given -/
theorem tcp_parse_safe (b : Bytes) : ParseSafe (Tcp.parse b) := by
  rw [tcp_parse_unfold]
  split
  · exact .malformed
  · rename_i h20
    simp only
    split
    · exact .malformed
    · rename_i hd
      simp only [Bool.or_eq_true, decide_eq_true_eq, not_or, Nat.not_lt] at hd
      have hci : (⟨b.drop 20, b.length - 20⟩ : Cursor).Inv := by simp [Cursor.Inv]
      rcases tcp_parseOpts_spec ((Tcp.ofHeader (b.take 20)).doff * 4 + 1) ⟨b.drop 20, b.length - 20⟩ 20
          ((Tcp.ofHeader (b.take 20)).doff * 4) b.length [] hci (by simp only; omega) (by omega) (by omega) (by omega)
          (by intro o ho; cases ho) with ⟨c', acc', e, i', _⟩ | e
      · rw [e]
        simp only [bind, Out.bind, Tcp.finish]
        split
        · rcases rest_safe "TCP::TCP RawPDU" c' i' with ⟨bs, er, _⟩
          simp only [er]; exact .ok _
        · exact .ok _
      · rw [e]; exact .malformed

/-- what a successful parse establishes, in one statement -/
theorem tcp_parse_ok (b : Bytes) (t : Tcp) (i : Inner) (h : Tcp.parse b = .ok (t, i)) :
    t.Inv ∧ (∀ o ∈ t.opts, Tcp.Canon o) ∧ Tcp.optsSum t.opts ≤ 40 ∧ 20 ≤ t.doff * 4 ∧ t.doff * 4 ≤ b.length ∧
      Tcp.optsSum t.opts ≤ t.doff * 4 - 20 ∧
      (i = .none ∧ b.length = t.doff * 4 ∨ i = .raw (b.drop (t.doff * 4)) ∧ t.doff * 4 < b.length) := by
  rw [tcp_parse_unfold] at h
  split at h
  · cases h
  · rename_i h20
    simp only at h
    split at h
    · cases h
    · rename_i hd
      simp only [Bool.or_eq_true, decide_eq_true_eq, not_or, Nat.not_lt] at hd
      have hinv := tcp_ofHeader_inv (b.take 20)
      have hdoff := hinv.doff
      have hci : (⟨b.drop 20, b.length - 20⟩ : Cursor).Inv := by simp [Cursor.Inv]
      rcases tcp_parseOpts_spec ((Tcp.ofHeader (b.take 20)).doff * 4 + 1) ⟨b.drop 20, b.length - 20⟩ 20
          ((Tcp.ofHeader (b.take 20)).doff * 4) b.length [] hci (by simp only; omega) (by omega) (by omega) (by omega)
          (by intro o ho; cases ho) with ⟨c', acc', e, i', s', m', hcan, hsum⟩ | e
      · rw [e] at h
        simp only [bind, Out.bind, Tcp.finish] at h
        have hsum0 : Tcp.optsSum ([] : List TcpOpt) = 0 := rfl
        have hmem : c'.mem = b.drop ((Tcp.ofHeader (b.take 20)).doff * 4) := by
          rw [m']; simp only [List.drop_drop]; congr 1; omega
        have hI : ({ Tcp.ofHeader (b.take 20) with opts := acc' } : Tcp).Inv :=
          ⟨hinv.sport, hinv.dport, hinv.seq, hinv.ackSeq, hinv.doff, hinv.res1, hinv.flags8, hinv.window, hinv.check,
            hinv.urgPtr, fun o ho => (hcan o ho).ok⟩
        split at h
        · rename_i htb
          rcases rest_safe "TCP::TCP RawPDU" c' i' with ⟨bs, er, hbs⟩
          simp only [er, pure] at h
          injection h with h; injection h with ht hi; subst ht; subst hi
          have hpos : c'.size > 0 := by simpa [Cursor.toBool] using htb
          refine ⟨hI, hcan, by simp only; omega, hd.2, hd.1, by simp only; omega, .inr ⟨?_, by simp only; omega⟩⟩
          rw [hbs, hmem, s']
          simp only
          congr 1
          apply List.take_of_length_le
          simp only [List.length_drop]; omega
        · rename_i htb
          simp only [pure] at h
          injection h with h; injection h with ht hi; subst ht; subst hi
          have hz : c'.size = 0 := by
            simp only [Cursor.toBool, decide_eq_true_eq, Nat.not_lt, Nat.le_zero] at htb; exact htb
          exact ⟨hI, hcan, by simp only; omega, hd.2, hd.1, by simp only; omega, .inl ⟨rfl, by simp only; omega⟩⟩
      · rw [e] at h; cases h

/-- parsing establishes the invariant -/
theorem tcp_parse_inv (b : Bytes) (t : Tcp) (i : Inner) (h : Tcp.parse b = .ok (t, i)) : t.Inv :=
  (tcp_parse_ok b t i h).1

/-- every parsed option is one the wire can express, and the parsed list fits the option area: a parsed packet is
    always serializable (this is what the fix of `calculate_options_size` restored) -/
theorem tcp_parse_serializable (b : Bytes) (t : Tcp) (i : Inner) (h : Tcp.parse b = .ok (t, i)) :
    (∀ o ∈ t.opts, Tcp.Canon o) ∧ Tcp.optsSum t.opts ≤ 40 :=
  ⟨(tcp_parse_ok b t i h).2.1, (tcp_parse_ok b t i h).2.2.1⟩

/-- TCP never hands bytes to another parsing constructor (its payload is a RawPDU) -/
theorem tcp_parse_no_cls (b : Bytes) (t : Tcp) (name : String) (pb : Bytes) (fb : Bool) :
    Tcp.parse b ≠ .ok (t, .cls name pb fb) := by
  intro h
  rcases (tcp_parse_ok b t _ h).2.2.2.2.2.2 with ⟨hi, _⟩ | ⟨hi, _⟩ <;> cases hi

/-- **C01 / TCP, termination of the nested constructors** (vacuous: no nested constructor) -/
theorem tcp_parse_consumes (b : Bytes) (t : Tcp) (name : String) (pb : Bytes) (fb : Bool)
    (h : Tcp.parse b = .ok (t, .cls name pb fb)) : pb.length < b.length :=
  absurd h (tcp_parse_no_cls b t name pb fb)

/-! non-vacuity: a SYN with MSS, SACK-permitted, timestamps, NOP, window scale and two payload bytes; a length octet
    pointing beyond the header; a missing data-offset check is what would make the loop fault -/
example : ∃ t, Tcp.parse [0, 80, 0x30, 0x39, 0, 0, 0, 1, 0, 0, 0, 0, 0xa0, 0x02, 0x20, 0, 0, 0, 0, 0,
      2, 4, 5, 0xb4, 4, 2, 8, 10, 0, 0, 0, 1, 0, 0, 0, 0, 1, 3, 3, 7, 0xaa, 0xbb] = .ok (t, .raw [0xaa, 0xbb]) ∧
    t.opts = [⟨2, 2, [5, 0xb4]⟩, ⟨4, 0, []⟩, ⟨8, 8, [0, 0, 0, 1, 0, 0, 0, 0]⟩, ⟨1, 0, []⟩, ⟨3, 1, [7]⟩] ∧ t.doff = 10 :=
  ⟨_, rfl, rfl, rfl⟩
example : Tcp.parse [0, 80, 0, 80, 0, 0, 0, 1, 0, 0, 0, 0, 0x60, 0x02, 0x20, 0, 0, 0, 0, 0, 34, 5, 1, 1, 9, 9] =
    .throw .malformedPacket := rfl
example : (Tcp.parseOpts 9 ⟨[34, 6, 1, 1], 4⟩ 20 28 []).isFault = true := rfl

end Tins.Wire.Transport
