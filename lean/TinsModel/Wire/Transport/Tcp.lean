import TinsModel.Wire.Iface
import TinsModel.Wire.Checksum
/-
  `Tins::TCP` (src/tcp.cpp, include/tins/tcp.h), little-endian host.
  Header (20 bytes): sport, dport, seq, ack_seq (big-endian), byte 12 = doff(4) << 4 | res1(4), byte 13 = flags_8,
  window, check, urg_ptr (big-endian); then options `kind [length data]`, zero padding to a multiple of 4.
  Options are `PDUOption<uint8_t, TCP>` = (kind, advertised length `size_`, stored bytes).
-/
namespace Tins.Wire.Transport

def byteAt (bs : Bytes) (i : Nat) : Nat := (bs.getD i 0).toNat

/-- `PDUOption<uint8_t, TCP>`: kind, `length_field()` (`size_`, uint16_t), the stored bytes (`data_size()` of them) -/
structure TcpOpt where
  code : Nat
  lenField : Nat
  data : Bytes
deriving Repr, DecidableEq

structure Tcp where
  sport : Nat
  dport : Nat
  seq : Nat
  ackSeq : Nat
  doff : Nat          -- header_.doff (4 bits)
  res1 : Nat          -- header_.res1 (4 bits)
  flags8 : Nat        -- header_.flags_8
  window : Nat
  check : Nat
  urgPtr : Nat
  opts : List TcpOpt  -- options_
deriving Repr, DecidableEq

namespace Tcp

/-! ### option kinds (`TCP::OptionTypes`) -/
def EOL : Nat := 0
def NOP : Nat := 1
def MSS : Nat := 2
def WSCALE : Nat := 3
def SACK_OK : Nat := 4
def SACK : Nat := 5
def TSOPT : Nat := 8
def ALTCHK : Nat := 14

/-- the object the 20 header bytes decode to (`stream.read(header_)` + the getters) -/
def ofHeader (h : Bytes) : Tcp :=
  { sport := Cursor.beNat (h.take 2), dport := Cursor.beNat ((h.drop 2).take 2),
    seq := Cursor.beNat ((h.drop 4).take 4), ackSeq := Cursor.beNat ((h.drop 8).take 4),
    doff := byteAt h 12 / 16, res1 := byteAt h 12 % 16, flags8 := byteAt h 13,
    window := Cursor.beNat ((h.drop 14).take 2), check := Cursor.beNat ((h.drop 16).take 2),
    urgPtr := Cursor.beNat ((h.drop 18).take 2), opts := [] }

/-- the `while (stream.pointer() < header_end)` loop of the parsing constructor.  `pos` = `stream.pointer() - buffer`,
    `hend` = `header_end - buffer`; the comparisons of raw pointers are comparisons of these offsets, the copy out of
    `data_start` is a raw read (`peek`).  Every round consumes at least one byte; `fuel` bounds the number of rounds
    (`tcp_parseOpts_spec`: `hend - pos + 1` is never exhausted). -/
def parseOpts : Nat → Cursor → Nat → Nat → List TcpOpt → Out (Cursor × List TcpOpt)
  | 0, _, _, _, _ => .fault "TCP::TCP option loop: out of fuel"
  | fuel + 1, c, pos, hend, acc =>
    if !(pos < hend) then .ok (c, acc) else do
      let (t, c) ← c.readU8                                  -- option_type = stream.read<uint8_t>()
      let pos := pos + 1
      if t == EOL then
        -- stream.skip(header_end - stream.pointer()): a pointer beyond header_end would make this a huge size_t
        if pos > hend then .throw .malformedPacket else do
        let c ← c.skip (hend - pos)
        pure (c, acc)
      else if t == NOP then
        parseOpts fuel c pos hend (acc ++ [⟨t, 0, []⟩])      -- add_option(option_type, 0)
      else do
        let (len, c) ← c.readU8                              -- uint32_t len = stream.read<uint8_t>()
        let dataStart := pos + 1                             -- data_start = stream.pointer()
        if len < 2 then .throw .malformedPacket else
        let len := len - 2
        if dataStart + len > hend then .throw .malformedPacket else do   -- data_start + len > header_end
        let d ← c.peek "TCP::TCP add_option(option_type, data_start, data_start + len)" 0 len
        let c ← c.skip len                                   -- stream.skip(len)
        parseOpts fuel c (dataStart + len) hend (acc ++ [⟨t, len, d⟩])

/-- `TCP::TCP(const uint8_t* buffer, uint32_t total_sz)` -/
def parse (b : Bytes) : Out (Tcp × Inner) := do
  let c := Cursor.ofBytes b
  let (h, c) ← c.read 20                                     -- stream.read(header_)
  let t := ofHeader h
  if t.doff * 4 > b.length || t.doff * 4 < 20 then .throw .malformedPacket else
  let hend := t.doff * 4                                      -- header_end = buffer + data_offset() * 4
  let (c, opts) ← parseOpts (hend + 1) c 20 hend []
  let t := { t with opts := opts }
  if c.toBool then
    let rest ← Cursor.rest "TCP::TCP RawPDU" c
    pure (t, .raw rest)
  else pure (t, .none)

/-! ### option look-up and the typed getters -/

/-- `TCP::search_option`: first option of that kind -/
def searchOption (t : Tcp) (code : Nat) : Option TcpOpt := t.opts.find? (·.code == code)

/-- `Converters::convert(..., type_to_type<uint8_t>)` -/
def decodeU8 (o : TcpOpt) : Out Nat :=
  if o.data.length != 1 then .throw .malformedOption
  else do let b ← rd "Converters::convert<uint8_t> *ptr" o.data 0; pure b.toNat

/-- `convert_to_integral<uint16_t>` (big-endian) -/
def decodeU16 (o : TcpOpt) : Out Nat :=
  if o.data.length != 2 then .throw .malformedOption
  else do let bs ← rdN "convert_to_integral<uint16_t> *(T*)ptr" o.data 0 2; pure (Cursor.beNat bs)

/-- the `while (input)` loop of `convert_vector<uint32_t>` over a stream of `data_size` bytes -/
def decodeWords : Nat → Cursor → Out (List Nat)
  | 0, _ => .fault "convert_vector<uint32_t>: out of fuel"
  | fuel + 1, c =>
    if !c.toBool then .ok [] else do
      let (v, c) ← c.readBE 4
      let rest ← decodeWords fuel c
      pure (v :: rest)

/-- `convert_vector<uint32_t>` (`TCP::sack()`); a `malformed_packet` thrown by the stream cannot occur after the
    size test, the model keeps it as what the stream would throw -/
def decodeSack (o : TcpOpt) : Out (List Nat) :=
  if o.data.length % 4 != 0 then .throw .malformedOption
  else decodeWords (o.data.length + 1) (Cursor.ofBytes o.data)

/-- `convert_pair<uint32_t, uint32_t>` (`TCP::timestamp()`) -/
def decodeTimestamp (o : TcpOpt) : Out (Nat × Nat) :=
  if o.data.length != 8 then .throw .malformedOption
  else do
    let c := Cursor.ofBytes o.data
    let (a, c) ← c.readBE 4
    let (b, _) ← c.readBE 4
    pure (a, b)

/-- `generic_search<T>` / `sack()` / `timestamp()`: `option_not_found` when absent -/
def typedGet {α} (t : Tcp) (code : Nat) (dec : TcpOpt → Out α) : Out α :=
  match t.searchOption code with
  | none => .throw .optionNotFound
  | some o => dec o

def outStr {α} (show_ : α → String) : Out α → String
  | .ok a => show_ a
  | .throw .optionNotFound => "nf"
  | .throw e => e.name
  | .fault s => s!"fault:{s}"

def dotted (l : List Nat) : String := if l.isEmpty then "-" else ".".intercalate (l.map toString)

def optStr (o : TcpOpt) : String := s!"{o.code}:{o.lenField}:{hexStr o.data}"
def optsStr (os : List TcpOpt) : String := if os.isEmpty then "-" else ",".intercalate (os.map optStr)

/-- `get_flag` of FIN, SYN, RST, PSH, ACK, URG, ECE, CWR: bit `k` of `flags_8` -/
def getBit (f k : Nat) : Nat := f / 2 ^ k % 2

def flagBits (t : Tcp) : String :=
  String.ofList ((List.range 8).map (fun k => if getBit t.flags8 k == 1 then '1' else '0'))

/-- `TCP::flags()`: `(res1 << 8) | flags_8` -/
def flags (t : Tcp) : Nat := t.res1 * 256 + t.flags8

def fields (t : Tcp) : Fields :=
  [("sport", toString t.sport), ("dport", toString t.dport), ("seq", toString t.seq), ("ack_seq", toString t.ackSeq),
   ("window", toString t.window), ("~checksum", toString t.check), ("urg_ptr", toString t.urgPtr),
   ("~data_offset", toString t.doff), ("flags", toString t.flags), ("flag_bits", t.flagBits),
   ("opts", optsStr t.opts),
   ("mss", outStr toString (t.typedGet MSS decodeU16)),
   ("winscale", outStr toString (t.typedGet WSCALE decodeU8)),
   ("sack_permitted", if (t.searchOption SACK_OK).isSome then "1" else "0"),
   ("sack", outStr dotted (t.typedGet SACK decodeSack)),
   ("timestamp", outStr (fun (p : Nat × Nat) => s!"{p.1}.{p.2}") (t.typedGet TSOPT decodeTimestamp)),
   ("altchecksum", outStr toString (t.typedGet ALTCHK decodeU8))]

/-! ### sizes -/

/-- bytes one option is *counted* for: `calculate_options_size` (after "fix: TCP::calculate_options_size counted one
    byte for an option without data that is written with a length octet") -/
def optSize (o : TcpOpt) : Nat := 1 + (if o.code > 1 then 1 + o.data.length else 0)

def optsSum : List TcpOpt → Nat
  | [] => 0
  | o :: os => optSize o + optsSum os

/-- `TCP::calculate_options_size()` (`uint32_t` accumulator) -/
def calcOptionsSize (os : List TcpOpt) : Nat := optsSum os % 4294967296

/-- `TCP::pad_options_size(uint32_t size)`: `padding = size & 3; padding ? size - padding + 4 : size` -/
def padOptionsSize (size : Nat) : Nat :=
  let padding := size % 4
  if padding != 0 then (size - padding + 4) % 4294967296 else size

/-- `TCP::header_size()` -/
def hdr (t : Tcp) : Nat := (20 + padOptionsSize (calcOptionsSize t.opts)) % 4294967296

/-! ### serialization -/

def headerBytes (t : Tcp) : Bytes :=
  OutCursor.beBytes 2 t.sport ++ OutCursor.beBytes 2 t.dport ++ OutCursor.beBytes 4 t.seq ++ OutCursor.beBytes 4 t.ackSeq ++
  [UInt8.ofNat (t.doff * 16 + t.res1), UInt8.ofNat t.flags8] ++
  OutCursor.beBytes 2 t.window ++ OutCursor.beBytes 2 t.check ++ OutCursor.beBytes 2 t.urgPtr

/-- the length octet `write_option` emits: `uint8_t length = length_field(); if (length_field() == data_size()) length += 2` -/
def lengthOctet (op : TcpOpt) : Nat :=
  if op.lenField == op.data.length then (op.lenField % 256 + 2) % 256 else op.lenField % 256

/-- `TCP::write_option` -/
def writeOpt (o : OutCursor) (op : TcpOpt) : Out OutCursor := do
  let o ← o.write [UInt8.ofNat op.code]                      -- stream.write<uint8_t>(opt.option())
  if op.code > 1 then
    let o ← o.write [UInt8.ofNat (lengthOctet op)]           -- stream.write(length)
    o.write op.data                                          -- stream.write(opt.data_ptr(), opt.data_size())
  else pure o

def writeOpts (o : OutCursor) : List TcpOpt → Out OutCursor
  | [] => .ok o
  | op :: ops => do
    let o ← writeOpt o op
    writeOpts o ops

/-- the pseudo-header sum when the parent is an IP / IPv6 (`tins_cast<const IP*>(parent_pdu())`) -/
def pseudoOf (cx : Ctx) (size : Nat) : Option Nat :=
  match cx.parents.head? with
  | some p =>
    if p.cls == "IP" then
      match (p.fields.get "src_addr").bind parseHexStr, (p.fields.get "dst_addr").bind parseHexStr with
      | some s, some d => some (pseudo4 s d (size % 65536) 6)
      | _, _ => none
    else if p.cls == "IPv6" then
      match (p.fields.get "src_addr").bind parseHexStr, (p.fields.get "dst_addr").bind parseHexStr with
      | some s, some d => some (pseudo6 s d (size % 65536) 6)
      | _, _ => none
    else none
  | none => none

/-- `TCP::write_serialization` -/
def write (cx : Ctx) (t : Tcp) (region : Bytes) : Out Bytes := do
  let optionsSize := calcOptionsSize t.opts
  let totalOptionsSize := padOptionsSize optionsSize
  let newDoff := (20 + totalOptionsSize) % 4294967296 / 4
  if newDoff > 15 then .throw .serializationError else      -- more than 40 bytes of options
  let t1 := { t with check := 0, doff := newDoff }
  let o ← (OutCursor.ofRegion region).write t1.headerBytes   -- stream.write(header_)
  let o ← writeOpts o t.opts
  let o ← if optionsSize < totalOptionsSize then o.fill ((totalOptionsSize - optionsSize) % 65536) 0 else pure o
  let r1 := o.buffer
  match pseudoOf cx (t.hdr + cx.innerSize) with
  | none => pure r1
  | some ps =>
    let check := fold16 ((ps + sumRange r1) % 4294967296)
    poke "TCP::write_serialization ((tcp_header*)buffer)->check" r1 16 (le16 (not16 check))

/-! ### constructors and the API -/

/-- `TCP::TCP(uint16_t dport, uint16_t sport)` -/
def create (dport sport : Nat) : Tcp :=
  { sport := sport % 65536, dport := dport % 65536, seq := 0, ackSeq := 0, doff := 5, res1 := 0, flags8 := 0,
    window := 32678, check := 0, urgPtr := 0, opts := [] }

/-- `TCP::add_option` -/
def addOption (t : Tcp) (o : TcpOpt) : Tcp := { t with opts := t.opts ++ [o] }

/-- erase the first element satisfying `p` (`options_.erase(iter)`) -/
def eraseFirst (p : TcpOpt → Bool) : List TcpOpt → List TcpOpt
  | [] => []
  | o :: os => if p o then os else o :: eraseFirst p os

/-- `TCP::remove_option`: drops the first option of that kind, if any -/
def removeOption (t : Tcp) (code : Nat) : Tcp := { t with opts := eraseFirst (·.code == code) t.opts }

/-- `option(kind, begin, end)`: advertised length = number of bytes; more than 65535: `option_payload_too_large` -/
def mkOpt (code : Nat) (d : Bytes) : Out TcpOpt :=
  if d.length > 65535 then .throw .optionPayloadTooLarge else .ok ⟨code, d.length, d⟩

/-- `option(kind, length, begin, end)`: spoofed advertised length -/
def mkOptLen (code len : Nat) (d : Bytes) : Out TcpOpt :=
  if d.length > 65535 then .throw .optionPayloadTooLarge else .ok ⟨code, len % 65536, d⟩

/-- typed option encoders -/
def encodeMss (v : Nat) : TcpOpt := ⟨MSS, 2, OutCursor.beBytes 2 v⟩
def encodeWinscale (v : Nat) : TcpOpt := ⟨WSCALE, 1, [UInt8.ofNat (v % 256)]⟩
def encodeSackPermitted : TcpOpt := ⟨SACK_OK, 0, []⟩
def encodeTimestamp (v r : Nat) : TcpOpt := ⟨TSOPT, 8, OutCursor.beBytes 4 v ++ OutCursor.beBytes 4 r⟩
def encodeAltchecksum (v : Nat) : TcpOpt := ⟨ALTCHK, 1, [UInt8.ofNat (v % 256)]⟩

/-- `TCP::sack(edges)`: the edges big-endian, `option(SACK, value.size(), &value[0])` (after "fix: TCP::sack truncated the
    option length to 8 bits and silently dropped edges"); more than 65535 bytes: `option_payload_too_large` -/
def encodeSack (edges : List Nat) : Out TcpOpt :=
  let value := edges.flatMap (OutCursor.beBytes 4)
  if value.length > 65535 then .throw .optionPayloadTooLarge else .ok ⟨SACK, value.length, value⟩

/-- set bit `k` of `f` to `v` (bit-field assignment `header_.flags.x = value`) -/
def setBit (f k v : Nat) : Nat := f % 2 ^ k + (v % 2) * 2 ^ k + f / 2 ^ (k + 1) * 2 ^ (k + 1)

/-- `TCP::set_flag(Flags, small_uint<1>)`: a `switch` over the eight flag masks; any other value: nothing -/
def setFlag (t : Tcp) (flag v : Nat) : Tcp :=
  if flag == 1 then { t with flags8 := setBit t.flags8 0 v }
  else if flag == 2 then { t with flags8 := setBit t.flags8 1 v }
  else if flag == 4 then { t with flags8 := setBit t.flags8 2 v }
  else if flag == 8 then { t with flags8 := setBit t.flags8 3 v }
  else if flag == 16 then { t with flags8 := setBit t.flags8 4 v }
  else if flag == 32 then { t with flags8 := setBit t.flags8 5 v }
  else if flag == 64 then { t with flags8 := setBit t.flags8 6 v }
  else if flag == 128 then { t with flags8 := setBit t.flags8 7 v }
  else t

/-- `TCP::flags(small_uint<12>)` -/
def setFlags (t : Tcp) (v : Nat) : Tcp := { t with res1 := v / 256 % 16, flags8 := v % 256 }

def natArg (s : String) : Option Nat := s.toNat?

/-- "a.b.c" → edges (each as `uint32_t`), "-" → none -/
def edgesArg (s : String) : Option (List Nat) :=
  if s == "-" then some [] else (s.splitOn ".").mapM (fun x => (natArg x).map (· % 4294967296))

def apply (t : Tcp) : List String → Out Tcp
  | ["sport", v] => match natArg v with | some n => .ok { t with sport := n % 65536 } | none => .throw .stdOther
  | ["dport", v] => match natArg v with | some n => .ok { t with dport := n % 65536 } | none => .throw .stdOther
  | ["seq", v] => match natArg v with | some n => .ok { t with seq := n % 4294967296 } | none => .throw .stdOther
  | ["ack_seq", v] => match natArg v with | some n => .ok { t with ackSeq := n % 4294967296 } | none => .throw .stdOther
  | ["window", v] => match natArg v with | some n => .ok { t with window := n % 65536 } | none => .throw .stdOther
  | ["urg_ptr", v] => match natArg v with | some n => .ok { t with urgPtr := n % 65536 } | none => .throw .stdOther
  | ["data_offset", v] => match natArg v with | some n => .ok { t with doff := n % 16 } | none => .throw .stdOther
  | ["flags", v] => match natArg v with | some n => .ok (t.setFlags (n % 4096)) | none => .throw .stdOther
  | ["set_flag", f, v] => match natArg f, natArg v with
    | some f, some v => .ok (t.setFlag f (v % 2))
    | _, _ => .throw .stdOther
  | ["mss", v] => match natArg v with | some n => .ok (t.addOption (encodeMss (n % 65536))) | none => .throw .stdOther
  | ["winscale", v] => match natArg v with | some n => .ok (t.addOption (encodeWinscale n)) | none => .throw .stdOther
  | ["sack_permitted"] => .ok (t.addOption encodeSackPermitted)
  | ["sack", v] => match edgesArg v with
    | some e => do let o ← encodeSack e; pure (t.addOption o)
    | none => .throw .stdOther
  | ["timestamp", v, r] => match natArg v, natArg r with
    | some v, some r => .ok (t.addOption (encodeTimestamp (v % 4294967296) (r % 4294967296)))
    | _, _ => .throw .stdOther
  | ["altchecksum", v] => match natArg v with | some n => .ok (t.addOption (encodeAltchecksum n)) | none => .throw .stdOther
  | ["add_option", c, h] => match natArg c, parseHexStr h with
    | some c, some d => do let o ← mkOpt (c % 256) d; pure (t.addOption o)
    | _, _ => .throw .stdOther
  | ["add_option_copy", c, h] => match natArg c, parseHexStr h with
    | some c, some d => do let o ← mkOpt (c % 256) d; pure (t.addOption o)
    | _, _ => .throw .stdOther
  | ["add_option_nodata", c, l] => match natArg c, natArg l with
    | some c, some l => .ok (t.addOption ⟨c % 256, l % 65536, []⟩)
    | _, _ => .throw .stdOther
  | ["add_option_len", c, l, h] => match natArg c, natArg l, parseHexStr h with
    | some c, some l, some d => do let o ← mkOptLen (c % 256) l d; pure (t.addOption o)
    | _, _, _ => .throw .stdOther
  | ["remove_option", c] => match natArg c with | some c => .ok (t.removeOption (c % 256)) | none => .throw .stdOther
  | _ => .throw .stdOther

end Tcp
end Tins.Wire.Transport
