import TinsModel.Wire.Transport.ThTcpReparse
/-
  TCP, property C04: the API keeps the object invariant (so C02/C03 apply to every object reachable by any history of
  constructor / setter / add / remove calls), option look-up reflects the accumulated edits (first match wins, removed
  options are gone, sizes follow), the typed option encoders and decoders are mutual inverses for every representable
  value (explicit predicates), scalar setters form a last-write map, and the 12-bit flags / single-flag accessors agree.
-/
namespace Tins.Wire.Transport
open Tins Tins.Wire

/-! ### the invariant under the API -/

theorem tcp_create_inv (d s : Nat) : (Tcp.create d s).Inv := by
  refine ⟨Nat.mod_lt _ (by decide), Nat.mod_lt _ (by decide), ?_, ?_, ?_, ?_, ?_, ?_, ?_, ?_, ?_⟩ <;>
    simp [Tcp.create]

theorem tcp_addOption_inv (t : Tcp) (o : TcpOpt) (h : t.Inv) (ho : Tcp.OptOK o) : (t.addOption o).Inv := by
  refine ⟨h.sport, h.dport, h.seq, h.ackSeq, h.doff, h.res1, h.flags8, h.window, h.check, h.urgPtr, ?_⟩
  intro x hx
  simp only [Tcp.addOption, List.mem_append, List.mem_singleton] at hx
  rcases hx with hx | hx
  · exact h.opts x hx
  · subst hx; exact ho

theorem mem_eraseFirst (p : TcpOpt → Bool) (l : List TcpOpt) (x : TcpOpt) (h : x ∈ Tcp.eraseFirst p l) : x ∈ l := by
  induction l with
  | nil => cases h
  | cons a as ih =>
    unfold Tcp.eraseFirst at h
    split at h
    · exact List.mem_cons_of_mem _ h
    · rcases List.mem_cons.mp h with h | h
      · subst h; exact List.mem_cons_self
      · exact List.mem_cons_of_mem _ (ih h)

theorem tcp_removeOption_inv (t : Tcp) (code : Nat) (h : t.Inv) : (t.removeOption code).Inv :=
  ⟨h.sport, h.dport, h.seq, h.ackSeq, h.doff, h.res1, h.flags8, h.window, h.check, h.urgPtr,
    fun x hx => h.opts x (mem_eraseFirst _ _ x hx)⟩

theorem tcp_mkOpt_ok (code : Nat) (d : Bytes) (o : TcpOpt) (hc : code < 256) (h : Tcp.mkOpt code d = .ok o) : Tcp.OptOK o := by
  unfold Tcp.mkOpt at h
  split at h
  · cases h
  · injection h with h; subst h; exact ⟨hc, by simp only; omega, by simp only; omega⟩

theorem tcp_mkOptLen_ok (code len : Nat) (d : Bytes) (o : TcpOpt) (hc : code < 256) (h : Tcp.mkOptLen code len d = .ok o) :
    Tcp.OptOK o := by
  unfold Tcp.mkOptLen at h
  split at h
  · cases h
  · injection h with h; subst h; exact ⟨hc, Nat.mod_lt _ (by decide), by simp only; omega⟩

theorem tcp_encodeSack_ok (e : List Nat) (o : TcpOpt) (h : Tcp.encodeSack e = .ok o) : Tcp.OptOK o := by
  unfold Tcp.encodeSack at h
  simp only at h
  split at h
  · cases h
  · injection h with h; subst h; exact ⟨by simp [Tcp.SACK], by simp only; omega, by simp only; omega⟩

theorem tcp_encodeMss_ok (v : Nat) : Tcp.OptOK (Tcp.encodeMss v) :=
  ⟨by simp [Tcp.encodeMss, Tcp.MSS], by simp [Tcp.encodeMss], by simp [Tcp.encodeMss]⟩
theorem tcp_encodeWinscale_ok (v : Nat) : Tcp.OptOK (Tcp.encodeWinscale v) :=
  ⟨by simp [Tcp.encodeWinscale, Tcp.WSCALE], by simp [Tcp.encodeWinscale], by simp [Tcp.encodeWinscale]⟩
theorem tcp_encodeSackPermitted_ok : Tcp.OptOK Tcp.encodeSackPermitted :=
  ⟨by simp [Tcp.encodeSackPermitted, Tcp.SACK_OK], by simp [Tcp.encodeSackPermitted], by simp [Tcp.encodeSackPermitted]⟩
theorem tcp_encodeTimestamp_ok (v r : Nat) : Tcp.OptOK (Tcp.encodeTimestamp v r) :=
  ⟨by simp [Tcp.encodeTimestamp, Tcp.TSOPT], by simp [Tcp.encodeTimestamp], by simp [Tcp.encodeTimestamp]⟩
theorem tcp_encodeAltchecksum_ok (v : Nat) : Tcp.OptOK (Tcp.encodeAltchecksum v) :=
  ⟨by simp [Tcp.encodeAltchecksum, Tcp.ALTCHK], by simp [Tcp.encodeAltchecksum], by simp [Tcp.encodeAltchecksum]⟩

theorem tcp_setBit_lt (f k v : Nat) (hk : k < 8) (hf : f < 256) : Tcp.setBit f k v < 256 := by
  have : k = 0 ∨ k = 1 ∨ k = 2 ∨ k = 3 ∨ k = 4 ∨ k = 5 ∨ k = 6 ∨ k = 7 := by omega
  rcases this with h | h | h | h | h | h | h | h <;> subst h <;> simp only [Tcp.setBit] <;> omega

theorem tcp_setFlag_inv (t : Tcp) (f v : Nat) (h : t.Inv) : (t.setFlag f v).Inv := by
  unfold Tcp.setFlag
  have mk : ∀ k, k < 8 → ({ t with flags8 := Tcp.setBit t.flags8 k v } : Tcp).Inv := fun k hk =>
    ⟨h.sport, h.dport, h.seq, h.ackSeq, h.doff, h.res1, tcp_setBit_lt _ _ _ hk h.flags8, h.window, h.check, h.urgPtr, h.opts⟩
  split
  · exact mk 0 (by decide)
  · split
    · exact mk 1 (by decide)
    · split
      · exact mk 2 (by decide)
      · split
        · exact mk 3 (by decide)
        · split
          · exact mk 4 (by decide)
          · split
            · exact mk 5 (by decide)
            · split
              · exact mk 6 (by decide)
              · split
                · exact mk 7 (by decide)
                · exact h

/-- **C04 / TCP**: every API call keeps the invariant — with `tcp_create_inv` and `tcp_parse_inv`: every object reachable
    by parsing or by any finite sequence of constructor / setter / typed option / add_option / remove_option calls
    satisfies it -/
theorem tcp_apply_inv (t t' : Tcp) (op : List String) (h : t.Inv) (ha : t.apply op = .ok t') : t'.Inv := by
  have m16 : ∀ n : Nat, n % 65536 < 65536 := fun n => Nat.mod_lt _ (by decide)
  have m32 : ∀ n : Nat, n % 4294967296 < 4294967296 := fun n => Nat.mod_lt _ (by decide)
  have m8 : ∀ n : Nat, n % 256 < 256 := fun n => Nat.mod_lt _ (by decide)
  unfold Tcp.apply at ha
  split at ha
  · split at ha
    · injection ha with ha; subst ha
      exact ⟨m16 _, h.dport, h.seq, h.ackSeq, h.doff, h.res1, h.flags8, h.window, h.check, h.urgPtr, h.opts⟩
    · cases ha
  · split at ha
    · injection ha with ha; subst ha
      exact ⟨h.sport, m16 _, h.seq, h.ackSeq, h.doff, h.res1, h.flags8, h.window, h.check, h.urgPtr, h.opts⟩
    · cases ha
  · split at ha
    · injection ha with ha; subst ha
      exact ⟨h.sport, h.dport, m32 _, h.ackSeq, h.doff, h.res1, h.flags8, h.window, h.check, h.urgPtr, h.opts⟩
    · cases ha
  · split at ha
    · injection ha with ha; subst ha
      exact ⟨h.sport, h.dport, h.seq, m32 _, h.doff, h.res1, h.flags8, h.window, h.check, h.urgPtr, h.opts⟩
    · cases ha
  · split at ha
    · injection ha with ha; subst ha
      exact ⟨h.sport, h.dport, h.seq, h.ackSeq, h.doff, h.res1, h.flags8, m16 _, h.check, h.urgPtr, h.opts⟩
    · cases ha
  · split at ha
    · injection ha with ha; subst ha
      exact ⟨h.sport, h.dport, h.seq, h.ackSeq, h.doff, h.res1, h.flags8, h.window, h.check, m16 _, h.opts⟩
    · cases ha
  · split at ha
    · injection ha with ha; subst ha
      exact ⟨h.sport, h.dport, h.seq, h.ackSeq, Nat.mod_lt _ (by decide), h.res1, h.flags8, h.window, h.check, h.urgPtr, h.opts⟩
    · cases ha
  · split at ha
    · injection ha with ha; subst ha
      exact ⟨h.sport, h.dport, h.seq, h.ackSeq, h.doff, Nat.mod_lt _ (by decide), m8 _, h.window, h.check, h.urgPtr, h.opts⟩
    · cases ha
  · split at ha
    · injection ha with ha; subst ha; exact tcp_setFlag_inv _ _ _ h
    · cases ha
  · split at ha
    · injection ha with ha; subst ha
      exact tcp_addOption_inv _ _ h (tcp_encodeMss_ok _)
    · cases ha
  · split at ha
    · injection ha with ha; subst ha
      exact tcp_addOption_inv _ _ h (tcp_encodeWinscale_ok _)
    · cases ha
  · injection ha with ha; subst ha
    exact tcp_addOption_inv _ _ h tcp_encodeSackPermitted_ok
  · split at ha
    · cases he : Tcp.encodeSack _ with
      | ok o =>
        rw [he] at ha; simp only [bind, Out.bind, pure] at ha; injection ha with ha; subst ha
        exact tcp_addOption_inv _ _ h (tcp_encodeSack_ok _ _ he)
      | throw e => rw [he] at ha; cases ha
      | fault s => rw [he] at ha; cases ha
    · cases ha
  · split at ha
    · injection ha with ha; subst ha
      exact tcp_addOption_inv _ _ h (tcp_encodeTimestamp_ok _ _)
    · cases ha
  · split at ha
    · injection ha with ha; subst ha
      exact tcp_addOption_inv _ _ h (tcp_encodeAltchecksum_ok _)
    · cases ha
  · split at ha
    · cases he : Tcp.mkOpt _ _ with
      | ok o =>
        rw [he] at ha; simp only [bind, Out.bind, pure] at ha; injection ha with ha; subst ha
        exact tcp_addOption_inv _ _ h (tcp_mkOpt_ok _ _ _ (m8 _) he)
      | throw e => rw [he] at ha; cases ha
      | fault s => rw [he] at ha; cases ha
    · cases ha
  · split at ha
    · cases he : Tcp.mkOpt _ _ with
      | ok o =>
        rw [he] at ha; simp only [bind, Out.bind, pure] at ha; injection ha with ha; subst ha
        exact tcp_addOption_inv _ _ h (tcp_mkOpt_ok _ _ _ (m8 _) he)
      | throw e => rw [he] at ha; cases ha
      | fault s => rw [he] at ha; cases ha
    · cases ha
  · split at ha
    · injection ha with ha; subst ha
      exact tcp_addOption_inv _ _ h ⟨m8 _, m16 _, by simp⟩
    · cases ha
  · split at ha
    · cases he : Tcp.mkOptLen _ _ _ with
      | ok o =>
        rw [he] at ha; simp only [bind, Out.bind, pure] at ha; injection ha with ha; subst ha
        exact tcp_addOption_inv _ _ h (tcp_mkOptLen_ok _ _ _ _ (m8 _) he)
      | throw e => rw [he] at ha; cases ha
      | fault s => rw [he] at ha; cases ha
    · cases ha
  · split at ha
    · injection ha with ha; subst ha; exact tcp_removeOption_inv _ _ h
    · cases ha
  · cases ha

/-! ### option look-up reflects the accumulated edits -/

/-- `search_option` after `add_option`: first match wins — an earlier option of that kind shadows the new one -/
theorem tcp_searchOption_addOption (t : Tcp) (o : TcpOpt) (code : Nat) :
    (t.addOption o).searchOption code = (t.searchOption code).or (if o.code == code then some o else none) := by
  simp only [Tcp.searchOption, Tcp.addOption, List.find?_append, List.find?_cons, List.find?_nil]
  split <;> simp_all

theorem eraseFirst_of_find_none (p : TcpOpt → Bool) (l : List TcpOpt) (h : l.find? p = none) : Tcp.eraseFirst p l = l := by
  induction l with
  | nil => rfl
  | cons a as ih =>
    simp only [List.find?_cons] at h
    by_cases hp : p a = true
    · simp [hp] at h
    · have hp' : p a = false := by simpa using hp
      simp only [hp'] at h
      simp only [Tcp.eraseFirst, hp', Bool.false_eq_true, if_false, ih h]

theorem find_eraseFirst_other (p q : TcpOpt → Bool) (l : List TcpOpt) (hpq : ∀ x, p x = true → q x = false) :
    (Tcp.eraseFirst p l).find? q = l.find? q := by
  induction l with
  | nil => rfl
  | cons a as ih =>
    by_cases hp : p a = true
    · simp only [Tcp.eraseFirst, hp, if_true, List.find?_cons, hpq a hp]
    · have hp' : p a = false := by simpa using hp
      simp only [Tcp.eraseFirst, hp', Bool.false_eq_true, if_false, List.find?_cons, ih]

theorem find_eraseFirst_self (p : TcpOpt → Bool) (l : List TcpOpt) (h : (l.filter p).length ≤ 1) :
    (Tcp.eraseFirst p l).find? p = none := by
  induction l with
  | nil => rfl
  | cons a as ih =>
    by_cases hp : p a = true
    · simp only [Tcp.eraseFirst, hp, if_true]
      simp only [List.filter_cons, hp, if_true, List.length_cons] at h
      have hnil : as.filter p = [] := List.length_eq_zero_iff.mp (by omega)
      rw [List.find?_eq_none]
      intro x hx hxc
      have : x ∈ as.filter p := List.mem_filter.mpr ⟨hx, hxc⟩
      rw [hnil] at this; cases this
    · have hp' : p a = false := by simpa using hp
      simp only [List.filter_cons, hp', Bool.false_eq_true, if_false] at h
      simp only [Tcp.eraseFirst, hp', Bool.false_eq_true, if_false, List.find?_cons, ih h]

theorem optsSum_eraseFirst (p : TcpOpt → Bool) (l : List TcpOpt) (o : TcpOpt) (h : l.find? p = some o) :
    Tcp.optsSum (Tcp.eraseFirst p l) + Tcp.optSize o = Tcp.optsSum l := by
  induction l with
  | nil => cases h
  | cons a as ih =>
    simp only [List.find?_cons] at h
    by_cases hp : p a = true
    · simp only [hp] at h
      injection h with h; subst h
      simp only [Tcp.eraseFirst, hp, if_true, Tcp.optsSum]; omega
    · have hp' : p a = false := by simpa using hp
      simp only [hp'] at h
      have := ih h
      simp only [Tcp.eraseFirst, hp', Bool.false_eq_true, if_false, Tcp.optsSum]; omega

/-- removing a kind that is not present changes nothing -/
theorem tcp_removeOption_absent (t : Tcp) (code : Nat) (h : t.searchOption code = none) : t.removeOption code = t := by
  simp only [Tcp.removeOption, eraseFirst_of_find_none _ t.opts h]

/-- `remove_option` leaves the look-up of every other kind alone -/
theorem tcp_searchOption_removeOption_ne (t : Tcp) (code other : Nat) (hne : other ≠ code) :
    (t.removeOption code).searchOption other = t.searchOption other := by
  simp only [Tcp.searchOption, Tcp.removeOption]
  apply find_eraseFirst_other
  intro x hx
  have : x.code = code := by simpa using hx
  simp only [this, beq_eq_false_iff_ne, ne_eq]
  exact fun h => hne h.symm

/-- removed options are gone: when the kind occurs once, the look-up fails afterwards (`option_not_found`) -/
theorem tcp_searchOption_removeOption_self (t : Tcp) (code : Nat) (h : (t.opts.filter (·.code == code)).length ≤ 1) :
    (t.removeOption code).searchOption code = none := by
  simp only [Tcp.searchOption, Tcp.removeOption]
  exact find_eraseFirst_self _ _ h

/-- sizes follow the edits: `add_option` grows the counted option bytes by the option's size -/
theorem tcp_optsSum_addOption (t : Tcp) (o : TcpOpt) :
    Tcp.optsSum (t.addOption o).opts = Tcp.optsSum t.opts + Tcp.optSize o := by
  simp [Tcp.addOption, Tcp.optsSum_append, Tcp.optsSum]

/-- … and `remove_option` shrinks them by the size of the option it found -/
theorem tcp_optsSum_removeOption (t : Tcp) (code : Nat) (o : TcpOpt) (h : t.searchOption code = some o) :
    Tcp.optsSum (t.removeOption code).opts + Tcp.optSize o = Tcp.optsSum t.opts := by
  simp only [Tcp.removeOption]
  exact optsSum_eraseFirst _ _ _ h

/-! ### typed option codecs: decoder ∘ encoder = id for every representable value -/

theorem tcp_mss_codec (v : Nat) (h : v < 65536) : Tcp.decodeU16 (Tcp.encodeMss v) = .ok v := by
  have hl : (OutCursor.beBytes 2 v).length = 2 := by simp
  simp only [Tcp.decodeU16, Tcp.encodeMss, hl, bne_self_eq_false, Bool.false_eq_true, if_false, rdN, Nat.zero_add,
    Nat.le_refl, if_true, List.drop_zero, bind, Out.bind, pure]
  rw [List.take_of_length_le (by omega), beNat_beBytes]
  exact congrArg Out.ok (Nat.mod_eq_of_lt h)

theorem tcp_winscale_codec (v : Nat) (h : v < 256) : Tcp.decodeU8 (Tcp.encodeWinscale v) = .ok v := by
  simp [Tcp.decodeU8, Tcp.encodeWinscale, rd, bind, Out.bind, pure, UInt8.toNat_ofNat', Nat.mod_eq_of_lt h]

theorem tcp_altchecksum_codec (v : Nat) (h : v < 256) : Tcp.decodeU8 (Tcp.encodeAltchecksum v) = .ok v := by
  simp [Tcp.decodeU8, Tcp.encodeAltchecksum, rd, bind, Out.bind, pure, UInt8.toNat_ofNat', Nat.mod_eq_of_lt h]

theorem tcp_timestamp_codec (v r : Nat) (hv : v < 4294967296) (hr : r < 4294967296) :
    Tcp.decodeTimestamp (Tcp.encodeTimestamp v r) = .ok (v, r) := by
  have hl : (OutCursor.beBytes 4 v ++ OutCursor.beBytes 4 r).length = 8 := by simp
  simp only [Tcp.decodeTimestamp, Tcp.encodeTimestamp, hl, bne_self_eq_false, Bool.false_eq_true, if_false, Cursor.ofBytes]
  rw [readBE_prefix (OutCursor.beBytes 4 v) (OutCursor.beBytes 4 r) 8 4 (by simp) (by omega)]
  simp only [bind, Out.bind]
  have := readBE_prefix (OutCursor.beBytes 4 r) [] (8 - 4) 4 (by simp) (by omega)
  rw [List.append_nil] at this
  rw [this]
  simp only [pure, beNat_beBytes]
  rw [show (256 : Nat) ^ 4 = 4294967296 by decide, Nat.mod_eq_of_lt hv, Nat.mod_eq_of_lt hr]

/-- the word loop of `convert_vector<uint32_t>` over the big-endian encoding of any list of 32-bit values -/
theorem tcp_decodeWords_encode (e : List Nat) (he : ∀ x ∈ e, x < 4294967296) (f : Nat) :
    Tcp.decodeWords (e.length + f + 1) ⟨e.flatMap (OutCursor.beBytes 4), (e.flatMap (OutCursor.beBytes 4)).length⟩ = .ok e := by
  induction e with
  | nil => simp [Tcp.decodeWords, Cursor.toBool]
  | cons x xs ih =>
    have hlen : ((x :: xs).flatMap (OutCursor.beBytes 4)).length = 4 + (xs.flatMap (OutCursor.beBytes 4)).length := by
      simp [List.flatMap_cons]
    have hf : (x :: xs).length + f + 1 = (xs.length + f + 1) + 1 := by simp only [List.length_cons]; omega
    rw [hf, hlen, List.flatMap_cons]
    unfold Tcp.decodeWords
    have hb : (⟨OutCursor.beBytes 4 x ++ xs.flatMap (OutCursor.beBytes 4), 4 + (xs.flatMap (OutCursor.beBytes 4)).length⟩ : Cursor).toBool = true := by
      simp only [Cursor.toBool]; exact decide_eq_true (by omega)
    simp only [hb, Bool.not_true, Bool.false_eq_true, if_false]
    rw [readBE_prefix (OutCursor.beBytes 4 x) _ _ 4 (by simp) (by omega)]
    simp only [bind, Out.bind, Nat.add_sub_cancel_left]
    rw [ih (fun y hy => he y (List.mem_cons_of_mem _ hy))]
    simp only [pure, beNat_beBytes]
    rw [show (256 : Nat) ^ 4 = 4294967296 by decide, Nat.mod_eq_of_lt (he x List.mem_cons_self)]

/-- representable SACK lists: 32-bit edges, at most 16383 of them (65535 option bytes) -/
def Tcp.ReprSack (e : List Nat) : Prop := (∀ x ∈ e, x < 4294967296) ∧ e.length ≤ 16383

theorem tcp_sack_encoded_length (e : List Nat) : (e.flatMap (OutCursor.beBytes 4)).length = 4 * e.length := by
  induction e with
  | nil => rfl
  | cons x xs ih => simp only [List.flatMap_cons, List.length_append, OutCursor.beBytes_length, ih, List.length_cons]; omega

/-- **codec inverse, SACK**: `sack()` undoes `sack(edges)` for every representable list (any number of edges up to the
    16-bit option size: the 8-bit truncation is fixed) -/
theorem tcp_sack_codec (e : List Nat) (h : Tcp.ReprSack e) :
    ∃ o, Tcp.encodeSack e = .ok o ∧ Tcp.decodeSack o = .ok e := by
  have hl := tcp_sack_encoded_length e
  have hng : ¬ (e.flatMap (OutCursor.beBytes 4)).length > 65535 := by rw [hl]; have := h.2; omega
  refine ⟨⟨Tcp.SACK, (e.flatMap (OutCursor.beBytes 4)).length, e.flatMap (OutCursor.beBytes 4)⟩, ?_, ?_⟩
  · simp only [Tcp.encodeSack, hng, if_false]
  · have hm : ((e.flatMap (OutCursor.beBytes 4)).length % 4 != 0) = false := by rw [hl]; simp
    simp only [Tcp.decodeSack, hm, Bool.false_eq_true, if_false, Cursor.ofBytes]
    have := tcp_decodeWords_encode e h.1 (4 * e.length - e.length)
    have hf : e.length + (4 * e.length - e.length) + 1 = (e.flatMap (OutCursor.beBytes 4)).length + 1 := by rw [hl]; omega
    rw [hf] at this
    exact this

/-- beyond the representable range the setter rejects the list instead of mis-encoding it -/
theorem tcp_sack_too_long (e : List Nat) (h : e.length > 16383) : Tcp.encodeSack e = .throw .optionPayloadTooLarge := by
  have hl := tcp_sack_encoded_length e
  have : (e.flatMap (OutCursor.beBytes 4)).length > 65535 := by rw [hl]; omega
  simp only [Tcp.encodeSack, this, if_true]

/-- a decoder applied to an option of the wrong size fails with `malformed_option`, never with a read outside the option -/
theorem tcp_decode_wrong_size (o : TcpOpt) :
    (o.data.length ≠ 2 → Tcp.decodeU16 o = .throw .malformedOption) ∧
    (o.data.length ≠ 1 → Tcp.decodeU8 o = .throw .malformedOption) ∧
    (o.data.length ≠ 8 → Tcp.decodeTimestamp o = .throw .malformedOption) ∧
    (o.data.length % 4 ≠ 0 → Tcp.decodeSack o = .throw .malformedOption) := by
  refine ⟨fun h => ?_, fun h => ?_, fun h => ?_, fun h => ?_⟩
  · simp [Tcp.decodeU16, h]
  · simp [Tcp.decodeU8, h]
  · simp [Tcp.decodeTimestamp, h]
  · simp [Tcp.decodeSack, h]

/-- the typed getter right after the typed setter on an object that had no option of that kind: exactly the value set -/
theorem tcp_typed_after_add (t : Tcp) (o : TcpOpt) {α} (dec : TcpOpt → Out α) (h : t.searchOption o.code = none) :
    (t.addOption o).typedGet o.code dec = dec o := by
  simp [Tcp.typedGet, tcp_searchOption_addOption, h]

/-! ### C01, read-only accessors: the typed getters are memory-safe on every option and fail only as libtins exceptions -/

/-- outcome classes of a typed option getter: a value, `malformed_option` or `option_not_found` — never a fault -/
def AccSafe {α} (r : Out α) : Prop := (∃ a, r = .ok a) ∨ r = .throw .malformedOption ∨ r = .throw .optionNotFound

theorem tcp_decodeU8_safe (o : TcpOpt) : AccSafe (Tcp.decodeU8 o) := by
  unfold Tcp.decodeU8
  by_cases h : o.data.length = 1
  · match hd : o.data with
    | [x] => left; exact ⟨x.toNat, by simp [hd, rd, bind, Out.bind, pure]⟩
    | [] => simp [hd] at h
    | _ :: _ :: _ => simp [hd] at h
  · right; left; simp [h]

theorem tcp_decodeU16_safe (o : TcpOpt) : AccSafe (Tcp.decodeU16 o) := by
  unfold Tcp.decodeU16
  by_cases h : o.data.length = 2
  · left; exact ⟨Cursor.beNat (o.data.take 2), by simp [h, rdN, bind, Out.bind, pure]⟩
  · right; left; simp [h]

theorem tcp_decodeTimestamp_safe (o : TcpOpt) : AccSafe (Tcp.decodeTimestamp o) := by
  unfold Tcp.decodeTimestamp
  by_cases h : o.data.length = 8
  · left
    have h1 := readBE_full o.data 4
    have hn1 : ¬ o.data.length < 4 := by omega
    have h2 := readBE_full (o.data.drop 4) 4
    have hn2 : ¬ (o.data.drop 4).length < 4 := by simp only [List.length_drop]; omega
    simp only [hn1, if_false] at h1
    simp only [hn2, if_false] at h2
    rw [h] at h1
    exact ⟨(Cursor.beNat (o.data.take 4), Cursor.beNat ((o.data.drop 4).take 4)),
      by simp only [h, bne_self_eq_false, Bool.false_eq_true, if_false, Cursor.ofBytes, h1, bind, Out.bind, h2, pure]⟩
  · right; left; simp [h]

/-- the word loop of `convert_vector<uint32_t>` on a stream holding a multiple of 4 bytes: always a list, never a fault,
    and the fuel `data_size + 1` is never exhausted -/
theorem tcp_decodeWords_safe (fuel : Nat) (m : Bytes) (hm : m.length % 4 = 0) (hf : m.length < fuel) :
    ∃ l, Tcp.decodeWords fuel ⟨m, m.length⟩ = .ok l := by
  induction fuel generalizing m with
  | zero => omega
  | succ f ih =>
    unfold Tcp.decodeWords
    by_cases hb : (⟨m, m.length⟩ : Cursor).toBool = true
    · have hpos : m.length > 0 := by simpa [Cursor.toBool] using hb
      have hn : ¬ m.length < 4 := by omega
      have h1 := readBE_full m 4
      simp only [hn, if_false] at h1
      rcases ih (m.drop 4) (by simp only [List.length_drop]; omega) (by simp only [List.length_drop]; omega) with ⟨l, hl⟩
      exact ⟨Cursor.beNat (m.take 4) :: l,
        by simp only [hb, Bool.not_true, Bool.false_eq_true, if_false, h1, bind, Out.bind, hl, pure]⟩
    · exact ⟨[], by simp only [hb, Bool.not_false, if_true]⟩

theorem tcp_decodeSack_safe (o : TcpOpt) : AccSafe (Tcp.decodeSack o) := by
  unfold Tcp.decodeSack
  by_cases h : o.data.length % 4 = 0
  · left
    rcases tcp_decodeWords_safe (o.data.length + 1) o.data h (by omega) with ⟨l, hl⟩
    exact ⟨l, by simp only [h, bne_self_eq_false, Bool.false_eq_true, if_false, Cursor.ofBytes, hl]⟩
  · right; left; simp [h]

/-- **C01 / TCP accessors**: `mss()`, `winscale()`, `sack()`, `timestamp()`, `altchecksum()` on every TCP object (option
    present or not, well-formed or not) return a value or throw `option_not_found` / `malformed_option` -/
theorem tcp_typedGet_safe {α} (t : Tcp) (code : Nat) (dec : TcpOpt → Out α) (hd : ∀ o, AccSafe (dec o)) :
    AccSafe (t.typedGet code dec) := by
  unfold Tcp.typedGet
  split
  · right; right; rfl
  · exact hd _

example : Tcp.decodeSack ⟨5, 3, [1, 2, 3]⟩ = .throw .malformedOption := rfl
example : Tcp.decodeSack ⟨5, 8, [0, 0, 0, 1, 0, 0, 0, 2]⟩ = .ok [1, 2] := rfl

/-! ### scalar setters: a last-write map -/

/-- the scalar getters of TCP by name -/
def Tcp.get (t : Tcp) : String → Option Nat
  | "sport" => some t.sport
  | "dport" => some t.dport
  | "seq" => some t.seq
  | "ack_seq" => some t.ackSeq
  | "window" => some t.window
  | "urg_ptr" => some t.urgPtr
  | "data_offset" => some t.doff
  | "flags" => some t.flags
  | _ => none

/-- width of the C++ parameter type of each scalar setter -/
def Tcp.width : String → Nat
  | "seq" => 4294967296
  | "ack_seq" => 4294967296
  | "data_offset" => 16
  | "flags" => 4096
  | _ => 65536

theorem tcp_setFlags_flags (t : Tcp) (v : Nat) : (t.setFlags v).flags = v % 4096 := by
  simp only [Tcp.setFlags, Tcp.flags]; omega

/-- **last-write map, one step**: a scalar setter changes exactly its own getter, to the value given (truncated to the
    parameter type); every other scalar getter and the option list are unchanged -/
theorem tcp_setter_spec (t t' : Tcp) (f v : String) (n : Nat) (hv : v.toNat? = some n) (hf : (t.get f).isSome)
    (ha : t.apply [f, v] = .ok t') :
    (∀ g, (t.get g).isSome → t'.get g = if g = f then some (n % Tcp.width f) else t.get g) ∧ t'.opts = t.opts := by
  have hv' : Tcp.natArg v = some n := hv
  unfold Tcp.get at hf
  split at hf
  iterate 8 (
    · simp only [Tcp.apply, hv'] at ha
      injection ha with ha; subst ha
      refine ⟨fun g hg => ?_, rfl⟩
      unfold Tcp.get at hg
      split at hg <;> first
        | (simp [Tcp.get, Tcp.width, Tcp.flags, Tcp.setFlags]; done)
        | (simp only [Tcp.get, Tcp.width, Tcp.flags, Tcp.setFlags]; simp; omega)
        | (exact absurd hg (by simp)))
  · exact absurd hf (by simp)

/-! ### flag accessors -/

/-- `get_flag` after `set_flag`: the addressed bit holds the value, every other bit is unchanged -/
theorem tcp_getBit_setBit (f k j v : Nat) (hk : k < 8) (hj : j < 8) (hf : f < 256) :
    Tcp.getBit (Tcp.setBit f k v) j = if j = k then v % 2 else Tcp.getBit f j := by
  have hk' : k = 0 ∨ k = 1 ∨ k = 2 ∨ k = 3 ∨ k = 4 ∨ k = 5 ∨ k = 6 ∨ k = 7 := by omega
  have hj' : j = 0 ∨ j = 1 ∨ j = 2 ∨ j = 3 ∨ j = 4 ∨ j = 5 ∨ j = 6 ∨ j = 7 := by omega
  rcases hk' with h | h | h | h | h | h | h | h <;> subst h <;>
    rcases hj' with h | h | h | h | h | h | h | h <;> subst h <;>
      simp only [Tcp.getBit, Tcp.setBit] <;> simp <;> omega

/-- `set_flag` never touches the four reserved bits: `flags() >> 8` is unchanged -/
theorem tcp_setFlag_res1 (t : Tcp) (f v : Nat) : (t.setFlag f v).res1 = t.res1 := by
  unfold Tcp.setFlag
  repeat' split
  all_goals rfl

/-- `flags(v)` then `get_flag`: bit `k` of the value -/
theorem tcp_setFlags_getBit (t : Tcp) (v k : Nat) (hk : k < 8) : Tcp.getBit (t.setFlags v).flags8 k = v / 2 ^ k % 2 := by
  have hk' : k = 0 ∨ k = 1 ∨ k = 2 ∨ k = 3 ∨ k = 4 ∨ k = 5 ∨ k = 6 ∨ k = 7 := by omega
  rcases hk' with h | h | h | h | h | h | h | h <;> subst h <;> simp only [Tcp.setFlags, Tcp.getBit] <;> omega

/-- non-vacuity -/
example : (Tcp.create 80 1234).Inv := tcp_create_inv _ _
example : ((Tcp.create 80 1234).addOption (Tcp.encodeMss 1460)).typedGet Tcp.MSS Tcp.decodeU16 = .ok 1460 := rfl
example : Tcp.ReprSack [1, 4294967295, 7] := ⟨by decide, by decide⟩
example : ∃ o, Tcp.encodeSack [1, 2] = .ok o ∧ o.data = [0, 0, 0, 1, 0, 0, 0, 2] := ⟨_, rfl, rfl⟩
example : ((Tcp.create 0 0).setFlag 2 1).flags = 2 := rfl

end Tins.Wire.Transport
