import TinsModel.Wire.Transport.ThTcpParse
/-
  TCP, property C02: the size function (`calculate_options_size` + `pad_options_size`, hence `header_size()`) equals the
  bytes `write_serialization` emits, for every option list (induction over the list) — so the writer rewrites exactly
  its own header bytes on every region that is large enough, whenever the option area fits the 4-bit data offset
  (`optsSum ≤ 40`).  Beyond 40 bytes `write_serialization` throws: known finding KF-C02-WTcp-1 (`tcp_serialize_total_fails`).
-/
namespace Tins.Wire.Transport
open Tins Tins.Wire

namespace Tcp

/-- the bytes `write_option` emits for one option -/
def optBytes (o : TcpOpt) : Bytes :=
  UInt8.ofNat o.code :: (if o.code > 1 then UInt8.ofNat (lengthOctet o) :: o.data else [])

def optsBytes (os : List TcpOpt) : Bytes := os.flatMap optBytes

/-- option area rounded up to a multiple of 4 -/
def padded (s : Nat) : Nat := (s + 3) / 4 * 4

/-- the first 16 header bytes (everything before the checksum) -/
def preBytes (t : Tcp) : Bytes :=
  OutCursor.beBytes 2 t.sport ++ OutCursor.beBytes 2 t.dport ++ OutCursor.beBytes 4 t.seq ++ OutCursor.beBytes 4 t.ackSeq ++
  [UInt8.ofNat (t.doff * 16 + t.res1), UInt8.ofNat t.flags8] ++ OutCursor.beBytes 2 t.window

end Tcp

/-- **size function = writer, one option**: `calculate_options_size` counts exactly what `write_option` writes -/
theorem tcp_optBytes_length (o : TcpOpt) : (Tcp.optBytes o).length = Tcp.optSize o := by
  unfold Tcp.optBytes Tcp.optSize
  split <;> simp <;> omega

/-- **size function = writer, every option list** -/
theorem tcp_optsBytes_length (os : List TcpOpt) : (Tcp.optsBytes os).length = Tcp.optsSum os := by
  induction os with
  | nil => rfl
  | cons o os ih =>
    simp only [Tcp.optsBytes, List.flatMap_cons, List.length_append, tcp_optBytes_length, Tcp.optsSum] at *
    omega

theorem tcp_optsBytes_append (a b : List TcpOpt) : Tcp.optsBytes (a ++ b) = Tcp.optsBytes a ++ Tcp.optsBytes b := by
  simp [Tcp.optsBytes, List.flatMap_append]

theorem tcp_writeOpt_ok (o : OutCursor) (op : TcpOpt) (hi : o.Inv) (hs : Tcp.optSize op ≤ o.size) :
    Tcp.writeOpt o op = .ok ⟨o.done ++ Tcp.optBytes op, o.rest.drop (Tcp.optSize op), o.size - Tcp.optSize op⟩ ∧
      (⟨o.done ++ Tcp.optBytes op, o.rest.drop (Tcp.optSize op), o.size - Tcp.optSize op⟩ : OutCursor).Inv := by
  have hinv : (⟨o.done ++ Tcp.optBytes op, o.rest.drop (Tcp.optSize op), o.size - Tcp.optSize op⟩ : OutCursor).Inv := by
    simp only [OutCursor.Inv, List.length_drop] at hi ⊢; omega
  refine ⟨?_, hinv⟩
  unfold Tcp.writeOpt
  by_cases hc : op.code > 1
  · have hsz : Tcp.optSize op = 1 + (1 + op.data.length) := by simp [Tcp.optSize, hc]
    rw [hsz] at hs
    rcases owrite_ok o [UInt8.ofNat op.code] hi (by simp; omega) with ⟨w1, i1⟩
    rcases owrite_ok _ [UInt8.ofNat (Tcp.lengthOctet op)] i1 (by simp; omega) with ⟨w2, i2⟩
    rcases owrite_ok _ op.data i2 (by simp; omega) with ⟨w3, _⟩
    simp only [List.length_cons, List.length_nil] at w1 w2 w3
    simp only [w1, Out.bind_ok, hc, if_true, w2, w3, hsz]
    have hb : Tcp.optBytes op = [UInt8.ofNat op.code] ++ ([UInt8.ofNat (Tcp.lengthOctet op)] ++ op.data) := by
      simp [Tcp.optBytes, hc]
    simp only [hb, List.append_assoc, List.drop_drop, Out.ok.injEq, OutCursor.mk.injEq, true_and]
    exact ⟨by congr 1; omega, by omega⟩
  · have hsz : Tcp.optSize op = 1 := by simp [Tcp.optSize, hc]
    rw [hsz] at hs
    rcases owrite_ok o [UInt8.ofNat op.code] hi (by simp; omega) with ⟨w1, _⟩
    simp only [List.length_cons, List.length_nil] at w1
    have hb : Tcp.optBytes op = [UInt8.ofNat op.code] := by simp [Tcp.optBytes, hc]
    simp only [w1, Out.bind_ok, hc, if_false, Out.pure_eq, hsz, hb]

/-- the `for` loop over the options writes their concatenated encodings (any number of options, induction) -/
theorem tcp_writeOpts_ok (os : List TcpOpt) (o : OutCursor) (hi : o.Inv) (hs : Tcp.optsSum os ≤ o.size) :
    Tcp.writeOpts o os = .ok ⟨o.done ++ Tcp.optsBytes os, o.rest.drop (Tcp.optsSum os), o.size - Tcp.optsSum os⟩ ∧
      (⟨o.done ++ Tcp.optsBytes os, o.rest.drop (Tcp.optsSum os), o.size - Tcp.optsSum os⟩ : OutCursor).Inv := by
  have hinv : (⟨o.done ++ Tcp.optsBytes os, o.rest.drop (Tcp.optsSum os), o.size - Tcp.optsSum os⟩ : OutCursor).Inv := by
    simp only [OutCursor.Inv, List.length_drop] at hi ⊢; omega
  refine ⟨?_, hinv⟩
  induction os generalizing o with
  | nil => simp [Tcp.writeOpts, Tcp.optsSum, Tcp.optsBytes]
  | cons op os ih =>
    simp only [Tcp.optsSum] at hs
    rcases tcp_writeOpt_ok o op hi (by omega) with ⟨w1, i1⟩
    have w2 := ih _ i1 (by simp only; omega) (by simp only [OutCursor.Inv, List.length_drop] at hi ⊢; omega)
    simp only [Tcp.writeOpts, w1, Out.bind_ok, w2, Tcp.optsSum]
    have hb : Tcp.optsBytes (op :: os) = Tcp.optBytes op ++ Tcp.optsBytes os := by simp [Tcp.optsBytes]
    simp only [hb, List.append_assoc, List.drop_drop, Out.ok.injEq, OutCursor.mk.injEq, true_and]
    omega

/-! ### the size arithmetic under the 40-byte limit -/

theorem tcp_padded_spec (s : Nat) : s ≤ Tcp.padded s ∧ Tcp.padded s < s + 4 ∧ Tcp.padded s % 4 = 0 := by
  unfold Tcp.padded; omega

theorem tcp_padOptionsSize_eq (s : Nat) (h : s ≤ 4294967290) : Tcp.padOptionsSize s = Tcp.padded s := by
  unfold Tcp.padOptionsSize Tcp.padded
  by_cases hp : s % 4 = 0
  · simp only [hp, bne_self_eq_false, Bool.false_eq_true, if_false]; omega
  · have : (s % 4 != 0) = true := by simpa using hp
    simp only [this, if_true]; omega

theorem tcp_hdr_eq (t : Tcp) (hs : Tcp.optsSum t.opts ≤ 40) : t.hdr = 20 + Tcp.padded (Tcp.optsSum t.opts) := by
  have hp := tcp_padded_spec (Tcp.optsSum t.opts)
  have h1 : Tcp.optsSum t.opts % 4294967296 = Tcp.optsSum t.opts := Nat.mod_eq_of_lt (by omega)
  unfold Tcp.hdr Tcp.calcOptionsSize
  rw [h1, tcp_padOptionsSize_eq _ (by omega), Nat.mod_eq_of_lt (by omega)]

theorem tcp_preBytes_length (t : Tcp) : (Tcp.preBytes t).length = 16 := by simp [Tcp.preBytes]

theorem tcp_headerBytes_split (t : Tcp) :
    t.headerBytes = Tcp.preBytes t ++ OutCursor.beBytes 2 t.check ++ OutCursor.beBytes 2 t.urgPtr := rfl

theorem tcp_headerBytes_length (t : Tcp) : t.headerBytes.length = 20 := by
  simp [tcp_headerBytes_split, tcp_preBytes_length]

/-- the stream part of `write_serialization` — header, options, zero padding — followed by any continuation `k` on the
    buffer: it lays down `HB ++ options ++ padding` and leaves the rest of the region as it was -/
theorem tcp_stream_ok (region HB : Bytes) (os : List TcpOpt) (S P : Nat) (k : Bytes → Out Bytes)
    (hHB : HB.length = 20) (hS : Tcp.optsSum os = S) (hSP : S ≤ P) (hP : P < S + 4) (hr : 20 + P ≤ region.length) :
    ((OutCursor.ofRegion region).write HB >>= fun o => Tcp.writeOpts o os >>= fun o =>
        if S < P then (o.fill ((P - S) % 65536) 0 >>= fun o => k o.buffer) else ((pure o : Out OutCursor) >>= fun o => k o.buffer))
      = k (HB ++ Tcp.optsBytes os ++ List.replicate (P - S) 0 ++ region.drop (20 + P)) := by
  have o0 : (OutCursor.ofRegion region).Inv := by simp [OutCursor.ofRegion, OutCursor.Inv]
  rcases owrite_ok (OutCursor.ofRegion region) HB o0 (by simp only [OutCursor.ofRegion, hHB]; omega) with ⟨w1, i1⟩
  rcases tcp_writeOpts_ok os _ i1 (by simp only [OutCursor.ofRegion, hHB, hS]; omega) with ⟨w2, i2⟩
  rw [hS] at w2 i2
  rcases ofill_ok _ (P - S) 0 i2 (by simp only [OutCursor.ofRegion, hHB]; omega) with ⟨w3, _⟩
  rw [w1, Out.bind_ok, w2, Out.bind_ok]
  by_cases hlt : S < P
  · have hm : (P - S) % 65536 = P - S := Nat.mod_eq_of_lt (by omega)
    simp only [hlt, if_true, hm]
    rw [w3, Out.bind_ok]
    congr 1
    simp only [OutCursor.buffer, OutCursor.ofRegion, List.nil_append, hHB, List.drop_drop, List.append_assoc]
    congr 4; omega
  · have hz : P - S = 0 := by omega
    simp only [hlt, if_false, Out.pure_eq, Out.bind_ok, hz, List.replicate_zero, List.append_nil]
    congr 1
    simp only [OutCursor.buffer, OutCursor.ofRegion, List.nil_append, hHB, List.drop_drop, List.append_assoc]
    congr 3; omega

/-- closed form of `TCP::write_serialization` when the options fit: header with the derived data offset and checksum,
    the options as `write_option` encodes them, zero padding to a multiple of 4 — and the rest of the region untouched -/
theorem tcp_write_eq (cx : Ctx) (t : Tcp) (hs : Tcp.optsSum t.opts ≤ 40) (region : Bytes) (hr : t.hdr ≤ region.length) :
    ∃ c, c < 65536 ∧ t.write cx region =
      .ok (({ t with doff := (20 + Tcp.padded (Tcp.optsSum t.opts)) / 4, check := c } : Tcp).headerBytes ++
            Tcp.optsBytes t.opts ++ List.replicate (Tcp.padded (Tcp.optsSum t.opts) - Tcp.optsSum t.opts) 0 ++
            region.drop t.hdr) := by
  have hp := tcp_padded_spec (Tcp.optsSum t.opts)
  have hh := tcp_hdr_eq t hs
  rw [hh] at hr
  have hcalc : Tcp.calcOptionsSize t.opts = Tcp.optsSum t.opts := Nat.mod_eq_of_lt (by omega)
  have hpad : Tcp.padOptionsSize (Tcp.optsSum t.opts) = Tcp.padded (Tcp.optsSum t.opts) :=
    tcp_padOptionsSize_eq _ (by omega)
  have hnd : ¬ (20 + Tcp.padded (Tcp.optsSum t.opts)) % 4294967296 / 4 > 15 := by omega
  have hnd' : ¬ (20 + Tcp.padded (Tcp.optsSum t.opts)) / 4 > 15 := by omega
  have hmod : (20 + Tcp.padded (Tcp.optsSum t.opts)) % 4294967296 = 20 + Tcp.padded (Tcp.optsSum t.opts) :=
    Nat.mod_eq_of_lt (by omega)
  generalize hS : Tcp.optsSum t.opts = S at *
  generalize hP : Tcp.padded S = P at *
  have hb := tcp_headerBytes_length ({ t with check := 0, doff := (20 + P) / 4 } : Tcp)
  have hw : t.write cx region =
      (fun r1 : Bytes => match Tcp.pseudoOf cx (t.hdr + cx.innerSize) with
       | none => (pure r1 : Out Bytes)
       | some ps => poke "TCP::write_serialization ((tcp_header*)buffer)->check" r1 16
           (le16 (not16 (fold16 ((ps + sumRange r1) % 4294967296)))))
        (({ t with check := 0, doff := (20 + P) / 4 } : Tcp).headerBytes ++ Tcp.optsBytes t.opts ++
          List.replicate (P - S) 0 ++ region.drop (20 + P)) := by
    unfold Tcp.write
    simp only [hcalc, hpad, hnd', if_false, hmod]
    exact tcp_stream_ok region _ t.opts S P (fun r1 : Bytes => match Tcp.pseudoOf cx (t.hdr + cx.innerSize) with
       | none => (pure r1 : Out Bytes)
       | some ps => poke "TCP::write_serialization ((tcp_header*)buffer)->check" r1 16
           (le16 (not16 (fold16 ((ps + sumRange r1) % 4294967296))))) hb hS hp.1 hp.2.1 hr
  rw [hw, hh]
  simp only
  split
  · exact ⟨0, by decide, rfl⟩
  · rename_i ps _
    generalize not16 (fold16 ((ps + sumRange _) % 4294967296)) = v
    refine ⟨swap16 v, swap16_lt v, ?_⟩
    rw [tcp_headerBytes_split, tcp_headerBytes_split, le16_eq_be_swap]
    simp only [List.append_assoc]
    have := poke_mid "TCP::write_serialization ((tcp_header*)buffer)->check"
      (Tcp.preBytes ({ t with check := 0, doff := (20 + P) / 4 } : Tcp)) (OutCursor.beBytes 2 0)
      (OutCursor.beBytes 2 (swap16 v))
      (OutCursor.beBytes 2 t.urgPtr ++ (Tcp.optsBytes t.opts ++ (List.replicate (P - S) 0 ++ List.drop (20 + P) region)))
      16 (tcp_preBytes_length _) (by simp)
    simpa [List.append_assoc, Tcp.preBytes] using this

def tcpSem (cx : Ctx) (t : Tcp) : LayerSem := { name := "TCP", hdr := t.hdr, trl := 0, write := t.write cx }

/-- length of what `write_serialization` lays down in front of the untouched rest -/
theorem tcp_written_length (t' : Tcp) (os : List TcpOpt) :
    (t'.headerBytes ++ Tcp.optsBytes os ++ List.replicate (Tcp.padded (Tcp.optsSum os) - Tcp.optsSum os) (0 : UInt8)).length
      = 20 + Tcp.padded (Tcp.optsSum os) := by
  have hp := tcp_padded_spec (Tcp.optsSum os)
  simp only [List.length_append, tcp_headerBytes_length, tcp_optsBytes_length, List.length_replicate]; omega

/-- **C02 / TCP**: for every option list that fits the 40-byte option area (any kinds, any advertised lengths, END/NOP
    with or without data), in every context (with or without an IP / IPv6 parent), `write_serialization` succeeds on every
    region of at least `header_size()` bytes, keeps its length and rewrites exactly the `header_size()` header bytes -/
theorem tcp_writesOnly (cx : Ctx) (t : Tcp) (hs : Tcp.optsSum t.opts ≤ 40) : WritesOnly (tcpSem cx t) := by
  apply writesOnly_of_header_only _ rfl
  intro region hr
  simp only [tcpSem] at hr
  rcases tcp_write_eq cx t hs region hr with ⟨c, _, hw⟩
  have hh := tcp_hdr_eq t hs
  have hl := tcp_written_length ({ t with doff := (20 + Tcp.padded (Tcp.optsSum t.opts)) / 4, check := c } : Tcp) t.opts
  refine ⟨_, hw, ?_, ?_⟩
  · rw [List.length_append, hl, List.length_drop, hh]; omega
  · simp only [tcpSem]
    rw [hh]; exact drop_append_len _ _ _ hl

/-! ### known finding KF-C02-WTcp-1: more than 40 bytes of options cannot be serialized -/

/-- full statement: `write_serialization` of every TCP object the API can build meets the C02 obligation -/
def tcp_serialize_total : Prop := ∀ (cx : Ctx) (t : Tcp), t.Inv → WritesOnly (tcpSem cx t)

/-- witness: a fresh TCP with one 39-byte option (41 bytes on the wire, `header_size()` = 64) -/
def tcpOver40 : Tcp := (Tcp.create 80 1234).addOption ⟨253, 39, List.replicate 39 0⟩

theorem tcpOver40_throws : tcpOver40.write ⟨[], []⟩ (List.replicate 64 0) = .throw .serializationError := by rfl

theorem tcp_serialize_total_fails : ¬ tcp_serialize_total := by
  intro h
  have hinv : tcpOver40.Inv := by
    refine ⟨by decide, by decide, by decide, by decide, by decide, by decide, by decide, by decide, by decide, by decide, ?_⟩
    intro o ho
    simp only [tcpOver40, Tcp.addOption, Tcp.create, List.nil_append, List.mem_singleton] at ho
    subst ho; exact ⟨by decide, by decide, by decide⟩
  rcases h ⟨[], []⟩ tcpOver40 hinv (List.replicate 64 0) (by decide) with ⟨out, ho, _⟩
  have ht := tcpOver40_throws
  simp only [tcpSem] at ho
  rw [ht] at ho
  cases ho

/-- the proved part (`tcp_serialize_total_partial`): everything whose options fit the option area -/
theorem tcp_serialize_total_partial (cx : Ctx) (t : Tcp) (_ : t.Inv) (hs : Tcp.optsSum t.opts ≤ 40) :
    WritesOnly (tcpSem cx t) := tcp_writesOnly cx t hs

/-- non-vacuity: kind 34 without data (DESIGN §7 #10) is counted and written as 2 bytes, padded to 4; the payload byte
    behind the header is untouched -/
example : ((Tcp.create 80 1234).addOption ⟨34, 0, []⟩).hdr = 24 := rfl
example : ∃ out, ((Tcp.create 80 1234).addOption ⟨34, 0, []⟩).write ⟨[], []⟩ (List.replicate 24 0 ++ [0xaa]) = .ok out ∧
    out.drop 20 = [34, 2, 0, 0, 0xaa] := ⟨_, rfl, rfl⟩
example : Tcp.optsSum [⟨2, 2, [5, 0xb4]⟩, ⟨1, 0, []⟩, ⟨4, 0, []⟩] ≤ 40 := by decide

end Tins.Wire.Transport
