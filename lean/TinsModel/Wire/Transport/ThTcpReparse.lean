import TinsModel.Wire.Transport.ThTcpWrite
/-
  TCP, property C03 (and the wire half of C04): parsing what `write_serialization` produced gives back every header
  field, the option list (order, kinds, bytes) and the payload; only the derived fields (data offset, checksum) and the
  alignment padding are libtins' own.  Option-list round trip by induction over the list; the zero padding is read back
  as END.
-/
namespace Tins.Wire.Transport
open Tins Tins.Wire

namespace Tcp

/-- the getters that must survive parse ∘ serialize: everything except the data offset and the checksum -/
def view (t : Tcp) : (Nat × Nat × Nat × Nat) × (Nat × Nat × Nat × Nat) × List TcpOpt :=
  ((t.sport, t.dport, t.seq, t.ackSeq), (t.res1, t.flags8, t.window, t.urgPtr), t.opts)

end Tcp

theorem byteAt_drop (b : Bytes) (k i : Nat) : byteAt (b.drop k) i = byteAt b (k + i) := by
  simp [byteAt, List.getD_eq_getElem?_getD, List.getElem?_drop]

theorem beNat_singleton_ofNat (n : Nat) (h : n < 256) : Cursor.beNat [UInt8.ofNat n] = n := by
  simp [Cursor.beNat, UInt8.toNat_ofNat', Nat.mod_eq_of_lt h]

/-- decoding the 20 header bytes of an object satisfying the invariant gives its header fields back (no options yet) -/
theorem tcp_ofHeader_headerBytes (t : Tcp) (h : t.Inv) : Tcp.ofHeader t.headerBytes = { t with opts := [] } := by
  have e : t.headerBytes = OutCursor.beBytes 2 t.sport ++ (OutCursor.beBytes 2 t.dport ++ (OutCursor.beBytes 4 t.seq ++
      (OutCursor.beBytes 4 t.ackSeq ++ ([UInt8.ofNat (t.doff * 16 + t.res1), UInt8.ofNat t.flags8] ++
      (OutCursor.beBytes 2 t.window ++ (OutCursor.beBytes 2 t.check ++ OutCursor.beBytes 2 t.urgPtr)))))) := by
    simp [Tcp.headerBytes, List.append_assoc]
  generalize t.headerBytes = H at e
  have l0 : (OutCursor.beBytes 2 t.sport).length = 2 := by simp
  have l1 : (OutCursor.beBytes 2 t.dport).length = 2 := by simp
  have l2 : (OutCursor.beBytes 4 t.seq).length = 4 := by simp
  have l3 : (OutCursor.beBytes 4 t.ackSeq).length = 4 := by simp
  have l5 : (OutCursor.beBytes 2 t.window).length = 2 := by simp
  have l6 : (OutCursor.beBytes 2 t.check).length = 2 := by simp
  have l7 : (OutCursor.beBytes 2 t.urgPtr).length = 2 := by simp
  have v0 := beNat_beBytes 2 t.sport
  have v1 := beNat_beBytes 2 t.dport
  have v2 := beNat_beBytes 4 t.seq
  have v3 := beNat_beBytes 4 t.ackSeq
  have v5 := beNat_beBytes 2 t.window
  have v6 := beNat_beBytes 2 t.check
  have v7 := beNat_beBytes 2 t.urgPtr
  generalize OutCursor.beBytes 2 t.sport = A0 at *
  generalize OutCursor.beBytes 2 t.dport = A1 at *
  generalize OutCursor.beBytes 4 t.seq = A2 at *
  generalize OutCursor.beBytes 4 t.ackSeq = A3 at *
  generalize OutCursor.beBytes 2 t.window = A5 at *
  generalize OutCursor.beBytes 2 t.check = A6 at *
  generalize OutCursor.beBytes 2 t.urgPtr = A7 at *
  generalize hA4 : [UInt8.ofNat (t.doff * 16 + t.res1), UInt8.ofNat t.flags8] = A4 at *
  have l4 : A4.length = 2 := by rw [← hA4]; rfl
  have d2 : H.drop 2 = A1 ++ (A2 ++ (A3 ++ (A4 ++ (A5 ++ (A6 ++ A7))))) := by rw [e]; exact drop_append_len _ _ 2 l0
  have d4 : H.drop 4 = A2 ++ (A3 ++ (A4 ++ (A5 ++ (A6 ++ A7)))) := by
    rw [show (4 : Nat) = 2 + 2 by rfl, ← List.drop_drop, d2]; exact drop_append_len _ _ 2 l1
  have d8 : H.drop 8 = A3 ++ (A4 ++ (A5 ++ (A6 ++ A7))) := by
    rw [show (8 : Nat) = 4 + 4 by rfl, ← List.drop_drop, d4]; exact drop_append_len _ _ 4 l2
  have d12 : H.drop 12 = A4 ++ (A5 ++ (A6 ++ A7)) := by
    rw [show (12 : Nat) = 8 + 4 by rfl, ← List.drop_drop, d8]; exact drop_append_len _ _ 4 l3
  have d14 : H.drop 14 = A5 ++ (A6 ++ A7) := by
    rw [show (14 : Nat) = 12 + 2 by rfl, ← List.drop_drop, d12]; exact drop_append_len _ _ 2 l4
  have d16 : H.drop 16 = A6 ++ A7 := by
    rw [show (16 : Nat) = 14 + 2 by rfl, ← List.drop_drop, d14]; exact drop_append_len _ _ 2 l5
  have d18 : H.drop 18 = A7 := by
    rw [show (18 : Nat) = 16 + 2 by rfl, ← List.drop_drop, d16]; exact drop_append_len _ _ 2 l6
  have hd := h.doff; have hr := h.res1
  have b12 : byteAt H 12 = t.doff * 16 + t.res1 := by
    have := byteAt_drop H 12 0
    rw [d12, Nat.add_zero] at this
    rw [← this, ← hA4]
    simp only [List.cons_append, byteAt_cons_zero]
    exact ofNat_toNat_lt _ (by omega)
  have b13 : byteAt H 13 = t.flags8 := by
    have := byteAt_drop H 12 1
    rw [d12] at this
    rw [← this, ← hA4]
    simp only [List.cons_append, byteAt_cons_succ, byteAt_cons_zero]
    exact ofNat_toNat_lt _ h.flags8
  unfold Tcp.ofHeader
  rw [d2, d4, d8, d14, d16, d18, b12, b13]
  rw [e, take_append_len _ _ 2 l0, take_append_len _ _ 2 l1, take_append_len _ _ 4 l2,
    take_append_len _ _ 4 l3, take_append_len _ _ 2 l5, take_append_len _ _ 2 l6,
    List.take_of_length_le (by omega)]
  have m1 : t.sport % 256 ^ 2 = t.sport := Nat.mod_eq_of_lt h.sport
  have m2 : t.dport % 256 ^ 2 = t.dport := Nat.mod_eq_of_lt h.dport
  have m3 : t.seq % 256 ^ 4 = t.seq := Nat.mod_eq_of_lt h.seq
  have m4 : t.ackSeq % 256 ^ 4 = t.ackSeq := Nat.mod_eq_of_lt h.ackSeq
  have m5 : t.window % 256 ^ 2 = t.window := Nat.mod_eq_of_lt h.window
  have m6 : t.check % 256 ^ 2 = t.check := Nat.mod_eq_of_lt h.check
  have m7 : t.urgPtr % 256 ^ 2 = t.urgPtr := Nat.mod_eq_of_lt h.urgPtr
  have q1 : (t.doff * 16 + t.res1) / 16 = t.doff := by omega
  have q2 : (t.doff * 16 + t.res1) % 16 = t.res1 := by omega
  rw [v0, v1, v2, v3, v5, v6, v7, m1, m2, m3, m4, m5, m6, m7, q1, q2]

/-- one round of the option loop -/
theorem tcp_parseOpts_succ (fuel : Nat) (c : Cursor) (pos hend : Nat) (acc : List TcpOpt) :
    Tcp.parseOpts (fuel + 1) c pos hend acc =
      (if !(pos < hend) then .ok (c, acc) else do
        let (t, c) ← c.readU8
        let pos := pos + 1
        if t == Tcp.EOL then
          if pos > hend then .throw .malformedPacket else do
          let c ← c.skip (hend - pos)
          pure (c, acc)
        else if t == Tcp.NOP then
          Tcp.parseOpts fuel c pos hend (acc ++ [⟨t, 0, []⟩])
        else do
          let (len, c) ← c.readU8
          let dataStart := pos + 1
          if len < 2 then .throw .malformedPacket else
          let len := len - 2
          if dataStart + len > hend then .throw .malformedPacket else do
          let d ← c.peek "TCP::TCP add_option(option_type, data_start, data_start + len)" 0 len
          let c ← c.skip len
          Tcp.parseOpts fuel c (dataStart + len) hend (acc ++ [⟨t, len, d⟩])) := rfl

/-- `stream.read<uint8_t>()` of a known first byte -/
theorem readU8_cons (x : UInt8) (m : Bytes) (k : Nat) (hk : 1 ≤ k) :
    (⟨x :: m, k⟩ : Cursor).readU8 = .ok (x.toNat, ⟨m, k - 1⟩) := by
  have := readBE_prefix [x] m k 1 rfl hk
  simpa [Cursor.readU8, beNat_singleton] using this

/-- **option-list round trip**: the parser's option loop run over the writer's encoding of any list of canonical options
    (followed by anything) appends exactly those options, in order, and stops behind them (any number of options:
    induction over the list; one unit of fuel per option) -/
theorem tcp_parseOpts_roundtrip (os : List TcpOpt) (hc : ∀ o ∈ os, Tcp.Canon o) (tail : Bytes) (k pos hend f : Nat)
    (acc : List TcpOpt) (hk : Tcp.optsSum os ≤ k) (hpos : pos + Tcp.optsSum os ≤ hend) :
    Tcp.parseOpts (os.length + f) ⟨Tcp.optsBytes os ++ tail, k⟩ pos hend acc =
      Tcp.parseOpts f ⟨tail, k - Tcp.optsSum os⟩ (pos + Tcp.optsSum os) hend (acc ++ os) := by
  induction os generalizing k pos acc with
  | nil => simp [Tcp.optsBytes, Tcp.optsSum]
  | cons o os ih =>
    have co := hc o List.mem_cons_self
    have hsz1 : 1 ≤ Tcp.optSize o := by unfold Tcp.optSize; omega
    simp only [Tcp.optsSum] at hk hpos
    have hfuel : (o :: os).length + f = (os.length + f) + 1 := by simp only [List.length_cons]; omega
    have hb : Tcp.optsBytes (o :: os) = Tcp.optBytes o ++ Tcp.optsBytes os := by simp [Tcp.optsBytes]
    rw [hfuel, hb, tcp_parseOpts_succ]
    have hlt : pos < hend := by omega
    simp only [hlt, decide_true, Bool.not_true, Bool.false_eq_true, if_false]
    have hcode : (UInt8.ofNat o.code).toNat = o.code := ofNat_toNat_lt _ co.code.2
    have hne0 : (o.code == Tcp.EOL) = false := by
      have := co.code.1; simp [Tcp.EOL]; omega
    by_cases h1 : o.code = 1
    · -- NOP
      have hdat := co.nop h1
      have hlf : o.lenField = 0 := by rw [co.len, hdat]; rfl
      have hob : Tcp.optBytes o = [UInt8.ofNat o.code] := by simp [Tcp.optBytes, h1]
      have hsz : Tcp.optSize o = 1 := by simp [Tcp.optSize, h1]
      have ho : o = ⟨1, 0, []⟩ := by cases o; simp only at h1 hdat hlf; subst h1; subst hdat; subst hlf; rfl
      rw [hob]
      rw [hsz] at hk hpos
      simp only [List.cons_append, List.nil_append, readU8_cons _ _ k (by omega), bind, Out.bind, hcode,
        hne0, Bool.false_eq_true, if_false]
      have hnop : (o.code == Tcp.NOP) = true := by simp [Tcp.NOP, h1]
      simp only [hnop, if_true]
      have := ih (fun x hx => hc x (List.mem_cons_of_mem _ hx)) (k - 1) (pos + 1) (acc ++ [⟨o.code, 0, []⟩]) (by omega) (by omega)
      rw [this]
      have e1 : k - 1 - Tcp.optsSum os = k - Tcp.optsSum (o :: os) := by simp only [Tcp.optsSum, hsz]; omega
      have e2 : pos + 1 + Tcp.optsSum os = pos + Tcp.optsSum (o :: os) := by simp only [Tcp.optsSum, hsz]; omega
      have e3 : acc ++ [(⟨o.code, 0, []⟩ : TcpOpt)] ++ os = acc ++ o :: os := by rw [h1, ← ho]; simp
      rw [e1, e2, e3]
    · -- kind, length octet, data
      have hgt : o.code > 1 := by have := co.code.1; omega
      have hob : Tcp.optBytes o = UInt8.ofNat o.code :: UInt8.ofNat (Tcp.lengthOctet o) :: o.data := by
        simp [Tcp.optBytes, hgt]
      have hsz : Tcp.optSize o = 2 + o.data.length := by simp [Tcp.optSize, hgt]; omega
      have hlo : Tcp.lengthOctet o = o.data.length + 2 := by
        have := co.size
        simp only [Tcp.lengthOctet, co.len, beq_self_eq_true, if_true]; omega
      have hlen : (UInt8.ofNat (Tcp.lengthOctet o)).toNat = o.data.length + 2 := by
        rw [hlo]; exact ofNat_toNat_lt _ (by have := co.size; omega)
      rw [hsz] at hk hpos
      have hnop : (o.code == Tcp.NOP) = false := by simp [Tcp.NOP, h1]
      rw [hob]
      simp only [List.cons_append, readU8_cons _ _ k (by omega), bind, Out.bind, hcode, hne0, Bool.false_eq_true, if_false,
        hnop, readU8_cons _ _ (k - 1) (by omega), hlen]
      have hl2 : ¬ o.data.length + 2 < 2 := by omega
      have hov : ¬ pos + 1 + 1 + o.data.length > hend := by omega
      simp only [hl2, if_false, Nat.add_sub_cancel, hov, List.append_assoc]
      rw [peek_prefix _ o.data _ _ o.data.length rfl, skip_prefix o.data _ _ o.data.length rfl (by omega)]
      simp only []
      have := ih (fun x hx => hc x (List.mem_cons_of_mem _ hx)) (k - 1 - 1 - o.data.length) (pos + 1 + 1 + o.data.length)
        (acc ++ [⟨o.code, o.data.length, o.data⟩]) (by omega) (by omega)
      rw [this]
      have e1 : k - 1 - 1 - o.data.length - Tcp.optsSum os = k - Tcp.optsSum (o :: os) := by
        simp only [Tcp.optsSum, hsz]; omega
      have e2 : pos + 1 + 1 + o.data.length + Tcp.optsSum os = pos + Tcp.optsSum (o :: os) := by
        simp only [Tcp.optsSum, hsz]; omega
      have ho : (⟨o.code, o.data.length, o.data⟩ : TcpOpt) = o := by
        have := co.len; cases o; simp only at this; subst this; rfl
      have e3 : acc ++ [(⟨o.code, o.data.length, o.data⟩ : TcpOpt)] ++ os = acc ++ o :: os := by rw [ho]; simp
      rw [e1, e2, e3]

/-- the zero padding behind the options is read back as END: the loop skips to `header_end` and keeps the list -/
theorem tcp_parseOpts_padding (pad : Nat) (rest : Bytes) (k pos hend f : Nat) (acc : List TcpOpt)
    (hpad : pos + pad = hend) (hk : pad ≤ k) :
    Tcp.parseOpts (f + 1) ⟨List.replicate pad 0 ++ rest, k⟩ pos hend acc = .ok (⟨rest, k - pad⟩, acc) := by
  rw [tcp_parseOpts_succ]
  cases pad with
  | zero =>
    have : ¬ pos < hend := by omega
    simp [this]
  | succ p =>
    have hlt : pos < hend := by omega
    simp only [hlt, decide_true, Bool.not_true, Bool.false_eq_true, if_false, List.replicate_succ, List.cons_append,
      readU8_cons _ _ k (by omega), bind, Out.bind]
    have h0 : ((0 : UInt8).toNat == Tcp.EOL) = true := by decide
    have hng : ¬ pos + 1 > hend := by omega
    simp only [h0, if_true, hng, if_false]
    have hp : hend - (pos + 1) = p := by omega
    rw [hp, skip_prefix (List.replicate p 0) rest (k - 1) p (by simp) (by omega)]
    simp only [pure]
    congr 3; omega

/-- **C03 / TCP**: for every object with canonical options that fit the option area, in every context and on every
    region of at least `header_size()` bytes: `write_serialization` succeeds, and parsing its output gives back the same
    header fields, the same option list and the rest of the region as payload; only the data offset and the checksum are
    libtins' own -/
theorem tcp_reparse (cx : Ctx) (t : Tcp) (hi : t.Inv) (hc : ∀ o ∈ t.opts, Tcp.Canon o) (hs : Tcp.optsSum t.opts ≤ 40)
    (region : Bytes) (hr : t.hdr ≤ region.length) :
    ∃ out c, t.write cx region = .ok out ∧ out.length = region.length ∧
      Tcp.parse out = .ok ({ t with doff := t.hdr / 4, check := c },
                            if region.length > t.hdr then .raw (region.drop t.hdr) else .none) := by
  rcases tcp_write_eq cx t hs region hr with ⟨c, hc16, hw⟩
  have hh := tcp_hdr_eq t hs
  have hp := tcp_padded_spec (Tcp.optsSum t.opts)
  generalize hS : Tcp.optsSum t.opts = S at *
  generalize hP : Tcp.padded S = P at *
  have hI' : ({ t with doff := (20 + P) / 4, check := c } : Tcp).Inv :=
    ⟨hi.sport, hi.dport, hi.seq, hi.ackSeq, by simp only; omega, hi.res1, hi.flags8, hi.window, hc16, hi.urgPtr, hi.opts⟩
  have hHB := tcp_headerBytes_length ({ t with doff := (20 + P) / 4, check := c } : Tcp)
  generalize hHBe : ({ t with doff := (20 + P) / 4, check := c } : Tcp).headerBytes = HB at *
  have hol : (HB ++ Tcp.optsBytes t.opts ++ List.replicate (P - S) 0 ++ region.drop t.hdr).length = region.length := by
    simp only [List.length_append, hHB, tcp_optsBytes_length, hS, List.length_replicate, List.length_drop, hh]; omega
  refine ⟨_, c, hw, hol, ?_⟩
  rw [tcp_parse_unfold, hol]
  have h20 : ¬ region.length < 20 := by omega
  simp only [h20, if_false]
  have htake : (HB ++ Tcp.optsBytes t.opts ++ List.replicate (P - S) 0 ++ region.drop t.hdr).take 20 = HB := by
    rw [List.append_assoc, List.append_assoc]; exact take_append_len _ _ 20 hHB
  have hdrop : (HB ++ Tcp.optsBytes t.opts ++ List.replicate (P - S) 0 ++ region.drop t.hdr).drop 20 =
      Tcp.optsBytes t.opts ++ (List.replicate (P - S) 0 ++ region.drop t.hdr) := by
    rw [List.append_assoc, List.append_assoc]; exact drop_append_len _ _ 20 hHB
  rw [htake, hdrop, ← hHBe, tcp_ofHeader_headerBytes _ hI']
  have hd4 : (20 + P) / 4 * 4 = 20 + P := by omega
  simp only [hd4]
  have hchk : (decide (20 + P > region.length) || decide (20 + P < 20)) = false := by
    have h1 : ¬ 20 + P > region.length := by omega
    have h2 : ¬ 20 + P < 20 := by omega
    simp [h1, h2]
  simp only [hchk, Bool.false_eq_true, if_false]
  -- the option loop: one round per option, then the padding
  have hrt := tcp_parseOpts_roundtrip t.opts hc (List.replicate (P - S) 0 ++ region.drop t.hdr) (region.length - 20) 20 (20 + P)
    (20 + P + 1 - t.opts.length) [] (by rw [hS]; omega) (by rw [hS]; omega)
  have hlenS : t.opts.length ≤ S := by
    rw [← hS]; clear hrt hc hs hi hI' hw hh hp hHB hol htake hdrop hd4 hchk hr hS hHBe
    induction t.opts with
    | nil => simp
    | cons o os ih => simp only [List.length_cons, Tcp.optsSum, Tcp.optSize]; omega
  have hfe : t.opts.length + (20 + P + 1 - t.opts.length) = 20 + P + 1 := by omega
  rw [hfe, hS, List.nil_append] at hrt
  rw [hrt]
  have hf1 : 20 + P + 1 - t.opts.length = (20 + P - t.opts.length) + 1 := by omega
  rw [hf1, tcp_parseOpts_padding (P - S) (region.drop t.hdr) (region.length - 20 - S) (20 + S) (20 + P) _ t.opts
    (by omega) (by omega)]
  simp only [bind, Out.bind, Tcp.finish, toBool_mk]
  have hq : (20 + P) / 4 = t.hdr / 4 := by rw [hh]
  by_cases hgt : region.length > t.hdr
  · have : region.length - 20 - S - (P - S) > 0 := by omega
    simp only [this, decide_true, if_true, hgt]
    rw [rest_mk _ _ _ (by simp only [List.length_drop]; omega)]
    simp only [pure, hq]
    congr 3
    apply List.take_of_length_le
    simp only [List.length_drop]; omega
  · have : ¬ region.length - 20 - S - (P - S) > 0 := by omega
    simp only [this, decide_false, Bool.false_eq_true, if_false, hgt, pure, hq]

/-- the view of the re-parsed packet is the view of the packet that was written -/
theorem tcp_reparse_view (cx : Ctx) (t : Tcp) (hi : t.Inv) (hc : ∀ o ∈ t.opts, Tcp.Canon o) (hs : Tcp.optsSum t.opts ≤ 40)
    (region : Bytes) (hr : t.hdr ≤ region.length) :
    ∃ out t' i, t.write cx region = .ok out ∧ Tcp.parse out = .ok (t', i) ∧ t'.view = t.view := by
  rcases tcp_reparse cx t hi hc hs region hr with ⟨out, c, hw, _, hp⟩
  exact ⟨out, _, _, hw, hp, rfl⟩

/-- **C03 for parsed packets**: whatever the parsing constructor accepted can be written and read back with the same
    view (parsed options are canonical and fit: `tcp_parse_ok`) -/
theorem tcp_parse_reparse (cx : Ctx) (b : Bytes) (t : Tcp) (i : Inner) (h : Tcp.parse b = .ok (t, i)) (region : Bytes)
    (hr : t.hdr ≤ region.length) :
    ∃ out t' i', t.write cx region = .ok out ∧ Tcp.parse out = .ok (t', i') ∧ t'.view = t.view := by
  have hk := tcp_parse_ok b t i h
  exact tcp_reparse_view cx t hk.1 hk.2.1 hk.2.2.1 region hr

/-- non-vacuity: MSS + NOP + window scale, written over a 3-byte payload and read back -/
example : ∃ out t', ((((Tcp.create 80 1234).addOption (Tcp.encodeMss 1460)).addOption ⟨1, 0, []⟩).addOption
      (Tcp.encodeWinscale 7)).write ⟨[], []⟩ (List.replicate 28 0 ++ [1, 2, 3]) = .ok out ∧
    Tcp.parse out = .ok (t', .raw [1, 2, 3]) ∧ t'.opts = [⟨2, 2, [5, 0xb4]⟩, ⟨1, 0, []⟩, ⟨3, 1, [7]⟩] ∧ t'.doff = 7 :=
  ⟨_, _, rfl, rfl, rfl, rfl⟩

/-! ### what the representability predicate `Canon` excludes, executed on the model (and, through the C02 API programs of
    `checks/wire_gen_transport.py`, on the real class): none of these is silently *mis*-encoded — END is the list
    terminator, `write_option` never writes data for END / NOP, a spoofed length field is written as given -/

/-- an END option added through the API terminates the list: the parser (which never stores END) gives back what precedes it -/
example : ∃ out t', (((Tcp.create 80 1234).addOption ⟨0, 0, []⟩).addOption (Tcp.encodeMss 1460)).write ⟨[], []⟩
      (List.replicate 28 0) = .ok out ∧ Tcp.parse out = .ok (t', .none) ∧ t'.opts = [] := ⟨_, _, rfl, rfl, rfl⟩

/-- data attached to a NOP is counted and written as the single kind octet -/
example : ((Tcp.create 80 1234).addOption ⟨1, 2, [7, 7]⟩).hdr = 24 ∧
    ∃ out, ((Tcp.create 80 1234).addOption ⟨1, 2, [7, 7]⟩).write ⟨[], []⟩ (List.replicate 24 0) = .ok out ∧
      out.drop 20 = [1, 0, 0, 0] := ⟨rfl, _, rfl, rfl⟩

/-- a spoofed length field (`option(kind, length, begin, end)`) goes out as given: the packet is deliberately malformed -/
example : ∃ out, ((Tcp.create 80 1234).addOption ⟨30, 9, [1, 2]⟩).write ⟨[], []⟩ (List.replicate 24 0) = .ok out ∧
    out.drop 20 = [30, 9, 1, 2] ∧ Tcp.parse out = .throw .malformedPacket := ⟨_, rfl, rfl, rfl⟩

end Tins.Wire.Transport
