import TinsModel.Wire.Transport.Family
import TinsModel.Basic.CursorLemmas
import TinsModel.Basic.CodecLemmas
import TinsModel.Wire.ChainLemmas
import TinsModel.Wire.IfaceLemmas
/-
  Helper lemmas of the Transport family: the outcome predicate `ParseSafe`, closed forms of the stream operations,
  list slicing facts, integer codec bounds.
-/
namespace Tins.Wire.Transport
open Tins Tins.Wire

/-- outcome classes of a parsing constructor: a packet, or `malformed_packet` — never a fault, never another exception -/
def ParseSafe {α} (r : Out α) : Prop := (∃ a, r = .ok a) ∨ r = .throw .malformedPacket

theorem ParseSafe.ok {α} (a : α) : ParseSafe (Out.ok a) := .inl ⟨a, rfl⟩
theorem ParseSafe.malformed {α} : ParseSafe (Out.throw .malformedPacket : Out α) := .inr rfl

theorem ParseSafe.bind {α β} {x : Out α} {f : α → Out β} (hx : ParseSafe x)
    (hf : ∀ a, x = .ok a → ParseSafe (f a)) : ParseSafe (x >>= f) := by
  rcases hx with ⟨a, rfl⟩ | rfl
  · exact hf a rfl
  · exact .inr rfl

theorem ParseSafe.not_fault {α} {r : Out α} (h : ParseSafe r) : r.isFault = false := by
  rcases h with ⟨a, rfl⟩ | rfl <;> rfl

theorem map_ok {α β} {x : Out α} {f : α → β} {r : β} (h : (x >>= fun a => pure (f a)) = .ok r) :
    ∃ a, x = .ok a ∧ f a = r := by
  cases x with
  | ok a => exact ⟨a, rfl, by simpa [bind, Out.bind, pure] using h⟩
  | throw e => cases h
  | fault s => cases h

/-- outcome of `read_be<T>` / `read<T>` on a stream satisfying the invariant -/
theorem readBE_safe (c : Cursor) (n : Nat) (h : c.Inv) :
    (∃ v c', c.readBE n = .ok (v, c') ∧ c'.Inv ∧ c'.size = c.size - n ∧ n ≤ c.size ∧ c'.mem = c.mem.drop n
        ∧ v = Cursor.beNat (c.mem.take n))
    ∨ (c.readBE n = .throw .malformedPacket ∧ c.size < n) := by
  rcases Cursor.read_spec c n h with ⟨bs, c', he, hi, _, hs, hn, hb, hm⟩ | ⟨he, hlt⟩
  · left; exact ⟨Cursor.beNat bs, c', by simp [Cursor.readBE, he, bind, Out.bind], hi, hs, hn, hm, by rw [hb]⟩
  · right; exact ⟨by simp [Cursor.readBE, he, bind, Out.bind], hlt⟩

theorem readU8_safe (c : Cursor) (h : c.Inv) :
    (∃ v c', c.readU8 = .ok (v, c') ∧ c'.Inv ∧ c'.size = c.size - 1 ∧ 1 ≤ c.size ∧ c'.mem = c.mem.drop 1
        ∧ v = Cursor.beNat (c.mem.take 1))
    ∨ (c.readU8 = .throw .malformedPacket ∧ c.size < 1) := readBE_safe c 1 h

theorem rest_safe (site : String) (c : Cursor) (h : c.Inv) : ∃ bs, Cursor.rest site c = .ok bs ∧ bs = c.mem.take c.size := by
  unfold Cursor.rest rdN
  have h' : c.size ≤ c.mem.length := h
  simp [h']

theorem rest_mk (site : String) (m : Bytes) (k : Nat) (h : k ≤ m.length) : Cursor.rest site ⟨m, k⟩ = .ok (m.take k) := by
  simp [Cursor.rest, rdN, h]

/-- closed form of `read(n)` on a fresh stream over `b` -/
theorem read_ofBytes (b : Bytes) (n : Nat) :
    (Cursor.ofBytes b).read n =
      if b.length < n then .throw .malformedPacket else .ok (b.take n, ⟨b.drop n, b.length - n⟩) := by
  unfold Cursor.read Cursor.canRead Cursor.ofBytes
  by_cases h : b.length < n
  · have : ¬ n ≤ b.length := by omega
    simp [h, this]
  · have : n ≤ b.length := by omega
    simp [h, this]

/-- reading a known prefix off a stream -/
theorem read_prefix (a m : Bytes) (k n : Nat) (hn : a.length = n) (h : n ≤ k) :
    (⟨a ++ m, k⟩ : Cursor).read n = .ok (a, ⟨m, k - n⟩) := by
  subst hn
  simp [Cursor.read, Cursor.canRead, h]

theorem readBE_prefix (a m : Bytes) (k n : Nat) (hn : a.length = n) (h : n ≤ k) :
    (⟨a ++ m, k⟩ : Cursor).readBE n = .ok (Cursor.beNat a, ⟨m, k - n⟩) := by
  simp [Cursor.readBE, read_prefix a m k n hn h, bind, Out.bind]

theorem skip_prefix (a m : Bytes) (k n : Nat) (hn : a.length = n) (h : n ≤ k) :
    (⟨a ++ m, k⟩ : Cursor).skip n = .ok ⟨m, k - n⟩ := by
  subst hn
  have : ¬ a.length > k := by omega
  simp [Cursor.skip, this]

theorem peek_prefix (site : String) (a m : Bytes) (k n : Nat) (hn : a.length = n) :
    (⟨a ++ m, k⟩ : Cursor).peek site 0 n = .ok a := by
  subst hn
  simp [Cursor.peek, rdN]

/-- `read(n)` on a stream that has already consumed the first `k` bytes of `b` -/
theorem read_mk_drop (b : Bytes) (k n : Nat) :
    (⟨b.drop k, b.length - k⟩ : Cursor).read n =
      if b.length - k < n then .throw .malformedPacket
      else .ok ((b.drop k).take n, ⟨b.drop (k + n), b.length - (k + n)⟩) := by
  unfold Cursor.read Cursor.canRead
  by_cases h : b.length - k < n
  · have : ¬ n ≤ b.length - k := by omega
    simp [h, this]
  · have h1 : n ≤ b.length - k := by omega
    have h2 : ¬ (b.drop k).length < n := by simp only [List.length_drop]; omega
    simp only [h1, decide_true, Bool.not_true, h2, h, if_false, Bool.false_eq_true, List.drop_drop]
    congr 3
    omega

theorem readBE_mk_drop (b : Bytes) (k n : Nat) :
    (⟨b.drop k, b.length - k⟩ : Cursor).readBE n =
      if b.length - k < n then .throw .malformedPacket
      else .ok (Cursor.beNat ((b.drop k).take n), ⟨b.drop (k + n), b.length - (k + n)⟩) := by
  unfold Cursor.readBE
  rw [read_mk_drop]
  by_cases h : b.length - k < n <;> simp [h, bind, Out.bind]

theorem ofBytes_eq_mk_drop (b : Bytes) : Cursor.ofBytes b = ⟨b.drop 0, b.length - 0⟩ := by
  simp [Cursor.ofBytes]

theorem take_all_drop (b : Bytes) (n : Nat) : (b.drop n).take (b.length - n) = b.drop n := by
  apply List.take_of_length_le
  simp

/-- `RawPDU(stream.pointer(), stream.size())` right after reading the first `n` bytes -/
theorem rest_after_read (site : String) (b : Bytes) (n : Nat) :
    Cursor.rest site ⟨b.drop n, b.length - n⟩ = .ok (b.drop n) := by
  simp [Cursor.rest, rdN, take_all_drop]

theorem toBool_mk (m : Bytes) (k : Nat) : (⟨m, k⟩ : Cursor).toBool = decide (k > 0) := rfl

/-- `read(n)` on a stream that owns exactly its memory (`size = mem.length`): the next state has the same shape -/
theorem read_full (m : Bytes) (n : Nat) :
    (⟨m, m.length⟩ : Cursor).read n =
      if m.length < n then .throw .malformedPacket else .ok (m.take n, ⟨m.drop n, (m.drop n).length⟩) := by
  unfold Cursor.read Cursor.canRead
  by_cases h : m.length < n
  · have : ¬ n ≤ m.length := by omega
    simp [h, this]
  · have : n ≤ m.length := by omega
    simp [h, this]

theorem readBE_full (m : Bytes) (n : Nat) :
    (⟨m, m.length⟩ : Cursor).readBE n =
      if m.length < n then .throw .malformedPacket
      else .ok (Cursor.beNat (m.take n), ⟨m.drop n, (m.drop n).length⟩) := by
  unfold Cursor.readBE
  rw [read_full]
  by_cases h : m.length < n <;> simp [h, bind, Out.bind]

theorem rest_full (site : String) (m : Bytes) : Cursor.rest site ⟨m, m.length⟩ = .ok m := by
  simp [Cursor.rest, rdN]

theorem byteAt_lt (bs : Bytes) (i : Nat) : byteAt bs i < 256 := by
  unfold byteAt; exact UInt8.toNat_lt _

theorem byteAt_cons_zero (x : UInt8) (xs : Bytes) : byteAt (x :: xs) 0 = x.toNat := rfl
theorem byteAt_cons_succ (x : UInt8) (xs : Bytes) (i : Nat) : byteAt (x :: xs) (i + 1) = byteAt xs i := rfl

theorem ofNat_toNat_lt (v : Nat) (h : v < 256) : (UInt8.ofNat v).toNat = v := by
  simp [UInt8.toNat_ofNat', Nat.mod_eq_of_lt h]

theorem beNat_foldl_lt (bs : Bytes) (acc k : Nat) (h : acc < 256 ^ k) :
    bs.foldl (fun a b => a * 256 + b.toNat) acc < 256 ^ (k + bs.length) := by
  induction bs generalizing acc k with
  | nil => simpa using h
  | cons b bs ih =>
    simp only [List.foldl_cons, List.length_cons]
    have hb := UInt8.toNat_lt b
    have := ih (acc * 256 + b.toNat) (k + 1) (by rw [Nat.pow_succ]; omega)
    rw [show k + (bs.length + 1) = k + 1 + bs.length by omega]
    exact this

theorem beNat_lt (bs : Bytes) : Cursor.beNat bs < 256 ^ bs.length := by
  have := beNat_foldl_lt bs 0 0 (by simp)
  simpa [Cursor.beNat] using this

theorem beNat_take_lt (bs : Bytes) (n : Nat) : Cursor.beNat (bs.take n) < 256 ^ n := by
  have h := beNat_lt (bs.take n)
  have h2 : (bs.take n).length ≤ n := by simp only [List.length_take]; omega
  exact Nat.lt_of_lt_of_le h (Nat.pow_le_pow_right (by decide) h2)

theorem beNat_singleton (b : UInt8) : Cursor.beNat [b] = b.toNat := by simp [Cursor.beNat]

/-- slices of a concatenation with known lengths -/
theorem take_append_len {α} (a r : List α) (n : Nat) (h : a.length = n) : (a ++ r).take n = a := by
  subst h; exact List.take_left' rfl
theorem drop_append_len {α} (a r : List α) (n : Nat) (h : a.length = n) : (a ++ r).drop n = r := by
  subst h; exact List.drop_left' rfl

/-- a stream write that fits: the closed form of the new stream state -/
theorem owrite_ok (o : OutCursor) (bs : Bytes) (hi : o.Inv) (hs : bs.length ≤ o.size) :
    o.write bs = .ok ⟨o.done ++ bs, o.rest.drop bs.length, o.size - bs.length⟩ ∧
      (⟨o.done ++ bs, o.rest.drop bs.length, o.size - bs.length⟩ : OutCursor).Inv := by
  have h1 : ¬ o.size < bs.length := by omega
  have h2 : ¬ o.rest.length < bs.length := by simp only [OutCursor.Inv] at hi; omega
  refine ⟨by simp [OutCursor.write, h1, h2], ?_⟩
  simp only [OutCursor.Inv, List.length_drop] at *; omega

/-- `fill(n, v)` that fits -/
theorem ofill_ok (o : OutCursor) (n : Nat) (v : UInt8) (hi : o.Inv) (hs : n ≤ o.size) :
    o.fill n v = .ok ⟨o.done ++ List.replicate n v, o.rest.drop n, o.size - n⟩ ∧
      (⟨o.done ++ List.replicate n v, o.rest.drop n, o.size - n⟩ : OutCursor).Inv := by
  have h1 : ¬ o.size < n := by omega
  have h2 : ¬ o.rest.length < n := by simp only [OutCursor.Inv] at hi; omega
  refine ⟨by simp [OutCursor.fill, h1, h2], ?_⟩
  simp only [OutCursor.Inv, List.length_drop] at *; omega

/-- two bytes read big-endian after a host-order (little-endian) 16-bit store: the byte-swapped value -/
def swap16 (x : Nat) : Nat := x % 256 * 256 + x / 256 % 256

theorem le16_eq_be_swap (x : Nat) : le16 x = OutCursor.beBytes 2 (swap16 x) := by
  simp only [le16, OutCursor.beBytes, swap16, List.nil_append, List.cons_append]
  have ha : x % 256 < 256 := Nat.mod_lt _ (by decide)
  have hb : x / 256 % 256 < 256 := Nat.mod_lt _ (by decide)
  generalize x % 256 = a at ha
  generalize x / 256 % 256 = b at hb
  have h1 : (a * 256 + b) / 256 % 256 = a := by omega
  have h2 : (a * 256 + b) % 256 = b := by omega
  rw [h1, h2]

/-- a raw store of `y` over the bytes `x` that follow the prefix `a` -/
theorem poke_mid (site : String) (a x y rest : Bytes) (off : Nat) (ha : a.length = off) (hxy : x.length = y.length) :
    poke site (a ++ x ++ rest) off y = .ok (a ++ y ++ rest) := by
  subst ha
  unfold poke
  have hle : a.length + y.length ≤ (a ++ x ++ rest).length := by simp only [List.length_append]; omega
  simp only [hle, if_true]
  congr 1
  rw [List.append_assoc a x rest, List.take_left' rfl, ← hxy, List.drop_append, List.drop_of_length_le (by omega)]
  simp

theorem swap16_lt (x : Nat) : swap16 x < 65536 := by unfold swap16; omega

end Tins.Wire.Transport
