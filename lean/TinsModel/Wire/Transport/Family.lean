import TinsModel.Wire.Transport.Udp
/-
  Family interface of `Transport` (TCP, UDP, ICMP, ICMPv6, ICMP extensions).  Modelled so far: UDP.
-/
namespace Tins.Wire.Transport

inductive Obj
  | udp (u : Udp)
deriving Repr

def classes : List String := ["UDP"]

def parse (cls : String) (b : Bytes) : Out (Obj × Inner) :=
  if cls == "UDP" then (Udp.parse b) >>= fun (u, i) => pure (.udp u, i)
  else .throw .stdOther

def info : Obj → String × Fields
  | .udp u => ("UDP", u.fields)

def hdr : Obj → Nat
  | .udp _ => 8

def trl (_o : Obj) (_innerSize : Nat) : Nat := 0

def write (cx : Ctx) : Obj → Bytes → Out Bytes
  | .udp u, region => u.write cx region

def mk (cls : String) (args : List String) : Out Obj :=
  match cls, args with
  | "UDP", [] => .ok (.udp (Udp.create 0 0))
  | "UDP", [d, s] => match d.toNat?, s.toNat? with
    | some d, some s => .ok (.udp (Udp.create d s))
    | _, _ => .throw .stdOther
  | _, _ => .throw .stdOther

def apply : Obj → List String → Out Obj
  | .udp u, op => (u.apply op) >>= fun x => pure (.udp x)

end Tins.Wire.Transport
