import TinsModel.Wire.Transport.Udp
import TinsModel.Wire.Transport.Tcp
/-
  Family interface of `Transport`: UDP, TCP (+options).
-/
namespace Tins.Wire.Transport

inductive Obj
  | udp (u : Udp)
  | tcp (t : Tcp)
deriving Repr

def classes : List String := ["UDP", "TCP"]

def parse (cls : String) (b : Bytes) : Out (Obj × Inner) :=
  if cls == "UDP" then (Udp.parse b) >>= fun (u, i) => pure (.udp u, i)
  else if cls == "TCP" then (Tcp.parse b) >>= fun (t, i) => pure (.tcp t, i)
  else .throw .stdOther

def info : Obj → String × Fields
  | .udp u => ("UDP", u.fields)
  | .tcp t => ("TCP", t.fields)

def hdr : Obj → Nat
  | .udp _ => 8
  | .tcp t => t.hdr

def trl (_o : Obj) (_innerSize : Nat) : Nat := 0

def write (cx : Ctx) : Obj → Bytes → Out Bytes
  | .udp u, region => u.write cx region
  | .tcp t, region => t.write cx region

def mk (cls : String) (args : List String) : Out Obj :=
  match cls, args with
  | "UDP", [] => .ok (.udp (Udp.create 0 0))
  | "UDP", [d, s] => match d.toNat?, s.toNat? with
    | some d, some s => .ok (.udp (Udp.create d s))
    | _, _ => .throw .stdOther
  | "TCP", [] => .ok (.tcp (Tcp.create 0 0))
  | "TCP", [d, s] => match d.toNat?, s.toNat? with
    | some d, some s => .ok (.tcp (Tcp.create d s))
    | _, _ => .throw .stdOther
  | _, _ => .throw .stdOther

def apply : Obj → List String → Out Obj
  | .udp u, op => (u.apply op) >>= fun x => pure (.udp x)
  | .tcp t, op => (t.apply op) >>= fun x => pure (.tcp x)

end Tins.Wire.Transport
