import TinsModel.Wire.Transport.Lemmas
/-
  UDP: C01 parse safety / termination, C02 write region, C03 reparse, C04 setters vs getters.
-/
namespace Tins.Wire.Transport
open Tins Tins.Wire

namespace Udp

/-- invariant of every UDP object reachable by parsing or through the API: the four `uint16_t` members -/
structure WF (u : Udp) : Prop where
  sport : u.sport < 65536
  dport : u.dport < 65536
  len : u.len < 65536
  check : u.check < 65536

/-- the object the 8 header bytes decode to -/
def ofHeader (h : Bytes) : Udp :=
  ⟨Cursor.beNat (h.take 2), Cursor.beNat ((h.drop 2).take 2), Cursor.beNat ((h.drop 4).take 2), Cursor.beNat ((h.drop 6).take 2)⟩

/-- the getters that are not derived on serialization -/
def view (u : Udp) : Nat × Nat := (u.sport, u.dport)

end Udp

/-- closed form of the parsing constructor -/
theorem udp_parse_eq (b : Bytes) :
    Udp.parse b =
      if b.length < 8 then .throw .malformedPacket
      else .ok (Udp.ofHeader b, if b.length > 8 then .raw (b.drop 8) else .none) := by
  unfold Udp.parse Cursor.ofBytes
  by_cases h8 : b.length < 8
  · simp only [h8, if_true]
    by_cases h1 : b.length < 2
    · simp only [readBE_full, bind, Out.bind, h1, if_true]
    · by_cases h2 : (b.drop 2).length < 2
      · simp only [readBE_full, bind, Out.bind, h1, h2, if_true, if_false]
      · by_cases h3 : ((b.drop 2).drop 2).length < 2
        · simp only [readBE_full, bind, Out.bind, h1, h2, h3, if_true, if_false]
        · have h4 : (((b.drop 2).drop 2).drop 2).length < 2 := by simp only [List.length_drop] at *; omega
          simp only [readBE_full, bind, Out.bind, h1, h2, h3, h4, if_true, if_false]
  · have h1 : ¬ b.length < 2 := by omega
    have h2 : ¬ (b.drop 2).length < 2 := by simp only [List.length_drop]; omega
    have h3 : ¬ ((b.drop 2).drop 2).length < 2 := by simp only [List.length_drop]; omega
    have h4 : ¬ (((b.drop 2).drop 2).drop 2).length < 2 := by simp only [List.length_drop]; omega
    simp only [h8, if_false, readBE_full, bind, Out.bind, h1, h2, h3, h4, rest_full, toBool_mk, Udp.ofHeader, pure]
    simp only [List.drop_drop, List.length_drop]
    by_cases h9 : b.length > 8
    · have : b.length - 8 > 0 := by omega
      simp [h9, this]
    · have : ¬ b.length - 8 > 0 := by omega
      simp [h9, this]

/-- **C01 / UDP**: for every byte string the parsing constructor returns a packet or throws `malformed_packet`;
    it never reads outside the buffer. -/
theorem udp_parse_safe (b : Bytes) : ParseSafe (Udp.parse b) := by
  rw [udp_parse_eq]; split
  · exact .malformed
  · exact .ok _

/-- UDP never hands bytes to another parsing constructor (its payload is a RawPDU) -/
theorem udp_parse_no_cls (b : Bytes) (u : Udp) (name : String) (pb : Bytes) (fb : Bool) :
    Udp.parse b ≠ .ok (u, .cls name pb fb) := by
  rw [udp_parse_eq]; intro h
  split at h
  · cases h
  · injection h with h; injection h with _ h
    split at h <;> cases h

/-- **C01 / UDP, termination of the nested constructors** (vacuous: no nested constructor) -/
theorem udp_parse_consumes (b : Bytes) (u : Udp) (name : String) (pb : Bytes) (fb : Bool)
    (h : Udp.parse b = .ok (u, .cls name pb fb)) : pb.length < b.length :=
  absurd h (udp_parse_no_cls b u name pb fb)

theorem udp_ofHeader_wf (h : Bytes) : (Udp.ofHeader h).WF :=
  ⟨beNat_take_lt _ 2, beNat_take_lt _ 2, beNat_take_lt _ 2, beNat_take_lt _ 2⟩

/-- parsing establishes the invariant -/
theorem udp_parse_inv (b : Bytes) (u : Udp) (i : Inner) (h : Udp.parse b = .ok (u, i)) : u.WF := by
  rw [udp_parse_eq] at h
  split at h
  · cases h
  · injection h with h; injection h with h _; subst h; exact udp_ofHeader_wf b

theorem udp_create_wf (d s : Nat) : (Udp.create d s).WF :=
  ⟨Nat.mod_lt _ (by decide), Nat.mod_lt _ (by decide), by simp [Udp.create], by simp [Udp.create]⟩

/-- the `LayerSem` of a UDP object in context `cx` (what `Registry.sems` builds) -/
def udpSem (cx : Ctx) (u : Udp) : LayerSem := { name := "UDP", hdr := 8, trl := 0, write := u.write cx }

theorem udp_headerBytes_length (u : Udp) : u.headerBytes.length = 8 := by
  simp [Udp.headerBytes]

/-- the checksum `write_serialization` stores (as the getter reads it back), given the region with a zero checksum -/
def Udp.checkFor (ps : Option Nat) (r1 : Bytes) : Nat :=
  match ps with
  | none => 0
  | some ps =>
    let chk := not16 (fold16 ((ps + sumRange r1) % 4294967296))
    swap16 (if chk = 0 then 65535 else chk)

/-- the pseudo-header sum `write_serialization` uses (only directly inside IP / IPv6) -/
def Udp.pseudoOf (cx : Ctx) (size : Nat) : Option Nat :=
  match cx.parents.head? with
  | some p =>
    if p.cls == "IP" then
      match (p.fields.get "src_addr").bind parseHexStr, (p.fields.get "dst_addr").bind parseHexStr with
      | some s, some d => some (pseudo4 s d (size % 65536) 17)
      | _, _ => none
    else if p.cls == "IPv6" then
      match (p.fields.get "src_addr").bind parseHexStr, (p.fields.get "dst_addr").bind parseHexStr with
      | some s, some d => some (pseudo6 s d (size % 65536) 17)
      | _, _ => none
    else none
  | none => none

theorem udp_headerBytes_split (u : Udp) :
    u.headerBytes = (OutCursor.beBytes 2 u.sport ++ OutCursor.beBytes 2 u.dport ++ OutCursor.beBytes 2 u.len) ++
      OutCursor.beBytes 2 u.check := rfl

/-- closed form of `UDP::write_serialization`: the 8 header bytes with the derived length and checksum, the rest of the
    region untouched -/
theorem udp_write_eq (cx : Ctx) (u : Udp) (region : Bytes) (hr : 8 ≤ region.length) :
    ∃ c, c < 65536 ∧ u.write cx region =
      .ok (({ u with len := (8 + cx.innerSize) % 65536, check := c } : Udp).headerBytes ++ region.drop 8) := by
  have hlen : ({ u with check := 0, len := (8 + cx.innerSize) % 65536 } : Udp).headerBytes.length = 8 :=
    udp_headerBytes_length _
  have hw := writeAtStart_eq region _ (by rw [hlen]; exact hr)
  simp only [Udp.write, hw, bind, Out.bind, hlen]
  split
  · exact ⟨0, by decide, rfl⟩
  · rename_i ps _
    generalize hv : (if not16 (fold16 ((ps + sumRange
      (({ u with check := 0, len := (8 + cx.innerSize) % 65536 } : Udp).headerBytes ++ List.drop 8 region)) % 4294967296)) = 0
        then 65535 else not16 (fold16 ((ps + sumRange
      (({ u with check := 0, len := (8 + cx.innerSize) % 65536 } : Udp).headerBytes ++ List.drop 8 region)) % 4294967296))) = v
    refine ⟨swap16 v, swap16_lt v, ?_⟩
    rw [udp_headerBytes_split, udp_headerBytes_split, le16_eq_be_swap]
    exact poke_mid _ _ _ _ _ 6 (by simp) (by simp)

/-- **C02 / UDP**: in every context and on every region of at least 8 bytes `write_serialization` succeeds,
    keeps the region's length and touches only the 8 header bytes. -/
theorem udp_writesOnly (cx : Ctx) (u : Udp) : WritesOnly (udpSem cx u) := by
  apply writesOnly_of_header_only _ rfl
  intro region hr
  simp only [udpSem] at hr
  rcases udp_write_eq cx u region hr with ⟨c, _, hw⟩
  refine ⟨_, hw, ?_, ?_⟩
  · simp only [List.length_append, udp_headerBytes_length, List.length_drop]; omega
  · simp only [udpSem]; exact drop_append_len _ _ 8 (udp_headerBytes_length _)

theorem udp_ofHeader_headerBytes (u : Udp) (h : u.WF) (rest : Bytes) : Udp.ofHeader (u.headerBytes ++ rest) = u := by
  have e1 : (u.headerBytes ++ rest) = OutCursor.beBytes 2 u.sport ++ (OutCursor.beBytes 2 u.dport ++
      (OutCursor.beBytes 2 u.len ++ (OutCursor.beBytes 2 u.check ++ rest))) := by
    simp [Udp.headerBytes, List.append_assoc]
  have m1 : u.sport % 256 ^ 2 = u.sport := Nat.mod_eq_of_lt h.sport
  have m2 : u.dport % 256 ^ 2 = u.dport := Nat.mod_eq_of_lt h.dport
  have m3 : u.len % 256 ^ 2 = u.len := Nat.mod_eq_of_lt h.len
  have m4 : u.check % 256 ^ 2 = u.check := Nat.mod_eq_of_lt h.check
  unfold Udp.ofHeader
  rw [e1]
  have t1 : (OutCursor.beBytes 2 u.sport ++ (OutCursor.beBytes 2 u.dport ++
      (OutCursor.beBytes 2 u.len ++ (OutCursor.beBytes 2 u.check ++ rest)))).take 2 = OutCursor.beBytes 2 u.sport :=
    take_append_len _ _ 2 (by simp)
  have d2 : (OutCursor.beBytes 2 u.sport ++ (OutCursor.beBytes 2 u.dport ++
      (OutCursor.beBytes 2 u.len ++ (OutCursor.beBytes 2 u.check ++ rest)))).drop 2 = OutCursor.beBytes 2 u.dport ++
      (OutCursor.beBytes 2 u.len ++ (OutCursor.beBytes 2 u.check ++ rest)) := drop_append_len _ _ 2 (by simp)
  have d4 : (OutCursor.beBytes 2 u.sport ++ (OutCursor.beBytes 2 u.dport ++
      (OutCursor.beBytes 2 u.len ++ (OutCursor.beBytes 2 u.check ++ rest)))).drop 4 =
      (OutCursor.beBytes 2 u.len ++ (OutCursor.beBytes 2 u.check ++ rest)) := by
    rw [show (4 : Nat) = 2 + 2 by rfl, ← List.drop_drop, d2]; exact drop_append_len _ _ 2 (by simp)
  have d6 : (OutCursor.beBytes 2 u.sport ++ (OutCursor.beBytes 2 u.dport ++
      (OutCursor.beBytes 2 u.len ++ (OutCursor.beBytes 2 u.check ++ rest)))).drop 6 =
      (OutCursor.beBytes 2 u.check ++ rest) := by
    rw [show (6 : Nat) = 4 + 2 by rfl, ← List.drop_drop, d4]; exact drop_append_len _ _ 2 (by simp)
  rw [t1, d2, d4, d6, take_append_len _ _ 2 (by simp), take_append_len _ _ 2 (by simp), take_append_len _ _ 2 (by simp)]
  simp only [beNat_beBytes, m1, m2, m3, m4]

/-- **C03 / UDP**: parsing what `write_serialization` produced gives back the ports (the non-derived getters), the
    derived length, and the rest of the region as payload -/
theorem udp_reparse (cx : Ctx) (u : Udp) (h : u.WF) (region : Bytes) (hr : 8 ≤ region.length) :
    ∃ out u', u.write cx region = .ok out ∧ out.length = region.length ∧
      Udp.parse out = .ok (u', if region.length > 8 then .raw (region.drop 8) else .none) ∧
      u'.view = u.view ∧ u'.len = (8 + cx.innerSize) % 65536 := by
  rcases udp_write_eq cx u region hr with ⟨c, hc, hw⟩
  have hl : (({ u with len := (8 + cx.innerSize) % 65536, check := c } : Udp).headerBytes ++ region.drop 8).length
      = region.length := by
    simp only [List.length_append, udp_headerBytes_length, List.length_drop]; omega
  have hwf : ({ u with len := (8 + cx.innerSize) % 65536, check := c } : Udp).WF :=
    ⟨h.sport, h.dport, Nat.mod_lt _ (by decide), hc⟩
  refine ⟨_, { u with len := (8 + cx.innerSize) % 65536, check := c }, hw, hl, ?_, rfl, rfl⟩
  rw [udp_parse_eq, hl]
  have h8 : ¬ region.length < 8 := by omega
  simp only [h8, if_false, udp_ofHeader_headerBytes _ hwf, drop_append_len _ _ 8 (udp_headerBytes_length _)]

/-! ### C04: setters vs getters -/

/-- every API call keeps the invariant -/
theorem udp_apply_wf (u u' : Udp) (op : List String) (h : u.WF) (ha : u.apply op = .ok u') : u'.WF := by
  unfold Udp.apply at ha
  split at ha
  · split at ha
    · injection ha with ha; subst ha; exact ⟨Nat.mod_lt _ (by decide), h.dport, h.len, h.check⟩
    · cases ha
  · split at ha
    · injection ha with ha; subst ha; exact ⟨h.sport, Nat.mod_lt _ (by decide), h.len, h.check⟩
    · cases ha
  · split at ha
    · injection ha with ha; subst ha; exact ⟨h.sport, h.dport, Nat.mod_lt _ (by decide), h.check⟩
    · cases ha
  · cases ha

/-- the scalar getters of UDP by name -/
def Udp.get (u : Udp) : String → Option Nat
  | "sport" => some u.sport
  | "dport" => some u.dport
  | "length" => some u.len
  | _ => none

/-- **last-write map, one step**: a setter changes exactly its own getter, to the value given (as `uint16_t`) -/
theorem udp_setter_spec (u u' : Udp) (f v : String) (n : Nat) (hv : v.toNat? = some n) (hf : (u.get f).isSome)
    (ha : u.apply [f, v] = .ok u') :
    ∀ g, u'.get g = if g = f then some (n % 65536) else u.get g := by
  intro g
  unfold Udp.get at hf
  split at hf
  · simp only [Udp.apply, hv] at ha; injection ha with ha; subst ha
    by_cases hg : g = "sport"
    · subst hg; simp [Udp.get]
    · simp only [hg, if_false]; unfold Udp.get; split <;> first | rfl | (exfalso; exact hg rfl)
  · simp only [Udp.apply, hv] at ha; injection ha with ha; subst ha
    by_cases hg : g = "dport"
    · subst hg; simp [Udp.get]
    · simp only [hg, if_false]; unfold Udp.get; split <;> first | rfl | (exfalso; exact hg rfl)
  · simp only [Udp.apply, hv] at ha; injection ha with ha; subst ha
    by_cases hg : g = "length"
    · subst hg; simp [Udp.get]
    · simp only [hg, if_false]; unfold Udp.get; split <;> first | rfl | (exfalso; exact hg rfl)
  · cases hf

/-- non-vacuity -/
example : ∃ u, Udp.parse [0, 53, 0x30, 0x39, 0, 9, 0xab, 0xcd, 7] = .ok (u, .raw [7]) ∧ u.sport = 53 ∧ u.dport = 12345 :=
  ⟨_, rfl, rfl, rfl⟩
example : Udp.parse [0, 53, 0x30, 0x39, 0, 9, 0xab] = .throw .malformedPacket := rfl
example : (Udp.create 53 4000).WF := udp_create_wf _ _
example : ∃ out, (Udp.create 53 4000).write ⟨[], []⟩ (List.replicate 8 0) = .ok out ∧ out = [0x0f, 0xa0, 0, 53, 0, 8, 0, 0] :=
  ⟨_, rfl, rfl⟩

end Tins.Wire.Transport
