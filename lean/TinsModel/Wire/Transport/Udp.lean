import TinsModel.Wire.Iface
import TinsModel.Wire.Checksum
/- `Tins::UDP` (src/udp.cpp): parsing constructor, setters, header_size, write_serialization. -/
namespace Tins.Wire.Transport

structure Udp where
  sport : Nat
  dport : Nat
  len : Nat
  check : Nat
deriving Repr, DecidableEq

namespace Udp

/-- `UDP::UDP(const uint8_t* buffer, uint32_t total_sz)` -/
def parse (b : Bytes) : Out (Udp × Inner) := do
  let c := Cursor.ofBytes b
  let (sport, c) ← c.readBE 2
  let (dport, c) ← c.readBE 2
  let (len, c) ← c.readBE 2
  let (check, c) ← c.readBE 2
  if c.toBool then
    let rest ← Cursor.rest "UDP::UDP RawPDU" c
    pure (⟨sport, dport, len, check⟩, .raw rest)
  else pure (⟨sport, dport, len, check⟩, .none)

def fields (u : Udp) : Fields :=
  [("sport", toString u.sport), ("dport", toString u.dport), ("~length", toString u.len), ("~checksum", toString u.check)]

/-- `UDP::UDP(uint16_t dport, uint16_t sport)` -/
def create (dport sport : Nat) : Udp := ⟨sport % 65536, dport % 65536, 0, 0⟩

def headerBytes (u : Udp) : Bytes :=
  OutCursor.beBytes 2 u.sport ++ OutCursor.beBytes 2 u.dport ++ OutCursor.beBytes 2 u.len ++ OutCursor.beBytes 2 u.check

/-- `UDP::write_serialization`: length = 8 + inner size (as `uint16_t`), checksum only directly inside IP / IPv6 -/
def write (cx : Ctx) (u : Udp) (region : Bytes) : Out Bytes := do
  let size := 8 + cx.innerSize
  let u1 := { u with check := 0, len := size % 65536 }
  let r1 ← writeAtStart region u1.headerBytes
  let pseudo : Option Nat :=
    match cx.parents.head? with
    | some p =>
      if p.cls == "IP" then
        match (p.fields.get "src_addr").bind parseHexStr, (p.fields.get "dst_addr").bind parseHexStr with
        | some s, some d => some (pseudo4 s d (size % 65536) 17)
        | _, _ => none
      else if p.cls == "IPv6" then
        match (p.fields.get "src_addr").bind parseHexStr, (p.fields.get "dst_addr").bind parseHexStr with
        | some s, some d => some (pseudo6 s d (size % 65536) 17)
        | _, _ => none
      else none
    | none => none
  match pseudo with
  | none => pure r1
  | some ps =>
    let sum := fold16 ((ps + sumRange r1) % 4294967296)
    let chk := not16 sum
    let chk := if chk = 0 then 65535 else chk
    poke "UDP::write_serialization check" r1 6 (le16 chk)

def apply (u : Udp) : List String → Out Udp
  | ["sport", v] => match v.toNat? with | some n => .ok { u with sport := n % 65536 } | none => .throw .stdOther
  | ["dport", v] => match v.toNat? with | some n => .ok { u with dport := n % 65536 } | none => .throw .stdOther
  | ["length", v] => match v.toNat? with | some n => .ok { u with len := n % 65536 } | none => .throw .stdOther
  | _ => .throw .stdOther

end Udp
end Tins.Wire.Transport
