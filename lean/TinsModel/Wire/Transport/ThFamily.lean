import TinsModel.Wire.Transport.ThUdp
import TinsModel.Wire.Transport.ThTcpApi
/-
  Family-level theorems of Transport = {UDP, TCP} for the four wire properties, over the interface the registry uses
  (`Transport.parse`, `hdr`, `trl`, `write`, `mk`, `apply`) — same shape as `L2/ThFamily.lean`.  Per-class theorems:
    C01  udp_/tcp_parse_safe, _parse_consumes (neither class builds a nested class), tcp_parseOpts_spec
    C02  udp_writesOnly, tcp_writesOnly (every option list that fits the 40-byte option area; KF-C02-WTcp-1 beyond)
    C03  udp_reparse, tcp_reparse, tcp_parse_reparse
    C04  _apply_inv / _mk_inv, option look-up laws, typed codecs, last-write maps, flag accessors
-/
namespace Tins.Wire.Transport
open Tins Tins.Wire

/-- the invariant of a family object: what parsing establishes and every API call preserves -/
def ObjInv : Obj → Prop
  | .udp u => u.WF
  | .tcp t => t.Inv

/-- a TCP header can carry at most 40 bytes of options (4-bit data offset); every parsed TCP qualifies
    (`transport_parse_serializable`), API-built ones beyond that are known finding KF-C02-WTcp-1 -/
def Serializable : Obj → Prop
  | .udp _ => True
  | .tcp t => Tcp.optsSum t.opts ≤ 40

/-- the `LayerSem` the registry builds for a family object in context `cx` -/
def transportSem (cx : Ctx) (o : Obj) : LayerSem :=
  { name := (info o).1, hdr := hdr o, trl := trl o cx.innerSize, write := write cx o }

/-- **C01 / Transport**: every parsing constructor of the family, on every byte string, returns a packet or throws
    `malformed_packet`; it never touches a byte outside the buffer -/
theorem transport_parse_safe (cls : String) (b : Bytes) (h : cls ∈ classes) : ParseSafe (parse cls b) := by
  simp only [classes, List.mem_cons, List.mem_nil_iff, or_false] at h
  rcases h with h | h <;> subst h <;> simp only [parse]
  · exact ParseSafe.bind (udp_parse_safe b) (fun a _ => .ok _)
  · exact ParseSafe.bind (tcp_parse_safe b) (fun a _ => .ok _)

/-- **C01 / Transport, termination of the nested constructors**: a parsing constructor of the family hands strictly
    fewer bytes to the next constructor (neither UDP nor TCP constructs one: their payload is a RawPDU) -/
theorem transport_parse_consumes (cls : String) (b : Bytes) (o : Obj) (name : String) (pb : Bytes) (fb : Bool)
    (hc : cls ∈ classes) (h : parse cls b = .ok (o, .cls name pb fb)) : pb.length < b.length := by
  simp only [classes, List.mem_cons, List.mem_nil_iff, or_false] at hc
  rcases hc with hc | hc <;> subst hc <;> simp only [parse] at h <;>
    rcases map_ok h with ⟨⟨x, i⟩, hx, hr⟩ <;> injection hr with _ hi <;> subst hi
  · exact udp_parse_consumes b x name pb fb hx
  · exact tcp_parse_consumes b x name pb fb hx

/-- parsing establishes the invariant -/
theorem transport_parse_inv (cls : String) (b : Bytes) (o : Obj) (i : Inner) (hc : cls ∈ classes)
    (h : parse cls b = .ok (o, i)) : ObjInv o := by
  simp only [classes, List.mem_cons, List.mem_nil_iff, or_false] at hc
  rcases hc with hc | hc <;> subst hc <;> simp only [parse] at h <;>
    rcases map_ok h with ⟨⟨x, j⟩, hx, hr⟩ <;> injection hr with ho _ <;> subst ho
  · exact udp_parse_inv b x j hx
  · exact tcp_parse_inv b x j hx

/-- … and every parsed object is serializable (C03 needs nothing more to apply C02 to parsed packets) -/
theorem transport_parse_serializable (cls : String) (b : Bytes) (o : Obj) (i : Inner) (hc : cls ∈ classes)
    (h : parse cls b = .ok (o, i)) : Serializable o := by
  simp only [classes, List.mem_cons, List.mem_nil_iff, or_false] at hc
  rcases hc with hc | hc <;> subst hc <;> simp only [parse] at h <;>
    rcases map_ok h with ⟨⟨x, j⟩, hx, hr⟩ <;> injection hr with ho _ <;> subst ho
  · trivial
  · exact (tcp_parse_serializable b x j hx).2

/-- **C02 / Transport**: for every serializable family object satisfying the invariant, in every context,
    `write_serialization` succeeds on the region `PDU::serialize` hands out, keeps its length and leaves the inner
    layers' bytes untouched (both classes are header-only: on every region that is large enough) -/
theorem transport_writesOnlyAt (cx : Ctx) (o : Obj) (_hi : ObjInv o) (hs : Serializable o) :
    WritesOnlyAt (transportSem cx o) cx.innerSize := by
  cases o with
  | udp u => exact writesOnlyAt_of_writesOnly (udp_writesOnly cx u) _
  | tcp t => exact writesOnlyAt_of_writesOnly (tcp_writesOnly cx t hs) _

/-- the public constructors establish the invariant -/
theorem transport_mk_inv (cls : String) (args : List String) (o : Obj) (h : mk cls args = .ok o) : ObjInv o := by
  unfold mk at h
  split at h
  · injection h with h; subst h; exact udp_create_wf 0 0
  · split at h
    · injection h with h; subst h; exact udp_create_wf _ _
    · cases h
  · injection h with h; subst h; exact tcp_create_inv 0 0
  · split at h
    · injection h with h; subst h; exact tcp_create_inv _ _
    · cases h
  · cases h

/-- a freshly constructed object is serializable -/
theorem transport_mk_serializable (cls : String) (args : List String) (o : Obj) (h : mk cls args = .ok o) :
    Serializable o := by
  unfold mk at h
  split at h
  · injection h with h; subst h; trivial
  · split at h
    · injection h with h; subst h; trivial
    · cases h
  · injection h with h; subst h; simp [Serializable, Tcp.create, Tcp.optsSum]
  · split at h
    · injection h with h; subst h; simp [Serializable, Tcp.create, Tcp.optsSum]
    · cases h
  · cases h

/-- **C04 / Transport**: every API call keeps the invariant — with `transport_mk_inv` and `transport_parse_inv`: every
    object reachable by parsing or by any finite sequence of constructor / setter / typed option / add / remove calls
    satisfies it -/
theorem transport_apply_inv (o o' : Obj) (op : List String) (hi : ObjInv o) (h : apply o op = .ok o') : ObjInv o' := by
  cases o with
  | udp u =>
    simp only [apply] at h
    rcases map_ok h with ⟨x, hx, hr⟩; subst hr; exact udp_apply_wf u x op hi hx
  | tcp t =>
    simp only [apply] at h
    rcases map_ok h with ⟨x, hx, hr⟩; subst hr; exact tcp_apply_inv t x op hi hx

/-- invariant over whole API histories: any finite program of calls that all succeed -/
theorem transport_history_inv (o : Obj) (ops : List (List String)) (hi : ObjInv o) :
    ∀ o', ops.foldlM (fun x op => apply x op) o = .ok o' → ObjInv o' := by
  induction ops generalizing o with
  | nil => intro o' h; simp only [List.foldlM, pure] at h; injection h with h; subst h; exact hi
  | cons op ops ih =>
    intro o' h
    simp only [List.foldlM, bind, Out.bind] at h
    cases ha : apply o op with
    | ok x => rw [ha] at h; exact ih x (transport_apply_inv o x op hi ha) o' h
    | throw e => rw [ha] at h; cases h
    | fault s => rw [ha] at h; cases h

/-- **C03 / Transport**: writing a parsed family object and parsing the result succeeds (closing the loop between
    `transport_parse_*` and the per-class reparse theorems `udp_reparse`, `tcp_reparse`) -/
theorem transport_parse_reparse (cx : Ctx) (cls : String) (b : Bytes) (o : Obj) (i : Inner) (hc : cls ∈ classes)
    (h : parse cls b = .ok (o, i)) (region : Bytes) (hr : hdr o ≤ region.length) :
    ∃ out o' i', write cx o region = .ok out ∧ out.length = region.length ∧ parse cls out = .ok (o', i') := by
  simp only [classes, List.mem_cons, List.mem_nil_iff, or_false] at hc
  rcases hc with hc | hc <;> subst hc <;> simp only [parse] at h <;>
    rcases map_ok h with ⟨⟨x, j⟩, hx, hr'⟩ <;> injection hr' with ho _ <;> subst ho
  · rcases udp_reparse cx x (udp_parse_inv b x j hx) region hr with ⟨out, u', hw, hl, hp, _⟩
    exact ⟨out, .udp u', _, hw, hl, by simp only [parse, hp, bind, Out.bind, pure]; rfl⟩
  · have hk := tcp_parse_ok b x j hx
    rcases tcp_reparse cx x hk.1 hk.2.1 hk.2.2.1 region hr with ⟨out, c, hw, hl, hp⟩
    exact ⟨out, .tcp _, _, hw, hl, by simp only [parse, hp, bind, Out.bind, pure]; rfl⟩

/-- non-vacuity -/
example : "TCP" ∈ classes ∧ "UDP" ∈ classes := by decide
example : ∃ o, mk "TCP" [] = .ok o ∧ ObjInv o ∧ Serializable o :=
  ⟨_, rfl, transport_mk_inv "TCP" [] _ rfl, transport_mk_serializable "TCP" [] _ rfl⟩

end Tins.Wire.Transport
