import TinsModel.Basic.Out
/-
  `Utils::sum_range` and the fold/complement tail as the serializers use them, on a little-endian host
  (src/utils/checksum_utils.cpp). The value-level theory (RFC 1071 equivalence) is property C05's.
-/
namespace Tins.Wire

/-- the `uint32_t` accumulator of `sum_range`: little-endian 16-bit loads, a trailing odd byte counts as
    its own value -/
def rawSum : Bytes → Nat
  | [] => 0
  | [a] => a.toNat
  | a :: b :: r => (a.toNat + 256 * b.toNat + rawSum r) % 4294967296

/-- `while (checksum >> 16) checksum = (checksum & 0xffff) + (checksum >> 16);` (at most two rounds on 32 bits) -/
def fold16 (x : Nat) : Nat :=
  let y := x % 65536 + x / 65536
  let z := y % 65536 + y / 65536
  z % 65536 + z / 65536

/-- `Utils::sum_range(start, end)` (returns the folded 16-bit sum) -/
def sumRange (bs : Bytes) : Nat := fold16 (rawSum bs)

/-- `~checksum` truncated to `uint16_t` -/
def not16 (x : Nat) : Nat := 65535 - x % 65536

/-- host (little-endian) `uint16_t` stored to memory -/
def le16 (x : Nat) : Bytes := [UInt8.ofNat (x % 256), UInt8.ofNat (x / 256 % 256)]

/-- `pseudoheader_checksum(IPv4 src, dst, len, flag)`: the 12-byte buffer summed as host words -/
def pseudo4 (src dst : Bytes) (len flag : Nat) : Nat :=
  rawSum (src ++ dst ++ [UInt8.ofNat (flag / 256 % 256), UInt8.ofNat (flag % 256),
                           UInt8.ofNat (len / 256 % 256), UInt8.ofNat (len % 256)])

/-- `pseudoheader_checksum(IPv6 src, dst, len, flag)`: 16+16 address bytes, `be16 flag`, `be16 len` -/
def pseudo6 (src dst : Bytes) (len flag : Nat) : Nat :=
  rawSum (src ++ dst ++ [UInt8.ofNat (flag / 256 % 256), UInt8.ofNat (flag % 256),
                         UInt8.ofNat (len / 256 % 256), UInt8.ofNat (len % 256)])

/-- overwrite `bs.length` bytes of `region` at `off` through a raw pointer (no stream check) -/
def poke (site : String) (region : Bytes) (off : Nat) (bs : Bytes) : Out Bytes :=
  if off + bs.length ≤ region.length then .ok (region.take off ++ bs ++ region.drop (off + bs.length))
  else .fault site

end Tins.Wire
