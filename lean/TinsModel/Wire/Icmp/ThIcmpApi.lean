import TinsModel.Wire.Icmp.ThIcmpWrite
/-
  ICMP: the public constructor establishes the invariant and every API call keeps it (C02 / C04 for API histories).
-/
namespace Tins.Wire.Icmp
open Tins Tins.Wire

theorem hexArgN_length (s : String) (n : Nat) (b : Bytes) (h : hexArgN s n = .ok b) : b.length = n := by
  unfold hexArgN at h
  split at h
  · split at h
    · rename_i hb; injection h with h; subst h; simpa using hb
    · cases h
  · cases h

theorem icmp_create_inv (t : Nat) : (Icmp4.create t).Inv := ⟨by simp [Icmp4.create], by simp [Icmp4.create], by simp [Icmp4.create], by simp [Icmp4.create]⟩

theorem icmp_create_ser (t : Nat) : (Icmp4.create t).Ser := by
  simp [Icmp4.Ser, Icmp4.create, ExtS.default, ExtS.plainSize]

/-- the public constructors establish the invariant -/
theorem icmp_make_inv (args : List String) (p : Icmp4) (h : Icmp4.make args = .ok p) : p.Inv := by
  unfold Icmp4.make at h
  split at h
  · injection h with h; subst h; exact icmp_create_inv _
  · obtain ⟨n, _, h⟩ := bind_ok_inv h
    injection h with h; subst h; exact icmp_create_inv _
  · cases h

theorem setUn_inv (p : Icmp4) (off : Nat) (bs : Bytes) (hi : p.Inv) (h : off + bs.length ≤ 4) : (p.setUn off bs).Inv := by
  refine ⟨?_, hi.orig, hi.recv, hi.trans⟩
  simp only [Icmp4.setUn]
  rw [patch_length _ _ _ (by rw [hi.un]; exact h)]; exact hi.un

theorem with_type_inv (p : Icmp4) (t c : Nat) (hi : p.Inv) : ({ p with type := t, code := c } : Icmp4).Inv :=
  ⟨hi.un, hi.orig, hi.recv, hi.trans⟩

/-- **C04 / ICMP**: every modelled API call keeps the invariant -/
theorem icmp_apply_inv (p p' : Icmp4) (op : List String) (hi : p.Inv) (h : p.apply op = .ok p') : p'.Inv := by
  unfold Icmp4.apply at h
  split at h
  all_goals try (obtain ⟨_, e1, h⟩ := bind_ok_inv h)
  all_goals try (obtain ⟨_, e2, h⟩ := bind_ok_inv h)
  all_goals try (obtain ⟨_, e3, h⟩ := bind_ok_inv h)
  all_goals try (split at h)
  all_goals try (injection h with h; subst h)
  all_goals first
    | exact hi
    | exact ⟨hi.un, hi.orig, hi.recv, hi.trans⟩
    | exact ⟨hi.un, hexArgN_length _ _ _ e1, hi.recv, hi.trans⟩
    | (refine ⟨hi.un, ?_, hi.recv, hi.trans⟩; simp; done)
    | (refine ⟨hi.un, hi.orig, ?_, hi.trans⟩; simp; done)
    | (refine ⟨hi.un, hi.orig, hi.recv, ?_⟩; simp; done)
    | (refine setUn_inv _ _ _ ?_ ?_
       · first
         | exact hi
         | exact with_type_inv p _ _ hi
         | (refine setUn_inv _ _ _ (with_type_inv p _ _ hi) ?_; simp; done)
       · first
         | (simp; done)
         | (have := hexArgN_length _ _ _ e1; omega)
         | (have := hexArgN_length _ _ _ e2; omega))
    | cases h

end Tins.Wire.Icmp
