import TinsModel.Wire.Icmp.ThIcmp6Write
import TinsModel.Wire.Icmp.ThIcmpApi
/-
  ICMPv6: the public constructor establishes the invariant and every API call keeps it — setters, bit-field setters,
  record / source lists, `add_option` / `remove_option` (cached `options_size_` stays Σ option sizes mod 2^32), every
  typed option setter, extension edits.  With `icmp6_parse_inv`: every object reachable by parsing or by any finite
  history of API calls satisfies the invariant `icmp6_writesOnlyAt` asks for.
-/
set_option linter.unusedSimpArgs false
namespace Tins.Wire.Icmp
open Tins Tins.Wire

theorem mapOut_forall {α β} (f : α → Out β) (P : β → Prop) (hf : ∀ a b, f a = .ok b → P b) (l : List α) (r : List β)
    (h : mapOut f l = .ok r) : ∀ b ∈ r, P b := by
  induction l generalizing r with
  | nil => simp only [mapOut] at h; injection h with h; subst h; simp
  | cons a as ih =>
    simp only [mapOut] at h
    obtain ⟨b, eb, h⟩ := bind_ok_inv h
    obtain ⟨bs, ebs, h⟩ := bind_ok_inv h
    injection h with h; subst h
    intro x hx
    rcases List.mem_cons.mp hx with rfl | hx
    · exact hf a _ eb
    · exact ih bs ebs x hx

theorem icmp6_create_inv (t : Nat) : (Icmp6.create t).Inv := by
  refine ⟨?_, ?_, ?_, ?_, ?_, ?_, ?_, ?_, ?_, ?_, ?_⟩ <;> simp [Icmp6.create, Icmp6.zeros, Icmp6.wireSum]

theorem icmp6_create_ser (t : Nat) : (Icmp6.create t).Ser := by
  refine ⟨?_, ?_⟩
  · have hx : (Icmp6.create t).extra ≤ 20 := by
      simp only [Icmp6.create, Icmp6.extra]
      split
      · omega
      · split
        · simp
        · split <;> simp
    have hw : Icmp6.wireSum (Icmp6.create t).opts = 0 := rfl
    rw [hw]
    split <;> split <;> omega
  · simp [Icmp6.create, ExtS.default, ExtS.plainSize]

theorem icmp6_make_inv (args : List String) (p : Icmp6) (h : Icmp6.make args = .ok p) : p.Inv := by
  unfold Icmp6.make at h
  split at h
  · injection h with h; subst h; exact icmp6_create_inv _
  · obtain ⟨n, _, h⟩ := bind_ok_inv h
    injection h with h; subst h; exact icmp6_create_inv _
  · cases h

section updates
variable (p : Icmp6) (hi : p.Inv)
include hi

theorem inv_un (u : Bytes) (h : u.length = 4) : ({ p with un := u } : Icmp6).Inv :=
  ⟨h, hi.target, hi.dest, hi.mcast, hi.reach, hi.retrans, hi.mlqm, hi.sources, hi.records, hi.optData, hi.optsSize⟩
theorem inv_type (t : Nat) : ({ p with type := t } : Icmp6).Inv :=
  ⟨hi.un, hi.target, hi.dest, hi.mcast, hi.reach, hi.retrans, hi.mlqm, hi.sources, hi.records, hi.optData, hi.optsSize⟩
theorem inv_code (t : Nat) : ({ p with code := t } : Icmp6).Inv :=
  ⟨hi.un, hi.target, hi.dest, hi.mcast, hi.reach, hi.retrans, hi.mlqm, hi.sources, hi.records, hi.optData, hi.optsSize⟩
theorem inv_target (u : Bytes) (h : u.length = 16) : ({ p with target := u } : Icmp6).Inv :=
  ⟨hi.un, h, hi.dest, hi.mcast, hi.reach, hi.retrans, hi.mlqm, hi.sources, hi.records, hi.optData, hi.optsSize⟩
theorem inv_dest (u : Bytes) (h : u.length = 16) : ({ p with dest := u } : Icmp6).Inv :=
  ⟨hi.un, hi.target, h, hi.mcast, hi.reach, hi.retrans, hi.mlqm, hi.sources, hi.records, hi.optData, hi.optsSize⟩
theorem inv_mcast (u : Bytes) (h : u.length = 16) : ({ p with mcast := u } : Icmp6).Inv :=
  ⟨hi.un, hi.target, hi.dest, h, hi.reach, hi.retrans, hi.mlqm, hi.sources, hi.records, hi.optData, hi.optsSize⟩
theorem inv_reach (u : Bytes) (h : u.length = 4) : ({ p with reach := u } : Icmp6).Inv :=
  ⟨hi.un, hi.target, hi.dest, hi.mcast, h, hi.retrans, hi.mlqm, hi.sources, hi.records, hi.optData, hi.optsSize⟩
theorem inv_retrans (u : Bytes) (h : u.length = 4) : ({ p with retrans := u } : Icmp6).Inv :=
  ⟨hi.un, hi.target, hi.dest, hi.mcast, hi.reach, h, hi.mlqm, hi.sources, hi.records, hi.optData, hi.optsSize⟩
theorem inv_mlqm (u : Bytes) (h : u.length = 2) : ({ p with mlqm := u } : Icmp6).Inv :=
  ⟨hi.un, hi.target, hi.dest, hi.mcast, hi.reach, hi.retrans, h, hi.sources, hi.records, hi.optData, hi.optsSize⟩
theorem inv_sources (l : List Bytes) (h : ∀ s ∈ l, s.length = 16) : ({ p with sources := l } : Icmp6).Inv :=
  ⟨hi.un, hi.target, hi.dest, hi.mcast, hi.reach, hi.retrans, hi.mlqm, h, hi.records, hi.optData, hi.optsSize⟩
theorem inv_records (l : List McastRec) (h : ∀ r ∈ l, r.WF) : ({ p with records := l } : Icmp6).Inv :=
  ⟨hi.un, hi.target, hi.dest, hi.mcast, hi.reach, hi.retrans, hi.mlqm, hi.sources, h, hi.optData, hi.optsSize⟩
theorem inv_useMldv2 (b : Bool) : ({ p with useMldv2 := b } : Icmp6).Inv :=
  ⟨hi.un, hi.target, hi.dest, hi.mcast, hi.reach, hi.retrans, hi.mlqm, hi.sources, hi.records, hi.optData, hi.optsSize⟩
theorem inv_ext (e : ExtS) : ({ p with ext := e } : Icmp6).Inv :=
  ⟨hi.un, hi.target, hi.dest, hi.mcast, hi.reach, hi.retrans, hi.mlqm, hi.sources, hi.records, hi.optData, hi.optsSize⟩

theorem inv_setUn (off : Nat) (bs : Bytes) (h : off + bs.length ≤ 4) : (p.setUn off bs).Inv := by
  unfold Icmp6.setUn
  exact inv_un p hi _ (by rw [patch_length _ _ _ (by rw [hi.un]; exact h)]; exact hi.un)

theorem inv_setBits (i shift width v : Nat) (h : i < 4) : (p.setBits i shift width v).Inv := by
  unfold Icmp6.setBits
  exact inv_setUn p hi i _ (by simp; omega)

theorem inv_setMlqmBits (shift width v : Nat) : (p.setMlqmBits shift width v).Inv := by
  unfold Icmp6.setMlqmBits
  exact inv_mlqm p hi _ (by rw [patch_length _ _ _ (by simp [hi.mlqm])]; exact hi.mlqm)

end updates

theorem wireSum_append (a b : List Opt) : Icmp6.wireSum (a ++ b) = Icmp6.wireSum a + Icmp6.wireSum b := by
  induction a with
  | nil => simp [Icmp6.wireSum]
  | cons x xs ih => simp only [List.cons_append, Icmp6.wireSum, ih]; omega

/-- `add_option` keeps `options_size_` = Σ (mod 2^32) -/
theorem inv_addOption (p : Icmp6) (hi : p.Inv) (o : Opt) (ho : o.data.length ≤ 65535) : (p.addOption o).Inv := by
  refine ⟨hi.un, hi.target, hi.dest, hi.mcast, hi.reach, hi.retrans, hi.mlqm, hi.sources, hi.records, ?_, ?_⟩
  · intro x hx
    simp only [Icmp6.addOption, List.mem_append, List.mem_singleton] at hx
    rcases hx with hx | rfl
    · exact hi.optData x hx
    · exact ho
  · simp only [Icmp6.addOption, wireSum_append, Icmp6.wireSum, hi.optsSize]
    omega

theorem findOpt_mem (os : List Opt) (code : Nat) (o : Opt) (h : Icmp6.findOpt os code = some o) : o ∈ os :=
  List.mem_of_find?_eq_some h

theorem wireSum_erase (os : List Opt) (code : Nat) (o : Opt) (h : Icmp6.findOpt os code = some o) :
    Icmp6.wireSum os = Icmp6.wireSum (Icmp6.eraseOpt os code) + Icmp6.optWire o := by
  induction os with
  | nil => simp [Icmp6.findOpt] at h
  | cons x xs ih =>
    simp only [Icmp6.findOpt, List.find?_cons] at h
    by_cases hx : (x.code == code) = true
    · simp only [hx] at h
      injection h with h; subst h
      simp only [Icmp6.eraseOpt, hx, if_true, Icmp6.wireSum]; omega
    · simp only [hx] at h
      simp only [Icmp6.eraseOpt, hx, Bool.false_eq_true, if_false, Icmp6.wireSum]
      have := ih h
      omega

theorem eraseOpt_subset (os : List Opt) (code : Nat) : ∀ x ∈ Icmp6.eraseOpt os code, x ∈ os := by
  induction os with
  | nil => simp [Icmp6.eraseOpt]
  | cons y ys ih =>
    intro x hx
    simp only [Icmp6.eraseOpt] at hx
    split at hx
    · exact List.mem_cons_of_mem _ hx
    · rcases List.mem_cons.mp hx with rfl | hx
      · exact List.mem_cons_self
      · exact List.mem_cons_of_mem _ (ih x hx)

/-- `remove_option` keeps `options_size_` = Σ (mod 2^32): the removed option is one of the summed ones -/
theorem inv_removeOption (p : Icmp6) (hi : p.Inv) (code : Nat) : (p.removeOption code).Inv := by
  unfold Icmp6.removeOption
  cases hf : Icmp6.findOpt p.opts code with
  | none => exact hi
  | some o =>
    simp only
    have hmem := findOpt_mem _ _ _ hf
    have hsum := wireSum_erase _ _ _ hf
    have hd := hi.optData o hmem
    refine ⟨hi.un, hi.target, hi.dest, hi.mcast, hi.reach, hi.retrans, hi.mlqm, hi.sources, hi.records, ?_, ?_⟩
    · intro x hx; exact hi.optData x (eraseOpt_subset _ _ x hx)
    · simp only [hi.optsSize, Icmp6.optWire] at *
      omega

theorem addTyped_inv (p p' : Icmp6) (code : Nat) (data : Bytes) (hi : p.Inv) (h : p.addTyped code data = .ok p') : p'.Inv := by
  unfold Icmp6.addTyped at h
  obtain ⟨o, eo, h⟩ := bind_ok_inv h
  injection h with h; subst h
  unfold Icmp6.mkOpt at eo
  split at eo
  · cases eo
  · injection eo with eo; subst eo
    exact inv_addOption p hi _ (by simp only; omega)

theorem recordArg_wf (s : String) (r : McastRec) (h : Icmp6.recordArg s = .ok r) : r.WF := by
  unfold Icmp6.recordArg at h
  split at h
  · obtain ⟨t, _, h⟩ := bind_ok_inv h
    obtain ⟨a, ea, h⟩ := bind_ok_inv h
    obtain ⟨srcs, es, h⟩ := bind_ok_inv h
    obtain ⟨aux, _, h⟩ := bind_ok_inv h
    injection h with h; subst h
    exact ⟨hexArgN_length _ _ _ ea,
      mapOut_forall (fun x => hexArgN x 16) (fun b => b.length = 16) (fun x b hb => hexArgN_length x 16 b hb) _ _ es⟩
  · cases h

theorem addrListArg_16 (s : String) (l : List Bytes) (h : Icmp6.addrListArg s = .ok l) : ∀ x ∈ l, x.length = 16 := by
  unfold Icmp6.addrListArg at h
  exact mapOut_forall (fun x => hexArgN x 16) (fun b => b.length = 16) (fun x b hb => hexArgN_length x 16 b hb) _ _ h

theorem bind_eq_ok_iff {α β} {x : Out α} {f : α → Out β} {r : β} : (x >>= f) = .ok r ↔ ∃ a, x = .ok a ∧ f a = .ok r := by
  constructor
  · exact bind_ok_inv
  · rintro ⟨a, rfl, h⟩; exact h

theorem applyFields_inv (p p' : Icmp6) (op : List String) (r : Out Icmp6) (hi : p.Inv) (hs : p.applyFields op = some r)
    (h : r = .ok p') : p'.Inv := by
  unfold Icmp6.applyFields at hs
  split at hs
  all_goals cases hs
  all_goals try simp only [bind_eq_ok_iff, Out.pure_eq, Out.ok.injEq] at h
  all_goals try (rcases h with ⟨_, e1, h⟩)
  all_goals try (rcases h with ⟨_, e2, h⟩)
  all_goals try (rcases h with ⟨_, e3, h⟩)
  all_goals try (rcases h with ⟨_, e4, h⟩)
  all_goals try (rcases h with ⟨_, e5, h⟩)
  all_goals try (rcases h with ⟨_, e6, h⟩)
  all_goals try (split at h)
  all_goals first
    | exact addTyped_inv p p' _ _ hi h
    | (first
        | exact inv_type p hi _
        | exact inv_code p hi _
        | exact inv_setUn p hi _ _ (by simp [Icmp6.be16, Icmp6.u8])
        | exact inv_setBits p hi _ _ _ _ (by omega)
        | exact inv_setMlqmBits p hi _ _ _
        | exact inv_reach p hi _ (by simp [Icmp6.be32])
        | exact inv_retrans p hi _ (by simp [Icmp6.be32])
        | exact inv_target p hi _ (hexArgN_length _ _ _ e1)
        | exact inv_dest p hi _ (hexArgN_length _ _ _ e1)
        | exact inv_mcast p hi _ (hexArgN_length _ _ _ e1)
        | exact inv_records p hi _ (mapOut_forall Icmp6.recordArg McastRec.WF (fun x b hb => recordArg_wf x b hb) _ _ e1)
        | exact inv_sources p hi _ (addrListArg_16 _ _ e1)
        | exact inv_mlqm p hi _ (by rw [patch_length _ _ _ (by simp [hi.mlqm, Icmp6.u8])]; exact hi.mlqm)
        | exact inv_useMldv2 p hi _
        | exact inv_ext p hi _
        | exact inv_removeOption p hi _
        | (refine inv_addOption p hi _ ?_
           simp [Icmp6.be16, Icmp6.be32, Icmp6.u8, Icmp6.zeros]
           first
            | done
            | (have := hexArgN_length _ _ _ e1; omega)
            | (have := hexArgN_length _ _ _ e2; omega)
            | (have := hexArgN_length _ _ _ e3; omega)
            | (have := hexArgN_length _ _ _ e4; omega)
            | (have := hexArgN_length _ _ _ e5; omega)
            | (have := hexArgN_length _ _ _ e6; omega)))
    | cases h

theorem applyMld_inv (p p' : Icmp6) (op : List String) (r : Out Icmp6) (hi : p.Inv) (hs : p.applyMld op = some r)
    (h : r = .ok p') : p'.Inv := by
  unfold Icmp6.applyMld at hs
  split at hs
  all_goals cases hs
  all_goals try simp only [bind_eq_ok_iff, Out.pure_eq, Out.ok.injEq] at h
  all_goals try (rcases h with ⟨_, e1, h⟩)
  all_goals try (rcases h with ⟨_, e2, h⟩)
  all_goals try (rcases h with ⟨_, e3, h⟩)
  all_goals try (rcases h with ⟨_, e4, h⟩)
  all_goals try (rcases h with ⟨_, e5, h⟩)
  all_goals try (rcases h with ⟨_, e6, h⟩)
  all_goals try (split at h)
  all_goals first
    | exact addTyped_inv p p' _ _ hi h
    | (first
        | exact inv_type p hi _
        | exact inv_code p hi _
        | exact inv_setUn p hi _ _ (by simp [Icmp6.be16, Icmp6.u8])
        | exact inv_setBits p hi _ _ _ _ (by omega)
        | exact inv_setMlqmBits p hi _ _ _
        | exact inv_reach p hi _ (by simp [Icmp6.be32])
        | exact inv_retrans p hi _ (by simp [Icmp6.be32])
        | exact inv_target p hi _ (hexArgN_length _ _ _ e1)
        | exact inv_dest p hi _ (hexArgN_length _ _ _ e1)
        | exact inv_mcast p hi _ (hexArgN_length _ _ _ e1)
        | exact inv_records p hi _ (mapOut_forall Icmp6.recordArg McastRec.WF (fun x b hb => recordArg_wf x b hb) _ _ e1)
        | exact inv_sources p hi _ (addrListArg_16 _ _ e1)
        | exact inv_mlqm p hi _ (by rw [patch_length _ _ _ (by simp [hi.mlqm, Icmp6.u8])]; exact hi.mlqm)
        | exact inv_useMldv2 p hi _
        | exact inv_ext p hi _
        | exact inv_removeOption p hi _
        | (refine inv_addOption p hi _ ?_
           simp [Icmp6.be16, Icmp6.be32, Icmp6.u8, Icmp6.zeros]
           first
            | done
            | (have := hexArgN_length _ _ _ e1; omega)
            | (have := hexArgN_length _ _ _ e2; omega)
            | (have := hexArgN_length _ _ _ e3; omega)
            | (have := hexArgN_length _ _ _ e4; omega)
            | (have := hexArgN_length _ _ _ e5; omega)
            | (have := hexArgN_length _ _ _ e6; omega)))
    | cases h

theorem applyMld2_inv (p p' : Icmp6) (op : List String) (r : Out Icmp6) (hi : p.Inv) (hs : p.applyMld2 op = some r)
    (h : r = .ok p') : p'.Inv := by
  unfold Icmp6.applyMld2 at hs
  split at hs
  all_goals cases hs
  all_goals try simp only [bind_eq_ok_iff, Out.pure_eq, Out.ok.injEq] at h
  all_goals try (rcases h with ⟨_, e1, h⟩)
  all_goals try (rcases h with ⟨_, e2, h⟩)
  all_goals try (rcases h with ⟨_, e3, h⟩)
  all_goals try (rcases h with ⟨_, e4, h⟩)
  all_goals try (rcases h with ⟨_, e5, h⟩)
  all_goals try (rcases h with ⟨_, e6, h⟩)
  all_goals try (split at h)
  all_goals first
    | exact addTyped_inv p p' _ _ hi h
    | (first
        | exact inv_type p hi _
        | exact inv_code p hi _
        | exact inv_setUn p hi _ _ (by simp [Icmp6.be16, Icmp6.u8])
        | exact inv_setBits p hi _ _ _ _ (by omega)
        | exact inv_setMlqmBits p hi _ _ _
        | exact inv_reach p hi _ (by simp [Icmp6.be32])
        | exact inv_retrans p hi _ (by simp [Icmp6.be32])
        | exact inv_target p hi _ (hexArgN_length _ _ _ e1)
        | exact inv_dest p hi _ (hexArgN_length _ _ _ e1)
        | exact inv_mcast p hi _ (hexArgN_length _ _ _ e1)
        | exact inv_records p hi _ (mapOut_forall Icmp6.recordArg McastRec.WF (fun x b hb => recordArg_wf x b hb) _ _ e1)
        | exact inv_sources p hi _ (addrListArg_16 _ _ e1)
        | exact inv_mlqm p hi _ (by rw [patch_length _ _ _ (by simp [hi.mlqm, Icmp6.u8])]; exact hi.mlqm)
        | exact inv_useMldv2 p hi _
        | exact inv_ext p hi _
        | exact inv_removeOption p hi _
        | (refine inv_addOption p hi _ ?_
           simp [Icmp6.be16, Icmp6.be32, Icmp6.u8, Icmp6.zeros]
           first
            | done
            | (have := hexArgN_length _ _ _ e1; omega)
            | (have := hexArgN_length _ _ _ e2; omega)
            | (have := hexArgN_length _ _ _ e3; omega)
            | (have := hexArgN_length _ _ _ e4; omega)
            | (have := hexArgN_length _ _ _ e5; omega)
            | (have := hexArgN_length _ _ _ e6; omega)))
    | cases h

theorem applyOpts1_inv (p p' : Icmp6) (op : List String) (r : Out Icmp6) (hi : p.Inv) (hs : p.applyOpts1 op = some r)
    (h : r = .ok p') : p'.Inv := by
  unfold Icmp6.applyOpts1 at hs
  split at hs
  all_goals cases hs
  all_goals try simp only [bind_eq_ok_iff, Out.pure_eq, Out.ok.injEq] at h
  all_goals try (rcases h with ⟨_, e1, h⟩)
  all_goals try (rcases h with ⟨_, e2, h⟩)
  all_goals try (rcases h with ⟨_, e3, h⟩)
  all_goals try (rcases h with ⟨_, e4, h⟩)
  all_goals try (rcases h with ⟨_, e5, h⟩)
  all_goals try (rcases h with ⟨_, e6, h⟩)
  all_goals try (split at h)
  all_goals first
    | exact addTyped_inv p p' _ _ hi h
    | (first
        | exact inv_type p hi _
        | exact inv_code p hi _
        | exact inv_setUn p hi _ _ (by simp [Icmp6.be16, Icmp6.u8])
        | exact inv_setBits p hi _ _ _ _ (by omega)
        | exact inv_setMlqmBits p hi _ _ _
        | exact inv_reach p hi _ (by simp [Icmp6.be32])
        | exact inv_retrans p hi _ (by simp [Icmp6.be32])
        | exact inv_target p hi _ (hexArgN_length _ _ _ e1)
        | exact inv_dest p hi _ (hexArgN_length _ _ _ e1)
        | exact inv_mcast p hi _ (hexArgN_length _ _ _ e1)
        | exact inv_records p hi _ (mapOut_forall Icmp6.recordArg McastRec.WF (fun x b hb => recordArg_wf x b hb) _ _ e1)
        | exact inv_sources p hi _ (addrListArg_16 _ _ e1)
        | exact inv_mlqm p hi _ (by rw [patch_length _ _ _ (by simp [hi.mlqm, Icmp6.u8])]; exact hi.mlqm)
        | exact inv_useMldv2 p hi _
        | exact inv_ext p hi _
        | exact inv_removeOption p hi _
        | (refine inv_addOption p hi _ ?_
           simp [Icmp6.be16, Icmp6.be32, Icmp6.u8, Icmp6.zeros]
           first
            | done
            | (have := hexArgN_length _ _ _ e1; omega)
            | (have := hexArgN_length _ _ _ e2; omega)
            | (have := hexArgN_length _ _ _ e3; omega)
            | (have := hexArgN_length _ _ _ e4; omega)
            | (have := hexArgN_length _ _ _ e5; omega)
            | (have := hexArgN_length _ _ _ e6; omega)))
    | cases h

theorem applyOpts2_inv (p p' : Icmp6) (op : List String) (r : Out Icmp6) (hi : p.Inv) (hs : p.applyOpts2 op = some r)
    (h : r = .ok p') : p'.Inv := by
  unfold Icmp6.applyOpts2 at hs
  split at hs
  all_goals cases hs
  all_goals try simp only [bind_eq_ok_iff, Out.pure_eq, Out.ok.injEq] at h
  all_goals try (rcases h with ⟨_, e1, h⟩)
  all_goals try (rcases h with ⟨_, e2, h⟩)
  all_goals try (rcases h with ⟨_, e3, h⟩)
  all_goals try (rcases h with ⟨_, e4, h⟩)
  all_goals try (rcases h with ⟨_, e5, h⟩)
  all_goals try (rcases h with ⟨_, e6, h⟩)
  all_goals try (split at h)
  all_goals first
    | exact addTyped_inv p p' _ _ hi h
    | (first
        | exact inv_type p hi _
        | exact inv_code p hi _
        | exact inv_setUn p hi _ _ (by simp [Icmp6.be16, Icmp6.u8])
        | exact inv_setBits p hi _ _ _ _ (by omega)
        | exact inv_setMlqmBits p hi _ _ _
        | exact inv_reach p hi _ (by simp [Icmp6.be32])
        | exact inv_retrans p hi _ (by simp [Icmp6.be32])
        | exact inv_target p hi _ (hexArgN_length _ _ _ e1)
        | exact inv_dest p hi _ (hexArgN_length _ _ _ e1)
        | exact inv_mcast p hi _ (hexArgN_length _ _ _ e1)
        | exact inv_records p hi _ (mapOut_forall Icmp6.recordArg McastRec.WF (fun x b hb => recordArg_wf x b hb) _ _ e1)
        | exact inv_sources p hi _ (addrListArg_16 _ _ e1)
        | exact inv_mlqm p hi _ (by rw [patch_length _ _ _ (by simp [hi.mlqm, Icmp6.u8])]; exact hi.mlqm)
        | exact inv_useMldv2 p hi _
        | exact inv_ext p hi _
        | exact inv_removeOption p hi _
        | (refine inv_addOption p hi _ ?_
           simp [Icmp6.be16, Icmp6.be32, Icmp6.u8, Icmp6.zeros]
           first
            | done
            | (have := hexArgN_length _ _ _ e1; omega)
            | (have := hexArgN_length _ _ _ e2; omega)
            | (have := hexArgN_length _ _ _ e3; omega)
            | (have := hexArgN_length _ _ _ e4; omega)
            | (have := hexArgN_length _ _ _ e5; omega)
            | (have := hexArgN_length _ _ _ e6; omega)))
    | cases h

/-- **C04 / ICMPv6**: every modelled API call keeps the invariant -/
theorem icmp6_apply_inv (p p' : Icmp6) (op : List String) (hi : p.Inv) (h : p.apply op = .ok p') : p'.Inv := by
  unfold Icmp6.apply at h
  split at h
  · exact applyFields_inv p p' op _ hi ‹_› h
  · split at h
    · exact applyMld_inv p p' op _ hi ‹_› h
    · split at h
      · exact applyMld2_inv p p' op _ hi ‹_› h
      · split at h
        · exact applyOpts1_inv p p' op _ hi ‹_› h
        · split at h
          · exact applyOpts2_inv p p' op _ hi ‹_› h
          · cases h

end Tins.Wire.Icmp
