import TinsModel.Wire.Icmp.Icmp
/- `Tins::ICMPv6` (src/icmpv6.cpp, include/tins/icmpv6.h): 8-byte header, target / destination address, router
   advertisement fields, MLDv2 report records, MLD query fields and sources, the neighbour-discovery option list with
   its cached size, RFC 4884 length / padding / extension structure, IPv6 pseudo-header checksum. -/
namespace Tins.Wire.Icmp
open Tins

/-- `PDUOption<uint8_t, ICMPv6>`: option code, advertised length (`size_`), data (`real_size_` bytes) -/
structure Opt where
  code : Nat
  lenField : Nat
  data : Bytes
deriving Repr, DecidableEq

/-- `ICMPv6::multicast_address_record` -/
structure McastRec where
  type : Nat
  addr : Bytes            -- 16 bytes
  sources : List Bytes    -- 16 bytes each
  aux : Bytes
deriving Repr, DecidableEq

structure Icmp6 where
  type : Nat
  code : Nat
  cksum : Nat             -- checksum(): big-endian value of header_.cksum
  un : Bytes              -- the 4-byte union of `icmp6_header` as it sits in memory (= on the wire)
  target : Bytes          -- target_address_ (16)
  dest : Bytes            -- dest_address_ (16)
  mcast : Bytes           -- multicast_address_ (16)
  opts : List Opt         -- options_
  optsSize : Nat          -- options_size_ (uint32_t)
  reach : Bytes           -- reach_time_ (4 wire bytes)
  retrans : Bytes         -- retrans_timer_ (4 wire bytes)
  records : List McastRec -- multicast_records_
  mlqm : Bytes            -- mlqm_ (2 bytes: flags, qqic)
  sources : List Bytes    -- sources_
  ext : ExtS              -- extensions_
  useMldv2 : Bool         -- use_mldv2_
deriving Repr, DecidableEq

/-- `while (sources_count--) sources.push_back(stream.read<ipaddress_type>())` -/
def readAddrs : Nat → Cursor → Out (List Bytes × Cursor)
  | 0, c => .ok ([], c)
  | n + 1, c => do
    let (a, c) ← c.read 16
    let (rest, c) ← readAddrs n c
    pure (a :: rest, c)

namespace McastRec

/-- `multicast_address_record::size()` -/
def size (r : McastRec) : Nat := 4 + 16 + r.sources.length * 16 + r.aux.length

/-- `multicast_address_record::multicast_address_record(const uint8_t* buffer, uint32_t total_sz)` -/
def parse (c : Cursor) : Out McastRec := do
  let (t, c) ← c.readU8
  let (auxWords, c) ← c.readU8
  let auxLen := auxWords * 4
  let (cnt, c) ← c.readBE 2
  let (addr, c) ← c.read 16
  let (srcs, c) ← readAddrs cnt c
  if !c.canRead auxLen then .throw .malformedPacket else
  -- aux_data.assign(stream.pointer(), stream.pointer() + aux_data_len);
  let aux ← c.peek "ICMPv6::multicast_address_record aux_data" 0 auxLen
  pure ⟨t, addr, srcs, aux⟩

def writeAddrs (o : OutCursor) : List Bytes → Out OutCursor
  | [] => .ok o
  | a :: as => do
    let o ← o.write a
    writeAddrs o as

/-- the bytes `multicast_address_record::serialize` writes -/
def bytes (r : McastRec) : Bytes :=
  [UInt8.ofNat r.type, UInt8.ofNat (r.aux.length / 4)] ++ OutCursor.beBytes 2 r.sources.length ++ r.addr ++
    r.sources.flatten ++ r.aux

/-- `multicast_address_record::serialize(buffer, total_sz)` through its own `OutputMemoryStream` -/
def write (r : McastRec) (o : OutCursor) : Out OutCursor := do
  let o ← o.write [UInt8.ofNat r.type]
  let o ← o.write [UInt8.ofNat (r.aux.length / 4)]
  let o ← o.writeBE 2 r.sources.length
  let o ← o.write r.addr
  let o ← writeAddrs o r.sources
  o.write r.aux

def str (r : McastRec) : String :=
  let srcs := if r.sources.isEmpty then "-" else "+".intercalate (r.sources.map hexStr)
  s!"{r.type}:{hexStr r.addr}:{srcs}:{hexStr r.aux}"

end McastRec

namespace Icmp6

def hasTarget (t : Nat) : Bool := t == 135 || t == 136 || t == 137
def hasDest (t : Nat) : Bool := t == 137
/-- `has_options()`: ROUTER_SOLICIT .. REDIRECT -/
def hasOptions (t : Nat) : Bool := t == 133 || t == 134 || t == 135 || t == 136 || t == 137
/-- `are_extensions_allowed()`: DEST_UNREACHABLE, TIME_EXCEEDED -/
def extAllowed (t : Nat) : Bool := t == 1 || t == 3

/-- `length()` = `header_.rfc4884.length` -/
def length (p : Icmp6) : Nat := byteAt p.un 0
def hasExt (p : Icmp6) : Bool := !p.ext.exts.isEmpty

/-- what one option adds to `options_size_` -/
def optWire (o : Opt) : Nat := o.data.length + 2

/-- `ICMPv6::parse_options`: the `while (stream)` loop; every round consumes at least two bytes -/
def parseOpts : Nat → Cursor → Out (List Opt)
  | 0, c => if c.toBool then .fault "ICMPv6::parse_options: out of fuel" else .ok []
  | fuel + 1, c =>
    if !c.toBool then .ok [] else do
    let (t, c) ← c.readU8
    let (l, c) ← c.readU8
    let optSize := l * 8
    if optSize < 2 then .throw .malformedPacket else
    let payloadSize := optSize - 2
    if !c.canRead payloadSize then .throw .malformedPacket else
    -- option(opt_type, payload_size, stream.pointer()): copy through the raw pointer
    let data ← c.peek "ICMPv6::parse_options option payload" 0 payloadSize
    let c ← c.skip payloadSize
    let rest ← parseOpts fuel c
    pure (⟨t, payloadSize, data⟩ :: rest)

/-- `if (has_options()) parse_options(stream);` -/
def parseOptsIf (on : Bool) (c : Cursor) : Out (List Opt × Cursor) :=
  if on then do
    let os ← parseOpts c.size c
    pure (os, (⟨[], 0⟩ : Cursor))          -- the loop ends only with an empty stream
  else pure ([], c)

/-- `options_size_` after `add_option` of each parsed option (uint32_t) -/
def sizeAfter (s : Nat) (os : List Opt) : Nat := os.foldl (fun s o => (s + optWire o) % 4294967296) s

/-- the MLDv2 report loop: `record_count` records, each built on the rest of the stream and then skipped -/
def parseRecords : Nat → Cursor → Out (List McastRec × Cursor)
  | 0, c => .ok ([], c)
  | n + 1, c => do
    let r ← McastRec.parse c
    let c ← c.skip r.size
    let (rest, c) ← parseRecords n c
    pure (r :: rest, c)

structure Body where
  target : Bytes
  dest : Bytes
  reach : Bytes
  retrans : Bytes
  records : List McastRec
  mcast : Bytes
  useMldv2 : Bool
  mlqm : Bytes
  sources : List Bytes

def zeros (n : Nat) : Bytes := List.replicate n 0

/-- everything between the 8-byte header and the options, by type -/
def readBody (t : Nat) (un : Bytes) (c : Cursor) : Out (Body × Cursor) := do
  let (target, c) ← readIf (hasTarget t) 16 c
  let (dest, c) ← readIf (hasDest t) 16 c
  let b0 : Body := ⟨target, dest, zeros 4, zeros 4, [], zeros 16, true, zeros 2, []⟩
  if t == 134 then do
    let (reach, c) ← c.read 4
    let (retrans, c) ← c.read 4
    pure ({ b0 with reach := reach, retrans := retrans }, c)
  else if t == 143 then do
    let (recs, c) ← parseRecords (be16At un 2) c
    pure ({ b0 with records := recs }, c)
  else if t == 130 then do
    let (mcast, c) ← c.read 16
    if c.toBool then do
      let (mlqm, c) ← c.read 2
      let (cnt, c) ← c.readBE 2
      let (srcs, c) ← readAddrs cnt c
      pure ({ b0 with mcast := mcast, useMldv2 := true, mlqm := mlqm, sources := srcs }, c)
    else pure ({ b0 with mcast := mcast, useMldv2 := false }, c)
  else pure (b0, c)

/-- `ICMPv6::ICMPv6(const uint8_t* buffer, uint32_t total_sz)` -/
def parseHead (b : Bytes) : Out (Icmp6 × Cursor) := do
  let c := Cursor.ofBytes b
  let (t, c) ← c.readU8
  let (code, c) ← c.readU8
  let (cksum, c) ← c.readBE 2
  let (un, c) ← c.read 4
  let (body, c) ← readBody t un c
  let (opts, c) ← parseOptsIf (hasOptions t) c
  let (ext, c) ← tryParseExtIf (extAllowed t) c (byteAt un 0 * 8)
  pure (⟨t, code, cksum, un, body.target, body.dest, body.mcast, opts, sizeAfter 0 opts, body.reach,
    body.retrans, body.records, body.mlqm, body.sources, ext, body.useMldv2⟩, c)

def parse (b : Bytes) : Out (Icmp6 × Inner) := do
  let (p, c) ← parseHead b
  finishRaw "ICMPv6::ICMPv6 RawPDU" p c

/-! ### typed option decoders (`search_and_convert<T>`: `T::from_option` / `Internals::Converters::convert`) -/

/-- outcome of a typed getter -/
inductive Dec
  | val (s : String)
  | notFound          -- option_not_found
  | malformed         -- malformed_option
  | malformedPkt      -- malformed_packet (an `InputMemoryStream` read past the option data)
deriving Repr, DecidableEq

def Dec.str : Dec → String
  | .val s => s
  | .notFound => "none"
  | .malformed => "bad"
  | .malformedPkt => "mp"

def findOpt (os : List Opt) (code : Nat) : Option Opt := os.find? (fun o => o.code == code)

def eraseOpt : List Opt → Nat → List Opt
  | [], _ => []
  | o :: os, code => if o.code == code then os else o :: eraseOpt os code

def chunks (k : Nat) : Nat → Bytes → List Bytes
  | 0, _ => []
  | n + 1, b => b.take k :: chunks k n (b.drop k)

def joinWithSep (sep : String) (xs : List String) : String := if xs.isEmpty then "-" else sep.intercalate xs

def decHw (b : Bytes) : Dec := if b.length != 6 then .malformed else .val (hexStr b)
def decBytes (b : Bytes) : Dec := .val (hexStr b)

def decPrefixInfo (b : Bytes) : Dec :=
  if b.length != 30 then .malformed else
  .val s!"{byteAt b 0}.{byteAt b 1 / 64 % 2}.{byteAt b 1 / 128 % 2}.{be32At b 2}.{be32At b 6}.{be32At b 10}.{hexStr (b.drop 14)}"

def decMtu (b : Bytes) : Dec := if b.length != 6 then .malformed else .val s!"{be16At b 0}.{be32At b 2}"
def decShortcut (b : Bytes) : Dec :=
  if b.length != 6 then .malformed else .val s!"{byteAt b 0}.{byteAt b 1}.{be32At b 2}"
def decAdvert (b : Bytes) : Dec := if b.length != 6 then .malformed else .val s!"{be16At b 0}.{be32At b 2}"

def decU16List (b : Bytes) : Dec :=
  if b.length % 2 != 0 then .malformed else
  .val (joinWithSep "," ((chunks 2 (b.length / 2) b).map (fun x => toString (Cursor.beNat x))))

def decAddrList (b : Bytes) : Dec :=
  if b.length < 6 + 16 || (b.length - 6) % 16 != 0 then .malformed else
  .val s!"{hexStr (b.take 6)}.{joinWithSep "," ((chunks 16 ((b.length - 6) / 16) (b.drop 6)).map hexStr)}"

def decRsa (b : Bytes) : Dec :=
  if b.length < 2 + 16 + 1 then .malformed else .val s!"{hexStr (slice b 2 16)}.{hexStr (b.drop 18)}"

def decTimestamp (b : Bytes) : Dec :=
  if b.length != 6 + 8 then .malformed else .val s!"{hexStr (b.take 6)}.{Cursor.beNat (b.drop 6)}"

def decIpPrefix (b : Bytes) : Dec :=
  if b.length != 2 + 4 + 16 then .malformed else .val s!"{byteAt b 0}.{byteAt b 1}.{hexStr (b.drop 6)}"

def decLladdr (b : Bytes) : Dec := if b.length < 2 then .malformed else .val s!"{byteAt b 0}.{hexStr (b.drop 1)}"
def decNaack (b : Bytes) : Dec := if b.length != 6 then .malformed else .val s!"{byteAt b 0}.{byteAt b 1}"

def decMap (b : Bytes) : Dec :=
  if b.length != 2 + 4 + 16 then .malformed else
  .val s!"{byteAt b 0 / 16 % 16}.{byteAt b 0 % 16}.{byteAt b 1 / 128 % 2}.{be32At b 2}.{hexStr (b.drop 6)}"

def decRouteInfo (b : Bytes) : Dec :=
  if b.length < 2 + 4 then .malformed else .val s!"{byteAt b 0}.{byteAt b 1 / 8 % 4}.{be32At b 2}.{hexStr (b.drop 6)}"

/-- `recursive_dns_type::from_option`: `while (stream) servers.push_back(stream.read<IPv6Address>())` throws
    `malformed_packet` on a trailing partial address -/
def decRecDns (b : Bytes) : Dec :=
  if b.length < 2 + 4 + 16 then .malformed else
  if (b.length - 6) % 16 != 0 then .malformedPkt else
  .val s!"{be32At b 2}.{joinWithSep "," ((chunks 16 ((b.length - 6) / 16) (b.drop 6)).map hexStr)}"

def decHandoverReq (b : Bytes) : Dec :=
  if b.length < 2 + 4 then .notFound else             -- `throw option_not_found()`
  let pad := byteAt b 0
  if b.length - 2 < pad then .malformed else
  .val s!"{byteAt b 1 / 16 % 16}.{hexStr ((b.drop 2).take (b.length - 2 - pad))}"

def decHandoverReply (b : Bytes) : Dec :=
  if b.length < 2 + 4 then .malformed else
  let pad := byteAt b 0
  if b.length - 4 < pad then .malformed else
  .val s!"{be16At b 2}.{byteAt b 1 / 16 % 16}.{hexStr ((b.drop 4).take (b.length - 4 - pad))}"

/-- `handover_assist_info_type` / `mobile_node_id_type`: option code, length byte, that many bytes -/
def decCodeLen (b : Bytes) : Dec :=
  if b.length < 2 then .malformed else
  if b.length - 2 < byteAt b 1 then .malformed else
  .val s!"{byteAt b 0}.{hexStr ((b.drop 2).take (byteAt b 1))}"

/-- the inner `while (ptr < end && *ptr && *ptr < (end - ptr))` loop of `dns_search_list_type::from_option`:
    the labels of one domain (joined by '.') and what is left -/
def dnsLabels : Nat → Bytes → Bytes → Bytes × Bytes
  | 0, acc, b => (acc, b)
  | fuel + 1, acc, b =>
    match b with
    | [] => (acc, b)
    | l :: r =>
      if l.toNat != 0 && l.toNat < b.length then
        let acc := (if acc.isEmpty then acc else acc ++ [46]) ++ r.take l.toNat
        dnsLabels fuel acc (r.drop l.toNat)
      else (acc, b)

/-- the outer `while (ptr < end && *ptr)` loop -/
def dnsDomains : Nat → Bytes → Option (List Bytes)
  | 0, _ => some []
  | fuel + 1, b =>
    match b with
    | [] => some []
    | l :: _ =>
      if l.toNat == 0 then some [] else
      let (dom, rest) := dnsLabels b.length [] b
      -- if (ptr < end && *ptr != 0) throw option_not_found();
      match rest with
      | x :: rest' =>
        if x.toNat != 0 then none else
        (dnsDomains fuel rest').map (fun ds => dom :: ds)
      | [] => some [dom]

def decDnsSearch (b : Bytes) : Dec :=
  if b.length < 2 + 4 then .malformed else
  match dnsDomains b.length (b.drop 6) with
  | none => .notFound
  | some ds => .val s!"{be32At b 2}.{joinWithSep "," (ds.map hexStr)}"

/-- the typed getters in dump order: option code, getter name, decoder -/
def typedTable : List (Nat × String × (Bytes → Dec)) :=
  [(1, "source_link_layer_addr", decHw), (2, "target_link_layer_addr", decHw), (3, "prefix_info", decPrefixInfo),
   (4, "redirect_header", decBytes), (5, "mtu", decMtu), (6, "shortcut_limit", decShortcut),
   (7, "new_advert_interval", decAdvert), (8, "new_home_agent_info", decU16List), (9, "source_addr_list", decAddrList),
   (10, "target_addr_list", decAddrList), (12, "rsa_signature", decRsa), (13, "timestamp", decTimestamp),
   (14, "nonce", decBytes), (17, "ip_prefix", decIpPrefix), (19, "link_layer_addr", decLladdr), (20, "naack", decNaack),
   (23, "map", decMap), (24, "route_info", decRouteInfo), (25, "recursive_dns_servers", decRecDns),
   (27, "handover_key_request", decHandoverReq), (28, "handover_key_reply", decHandoverReply),
   (29, "handover_assist_info", decCodeLen), (30, "mobile_node_identifier", decCodeLen),
   (31, "dns_search_list", decDnsSearch)]

/-- a typed getter is dumped when an option with its code is present (it reads the first one) -/
def typedFields (os : List Opt) : Fields :=
  typedTable.filterMap (fun (code, name, dec) =>
    match findOpt os code with
    | some o => some (name, (dec o.data).str)
    | none => none)

def optsStr (os : List Opt) : String :=
  joinWithSep "," (os.map (fun o => s!"{o.code}:{o.lenField}:{hexStr o.data}"))

def fields (p : Icmp6) : Fields :=
  [("type", toString p.type), ("code", toString p.code), ("~checksum", toString p.cksum)] ++
  (if extAllowed p.type then
     [("~length", toString p.length), ("id_low", toString (byteAt p.un 1)), ("sequence", toString (be16At p.un 2))]
   else if p.type == 143 then [("identifier", toString (be16At p.un 0)), ("~record_count", toString (be16At p.un 2))]
   else [("identifier", toString (be16At p.un 0)), ("sequence", toString (be16At p.un 2))]) ++
  (if p.type == 134 then
     [("hop_limit", toString (byteAt p.un 0)), ("managed", toString (byteAt p.un 1 / 128 % 2)),
      ("other", toString (byteAt p.un 1 / 64 % 2)), ("home_agent", toString (byteAt p.un 1 / 32 % 2)),
      ("router_pref", toString (byteAt p.un 1 / 8 % 4)), ("router_lifetime", toString (be16At p.un 2)),
      ("reachable_time", toString (Cursor.beNat p.reach)), ("retransmit_timer", toString (Cursor.beNat p.retrans))]
   else []) ++
  (if p.type == 136 then
     [("router", toString (byteAt p.un 0 / 128 % 2)), ("solicited", toString (byteAt p.un 0 / 64 % 2)),
      ("override", toString (byteAt p.un 0 / 32 % 2))]
   else []) ++
  (if hasTarget p.type then [("target_addr", hexStr p.target)] else []) ++
  (if hasDest p.type then [("dest_addr", hexStr p.dest)] else []) ++
  (if p.type == 130 then
     [("multicast_addr", hexStr p.mcast), ("supress", toString (byteAt p.mlqm 0 / 8 % 2)),
      ("qrv", toString (byteAt p.mlqm 0 % 8)), ("qqic", toString (byteAt p.mlqm 1)),
      ("sources", joinWithSep "," (p.sources.map hexStr))]
   else []) ++
  (if p.type == 143 then [("records", joinWithSep "," (p.records.map McastRec.str))] else []) ++
  [("opts", optsStr p.opts)] ++ typedFields p.opts ++ p.ext.fields

/-- the type-dependent part of `header_size()` -/
def extra (p : Icmp6) : Nat :=
  if p.type == 134 then 8
  else if p.type == 143 then (p.records.map McastRec.size).sum
  else if p.type == 130 then 16 + (if p.useMldv2 then 2 + 2 + 16 * p.sources.length else 0)
  else 0

/-- `ICMPv6::header_size()` (`uint32_t` arithmetic) -/
def hdr (p : Icmp6) : Nat :=
  (8 + p.optsSize + p.extra + (if hasTarget p.type then 16 else 0) + (if hasDest p.type then 16 else 0)) % 4294967296

/-- `ICMPv6::trailer_size()` -/
def trl (p : Icmp6) (innerSize : Nat) : Nat := extTrailer p.ext (Icmp4.innerOf innerSize) 8

/-- `ICMPv6::ICMPv6(Types tp)` -/
def create (t : Nat) : Icmp6 :=
  ⟨t % 256, 0, 0, zeros 4, zeros 16, zeros 16, zeros 16, [], 0, zeros 4, zeros 4, [], zeros 2, [], ExtS.default, true⟩

/-- the value `write_serialization` stores into `header_.rfc4884.length` -/
def lengthFor (p : Icmp6) (inner : Option Nat) : Nat :=
  if extAllowed p.type then
    let lv := paddedInner inner 8
    if p.length != 0 || lv > 128 then
      let lv := if lv > 0 && p.hasExt then (if lv > 128 then lv else 128) else lv
      (lv / 8) % 256
    else p.length
  else p.length

/-- `write_option` -/
def optBytes (o : Opt) : Bytes := [UInt8.ofNat o.code, UInt8.ofNat ((o.lenField + 2) / 8)] ++ o.data

def writeOpts (o : OutCursor) : List Opt → Out OutCursor
  | [] => .ok o
  | x :: xs => do
    let o ← o.write [UInt8.ofNat x.code]
    let o ← o.write [UInt8.ofNat ((x.lenField + 2) / 8)]
    let o ← o.write x.data
    writeOpts o xs

def writeRecords (o : OutCursor) : List McastRec → Out OutCursor
  | [] => .ok o
  | r :: rs => do
    -- iter->serialize(stream.pointer(), stream.size()); stream.skip(iter->size());
    let o' ← r.write ⟨[], o.rest, o.size⟩
    let o ← (⟨o.done, o'.done ++ o'.rest, o.size⟩ : OutCursor).skip r.size
    writeRecords o rs

/-- a member that is only written for some types -/
def writeIf (on : Bool) (o : OutCursor) (bs : Bytes) : Out OutCursor := if on then o.write bs else pure o

/-- the type-dependent part between the addresses and the options -/
def writeBody (p : Icmp6) (o : OutCursor) : Out OutCursor :=
  if p.type == 134 then do
    let o ← o.write p.reach
    o.write p.retrans
  else if p.type == 143 then writeRecords o p.records
  else if p.type == 130 then do
    let o ← o.write p.mcast
    if p.useMldv2 then do
      let o ← o.write p.mlqm
      let o ← o.writeBE 2 p.sources.length
      McastRec.writeAddrs o p.sources
    else pure o
  else pure o

/-- the pseudo-header sum when the parent is an IPv6 header -/
def pseudoOf (cx : Ctx) (size : Nat) : Option Nat :=
  match cx.parents.head? with
  | some par =>
    if par.cls == "IPv6" then
      match (par.fields.get "src_addr").bind parseHexStr, (par.fields.get "dst_addr").bind parseHexStr with
      | some s, some d => some (pseudo6 s d (size % 65536) 58)
      | _, _ => none
    else none
  | none => none

/-- `ICMPv6::write_serialization`, first half: everything written through the `OutputMemoryStream` -/
def writeHead (p : Icmp6) (inner : Option Nat) (region : Bytes) : Out OutCursor := do
  let un1 := patch p.un 0 [UInt8.ofNat (p.lengthFor inner)]
  -- header_.mlrm2.record_count = Endian::host_to_be<uint16_t>(multicast_records_.size());
  let un2 := if p.type == 143 then patch un1 2 (OutCursor.beBytes 2 p.records.length) else un1
  let o ← (OutCursor.ofRegion region).write ([UInt8.ofNat p.type, UInt8.ofNat p.code, 0, 0] ++ un2)
  let o ← writeIf (hasTarget p.type) o p.target
  let o ← writeIf (hasDest p.type) o p.dest
  let o ← p.writeBody o
  writeOpts o p.opts

/-- second half: RFC 4884 padding, extension structure and the pseudo-header checksum through raw pointers -/
def writeTail (cx : Ctx) (p : Icmp6) (inner : Option Nat) (o : OutCursor) : Out Bytes := do
  let r := o.buffer
  let r ← if p.hasExt then
      -- uint8_t* extensions_ptr = stream.pointer(); … total_sz - (extensions_ptr - stream.pointer())
      Icmp4.writeExtPart "ICMPv6::write_serialization memset" p.ext inner 8 o.done.length o.done.length r
    else pure r
  match pseudoOf cx (p.hdr + cx.innerSize + p.trl cx.innerSize) with
  | none => pure r
  | some ps =>
    let sum := fold16 ((ps + sumRange r) % 4294967296)
    poke "ICMPv6::write_serialization checksum" r 2 (le16 (not16 sum % 65536))

/-- `ICMPv6::write_serialization` -/
def write (cx : Ctx) (p : Icmp6) (region : Bytes) : Out Bytes := do
  let inner := Icmp4.innerOf cx.innerSize
  let o ← p.writeHead inner region
  p.writeTail cx inner o

/-! ### API -/

def setUn (p : Icmp6) (off : Nat) (bs : Bytes) : Icmp6 := { p with un := patch p.un off bs }

/-- assign `width` bits at bit `shift` of byte `i` of the union (little-endian bit-fields) -/
def setBits (p : Icmp6) (i shift width v : Nat) : Icmp6 :=
  let old := byteAt p.un i
  let cleared := old - (old / 2 ^ shift % 2 ^ width) * 2 ^ shift
  p.setUn i [UInt8.ofNat (cleared + (v % 2 ^ width) * 2 ^ shift)]

def setMlqmBits (p : Icmp6) (shift width v : Nat) : Icmp6 :=
  let old := byteAt p.mlqm 0
  let cleared := old - (old / 2 ^ shift % 2 ^ width) * 2 ^ shift
  { p with mlqm := patch p.mlqm 0 [UInt8.ofNat (cleared + (v % 2 ^ width) * 2 ^ shift)] }

/-- `add_option`: `options_size_ += data_size + 2` -/
def addOption (p : Icmp6) (o : Opt) : Icmp6 :=
  { p with opts := p.opts ++ [o], optsSize := (p.optsSize + optWire o) % 4294967296 }

/-- `remove_option` -/
def removeOption (p : Icmp6) (code : Nat) : Icmp6 :=
  match findOpt p.opts code with
  | none => p
  | some o => { p with opts := eraseOpt p.opts code, optsSize := (p.optsSize + 4294967296 - optWire o) % 4294967296 }

/-- `option(type, start, end)`: `size_ = distance` as `uint16_t`; more than 65535 bytes throws -/
def mkOpt (code : Nat) (data : Bytes) : Out Opt :=
  if data.length > 65535 then .throw .optionPayloadTooLarge else .ok ⟨code % 256, data.length, data⟩

def addTyped (p : Icmp6) (code : Nat) (data : Bytes) : Out Icmp6 := do
  let o ← mkOpt code data
  pure (p.addOption o)

/-- `get_option_padding(data_size)` (`uint8_t`) -/
def optPadding (dataSize : Nat) : Nat := if dataSize % 8 == 0 then 0 else 8 - dataSize % 8

def be16 (v : Nat) : Bytes := OutCursor.beBytes 2 v
def be32 (v : Nat) : Bytes := OutCursor.beBytes 4 v
def u8 (v : Nat) : Bytes := [UInt8.ofNat v]

def listArg (s : String) : List String := if s == "-" then [] else s.splitOn ","

def addrListArg (s : String) : Out (List Bytes) := mapOut (fun x => hexArgN x 16) (listArg s)
def hexListArg (s : String) : Out (List Bytes) := mapOut hexArg (listArg s)
def natListArg (s : String) : Out (List Nat) := mapOut natArg (listArg s)

/-- one record argument `type:addr:src+src|-:aux` -/
def recordArg (s : String) : Out McastRec :=
  match s.splitOn ":" with
  | [t, a, ss, aux] => do
    let t ← natArg t
    let a ← hexArgN a 16
    let srcs ← mapOut (fun x => hexArgN x 16) (if ss == "-" then [] else ss.splitOn "+")
    let aux ← hexArg aux
    pure ⟨t % 256, a, srcs, aux⟩
  | _ => .throw .stdOther

/-- `dns_search_list`: the label encoding of one domain given as its characters -/
def encLabels : Nat → Bytes → Bytes
  | 0, _ => []
  | fuel + 1, dom =>
    let label := dom.takeWhile (· != 46)
    let rest := dom.drop label.length
    [UInt8.ofNat label.length] ++ label ++
      (match rest with
       | [] => []
       | _ :: rest' => encLabels fuel rest')

def encDomains (ds : List Bytes) : Bytes := (ds.map (fun d => encLabels (d.length + 1) d ++ [0])).flatten

/-- API calls: header fields; `none` = not one of these -/
def applyFields (p : Icmp6) : List String → Option (Out Icmp6)
  | ["type", v] => some (do let n ← natArg v; pure { p with type := n % 256 })
  | ["code", v] => some (do let n ← natArg v; pure { p with code := n % 256 })
  | ["identifier", v] => some (do let n ← natArg v; pure (p.setUn 0 (be16 n)))
  | ["sequence", v] => some (do let n ← natArg v; pure (p.setUn 2 (be16 n)))
  | ["maximum_response_code", v] => some (do let n ← natArg v; pure (p.setUn 0 (be16 n)))
  | ["override", v] => some (do let n ← natArg v; pure (p.setBits 0 5 1 n))
  | ["solicited", v] => some (do let n ← natArg v; pure (p.setBits 0 6 1 n))
  | ["router", v] => some (do let n ← natArg v; pure (p.setBits 0 7 1 n))
  | ["hop_limit", v] => some (do let n ← natArg v; pure (p.setUn 0 (u8 n)))
  | ["router_pref", v] => some (do let n ← natArg v; pure (p.setBits 1 3 2 n))
  | ["home_agent", v] => some (do let n ← natArg v; pure (p.setBits 1 5 1 n))
  | ["other", v] => some (do let n ← natArg v; pure (p.setBits 1 6 1 n))
  | ["managed", v] => some (do let n ← natArg v; pure (p.setBits 1 7 1 n))
  | ["router_lifetime", v] => some (do let n ← natArg v; pure (p.setUn 2 (be16 n)))
  | _ => none

/-- API calls: addresses, timers, MLD, extensions, raw options; `none` = not one of these -/
def applyMld (p : Icmp6) : List String → Option (Out Icmp6)
  | ["reachable_time", v] => some (do let n ← natArg v; pure { p with reach := be32 n })
  | ["retransmit_timer", v] => some (do let n ← natArg v; pure { p with retrans := be32 n })
  | ["target_addr", v] => some (do let b ← hexArgN v 16; pure { p with target := b })
  | ["dest_addr", v] => some (do let b ← hexArgN v 16; pure { p with dest := b })
  | ["multicast_addr", v] => some (do let b ← hexArgN v 16; pure { p with mcast := b })
  | ["multicast_address_records", v] => some (do let rs ← mapOut recordArg (listArg v); pure { p with records := rs })
  | ["sources", v] => some (do let l ← addrListArg v; pure { p with sources := l })
  | ["supress", v] => some (do let n ← natArg v; pure (p.setMlqmBits 3 1 n))
  | ["qrv", v] => some (do let n ← natArg v; pure (p.setMlqmBits 0 3 n))
  | _ => none

/-- API calls: MLD fields, extensions, raw options; `none` = not one of these -/
def applyMld2 (p : Icmp6) : List String → Option (Out Icmp6)
  | ["qqic", v] => some (do let n ← natArg v; pure { p with mlqm := patch p.mlqm 1 (u8 n) })
  | ["use_mldv2", v] => some (do let b ← Icmp4.boolArg v; pure { p with useMldv2 := b })
  | ["use_length_field", v] => some (do let b ← Icmp4.boolArg v; pure (p.setUn 0 [if b then 1 else 0]))
  | ["add_extension", c, t, h] => some (do
    let e ← Icmp4.extArg c t h
    pure { p with ext := { p.ext with exts := p.ext.exts ++ [e] } })
  | ["ext_version", v] => some (do let n ← natArg v; pure { p with ext := { p.ext with vr := p.ext.vr % 4096 + (n % 16) * 4096 } })
  | ["ext_reserved", v] => some (do let n ← natArg v; pure { p with ext := { p.ext with vr := p.ext.vr / 4096 % 16 * 4096 + n % 4096 } })
  | ["add_option", c, v] => some (do let c ← natArg c; let b ← hexArg v; p.addTyped c b)
  | ["remove_option", c] => some (do let c ← natArg c; pure (p.removeOption (c % 256)))
  | ["source_link_layer_addr", v] => some (do let b ← hexArgN v 6; p.addTyped 1 b)
  | _ => none

/-- API calls: typed option setters (1); `none` = not one of these -/
def applyOpts1 (p : Icmp6) : List String → Option (Out Icmp6)
  | ["target_link_layer_addr", v] => some (do let b ← hexArgN v 6; p.addTyped 2 b)
  | ["prefix_info", pl, a, l, valid, pref, pfx] => some (do
    let pl ← natArg pl; let a ← natArg a; let l ← natArg l; let valid ← natArg valid; let pref ← natArg pref
    let pfx ← hexArgN pfx 16
    p.addTyped 3 (u8 pl ++ u8 ((l % 2) * 128 + (a % 2) * 64) ++ be32 valid ++ be32 pref ++ zeros 4 ++ pfx))
  | ["redirect_header", v] => some (do let b ← hexArg v; p.addTyped 4 b)
  | ["mtu", a, b] => some (do let a ← natArg a; let b ← natArg b; p.addTyped 5 (be16 a ++ be32 b))
  | ["shortcut_limit", l, r1, r2] => some (do
    let l ← natArg l; let r1 ← natArg r1; let r2 ← natArg r2
    p.addTyped 6 (u8 l ++ u8 r1 ++ be32 r2))
  | ["new_advert_interval", r, i] => some (do let r ← natArg r; let i ← natArg i; p.addTyped 7 (be16 r ++ be32 i))
  | ["new_home_agent_info", l] => some (do
    let l ← natListArg l
    match l with
    | [a, b, c] => p.addTyped 8 (be16 a ++ be16 b ++ be16 c)
    | _ => .throw .malformedOption)
  | ["source_addr_list", r, l] => some (do let r ← hexArgN r 6; let l ← addrListArg l; p.addTyped 9 (r ++ l.flatten))
  | ["target_addr_list", r, l] => some (do let r ← hexArgN r 6; let l ← addrListArg l; p.addTyped 10 (r ++ l.flatten))
  | ["rsa_signature", h, s] => some (do
    let h ← hexArgN h 16; let s ← hexArg s
    -- the padding completes the whole option (type and length octets included) to a multiple of 8
    p.addTyped 12 (zeros 2 ++ h ++ s ++ zeros (optPadding (2 + 2 + 16 + s.length))))
  | ["timestamp", r, t] => some (do let r ← hexArgN r 6; let t ← natArg t; p.addTyped 13 (r ++ OutCursor.beBytes 8 t))
  | ["nonce", v] => some (do let b ← hexArg v; p.addTyped 14 b)
  | ["ip_prefix", c, l, a] => some (do
    let c ← natArg c; let l ← natArg l; let a ← hexArgN a 16
    p.addTyped 17 (u8 c ++ u8 l ++ zeros 4 ++ a))
  | _ => none

/-- API calls: typed option setters (2); `none` = not one of these -/
def applyOpts2 (p : Icmp6) : List String → Option (Out Icmp6)
  | ["link_layer_addr", c, a] => some (do
    let c ← natArg c; let a ← hexArg a
    p.addTyped 19 (u8 c ++ a ++ zeros (optPadding (2 + (1 + a.length)))))
  | ["naack", c, s] => some (do let c ← natArg c; let s ← natArg s; p.addTyped 20 (u8 c ++ u8 s ++ zeros 4))
  | ["map", d, pr, r, valid, a] => some (do
    let d ← natArg d; let pr ← natArg pr; let r ← natArg r; let valid ← natArg valid; let a ← hexArgN a 16
    p.addTyped 23 (u8 ((d % 16) * 16 + pr % 16) ++ u8 ((r % 2) * 128) ++ be32 valid ++ a))
  | ["route_info", pl, pr, lt, pfx] => some (do
    let pl ← natArg pl; let pr ← natArg pr; let lt ← natArg lt; let pfx ← hexArg pfx
    p.addTyped 24 (u8 pl ++ u8 ((pr % 4) * 8) ++ be32 lt ++ pfx ++ zeros (optPadding pfx.length)))
  | ["recursive_dns_servers", lt, l] => some (do
    let lt ← natArg lt; let l ← addrListArg l
    p.addTyped 25 (zeros 2 ++ be32 lt ++ l.flatten))
  | ["handover_key_request", atv, k] => some (do
    let atv ← natArg atv; let k ← hexArg k
    let pad := optPadding (k.length + 4)
    p.addTyped 27 (u8 pad ++ u8 ((atv % 16) * 16) ++ k ++ zeros pad))
  | ["handover_key_reply", lt, atv, k] => some (do
    let lt ← natArg lt; let atv ← natArg atv; let k ← hexArg k
    let pad := optPadding (k.length + 4 + 2)
    p.addTyped 28 (u8 pad ++ u8 ((atv % 16) * 16) ++ be16 lt ++ k ++ zeros pad))
  | ["handover_assist_info", c, h] => some (do
    let c ← natArg c; let h ← hexArg h
    p.addTyped 29 (u8 c ++ u8 h.length ++ h ++ zeros (optPadding (h.length + 2 + 2))))
  | ["mobile_node_identifier", c, h] => some (do
    let c ← natArg c; let h ← hexArg h
    p.addTyped 30 (u8 c ++ u8 h.length ++ h ++ zeros (optPadding (h.length + 2 + 2))))
  | ["dns_search_list", lt, ds] => some (do
    let lt ← natArg lt; let ds ← hexListArg ds
    let body := zeros 2 ++ be32 lt ++ encDomains ds
    p.addTyped 31 (body ++ zeros (optPadding (body.length + 2))))
  | _ => none

def apply (p : Icmp6) (op : List String) : Out Icmp6 :=
  match p.applyFields op with
  | some r => r
  | none =>
  match p.applyMld op with
  | some r => r
  | none =>
  match p.applyMld2 op with
  | some r => r
  | none =>
  match p.applyOpts1 op with
  | some r => r
  | none =>
  match p.applyOpts2 op with
  | some r => r
  | none => .throw .stdOther

def make : List String → Out Icmp6
  | [] => .ok (create 128)
  | [t] => do let n ← natArg t; pure (create n)
  | _ => .throw .stdOther

end Icmp6
end Tins.Wire.Icmp
