import TinsModel.Wire.Icmp.ThExt
/-
  C02 for the extension structure: `ICMPExtensionsStructure::size()` is exactly what `serialize` writes, the writer
  touches only its own `size()` bytes, and the RFC 4884 padding `memset`s of ICMP / ICMPv6 stay behind the inner PDU.
-/
namespace Tins.Wire.Icmp
open Tins Tins.Wire

/-- the size of the structure without the `uint32_t` wrap -/
def ExtS.plainSize (s : ExtS) : Nat := 4 + (s.exts.map ExtObj.size).sum

theorem foldl_size (es : List ExtObj) (a : Nat) (h : a + (es.map ExtObj.size).sum < 4294967296) :
    es.foldl (fun acc e => (acc + e.size) % 4294967296) a = a + (es.map ExtObj.size).sum := by
  induction es generalizing a with
  | nil => simp
  | cons e es ih =>
    simp only [List.map_cons, List.sum_cons] at h
    simp only [List.foldl_cons, List.map_cons, List.sum_cons]
    rw [Nat.mod_eq_of_lt (by omega), ih _ (by omega)]
    omega

/-- **`size()` is exact** as long as the `uint32_t` accumulator does not wrap -/
theorem ExtS.size_eq (s : ExtS) (h : s.plainSize < 4294967296) : s.size = s.plainSize := by
  unfold ExtS.size ExtS.plainSize at *
  exact foldl_size _ _ h

theorem extobj_bytes_length (e : ExtObj) : e.bytes.length = e.size := by
  simp [ExtObj.bytes, ExtObj.size]; omega

theorem extobjs_bytes_length (es : List ExtObj) : (es.map ExtObj.bytes).flatten.length = (es.map ExtObj.size).sum := by
  induction es with
  | nil => rfl
  | cons e es ih => simp only [List.map_cons, List.flatten_cons, List.length_append, extobj_bytes_length, ih, List.sum_cons]

theorem exts_bodyBytes_length (s : ExtS) : s.bodyBytes.length = s.plainSize := by
  simp only [ExtS.bodyBytes, List.length_append, OutCursor.beBytes_length, extobjs_bytes_length, ExtS.plainSize,
    List.length_cons, List.length_nil]

/-- `ICMPExtension::serialize` emits exactly `size()` bytes -/
theorem extobj_write_emit (e : ExtObj) (o : OutCursor) (h1 : e.size ≤ o.size) (h2 : e.size ≤ o.rest.length) :
    e.write o = .ok (emit o e.bytes) := by
  unfold ExtObj.write
  simp only [ExtObj.size] at h1 h2
  rw [writeBE_emit o 2 _ (by omega) (by omega)]
  simp only [Out.bind_ok]
  rw [write_emit _ [UInt8.ofNat e.cls] (by simp; omega) (by simp; omega)]
  simp only [Out.bind_ok]
  rw [write_emit _ [UInt8.ofNat e.typ] (by simp; omega) (by simp; omega)]
  simp only [Out.bind_ok]
  rw [write_emit _ e.payload (by simp; omega) (by simp; omega)]
  simp only [emit_emit, ExtObj.bytes, List.append_assoc, List.cons_append, List.nil_append]

/-- the object loop of `ICMPExtensionsStructure::serialize` emits the objects back to back -/
theorem writeObjs_emit (es : List ExtObj) (o : OutCursor) (h1 : (es.map ExtObj.size).sum ≤ o.size)
    (h2 : (es.map ExtObj.size).sum ≤ o.rest.length) :
    ExtS.writeObjs o es = .ok (emit o (es.map ExtObj.bytes).flatten) := by
  induction es generalizing o with
  | nil => simp [ExtS.writeObjs, emit_nil]
  | cons e es ih =>
    simp only [List.map_cons, List.sum_cons] at h1 h2
    unfold ExtS.writeObjs
    rw [extobj_write_emit e ⟨[], o.rest, o.size⟩ (by simp only; omega) (by simp only; omega)]
    simp only [Out.bind_ok, emit_done, emit_rest, List.nil_append]
    have hl := extobj_bytes_length e
    rw [skip_emit _ e.size (by simp only; omega) (by simp only [List.length_append, List.length_drop, hl]; omega)]
    simp only [Out.bind_ok]
    have hemit : emit ⟨o.done, e.bytes ++ List.drop e.bytes.length o.rest, o.size⟩
        (List.take e.size (e.bytes ++ List.drop e.bytes.length o.rest)) = emit o e.bytes := by
      have ht : List.take e.size (e.bytes ++ List.drop e.bytes.length o.rest) = e.bytes := take_append_len _ _ _ hl
      rw [ht]
      simp only [emit, OutCursor.mk.injEq, true_and, and_true]
      exact drop_append_len _ _ _ rfl
    rw [hemit]
    rw [ih (emit o e.bytes) (by simp only [emit_size, hl]; omega) (by simp only [emit_rest, List.length_drop, hl]; omega)]
    simp only [emit_emit, List.map_cons, List.flatten_cons]

/-- the checksum `serialize` stores -/
def ExtS.cksumOf (s : ExtS) : Nat := not16 (sumRange s.bodyBytes)

/-- the bytes of the structure as serialized: the body with the checksum patched in (host order store) -/
def ExtS.wireBytes (s : ExtS) : Bytes := s.bodyBytes.take 2 ++ le16 s.cksumOf ++ s.bodyBytes.drop 4

theorem le16_length (x : Nat) : (le16 x).length = 2 := rfl

theorem exts_wireBytes_length (s : ExtS) : s.wireBytes.length = s.plainSize := by
  have hb := exts_bodyBytes_length s
  have h4 : 4 ≤ s.plainSize := by simp [ExtS.plainSize]
  simp only [ExtS.wireBytes, List.length_append, List.length_take, List.length_drop, le16_length, hb]
  omega

/-- **closed form of `ICMPExtensionsStructure::serialize`**: on a region with room for `size()` bytes at `off` the
    writer succeeds and replaces exactly those bytes -/
theorem exts_write_eq (s : ExtS) (region : Bytes) (off bufSize : Nat) (hs : s.plainSize < 4294967296)
    (hroom : off + s.plainSize ≤ region.length) (hbuf : s.plainSize ≤ bufSize) :
    s.write region off bufSize = .ok (region.take off ++ s.wireBytes ++ region.drop (off + s.plainSize)) := by
  have hb := exts_bodyBytes_length s
  have h4 : 4 ≤ s.plainSize := by simp [ExtS.plainSize]
  have hobjs : (s.exts.map ExtObj.size).sum + 4 = s.plainSize := by simp [ExtS.plainSize]; omega
  unfold ExtS.write
  have hdl : (region.drop off).length = region.length - off := by simp
  dsimp only
  rw [writeBE_emit _ 2 _ (by simp only; omega) (by simp only [hdl]; omega)]
  simp only [Out.bind_ok]
  rw [write_emit _ [0, 0] (by simp; omega) (by simp; omega)]
  simp only [Out.bind_ok]
  rw [writeObjs_emit s.exts _ (by simp; omega) (by simp; omega)]
  simp only [Out.bind_ok, emit_emit]
  have hbody : OutCursor.beBytes 2 s.vr ++ [0, 0] ++ (s.exts.map ExtObj.bytes).flatten = s.bodyBytes := rfl
  rw [hbody]
  have hbuffer : (emit ⟨region.take off, region.drop off, bufSize⟩ s.bodyBytes).buffer =
      region.take off ++ s.bodyBytes ++ region.drop (off + s.plainSize) := by
    simp only [emit, OutCursor.buffer, List.drop_drop, hb]
  rw [hbuffer, ExtS.size_eq s hs]
  have hto : (region.take off).length = off := by simp only [List.length_take]; omega
  have hrd : rdN "ICMPExtensionsStructure::serialize sum_range"
      (region.take off ++ s.bodyBytes ++ region.drop (off + s.plainSize)) off s.plainSize = .ok s.bodyBytes := by
    unfold rdN
    have hlen : off + s.plainSize ≤ (region.take off ++ s.bodyBytes ++ region.drop (off + s.plainSize)).length := by
      simp only [List.length_append, hto, hb, List.length_drop]; omega
    simp only [hlen, if_true]
    rw [List.append_assoc, drop_append_len _ _ _ hto, take_append_len _ _ _ hb]
  rw [hrd]
  simp only [Out.bind_ok]
  rw [poke_eq _ _ _ _ (by simp only [List.length_append, hto, hb, List.length_drop, le16_length]; omega)]
  congr 1
  -- the patched buffer, rearranged
  have e1 : (region.take off ++ s.bodyBytes ++ region.drop (off + s.plainSize)).take (off + 2) =
      region.take off ++ s.bodyBytes.take 2 := by
    rw [List.append_assoc, List.take_append, hto]
    have : List.take (off + 2) (List.take off region) = List.take off region := by
      rw [List.take_take]; congr 1; omega
    rw [this, show off + 2 - off = 2 by omega, List.take_append_of_le_length (by omega)]
  have e2 : (region.take off ++ s.bodyBytes ++ region.drop (off + s.plainSize)).drop (off + 2 + (le16 (not16 (sumRange s.bodyBytes))).length) =
      s.bodyBytes.drop 4 ++ region.drop (off + s.plainSize) := by
    rw [le16_length, List.append_assoc, List.drop_append, hto]
    have : List.drop (off + 2 + 2) (List.take off region) = [] := List.drop_eq_nil_of_le (by omega)
    rw [this, List.nil_append, show off + 2 + 2 - off = 4 by omega, List.drop_append_of_le_length (by omega)]
  rw [e1, e2]
  simp only [ExtS.wireBytes, ExtS.cksumOf, List.append_assoc]

/-- the writer keeps the region's length and every window outside its own `size()` bytes -/
theorem exts_write_window (s : ExtS) (region : Bytes) (off bufSize : Nat) (hs : s.plainSize < 4294967296)
    (hroom : off + s.plainSize ≤ region.length) (hbuf : s.plainSize ≤ bufSize) :
    ∃ out, s.write region off bufSize = .ok out ∧ out.length = region.length ∧
      ∀ a n, (a + n ≤ off ∨ off + s.plainSize ≤ a) → window out a n = window region a n := by
  have hw := exts_wireBytes_length s
  refine ⟨_, exts_write_eq s region off bufSize hs hroom hbuf, ?_, ?_⟩
  · rw [← hw]; exact length_patched' region s.wireBytes off (by rw [hw]; exact hroom)
  · intro a n hd
    rw [← hw]
    exact window_patched region s.wireBytes off a n (by rw [hw]; exact hroom) (by rw [hw]; omega)

/-! ### `trailer_size()` and the padding `memset`s -/

theorem paddedInner_bounds (sz align : Nat) (ha : align = 4 ∨ align = 8) :
    sz ≤ paddedInner (some sz) align ∧ paddedInner (some sz) align < sz + align ∧ paddedInner (some sz) align % align = 0 := by
  rcases ha with rfl | rfl <;> simp only [paddedInner] <;> split <;> rename_i h <;>
    simp only [bne_iff_ne, ne_eq] at h <;> omega

theorem plainSize_ge_8 (s : ExtS) (hne : s.exts.isEmpty = false) : 8 ≤ s.plainSize := by
  unfold ExtS.plainSize
  cases hs : s.exts with
  | nil => simp [hs] at hne
  | cons e es => simp only [List.map_cons, List.sum_cons, ExtObj.size]; omega

/-- **C02 / RFC 4884 trailer**: on a region of exactly `extOff + inner + trailer_size()` bytes the padding `memset`s and
    the extension writer succeed, keep the length and change nothing before the end of the inner PDU -/
theorem writeExtPart_window (site : String) (s : ExtS) (inner : Option Nat) (align extOff bufBase : Nat) (r : Bytes)
    (hs : s.plainSize < 4294967296) (hne : s.exts.isEmpty = false) (ha : align = 4 ∨ align = 8)
    (hbase : bufBase ≤ extOff) (hlen : r.length = extOff + inner.getD 0 + extTrailer s inner align) :
    ∃ out, Icmp4.writeExtPart site s inner align extOff bufBase r = .ok out ∧ out.length = r.length ∧
      ∀ a n, a + n ≤ extOff + inner.getD 0 → window out a n = window r a n := by
  have h8 := plainSize_ge_8 s hne
  have hsz := ExtS.size_eq s hs
  unfold Icmp4.writeExtPart
  cases inner with
  | none =>
    simp only [extTrailer, hne, Bool.false_eq_true, if_false, Option.getD_none, hsz] at hlen ⊢
    simp only [Out.bind_ok, pure]
    have hu : extOff - bufBase ≤ r.length := by omega
    simp only [hu, if_true]
    rcases exts_write_window s r extOff (r.length - (extOff - bufBase)) hs (by omega) (by omega) with ⟨out, e, hl, hw⟩
    exact ⟨out, e, hl, fun a n h => hw a n (by omega)⟩
  | some sz =>
    rcases paddedInner_bounds sz align ha with ⟨hlo, hhi, _⟩
    have halign : align ≤ 8 := by rcases ha with rfl | rfl <;> omega
    simp only [extTrailer, hne, Bool.false_eq_true, if_false, Option.getD_some, hsz] at hlen ⊢
    generalize hips : paddedInner (some sz) align = ips at *
    by_cases h128 : ips < 128
    · have hup : ¬ ips > 128 := by omega
      simp only [hup, if_false] at hlen
      simp only [h128, if_true]
      rcases poke_window site r (List.replicate (128 - ips) 0) (extOff + ips) 0 (extOff + sz)
        (by simp only [List.length_replicate]; omega) (by right; omega) with ⟨r1, e1, l1, w1⟩
      rw [e1]
      simp only [Out.bind_ok, pure]
      have hu : extOff + 128 - bufBase ≤ r1.length := by omega
      simp only [hu, if_true]
      rcases exts_write_window s r1 (extOff + 128) (r1.length - (extOff + 128 - bufBase)) hs (by omega) (by omega)
        with ⟨out, e, hl, hw⟩
      refine ⟨out, e, by omega, fun a n h => ?_⟩
      rw [hw a n (by omega)]
      have := window_patched r (List.replicate (128 - ips) 0) (extOff + ips) a n
        (by simp only [List.length_replicate]; omega) (by right; omega)
      rw [poke_eq site r _ _ (by simp only [List.length_replicate]; omega)] at e1
      injection e1 with e1
      rw [← e1]; exact this
    · have hup : (if ips > 128 then ips else 128) = ips := by split <;> omega
      simp only [hup] at hlen
      simp only [h128, if_false]
      rcases poke_window site r (List.replicate (ips - sz) 0) (extOff + ips) 0 (extOff + sz)
        (by simp only [List.length_replicate]; omega) (by right; omega) with ⟨r1, e1, l1, w1⟩
      rw [e1]
      simp only [Out.bind_ok, pure]
      have hu : extOff + ips - bufBase ≤ r1.length := by omega
      simp only [hu, if_true]
      rcases exts_write_window s r1 (extOff + ips) (r1.length - (extOff + ips - bufBase)) hs (by omega) (by omega)
        with ⟨out, e, hl, hw⟩
      refine ⟨out, e, by omega, fun a n h => ?_⟩
      rw [hw a n (by omega)]
      have := window_patched r (List.replicate (ips - sz) 0) (extOff + ips) a n
        (by simp only [List.length_replicate]; omega) (by right; omega)
      rw [poke_eq site r _ _ (by simp only [List.length_replicate]; omega)] at e1
      injection e1 with e1
      rw [← e1]; exact this

end Tins.Wire.Icmp
