import TinsModel.Wire.Icmp.ThFamily
/-
  Per-layer and family-level theorems of the Icmp family for the four wire properties.  Index:

  Lemmas.lean        outcome predicates of parsing steps (`ParseSafe`, `Good`, `GoodV`) and their sequencing rules; closed forms
                     of the stream operations; "only these bytes change" (`window`) facts
  ThExt.lean         C01: ICMPExtension / ICMPExtensionsStructure parsing, validate_extensions, try_parse_icmp_extensions
  ThExtWrite.lean    C02: ICMPExtensionsStructure::size() is exact, serialize touches only its own bytes, RFC 4884 padding
  ThIcmp.lean        C01 + invariant: ICMP          ThIcmpWrite.lean  C02: ICMP         ThIcmpApi.lean   C04: API keeps the invariant
  ThIcmp6.lean       C01 + invariant: ICMPv6        ThIcmp6Write.lean C02: ICMPv6       ThIcmp6Api.lean  C04: API keeps the invariant
  ThFamily.lean      icmp_family_parse_safe, _parse_consumes, _parse_inv, _writesOnlyAt, _mk_inv, _apply_inv
-/
