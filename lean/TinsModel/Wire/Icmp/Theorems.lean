import TinsModel.Wire.Icmp.Family
import TinsModel.Basic.CursorLemmas
import TinsModel.Basic.CodecLemmas
import TinsModel.Wire.ChainLemmas
import TinsModel.Wire.IfaceLemmas
/-
  Per-layer theorems of the Icmp family for the four wire properties (C01 parse_safe, C02 writesOnly,
  C03 reparse, C04 codec inverses).  See TinsModel/Wire/Transport/Theorems.lean for the worked example (UDP).
-/
namespace Tins.Wire.Icmp
open Tins Tins.Wire

end Tins.Wire.Icmp
