import TinsModel.Wire.Icmp.ThFamily
import TinsModel.Wire.Icmp.ThIcmp6Reparse
import TinsModel.Wire.Icmp.ThCodec6
/-
  Per-layer and family-level theorems of the Icmp family for the four wire properties.  Index:

  Lemmas.lean          outcome predicates of parsing steps (`ParseSafe`, `Good`, `GoodV`) and their sequencing rules; closed
                       forms of the stream operations; "only these bytes change" (`window`) facts
  ThExt.lean           C01: ICMPExtension / ICMPExtensionsStructure parsing, validate_extensions, try_parse_icmp_extensions
  ThExtWrite.lean      C02: ICMPExtensionsStructure::size() is exact, serialize touches only its own bytes, RFC 4884 padding
  ThChecksum.lean      the checksum serialize stores is the one validate_extensions accepts (DESIGN §7 #16, fixed)
  ThExtReparse.lean    C03: parse ∘ serialize of the structure; try_parse_icmp_extensions finds it (`tryParseExt_found`) or
                       nothing (`tryParseExt_none` under `ghostFree`)
  ThIcmp.lean          C01 + invariant: ICMP        ThIcmpWrite.lean   C02: ICMP        ThIcmpApi.lean    C04: API keeps the invariant
  ThIcmp6.lean         C01 + invariant: ICMPv6      ThIcmp6Write.lean  C02: ICMPv6      ThIcmp6Api.lean   C04: API keeps the invariant
  ThOptsReparse.lean   C03/C04: ICMPv6 option loop inverts the writer on expressible options; KF-C04-Icmp-2/3
                       (`icmp6_opts_reparse_full`, `icmp6_unaligned_option_fails`, `icmp6_opts_reparse_partial`)
  ThCodec.lean         C04: setters vs getters (union members, bit-fields), typed option codecs, built options are expressible
  ThCodec6.lean        C04: ALL 24 typed ICMPv6 option codecs: named encoders tied to `apply` by `rfl`, `Repr*` predicates,
                       `*_codec_inverse`, `*_wire` (built option is expressible), `icmp6_typed_codecs_inverse`
  ThIcmpReparse.lean   C03: ICMP (`icmp_reparse_plain`, `icmp_reparse_quote`, `icmp_reparse_ext`); KF-C03-Icmp-3/4
                       (`icmp_reparse_quote_full`, `icmp_reparse_ghost_fails`, `icmp_reparse_quote_partial`, `_aligned`)
  ThIcmp6Reparse.lean  C03: ICMPv6 (`icmp6_reparse_plain` incl. options / MLD records / query sources, `icmp6_reparse_ext`)
  ThFamily.lean        icmp_family_parse_safe, _parse_consumes, _parse_inv, _writesOnlyAt, _mk_inv, _apply_inv, _history_inv
-/
