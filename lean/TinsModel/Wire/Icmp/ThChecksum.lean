import TinsModel.Wire.Icmp.ThExtWrite
import TinsModel.Checksum.Lemmas
/-
  The extension structure's checksum (DESIGN §7 #16, fixed): what `ICMPExtensionsStructure::serialize` stores is accepted
  by `ICMPExtensionsStructure::validate_extensions` — for every structure (shorter than 128 KiB, where the `uint32_t`
  accumulator of `sum_range` cannot wrap), in particular for those whose sum passes 0xffff.
  Reuses C05's one's-complement arithmetic (`Tins.Ck.foldv`, `leSum`).
-/
namespace Tins.Wire.Icmp
open Tins Tins.Wire Tins.Ck

theorem rawSum_eq (bs : Bytes) : rawSum bs = leSum bs % 4294967296 := by
  fun_induction rawSum bs with
  | case1 => simp [leSum]
  | case2 a => have := UInt8.toNat_lt a; simp only [leSum]; omega
  | case3 a b r ih => simp only [leSum]; omega

theorem fold16_eq (x : Nat) (h : x < 4294967296) : fold16 x = foldv x := by
  simp only [fold16, foldv]
  split <;> omega

/-- `Utils::sum_range` is the canonical one's-complement fold of the little-endian word sum (ranges below 128 KiB) -/
theorem sumRange_foldv (bs : Bytes) (h : bs.length < 131072) : sumRange bs = foldv (leSum bs) := by
  have hb := leSum_le bs
  unfold sumRange
  rw [rawSum_eq, Nat.mod_eq_of_lt (by omega), fold16_eq _ (by omega)]

theorem not16_lt (x : Nat) : not16 x < 65536 := by unfold not16; omega

theorem leNat_le16 (x : Nat) (h : x < 65536) : Cursor.leNat (le16 x) = x := by
  have h1 : (UInt8.ofNat (x % 256)).toNat = x % 256 := by simp [UInt8.toNat_ofNat']
  have h2 : (UInt8.ofNat (x / 256 % 256)).toNat = x / 256 % 256 := by simp [UInt8.toNat_ofNat']
  simp only [le16, Cursor.leNat, List.foldr_cons, List.foldr_nil, h1, h2]
  omega

theorem leSum_two (a b : UInt8) (r : Bytes) : leSum (a :: b :: r) = a.toNat + 256 * b.toNat + leSum r := rfl

theorem leNat_two (a b : UInt8) : Cursor.leNat [a, b] = a.toNat + 256 * b.toNat := by
  simp [Cursor.leNat]; omega

theorem readLE_cons2 (a b : UInt8) (m : Bytes) (k : Nat) (h : 2 ≤ k) :
    (⟨a :: b :: m, k⟩ : Cursor).readLE 2 = .ok (Cursor.leNat [a, b], ⟨m, k - 2⟩) := by
  have h2 : ¬ (m.length + 1 + 1 < 2) := by omega
  simp [Cursor.readLE, Cursor.read, Cursor.canRead, h, h2, bind, Out.bind]

/-- **the checksum `serialize` stores is the one `validate_extensions` accepts** (carry folded) -/
theorem exts_validate_wireBytes (s : ExtS) (tail : Bytes) (hs : s.plainSize < 131072) :
    ExtS.validate (s.wireBytes ++ tail) s.plainSize = .ok true := by
  have h4 : 4 ≤ s.plainSize := by simp [ExtS.plainSize]
  have hbl := exts_bodyBytes_length s
  -- name the pieces of the body: two version bytes, two zero bytes, the objects
  obtain ⟨v0, v1, hv⟩ : ∃ v0 v1, OutCursor.beBytes 2 s.vr = [v0, v1] := ⟨_, _, rfl⟩
  generalize hobjs : (s.exts.map ExtObj.bytes).flatten = objs
  have hbody : s.bodyBytes = v0 :: v1 :: 0 :: 0 :: objs := by
    simp only [ExtS.bodyBytes, hv, hobjs, List.cons_append, List.nil_append]
  have hol : objs.length + 4 = s.plainSize := by rw [← hbl, hbody]; simp
  -- the stored checksum
  generalize hck : s.cksumOf = ck
  have hckv : ck = not16 (foldv (v0.toNat + 256 * v1.toNat + leSum objs)) := by
    rw [← hck, ExtS.cksumOf, sumRange_foldv _ (by omega), hbody, leSum_two, leSum_two]
    simp
  have hcklt : ck < 65536 := by rw [hckv]; exact not16_lt _
  obtain ⟨c0, c1, hc⟩ : ∃ c0 c1, le16 ck = [c0, c1] := ⟨_, _, rfl⟩
  have hwire : s.wireBytes ++ tail = v0 :: v1 :: c0 :: c1 :: (objs ++ tail) := by
    simp only [ExtS.wireBytes, hck, hbody, hc, List.take, List.drop, List.cons_append, List.nil_append]
  rw [hwire]
  unfold ExtS.validate
  have hlt : ¬ s.plainSize < 4 := by omega
  simp only [hlt, if_false]
  have hr1 := readLE_cons2 v0 v1 (c0 :: c1 :: (objs ++ tail)) s.plainSize (by omega)
  have hr2 := readLE_cons2 c0 c1 (objs ++ tail) (s.plainSize - 2) (by omega)
  have hrd : rdN "ICMPExtensionsStructure::validate_extensions sum_range" (v0 :: v1 :: c0 :: c1 :: (objs ++ tail)) 4
      (s.plainSize - 4) = .ok objs := by
    unfold rdN
    have : 4 + (s.plainSize - 4) ≤ (v0 :: v1 :: c0 :: c1 :: (objs ++ tail)).length := by
      simp only [List.length_cons, List.length_append]; omega
    simp only [this, if_true, List.drop_succ_cons, List.drop_zero]
    rw [take_append_len _ _ _ (by omega)]
  rw [hr1]
  simp only [Out.bind_ok]
  rw [hr2]
  simp only [Out.bind_ok, hrd, pure]
  have hcc : c0.toNat + 256 * c1.toNat = ck := by rw [← leNat_two, ← hc, leNat_le16 ck hcklt]
  simp only [leNat_two]
  rw [hcc, sumRange_foldv objs (by omega)]
  have hb := leSum_le objs
  have hv0 := UInt8.toNat_lt v0
  have hv1 := UInt8.toNat_lt v1
  have hfl := foldv_le (leSum objs)
  rw [fold16_eq _ (by omega), foldv_foldv_add, hckv]
  simp

/-- the regression of DESIGN §7 #16 as a kernel-checked fact: the structure `2000 .... 0008 0101 dff6 0000`, whose word
    sum is exactly 0x10000, is accepted with the RFC 1071 checksum `serialize` stores -/
example : (match ExtS.validate (ExtS.wireBytes ⟨8192, 0, [⟨1, 1, [0xdf, 0xf6, 0, 0]⟩]⟩) 12 with
    | .ok b => b
    | _ => false) = true := by decide

end Tins.Wire.Icmp
