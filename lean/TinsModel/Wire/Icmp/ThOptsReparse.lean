import TinsModel.Wire.Icmp.ThIcmp6Write
/-
  C03 / C04 for the ICMPv6 option list: the option loop of the parser inverts the option loop of the writer for every
  list of options the wire format can express (`Opt.Wire`).  DESIGN §7 #33 (known finding KF-C04-Icmp-2/3): `add_option`
  also accepts data whose size + 2 is not a multiple of 8 — the full statement `icmp6_opts_reparse_full` is refuted on a
  concrete witness and proved on the expressible region (`icmp6_opts_reparse_partial`).
-/
namespace Tins.Wire.Icmp
open Tins Tins.Wire

/-- what `add_option(option(type, begin, end))` can put into the list: one-byte code, advertised = real length,
    at most 65535 bytes -/
def Opt.Api (o : Opt) : Prop := o.code < 256 ∧ o.lenField = o.data.length ∧ o.data.length ≤ 65535

/-- what the wire format can express: the whole option (type and length octets included) is a multiple of 8 octets
    and the length octet (units of 8) fits one byte -/
def Opt.Aligned (o : Opt) : Prop := (o.data.length + 2) % 8 = 0 ∧ o.data.length + 2 ≤ 2040

instance (o : Opt) : Decidable o.Api := by unfold Opt.Api; exact inferInstance
instance (o : Opt) : Decidable o.Aligned := by unfold Opt.Aligned; exact inferInstance

/-! ### reading from a stream whose content is known -/

theorem readU8_cons (x : UInt8) (m : Bytes) (k : Nat) (h : 1 ≤ k) :
    (⟨x :: m, k⟩ : Cursor).readU8 = .ok (x.toNat, ⟨m, k - 1⟩) := by
  have h2 : ¬ (m.length + 1 < 1) := by omega
  simp [Cursor.readU8, Cursor.readBE, Cursor.read, Cursor.canRead, h, h2, bind, Out.bind, Cursor.beNat]

theorem read_app (a m : Bytes) (k n : Nat) (hn : a.length = n) (h : n ≤ k) :
    (⟨a ++ m, k⟩ : Cursor).read n = .ok (a, ⟨m, k - n⟩) := by
  subst hn
  simp [Cursor.read, Cursor.canRead, h]

theorem readBE_app (a m : Bytes) (k n : Nat) (hn : a.length = n) (h : n ≤ k) :
    (⟨a ++ m, k⟩ : Cursor).readBE n = .ok (Cursor.beNat a, ⟨m, k - n⟩) := by
  simp [Cursor.readBE, read_app a m k n hn h, bind, Out.bind]

theorem skip_app (a m : Bytes) (k n : Nat) (hn : a.length = n) (h : n ≤ k) :
    (⟨a ++ m, k⟩ : Cursor).skip n = .ok ⟨m, k - n⟩ := by
  subst hn
  have : ¬ a.length > k := by omega
  simp [Cursor.skip, this]

theorem peek_app (site : String) (a m : Bytes) (k n : Nat) (hn : a.length = n) :
    (⟨a ++ m, k⟩ : Cursor).peek site 0 n = .ok a := by
  subst hn
  simp [Cursor.peek, rdN]

theorem ofNat_toNat_of_lt (v : Nat) (h : v < 256) : (UInt8.ofNat v).toNat = v := by
  simp [UInt8.toNat_ofNat', Nat.mod_eq_of_lt h]

/-- **the option loop inverts the writer** on every list of expressible options -/
theorem parseOpts_optsBytes (os : List Opt) (h : ∀ o ∈ os, o.Api ∧ o.Aligned) (tail : Bytes) (fuel : Nat)
    (hf : (Icmp6.optsBytes os).length ≤ fuel) :
    Icmp6.parseOpts fuel ⟨Icmp6.optsBytes os ++ tail, (Icmp6.optsBytes os).length⟩ = .ok os := by
  induction os generalizing fuel with
  | nil =>
    cases fuel <;> simp [Icmp6.parseOpts, Icmp6.optsBytes, Cursor.toBool]
  | cons o os ih =>
    obtain ⟨⟨hc, hlf, _⟩, ha8, ha⟩ := h o List.mem_cons_self
    have hrest := fun x hx => h x (List.mem_cons_of_mem _ hx)
    have hbytes : Icmp6.optsBytes (o :: os) = Icmp6.optBytes o ++ Icmp6.optsBytes os := by
      simp [Icmp6.optsBytes]
    have hol := optBytes_length o
    simp only [Icmp6.optWire] at hol
    rw [hbytes] at hf ⊢
    simp only [List.length_append, hol] at hf ⊢
    cases fuel with
    | zero => omega
    | succ fuel =>
      unfold Icmp6.parseOpts
      have htb : (⟨Icmp6.optBytes o ++ Icmp6.optsBytes os ++ tail, o.data.length + 2 + (Icmp6.optsBytes os).length⟩ : Cursor).toBool = true := by
        simp [Cursor.toBool]; omega
      simp only [htb, Bool.not_true, Bool.false_eq_true, if_false]
      have hshape : Icmp6.optBytes o ++ Icmp6.optsBytes os ++ tail =
          UInt8.ofNat o.code :: UInt8.ofNat ((o.lenField + 2) / 8) :: (o.data ++ (Icmp6.optsBytes os ++ tail)) := by
        simp [Icmp6.optBytes, List.append_assoc]
      rw [hshape, readU8_cons _ _ _ (by omega)]
      simp only [Out.bind_ok]
      rw [readU8_cons _ _ _ (by omega)]
      simp only [Out.bind_ok]
      have hl8 : (UInt8.ofNat ((o.lenField + 2) / 8)).toNat * 8 = o.data.length + 2 := by
        rw [ofNat_toNat_of_lt _ (by omega), hlf]; omega
      rw [hl8]
      have h2 : ¬ (o.data.length + 2 < 2) := by omega
      simp only [h2, if_false, Nat.add_sub_cancel]
      have hcr : (⟨o.data ++ (Icmp6.optsBytes os ++ tail), o.data.length + 2 + (Icmp6.optsBytes os).length - 1 - 1⟩ : Cursor).canRead
          o.data.length = true := by
        simp [Cursor.canRead]
      simp only [hcr, Bool.not_true, Bool.false_eq_true, if_false]
      rw [peek_app _ o.data _ _ _ rfl]
      simp only [Out.bind_ok]
      rw [skip_app o.data _ _ _ rfl (by omega)]
      simp only [Out.bind_ok]
      have hsz : o.data.length + 2 + (Icmp6.optsBytes os).length - 1 - 1 - o.data.length = (Icmp6.optsBytes os).length := by omega
      rw [hsz, ih hrest fuel (by omega)]
      simp only [Out.bind_ok, pure, ofNat_toNat_of_lt _ hc, ← hlf]

/-- the full statement of C04 for the option list: whatever `add_option` accepted is what a parser of the wire bytes
    gets back -/
def icmp6_opts_reparse_full : Prop :=
  ∀ os : List Opt, (∀ o ∈ os, o.Api) →
    Icmp6.parseOpts (Icmp6.optsBytes os).length ⟨Icmp6.optsBytes os, (Icmp6.optsBytes os).length⟩ = .ok os

/-- what comes back for one option list (for the refutation) -/
def optsRoundTrip (os : List Opt) : Option (List Opt) :=
  match Icmp6.parseOpts (Icmp6.optsBytes os).length ⟨Icmp6.optsBytes os, (Icmp6.optsBytes os).length⟩ with
  | .ok r => some r
  | _ => none

/-- **KF-C04-Icmp-2 (DESIGN §7 #33), machine-checked**: `add_option(1, {01 02 03})` is written as `01 00 01 02 03`
    (length octet (3 + 2) / 8 = 0) and the parser rejects it — replayed on the real code by the probe
    `new / push ICMPv6 133 / set 0 add_option 1 010203 / show` -/
theorem icmp6_unaligned_option_fails : ¬ icmp6_opts_reparse_full := by
  intro h
  have h1 := h [⟨1, 3, [1, 2, 3]⟩] (by intro o ho; simp at ho; subst ho; decide)
  have h2 : optsRoundTrip [⟨1, 3, [1, 2, 3]⟩] = none := by decide
  simp [optsRoundTrip, h1] at h2

/-- **KF-C04-Icmp-3**: eight data bytes are written with length octet 1: the parser takes six of them and reads the
    other two as the header of a second option -/
example : optsRoundTrip [⟨14, 8, [1, 2, 3, 4, 5, 6, 7, 1]⟩, ⟨1, 4, [9, 9, 9, 9]⟩] =
    some [⟨14, 6, [1, 2, 3, 4, 5, 6]⟩, ⟨7, 6, [1, 0, 9, 9, 9, 9]⟩] := by decide

/-- the proved part: on the region the wire format can express the option list comes back unchanged -/
theorem icmp6_opts_reparse_partial (os : List Opt) (h : ∀ o ∈ os, o.Api ∧ o.Aligned) :
    Icmp6.parseOpts (Icmp6.optsBytes os).length ⟨Icmp6.optsBytes os, (Icmp6.optsBytes os).length⟩ = .ok os := by
  have := parseOpts_optsBytes os h [] _ (Nat.le_refl _)
  simpa using this

/-- non-vacuity: a source link-layer address option and a 14-byte option (beyond `PDUOption`'s 8-byte small buffer) -/
example : ∀ o ∈ [(⟨1, 6, [2, 0, 0, 0, 0, 1]⟩ : Opt), ⟨5, 14, List.replicate 14 7⟩], o.Api ∧ o.Aligned := by decide

/-- every typed option setter whose option is built by libtins produces an expressible option; the pass-through setters
    (`nonce`, `redirect_header`, raw `add_option`) do so exactly when the caller's data size + 2 is a multiple of 8 -/
theorem optPadding_aligned (n : Nat) : (n + Icmp6.optPadding n) % 8 = 0 := by
  unfold Icmp6.optPadding
  split
  · rename_i h; simp only [beq_iff_eq] at h; omega
  · rename_i h; simp only [beq_iff_eq] at h; omega

end Tins.Wire.Icmp
