import TinsModel.Wire.Icmp.ThIcmp6Api
/-
  Family-level theorems of Icmp for the four wire properties, over the interface the registry uses
  (`Icmp.parse`, `Icmp.hdr`, `Icmp.trl`, `Icmp.write`, `Icmp.mk`, `Icmp.apply`).  Per-class theorems:
    ThExt / ThExtWrite      ICMPExtension, ICMPExtensionsStructure, try_parse_icmp_extensions, RFC 4884 trailer
    ThIcmp / ThIcmpWrite / ThIcmpApi       ICMP
    ThIcmp6 / ThIcmp6Write / ThIcmp6Api    ICMPv6
-/
namespace Tins.Wire.Icmp
open Tins Tins.Wire

/-- the invariant of a family object: what parsing establishes and every API call preserves -/
def ObjInv : Obj → Prop
  | .icmp p => p.Inv
  | .icmp6 p => p.Inv

/-- none of the `uint32_t` size computations of the object wraps (a packet of 4 GiB cannot be serialized) -/
def Serializable : Obj → Prop
  | .icmp p => p.Ser
  | .icmp6 p => p.Ser

/-- the `LayerSem` the registry builds for a family object in context `cx` -/
def icmpSem (cx : Ctx) (o : Obj) : LayerSem :=
  { name := (info o).1, hdr := hdr o, trl := trl o cx.innerSize, write := write cx o }

/-- **C01 / Icmp**: every parsing constructor of the family, on every byte string, returns a packet or throws
    `malformed_packet`; it never touches a byte outside the buffer -/
theorem icmp_family_parse_safe (cls : String) (b : Bytes) (h : cls ∈ classes) : ParseSafe (parse cls b) := by
  simp only [classes, List.mem_cons, List.mem_nil_iff, or_false] at h
  rcases h with h | h <;> subst h <;> simp only [parse]
  · exact ParseSafe.bind (icmp_parse_safe b) (fun a _ => .ok _)
  · exact ParseSafe.bind (icmp6_parse_safe b) (fun a _ => .ok _)

/-- **C01 / Icmp, termination of the nested constructors**: the constructors of this family never build another class
    on their payload (only `RawPDU`), so the obligation holds vacuously -/
theorem icmp_family_parse_consumes (cls : String) (b : Bytes) (o : Obj) (name : String) (pb : Bytes) (fb : Bool)
    (hc : cls ∈ classes) (h : parse cls b = .ok (o, .cls name pb fb)) : pb.length < b.length := by
  simp only [classes, List.mem_cons, List.mem_nil_iff, or_false] at hc
  rcases hc with hc | hc <;> subst hc <;> simp only [parse] at h <;>
    rcases map_ok_inv h with ⟨⟨x, i⟩, hx, hr⟩ <;> injection hr with _ hi <;> subst hi
  · exact absurd hx (icmp_parse_no_cls b x name pb fb)
  · exact absurd hx (icmp6_parse_no_cls b x name pb fb)

/-- the payload a constructor of the family hands to `RawPDU` is strictly shorter than its input -/
theorem icmp_family_parse_raw_shorter (cls : String) (b : Bytes) (o : Obj) (r : Bytes)
    (hc : cls ∈ classes) (h : parse cls b = .ok (o, .raw r)) : r.length < b.length := by
  simp only [classes, List.mem_cons, List.mem_nil_iff, or_false] at hc
  rcases hc with hc | hc <;> subst hc <;> simp only [parse] at h <;>
    rcases map_ok_inv h with ⟨⟨x, i⟩, hx, hr⟩ <;> injection hr with _ hi <;> subst hi
  · rcases (icmp_parse_shape b x _ hx).2.1 with h1 | ⟨r', h1, hl⟩
    · cases h1
    · injection h1 with h1; subst h1; exact hl
  · rcases (icmp6_parse_shape b x _ hx).2.1 with h1 | ⟨r', h1, hl⟩
    · cases h1
    · injection h1 with h1; subst h1; exact hl

/-- parsing establishes the invariant -/
theorem icmp_family_parse_inv (cls : String) (b : Bytes) (o : Obj) (i : Inner) (hc : cls ∈ classes)
    (h : parse cls b = .ok (o, i)) : ObjInv o := by
  simp only [classes, List.mem_cons, List.mem_nil_iff, or_false] at hc
  rcases hc with hc | hc <;> subst hc <;> simp only [parse] at h <;>
    rcases map_ok_inv h with ⟨⟨x, j⟩, hx, hr⟩ <;> injection hr with ho _ <;> subst ho
  · exact icmp_parse_inv b x j hx
  · exact icmp6_parse_inv b x j hx

theorem ser_of_ext_bound (e : ExtS) (n : Nat) (hn : n < 4294967296)
    (h : 4 + (e.exts.map ExtObj.size).sum ≤ n ∨ e = ExtS.default) : e.plainSize < 4294967296 := by
  rcases h with h | h
  · simp only [ExtS.plainSize]; omega
  · subst h; simp [ExtS.plainSize, ExtS.default]

/-- **what the parsing constructors build is serializable**: every size `header_size()` / `trailer_size()` add up is
    bounded by the length of the parsed buffer, which is a `uint32_t` -/
theorem icmp_family_parse_serializable (cls : String) (b : Bytes) (o : Obj) (i : Inner) (hc : cls ∈ classes)
    (hb : b.length < 4294967296) (h : parse cls b = .ok (o, i)) : Serializable o := by
  simp only [classes, List.mem_cons, List.mem_nil_iff, or_false] at hc
  rcases hc with hc | hc <;> subst hc <;> simp only [parse] at h <;>
    rcases map_ok_inv h with ⟨⟨x, j⟩, hx, hr⟩ <;> injection hr with ho _ <;> subst ho
  · have hser : x.Ser := ser_of_ext_bound _ _ hb (icmp_parse_shape b x j hx).2.2
    exact hser
  · obtain ⟨_, _, hsz, hext⟩ := icmp6_parse_shape b x j hx
    have hser : x.Ser := ⟨by omega, ser_of_ext_bound _ _ hb hext⟩
    exact hser

/-- the public constructors build serializable objects -/
theorem icmp_family_mk_serializable (cls : String) (args : List String) (o : Obj) (h : mk cls args = .ok o) :
    Serializable o := by
  unfold mk at h
  split at h
  · rcases map_ok_inv h with ⟨p, hp, hr⟩; subst hr
    unfold Icmp4.make at hp
    split at hp
    · injection hp with hp; subst hp; exact icmp_create_ser _
    · obtain ⟨n, _, hp⟩ := bind_ok_inv hp
      injection hp with hp; subst hp; exact icmp_create_ser _
    · cases hp
  · split at h
    · rcases map_ok_inv h with ⟨p, hp, hr⟩; subst hr
      unfold Icmp6.make at hp
      split at hp
      · injection hp with hp; subst hp; exact icmp6_create_ser _
      · obtain ⟨n, _, hp⟩ := bind_ok_inv hp
        injection hp with hp; subst hp; exact icmp6_create_ser _
      · cases hp
    · cases h

/-- **C02 / Icmp**: for every family object satisfying the invariant whose sizes fit `uint32_t`, in every context,
    `write_serialization` succeeds on the region `PDU::serialize` hands out, keeps its length and leaves the inner
    layers' bytes untouched -/
theorem icmp_family_writesOnlyAt (cx : Ctx) (o : Obj) (hi : ObjInv o) (hs : Serializable o) :
    WritesOnlyAt (icmpSem cx o) cx.innerSize := by
  cases o with
  | icmp p => exact icmp_writesOnlyAt cx p hi hs
  | icmp6 p => exact icmp6_writesOnlyAt cx p hi hs

/-- the public constructors establish the invariant -/
theorem icmp_family_mk_inv (cls : String) (args : List String) (o : Obj) (h : mk cls args = .ok o) : ObjInv o := by
  unfold mk at h
  split at h
  · rcases map_ok_inv h with ⟨p, hp, hr⟩; subst hr; exact icmp_make_inv args p hp
  · split at h
    · rcases map_ok_inv h with ⟨p, hp, hr⟩; subst hr; exact icmp6_make_inv args p hp
    · cases h

/-- **C04 / Icmp**: every API call keeps the invariant — with `icmp_family_mk_inv` and `icmp_family_parse_inv`: every
    object reachable by parsing or by any finite sequence of constructor / setter / add-option / remove-option /
    add-extension calls satisfies it -/
theorem icmp_family_apply_inv (o o' : Obj) (op : List String) (hi : ObjInv o) (h : apply o op = .ok o') : ObjInv o' := by
  cases o with
  | icmp p =>
    simp only [apply] at h
    rcases map_ok_inv h with ⟨x, hx, hr⟩; subst hr; exact icmp_apply_inv p x op hi hx
  | icmp6 p =>
    simp only [apply] at h
    rcases map_ok_inv h with ⟨x, hx, hr⟩; subst hr; exact icmp6_apply_inv p x op hi hx

/-- histories: any finite sequence of API calls from an object satisfying the invariant ends in one that satisfies it -/
theorem icmp_family_history_inv (ops : List (List String)) (o o' : Obj) (hi : ObjInv o)
    (h : ops.foldlM (fun x op => apply x op) o = .ok o') : ObjInv o' := by
  induction ops generalizing o with
  | nil => simp only [List.foldlM_nil, pure] at h; injection h with h; subst h; exact hi
  | cons op ops ih =>
    simp only [List.foldlM_cons] at h
    rcases bind_ok_inv h with ⟨o1, h1, h2⟩
    exact ih o1 (icmp_family_apply_inv o o1 op hi h1) h2

set_option maxRecDepth 16384 in
/-- non-vacuity: a parsed ICMP time-exceeded message with an MPLS extension object (it satisfies the invariant and is
    serializable); an API-built ICMPv6 router solicitation with a source link-layer address option -/
example : (match Icmp4.parse ([11, 0, 0, 0, 0, 0, 0, 0] ++ List.replicate 128 0 ++ [0x20, 0, 0xde, 0xf5, 0, 8, 1, 1, 0, 0, 0, 1]) with
    | .ok (p, .raw r) => p.ext.exts == [⟨1, 1, [0, 0, 0, 1]⟩] && r.length == 128
    | _ => false) = true := by decide

example : ∃ p, (Icmp6.create 133).addTyped 1 [2, 3, 4, 5, 6, 7] = .ok p ∧ p.optsSize = 8 ∧ p.Inv :=
  ⟨_, rfl, rfl, addTyped_inv _ _ 1 [2, 3, 4, 5, 6, 7] (icmp6_create_inv 133) rfl⟩

end Tins.Wire.Icmp
