import TinsModel.Wire.Icmp.ThChecksum
import TinsModel.Wire.Icmp.ThOptsReparse
/-
  C03 for the extension structure: parsing what `ICMPExtensionsStructure::serialize` wrote gives back the same objects,
  and `try_parse_icmp_extensions` finds the structure at the offset the derived RFC 4884 length field names (or at the
  fallback offset 128).
-/
namespace Tins.Wire.Icmp
open Tins Tins.Wire

/-- what the wire format of an extension object can express: one-byte class and type, 16-bit length -/
def ExtObj.OK (e : ExtObj) : Prop := e.cls < 256 ∧ e.typ < 256 ∧ e.size ≤ 65535

instance (e : ExtObj) : Decidable e.OK := by unfold ExtObj.OK; exact inferInstance

theorem extobj_parse_bytes (e : ExtObj) (he : e.OK) (m : Bytes) (k : Nat) (hk : e.size ≤ k) :
    ExtObj.parse ⟨e.bytes ++ m, k⟩ = .ok e := by
  obtain ⟨hc, ht, hs⟩ := he
  have hsz : e.size = 4 + e.payload.length := rfl
  have hshape : e.bytes ++ m = OutCursor.beBytes 2 e.size ++ (UInt8.ofNat e.cls :: UInt8.ofNat e.typ :: (e.payload ++ m)) := by
    simp [ExtObj.bytes, List.append_assoc]
  unfold ExtObj.parse
  rw [hshape, readBE_app _ _ _ 2 (by simp) (by omega)]
  simp only [Out.bind_ok]
  rw [readU8_cons _ _ _ (by omega)]
  simp only [Out.bind_ok]
  rw [readU8_cons _ _ _ (by omega)]
  simp only [Out.bind_ok]
  rw [beNat_beBytes]
  have hmod : e.size % 256 ^ 2 = e.size := Nat.mod_eq_of_lt (by omega)
  rw [hmod]
  have hcond : (decide (e.size < 4) || decide (e.size - 4 > k - 2 - 1 - 1)) = false := by
    simp only [Bool.or_eq_false_iff, decide_eq_false_iff_not]; omega
  simp only [hcond, Bool.false_eq_true, if_false]
  rw [read_app e.payload m _ _ (by omega) (by omega)]
  simp only [Out.bind_ok, pure, ofNat_toNat_of_lt _ hc, ofNat_toNat_of_lt _ ht]

theorem parseObjs_bytes (es : List ExtObj) (h : ∀ e ∈ es, e.OK) (tail : Bytes) (fuel : Nat)
    (hf : (es.map ExtObj.size).sum ≤ fuel) :
    ExtS.parseObjs fuel ⟨(es.map ExtObj.bytes).flatten ++ tail, (es.map ExtObj.size).sum⟩ = .ok es := by
  induction es generalizing fuel with
  | nil => cases fuel <;> simp [ExtS.parseObjs, Cursor.toBool]
  | cons e es ih =>
    have he := h e List.mem_cons_self
    have hrest := fun x hx => h x (List.mem_cons_of_mem _ hx)
    have hsz : e.size = 4 + e.payload.length := rfl
    simp only [List.map_cons, List.sum_cons, List.flatten_cons] at hf ⊢
    cases fuel with
    | zero => omega
    | succ fuel =>
      unfold ExtS.parseObjs
      have htb : (⟨e.bytes ++ (es.map ExtObj.bytes).flatten ++ tail, e.size + (es.map ExtObj.size).sum⟩ : Cursor).toBool = true := by
        simp [Cursor.toBool]; omega
      simp only [htb, Bool.not_true, Bool.false_eq_true, if_false]
      rw [List.append_assoc, extobj_parse_bytes e he _ _ (by omega)]
      simp only [Out.bind_ok]
      have hshape : e.bytes ++ ((es.map ExtObj.bytes).flatten ++ tail) =
          OutCursor.beBytes 2 e.size ++ ((UInt8.ofNat e.cls :: UInt8.ofNat e.typ :: e.payload) ++ ((es.map ExtObj.bytes).flatten ++ tail)) := by
        simp [ExtObj.bytes, List.append_assoc]
      rw [hshape, readBE_app _ _ _ 2 (by simp) (by omega)]
      simp only [Out.bind_ok]
      rw [beNat_beBytes, Nat.mod_eq_of_lt (by have := he.2.2; omega : e.size < 256 ^ 2)]
      have h2 : ¬ e.size < 2 := by omega
      simp only [h2, if_false]
      rw [skip_app _ _ _ (e.size - 2) (by simp; omega) (by omega)]
      simp only [Out.bind_ok]
      have hk : e.size + (es.map ExtObj.size).sum - 2 - (e.size - 2) = (es.map ExtObj.size).sum := by omega
      rw [hk, ih hrest fuel (by omega)]
      rfl

/-- the big-endian value of the two checksum bytes as `serialize` leaves them in memory -/
def ExtS.wireCk (s : ExtS) : Nat := Cursor.beNat (le16 s.cksumOf)

/-- **`ICMPExtensionsStructure(buffer, size)` inverts `serialize`** -/
theorem exts_parse_wireBytes (s : ExtS) (h : ∀ e ∈ s.exts, e.OK) (tail : Bytes) :
    ExtS.parse ⟨s.wireBytes ++ tail, s.plainSize⟩ = .ok ⟨s.vr % 65536, s.wireCk, s.exts⟩ := by
  have h4 : 4 ≤ s.plainSize := by simp [ExtS.plainSize]
  have hshape : s.wireBytes ++ tail = OutCursor.beBytes 2 s.vr ++ (le16 s.cksumOf ++ ((s.exts.map ExtObj.bytes).flatten ++ tail)) := by
    have h1 : s.bodyBytes.take 2 = OutCursor.beBytes 2 s.vr := by
      simp only [ExtS.bodyBytes, List.append_assoc]; exact take_append_len _ _ _ (by simp)
    have h2 : s.bodyBytes.drop 4 = (s.exts.map ExtObj.bytes).flatten := by
      have : (OutCursor.beBytes 2 s.vr ++ [0, 0]).length = 4 := by simp
      simp only [ExtS.bodyBytes]; exact drop_append_len _ _ _ this
    simp only [ExtS.wireBytes, h1, h2, List.append_assoc]
  unfold ExtS.parse
  rw [hshape, readBE_app _ _ _ 2 (by simp) (by omega)]
  simp only [Out.bind_ok]
  rw [readBE_app _ _ _ 2 (le16_length _) (by omega)]
  simp only [Out.bind_ok]
  have hk : s.plainSize - 2 - 2 = (s.exts.map ExtObj.size).sum := by simp [ExtS.plainSize]; omega
  rw [hk, parseObjs_bytes s.exts h tail _ (Nat.le_refl _)]
  simp only [Out.bind_ok, pure, beNat_beBytes, ExtS.wireCk]

/-- where `try_parse_icmp_extensions` looks in a stream of `n` bytes for a payload length of `pl` -/
def extLocate (pl n : Nat) : Option Nat :=
  if decide (pl ≤ n) && decide (pl ≥ 128) then some pl else if 128 ≤ n then some 128 else none

/-- `try_parse_icmp_extensions` finds and parses the structure `serialize` wrote behind a payload -/
theorem tryParseExt_found (payload : Bytes) (s : ExtS) (pl : Nat) (cur : ExtS) (hs : s.plainSize < 131072)
    (hne : s.exts.isEmpty = false) (hok : ∀ e ∈ s.exts, e.OK)
    (hloc : extLocate pl (payload.length + s.plainSize) = some payload.length) :
    tryParseExt ⟨payload ++ s.wireBytes, payload.length + s.plainSize⟩ pl cur =
      .ok (⟨s.vr % 65536, s.wireCk, s.exts⟩, ⟨payload ++ s.wireBytes, payload.length⟩) := by
  have h4 : 4 ≤ s.plainSize := by simp [ExtS.plainSize]
  unfold tryParseExt
  have htb : (⟨payload ++ s.wireBytes, payload.length + s.plainSize⟩ : Cursor).toBool = true := by
    simp [Cursor.toBool]; omega
  simp only [htb, Bool.not_true, Bool.false_eq_true, if_false]
  have hl : (if (Cursor.canRead ⟨payload ++ s.wireBytes, payload.length + s.plainSize⟩ pl && decide (pl ≥ 128)) = true then some pl
      else if Cursor.canRead ⟨payload ++ s.wireBytes, payload.length + s.plainSize⟩ 128 = true then some 128 else none) =
      some payload.length := by
    simpa [extLocate, Cursor.canRead] using hloc
  rw [hl]
  simp only
  have hdrop : (payload ++ s.wireBytes).drop payload.length = s.wireBytes := drop_append_len _ _ _ rfl
  have hsz : payload.length + s.plainSize - payload.length = s.plainSize := by omega
  rw [hdrop, hsz]
  have hv := exts_validate_wireBytes s [] hs
  rw [List.append_nil] at hv
  rw [hv]
  simp only [Out.bind_ok, if_true]
  have hp := exts_parse_wireBytes s hok []
  rw [List.append_nil] at hp
  rw [hp]
  simp only [Out.bind_ok, hne, Bool.false_eq_true, if_false, pure, Cursor.setSize]
  congr 3
  omega

/-- no structure is found: the stream is empty, too short for any candidate offset, or the candidate area does not
    carry a valid checksum -/
def ghostFree (pl : Nat) (rest : Bytes) : Prop :=
  match extLocate pl rest.length with
  | none => True
  | some off => ExtS.validate (rest.drop off) (rest.length - off) = .ok false

theorem tryParseExt_none (rest : Bytes) (pl : Nat) (cur : ExtS) (h : ghostFree pl rest) :
    tryParseExt ⟨rest, rest.length⟩ pl cur = .ok (cur, ⟨rest, rest.length⟩) := by
  unfold tryParseExt
  by_cases hb : (⟨rest, rest.length⟩ : Cursor).toBool = true
  · simp only [hb, Bool.not_true, Bool.false_eq_true, if_false]
    have hl : (if (Cursor.canRead ⟨rest, rest.length⟩ pl && decide (pl ≥ 128)) = true then some pl
        else if Cursor.canRead ⟨rest, rest.length⟩ 128 = true then some 128 else none) = extLocate pl rest.length := by
      simp [extLocate, Cursor.canRead]
    rw [hl]
    unfold ghostFree at h
    cases hloc : extLocate pl rest.length with
    | none => rfl
    | some off =>
      rw [hloc] at h
      simp only at h ⊢
      rw [h]
      simp only [Out.bind_ok, Bool.false_eq_true, if_false, pure]
  · simp only [hb, Bool.not_false, if_true, pure]

/-- an empty candidate area never validates: a quote that ends exactly where the length field says has no extensions -/
theorem ghostFree_of_exact (pl : Nat) (rest : Bytes) (h : extLocate pl rest.length = some rest.length ∨ extLocate pl rest.length = none) :
    ghostFree pl rest := by
  unfold ghostFree
  rcases h with h | h <;> rw [h]
  · simp [ExtS.validate]
  · trivial

end Tins.Wire.Icmp
