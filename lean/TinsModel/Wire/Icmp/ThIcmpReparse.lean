import TinsModel.Wire.Icmp.ThExtReparse
import TinsModel.Wire.Icmp.ThIcmpApi
import TinsModel.Wire.Icmp.ThCodec
/-
  C03 for ICMP: parsing what `write_serialization` wrote.
    icmp_reparse_plain   — types without RFC 4884 extensions (echo, timestamp, address mask, redirect, …)
    icmp_reparse_ext     — types 3/11/12 with an extension structure: found again behind the (padded) quote
    icmp_reparse_quote   — types 3/11/12 without extensions, under `ghostFree` (no structure validates where the
                           re-parser looks); `icmp_quote_ghostFree`: quotes that are a multiple of 4 bytes and fit the
                           length field are ghost-free; `icmp_reparse_ghost_fails`: the excluded region is inhabited
                           (known finding KF-C03-Icmp-3, consequence of KF-C05-1)
-/
namespace Tins.Wire.Icmp
open Tins Tins.Wire

/-- `memcpy(buffer + 2, &header_.check, 2)` -/
def setCk (r : Bytes) (ck : Nat) : Bytes := r.take 2 ++ le16 ck ++ r.drop 4

/-- the object the parser builds from the wire image of `p`: members that are not on the wire for its type are
    zero-initialised, checksum / union / extensions as found -/
def Icmp4.onWire (p : Icmp4) (ck : Nat) (un : Bytes) (ext : ExtS) : Icmp4 :=
  { type := p.type, code := p.code, check := ck, un := un,
    orig := if Icmp4.isTimestamp p.type || Icmp4.isMask p.type then p.orig else List.replicate 4 0,
    recv := if Icmp4.isTimestamp p.type then p.recv else List.replicate 4 0,
    trans := if Icmp4.isTimestamp p.type then p.trans else List.replicate 4 0,
    ext := ext }

/-- type and code are bytes -/
def Icmp4.Small (p : Icmp4) : Prop := p.type < 256 ∧ p.code < 256

/-- the union as written -/
def Icmp4.unFor (p : Icmp4) (inner : Option Nat) : Bytes := patch p.un 1 [UInt8.ofNat (p.lengthFor inner)]

theorem icmp_readBody_bytes (p : Icmp4) (hi : p.Inv) (rest : Bytes) (k : Nat) (hk : p.bodyBytes.length ≤ k) :
    Icmp4.readBody p.type ⟨p.bodyBytes ++ rest, k⟩ =
      .ok ((if Icmp4.isTimestamp p.type || Icmp4.isMask p.type then p.orig else List.replicate 4 0,
            if Icmp4.isTimestamp p.type then p.recv else List.replicate 4 0,
            if Icmp4.isTimestamp p.type then p.trans else List.replicate 4 0), ⟨rest, k - p.bodyBytes.length⟩) := by
  unfold Icmp4.readBody Icmp4.bodyBytes at *
  by_cases ht : Icmp4.isTimestamp p.type = true
  · simp only [ht, if_true, Bool.true_or] at hk ⊢
    have := hi.orig; have := hi.recv; have := hi.trans
    simp only [List.length_append] at hk
    rw [List.append_assoc, List.append_assoc, read_app p.orig _ _ 4 hi.orig (by omega)]
    simp only [Out.bind_ok]
    rw [read_app p.recv _ _ 4 hi.recv (by omega)]
    simp only [Out.bind_ok]
    rw [read_app p.trans _ _ 4 hi.trans (by omega)]
    simp only [Out.bind_ok, pure, List.length_append]
    congr 3; omega
  · simp only [ht, Bool.false_eq_true, if_false, Bool.false_or] at hk ⊢
    by_cases hm : Icmp4.isMask p.type = true
    · simp only [hm, if_true] at hk ⊢
      rw [read_app p.orig _ _ 4 hi.orig (by have := hi.orig; omega)]
      simp only [Out.bind_ok, pure, hi.orig]
    · simp only [hm, Bool.false_eq_true, if_false, pure, List.nil_append, List.length_nil, Nat.sub_zero]

/-- the parsing constructor on a buffer that starts with the image of `p`'s header -/
theorem icmp_parseHead_image (p : Icmp4) (hi : p.Inv) (hsm : p.Small) (k0 k1 : UInt8) (un rest : Bytes) (hun : un.length = 4) :
    Icmp4.parseHead ([UInt8.ofNat p.type, UInt8.ofNat p.code, k0, k1] ++ un ++ p.bodyBytes ++ rest) =
      (tryParseExtIf (Icmp4.extAllowed p.type) ⟨rest, rest.length⟩ (byteAt un 1 * 4)) >>= fun x =>
        pure (p.onWire (Cursor.beNat [k0, k1]) un x.1, x.2) := by
  obtain ⟨ht, hc⟩ := hsm
  have hbl : p.bodyBytes.length + 8 = p.hdr := by
    unfold Icmp4.bodyBytes Icmp4.hdr
    split
    · simp [hi.orig, hi.recv, hi.trans]
    · split <;> simp [hi.orig]
  unfold Icmp4.parseHead
  have hshape : [UInt8.ofNat p.type, UInt8.ofNat p.code, k0, k1] ++ un ++ p.bodyBytes ++ rest =
      UInt8.ofNat p.type :: UInt8.ofNat p.code :: ([k0, k1] ++ (un ++ (p.bodyBytes ++ rest))) := by simp
  have hlen : (UInt8.ofNat p.type :: UInt8.ofNat p.code :: ([k0, k1] ++ (un ++ (p.bodyBytes ++ rest)))).length =
      8 + p.bodyBytes.length + rest.length := by simp [hun]; omega
  simp only [Cursor.ofBytes, hshape, hlen]
  rw [readU8_cons _ _ _ (by omega)]
  simp only [Out.bind_ok]
  rw [readU8_cons _ _ _ (by omega)]
  simp only [Out.bind_ok]
  rw [readBE_app [k0, k1] _ _ 2 rfl (by omega)]
  simp only [Out.bind_ok]
  rw [read_app un _ _ 4 hun (by omega)]
  simp only [Out.bind_ok, ofNat_toNat_of_lt _ ht, ofNat_toNat_of_lt _ hc]
  rw [icmp_readBody_bytes p hi rest _ (by omega)]
  simp only [Out.bind_ok]
  have hk : 8 + p.bodyBytes.length + rest.length - 1 - 1 - 2 - 4 - p.bodyBytes.length = rest.length := by omega
  rw [hk]
  rfl

/-- the header image starts with type, code and a zero checksum -/
theorem icmp_headBytes_shape (p : Icmp4) (inner : Option Nat) :
    p.headBytes inner = [UInt8.ofNat p.type, UInt8.ofNat p.code, 0, 0] ++ p.unFor inner ++ p.bodyBytes := rfl

theorem setCk_headBytes (p : Icmp4) (inner : Option Nat) (rest : Bytes) (ck : Nat) :
    ∃ k0 k1, le16 ck = [k0, k1] ∧ setCk (p.headBytes inner ++ rest) ck =
      [UInt8.ofNat p.type, UInt8.ofNat p.code, k0, k1] ++ p.unFor inner ++ p.bodyBytes ++ rest := by
  refine ⟨_, _, rfl, ?_⟩
  simp [setCk, icmp_headBytes_shape, le16]

/-- **closed form of `write_serialization` without extensions** -/
theorem icmp_write_plain_eq (cx : Ctx) (p : Icmp4) (hi : p.Inv) (he : p.hasExt = false) (region : Bytes)
    (hr : p.hdr ≤ region.length) :
    p.write cx region = .ok (setCk (p.headBytes (Icmp4.innerOf cx.innerSize) ++ region.drop p.hdr)
      (not16 (sumRange (p.headBytes (Icmp4.innerOf cx.innerSize) ++ region.drop p.hdr)))) := by
  have hhl := icmp_headBytes_length p hi (Icmp4.innerOf cx.innerSize)
  have h4 : 4 ≤ p.hdr := by unfold Icmp4.hdr; omega
  unfold Icmp4.write
  dsimp only
  rw [icmp_writeHead_eq p hi _ region hr]
  simp only [Out.bind_ok]
  unfold Icmp4.writeTail
  dsimp only
  rw [emit_ofRegion_buffer, hhl]
  simp only [he, Bool.false_eq_true, if_false, Out.pure_eq, Out.bind_ok]
  rw [poke_eq _ _ _ _ (by simp only [le16_length, List.length_append, hhl, List.length_drop]; omega)]
  rfl

/-- **C03 / ICMP without RFC 4884 extensions**: every such object (parsed or API-built) is re-parsed from its
    serialization with the same type, code, union, timestamps / address mask; the payload follows as `RawPDU` -/
theorem icmp_reparse_plain (cx : Ctx) (p : Icmp4) (hi : p.Inv) (hsm : p.Small) (he : p.hasExt = false)
    (hna : Icmp4.extAllowed p.type = false) (region : Bytes) (hr : p.hdr ≤ region.length) :
    ∃ out ck, p.write cx region = .ok out ∧ out.length = region.length ∧
      Icmp4.parse out = .ok (p.onWire ck p.un ExtS.default,
        if region.length > p.hdr then .raw (region.drop p.hdr) else .none) := by
  have hhl := icmp_headBytes_length p hi (Icmp4.innerOf cx.innerSize)
  rcases setCk_headBytes p (Icmp4.innerOf cx.innerSize) (region.drop p.hdr)
    (not16 (sumRange (p.headBytes (Icmp4.innerOf cx.innerSize) ++ region.drop p.hdr))) with ⟨k0, k1, _, hshape⟩
  refine ⟨_, Cursor.beNat [k0, k1], icmp_write_plain_eq cx p hi he region hr, ?_, ?_⟩
  · rw [hshape]; simp only [List.length_append, List.length_cons, List.length_nil, List.length_drop]
    have : (p.unFor (Icmp4.innerOf cx.innerSize)).length = 4 := by
      unfold Icmp4.unFor; rw [patch_length _ _ _ (by simp [hi.un])]; exact hi.un
    have hb : p.bodyBytes.length + 8 = p.hdr := by
      have := hhl; rw [icmp_headBytes_shape] at this
      simp only [List.length_append, List.length_cons, List.length_nil] at this; omega
    omega
  · have hun : p.unFor (Icmp4.innerOf cx.innerSize) = p.un := by
      -- the length octet is only derived for the RFC 4884 types
      unfold Icmp4.unFor Icmp4.lengthFor
      simp only [hna, Bool.false_eq_true, if_false]
      unfold Icmp4.length
      have h1 : byteAt p.un 1 < 256 := byteAt_lt _ _
      have hl := hi.un
      -- patching a byte with itself
      obtain ⟨a, b, c, d, hp⟩ : ∃ a b c d, p.un = [a, b, c, d] := by
        match hu : p.un, hl with
        | [a, b, c, d], _ => exact ⟨a, b, c, d, rfl⟩
      rw [hp]
      simp [patch, byteAt]
    rw [hshape, hun]
    unfold Icmp4.parse
    rw [icmp_parseHead_image p hi hsm k0 k1 p.un _ hi.un]
    simp only [tryParseExtIf, hna, Bool.false_eq_true, if_false, pure, Out.bind_ok]
    rw [finishRaw_ok _ _ _ (by simp [Cursor.Inv])]
    simp only [Cursor.toBool, List.length_drop]
    congr 2
    by_cases hgt : region.length > p.hdr
    · have : decide (region.length - p.hdr > 0) = true := by simp; omega
      simp [this, hgt]
      exact List.take_of_length_le (by simp)
    · have : decide (region.length - p.hdr > 0) = false := by simp; omega
      simp [this, hgt]


theorem byteAt_unFor (p : Icmp4) (hi : p.Inv) (inner : Option Nat) : byteAt (p.unFor inner) 1 = p.lengthFor inner % 256 := by
  unfold Icmp4.unFor
  exact byteAt_patch_same _ _ _ (by simp [hi.un])

theorem unFor_length (p : Icmp4) (hi : p.Inv) (inner : Option Nat) : (p.unFor inner).length = 4 := by
  unfold Icmp4.unFor; rw [patch_length _ _ _ (by simp [hi.un])]; exact hi.un

/-- **C03 / ICMP error message without extensions**: re-parsed with the same fields and the same quote, provided no
    extension structure validates where the re-parser looks (`ghostFree`) -/
theorem icmp_reparse_quote (cx : Ctx) (p : Icmp4) (hi : p.Inv) (hsm : p.Small) (he : p.hasExt = false)
    (ha : Icmp4.extAllowed p.type = true) (region : Bytes) (hr : p.hdr ≤ region.length)
    (hg : ghostFree (p.lengthFor (Icmp4.innerOf cx.innerSize) % 256 * 4) (region.drop p.hdr)) :
    ∃ out ck, p.write cx region = .ok out ∧ out.length = region.length ∧
      Icmp4.parse out = .ok (p.onWire ck (p.unFor (Icmp4.innerOf cx.innerSize)) ExtS.default,
        if region.length > p.hdr then .raw (region.drop p.hdr) else .none) := by
  have hhl := icmp_headBytes_length p hi (Icmp4.innerOf cx.innerSize)
  have hul := unFor_length p hi (Icmp4.innerOf cx.innerSize)
  rcases setCk_headBytes p (Icmp4.innerOf cx.innerSize) (region.drop p.hdr)
    (not16 (sumRange (p.headBytes (Icmp4.innerOf cx.innerSize) ++ region.drop p.hdr))) with ⟨k0, k1, _, hshape⟩
  refine ⟨_, Cursor.beNat [k0, k1], icmp_write_plain_eq cx p hi he region hr, ?_, ?_⟩
  · rw [hshape]; simp only [List.length_append, List.length_cons, List.length_nil, List.length_drop]
    have hb : p.bodyBytes.length + 8 = p.hdr := by
      have := hhl; rw [icmp_headBytes_shape] at this
      simp only [List.length_append, List.length_cons, List.length_nil] at this; omega
    omega
  · rw [hshape]
    unfold Icmp4.parse
    rw [icmp_parseHead_image p hi hsm k0 k1 _ _ hul]
    simp only [tryParseExtIf, ha, if_true]
    rw [byteAt_unFor p hi, tryParseExt_none _ _ _ hg]
    simp only [pure, Out.bind_ok]
    rw [finishRaw_ok _ _ _ (by simp [Cursor.Inv])]
    simp only [Cursor.toBool, List.length_drop]
    congr 2
    by_cases hgt : region.length > p.hdr
    · have : decide (region.length - p.hdr > 0) = true := by simp; omega
      simp [this, hgt]
      exact List.take_of_length_le (by simp)
    · have : decide (region.length - p.hdr > 0) = false := by simp; omega
      simp [this, hgt]

/-- quotes whose size is a multiple of 4 and fits the 8-bit length field (in 32-bit words) are ghost-free: the derived
    length names exactly the end of the quote -/
theorem icmp_quote_ghostFree (p : Icmp4) (he : p.hasExt = false) (ha : Icmp4.extAllowed p.type = true) (payload : Bytes)
    (h4 : payload.length % 4 = 0) (hmax : payload.length ≤ 1020) :
    ghostFree (p.lengthFor (Icmp4.innerOf payload.length) % 256 * 4) payload := by
  apply ghostFree_of_exact
  have hlen : Icmp4.length p < 256 := byteAt_lt _ _
  generalize payload.length = n at *
  unfold Icmp4.lengthFor Icmp4.innerOf extLocate
  simp only [ha, if_true, he]
  by_cases hn0 : n = 0
  · subst hn0
    simp only [beq_self_eq_true, if_true, paddedInner]
    split
    · simp
    · rename_i h
      simp only [Bool.or_eq_true, bne_iff_ne, ne_eq, decide_eq_true_eq, not_or, Decidable.not_not] at h
      simp [h.1]
  · have hb : (n == 0) = false := by simp [hn0]
    simp only [hb, Bool.false_eq_true, if_false, paddedInner]
    have hp : (n % 4 != 0) = false := by simp [h4]
    simp only [hp, Bool.false_eq_true, if_false]
    by_cases hc : (Icmp4.length p != 0 || decide (n > 128)) = true
    · simp only [hc, if_true]
      have hnz : (n != 0) = true := by simp [hn0]
      simp only [hnz, if_true]
      have hv : n / 4 % 256 % 256 * 4 = n := by omega
      rw [hv]
      by_cases h128 : n ≥ 128
      · left; simp [h128]
      · right
        have h1 : ¬ (128 ≤ n) := by omega
        simp [h128]
    · simp only [hc, Bool.false_eq_true, if_false]
      simp only [Bool.or_eq_true, bne_iff_ne, ne_eq, decide_eq_true_eq, not_or, Decidable.not_not, Nat.not_lt] at hc
      rw [hc.1]
      by_cases h128 : n = 128
      · left; subst h128; simp
      · right
        have h1 : ¬ (128 ≤ n) := by omega
        simp [h1]

theorem poke_nil (site : String) (r : Bytes) (off : Nat) (h : off ≤ r.length) : poke site r off [] = .ok r := by
  rw [poke_eq site r [] off (by simpa using h)]
  simp

/-- **closed form of the RFC 4884 trailer** for a quote that needs no padding (a multiple of the length unit, at least
    128 bytes): the structure is written right behind the quote -/
theorem writeExtPart_exact (site : String) (s : ExtS) (n align : Nat) (hb payload tail : Bytes) (bufBase : Nat)
    (hs : s.plainSize < 4294967296) (hpl : payload.length = n) (hn : 128 ≤ n) (hal : paddedInner (some n) align = n)
    (htl : tail.length = s.plainSize) (hbase : bufBase ≤ hb.length) :
    Icmp4.writeExtPart site s (some n) align hb.length bufBase (hb ++ payload ++ tail) = .ok (hb ++ payload ++ s.wireBytes) := by
  unfold Icmp4.writeExtPart
  simp only [hal]
  have h128 : ¬ n < 128 := by omega
  simp only [h128, if_false, Nat.sub_self, List.replicate_zero]
  rw [poke_nil _ _ _ (by simp only [List.length_append]; omega)]
  simp only [Out.bind_ok, pure]
  have hlen : (hb ++ payload ++ tail).length = hb.length + n + s.plainSize := by
    simp only [List.length_append, hpl, htl]
  have hu : hb.length + n - bufBase ≤ (hb ++ payload ++ tail).length := by omega
  simp only [hu, if_true]
  rw [exts_write_eq s _ (hb.length + n) _ hs (by omega) (by omega)]
  congr 1
  have h1 : (hb ++ payload ++ tail).take (hb.length + n) = hb ++ payload := take_append_len _ _ _ (by simp [hpl])
  have h2 : (hb ++ payload ++ tail).drop (hb.length + n + s.plainSize) = [] := List.drop_eq_nil_of_le (by omega)
  rw [h1, h2, List.append_nil]

/-- **C03 / ICMP error message with an extension structure** (the shape the parser produces: a quote of at least 128
    bytes that is a multiple of 4 and fits the length field): the structure is found again at the offset the derived
    length names, with the same objects; the quote comes back unchanged -/
theorem icmp_reparse_ext (cx : Ctx) (p : Icmp4) (hi : p.Inv) (hsm : p.Small) (he : p.hasExt = true)
    (ha : Icmp4.extAllowed p.type = true) (hok : ∀ e ∈ p.ext.exts, e.OK) (hps : p.ext.plainSize < 131072)
    (payload tail : Bytes) (hn : 128 ≤ payload.length) (h4 : payload.length % 4 = 0) (hmax : payload.length ≤ 1020)
    (hcx : cx.innerSize = payload.length) (htl : tail.length = p.ext.plainSize) :
    ∃ out ck, p.write cx (List.replicate p.hdr 0 ++ payload ++ tail) = .ok out ∧
      Icmp4.parse out = .ok (p.onWire ck (p.unFor (some payload.length)) ⟨p.ext.vr % 65536, p.ext.wireCk, p.ext.exts⟩,
        .raw payload) := by
  have hne : p.ext.exts.isEmpty = false := by simpa [Icmp4.hasExt] using he
  have hinner : Icmp4.innerOf cx.innerSize = some payload.length := by
    unfold Icmp4.innerOf
    rw [hcx]
    have : (payload.length == 0) = false := by simp only [beq_eq_false_iff_ne, ne_eq]; omega
    simp only [this, Bool.false_eq_true, if_false]
  have hhl := icmp_headBytes_length p hi (some payload.length)
  have hul := unFor_length p hi (some payload.length)
  have hpad : paddedInner (some payload.length) 4 = payload.length := by
    simp only [paddedInner]
    have : (payload.length % 4 != 0) = false := by simp [h4]
    simp [this]
  have hzl : (List.replicate p.hdr (0 : UInt8)).length = p.hdr := by simp
  -- the written bytes
  have hwrite : p.write cx (List.replicate p.hdr 0 ++ payload ++ tail) =
      .ok (setCk (p.headBytes (some payload.length) ++ (payload ++ p.ext.wireBytes))
        (not16 (sumRange (p.headBytes (some payload.length) ++ payload ++ p.ext.wireBytes)))) := by
    unfold Icmp4.write
    dsimp only
    rw [hinner, icmp_writeHead_eq p hi _ _ (by simp)]
    simp only [Out.bind_ok]
    unfold Icmp4.writeTail
    dsimp only
    rw [emit_ofRegion_buffer, hhl]
    have hdrop : (List.replicate p.hdr (0 : UInt8) ++ payload ++ tail).drop p.hdr = payload ++ tail := by
      rw [List.append_assoc]; exact drop_append_len _ _ _ hzl
    have hdone : (emit (OutCursor.ofRegion (List.replicate p.hdr 0 ++ payload ++ tail)) (p.headBytes (some payload.length))).done.length
        = (p.headBytes (some payload.length)).length := by simp [OutCursor.ofRegion]
    rw [hdrop, hdone]
    simp only [he, if_true]
    rw [← List.append_assoc, writeExtPart_exact _ p.ext payload.length 4 _ payload tail 0 (by omega) rfl hn hpad htl (Nat.zero_le _)]
    simp only [Out.bind_ok]
    have h8 : 8 ≤ p.hdr := by unfold Icmp4.hdr; omega
    rw [poke_eq _ _ _ _ (by simp only [le16_length, List.length_append, hhl]; omega)]
    simp only [setCk, List.append_assoc, le16_length]
  rcases setCk_headBytes p (some payload.length) (payload ++ p.ext.wireBytes)
    (not16 (sumRange (p.headBytes (some payload.length) ++ payload ++ p.ext.wireBytes))) with ⟨k0, k1, _, hshape⟩
  refine ⟨_, Cursor.beNat [k0, k1], hwrite, ?_⟩
  rw [hshape]
  unfold Icmp4.parse
  rw [icmp_parseHead_image p hi hsm k0 k1 _ _ hul]
  simp only [tryParseExtIf, ha, if_true]
  rw [byteAt_unFor p hi]
  -- the derived length names the end of the quote (or is left 0 for a 128-byte quote: the fallback offset)
  have hloc : extLocate (p.lengthFor (some payload.length) % 256 * 4) (payload.length + p.ext.plainSize) = some payload.length := by
    have hlen : Icmp4.length p < 256 := byteAt_lt _ _
    unfold Icmp4.lengthFor extLocate
    simp only [ha, if_true, hpad, he]
    by_cases hc : (Icmp4.length p != 0 || decide (payload.length > 128)) = true
    · simp only [hc, if_true]
      have hnz : (payload.length != 0) = true := by simp only [bne_iff_ne, ne_eq]; omega
      have hmx : (if payload.length > 128 then payload.length else 128) = payload.length := by split <;> omega
      simp only [hnz, if_true, hmx]
      have hv : payload.length / 4 % 256 % 256 * 4 = payload.length := by omega
      rw [hv]
      simp [hn]
    · simp only [hc, Bool.false_eq_true, if_false]
      simp only [Bool.or_eq_true, bne_iff_ne, ne_eq, decide_eq_true_eq, not_or, Decidable.not_not, Nat.not_lt] at hc
      rw [hc.1]
      have : payload.length = 128 := by omega
      simp [this]
  have hwl := exts_wireBytes_length p.ext
  have hcur : (⟨payload ++ p.ext.wireBytes, (payload ++ p.ext.wireBytes).length⟩ : Cursor) =
      ⟨payload ++ p.ext.wireBytes, payload.length + p.ext.plainSize⟩ := by simp [hwl]
  rw [hcur, tryParseExt_found payload p.ext _ _ hps hne hok hloc]
  simp only [pure, Out.bind_ok]
  rw [finishRaw_ok _ _ _ (by simp [Cursor.Inv])]
  have htb : (⟨payload ++ p.ext.wireBytes, payload.length⟩ : Cursor).toBool = true := by simp [Cursor.toBool]; omega
  simp only [htb, if_true, take_append_len _ _ _ rfl]

/-! ### the excluded region is inhabited: known finding KF-C03-Icmp-3 -/

/-- parse ∘ serialize on an ICMP error message over a quote: does the quote come back, without extensions? -/
def quoteRoundTrip (p : Icmp4) (payload : Bytes) : Bool :=
  let cx : Ctx := ⟨[], [⟨"RawPDU", [], payload.length, 0⟩]⟩
  match p.write cx (List.replicate p.hdr 0 ++ payload) with
  | .ok out =>
    match Icmp4.parse out with
    | .ok (q, .raw r) => r == payload && q.ext.exts.isEmpty
    | .ok (_, .none) => payload.isEmpty
    | _ => false
  | _ => false

/-- the full statement of C03 for ICMP error messages without extensions -/
def icmp_reparse_quote_full : Prop :=
  ∀ (p : Icmp4) (payload : Bytes), p.Inv → p.Small → p.hasExt = false → Icmp4.extAllowed p.type = true →
    quoteRoundTrip p payload = true

/-- the witness: time exceeded, length field in use, a 141-byte quote whose bytes 128.. happen to be a valid extension
    structure (`2000 def5 0009 0101 0000000000`): the derived length 36 words = 144 bytes exceeds the quote (the padding
    is not written, KF-C05-1), the re-parser falls back to offset 128 and finds the structure -/
def ghostWitness : Icmp4 × Bytes :=
  (⟨11, 0, 0, [0, 33, 0, 0], List.replicate 4 0, List.replicate 4 0, List.replicate 4 0, ExtS.default⟩,
   List.replicate 128 0x45 ++ [0x20, 0, 0xde, 0xf5, 0, 9, 1, 1, 0, 0, 0, 0, 0])

set_option maxRecDepth 65536 in
theorem icmp_reparse_ghost_fails : ¬ icmp_reparse_quote_full := by
  intro h
  have h1 := h ghostWitness.1 ghostWitness.2 ⟨by decide, by decide, by decide, by decide⟩ ⟨by decide, by decide⟩ (by decide) (by decide)
  have h2 : quoteRoundTrip ghostWitness.1 ghostWitness.2 = false := by decide
  rw [h1] at h2
  cases h2

/-- the proved part: outside the ghost region the quote comes back -/
theorem icmp_reparse_quote_partial (p : Icmp4) (payload : Bytes) (hi : p.Inv) (hsm : p.Small) (he : p.hasExt = false)
    (ha : Icmp4.extAllowed p.type = true)
    (hg : ghostFree (p.lengthFor (Icmp4.innerOf payload.length) % 256 * 4) payload) :
    quoteRoundTrip p payload = true := by
  unfold quoteRoundTrip
  have hhl : (List.replicate p.hdr (0 : UInt8)).length = p.hdr := by simp
  have hdrop : (List.replicate p.hdr (0 : UInt8) ++ payload).drop p.hdr = payload := drop_append_len _ _ _ hhl
  have hcx : (⟨[], [⟨"RawPDU", [], payload.length, 0⟩]⟩ : Ctx).innerSize = payload.length := by simp [Ctx.innerSize]
  rcases icmp_reparse_quote ⟨[], [⟨"RawPDU", [], payload.length, 0⟩]⟩ p hi hsm he ha (List.replicate p.hdr 0 ++ payload)
    (by simp) (by rw [hcx, hdrop]; exact hg) with ⟨out, ck, hw, _, hp⟩
  simp only [hw, hp, hdrop]
  by_cases hl : (List.replicate p.hdr (0 : UInt8) ++ payload).length > p.hdr
  · simp only [hl, if_true]
    simp [Icmp4.onWire, ExtS.default]
  · simp only [hl, if_false]
    simp only [List.length_append, List.length_replicate] at hl
    have : payload = [] := List.eq_nil_of_length_eq_zero (by omega)
    simp [this]

/-- in particular: every quote that is a multiple of 4 bytes and at most 1020 bytes long -/
theorem icmp_reparse_quote_aligned (p : Icmp4) (payload : Bytes) (hi : p.Inv) (hsm : p.Small) (he : p.hasExt = false)
    (ha : Icmp4.extAllowed p.type = true) (h4 : payload.length % 4 = 0) (hmax : payload.length ≤ 1020) :
    quoteRoundTrip p payload = true :=
  icmp_reparse_quote_partial p payload hi hsm he ha (icmp_quote_ghostFree p he ha payload h4 hmax)

end Tins.Wire.Icmp
