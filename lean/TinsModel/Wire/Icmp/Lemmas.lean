import TinsModel.Wire.Icmp.Family
import TinsModel.Basic.CursorLemmas
import TinsModel.Basic.CodecLemmas
import TinsModel.Wire.ChainLemmas
import TinsModel.Wire.IfaceLemmas
/-
  Helper lemmas of the Icmp family: the outcome predicates of parsing steps (`ParseSafe`, `Good`, `GoodV`) with their
  sequencing rules, closed forms of the input / output stream operations, and the "only these bytes change" facts the
  C02 proofs are assembled from.
-/
namespace Tins.Wire.Icmp
open Tins Tins.Wire

/-- outcome classes of a parsing constructor: a packet, or `malformed_packet` — never a fault, never another exception -/
def ParseSafe {α} (r : Out α) : Prop := (∃ a, r = .ok a) ∨ r = .throw .malformedPacket

theorem ParseSafe.ok {α} (a : α) : ParseSafe (Out.ok a) := .inl ⟨a, rfl⟩
theorem ParseSafe.malformed {α} : ParseSafe (Out.throw .malformedPacket : Out α) := .inr rfl

theorem ParseSafe.bind {α β} {x : Out α} {f : α → Out β} (hx : ParseSafe x)
    (hf : ∀ a, x = .ok a → ParseSafe (f a)) : ParseSafe (x >>= f) := by
  rcases hx with ⟨a, rfl⟩ | rfl
  · exact hf a rfl
  · exact .inr rfl

theorem ParseSafe.not_fault {α} {r : Out α} (h : ParseSafe r) : r.isFault = false := by
  rcases h with ⟨a, rfl⟩ | rfl <;> rfl

/-- a parsing step that yields a value with property `Q`, or throws `malformed_packet` -/
def GoodV {α} (Q : α → Prop) (r : Out α) : Prop := (∃ a, r = .ok a ∧ Q a) ∨ r = .throw .malformedPacket

/-- a stream step started at `c0`: a value and a new stream state that is memory-safe, not longer than before and has
    property `Q` — or `malformed_packet` -/
def Good {α} (Q : α → Cursor → Prop) (c0 : Cursor) (r : Out (α × Cursor)) : Prop :=
  (∃ a c', r = .ok (a, c') ∧ c'.Inv ∧ c'.size ≤ c0.size ∧ Q a c') ∨ r = .throw .malformedPacket

theorem GoodV.safe {α} {Q : α → Prop} {r : Out α} (h : GoodV Q r) : ParseSafe r := by
  rcases h with ⟨a, e, _⟩ | e
  · exact .inl ⟨a, e⟩
  · exact .inr e

theorem Good.safe {α} {Q : α → Cursor → Prop} {c0 : Cursor} {r : Out (α × Cursor)} (h : Good Q c0 r) : ParseSafe r := by
  rcases h with ⟨a, c', e, _⟩ | e
  · exact .inl ⟨_, e⟩
  · exact .inr e

theorem GoodV.mono {α} {Q Q' : α → Prop} {r : Out α} (h : GoodV Q r) (hq : ∀ a, Q a → Q' a) : GoodV Q' r := by
  rcases h with ⟨a, e, q⟩ | e
  · exact .inl ⟨a, e, hq a q⟩
  · exact .inr e

theorem Good.mono {α} {Q Q' : α → Cursor → Prop} {c0 c1 : Cursor} {r : Out (α × Cursor)} (h : Good Q c0 r)
    (hs : c0.size ≤ c1.size) (hq : ∀ a c, c.Inv → c.size ≤ c0.size → Q a c → Q' a c) : Good Q' c1 r := by
  rcases h with ⟨a, c', e, i, s, q⟩ | e
  · exact .inl ⟨a, c', e, i, by omega, hq a c' i s q⟩
  · exact .inr e

/-- sequencing: a `Good` step followed by a continuation whose result satisfies `P` on every good outcome -/
theorem bind_good {α β} {Q : α → Cursor → Prop} {c0 : Cursor} {x : Out (α × Cursor)} {f : α × Cursor → Out β}
    {P : Out β → Prop} (hx : Good Q c0 x) (hthrow : P (.throw .malformedPacket))
    (hok : ∀ a c', c'.Inv → c'.size ≤ c0.size → Q a c' → P (f (a, c'))) : P (x >>= f) := by
  rcases hx with ⟨a, c', rfl, i, s, q⟩ | rfl
  · exact hok a c' i s q
  · exact hthrow

theorem bind_goodV {α β} {Q : α → Prop} {x : Out α} {f : α → Out β} {P : Out β → Prop} (hx : GoodV Q x)
    (hthrow : P (.throw .malformedPacket)) (hok : ∀ a, Q a → P (f a)) : P (x >>= f) := by
  rcases hx with ⟨a, rfl, q⟩ | rfl
  · exact hok a q
  · exact hthrow

theorem bind_ok_inv {α β} {x : Out α} {f : α → Out β} {r : β} (h : (x >>= f) = .ok r) : ∃ a, x = .ok a ∧ f a = .ok r := by
  cases x with
  | ok a => exact ⟨a, rfl, h⟩
  | throw e => cases h
  | fault s => cases h

theorem map_ok_inv {α β} {x : Out α} {f : α → β} {r : β} (h : (x >>= fun a => pure (f a)) = .ok r) :
    ∃ a, x = .ok a ∧ f a = r := by
  cases x with
  | ok a => exact ⟨a, rfl, by simpa [bind, Out.bind, pure] using h⟩
  | throw e => cases h
  | fault s => cases h

/-! ### input stream -/

theorem read_good (c : Cursor) (n : Nat) (h : c.Inv) :
    Good (fun bs c' => bs.length = n ∧ c'.size = c.size - n ∧ n ≤ c.size ∧ bs = c.mem.take n ∧ c'.mem = c.mem.drop n) c (c.read n) := by
  rcases Cursor.read_spec c n h with ⟨bs, c', he, hi, hl, hs, hn, hb, hm⟩ | ⟨he, _⟩
  · exact .inl ⟨bs, c', he, hi, by omega, hl, hs, hn, hb, hm⟩
  · exact .inr he

theorem readBE_good (c : Cursor) (n : Nat) (h : c.Inv) :
    Good (fun v c' => c'.size = c.size - n ∧ n ≤ c.size ∧ v = Cursor.beNat (c.mem.take n) ∧ c'.mem = c.mem.drop n) c (c.readBE n) := by
  rcases Cursor.read_spec c n h with ⟨bs, c', he, hi, _, hs, hn, hb, hm⟩ | ⟨he, _⟩
  · exact .inl ⟨Cursor.beNat bs, c', by simp [Cursor.readBE, he, bind, Out.bind], hi, by omega, hs, hn, by rw [hb], hm⟩
  · exact .inr (by simp [Cursor.readBE, he, bind, Out.bind])

theorem readLE_good (c : Cursor) (n : Nat) (h : c.Inv) :
    Good (fun v c' => c'.size = c.size - n ∧ n ≤ c.size ∧ v = Cursor.leNat (c.mem.take n) ∧ c'.mem = c.mem.drop n) c (c.readLE n) := by
  rcases Cursor.read_spec c n h with ⟨bs, c', he, hi, _, hs, hn, hb, hm⟩ | ⟨he, _⟩
  · exact .inl ⟨Cursor.leNat bs, c', by simp [Cursor.readLE, he, bind, Out.bind], hi, by omega, hs, hn, by rw [hb], hm⟩
  · exact .inr (by simp [Cursor.readLE, he, bind, Out.bind])

theorem readU8_good (c : Cursor) (h : c.Inv) :
    Good (fun v c' => c'.size = c.size - 1 ∧ 1 ≤ c.size ∧ v = Cursor.beNat (c.mem.take 1) ∧ c'.mem = c.mem.drop 1) c c.readU8 :=
  readBE_good c 1 h

theorem skip_good (c : Cursor) (n : Nat) (h : c.Inv) :
    (∃ c', c.skip n = .ok c' ∧ c'.Inv ∧ c'.size = c.size - n ∧ n ≤ c.size ∧ c'.mem = c.mem.drop n) ∨
      (c.skip n = .throw .malformedPacket ∧ c.size < n) := by
  unfold Cursor.skip
  by_cases hn : n > c.size
  · right; simp [hn]
  · left
    refine ⟨⟨c.mem.drop n, c.size - n⟩, by simp [hn], ?_, rfl, by omega, rfl⟩
    simp only [Cursor.Inv, List.length_drop] at *; omega

theorem rest_ok (site : String) (c : Cursor) (h : c.Inv) : Cursor.rest site c = .ok (c.mem.take c.size) := by
  unfold Cursor.rest rdN
  have h' : c.size ≤ c.mem.length := h
  simp [h']

theorem peek_ok (site : String) (c : Cursor) (i n : Nat) (h : c.Inv) (hg : i + n ≤ c.size) :
    c.peek site i n = .ok ((c.mem.drop i).take n) := by
  unfold Cursor.peek rdN
  have : i + n ≤ c.mem.length := by simp only [Cursor.Inv] at h; omega
  simp [this]

theorem beNat_lt (bs : Bytes) : Cursor.beNat bs < 256 ^ bs.length := by
  have aux : ∀ (bs : Bytes) (acc k : Nat), acc < 256 ^ k →
      bs.foldl (fun a b => a * 256 + b.toNat) acc < 256 ^ (k + bs.length) := by
    intro bs
    induction bs with
    | nil => intro acc k h; simpa using h
    | cons b bs ih =>
      intro acc k h
      simp only [List.foldl_cons, List.length_cons]
      have hb := UInt8.toNat_lt b
      have := ih (acc * 256 + b.toNat) (k + 1) (by rw [Nat.pow_succ]; omega)
      rw [show k + (bs.length + 1) = k + 1 + bs.length by omega]
      exact this
  have := aux bs 0 0 (by simp)
  simpa [Cursor.beNat] using this

theorem byteAt_lt (bs : Bytes) (i : Nat) : byteAt bs i < 256 := by
  unfold byteAt; exact UInt8.toNat_lt _

/-- the end of every parsing constructor of the family -/
theorem finishRaw_ok {α} (site : String) (p : α) (c : Cursor) (h : c.Inv) :
    finishRaw site p c = .ok (p, if c.toBool then .raw (c.mem.take c.size) else .none) := by
  unfold finishRaw
  by_cases hb : c.toBool
  · simp [hb, rest_ok site c h, bind, Out.bind]
  · simp [hb]

/-! ### output stream: "emit these bytes" -/

/-- the stream after `bs` has been written through it -/
def emit (o : OutCursor) (bs : Bytes) : OutCursor := ⟨o.done ++ bs, o.rest.drop bs.length, o.size - bs.length⟩

theorem emit_nil (o : OutCursor) : emit o [] = o := by simp [emit]

theorem emit_emit (o : OutCursor) (a b : Bytes) : emit (emit o a) b = emit o (a ++ b) := by
  simp only [emit, List.append_assoc, List.drop_drop, List.length_append, OutCursor.mk.injEq, true_and]
  omega

@[simp] theorem emit_size (o : OutCursor) (bs : Bytes) : (emit o bs).size = o.size - bs.length := rfl
@[simp] theorem emit_done (o : OutCursor) (bs : Bytes) : (emit o bs).done = o.done ++ bs := rfl
@[simp] theorem emit_rest (o : OutCursor) (bs : Bytes) : (emit o bs).rest = o.rest.drop bs.length := rfl

/-- a write that fits both the stream's size and the memory behind it -/
theorem write_emit (o : OutCursor) (bs : Bytes) (h1 : bs.length ≤ o.size) (h2 : bs.length ≤ o.rest.length) :
    o.write bs = .ok (emit o bs) := by
  unfold OutCursor.write emit
  have a1 : ¬ o.size < bs.length := by omega
  have a2 : ¬ o.rest.length < bs.length := by omega
  simp [a1, a2]

theorem writeBE_emit (o : OutCursor) (n v : Nat) (h1 : n ≤ o.size) (h2 : n ≤ o.rest.length) :
    o.writeBE n v = .ok (emit o (OutCursor.beBytes n v)) := by
  unfold OutCursor.writeBE; exact write_emit o _ (by simpa using h1) (by simpa using h2)

theorem skip_emit (o : OutCursor) (n : Nat) (h1 : n ≤ o.size) (h2 : n ≤ o.rest.length) :
    o.skip n = .ok (emit o (o.rest.take n)) := by
  unfold OutCursor.skip emit
  have a1 : ¬ n > o.size := by omega
  have a2 : (o.rest.take n).length = n := by simp only [List.length_take]; omega
  simp [a1, a2]

theorem emit_buffer (o : OutCursor) (bs : Bytes) : (emit o bs).buffer = o.done ++ bs ++ o.rest.drop bs.length := rfl

theorem emit_ofRegion_buffer (r bs : Bytes) : (emit (OutCursor.ofRegion r) bs).buffer = bs ++ r.drop bs.length := by
  simp [emit, OutCursor.ofRegion, OutCursor.buffer]

/-! ### slices and patches -/

theorem patch_length (h bs : Bytes) (off : Nat) (hb : off + bs.length ≤ h.length) : (patch h off bs).length = h.length := by
  simp only [patch, List.length_append, List.length_take, List.length_drop]; omega

theorem take_append_len {α} (a r : List α) (n : Nat) (h : a.length = n) : (a ++ r).take n = a := by
  subst h; exact List.take_left' rfl
theorem drop_append_len {α} (a r : List α) (n : Nat) (h : a.length = n) : (a ++ r).drop n = r := by
  subst h; exact List.drop_left' rfl

/-- the window `[a, a+n)` of a buffer -/
def window (r : Bytes) (a n : Nat) : Bytes := (r.drop a).take n

/-- overwriting bytes entirely before or entirely after a window leaves the window as it was -/
theorem window_patched (r bs : Bytes) (off a n : Nat) (hr : off + bs.length ≤ r.length)
    (hd : off + bs.length ≤ a ∨ a + n ≤ off) :
    window (r.take off ++ bs ++ r.drop (off + bs.length)) a n = window r a n := by
  unfold window
  have h1 : (r.take off).length = off := by simp only [List.length_take]; omega
  rcases hd with hd | hd
  · rw [List.append_assoc, List.drop_append, List.drop_append]
    have e1 : List.drop a (List.take off r) = [] := List.drop_eq_nil_of_le (by omega)
    have e2 : List.drop (a - (List.take off r).length) bs = [] := List.drop_eq_nil_of_le (by omega)
    rw [e1, e2, List.nil_append, List.nil_append, List.drop_drop]
    congr 2
    omega
  · rw [List.append_assoc, List.drop_append_of_le_length (by omega)]
    rw [List.take_append_of_le_length (by simp only [List.length_drop, h1]; omega)]
    rw [List.drop_take, List.take_take]
    congr 1
    omega

theorem length_patched' (r bs : Bytes) (off : Nat) (hr : off + bs.length ≤ r.length) :
    (r.take off ++ bs ++ r.drop (off + bs.length)).length = r.length := by
  simp only [List.length_append, List.length_take, List.length_drop]; omega

/-- a raw `memset` / `memcpy` inside the region and outside a window: succeeds, keeps the length and the window -/
theorem poke_window (site : String) (r bs : Bytes) (off a n : Nat) (hr : off + bs.length ≤ r.length)
    (hd : off + bs.length ≤ a ∨ a + n ≤ off) :
    ∃ out, poke site r off bs = .ok out ∧ out.length = r.length ∧ window out a n = window r a n :=
  ⟨_, poke_eq site r bs off hr, length_patched' r bs off hr, window_patched r bs off a n hr hd⟩

theorem innerOf_eq_window (l : LayerSem) (r : Bytes) : innerOf l r = window r l.hdr (r.length - (l.hdr + l.trl)) := rfl

end Tins.Wire.Icmp
