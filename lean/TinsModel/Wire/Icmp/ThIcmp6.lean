import TinsModel.Wire.Icmp.ThExt
/-
  ICMPv6: C01 (`icmp6_parse_safe`, `icmp6_parse_no_cls`) — the option loop, the MLDv2 record loop with its nested
  source loops, the MLD query sources, the extension search — and the object invariant established by parsing
  (cached `options_size_` = Σ option sizes, address lists well-formed).
-/
namespace Tins.Wire.Icmp
open Tins Tins.Wire

structure McastRec.WF (r : McastRec) : Prop where
  addr : r.addr.length = 16
  srcs : ∀ s ∈ r.sources, s.length = 16

/-- Σ over the options of what each adds to `options_size_` (= what `write_option` emits for it) -/
def Icmp6.wireSum : List Opt → Nat
  | [] => 0
  | o :: os => Icmp6.optWire o + Icmp6.wireSum os

/-- the object invariant of `ICMPv6` -/
structure Icmp6.Inv (p : Icmp6) : Prop where
  un : p.un.length = 4
  target : p.target.length = 16
  dest : p.dest.length = 16
  mcast : p.mcast.length = 16
  reach : p.reach.length = 4
  retrans : p.retrans.length = 4
  mlqm : p.mlqm.length = 2
  sources : ∀ s ∈ p.sources, s.length = 16
  records : ∀ r ∈ p.records, r.WF
  optData : ∀ o ∈ p.opts, o.data.length ≤ 65535
  optsSize : p.optsSize = Icmp6.wireSum p.opts % 4294967296

/-- `while (sources_count--) read 16 bytes` -/
theorem readAddrs_good (n : Nat) (c : Cursor) (h : c.Inv) :
    Good (fun l c' => (∀ s ∈ l, s.length = 16) ∧ l.length = n ∧ c'.size + 16 * n = c.size) c (readAddrs n c) := by
  induction n generalizing c with
  | zero => exact .inl ⟨[], c, rfl, h, Nat.le_refl _, by simp, rfl, by omega⟩
  | succ n ih =>
    unfold readAddrs
    refine bind_good (read_good c 16 h) (.inr rfl) ?_
    intro a c1 i1 s1 ⟨ha, q1, n1, _⟩
    refine bind_good (ih c1 i1) (.inr rfl) ?_
    intro rest c2 i2 s2 ⟨hr, hl, q2⟩
    refine .inl ⟨_, c2, rfl, i2, by omega, ?_, by simp [hl], by omega⟩
    intro s hs
    rcases List.mem_cons.mp hs with rfl | hs
    · exact ha
    · exact hr s hs

/-- `multicast_address_record(buffer, total_sz)`: the raw `aux_data.assign` is guarded by `can_read` -/
theorem mcastrec_parse_good (c : Cursor) (h : c.Inv) : GoodV (fun r => r.WF ∧ r.size ≤ c.size) (McastRec.parse c) := by
  unfold McastRec.parse
  refine bind_good (readU8_good c h) (.inr rfl) ?_
  intro t c1 i1 _ ⟨q1, n1, _⟩
  refine bind_good (readU8_good c1 i1) (.inr rfl) ?_
  intro aw c2 i2 _ ⟨q2, n2, _⟩
  dsimp only
  refine bind_good (readBE_good c2 2 i2) (.inr rfl) ?_
  intro cnt c3 i3 _ ⟨q3, n3, _⟩
  refine bind_good (read_good c3 16 i3) (.inr rfl) ?_
  intro addr c4 i4 _ ⟨ha, q4, n4, _⟩
  refine bind_good (readAddrs_good cnt c4 i4) (.inr rfl) ?_
  intro srcs c5 i5 _ ⟨hs, hl, q5⟩
  dsimp only
  by_cases hc : c5.canRead (aw * 4)
  · simp only [hc, Bool.not_true, Bool.false_eq_true, if_false]
    have hle : aw * 4 ≤ c5.size := by simpa [Cursor.canRead] using hc
    rw [peek_ok _ c5 0 (aw * 4) i5 (by omega)]
    simp only [Out.bind_ok]
    refine .inl ⟨_, rfl, ⟨ha, hs⟩, ?_⟩
    have hm : c5.size ≤ c5.mem.length := i5
    simp only [McastRec.size, hl, List.drop_zero, List.length_take]
    omega
  · simp only [hc, Bool.not_false, if_true]; exact .inr rfl

theorem parseRecords_good (n : Nat) (c : Cursor) (h : c.Inv) :
    Good (fun l c' => (∀ r ∈ l, r.WF) ∧ (l.map McastRec.size).sum + c'.size = c.size) c (Icmp6.parseRecords n c) := by
  induction n generalizing c with
  | zero => exact .inl ⟨[], c, rfl, h, Nat.le_refl _, by simp, by simp⟩
  | succ n ih =>
    unfold Icmp6.parseRecords
    refine bind_goodV (mcastrec_parse_good c h) (.inr rfl) ?_
    intro r ⟨hw, hsz⟩
    rcases skip_good c r.size h with ⟨c1, e1, i1, s1, _⟩ | ⟨e1, _⟩
    · rw [e1, Out.bind_ok]
      refine bind_good (ih c1 i1) (.inr rfl) ?_
      intro rest c2 i2 s2 ⟨hr, hsum⟩
      refine .inl ⟨_, c2, rfl, i2, by omega, ?_, by simp only [List.map_cons, List.sum_cons]; omega⟩
      intro x hx
      rcases List.mem_cons.mp hx with rfl | hx
      · exact hw
      · exact hr x hx
    · rw [e1]; exact .inr rfl

structure Icmp6.Body.WF (b : Icmp6.Body) : Prop where
  target : b.target.length = 16
  dest : b.dest.length = 16
  reach : b.reach.length = 4
  retrans : b.retrans.length = 4
  records : ∀ r ∈ b.records, r.WF
  mcast : b.mcast.length = 16
  mlqm : b.mlqm.length = 2
  sources : ∀ s ∈ b.sources, s.length = 16

theorem zeros_length (n : Nat) : (Icmp6.zeros n).length = n := by simp [Icmp6.zeros]

/-- what the type-dependent body occupies on the wire (`ICMPv6::header_size()`'s `extra`), in terms of the parsed body -/
def Icmp6.Body.extra (t : Nat) (b : Icmp6.Body) : Nat :=
  if t == 134 then 8
  else if t == 143 then (b.records.map McastRec.size).sum
  else if t == 130 then 16 + (if b.useMldv2 then 2 + 2 + 16 * b.sources.length else 0)
  else 0

theorem icmp6_readBody_good (t : Nat) (un : Bytes) (c : Cursor) (h : c.Inv) :
    Good (fun b c' => b.WF ∧ c'.size + (if Icmp6.hasTarget t then 16 else 0) + (if Icmp6.hasDest t then 16 else 0) + b.extra t ≤ c.size)
      c (Icmp6.readBody t un c) := by
  unfold Icmp6.readBody
  refine bind_good (readIf_good _ 16 c h) (.inr rfl) ?_
  intro target c1 i1 s1 ⟨ht, a1⟩
  refine bind_good (readIf_good _ 16 c1 i1) (.inr rfl) ?_
  intro dest c2 i2 s2 ⟨hd, a2⟩
  dsimp only
  have wf0 : (⟨target, dest, Icmp6.zeros 4, Icmp6.zeros 4, [], Icmp6.zeros 16, true, Icmp6.zeros 2, []⟩ : Icmp6.Body).WF :=
    ⟨ht, hd, zeros_length 4, zeros_length 4, by simp, zeros_length 16, zeros_length 2, by simp⟩
  by_cases h134 : (t == 134) = true
  · simp only [h134, if_true]
    refine bind_good (read_good c2 4 i2) (.inr rfl) ?_
    intro reach c3 i3 s3 ⟨hre, q3, n3, _⟩
    refine bind_good (read_good c3 4 i3) (.inr rfl) ?_
    intro retrans c4 i4 s4 ⟨hrt, q4, n4, _⟩
    exact .inl ⟨_, c4, rfl, i4, by omega, ⟨ht, hd, hre, hrt, by simp, zeros_length 16, zeros_length 2, by simp⟩,
      by simp only [Icmp6.Body.extra, h134, if_true]; omega⟩
  · simp only [h134, Bool.false_eq_true, if_false]
    by_cases h143 : (t == 143) = true
    · simp only [h143, if_true]
      refine bind_good (parseRecords_good _ c2 i2) (.inr rfl) ?_
      intro recs c3 i3 s3 ⟨hr, hsum⟩
      exact .inl ⟨_, c3, rfl, i3, by omega, ⟨ht, hd, zeros_length 4, zeros_length 4, hr, zeros_length 16, zeros_length 2, by simp⟩,
        by simp only [Icmp6.Body.extra, h134, h143, Bool.false_eq_true, if_false, if_true]; omega⟩
    · simp only [h143, Bool.false_eq_true, if_false]
      by_cases h130 : (t == 130) = true
      · simp only [h130, if_true]
        refine bind_good (read_good c2 16 i2) (.inr rfl) ?_
        intro mcast c3 i3 s3 ⟨hm, q3, n3, _⟩
        dsimp only
        by_cases hb : c3.toBool
        · simp only [hb, if_true]
          refine bind_good (read_good c3 2 i3) (.inr rfl) ?_
          intro mlqm c4 i4 s4 ⟨hq, q4, n4, _⟩
          refine bind_good (readBE_good c4 2 i4) (.inr rfl) ?_
          intro cnt c5 i5 s5 ⟨q5, n5, _⟩
          refine bind_good (readAddrs_good cnt c5 i5) (.inr rfl) ?_
          intro srcs c6 i6 s6 ⟨hs, hl, q6⟩
          exact .inl ⟨_, c6, rfl, i6, by omega, ⟨ht, hd, zeros_length 4, zeros_length 4, by simp, hm, hq, hs⟩,
            by simp only [Icmp6.Body.extra, h134, h143, h130, Bool.false_eq_true, if_false, if_true, hl]; omega⟩
        · simp only [hb, Bool.false_eq_true, if_false]
          exact .inl ⟨_, c3, rfl, i3, by omega, ⟨ht, hd, zeros_length 4, zeros_length 4, by simp, hm, zeros_length 2, by simp⟩,
            by simp only [Icmp6.Body.extra, h134, h143, h130, Bool.false_eq_true, if_false, if_true]; omega⟩
      · simp only [h130, Bool.false_eq_true, if_false]
        exact .inl ⟨_, c2, rfl, i2, by omega, wf0,
          by simp only [Icmp6.Body.extra, h134, h143, h130, Bool.false_eq_true, if_false]; omega⟩

/-- **C01 / ICMPv6 option loop**: the length octet is in units of 8 octets; a zero length is rejected; the raw copy of
    the payload is guarded by `can_read`; every round consumes at least two bytes, so fuel `size` suffices -/
theorem icmp6_parseOpts_good (fuel : Nat) (c : Cursor) (h : c.Inv) (hf : c.size ≤ fuel) :
    GoodV (fun os => (∀ o ∈ os, o.data.length ≤ 65535) ∧ Icmp6.wireSum os ≤ c.size) (Icmp6.parseOpts fuel c) := by
  induction fuel generalizing c with
  | zero =>
    unfold Icmp6.parseOpts
    have : c.toBool = false := by simp only [Cursor.toBool]; simp; omega
    simp only [this, Bool.false_eq_true, if_false]
    exact .inl ⟨[], rfl, by simp, by simp [Icmp6.wireSum]⟩
  | succ fuel ih =>
    unfold Icmp6.parseOpts
    by_cases hb : c.toBool
    · simp only [hb, Bool.not_true, Bool.false_eq_true, if_false]
      refine bind_good (readU8_good c h) (.inr rfl) ?_
      intro t c1 i1 _ ⟨q1, n1, _⟩
      refine bind_good (readU8_good c1 i1) (.inr rfl) ?_
      intro l c2 i2 _ ⟨q2, n2, hl, _⟩
      dsimp only
      by_cases h2 : l * 8 < 2
      · simp only [h2, if_true]; exact .inr rfl
      · simp only [h2, if_false]
        by_cases hc : c2.canRead (l * 8 - 2)
        · simp only [hc, Bool.not_true, Bool.false_eq_true, if_false]
          have hle : l * 8 - 2 ≤ c2.size := by simpa [Cursor.canRead] using hc
          rw [peek_ok _ c2 0 (l * 8 - 2) i2 (by omega)]
          simp only [Out.bind_ok]
          rcases skip_good c2 (l * 8 - 2) i2 with ⟨c3, e3, i3, s3, _⟩ | ⟨e3, _⟩
          · rw [e3, Out.bind_ok]
            refine bind_goodV (ih c3 i3 (by omega)) (.inr rfl) ?_
            intro rest ⟨hr, hws⟩
            have hm2 : c2.size ≤ c2.mem.length := i2
            refine .inl ⟨_, rfl, ?_, by
              simp only [Icmp6.wireSum, Icmp6.optWire, List.drop_zero, List.length_take]; omega⟩
            intro o ho
            rcases List.mem_cons.mp ho with rfl | ho
            · have hl256 : l < 256 := by
                have := beNat_lt (c1.mem.take 1)
                have hl1 : (c1.mem.take 1).length ≤ 1 := by simp only [List.length_take]; omega
                have : 256 ^ (c1.mem.take 1).length ≤ 256 ^ 1 := Nat.pow_le_pow_right (by omega) hl1
                omega
              simp only [List.drop_zero, List.length_take]; omega
            · exact hr o ho
          · rw [e3]; exact .inr rfl
        · simp only [hc, Bool.not_false, if_true]; exact .inr rfl
    · simp only [hb, Bool.not_false, if_true]
      exact .inl ⟨[], rfl, by simp, by simp [Icmp6.wireSum]⟩

theorem sizeAfter_eq (os : List Opt) (s : Nat) :
    Icmp6.sizeAfter s os = (s % 4294967296 + Icmp6.wireSum os) % 4294967296 ∨ os = [] ∧ Icmp6.sizeAfter s os = s := by
  induction os generalizing s with
  | nil => right; exact ⟨rfl, rfl⟩
  | cons o os ih =>
    left
    simp only [Icmp6.sizeAfter, List.foldl_cons, Icmp6.wireSum]
    rcases ih ((s + Icmp6.optWire o) % 4294967296) with e | ⟨rfl, e⟩
    · simp only [Icmp6.sizeAfter] at e
      rw [e]; omega
    · simp only [List.foldl_nil, Icmp6.wireSum]; omega

theorem sizeAfter_zero (os : List Opt) : Icmp6.sizeAfter 0 os = Icmp6.wireSum os % 4294967296 := by
  rcases sizeAfter_eq os 0 with e | ⟨rfl, e⟩
  · rw [e]; simp
  · simp [Icmp6.sizeAfter, Icmp6.wireSum]

/-- the constructor up to the point where the rest of the stream becomes the inner `RawPDU` -/
theorem icmp6_parseHead_good (b : Bytes) :
    Good (fun p c => p.Inv ∧ c.size + 8 ≤ b.length ∧
        8 + Icmp6.wireSum p.opts + p.extra + (if Icmp6.hasTarget p.type then 16 else 0) + (if Icmp6.hasDest p.type then 16 else 0) ≤ b.length ∧
        (4 + (p.ext.exts.map ExtObj.size).sum ≤ b.length ∨ p.ext = ExtS.default))
      (Cursor.ofBytes b) (Icmp6.parseHead b) := by
  unfold Icmp6.parseHead
  have i0 := Cursor.ofBytes_inv b
  have hb0 : (Cursor.ofBytes b).size = b.length := rfl
  refine bind_good (readU8_good _ i0) (.inr rfl) ?_
  intro t c1 i1 s1 ⟨q1, n1, _⟩
  refine bind_good (readU8_good c1 i1) (.inr rfl) ?_
  intro code c2 i2 s2 ⟨q2, n2, _⟩
  refine bind_good (readBE_good c2 2 i2) (.inr rfl) ?_
  intro ck c3 i3 s3 ⟨q3, n3, _⟩
  refine bind_good (read_good c3 4 i3) (.inr rfl) ?_
  intro un c4 i4 s4 ⟨hun, q4, n4, _⟩
  refine bind_good (icmp6_readBody_good t un c4 i4) (.inr rfl) ?_
  intro body c5 i5 s5 ⟨hbody, hacc⟩
  dsimp only
  have stepO : Good (fun os c' => (∀ o ∈ os, o.data.length ≤ 65535) ∧ Icmp6.wireSum os + c'.size ≤ c5.size) c5
      (Icmp6.parseOptsIf (Icmp6.hasOptions t) c5) := by
    unfold Icmp6.parseOptsIf
    split
    · refine bind_goodV (icmp6_parseOpts_good c5.size c5 i5 (Nat.le_refl _)) (.inr rfl) ?_
      intro os ⟨hos, hws⟩
      exact .inl ⟨os, ⟨[], 0⟩, rfl, by simp [Cursor.Inv], by simp, hos, by simpa using hws⟩
    · exact .inl ⟨[], c5, rfl, i5, Nat.le_refl _, by simp, by simp [Icmp6.wireSum]⟩
  refine bind_good stepO (.inr rfl) ?_
  intro opts c6 i6 s6 ⟨hopts, hws⟩
  refine bind_good (tryParseExtIf_good _ c6 _ i6) (.inr rfl) ?_
  intro ext c7 i7 s7 hq
  refine .inl ⟨_, c7, rfl, i7, by omega, ?_, by omega, ?_, ?_⟩
  · exact ⟨hun, hbody.target, hbody.dest, hbody.mcast, hbody.reach, hbody.retrans, hbody.mlqm, hbody.sources,
      hbody.records, hopts, sizeAfter_zero opts⟩
  · have hex : Icmp6.extra ⟨t, code, ck, un, body.target, body.dest, body.mcast, opts, Icmp6.sizeAfter 0 opts, body.reach,
        body.retrans, body.records, body.mlqm, body.sources, ext, body.useMldv2⟩ = body.extra t := rfl
    simp only [hex]
    omega
  · rcases hq with hq | hq
    · left; simp only; omega
    · right; exact hq

/-- **C01 / ICMPv6**: for every byte string the parsing constructor returns a packet or throws `malformed_packet` -/
theorem icmp6_parse_safe (b : Bytes) : ParseSafe (Icmp6.parse b) := by
  unfold Icmp6.parse
  refine bind_good (icmp6_parseHead_good b) .malformed ?_
  intro p c i _ _
  dsimp only
  rw [finishRaw_ok _ p c i]
  exact .ok _

theorem icmp6_parse_shape (b : Bytes) (p : Icmp6) (inner : Inner) (h : Icmp6.parse b = .ok (p, inner)) :
    p.Inv ∧ (inner = .none ∨ ∃ r, inner = .raw r ∧ r.length < b.length) ∧
      8 + Icmp6.wireSum p.opts + p.extra + (if Icmp6.hasTarget p.type then 16 else 0) + (if Icmp6.hasDest p.type then 16 else 0) ≤ b.length ∧
      (4 + (p.ext.exts.map ExtObj.size).sum ≤ b.length ∨ p.ext = ExtS.default) := by
  unfold Icmp6.parse at h
  rcases icmp6_parseHead_good b with ⟨q, c, e, i, s, hq, h8, hsz, hx⟩ | e
  · rw [e, Out.bind_ok] at h
    dsimp only at h
    rw [finishRaw_ok _ q c i] at h
    injection h with h
    injection h with h1 h2
    subst h1
    refine ⟨hq, ?_, hsz, hx⟩
    by_cases hb : c.toBool
    · right
      simp only [hb, if_true] at h2
      refine ⟨_, h2.symm, ?_⟩
      simp only [List.length_take]; omega
    · left
      simp only [hb, Bool.false_eq_true, if_false] at h2
      exact h2.symm
  · rw [e] at h; cases h

theorem icmp6_parse_no_cls (b : Bytes) (p : Icmp6) (name : String) (pb : Bytes) (fb : Bool) :
    Icmp6.parse b ≠ .ok (p, .cls name pb fb) := by
  intro h
  rcases (icmp6_parse_shape b p _ h).2.1 with h1 | ⟨r, h1, _⟩ <;> cases h1

theorem icmp6_parse_inv (b : Bytes) (p : Icmp6) (i : Inner) (h : Icmp6.parse b = .ok (p, i)) : p.Inv :=
  (icmp6_parse_shape b p i h).1

end Tins.Wire.Icmp
