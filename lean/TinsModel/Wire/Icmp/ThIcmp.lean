import TinsModel.Wire.Icmp.ThExt
/-
  ICMP: C01 (`icmp_parse_safe`, `icmp_parse_no_cls`), the object invariant established by parsing, by the public
  constructor and kept by every API call.
-/
namespace Tins.Wire.Icmp
open Tins Tins.Wire

/-- the object invariant of `ICMP`: the raw struct members have their declared sizes -/
structure Icmp4.Inv (p : Icmp4) : Prop where
  un : p.un.length = 4
  orig : p.orig.length = 4
  recv : p.recv.length = 4
  trans : p.trans.length = 4

theorem icmp_readBody_good (t : Nat) (c : Cursor) (h : c.Inv) :
    Good (fun v _ => v.1.length = 4 ∧ v.2.1.length = 4 ∧ v.2.2.length = 4) c (Icmp4.readBody t c) := by
  unfold Icmp4.readBody
  by_cases ht : Icmp4.isTimestamp t
  · simp only [ht, if_true]
    refine bind_good (read_good c 4 h) (.inr rfl) ?_
    intro o c1 i1 s1 ⟨ho, _⟩
    refine bind_good (read_good c1 4 i1) (.inr rfl) ?_
    intro r c2 i2 s2 ⟨hr, _⟩
    refine bind_good (read_good c2 4 i2) (.inr rfl) ?_
    intro x c3 i3 s3 ⟨hx, _⟩
    exact .inl ⟨_, c3, rfl, i3, by omega, ho, hr, hx⟩
  · simp only [ht, Bool.false_eq_true, if_false]
    by_cases hm : Icmp4.isMask t
    · simp only [hm, if_true]
      refine bind_good (read_good c 4 h) (.inr rfl) ?_
      intro o c1 i1 s1 ⟨ho, _⟩
      exact .inl ⟨_, c1, rfl, i1, s1, ho, by simp, by simp⟩
    · simp only [hm, Bool.false_eq_true, if_false]
      exact .inl ⟨_, c, rfl, h, Nat.le_refl _, by simp, by simp, by simp⟩

/-- the constructor up to the point where the rest of the stream becomes the inner `RawPDU` -/
theorem icmp_parseHead_good (b : Bytes) :
    Good (fun p c => p.Inv ∧ c.size + 8 ≤ b.length ∧
        (4 + (p.ext.exts.map ExtObj.size).sum ≤ b.length ∨ p.ext = ExtS.default))
      (Cursor.ofBytes b) (Icmp4.parseHead b) := by
  unfold Icmp4.parseHead
  have i0 := Cursor.ofBytes_inv b
  have hb0 : (Cursor.ofBytes b).size = b.length := rfl
  refine bind_good (readU8_good _ i0) (.inr rfl) ?_
  intro t c1 i1 s1 ⟨q1, n1, _⟩
  refine bind_good (readU8_good c1 i1) (.inr rfl) ?_
  intro code c2 i2 s2 ⟨q2, n2, _⟩
  refine bind_good (readBE_good c2 2 i2) (.inr rfl) ?_
  intro check c3 i3 s3 ⟨q3, n3, _⟩
  refine bind_good (read_good c3 4 i3) (.inr rfl) ?_
  intro un c4 i4 s4 ⟨hun, q4, n4, _⟩
  refine bind_good (icmp_readBody_good t c4 i4) (.inr rfl) ?_
  intro body c5 i5 s5 ⟨ho, hr, hx⟩
  obtain ⟨orig, recv, trans⟩ := body
  dsimp only at ho hr hx ⊢
  refine bind_good (tryParseExtIf_good _ c5 _ i5) (.inr rfl) ?_
  intro ext c6 i6 s6 hq
  refine .inl ⟨_, c6, rfl, i6, by omega, ⟨hun, ho, hr, hx⟩, by omega, ?_⟩
  rcases hq with hq | hq
  · left; simp only; omega
  · right; exact hq

/-- **C01 / ICMP**: for every byte string the parsing constructor returns a packet or throws `malformed_packet`; the
    raw accesses of the extension search stay inside the buffer -/
theorem icmp_parse_safe (b : Bytes) : ParseSafe (Icmp4.parse b) := by
  unfold Icmp4.parse
  refine bind_good (icmp_parseHead_good b) .malformed ?_
  intro p c i _ _
  dsimp only
  rw [finishRaw_ok _ p c i]
  exact .ok _

/-- what the constructor leaves as inner PDU is a `RawPDU` over the rest of the stream, or nothing -/
theorem icmp_parse_shape (b : Bytes) (p : Icmp4) (inner : Inner) (h : Icmp4.parse b = .ok (p, inner)) :
    p.Inv ∧ (inner = .none ∨ ∃ r, inner = .raw r ∧ r.length < b.length) ∧
      (4 + (p.ext.exts.map ExtObj.size).sum ≤ b.length ∨ p.ext = ExtS.default) := by
  unfold Icmp4.parse at h
  rcases icmp_parseHead_good b with ⟨q, c, e, i, s, hq, h8, hx⟩ | e
  · rw [e, Out.bind_ok] at h
    dsimp only at h
    rw [finishRaw_ok _ q c i] at h
    injection h with h
    injection h with h1 h2
    subst h1
    refine ⟨hq, ?_, hx⟩
    by_cases hb : c.toBool
    · right
      simp only [hb, if_true] at h2
      refine ⟨_, h2.symm, ?_⟩
      simp only [List.length_take]; omega
    · left
      simp only [hb, Bool.false_eq_true, if_false] at h2
      exact h2.symm
  · rw [e] at h; cases h

theorem icmp_parse_no_cls (b : Bytes) (p : Icmp4) (name : String) (pb : Bytes) (fb : Bool) :
    Icmp4.parse b ≠ .ok (p, .cls name pb fb) := by
  intro h
  rcases (icmp_parse_shape b p _ h).2.1 with h1 | ⟨r, h1, _⟩ <;> cases h1

theorem icmp_parse_inv (b : Bytes) (p : Icmp4) (i : Inner) (h : Icmp4.parse b = .ok (p, i)) : p.Inv :=
  (icmp_parse_shape b p i h).1

end Tins.Wire.Icmp
