import TinsModel.Wire.Iface
/-
  Family interface of `Icmp`: ICMP (+ RFC 4884 extensions), ICMPv6 (+ options), ICMPExtensionsStructure (stub: no class of this family is modelled yet).
  A family module exports, in namespace `Tins.Wire.Icmp`:
    Obj, classes, parse, info, hdr, trl, write, mk, apply   (see TinsModel/Wire/Iface.lean)
-/
namespace Tins.Wire.Icmp

inductive Obj
  | unit
deriving Repr

/-- C++ class names whose parsing constructor this family models -/
def classes : List String := []

/-- the parsing constructor `cls(buffer, total_sz)` (or `from_bytes`) -/
def parse (_cls : String) (_b : Bytes) : Out (Obj × Inner) := .throw .stdOther

/-- (actual class name, getter dump) -/
def info (_o : Obj) : String × Fields := ("", [])

def hdr (_o : Obj) : Nat := 0
def trl (_o : Obj) (_innerSize : Nat) : Nat := 0

/-- `write_serialization(buffer, total_sz)` on the layer's region -/
def write (_cx : Ctx) (_o : Obj) (region : Bytes) : Out Bytes := .ok region

/-- public (non-parsing) constructors: `new <cls> args…` -/
def mk (_cls : String) (_args : List String) : Out Obj := .throw .stdOther

/-- one API call on the object: setters, add/remove option … -/
def apply (_o : Obj) (_op : List String) : Out Obj := .throw .stdOther

end Tins.Wire.Icmp
