import TinsModel.Wire.Icmp.Icmp6
/-
  Family interface of `Icmp`: ICMP (+ RFC 4884 extensions, ICMPExtensionsStructure) and ICMPv6 (+ options, MLD records).
  A family module exports, in namespace `Tins.Wire.Icmp`:
    Obj, classes, parse, info, hdr, trl, write, mk, apply   (see TinsModel/Wire/Iface.lean)
-/
namespace Tins.Wire.Icmp

inductive Obj
  | icmp (p : Icmp4)
  | icmp6 (p : Icmp6)
deriving Repr

/-- C++ class names whose parsing constructor this family models -/
def classes : List String := ["ICMP", "ICMPv6"]

/-- the parsing constructor `cls(buffer, total_sz)` -/
def parse (cls : String) (b : Bytes) : Out (Obj × Inner) :=
  if cls == "ICMP" then (Icmp4.parse b) >>= fun (p, i) => pure (.icmp p, i)
  else if cls == "ICMPv6" then (Icmp6.parse b) >>= fun (p, i) => pure (.icmp6 p, i)
  else .throw .stdOther

/-- (actual class name, getter dump) -/
def info : Obj → String × Fields
  | .icmp p => ("ICMP", p.fields)
  | .icmp6 p => ("ICMPv6", p.fields)

def hdr : Obj → Nat
  | .icmp p => p.hdr
  | .icmp6 p => p.hdr

def trl : Obj → Nat → Nat
  | .icmp p, n => p.trl n
  | .icmp6 p, n => p.trl n

/-- `write_serialization(buffer, total_sz)` on the layer's region -/
def write (cx : Ctx) : Obj → Bytes → Out Bytes
  | .icmp p, region => p.write cx region
  | .icmp6 p, region => p.write cx region

/-- public (non-parsing) constructors: `new <cls> args…` -/
def mk (cls : String) (args : List String) : Out Obj :=
  if cls == "ICMP" then (Icmp4.make args) >>= fun p => pure (.icmp p)
  else if cls == "ICMPv6" then (Icmp6.make args) >>= fun p => pure (.icmp6 p)
  else .throw .stdOther

/-- one API call on the object: setters, add/remove option … -/
def apply : Obj → List String → Out Obj
  | .icmp p, op => (p.apply op) >>= fun x => pure (.icmp x)
  | .icmp6 p, op => (p.apply op) >>= fun x => pure (.icmp6 x)

end Tins.Wire.Icmp
